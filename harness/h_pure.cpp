// E-pure: direct calls of libftp's pure helpers (and the cmdline parser); one line in, one line out.
//   <op> <args…>   ->   <op> <args…> => <output>
// Built from /repo's working tree with -fno-access-control (private static helpers of ftp::client).
#include "common.hpp"
#include <locale>
#include <optional>
#include <chrono>
#include <cstdlib>
#include <ftp/ftp.hpp>
#include <ftp/detail/utils.hpp>
#include <ftp/detail/ascii_istream.hpp>
#include <ftp/detail/ascii_ostream.hpp>
#include "command_parser.hpp"
#include "cmdline_exception.hpp"

using namespace vh;

namespace {

struct chop_source : ftp::input_stream
{
    std::string data; std::size_t pos = 0;
    std::vector<std::size_t> sched; std::size_t call = 0;
    std::size_t read(char *buf, std::size_t size) override
    {
        std::size_t want = size;
        if (call < sched.size()) { want = sched[call] == 0 ? 1 : sched[call]; }
        call++;
        std::size_t got = std::min(std::min(want, size), data.size() - pos);
        std::copy(data.data() + pos, data.data() + pos + got, buf);
        pos += got;
        return got;
    }
};

struct rec_sink : ftp::output_stream
{
    std::string bytes; int flushes = 0;
    void write(char *buf, std::size_t size) override { bytes.append(buf, size); }
    void flush() override { flushes++; }
};

std::string opt(bool ok, unsigned long long v) { return ok ? "some " + std::to_string(v) : "none"; }

std::string command_name(command c)
{
    switch (c)
    {
#define V(x) case command::x: return #x;
        V(open) V(mode) V(active) V(passive) V(user) V(cd) V(cdup) V(ls) V(put) V(get) V(rename) V(pwd)
        V(mkdir) V(rmdir) V(del) V(stat) V(syst) V(type) V(binary) V(ascii) V(size) V(noop) V(rhelp)
        V(logout) V(close) V(help) V(exit)
#undef V
        default: return "enum:" + std::to_string(static_cast<int>(c));
    }
}

std::string run(const std::vector<std::string> & a)
{
    const std::string & op = a[0];
    std::size_t n = a.size() - 1;
    unsigned long long v;
    std::string s, t;

    if (op == "cls" && n == 1 && nat(a[1], v))
    {
        ftp::reply r(static_cast<std::uint16_t>(v), "");
        return std::to_string(r.is_positive()) + " " + std::to_string(r.is_negative()) + " " + std::to_string(r.is_intermediate());
    }
    if (op == "clsdef" && n == 0)
    {
        ftp::reply r;
        return std::to_string(r.is_positive()) + " " + std::to_string(r.is_negative()) + " " + std::to_string(r.is_intermediate())
               + " " + std::to_string(r.get_code()) + " " + hex(r.get_status_string());
    }
    if (op == "agg" && n == 1)
    {
        ftp::replies rs;
        for (const std::string & item : list(a[1]))
        {
            std::vector<std::string> p = split(item, ':');
            if (p.size() != 2 || !nat(p[0], v) || !unhex(p[1], s)) return "bad-op";
            rs.append(ftp::reply(static_cast<std::uint16_t>(v), s));
        }
        std::string members;
        for (const ftp::reply & r : rs)
        {
            if (!members.empty()) members += ",";
            members += std::to_string(r.get_code()) + ":" + hex(r.get_status_string());
        }
        if (members.empty()) members = "-";
        // begin()/end() and get_replies() must agree
        if (static_cast<std::size_t>(rs.end() - rs.begin()) != rs.get_replies().size()) members += "!";
        return std::to_string(rs.is_positive()) + " " + hex(rs.get_status_string()) + " " + members;
    }
    if (op == "aggq" && n == 2)
    {
        // aggq <queries 0/1 per position, one more than members> <members>: the aggregate is asked is_positive() (and the status
        // string) BEFORE member i is appended wherever the i-th flag is 1 (position 0 = while it is still empty); every answer,
        // the final answer, and the final answer of a copy made half-way are reported
        std::vector<std::string> items = list(a[2]);
        if (a[1].size() != items.size() + 1) return "bad-op";
        ftp::replies rs; std::optional<ftp::replies> copy;
        std::string answers;
        for (std::size_t i = 0; i <= items.size(); i++)
        {
            if (a[1][i] == '1') answers += rs.is_positive() ? "1" : "0"; else answers += "-";
            if (i == items.size() / 2) copy = rs;
            if (i == items.size()) break;
            std::vector<std::string> p = split(items[i], ':');
            if (p.size() != 2 || !nat(p[0], v) || !unhex(p[1], s)) return "bad-op";
            rs.append(ftp::reply(static_cast<std::uint16_t>(v), s));
            if (copy && i >= items.size() / 2) copy->append(ftp::reply(static_cast<std::uint16_t>(v), s));
        }
        return answers + " " + std::to_string(rs.is_positive()) + std::to_string(copy->is_positive()) + " " + hex(rs.get_status_string()) + " " + hex(copy->get_status_string());
    }
    if (op == "size" && n == 2 && nat(a[1], v) && unhex(a[2], s))
    {
        ftp::file_size_reply r(ftp::reply(static_cast<std::uint16_t>(v), s));
        if (r.get_code() != v || r.get_status_string() != s) return "reply-altered";
        return r.get_size() ? "some " + std::to_string(*r.get_size()) : "none";
    }
    if (op == "mdtm" && n == 2 && nat(a[1], v) && unhex(a[2], s))
    {
        ftp::file_modified_time_reply r(ftp::reply(static_cast<std::uint16_t>(v), s));
        if (r.get_code() != v || r.get_status_string() != s) return "reply-altered";
        if (!r.get_datetime()) return "none";
        const ftp::datetime & d = *r.get_datetime();
        return "some " + std::to_string(d.year) + " " + std::to_string(d.month) + " " + std::to_string(d.day) + " "
               + std::to_string(d.hour) + " " + std::to_string(d.minute) + " " + std::to_string(d.second) + " "
               + std::to_string(d.fractions);
    }
    if (op == "list" && n == 1 && unhex(a[1], s))
    {
        ftp::replies rs;
        rs.append(ftp::reply(226, "226 ok"));
        ftp::file_list_reply r(rs, s);
        if (r.get_file_list_str() != s || r.get_status_string() != "226 ok") return "reply-altered";
        return render_hexlist(r.get_file_list());
    }
    if ((op == "u8" || op == "u16" || op == "u32" || op == "u64") && n == 1 && unhex(a[1], s))
    {
        namespace u = ftp::detail::utils;
        if (op == "u8") { std::uint8_t r = 0; bool ok = u::try_parse_uint8(s, r); return opt(ok, r); }
        if (op == "u16") { std::uint16_t r = 0; bool ok = u::try_parse_uint16(s, r); return opt(ok, r); }
        if (op == "u32") { std::uint32_t r = 0; bool ok = u::try_parse_uint32(s, r); return opt(ok, r); }
        std::uint64_t r = 0; bool ok = u::try_parse_uint64(s, r); return opt(ok, r);
    }
    if (op == "split" && n == 2 && unhex(a[1], s) && nat(a[2], v))
    {
        return render_hexlist(ftp::detail::utils::split_string(s, static_cast<char>(v)));
    }
    if (op == "epsv" && n == 1 && unhex(a[1], s))
    {
        std::uint16_t port = 0;
        bool ok = ftp::client::try_parse_epsv_reply(ftp::reply(229, s), port);
        return opt(ok, port);
    }
    if (op == "pasv" && n == 1 && unhex(a[1], s))
    {
        std::uint16_t port = 0; std::string ip;
        bool ok = ftp::client::try_parse_pasv_reply(ftp::reply(227, s), ip, port);
        return ok ? "some " + hex(ip) + " " + std::to_string(port) : "none";
    }
    if ((op == "port" || op == "eprt") && n == 3 && unhex(a[2], s) && nat(a[3], v))
    {
        boost::system::error_code ec;
        boost::asio::ip::address addr = boost::asio::ip::make_address(s, ec);
        if (ec) return "bad-op";
        if ((a[1] == "4") != addr.is_v4()) return "bad-op";
        boost::asio::ip::tcp::endpoint ep(addr, static_cast<std::uint16_t>(v));
        try
        {
            std::string c = op == "port" ? ftp::client::make_port_command(ep) : ftp::client::make_eprt_command(ep);
            return "some " + hex(c);
        }
        catch (const ftp::ftp_exception &) { return "throw"; }
    }
    if (op == "mkcmd" && n == 2 && unhex(a[1], s))
    {
        std::optional<std::string_view> arg;
        if (a[2] != "-") { if (!unhex(a[2], t)) return "bad-op"; arg = t; }
        try { return "some " + hex(ftp::client::make_command(s, arg)); }
        catch (const ftp::ftp_exception &) { return "throw"; }
    }
    if (op == "ul" && n == 4 && nat(a[1], v) && unhex(a[2], s))
    {
        chop_source src; src.data = s;
        std::vector<std::size_t> sizes;
        if (!natlist(a[3], src.sched) || !natlist(a[4], sizes) || v == 0) return "bad-op";
        ftp::detail::ascii_istream in(src, static_cast<std::size_t>(v));
        std::string out;
        std::vector<char> buf;
        std::size_t limit = 2 * s.size() + 2;
        for (std::size_t i = 0; ; i++)
        {
            if (i >= limit) return "nonterminating";
            std::size_t size = i < sizes.size() ? (sizes[i] == 0 ? 1 : sizes[i]) : 8192;
            buf.assign(size + 8, '\x5a');
            std::size_t got = in.read(buf.data(), size);
            if (got > size) return "overrun";
            for (std::size_t k = size; k < size + 8; k++) if (buf[k] != '\x5a') return "overrun";
            if (got == 0) break;
            out.append(buf.data(), got);
        }
        return hex(out);
    }
    if (op == "dl" && n == 1)
    {
        std::vector<std::string> chunks;
        if (!hexlist(a[1], chunks)) return "bad-op";
        rec_sink sink;
        ftp::detail::ascii_ostream os(sink);
        for (std::string & c : chunks) os.write(c.data(), c.size());
        os.flush();
        if (sink.flushes != 1) return "flushes:" + std::to_string(sink.flushes);
        return hex(sink.bytes);
    }
    if (op == "verbsweep" && n == 3)
    {
        // verbsweep <shard> <nshards> <seconds>: every 4-byte first token without white space, quote or backslash whose first
        // two bytes fall into this shard (visited in a scattered order, for at most <seconds>): which ones does parse_command
        // accept, and as what?  The complete sweep of all shards is the 4-byte instance of "nothing but the documented verbs".
        unsigned long long shard, nshards, secs;
        if (!nat(a[1], shard) || !nat(a[2], nshards) || !nat(a[3], secs) || nshards == 0) return "bad-op";
        auto bad = [](unsigned b) { return b == ' ' || (b >= 9 && b <= 13) || b == '"' || b == '\\' || b == 0; };
        auto t0 = std::chrono::steady_clock::now();
        std::string acc; std::size_t done = 0, total = 0, nacc = 0;
        std::string tok(4, 'a');
        for (unsigned long long a2 = shard; a2 < 65536; a2 += nshards) total++;
        for (unsigned long long a2 = shard; a2 < 65536; a2 += nshards)
        {
            unsigned idx = static_cast<unsigned>((a2 * 40503ull + 12345ull) & 0xFFFF);   // odd multiplier: a permutation of 0..65535
            unsigned b0 = idx >> 8, b1 = idx & 255;
            done++;
            if (bad(b0) || bad(b1)) continue;
            tok[0] = static_cast<char>(b0); tok[1] = static_cast<char>(b1);
            for (unsigned b2 = 1; b2 < 256; b2++)
            {
                if (bad(b2)) continue;
                tok[2] = static_cast<char>(b2);
                for (unsigned b3 = 1; b3 < 256; b3++)
                {
                    if (bad(b3)) continue;
                    tok[3] = static_cast<char>(b3);
                    try
                    {
                        auto r = parse_command(tok);
                        if (nacc++ < 400) { if (!acc.empty()) acc += ","; acc += hex(tok) + "=" + command_name(r.first) + "." + std::to_string(r.second.size()); }
                    }
                    catch (const cmdline_exception &) {}
                    catch (...) { if (nacc++ < 400) { if (!acc.empty()) acc += ","; acc += hex(tok) + "=other"; } }
                }
            }
            if (std::chrono::steady_clock::now() - t0 > std::chrono::seconds(secs)) break;
        }
        return "done:" + std::to_string(done) + "/" + std::to_string(total) + " n:" + std::to_string(nacc) + " acc:" + (acc.empty() ? "-" : acc);
    }
    if ((op == "cmd" && n == 1 && unhex(a[1], s)) || (op == "cmdrt" && n == 3))
    {
        if (op == "cmdrt")
        {
            std::vector<std::string> args, seps;
            if (!hexlist(a[2], args) || !hexlist(a[3], seps) || seps.size() != args.size()) return "bad-op";
            s = a[1];
            for (std::size_t i = 0; i < args.size(); i++)
            {
                s += seps[i];
                s += '"';
                for (char c : args[i]) { if (c == '"' || c == '\\') s += '\\'; s += c; }
                s += '"';
            }
        }
        try
        {
            auto [c, args] = parse_command(s);
            std::string name;
            switch (c)
            {
#define V(x) case command::x: name = #x; break;
                V(open) V(mode) V(active) V(passive) V(user) V(cd) V(cdup) V(ls) V(put) V(get) V(rename) V(pwd)
                V(mkdir) V(rmdir) V(del) V(stat) V(syst) V(type) V(binary) V(ascii) V(size) V(noop) V(rhelp)
                V(logout) V(close) V(help) V(exit)
#undef V
                default: name = "enum:" + std::to_string(static_cast<int>(c));
            }
            return "ok " + name + " " + render_hexlist(args);
        }
        catch (const cmdline_exception &) { return "invalid"; }
        catch (const std::exception & ex) { return std::string("other:") + typeid(ex).name(); }
        catch (...) { return "other:unknown"; }
    }
    return "bad-op";
}

} // namespace

// VERIF_LOCALE=group: the host program has installed a global C++ locale with digit grouping (as en_US / de_DE have);
// what the library writes on the wire must not depend on it
struct grouping_numpunct : std::numpunct<char>
{
    char do_thousands_sep() const override { return ','; }
    std::string do_grouping() const override { return "\3"; }
    char do_decimal_point() const override { return '.'; }
};

int main()
{
    if (const char *l = std::getenv("VERIF_LOCALE"))
        if (std::string(l) == "group") std::locale::global(std::locale(std::locale::classic(), new grouping_numpunct));
    std::ios::sync_with_stdio(false);
    std::string line;
    while (std::getline(std::cin, line))
    {
        if (line.empty()) continue;
        std::vector<std::string> a = split(line, ' ');
        std::string out;
        try { out = run(a); }
        catch (const std::exception & ex) { out = std::string("escaped:") + typeid(ex).name(); }
        catch (...) { out = "escaped:unknown"; }
        std::cout << line << " => " << out << "\n";
    }
    return 0;
}
