// In-memory control transport: a socket_base whose read_line() runs the REAL socket_base::read_line template
// (hence the real match_eol and the real boost::asio::read_until) over a scripted SyncReadStream.
#pragma once
#include <ftp/detail/socket_base.hpp>
#include <ftp/detail/socket.hpp>
#include "interpose.hpp"
#include <deque>
#include <functional>
#include <string>
#include <vector>

namespace vh {

struct livelock {};   // thrown by the transport when it is polled again and again after the end of the stream

struct mem_stream
{
    // scripted chunks; each read_some returns at most one chunk (or what is left of it)
    std::deque<std::string> chunks;
    enum fin_t { fin_eof, fin_err } fin = fin_eof;
    std::vector<std::size_t> reads;      // sizes actually returned by read_some
    std::vector<std::size_t> asked;      // sizes asked for
    int reads_at_end = 0;
    bool log_reads = false;
    int reads_at_end_this_call = 0;       // reset by the harness before every API call
    std::function<void()> on_starved;    // called when the queue is empty (reactive server may refill)

    template<typename MutableBufferSequence>
    std::size_t read_some(const MutableBufferSequence & buffers, boost::system::error_code & ec)
    {
        std::size_t cap = boost::asio::buffer_size(buffers);
        asked.push_back(cap);
        while (!chunks.empty() && chunks.front().empty()) chunks.pop_front();
        if (chunks.empty() && on_starved) on_starved();
        while (!chunks.empty() && chunks.front().empty()) chunks.pop_front();
        if (chunks.empty())
        {
            reads_at_end++;
            if (++reads_at_end_this_call > 3) throw livelock();
            ec = fin == fin_eof ? boost::system::error_code(boost::asio::error::eof)
                                : boost::system::error_code(boost::asio::error::connection_reset);
            return 0;
        }
        std::string & c = chunks.front();
        std::size_t n = std::min(cap, c.size());
        boost::asio::buffer_copy(buffers, boost::asio::buffer(c.data(), n));
        c.erase(0, n);
        reads.push_back(n);
        if (log_reads) ilog("cr:" + std::to_string(n));
        ec = boost::system::error_code();
        return n;
    }
};

class mem_socket : public ftp::detail::socket_base
{
public:
    mem_stream in;
    std::string written;                          // all bytes written by the client
    std::function<void(const std::string &)> on_write;
    std::function<void()> on_connect;
    std::function<void()> on_read_line;
    bool open = false;
    bool log_life = false;
    std::vector<std::string> life;                // life-cycle calls in order
    boost::asio::io_context *ioc = nullptr;
    boost::asio::ip::tcp::endpoint local_ep, remote_ep;
    int fail_write_at = -1; int writes = 0;

    void connect(const boost::asio::ip::tcp::resolver::results_type &, boost::system::error_code & ec) override
    { open = true; life.push_back("connect"); if (log_life) ilog("cc"); ec = {}; if (on_connect) on_connect(); }
    void connect(const boost::asio::ip::tcp::endpoint &, boost::system::error_code & ec) override
    { open = true; life.push_back("connect"); if (log_life) ilog("cc"); ec = {}; if (on_connect) on_connect(); }
    bool is_connected() const override { return open; }
    bool has_ssl_support() const override { return false; }
    void ssl_handshake(boost::asio::ssl::stream_base::handshake_type, boost::system::error_code &) override {}
    void ssl_shutdown(boost::system::error_code &) override {}
    SSL_SESSION * get_ssl_session() override { return nullptr; }
    std::size_t write(const char *buf, std::size_t size, boost::system::error_code & ec) override
    { return write(std::string_view(buf, size), ec); }
    std::size_t write(std::string_view buf, boost::system::error_code & ec) override
    {
        if (!open) { ec = boost::asio::error::bad_descriptor; return 0; }
        if (fail_write_at >= 0 && writes++ == fail_write_at) { ec = boost::asio::error::broken_pipe; return 0; }
        ec = {};
        written.append(buf);
        if (on_write) on_write(std::string(buf));
        return buf.size();
    }
    std::size_t read_some(char *buf, std::size_t max_size, boost::system::error_code & ec) override
    { return in.read_some(boost::asio::buffer(buf, max_size), ec); }
    std::size_t read_line(std::string & buf, std::size_t max_size, boost::system::error_code & ec) override
    {
        if (on_read_line) on_read_line();
        if (!open) { ec = boost::asio::error::bad_descriptor; return 0; }
        return socket_base::read_line(in, buf, max_size, ec);
    }
    void shutdown(boost::asio::ip::tcp::socket::shutdown_type, boost::system::error_code & ec) override
    { life.push_back("shutdown"); if (log_life) ilog("csh"); ec = {}; }
    void close(boost::system::error_code & ec) override { life.push_back("close"); if (log_life) ilog("cx"); open = false; ec = {}; }
    // like a real socket: a closed descriptor has no addresses
    boost::asio::ip::tcp::endpoint local_endpoint(boost::system::error_code & ec) const override
    { if (!open) { ec = boost::asio::error::bad_descriptor; return {}; } ec = {}; return local_ep; }
    boost::asio::ip::tcp::endpoint remote_endpoint(boost::system::error_code & ec) const override
    { if (!open) { ec = boost::asio::error::bad_descriptor; return {}; } ec = {}; return remote_ep; }
    boost::asio::ip::tcp::socket::executor_type get_executor() override { return ioc->get_executor(); }
    boost::asio::ip::tcp::socket & get_socket() override { throw std::logic_error("mem_socket::get_socket"); }
    boost::asio::ip::tcp::socket detach() override { throw std::logic_error("mem_socket::detach"); }
};

} // namespace vh
