// Shared helpers of the harness executables: hex codec, line splitting.
#pragma once
#include <string>
#include <vector>
#include <sstream>
#include <cstdint>
#include <cstdio>
#include <iostream>
#include <typeinfo>

namespace vh {

inline std::string hex(const std::string & s)
{
    static const char *d = "0123456789abcdef";
    std::string r = "x";
    r.reserve(1 + 2 * s.size());
    for (unsigned char c : s) { r.push_back(d[c >> 4]); r.push_back(d[c & 15]); }
    return r;
}

inline bool unhex(const std::string & h, std::string & out)
{
    out.clear();
    if (h.empty() || h[0] != 'x' || (h.size() % 2) != 1) return false;
    auto v = [](char c) -> int {
        if (c >= '0' && c <= '9') return c - '0';
        if (c >= 'a' && c <= 'f') return c - 'a' + 10;
        return -1; };
    for (std::size_t i = 1; i + 1 < h.size(); i += 2)
    {
        int a = v(h[i]), b = v(h[i + 1]);
        if (a < 0 || b < 0) return false;
        out.push_back(static_cast<char>(a * 16 + b));
    }
    return true;
}

inline std::vector<std::string> split(const std::string & s, char sep)
{
    std::vector<std::string> r;
    std::string cur;
    for (char c : s) { if (c == sep) { r.push_back(cur); cur.clear(); } else cur.push_back(c); }
    r.push_back(cur);
    return r;
}

// "-" = empty list
inline std::vector<std::string> list(const std::string & s)
{
    if (s == "-") return {};
    return split(s, ',');
}

inline bool hexlist(const std::string & s, std::vector<std::string> & out)
{
    out.clear();
    for (const std::string & h : list(s)) { std::string b; if (!unhex(h, b)) return false; out.push_back(b); }
    return true;
}

inline std::string render_hexlist(const std::vector<std::string> & l)
{
    if (l.empty()) return "-";
    std::string r;
    for (std::size_t i = 0; i < l.size(); i++) { if (i) r += ","; r += hex(l[i]); }
    return r;
}

inline bool natlist(const std::string & s, std::vector<std::size_t> & out)
{
    out.clear();
    for (const std::string & h : list(s))
    {
        if (h.empty()) return false;
        std::size_t v = 0;
        for (char c : h) { if (c < '0' || c > '9') return false; v = v * 10 + (c - '0'); }
        out.push_back(v);
    }
    return true;
}

inline bool nat(const std::string & h, unsigned long long & v)
{
    if (h.empty()) return false;
    v = 0;
    for (char c : h) { if (c < '0' || c > '9') return false; v = v * 10 + (c - '0'); }
    return true;
}

} // namespace vh
