// E-conc: several ftp::client objects of one process transferring at the same time, each against its own scripted
// plain-socket server (one thread per client, one per server).  The model has no state that two clients share; this
// harness is where that assumption meets the code (file-scope / static buffers, process-wide tables).
//
//   conc <what dl|ul> <type I|A> <mode p|a> <seed.size,seed.size,...>
//     => t0:<len>.<fnv>[:<len>.<fnv>],t1:...        dl: sink bytes of the download, text of the listing
//                                                    ul: bytes the server received
//   a thread whose client call throws reports  t<i>:thr:<what()>
#include "common.hpp"
#include "env_peer.hpp"
#include <ftp/ftp.hpp>
#include <ftp/detail/utils.hpp>
#include <thread>
#include <atomic>
#include <sstream>
#include <sys/socket.h>
#include <netinet/in.h>

using namespace vh;

namespace {

std::atomic<int> g_ready{0};
int g_total = 0;

void rendezvous()
{
    g_ready.fetch_add(1);
    while (g_ready.load() < g_total) std::this_thread::yield();
}

int listen_on_loopback(unsigned short & port)
{
    int fd = ::socket(AF_INET, SOCK_STREAM, 0);
    sockaddr_in a{}; a.sin_family = AF_INET; a.sin_addr.s_addr = htonl(INADDR_LOOPBACK); a.sin_port = 0;
    if (::bind(fd, reinterpret_cast<sockaddr *>(&a), sizeof a) != 0 || ::listen(fd, 4) != 0) { ::close(fd); return -1; }
    socklen_t l = sizeof a;
    ::getsockname(fd, reinterpret_cast<sockaddr *>(&a), &l);
    port = ntohs(a.sin_port);
    return fd;
}

bool send_all(int fd, const std::string & s, std::size_t piece)
{
    std::size_t off = 0;
    while (off < s.size())
    {
        std::size_t n = std::min(piece, s.size() - off);
        ssize_t k = ::send(fd, s.data() + off, n, MSG_NOSIGNAL);
        if (k <= 0) return false;
        off += static_cast<std::size_t>(k);
        if (piece < 65536) std::this_thread::yield();
    }
    return true;
}

bool read_line(int fd, std::string & line)
{
    line.clear();
    char c;
    for (;;)
    {
        ssize_t k = ::recv(fd, &c, 1, 0);
        if (k <= 0) return false;
        if (c == '\n') { if (!line.empty() && line.back() == '\r') line.pop_back(); return true; }
        line.push_back(c);
    }
}

struct server
{
    int lfd = -1; unsigned short port = 0;
    std::string payload, listing, received;
    std::thread th;

    void start() { lfd = listen_on_loopback(port); th = std::thread([this] { run(); }); }
    void join() { if (th.joinable()) th.join(); if (lfd >= 0) ::close(lfd); }

    void run()
    {
        int c = ::accept(lfd, nullptr, nullptr);
        if (c < 0) return;
        auto say = [&](const std::string & s) { send_all(c, s + "\r\n", 1 << 20); };
        say("220 ready");
        int plfd = -1; int dfd = -1; sockaddr_in active{}; bool have_active = false;
        std::string line;
        auto open_data = [&]() -> int {
            if (plfd >= 0) { int d = ::accept(plfd, nullptr, nullptr); ::close(plfd); plfd = -1; return d; }
            if (have_active)
            {
                int d = ::socket(AF_INET, SOCK_STREAM, 0);
                have_active = false;
                if (::connect(d, reinterpret_cast<sockaddr *>(&active), sizeof active) != 0) { ::close(d); return -1; }
                return d;
            }
            return -1; };
        while (read_line(c, line))
        {
            std::string verb = line.substr(0, line.find(' '));
            if (verb == "USER") say("331 password");
            else if (verb == "PASS") say("230 in");
            else if (verb == "TYPE") say("200 type");
            else if (verb == "EPSV")
            {
                unsigned short p = 0; plfd = listen_on_loopback(p);
                say("229 Entering Extended Passive Mode (|||" + std::to_string(p) + "|)");
            }
            else if (verb == "EPRT")
            {
                // EPRT |1|127.0.0.1|port|
                std::vector<std::string> f = split(line, '|');
                unsigned long long p = 0;
                if (f.size() >= 4 && nat(f[3], p))
                {
                    active = sockaddr_in{}; active.sin_family = AF_INET; active.sin_addr.s_addr = htonl(INADDR_LOOPBACK);
                    active.sin_port = htons(static_cast<unsigned short>(p)); have_active = true;
                    say("200 eprt");
                }
                else say("501 eprt");
            }
            else if (verb == "RETR" || verb == "LIST")
            {
                say("150 go");
                dfd = open_data();
                if (dfd >= 0)
                {
                    rendezvous();           // all servers start their data phase together
                    send_all(dfd, verb == "RETR" ? payload : listing, 1000);
                    ::close(dfd); dfd = -1;
                }
                say("226 done");
            }
            else if (verb == "STOR")
            {
                say("150 go");
                dfd = open_data();
                if (dfd >= 0)
                {
                    rendezvous();
                    char buf[3000];
                    for (;;)
                    {
                        ssize_t k = ::recv(dfd, buf, sizeof buf, 0);
                        if (k <= 0) break;
                        received.append(buf, static_cast<std::size_t>(k));
                        std::this_thread::yield();
                    }
                    ::close(dfd); dfd = -1;
                }
                say("226 done");
            }
            else if (verb == "QUIT") { say("221 bye"); break; }
            else say("500 what");
        }
        if (plfd >= 0) ::close(plfd);
        ::close(c);
    }
};

std::string lenfnv(const std::string & s) { return std::to_string(s.size()) + "." + std::to_string(fnv(s)); }

std::string one_client(const std::string & what, bool ascii, bool active, server & srv, const std::string & src_bytes)
{
    try
    {
        ftp::client cl(active ? ftp::transfer_mode::active : ftp::transfer_mode::passive,
                       ascii ? ftp::transfer_type::ascii : ftp::transfer_type::binary, nullptr, true);
        cl.connect("127.0.0.1", srv.port, "u", "p");
        std::string out;
        if (what == "dl")
        {
            std::ostringstream sink;
            ftp::replies r = cl.download_file(ftp::ostream_adapter(sink), "f.bin");
            ftp::file_list_reply l = cl.get_file_list();
            out = lenfnv(sink.str()) + ":" + lenfnv(l.get_file_list_str()) + ":" + (r.is_positive() && l.is_positive() ? "p" : "n");
            cl.disconnect();
        }
        else
        {
            std::istringstream source(src_bytes);
            ftp::replies r = cl.upload_file(ftp::istream_adapter(source), "f.bin");
            cl.disconnect();
            out = std::string("@") + (r.is_positive() ? "p" : "n");
        }
        return out;
    }
    catch (const ftp::ftp_exception & e) { return std::string("thr:ftp"); }
    catch (const std::exception & e) { return std::string("thr:other:") + typeid(e).name(); }
}

std::string make_text(std::uint64_t seed, std::size_t len, bool ascii)
{
    std::string p = gen_payload(seed, len);
    if (ascii) for (char & c : p) if (c == '\r') c = 'x';
    return p;
}

std::string make_listing(std::uint64_t seed, std::size_t len)
{
    // lines "e<k> <random letters>\r\n" up to roughly len bytes
    std::string raw = gen_payload(seed + 77, len), r;
    std::size_t k = 0;
    while (r.size() < len)
    {
        r += "e" + std::to_string(k++) + " ";
        for (int i = 0; i < 40 && r.size() < len; i++) r.push_back(static_cast<char>('a' + (static_cast<unsigned char>(raw[(r.size()) % raw.size()]) % 26)));
        r += "\r\n";
    }
    return r;
}

} // namespace

int main()
{
    std::string line;
    while (std::getline(std::cin, line))
    {
        std::vector<std::string> a = split(line, ' ');
        if (a.size() != 5 || a[0] != "conc" || (a[1] != "dl" && a[1] != "ul")) { std::cout << "bad-op" << std::endl; continue; }
        bool ascii = a[2] == "A", active = a[3] == "a";
        std::vector<std::string> jobs = split(a[4], ',');
        std::vector<server> servers(jobs.size());
        std::vector<std::string> sources(jobs.size()), results(jobs.size());
        bool ok = true;
        for (std::size_t i = 0; i < jobs.size(); i++)
        {
            std::vector<std::string> p = split(jobs[i], '.');
            unsigned long long seed, len;
            if (p.size() != 2 || !nat(p[0], seed) || !nat(p[1], len)) { ok = false; break; }
            servers[i].payload = make_text(seed, len, ascii);
            servers[i].listing = make_listing(seed, len / 4 + 10);
            sources[i] = make_text(seed + 1000, len, false);
        }
        if (!ok) { std::cout << "bad-op" << std::endl; continue; }
        g_ready = 0;
        g_total = static_cast<int>(jobs.size()) * (a[1] == "dl" ? 1 : 1);
        for (server & s : servers) s.start();
        std::vector<std::thread> ths;
        for (std::size_t i = 0; i < jobs.size(); i++)
            ths.emplace_back([&, i] { results[i] = one_client(a[1], ascii, active, servers[i], sources[i]); });
        // a client that fails before its data phase must not block the others' rendezvous for ever
        std::thread watchdog([&] {
            for (int k = 0; k < 300 && g_ready.load() < g_total; k++) std::this_thread::sleep_for(std::chrono::milliseconds(20));
            g_ready = g_total; });
        for (std::thread & t : ths) t.join();
        g_ready = g_total;
        watchdog.join();
        for (server & s : servers) s.join();
        std::string out;
        for (std::size_t i = 0; i < jobs.size(); i++)
        {
            if (i) out += ",";
            std::string r = results[i];
            if (a[1] == "ul" && !r.empty() && r[0] == '@') r = lenfnv(servers[i].received) + ":" + r.substr(1);
            out += "t" + std::to_string(i) + ":" + r;
        }
        std::cout << line << " => " << out << std::endl;
    }
    return 0;
}
