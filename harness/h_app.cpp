// E-app: the real `cmdline` binary (built from /repo's working tree; path in $VERIF_CMDLINE) run as a subprocess with
// piped stdin in a fresh working directory, against the in-process scripted FTP server (plain TCP).
//
//   app <groups> <files> <stdin>
//     groups := group/group/...      positional for the whole session: the k-th event (connection or command) gets the k-th group
//     files  := name=<hex>;name=<hex>;...   ("-" = none)   regular files created in the working directory; "name/" = a directory
//     stdin  := <hexline>,<hexline>,...     ("$PORT" inside a line is replaced by the server's port)
//
//   => exit:<status|sig> out:<hex stdout> err:<hex stderr> srv:<hex cmd,...> conns:<n> fs:<name>=<fnv>;... peer:<recvlen>:<fnv>
#include "common.hpp"
#include "env_server.hpp"
#include <sys/wait.h>
#include <sys/ioctl.h>
#include <sys/stat.h>
#include <dirent.h>
#include <fcntl.h>
#include <fstream>
#include <algorithm>
#include <csignal>

using namespace vh;

namespace {

std::string replace_all(std::string s, const std::string & a, const std::string & b)
{
    std::size_t p = 0;
    while ((p = s.find(a, p)) != std::string::npos) { s.replace(p, a.size(), b); p += b.size(); }
    return s;
}

void rmtree(const std::string & d)
{
    DIR *dir = opendir(d.c_str());
    if (!dir) return;
    while (dirent *e = readdir(dir))
    {
        std::string n = e->d_name;
        if (n == "." || n == "..") continue;
        std::string p = d + "/" + n;
        struct stat st{};
        if (lstat(p.c_str(), &st) == 0 && S_ISDIR(st.st_mode)) rmtree(p); else unlink(p.c_str());
    }
    closedir(dir);
    rmdir(d.c_str());
}

std::string g_port_text;     // the server's port as text: local names that contain it are reported with "$PORT" (the model's literal)

void snapshot_into(const std::string & d, const std::string & prefix, std::vector<std::string> & items)
{
    auto nm = [](const std::string & s) { return g_port_text.empty() ? s : replace_all(s, g_port_text, "$PORT"); };
    DIR *dir = opendir(d.c_str());
    if (!dir) return;
    while (dirent *e = readdir(dir))
    {
        std::string n = e->d_name;
        if (n == "." || n == "..") continue;
        std::string p = d + "/" + n;
        struct stat st{};
        if (lstat(p.c_str(), &st) != 0) continue;
        if (S_ISDIR(st.st_mode)) { items.push_back(hex(nm(prefix + n)) + "/"); snapshot_into(p, prefix + n + "/", items); continue; }
        if (S_ISLNK(st.st_mode))
        {
            // a symbolic link is an entry of its own (not followed): reported like a file whose content is the link's target
            char tb[4096]; ssize_t tl = readlink(p.c_str(), tb, sizeof tb);
            std::string t(tb, tl > 0 ? static_cast<std::size_t>(tl) : 0);
            items.push_back(hex(nm(prefix + n)) + "=" + std::to_string(t.size()) + "." + std::to_string(fnv(t)));
            continue;
        }
        std::ifstream f(p, std::ios::binary);
        std::string c((std::istreambuf_iterator<char>(f)), std::istreambuf_iterator<char>());
        items.push_back(hex(nm(prefix + n)) + "=" + std::to_string(c.size()) + "." + std::to_string(fnv(c)));
    }
    closedir(dir);
}

// the working directory, recursively: "<hex relative name>=<size>.<fnv>" for files, "<hex relative name>/" for directories
std::string snapshot(const std::string & d)
{
    std::vector<std::string> items;
    snapshot_into(d, "", items);
    std::sort(items.begin(), items.end());
    std::string r;
    for (auto & i : items) { if (!r.empty()) r += ";"; r += i; }
    return r.empty() ? "-" : r;
}

std::string run(const std::vector<std::string> & a)
{
    if (a.size() != 4 || a[0] != "app") return "bad-op";
    const char *bin = getenv("VERIF_CMDLINE");
    if (!bin) return "bad-op";
    std::vector<group> groups;
    if (a[1] != "-")
        for (const std::string & gs : split(a[1], '/')) { group g; if (!parse_group(gs, g)) return "bad-op"; groups.push_back(g); }
    ctl_server srv;
    srv.start(false, 13, false);
    srv.core.implicit_data = true;
    { std::lock_guard<std::mutex> l(srv.mu); srv.core.begin_op(groups); }
    g_port_text = std::to_string(srv.port);

    // working directory
    char tmpl[] = "/tmp/vh-app-XXXXXX";
    const char *base = getenv("VERIF_SCRATCH");
    std::string dirt = base ? std::string(base) + "/vh-app-XXXXXX" : std::string(tmpl);
    std::vector<char> dbuf(dirt.begin(), dirt.end()); dbuf.push_back(0);
    if (!mkdtemp(dbuf.data())) return "bad-op";
    std::string dir = dbuf.data();
    if (a[2] != "-")
        for (const std::string & f : split(a[2], ';'))
        {
            std::size_t at = f.find('@');
            if (at != std::string::npos)
            {
                // name@target: a symbolic link (possibly dangling)
                std::string name, target;
                if (!unhex(f.substr(0, at), name) || !unhex(f.substr(at + 1), target)) { rmtree(dir); return "bad-op"; }
                if (symlink(target.c_str(), (dir + "/" + name).c_str()) != 0) { rmtree(dir); return "bad-op"; }
                continue;
            }
            std::size_t eq = f.find('=');
            std::string name, content;
            if (eq == std::string::npos)
            {
                if (f.size() > 1 && f.back() == '/' && unhex(f.substr(0, f.size() - 1), name)) { mkdir((dir + "/" + name).c_str(), 0755); continue; }
                rmtree(dir); return "bad-op";
            }
            if (!unhex(f.substr(0, eq), name) || !unhex(f.substr(eq + 1), content)) { rmtree(dir); return "bad-op"; }
            std::ofstream o(dir + "/" + name, std::ios::binary); o << content;
        }
    std::string before = snapshot(dir);

    std::string input;
    std::vector<std::string> lines;
    if (!hexlist(a[3], lines)) { rmtree(dir); return "bad-op"; }
    for (std::string & l : lines) input += replace_all(l, "$PORT", std::to_string(srv.port)) + "\n";

    int in[2], out[2], err[2];
    if (pipe(in) || pipe(out) || pipe(err)) { rmtree(dir); return "bad-op"; }
    pid_t pid = fork();
    if (pid == 0)
    {
        dup2(in[0], 0); dup2(out[1], 1); dup2(err[1], 2);
        close(in[0]); close(in[1]); close(out[0]); close(out[1]); close(err[0]); close(err[1]);
        if (chdir(dir.c_str()) != 0) _exit(126);
        execl(bin, bin, static_cast<char *>(nullptr));
        _exit(127);
    }
    close(in[0]); close(out[1]); close(err[1]);
    // feed stdin from a helper thread so that a blocked child cannot block us
    std::thread feeder([&] { peer_scope ps; std::size_t p = 0; while (p < input.size()) { ssize_t w = ::write(in[1], input.data() + p, input.size() - p); if (w <= 0) break; p += static_cast<std::size_t>(w); } close(in[1]); });
    std::string so, se;
    auto slurp = [](int fd, std::string & dst) { char b[4096]; ssize_t r; while ((r = ::read(fd, b, sizeof b)) > 0) dst.append(b, static_cast<std::size_t>(r)); close(fd); };
    std::thread rerr([&] { peer_scope ps; slurp(err[0], se); });
    bool hang = false;
    {
        // read stdout with a deadline
        fcntl(out[0], F_SETFL, O_NONBLOCK);
        auto t0 = std::chrono::steady_clock::now();
        // The client has no time-outs: when it waits for a reply and the script has nothing more to say it would block for
        // ever.  The model's control stream simply ends there (end-of-file); the real server does the same: once the child
        // has been blocked in recv() for a while, the server has answered everything it received and no data transfer is
        // running, the server closes the control connection.
        std::string last_sys; int same = 0;
        auto blocked_in_recv = [&]() -> bool {
            std::ifstream f("/proc/" + std::to_string(pid) + "/syscall");
            std::string s; std::getline(f, s);
            bool in_recv = s.rfind("45 ", 0) == 0 || s.rfind("47 ", 0) == 0;      // recvfrom / recvmsg (x86-64)
            if (in_recv && s == last_sys) same++; else same = 0;
            last_sys = s;
            return in_recv && same >= 8;
        };
        // ... and the server really has nothing to answer: no unread byte of the client is waiting in its socket
        auto server_has_input = [&]() -> bool {
            int fd = srv.cur_fd; int n = 0;
            return fd >= 0 && ::ioctl(fd, FIONREAD, &n) == 0 && n > 0;
        };
        for (;;)
        {
            pollfd p{out[0], POLLIN, 0};
            int pr = ::poll(&p, 1, 100);
            if (pr == 0 && blocked_in_recv() && srv.idle && !server_has_input() && (!srv.core.peer.worker.joinable() || srv.core.peer.done))
            {
                srv.kick = true; same = 0;
            }
            if (pr > 0)
            {
                char b[4096]; ssize_t r = ::read(out[0], b, sizeof b);
                if (r > 0) so.append(b, static_cast<std::size_t>(r));
                else if (r == 0) break;
            }
            if (std::chrono::steady_clock::now() - t0 > std::chrono::seconds(20)) { hang = true; kill(pid, SIGKILL); break; }
        }
        close(out[0]);
    }
    int status = 0;
    waitpid(pid, &status, 0);
    feeder.join(); rerr.join();
    std::string ex = hang ? "HANG" : WIFEXITED(status) ? std::to_string(WEXITSTATUS(status)) : "sig" + std::to_string(WTERMSIG(status));
    std::string after = snapshot(dir);
    // the child may have ended without waiting for the server (a left-over reply answered its QUIT): let the server read
    // what the child wrote before the server's view is taken
    for (int i = 0; i < 400; i++)
    {
        int fd = srv.cur_fd; int n = 0;
        if (fd < 0) break;                       // the server has seen the end of the connection
        bool unread = ::ioctl(fd, FIONREAD, &n) == 0 && n > 0;
        if (!unread && srv.idle) break;
        usleep(5000);
    }
    { peer_scope ps; srv.core.peer.finish(); }
    std::string cmds; int conns = 0;
    {
        std::lock_guard<std::mutex> l(srv.mu);
        for (const std::string & c : srv.core.commands) { if (c == "<connect>") { conns++; continue; } if (!cmds.empty()) cmds += ","; cmds += hex(replace_all(c, std::to_string(srv.port), "$PORT")); }
    }
    std::string res;
    {
        std::lock_guard<std::mutex> l(srv.mu);
        for (const std::string & r : srv.core.resolved) { if (!res.empty()) res += "/"; res += r; }
    }
    data_peer & p = srv.core.peer;
    // the model knows the server's port as the literal "$PORT" (ephemeral ports have five digits; data ports differ)
    so = replace_all(so, std::to_string(srv.port), "$PORT");
    std::string outp = "exit:" + ex + " out:" + hex(so) + " err:" + hex(se) + " srv:" + (cmds.empty() ? "-" : cmds) + " conns:" + std::to_string(conns)
        + " before:" + before + " fs:" + after + " played:" + (res.empty() ? "-" : res)
        + " peer:" + std::to_string(p.received.size()) + ":" + std::to_string(fnv(p.received));
    srv.shutdown();
    rmtree(dir);
    return outp;
}

} // namespace

int main()
{
    std::signal(SIGPIPE, SIG_IGN);
    std::string line;
    while (std::getline(std::cin, line))
    {
        if (line.empty()) continue;
        std::string out;
        try { out = run(split(line, ' ')); }
        catch (const std::exception & ex) { out = std::string("escaped:") + typeid(ex).name(); }
        catch (...) { out = "escaped:unknown"; }
        std::cout << line << " => " << out << "\n" << std::flush;
    }
    return 0;
}
