// libc interposition for the client-level harnesses: socket life-cycle of the *client's* sockets is logged
// (and can be made to fail); sockets of the scripted peer are created with vh_peer_scope active and are ignored.
// Linked into the harness executable, so it takes precedence over libc for every caller in the process.
#include "interpose.hpp"
#include <dlfcn.h>
#include <sys/socket.h>
#include <netinet/in.h>
#include <arpa/inet.h>
#include <unistd.h>
#include <errno.h>
#include <mutex>
#include <set>
#include <cstdio>
#include <cstring>
#include <algorithm>

namespace vh {

thread_local int tl_peer_depth = 0;
static std::mutex g_mu;
static std::set<int> g_client_fds;            // descriptors created by client code and still open
static std::vector<std::string> g_log;
static std::map<int, int> g_ordinal;          // fd -> ordinal (per scenario)
static int g_next_ordinal = 1;
static fault_plan g_faults;
static bool g_capture_raw = false;

peer_scope::peer_scope() { tl_peer_depth++; }
peer_scope::~peer_scope() { tl_peer_depth--; }

static bool is_client_thread() { return tl_peer_depth == 0; }

static std::string ep_string(const struct sockaddr *sa)
{
    char buf[INET6_ADDRSTRLEN] = {0};
    if (sa->sa_family == AF_INET)
    {
        auto *a = reinterpret_cast<const sockaddr_in *>(sa);
        inet_ntop(AF_INET, &a->sin_addr, buf, sizeof buf);
        return std::string(buf) + "#" + std::to_string(ntohs(a->sin_port));
    }
    if (sa->sa_family == AF_INET6)
    {
        auto *a = reinterpret_cast<const sockaddr_in6 *>(sa);
        inet_ntop(AF_INET6, &a->sin6_addr, buf, sizeof buf);
        std::string s(buf);
        for (char & c : s) if (c == ':') c = ';';          // ':' separates the fields of a token
        return s + "#" + std::to_string(ntohs(a->sin6_port));
    }
    return "af" + std::to_string(sa->sa_family) + "#0";
}

static int ord(int fd)
{
    auto it = g_ordinal.find(fd);
    if (it != g_ordinal.end()) return it->second;
    return g_ordinal[fd] = g_next_ordinal++;
}

void ilog(const std::string & e) { std::lock_guard<std::mutex> l(g_mu); g_log.push_back(e); }

std::vector<std::string> take_log() { std::lock_guard<std::mutex> l(g_mu); std::vector<std::string> r; r.swap(g_log); return r; }

void reset_scenario()
{
    std::lock_guard<std::mutex> l(g_mu);
    g_log.clear(); g_ordinal.clear(); g_next_ordinal = 1; g_client_fds.clear(); g_faults = fault_plan();
}

std::size_t open_client_fds() { std::lock_guard<std::mutex> l(g_mu); return g_client_fds.size(); }

void set_capture_raw(bool on) { std::lock_guard<std::mutex> l(g_mu); g_capture_raw = on; }

static std::string hexn(const unsigned char *p, size_t n)
{
    static const char *d = "0123456789abcdef";
    std::string r = "x";
    for (size_t i = 0; i < n; i++) { r.push_back(d[p[i] >> 4]); r.push_back(d[p[i] & 15]); }
    return r;
}

void set_faults(const fault_plan & f) { std::lock_guard<std::mutex> l(g_mu); g_faults = f; }

template<typename F> static F real(const char *name)
{
    static thread_local int guard = 0; (void)guard;
    return reinterpret_cast<F>(dlsym(RTLD_NEXT, name));
}

} // namespace vh

using namespace vh;

extern "C" {

int socket(int domain, int type, int protocol)
{
    static auto f = real<int (*)(int, int, int)>("socket");
    int fd = f(domain, type, protocol);
    if (fd >= 0 && is_client_thread() && (domain == AF_INET || domain == AF_INET6))
    {
        std::lock_guard<std::mutex> l(g_mu);
        g_client_fds.insert(fd);
        g_ordinal.erase(fd);
        g_log.push_back("ds:" + std::to_string(ord(fd)));
    }
    return fd;
}

int close(int fd)
{
    static auto f = real<int (*)(int)>("close");
    bool mine = false; int o = 0; bool fail = false;
    {
        std::lock_guard<std::mutex> l(g_mu);
        if (g_client_fds.count(fd))
        {
            mine = true; o = ord(fd);
            g_client_fds.erase(fd);
            if (g_faults.close_fail_at >= 0 && g_faults.close_count++ == g_faults.close_fail_at) fail = true;
        }
    }
    int r = f(fd);
    if (mine)
    {
        ilog("dx:" + std::to_string(o));
        if (fail) { errno = EIO; return -1; }
    }
    return r;
}

int connect(int fd, const struct sockaddr *addr, socklen_t len)
{
    static auto f = real<int (*)(int, const struct sockaddr *, socklen_t)>("connect");
    bool mine; int o = 0;
    { std::lock_guard<std::mutex> l(g_mu); mine = g_client_fds.count(fd) > 0; if (mine) o = ord(fd); }
    if (!mine) return f(fd, addr, len);
    std::string ep = ep_string(addr);
    bool loop = false;
    if (addr->sa_family == AF_INET)
        loop = (ntohl(reinterpret_cast<const sockaddr_in *>(addr)->sin_addr.s_addr) >> 24) == 127;
    else if (addr->sa_family == AF_INET6)
        loop = IN6_IS_ADDR_LOOPBACK(&reinterpret_cast<const sockaddr_in6 *>(addr)->sin6_addr);
    int r;
    if (!loop) { errno = ECONNREFUSED; r = -1; }       // never leave the machine; the target is in the log
    else r = f(fd, addr, len);
    int e = errno;
    ilog("dc:" + std::to_string(o) + ":" + ep + ":" + (r == 0 ? "1" : "0"));
    errno = e;
    return r;
}

int bind(int fd, const struct sockaddr *addr, socklen_t len)
{
    static auto f = real<int (*)(int, const struct sockaddr *, socklen_t)>("bind");
    int r = f(fd, addr, len);
    bool mine; int o = 0;
    { std::lock_guard<std::mutex> l(g_mu); mine = g_client_fds.count(fd) > 0; if (mine) o = ord(fd); }
    if (mine)
    {
        int e = errno;
        // report the address asked for and the endpoint actually bound
        std::string got = "-";
        sockaddr_storage ss; socklen_t sl = sizeof ss;
        if (r == 0 && getsockname(fd, reinterpret_cast<sockaddr *>(&ss), &sl) == 0) got = ep_string(reinterpret_cast<sockaddr *>(&ss));
        ilog("db:" + std::to_string(o) + ":" + ep_string(addr) + ":" + got);
        errno = e;
    }
    return r;
}

int listen(int fd, int backlog)
{
    static auto f = real<int (*)(int, int)>("listen");
    int r = f(fd, backlog);
    bool mine; int o = 0;
    { std::lock_guard<std::mutex> l(g_mu); mine = g_client_fds.count(fd) > 0; if (mine) o = ord(fd); }
    if (mine) { int e = errno; ilog("dl:" + std::to_string(o)); errno = e; }
    return r;
}

static int accept_common(int fd, int nfd)
{
    bool mine; int o = 0, n = 0;
    {
        std::lock_guard<std::mutex> l(g_mu);
        mine = g_client_fds.count(fd) > 0;
        if (mine)
        {
            o = ord(fd);
            if (nfd >= 0) { g_client_fds.insert(nfd); g_ordinal.erase(nfd); n = ord(nfd); }
        }
    }
    if (mine) { int e = errno; ilog("da:" + std::to_string(o) + ":" + (nfd >= 0 ? std::to_string(n) : "fail")); errno = e; }
    return nfd;
}

int accept(int fd, struct sockaddr *addr, socklen_t *len)
{
    static auto f = real<int (*)(int, struct sockaddr *, socklen_t *)>("accept");
    return accept_common(fd, f(fd, addr, len));
}

int accept4(int fd, struct sockaddr *addr, socklen_t *len, int flags)
{
    static auto f = real<int (*)(int, struct sockaddr *, socklen_t *, int)>("accept4");
    return accept_common(fd, f(fd, addr, len, flags));
}

int shutdown(int fd, int how)
{
    static auto f = real<int (*)(int, int)>("shutdown");
    int r = f(fd, how);
    bool mine; int o = 0;
    { std::lock_guard<std::mutex> l(g_mu); mine = g_client_fds.count(fd) > 0; if (mine) o = ord(fd); }
    if (mine) { int e = errno; ilog("dsh:" + std::to_string(o)); errno = e; }
    return r;
}

ssize_t recv(int fd, void *buf, size_t len, int flags)
{
    static auto f = real<ssize_t (*)(int, void *, size_t, int)>("recv");
    ssize_t r = f(fd, buf, len, flags);
    bool mine; int o = 0;
    { std::lock_guard<std::mutex> l(g_mu); mine = g_client_fds.count(fd) > 0; if (mine) o = ord(fd); }
    if (mine && (r >= 0 || (errno != EAGAIN && errno != EWOULDBLOCK && errno != EINTR)))
    { int e = errno; ilog("dr:" + std::to_string(o) + ":" + (r >= 0 ? std::to_string(r) : std::string("err"))); errno = e; }
    return r;
}

ssize_t recvmsg(int fd, struct msghdr *msg, int flags)
{
    static auto f = real<ssize_t (*)(int, struct msghdr *, int)>("recvmsg");
    ssize_t r = f(fd, msg, flags);
    bool mine; int o = 0;
    { std::lock_guard<std::mutex> l(g_mu); mine = g_client_fds.count(fd) > 0; if (mine) o = ord(fd); }
    if (mine && (r >= 0 || (errno != EAGAIN && errno != EWOULDBLOCK && errno != EINTR)))
    { int e = errno; ilog("dr:" + std::to_string(o) + ":" + (r >= 0 ? std::to_string(r) : std::string("err"))); errno = e; }
    return r;
}

static bool send_fault(int fd, bool & mine, int & o)
{
    std::lock_guard<std::mutex> l(g_mu);
    mine = g_client_fds.count(fd) > 0;
    if (!mine) return false;
    o = ord(fd);
    return g_faults.send_fail_at >= 0 && g_faults.send_count++ == g_faults.send_fail_at;
}

// 0 = nothing, 1 = send only half, 2 = fail with EINTR
static int eintr_fault(int fd, size_t len)
{
    std::lock_guard<std::mutex> l(g_mu);
    if (g_client_fds.count(fd) == 0) return 0;
    if (g_faults.eintr_pending) { g_faults.eintr_pending = false; return 2; }
    if (g_faults.send_eintr_at >= 0 && len > 1 && g_faults.eintr_count++ == g_faults.send_eintr_at) { g_faults.eintr_pending = true; return 1; }
    return 0;
}

ssize_t send(int fd, const void *buf, size_t len, int flags)
{
    static auto f = real<ssize_t (*)(int, const void *, size_t, int)>("send");
    bool mine; int o = 0;
    int ef = eintr_fault(fd, len);
    if (ef == 2) { { std::lock_guard<std::mutex> l(g_mu); o = ord(fd); } ilog("dw:" + std::to_string(o) + ":err"); errno = EINTR; return -1; }
    if (ef == 1) len = len / 2;
    if (send_fault(fd, mine, o)) { ilog("dw:" + std::to_string(o) + ":err"); errno = EPIPE; return -1; }
    ssize_t r = f(fd, buf, len, flags);
    if (mine && (r >= 0 || (errno != EAGAIN && errno != EWOULDBLOCK && errno != EINTR)))
    {
        int e = errno;
        ilog("dw:" + std::to_string(o) + ":" + (r >= 0 ? std::to_string(r) : std::string("err")));
        if (g_capture_raw && r > 0)
            ilog("raw:" + std::to_string(o) + ":" + hexn(static_cast<const unsigned char *>(buf), std::min<size_t>(static_cast<size_t>(r), 4096)) + ":" + std::to_string(r));
        errno = e;
    }
    return r;
}

ssize_t sendmsg(int fd, const struct msghdr *msg, int flags)
{
    static auto f = real<ssize_t (*)(int, const struct msghdr *, int)>("sendmsg");
    bool mine; int o = 0;
    if (send_fault(fd, mine, o)) { ilog("dw:" + std::to_string(o) + ":err"); errno = EPIPE; return -1; }
    ssize_t r = f(fd, msg, flags);
    if (mine && (r >= 0 || (errno != EAGAIN && errno != EWOULDBLOCK && errno != EINTR)))
    {
        int e = errno;
        ilog("dw:" + std::to_string(o) + ":" + (r >= 0 ? std::to_string(r) : std::string("err")));
        if (g_capture_raw && r > 0)
        {
            std::string all; size_t left = static_cast<size_t>(r);
            for (size_t i = 0; i < static_cast<size_t>(msg->msg_iovlen) && left > 0 && all.size() < 4096; i++)
            {
                size_t n = std::min(left, msg->msg_iov[i].iov_len);
                all.append(static_cast<const char *>(msg->msg_iov[i].iov_base), n);
                left -= n;
            }
            ilog("raw:" + std::to_string(o) + ":" + hexn(reinterpret_cast<const unsigned char *>(all.data()), std::min<size_t>(all.size(), 4096)) + ":" + std::to_string(r));
        }
        errno = e;
    }
    return r;
}

} // extern "C"
