// E-client: the real ftp::client with an in-memory control transport (reactive scripted server) and real loopback
// data connections to a scripted peer; every boundary event goes into one ordered log.
//
//   client <cfg> <op> <op> ...          (tokens separated by one space; see DESIGN.md Appendix D / tools/props/cligen.py)
//   cfg := mode=<p|a>,rfc=<0|1>,type=<I|A>,ip=<4|6>
//   op  := <name>:<arg>:...@<group>/<group>/...
//
// Output: the same line, " => ", then the event tokens.
#include "common.hpp"
#include "env_mem.hpp"
#include "env_peer.hpp"
#include "interpose.hpp"
#include <ftp/ftp.hpp>
#include <csignal>
#include <chrono>

using namespace vh;

namespace {

struct rec_observer : ftp::observer
{
    int id;
    // re-entrant removal: armed with `rmin:<this>:<target>`, this observer unregisters the target from inside its next callback
    int arm_target = -1; ftp::client *cl = nullptr; std::vector<std::shared_ptr<rec_observer>> *all = nullptr;
    explicit rec_observer(int i) : id(i) {}
    void fire()
    {
        if (arm_target < 0 || !cl || !all) return;
        int t = arm_target; arm_target = -1;
        ilog("orm:" + std::to_string(id) + ":" + std::to_string(t));
        cl->remove_observer(all->at(static_cast<std::size_t>(t)));
    }
    void on_connected(std::string_view h, std::uint16_t p) override { ilog("o" + std::to_string(id) + ":c:" + hex(std::string(h)) + ":" + std::to_string(p)); fire(); }
    void on_request(std::string_view c) override { ilog("o" + std::to_string(id) + ":q:" + hex(std::string(c))); fire(); }
    void on_reply(const ftp::reply & r) override { ilog("o" + std::to_string(id) + ":r:" + std::to_string(r.get_code()) + ":" + hex(r.get_status_string())); fire(); }
    void on_file_list(std::string_view l) override { ilog("o" + std::to_string(id) + ":l:" + hex(std::string(l))); fire(); }
};

struct rec_sink : ftp::output_stream
{
    std::string bytes; int flushes = 0; int writes = 0; int fail_at = -1;
    void write(char *buf, std::size_t size) override
    {
        if (fail_at >= 0 && writes == fail_at) { writes++; ilog("sk:w:fail"); throw ftp::ftp_exception("Cannot write stream."); }
        writes++;
        bytes.append(buf, size);
        ilog("sk:w:" + std::to_string(size));
    }
    void flush() override { flushes++; ilog("sk:f"); }
};

struct chop_source : ftp::input_stream
{
    std::string data; std::size_t pos = 0; std::vector<std::size_t> chop; std::size_t call = 0; int fail_at = -1; bool poison = false, empty_seen = false, poisoned = false;
    std::size_t read(char *buf, std::size_t size) override
    {
        if (fail_at >= 0 && static_cast<int>(call) == fail_at) { call++; ilog("sr:fail"); throw ftp::ftp_exception("Cannot read stream."); }
        std::size_t want = chop.empty() ? size : std::max<std::size_t>(1, chop[call % chop.size()]);
        call++;
        std::size_t got = std::min(std::min(want, size), data.size() - pos);
        std::copy(data.data() + pos, data.data() + pos + got, buf);
        pos += got;
        // a source whose end is not sticky (a splitter feeding consecutive uploads, a pipe): what it yields after its first
        // empty read does not belong to this upload - asking it again is already a fault of the caller
        if (poison && got == 0 && size > 0)
        {
            if (!empty_seen) empty_seen = true;
            else if (!poisoned) { poisoned = true; static const char px[] = "!NOT-PART-OF-THIS-UPLOAD!"; got = std::min<std::size_t>(size, sizeof px - 1); std::copy(px, px + got, buf); }
        }
        ilog("sr:" + std::to_string(size) + ":" + std::to_string(got));
        return got;
    }
};

struct rec_callback : ftp::transfer_callback
{
    std::string polls; std::size_t i = 0; bool sticky = false;
    void begin() override { ilog("cb:b"); }
    void notify(std::size_t n) override { ilog("cb:n:" + std::to_string(n)); }
    void end() override { ilog("cb:e"); }
    bool is_cancelled() override
    {
        bool r = sticky;
        if (!sticky && i < polls.size()) { r = polls[i] == '1'; }
        i++;
        if (r) sticky = true;
        ilog(std::string("cb:p:") + (r ? "1" : "0"));
        return r;
    }
};

std::string render_replies(const ftp::replies & rs)
{
    std::string m;
    for (const ftp::reply & r : rs) { if (!m.empty()) m += ","; m += std::to_string(r.get_code()) + ":" + hex(r.get_status_string()); }
    if (m.empty()) m = "-";
    return std::to_string(rs.is_positive()) + ":" + hex(rs.get_status_string()) + ":" + m;
}

bool unhex_tok(const std::string & t, std::string & out) { return unhex(t, out); }

struct scenario
{
    std::unique_ptr<ftp::client> cl;
    mem_socket *ms = nullptr;
    script_server srv;
    std::string linebuf;
    std::vector<std::shared_ptr<rec_observer>> obs;
    bool v6 = false;
    bool merge = false;   // cfg merge=1: replies queued behind unread bytes coalesce with them

    void wire()
    {
        ms = new mem_socket();
        ms->log_life = true;
        ms->in.log_reads = true;
        ms->ioc = &cl->net_context_.get_io_context();
        boost::asio::ip::address a = boost::asio::ip::make_address(v6 ? "::1" : "127.0.0.1");
        ms->local_ep = boost::asio::ip::tcp::endpoint(a, 40000);
        ms->remote_ep = boost::asio::ip::tcp::endpoint(a, 21);
        ms->on_write = [this](const std::string & b) {
            ilog("w:" + hex(b));
            linebuf += b;
            std::size_t p;
            while ((p = linebuf.find("\r\n")) != std::string::npos)
            {
                std::string line = linebuf.substr(0, p);
                linebuf.erase(0, p + 2);
                bool first = true;
                for (std::string & c : srv.on_command(line))
                {
                    // merge=1: the first bytes the server writes in answer to a command while earlier bytes are still
                    // unread arrive together with those (one network read), as they would on a TCP connection
                    if (merge && first && !ms->in.chunks.empty() && !ms->in.chunks.back().empty()) ms->in.chunks.back() += c;
                    else ms->in.chunks.push_back(c);
                    first = false;
                }
            }
        };
        ms->on_connect = [this]() {
            // a new TCP connection: the first group of the script is the greeting
            linebuf.clear();
            ms->in.chunks.clear();
            for (std::string & c : srv.on_command("<connect>")) ms->in.chunks.push_back(c);
        };
        ms->on_read_line = []() { ilog("rl"); };
        cl->control_connection_.socket_.reset(ms);
    }
};

extern volatile int g_current_op;

std::string run(const std::vector<std::string> & tok)
{
    if (tok.size() < 2 || tok[0] != "client") return "bad-op";
    reset_scenario();
    scenario sc;
    ftp::transfer_mode mode = ftp::transfer_mode::passive; ftp::transfer_type type = ftp::transfer_type::binary; bool rfc = true;
    for (const std::string & kv : split(tok[1], ','))
    {
        if (kv == "mode=a") mode = ftp::transfer_mode::active;
        else if (kv == "mode=p") mode = ftp::transfer_mode::passive;
        else if (kv == "rfc=0") rfc = false;
        else if (kv == "rfc=1") rfc = true;
        else if (kv == "type=A") type = ftp::transfer_type::ascii;
        else if (kv == "type=I") type = ftp::transfer_type::binary;
        else if (kv == "ip=6") sc.v6 = true;
        else if (kv == "ip=4") sc.v6 = false;
        else if (kv == "merge=1") sc.merge = true;
        else if (kv.rfind("prop=", 0) == 0) { /* which property's monitor the driver applies */ }
        else return "bad-op";
    }
    sc.srv.peer.v6 = sc.v6;
    sc.cl = std::make_unique<ftp::client>(mode, type, nullptr, rfc);
    sc.wire();
    for (int i = 0; i < 4; i++) sc.obs.push_back(std::make_shared<rec_observer>(i));
    for (auto & o : sc.obs) { o->cl = sc.cl.get(); o->all = &sc.obs; }
    std::string out;
    auto emit = [&out](const std::string & t) { if (!out.empty()) out += " "; out += t; };
    std::size_t baseline_fds = open_client_fds();
    (void)baseline_fds;

    for (std::size_t k = 2; k < tok.size(); k++)
    {
        std::string opstr = tok[k], script;
        std::size_t at = opstr.find('@');
        if (at != std::string::npos) { script = opstr.substr(at + 1); opstr = opstr.substr(0, at); }
        std::vector<std::string> a = split(opstr, ':');
        std::vector<group> groups;
        if (!script.empty())
            for (const std::string & gs : split(script, '/')) { group g; if (!parse_group(gs, g)) return "bad-op"; groups.push_back(g); }
        sc.srv.begin_op(groups);
        emit("op:" + std::to_string(k - 2));
        g_current_op = static_cast<int>(k - 2);
        alarm(20);                                  // watchdog per operation
        take_log();
        sc.ms->in.reads_at_end_this_call = 0;
        rec_sink sink; chop_source src; rec_callback cb; bool have_sink = false;
        std::string ret;
        const std::string & n = a[0];
        std::string s1, s2;
        fault_plan fp;
        try
        {
            auto H = [&](std::size_t i, std::string & o) -> bool { return i < a.size() && unhex_tok(a[i], o); };
            auto reply_ret = [](const ftp::reply & r) { return "ret:reply:" + std::to_string(r.get_code()) + ":" + hex(r.get_status_string()); };
            if (n == "connect")
            {
                unsigned long long port;
                if (!H(1, s1) || a.size() < 3 || !nat(a[2], port)) return "bad-op";
                if (a.size() >= 5)
                {
                    std::string u, p; if (!H(3, u) || !H(4, p)) return "bad-op";
                    ret = "ret:replies:" + render_replies(sc.cl->connect(s1, static_cast<std::uint16_t>(port), std::string_view(u), p));
                }
                else ret = "ret:replies:" + render_replies(sc.cl->connect(s1, static_cast<std::uint16_t>(port)));
            }
            else if (n == "login") { if (!H(1, s1) || !H(2, s2)) return "bad-op"; ret = "ret:replies:" + render_replies(sc.cl->login(s1, s2)); }
            else if (n == "logout") ret = reply_ret(sc.cl->logout());
            else if (n == "cwd") { if (!H(1, s1)) return "bad-op"; ret = reply_ret(sc.cl->change_current_directory(s1)); }
            else if (n == "cdup") ret = reply_ret(sc.cl->change_current_directory_up());
            else if (n == "pwd") ret = reply_ret(sc.cl->get_current_directory());
            else if (n == "dele") { if (!H(1, s1)) return "bad-op"; ret = reply_ret(sc.cl->remove_file(s1)); }
            else if (n == "mkd") { if (!H(1, s1)) return "bad-op"; ret = reply_ret(sc.cl->create_directory(s1)); }
            else if (n == "rmd") { if (!H(1, s1)) return "bad-op"; ret = reply_ret(sc.cl->remove_directory(s1)); }
            else if (n == "size")
            {
                if (!H(1, s1)) return "bad-op";
                ftp::file_size_reply r = sc.cl->get_file_size(s1);
                ret = "ret:size:" + std::to_string(r.get_code()) + ":" + hex(r.get_status_string()) + ":" + (r.get_size() ? std::to_string(*r.get_size()) : std::string("none"));
            }
            else if (n == "mdtm")
            {
                if (!H(1, s1)) return "bad-op";
                ftp::file_modified_time_reply r = sc.cl->get_file_modified_time(s1);
                std::string v = "none";
                if (r.get_datetime())
                {
                    const ftp::datetime & d = *r.get_datetime();
                    v = std::to_string(d.year) + "." + std::to_string(d.month) + "." + std::to_string(d.day) + "." + std::to_string(d.hour) + "."
                        + std::to_string(d.minute) + "." + std::to_string(d.second) + "." + std::to_string(d.fractions);
                }
                ret = "ret:mdtm:" + std::to_string(r.get_code()) + ":" + hex(r.get_status_string()) + ":" + v;
            }
            else if (n == "stat") { if (a.size() > 1) { if (!H(1, s1)) return "bad-op"; ret = reply_ret(sc.cl->get_status(std::string_view(s1))); } else ret = reply_ret(sc.cl->get_status()); }
            else if (n == "syst") ret = reply_ret(sc.cl->get_system_type());
            else if (n == "help") { if (a.size() > 1) { if (!H(1, s1)) return "bad-op"; ret = reply_ret(sc.cl->get_help(std::string_view(s1))); } else ret = reply_ret(sc.cl->get_help()); }
            else if (n == "sitehelp") ret = reply_ret(sc.cl->get_site_commands());
            else if (n == "site") { if (!H(1, s1)) return "bad-op"; ret = reply_ret(sc.cl->send_site_command(s1)); }
            else if (n == "noop") ret = reply_ret(sc.cl->send_noop());
            else if (n == "type") ret = reply_ret(sc.cl->set_transfer_type(a.size() > 1 && a[1] == "A" ? ftp::transfer_type::ascii : ftp::transfer_type::binary));
            else if (n == "setmode") { sc.cl->set_transfer_mode(a.size() > 1 && a[1] == "a" ? ftp::transfer_mode::active : ftp::transfer_mode::passive); ret = "ret:void"; }
            else if (n == "setrfc") { sc.cl->set_rfc2428_support(a.size() > 1 && a[1] == "1"); ret = "ret:void"; }
            else if (n == "rename") { if (!H(1, s1) || !H(2, s2)) return "bad-op"; ret = "ret:replies:" + render_replies(sc.cl->rename(s1, s2)); }
            else if (n == "list")
            {
                if (a.size() != 3) return "bad-op";
                ftp::file_list_reply r = (a[1] == "-") ? sc.cl->get_file_list(std::nullopt, a[2] == "1")
                                                       : (H(1, s1) ? sc.cl->get_file_list(std::string_view(s1), a[2] == "1") : ftp::file_list_reply());
                ret = "ret:list:" + render_replies(r) + ":" + hex(r.get_file_list_str()) + ":" + render_hexlist(r.get_file_list());
            }
            else if (n == "get")
            {
                // get:<hexpath>:<sink ok|failK>:<cb -|p<bits>>
                if (a.size() != 4 || !H(1, s1)) return "bad-op";
                have_sink = true;
                if (a[2].rfind("fail", 0) == 0) sink.fail_at = std::atoi(a[2].c_str() + 4);
                ftp::transfer_callback *pcb = nullptr;
                if (a[3] != "-") { cb.polls = a[3].substr(1); pcb = &cb; }
                ret = "ret:replies:" + render_replies(sc.cl->download_file(sink, s1, pcb));
            }
            else if (n == "put")
            {
                // put:<STOR|STOU|APPE>:<hexpath>:<payload>:<chop dotlist|->:<src ok|failK>:<cb>
                if (a.size() != 7 || !H(2, s1) || !parse_payload(a[3], src.data)) return "bad-op";
                src.chop = dotlist(a[4]);
                if (a[5].rfind("fail", 0) == 0) src.fail_at = std::atoi(a[5].c_str() + 4);
                if (a[5] == "poison") src.poison = true;
                ftp::transfer_callback *pcb = nullptr;
                if (a[6] != "-") { cb.polls = a[6].substr(1); pcb = &cb; }
                if (a[1] == "APPE") ret = "ret:replies:" + render_replies(sc.cl->append_file(src, s1, pcb));
                else ret = "ret:replies:" + render_replies(sc.cl->upload_file(src, s1, a[1] == "STOU", pcb));
            }
            else if (n == "disc")
            {
                std::optional<ftp::reply> r = sc.cl->disconnect(a.size() > 1 && a[1] == "1");
                ret = r ? "ret:opt:" + std::to_string(r->get_code()) + ":" + hex(r->get_status_string()) : std::string("ret:opt:none");
            }
            else if (n == "addobs") { sc.cl->add_observer(sc.obs.at(static_cast<std::size_t>(std::atoi(a.at(1).c_str())))); ret = "ret:void"; }
            else if (n == "rmin")
            {
                // rmin:<i>:<j>  observer i removes observer j (i != j) from inside its next callback
                int i = std::atoi(a.at(1).c_str()), j = std::atoi(a.at(2).c_str());
                if (i == j || i < 0 || j < 0 || i >= 4 || j >= 4) return "bad-op";
                sc.obs[static_cast<std::size_t>(i)]->arm_target = j; ret = "ret:void";
            }
            else if (n == "rmobs") { sc.cl->remove_observer(sc.obs.at(static_cast<std::size_t>(std::atoi(a.at(1).c_str())))); ret = "ret:void"; }
            else if (n == "isconn") ret = std::string("ret:bool:") + (sc.cl->is_connected() ? "1" : "0");
            else if (n == "faults")
            {
                // faults:<send_fail_at|->:<close_fail_at|->[:<send_eintr_at|->]   (armed for the following operations)
                if (a.size() > 1 && a[1] != "-") fp.send_fail_at = std::atoi(a[1].c_str());
                if (a.size() > 2 && a[2] != "-") fp.close_fail_at = std::atoi(a[2].c_str());
                if (a.size() > 3 && a[3] != "-") fp.send_eintr_at = std::atoi(a[3].c_str());
                set_faults(fp);
                ret = "ret:void";
            }
            else return "bad-op";
        }
        catch (const ftp::ftp_exception &) { ret = "thr:ftp"; }
        catch (const livelock &) { ret = "LIVELOCK"; }
        catch (const std::exception & ex) { ret = std::string("thr:other:") + typeid(ex).name(); }
        catch (...) { ret = "thr:other:unknown"; }

        sc.srv.peer.finish();
        sc.srv.peer.close_listener();
        for (const std::string & e : take_log()) emit(e);
        emit(ret);
        if (have_sink)
            emit("sink:" + std::to_string(sink.bytes.size()) + ":" + std::to_string(fnv(sink.bytes)) + ":" + (sink.bytes.size() <= 512 ? hex(sink.bytes) : std::string("-")) + ":" + std::to_string(sink.flushes));
        std::string pend = sc.cl->control_connection_.buffer_;
        for (const std::string & c : sc.ms->in.chunks) pend += c;
        emit(std::string("st:") + (sc.cl->is_connected() ? "1" : "0") + ":" + (sc.cl->get_transfer_type() == ftp::transfer_type::ascii ? "A" : "I") + ":"
             + (sc.cl->get_transfer_mode() == ftp::transfer_mode::active ? "a" : "p") + ":" + (sc.cl->get_rfc2428_support() ? "1" : "0") + ":"
             + std::to_string(open_client_fds()) + ":" + (pend.size() <= 64 ? hex(pend) : "n" + std::to_string(pend.size())));
        emit(std::string("cs:") + (sc.ms && sc.ms->open ? "1" : "0"));      // is the (in-memory) control socket open?
        {
            std::string cmds;
            for (const std::string & c : sc.srv.commands) { if (c == "<connect>") continue; if (!cmds.empty()) cmds += ","; cmds += hex(c); }
            emit("srv:" + (cmds.empty() ? std::string("-") : cmds));
            std::string res;
            for (const std::string & r : sc.srv.resolved) { if (!res.empty()) res += "/"; res += r; }
            emit("played:" + (res.empty() ? std::string("-") : res));
        }
        if (sc.srv.transfer_started)
        {
            data_peer & p = sc.srv.peer;
            emit("peer:" + std::to_string(p.connected) + ":" + std::to_string(p.sent) + ":" + std::to_string(p.received.size()) + ":" + std::to_string(fnv(p.received)) + ":"
                 + (p.received.size() <= 512 ? hex(p.received) : std::string("-")) + ":" + std::to_string(p.saw_eof) + ":" + (p.err.empty() ? std::string("-") : p.err));
        }
        if (ret == "LIVELOCK") break;
    }
    // destruction releases everything
    sc.cl.reset();
    for (const std::string & e : take_log()) emit(e);
    emit("end:" + std::to_string(open_client_fds()));
    return out;
}

volatile int g_current_op = -1;

void on_alarm(int)
{
    char msg[64];
    int n = std::snprintf(msg, sizeof msg, " => HANG op:%d\n", g_current_op);
    ssize_t w = ::write(1, msg, static_cast<std::size_t>(n)); (void)w;
    _exit(3);
}

} // namespace

int main()
{
    std::signal(SIGPIPE, SIG_IGN);
    std::signal(SIGALRM, on_alarm);
    std::string line;
    while (std::getline(std::cin, line))
    {
        if (line.empty()) continue;
        std::string out;
        alarm(20);
        std::cout << line << std::flush;          // so that a hang is attributed to this scenario
        try { out = run(split(line, ' ')); }
        catch (const std::exception & ex) { out = std::string("escaped:") + typeid(ex).name() + ":" + ex.what(); }
        catch (...) { out = "escaped:unknown"; }
        alarm(0);
        std::cout << " => " << out << "\n" << std::flush;
    }
    return 0;
}
