// Scripted FTP server core (transport independent) and the loopback data peer.
//
// The script of one operation is a list of reply groups; the k-th command line the client sends during that operation
// is answered with the k-th group (a command beyond the script is answered "500 script exhausted").
// group  := item , item , ...
// item   := r<hexraw>          raw bytes of one complete reply (terminators included)
//           E                  "229 Entering Extended Passive Mode (|||<port>|)\r\n" for a fresh listening socket of the peer
//           P                  "227 Entering Passive Mode (h1,h2,h3,h4,p1,p2)\r\n"        (IPv4 only)
//           c<n>.<n>...        how the bytes of this group are cut into deliveries (cycled; default: one delivery)
//           Dsend:<payload>:<sizes>:<c|r>      data peer: write the payload in pieces of the given sizes, then close / reset
//           Drecv:<limit|->:<c|r>             data peer: read to end-of-file (or `limit` bytes), then close / reset
//           Dnone                              data peer: open and close the connection without moving a byte
// payload := h<hex>  |  g<seed>.<len>  (deterministic pseudo-random bytes)
#pragma once
#include "common.hpp"
#include "interpose.hpp"
#include <sys/socket.h>
#include <netinet/in.h>
#include <netinet/tcp.h>
#include <arpa/inet.h>
#include <unistd.h>
#include <poll.h>
#include <thread>
#include <atomic>
#include <optional>
#include <cstring>
#include <openssl/ssl.h>
#include <openssl/err.h>

namespace vh {

inline std::uint64_t fnv(const std::string & s)
{
    std::uint64_t h = 1469598103934665603ull;
    for (unsigned char c : s) { h ^= c; h *= 1099511628211ull; }
    return h;
}

inline std::string gen_payload(std::uint64_t seed, std::size_t len)
{
    std::string r; r.resize(len);
    std::uint64_t x = seed * 0x9E3779B97F4A7C15ull + 0x1234567ull;
    for (std::size_t i = 0; i < len; i++)
    {
        x ^= x << 13; x ^= x >> 7; x ^= x << 17;
        r[i] = static_cast<char>(x & 0xff);
    }
    return r;
}

inline bool parse_payload(const std::string & s, std::string & out)
{
    if (s.empty()) return false;
    if (s[0] == 'h') return unhex("x" + s.substr(1), out);
    if (s[0] == 'g')
    {
        std::vector<std::string> p = split(s.substr(1), '.');
        unsigned long long seed, len;
        if (p.size() != 2 || !nat(p[0], seed) || !nat(p[1], len)) return false;
        out = gen_payload(seed, len);
        return true;
    }
    return false;
}

inline std::vector<std::size_t> dotlist(const std::string & s)
{
    std::vector<std::size_t> r;
    if (s.empty() || s == "-") return r;
    for (const std::string & p : split(s, '.')) { unsigned long long v; if (nat(p, v)) r.push_back(v); }
    return r;
}

struct data_action
{
    enum kind_t { none, send, recv, touch } kind = none;
    std::string payload;
    std::vector<std::size_t> sizes;
    bool reset = false;
    bool truncate = false;          // TLS: close TCP without sending close-notify
    long long limit = -1;
    bool other_cert = false;             // TLS: handshake with the other context (a certificate of another CA, no session to resume)
    bool pause = false;                  // send: sleep a few milliseconds between segments so that the reader sees them one by one
    bool early_close = false;            // TLS: the peer closes its connection (FIN) instead of answering the handshake
};

struct group
{
    std::vector<std::string> items;      // "r<hex>", "E", "P"
    std::vector<std::size_t> cuts;
    data_action act;
    bool start_tls = false;              // T: after these replies the server starts the TLS handshake on the control connection
    bool garbage = false;                // G: ... sends garbage instead of a ServerHello and closes
    bool close_after = false;            // X: ... closes the control connection
    bool reset_after = false;            // R: ... resets the control connection (close with SO_LINGER 0: the client sees ECONNRESET)
    bool reactive_abor = false;          // A: (on the group of an upload command) the server answers a later ABOR the way RFC 959 servers do:
                                         //    if it has already seen the end of the data connection the transfer is complete (226) and
                                         //    ABOR gets a single 226; otherwise the scripted ABOR group is played
    bool bad_cert = false;               // B: the TLS handshake started by T presents a certificate of an unknown CA
};

inline bool parse_group(const std::string & s, group & g)
{
    for (const std::string & it : split(s, ','))
    {
        if (it.empty()) continue;
        if (it[0] == 'r' || it == "E" || it == "P") g.items.push_back(it);
        else if (it == "T") g.start_tls = true;
        else if (it == "G") g.garbage = true;
        else if (it == "X") g.close_after = true;
        else if (it == "R") { g.close_after = true; g.reset_after = true; }
        else if (it == "B") g.bad_cert = true;
        else if (it == "A") g.reactive_abor = true;
        else if (it[0] == 'c') g.cuts = dotlist(it.substr(1));
        else if (it[0] == 'D')
        {
            std::vector<std::string> p = split(it.substr(1), ':');
            if (p[0] == "send" && p.size() == 4)
            {
                g.act.kind = data_action::send;
                if (!parse_payload(p[1], g.act.payload)) return false;
                g.act.sizes = dotlist(p[2]);
                g.act.reset = !p[3].empty() && p[3][0] == 'r';
                g.act.truncate = !p[3].empty() && p[3][0] == 't';
                g.act.pause = p[3].find('p') != std::string::npos;     // "cp": a short pause between the segments
                g.act.other_cert = p[3].find('b') != std::string::npos; // "cb": the data peer answers with the *other* TLS context (other CA)
                g.act.early_close = p[3].find('k') != std::string::npos; // "ck": the data peer closes instead of handshaking
            }
            else if (p[0] == "recv" && p.size() == 3)
            {
                g.act.kind = data_action::recv;
                unsigned long long l;
                if (p[1] != "-" && nat(p[1], l)) g.act.limit = static_cast<long long>(l);
                g.act.reset = !p[2].empty() && p[2][0] == 'r';
                g.act.other_cert = p[2].find('b') != std::string::npos;
            }
            else if (p[0] == "none") g.act.kind = data_action::touch;
            else return false;
        }
        else return false;
    }
    return true;
}

// The data peer: a listening socket (passive) or a target endpoint (active), and a worker thread per transfer.
class data_peer
{
public:
    bool v6 = false;
    int lfd = -1;                       // passive: listening socket
    std::uint16_t lport = 0;
    std::optional<sockaddr_storage> target; socklen_t target_len = 0;   // active: where the client listens
    std::thread worker;
    // results of the last transfer
    std::string received; std::size_t sent = 0; bool saw_eof = false; bool connected = false; std::string err;
    std::atomic<bool> done{false};
    // TLS on the data connection (server side)
    SSL_CTX *tls_ctx = nullptr, *tls_ctx_other = nullptr; bool tls = false; bool require_reuse = false; bool reused = false; bool tls_ok = false; bool saw_close_notify = false;

    ~data_peer() { finish(); close_listener(); }

    std::uint16_t open_listener()
    {
        peer_scope ps;
        close_listener();
        lfd = ::socket(v6 ? AF_INET6 : AF_INET, SOCK_STREAM, 0);
        int one = 1; setsockopt(lfd, SOL_SOCKET, SO_REUSEADDR, &one, sizeof one);
        if (v6)
        {
            sockaddr_in6 a{}; a.sin6_family = AF_INET6; a.sin6_addr = in6addr_loopback; a.sin6_port = 0;
            ::bind(lfd, reinterpret_cast<sockaddr *>(&a), sizeof a); ::listen(lfd, 4);
            socklen_t l = sizeof a; getsockname(lfd, reinterpret_cast<sockaddr *>(&a), &l); lport = ntohs(a.sin6_port);
        }
        else
        {
            sockaddr_in a{}; a.sin_family = AF_INET; a.sin_addr.s_addr = htonl(INADDR_ANY); a.sin_port = 0;     // reachable on every 127.0.0.x
            ::bind(lfd, reinterpret_cast<sockaddr *>(&a), sizeof a); ::listen(lfd, 4);
            socklen_t l = sizeof a; getsockname(lfd, reinterpret_cast<sockaddr *>(&a), &l); lport = ntohs(a.sin_port);
        }
        return lport;
    }

    void close_listener() { peer_scope ps; if (lfd >= 0) { ::close(lfd); lfd = -1; } }

    void set_target(const std::string & ip, std::uint16_t port)
    {
        sockaddr_storage ss{};
        if (ip.find(':') != std::string::npos)
        {
            auto *a = reinterpret_cast<sockaddr_in6 *>(&ss); a->sin6_family = AF_INET6; a->sin6_port = htons(port);
            inet_pton(AF_INET6, ip.c_str(), &a->sin6_addr); target_len = sizeof(sockaddr_in6);
        }
        else
        {
            auto *a = reinterpret_cast<sockaddr_in *>(&ss); a->sin_family = AF_INET; a->sin_port = htons(port);
            inet_pton(AF_INET, ip.c_str(), &a->sin_addr); target_len = sizeof(sockaddr_in);
        }
        target = ss;
    }

    void start(const data_action & act)
    {
        finish();
        received.clear(); sent = 0; saw_eof = false; connected = false; err.clear(); done = false; reused = false; tls_ok = false; saw_close_notify = false;
        bool passive = lfd >= 0 && !this->target;     // the client's last word decides: after PORT / EPRT the peer connects, whatever the script opened
        std::optional<sockaddr_storage> target = this->target; socklen_t target_len = this->target_len;
        worker = std::thread([this, act, passive, target, target_len] {
            peer_scope ps;
            int fd = -1;
            if (passive)
            {
                pollfd p{lfd, POLLIN, 0};
                if (::poll(&p, 1, 5000) > 0) fd = ::accept(lfd, nullptr, nullptr);
                else err = "no-connection";
            }
            else if (target)
            {
                fd = ::socket(target->ss_family, SOCK_STREAM, 0);
                if (::connect(fd, reinterpret_cast<const sockaddr *>(&*target), target_len) != 0) { err = "connect-failed"; ::close(fd); fd = -1; }
            }
            else err = "no-endpoint";
            if (fd >= 0)
            {
                connected = true;
                int one = 1; setsockopt(fd, IPPROTO_TCP, TCP_NODELAY, &one, sizeof one);
                // a client that neither reads, writes nor closes (a leaked descriptor) must not block the peer for ever
                timeval tv{4, 0};
                setsockopt(fd, SOL_SOCKET, SO_RCVTIMEO, &tv, sizeof tv); setsockopt(fd, SOL_SOCKET, SO_SNDTIMEO, &tv, sizeof tv);
                SSL *ssl = nullptr;
                bool go = true;
                if (tls && tls_ctx && act.early_close) { err = "closed-before-handshake"; go = false; ::shutdown(fd, SHUT_WR); }
                else if (tls && tls_ctx)
                {
                    ssl = SSL_new(act.other_cert && tls_ctx_other ? tls_ctx_other : tls_ctx);
                    SSL_set_fd(ssl, fd);
                    if (SSL_accept(ssl) != 1) { err = "tls-handshake-failed"; go = false; }
                    else
                    {
                        tls_ok = true;
                        reused = SSL_session_reused(ssl) == 1;
                        if (require_reuse && !reused) { err = "session-reuse-required"; go = false; }
                    }
                }
                if (go && act.kind == data_action::send)
                {
                    std::size_t pos = 0, i = 0;
                    while (pos < act.payload.size())
                    {
                        std::size_t n = act.sizes.empty() ? act.payload.size() - pos : std::max<std::size_t>(1, act.sizes[i++ % act.sizes.size()]);
                        n = std::min(n, act.payload.size() - pos);
                        ssize_t w = ssl ? SSL_write(ssl, act.payload.data() + pos, static_cast<int>(std::min<std::size_t>(n, 16384)))
                                        : ::send(fd, act.payload.data() + pos, n, MSG_NOSIGNAL);
                        if (w <= 0) { err = "send-failed"; break; }
                        pos += static_cast<std::size_t>(w);
                        if (act.pause && pos < act.payload.size()) std::this_thread::sleep_for(std::chrono::milliseconds(3));
                    }
                    sent = pos;
                }
                else if (go && act.kind == data_action::recv)
                {
                    char buf[16384];
                    for (;;)
                    {
                        if (act.limit >= 0 && static_cast<long long>(received.size()) >= act.limit) break;
                        ssize_t r = ssl ? SSL_read(ssl, buf, sizeof buf) : ::recv(fd, buf, sizeof buf, 0);
                        if (ssl && r <= 0 && SSL_get_error(ssl, static_cast<int>(r)) == SSL_ERROR_ZERO_RETURN) { saw_eof = true; saw_close_notify = true; break; }
                        if (r == 0) { saw_eof = true; break; }
                        if (r < 0) { err = "recv-failed"; break; }
                        received.append(buf, static_cast<std::size_t>(r));
                    }
                }
                if (ssl)
                {
                    if (go && !act.truncate && !act.reset)
                    {
                        // send our close-notify and wait for the client's (Asio's synchronous shutdown waits for ours)
                        int r = SSL_shutdown(ssl);
                        if (r == 0)
                        {
                            pollfd p{fd, POLLIN, 0};
                            if (::poll(&p, 1, 3000) > 0) SSL_shutdown(ssl);
                        }
                    }
                    SSL_free(ssl);
                }
                if (act.reset) { linger lg{1, 0}; setsockopt(fd, SOL_SOCKET, SO_LINGER, &lg, sizeof lg); }
                ::close(fd);
            }
            done = true;
        });
    }

    void finish() { if (worker.joinable()) worker.join(); }
};

// Transport-independent script interpreter.
class script_server
{
public:
    std::vector<group> script;      // groups of the current operation
    std::size_t next = 0;
    data_peer peer;
    std::string ip4 = "127.0.0.1";
    std::vector<std::string> commands;                 // command lines received during the current operation
    std::vector<std::string> resolved;                 // the groups actually played (placeholders resolved), for the driver
    std::vector<std::string> generated;                // raw replies generated during the current operation
    bool transfer_started = false;
    // E-app only: the model assumes that the server's data peer shows up once the server has accepted a transfer command
    // (data_connection::accept / recv have no time-out: the client would block for ever, which is neither an exit nor an
    // answer).  With this flag a non-negative answer to a transfer command whose group has no data action makes the peer
    // connect / accept and then close (downloads; the last scripted payload is sent again when there is one, as in the
    // model) or read everything (uploads).
    bool implicit_data = false;
    data_action last_act;
    bool reactive_abor_armed = false;                  // the last transfer group carried the flag A
    bool data_ended_first = false;                     // set by the transport before on_command("ABOR"): the peer saw end-of-file already
    group last_group;                                  // the group played for the last command (flags for the transport)

    void begin_op(const std::vector<group> & groups) { script = groups; next = 0; commands.clear(); generated.clear(); resolved.clear(); transfer_started = false; }

    // a complete command line (without CR LF) arrived: returns the deliveries to queue for the client
    std::vector<std::string> on_command(const std::string & line)
    {
        commands.push_back(line);
        // active mode: remember the advertised endpoint (server-side decoding, independent of the client's formatter)
        if (line.rfind("PORT ", 0) == 0)
        {
            std::vector<std::string> f = split(line.substr(5), ',');
            if (f.size() == 6) peer.set_target(f[0] + "." + f[1] + "." + f[2] + "." + f[3], static_cast<std::uint16_t>(std::atoi(f[4].c_str()) * 256 + std::atoi(f[5].c_str())));
            peer.close_listener();
        }
        else if (line.rfind("EPRT ", 0) == 0)
        {
            std::vector<std::string> f = split(line.substr(5), '|');
            if (f.size() == 5) peer.set_target(f[2], static_cast<std::uint16_t>(std::atoi(f[3].c_str())));
            peer.close_listener();
        }
        else if (line == "EPSV" || line == "PASV") peer.target.reset();
        group g;
        if (next < script.size()) g = script[next++];
        else g.items.push_back("r" + hex("500 script exhausted\r\n").substr(1));
        if (line == "ABOR" && reactive_abor_armed && data_ended_first)
        {
            // the upload had ended before ABOR arrived: completion reply of the transfer, then the single reply to ABOR
            g.items.clear();
            g.items.push_back("r" + hex("226 Transfer complete.\r\n").substr(1));
            g.items.push_back("r" + hex("226 No transfer to abort.\r\n").substr(1));
        }
        if (line != "ABOR") reactive_abor_armed = g.reactive_abor;
        data_ended_first = false;
        last_group = g;
        std::string bytes, res;
        for (const std::string & it : g.items)
        {
            std::string raw;
            if (it == "E") raw = "229 Entering Extended Passive Mode (|||" + std::to_string(peer.open_listener()) + "|)\r\n";
            else if (it == "P")
            {
                std::uint16_t p = peer.open_listener();
                raw = "227 Entering Passive Mode (127,0,0,1," + std::to_string(p / 256) + "," + std::to_string(p % 256) + ")\r\n";
            }
            else unhex("x" + it.substr(1), raw);
            generated.push_back(raw);
            bytes += raw;
            if (!res.empty()) res += ",";
            res += hex(raw);
        }
        resolved.push_back(res.empty() ? "-" : res);
        if (g.act.kind != data_action::none) { peer.start(g.act); transfer_started = true; }
        else if (implicit_data && (peer.target || peer.lfd >= 0) && !bytes.empty() && bytes[0] >= '1' && bytes[0] <= '3')
        {
            std::string verb = line.substr(0, line.find(' '));
            bool up = verb == "STOR" || verb == "APPE" || verb == "STOU";
            if (up || verb == "RETR" || verb == "LIST" || verb == "NLST")
            {
                if (peer.target) peer.close_listener();       // the client listens (PORT / EPRT was its last word): connect to it
                data_action a;
                if (up) { a.kind = data_action::recv; a.limit = -1; }
                else if (last_act.kind == data_action::send) a = last_act;        // the model keeps the last scripted payload
                else a.kind = data_action::touch;
                peer.start(a); transfer_started = true;
            }
        }
        if (g.act.kind != data_action::none) last_act = g.act;
        std::vector<std::string> out;
        std::size_t pos = 0, i = 0;
        while (pos < bytes.size())
        {
            std::size_t n = g.cuts.empty() ? bytes.size() - pos : std::max<std::size_t>(1, g.cuts[i++ % g.cuts.size()]);
            n = std::min(n, bytes.size() - pos);
            out.push_back(bytes.substr(pos, n));
            pos += n;
        }
        return out;
    }
};

} // namespace vh
