// E-e2e: the unmodified ftp::client over real loopback TCP against an in-process scripted FTP/FTPS server
// (OpenSSL engine, certificates generated at start-up). Raw bytes handed to send()/sendmsg() by the client are
// captured *after* its TLS engine; SSL_new / SSL_set_session are interposed to see which context and which session
// each connection uses.
//
//   e2e <cfg> <op> <op> ...
//   cfg := mode=<p|a>,rfc=<0|1>,type=<I|A>,tls=<0|1>,resume=<0|1>,verify=<peer|none>,ver=<12|13>,reqreuse=<0|1>[,vcb=<0|1>],prop=Cxx
//   op  := as in h_client; group items additionally: T (start TLS on the control connection after these replies),
//          B (with T: present a certificate of an unknown CA), G (send garbage instead of a ServerHello), X (close).
#include "common.hpp"
#include "env_peer.hpp"
#include "interpose.hpp"
#include <ftp/ftp.hpp>
#include "env_server.hpp"
#include <csignal>
#include <mutex>
#include <dlfcn.h>

using namespace vh;

// ---------------------------------------------------------------------------------------------------------------
// interposed OpenSSL entry points (client side only)
namespace {
std::mutex g_ssl_mu;
std::vector<SSL *> g_client_ssls;          // live SSL objects created by client code, in creation order
std::vector<SSL_CTX *> g_ctxs;             // contexts seen, in order
int g_ssl_count = 0;
std::map<SSL *, int> g_ssl_ord;
}
namespace vh { extern thread_local int tl_peer_depth; }

extern "C" SSL *SSL_new(SSL_CTX *ctx)
{
    static auto f = reinterpret_cast<SSL *(*)(SSL_CTX *)>(dlsym(RTLD_NEXT, "SSL_new"));
    SSL *s = f(ctx);
    if (s && vh::tl_peer_depth == 0)
    {
        std::lock_guard<std::mutex> l(g_ssl_mu);
        std::size_t c = 0;
        for (; c < g_ctxs.size(); c++) if (g_ctxs[c] == ctx) break;
        if (c == g_ctxs.size()) g_ctxs.push_back(ctx);
        g_client_ssls.push_back(s);
        g_ssl_ord[s] = ++g_ssl_count;
        ilog("sn:" + std::to_string(g_ssl_count) + ":" + std::to_string(c + 1));
    }
    return s;
}

extern "C" void SSL_free(SSL *s)
{
    static auto f = reinterpret_cast<void (*)(SSL *)>(dlsym(RTLD_NEXT, "SSL_free"));
    {
        std::lock_guard<std::mutex> l(g_ssl_mu);
        for (std::size_t i = 0; i < g_client_ssls.size(); i++) if (g_client_ssls[i] == s) { g_client_ssls.erase(g_client_ssls.begin() + static_cast<long>(i)); break; }
        g_ssl_ord.erase(s);
    }
    f(s);
}

extern "C" int SSL_set_session(SSL *s, SSL_SESSION *sess)
{
    static auto f = reinterpret_cast<int (*)(SSL *, SSL_SESSION *)>(dlsym(RTLD_NEXT, "SSL_set_session"));
    if (vh::tl_peer_depth == 0)
    {
        std::lock_guard<std::mutex> l(g_ssl_mu);
        int me = g_ssl_ord.count(s) ? g_ssl_ord[s] : 0;
        int owner = 0;
        for (SSL *o : g_client_ssls) if (o != s && sess && SSL_get0_session(o) == sess) owner = g_ssl_ord[o];
        ilog("ss:" + std::to_string(me) + ":" + std::to_string(owner));
    }
    return f(s, sess);
}

extern "C" int SSL_connect(SSL *s)
{
    static auto f = reinterpret_cast<int (*)(SSL *)>(dlsym(RTLD_NEXT, "SSL_connect"));
    int r = f(s);
    if (vh::tl_peer_depth == 0)
    {
        int me;
        { std::lock_guard<std::mutex> l(g_ssl_mu); me = g_ssl_ord.count(s) ? g_ssl_ord[s] : 0; }
        if (r == 1) ilog("hs:" + std::to_string(me) + ":1");
        else
        {
            int e = SSL_get_error(s, r);
            if (e != SSL_ERROR_WANT_READ && e != SSL_ERROR_WANT_WRITE) ilog("hs:" + std::to_string(me) + ":0");
        }
    }
    return r;
}

namespace {

// ---------------------------------------------------------------------------------------------------------------
struct rec_callback : ftp::transfer_callback
{
    std::string polls; std::size_t i = 0; bool sticky = false;
    void begin() override { ilog("cb:b"); }
    void notify(std::size_t n) override { ilog("cb:n:" + std::to_string(n)); }
    void end() override { ilog("cb:e"); }
    bool is_cancelled() override
    {
        bool r = sticky;
        if (!sticky && i < polls.size()) { r = polls[i] == '1'; }
        i++;
        if (r) sticky = true;
        ilog(std::string("cb:p:") + (r ? "1" : "0"));
        return r;
    }
};

struct rec_observer : ftp::observer
{
    int id;
    explicit rec_observer(int i) : id(i) {}
    void on_connected(std::string_view h, std::uint16_t) override { ilog("o" + std::to_string(id) + ":c:" + hex(std::string(h)) + ":$P"); }
    void on_request(std::string_view c) override { ilog("o" + std::to_string(id) + ":q:" + hex(std::string(c))); }
    void on_reply(const ftp::reply & r) override { ilog("o" + std::to_string(id) + ":r:" + std::to_string(r.get_code()) + ":" + hex(r.get_status_string())); }
    void on_file_list(std::string_view l) override { ilog("o" + std::to_string(id) + ":l:" + hex(std::string(l))); }
};

struct rec_sink : ftp::output_stream
{
    std::string bytes; int flushes = 0;
    void write(char *buf, std::size_t size) override { bytes.append(buf, size); }
    void flush() override { flushes++; }
};

struct mem_source : ftp::input_stream
{
    std::string data; std::size_t pos = 0;
    std::vector<std::size_t> chop; std::size_t call = 0;      // chop: the source returns at most chop[k mod n] bytes at its k-th read
    std::size_t read(char *buf, std::size_t size) override
    {
        std::size_t want = chop.empty() ? size : std::min(size, std::max<std::size_t>(1, chop[call % chop.size()]));
        call++;
        std::size_t got = std::min(want, data.size() - pos);
        std::copy(data.data() + pos, data.data() + pos + got, buf);
        pos += got; return got;
    }
};

std::string render_replies(const ftp::replies & rs)
{
    std::string m;
    for (const ftp::reply & r : rs) { if (!m.empty()) m += ","; m += std::to_string(r.get_code()) + ":" + hex(r.get_status_string()); }
    if (m.empty()) m = "-";
    return std::to_string(rs.is_positive()) + ":" + m;
}

volatile int g_current_op = -1;

std::string run(const std::vector<std::string> & tok)
{
    if (tok.size() < 2 || tok[0] != "e2e") return "bad-op";
    reset_scenario();
    { std::lock_guard<std::mutex> l(g_ssl_mu); g_client_ssls.clear(); g_ctxs.clear(); g_ssl_count = 0; g_ssl_ord.clear(); }
    ftp::transfer_mode mode = ftp::transfer_mode::passive; ftp::transfer_type type = ftp::transfer_type::binary; bool rfc = true;
    bool tls = false, resume = false, verify = true, reqreuse = false, v6 = false, vcb = false; int ver = 13;
    for (const std::string & kv : split(tok[1], ','))
    {
        if (kv == "mode=a") mode = ftp::transfer_mode::active;
        else if (kv == "mode=p") mode = ftp::transfer_mode::passive;
        else if (kv == "rfc=0") rfc = false; else if (kv == "rfc=1") rfc = true;
        else if (kv == "type=A") type = ftp::transfer_type::ascii; else if (kv == "type=I") type = ftp::transfer_type::binary;
        else if (kv == "ip=6") v6 = true; else if (kv == "ip=4") v6 = false;
        else if (kv == "tls=1") tls = true; else if (kv == "tls=0") tls = false;
        else if (kv == "resume=1") resume = true; else if (kv == "resume=0") resume = false;
        else if (kv == "verify=none") verify = false; else if (kv == "verify=peer") verify = true;
        else if (kv == "ver=12") ver = 12; else if (kv == "ver=13") ver = 13;
        else if (kv == "reqreuse=1") reqreuse = true; else if (kv == "reqreuse=0") reqreuse = false;
        else if (kv == "vcb=1") vcb = true; else if (kv == "vcb=0") vcb = false;
        else if (kv.rfind("prop=", 0) == 0) {}
        else return "bad-op";
    }
    ctl_server srv;
    srv.start(v6, ver, reqreuse);
    std::string out;
    auto emit = [&out](const std::string & t) { if (!out.empty()) out += " "; out += t; };
    {
        ftp::ssl::context_ptr ctx;
        if (tls)
        {
            ctx = ftp::ssl::create_context(ver == 12 ? ftp::ssl::context::tlsv12_client : ftp::ssl::context::tlsv13_client, resume);
            ctx->add_certificate_authority(boost::asio::buffer(g_good.ca_pem));
            ctx->set_verify_mode(verify ? ftp::ssl::verify_peer : ftp::ssl::verify_none);
            // an application-supplied verify callback (asio keeps it in the SSL_CTX's app-data slot) that accepts what OpenSSL accepted
            if (vcb) ctx->set_verify_callback([](bool preverified, boost::asio::ssl::verify_context &) { return preverified; });
        }
        ftp::client cl(mode, type, std::move(ctx), rfc);
        auto obs = std::make_shared<rec_observer>(0);
        cl.add_observer(obs);
        const std::string default_host = v6 ? "::1" : "127.0.0.1";
        set_capture_raw(true);

        for (std::size_t k = 2; k < tok.size(); k++)
        {
            std::string opstr = tok[k], script;
            std::size_t at = opstr.find('@');
            if (at != std::string::npos) { script = opstr.substr(at + 1); opstr = opstr.substr(0, at); }
            std::vector<std::string> a = split(opstr, ':');
            std::vector<group> groups;
            if (!script.empty())
                for (const std::string & gs : split(script, '/')) { group g; if (!parse_group(gs, g)) return "bad-op"; groups.push_back(g); }
            { std::lock_guard<std::mutex> l(srv.mu); srv.core.begin_op(groups); srv.events.clear(); }
            emit("op:" + std::to_string(k - 2));
            g_current_op = static_cast<int>(k - 2);
            alarm(20);
            take_log();
            rec_sink sink; mem_source src; bool have_sink = false; rec_callback cb;
            std::string ret, s1, s2;
            const std::string & n = a[0];
            try
            {
                auto H = [&](std::size_t i, std::string & o) -> bool { return i < a.size() && unhex(a[i], o); };
                auto reply_ret = [](const ftp::reply & r) { return "ret:reply:" + std::to_string(r.get_code()) + ":" + hex(r.get_status_string()); };
                if (n == "connect")
                {
                    // connect:<host|->:-[:<user>:<pass>]   host: another loopback address of this machine (e.g. 127.0.0.2)
                    std::string h2;
                    const std::string host = (a.size() > 1 && a[1] != "-" && unhex(a[1], h2)) ? h2 : default_host;
                    if (a.size() >= 5) { std::string u, p; if (!H(3, u) || !H(4, p)) return "bad-op"; ret = "ret:replies:" + render_replies(cl.connect(host, srv.port, std::string_view(u), p)); }
                    else ret = "ret:replies:" + render_replies(cl.connect(host, srv.port));
                }
                else if (n == "login") { if (!H(1, s1) || !H(2, s2)) return "bad-op"; ret = "ret:replies:" + render_replies(cl.login(s1, s2)); }
                else if (n == "logout") ret = reply_ret(cl.logout());
                else if (n == "noop") ret = reply_ret(cl.send_noop());
                else if (n == "pwd") ret = reply_ret(cl.get_current_directory());
                else if (n == "cwd") { if (!H(1, s1)) return "bad-op"; ret = reply_ret(cl.change_current_directory(s1)); }
                else if (n == "list")
                {
                    ftp::file_list_reply r = cl.get_file_list(std::nullopt, false);
                    ret = "ret:list:" + render_replies(r) + ":" + hex(r.get_file_list_str());
                }
                else if (n == "get")
                {
                    // get:<hexpath>:ok:<cb -|p<bits>>
                    if (!H(1, s1)) return "bad-op";
                    have_sink = true;
                    ftp::transfer_callback *pcb = nullptr;
                    if (a.size() > 3 && a[3] != "-") { cb.polls = a[3].substr(1); cb.i = 0; cb.sticky = false; pcb = &cb; }
                    ret = "ret:replies:" + render_replies(cl.download_file(sink, s1, pcb));
                }
                else if (n == "put")
                {
                    if (a.size() < 4 || !H(2, s1) || !parse_payload(a[3], src.data)) return "bad-op";
                    ftp::transfer_callback *pcb = nullptr;
                    if (a.size() > 4 && a[4] != "-") { cb.polls = a[4].substr(1); cb.i = 0; cb.sticky = false; pcb = &cb; }
                    src.chop = a.size() > 5 ? dotlist(a[5]) : std::vector<std::size_t>(); src.call = 0;
                    if (a[1] == "APPE") ret = "ret:replies:" + render_replies(cl.append_file(src, s1, pcb));
                    else ret = "ret:replies:" + render_replies(cl.upload_file(src, s1, a[1] == "STOU", pcb));
                }
                else if (n == "disc")
                {
                    std::optional<ftp::reply> r = cl.disconnect(a.size() > 1 && a[1] == "1");
                    ret = r ? "ret:opt:" + std::to_string(r->get_code()) + ":" + hex(r->get_status_string()) : std::string("ret:opt:none");
                }
                else if (n == "isconn") ret = std::string("ret:bool:") + (cl.is_connected() ? "1" : "0");
                else return "bad-op";
            }
            catch (const ftp::ftp_exception &) { ret = "thr:ftp"; }
            catch (const std::exception & ex) { ret = std::string("thr:other:") + typeid(ex).name(); }
            catch (...) { ret = "thr:other:unknown"; }
            alarm(0);
            { peer_scope ps; srv.core.peer.finish(); srv.core.peer.close_listener(); }
            {
                // a group that ends with the server dropping / resetting the control connection: let that happen before
                // the next call starts (otherwise the outcome of the next call's first write is a race)
                bool drops; { std::lock_guard<std::mutex> l(srv.mu); drops = srv.core.last_group.close_after || srv.core.last_group.garbage; }
                if (drops) { for (int i = 0; i < 1000 && srv.open_conns > 0; i++) usleep(1000); usleep(1000); }
            }
            for (const std::string & e : take_log()) emit(e);
            emit(ret);
            if (have_sink) emit("sink:" + std::to_string(sink.bytes.size()) + ":" + std::to_string(fnv(sink.bytes)) + ":" + std::to_string(sink.flushes));
            emit(std::string("st:") + (cl.is_connected() ? "1" : "0") + ":" + std::to_string(open_client_fds()));
            {
                std::lock_guard<std::mutex> l(srv.mu);
                for (const std::string & e : srv.events) emit(e);
                std::string res;
                for (const std::string & r : srv.core.resolved) { if (!res.empty()) res += "/"; res += r; }
                emit("played:" + (res.empty() ? std::string("-") : res));
                if (srv.core.transfer_started)
                {
                    data_peer & p = srv.core.peer;
                    emit("peer:" + std::to_string(p.connected) + ":" + std::to_string(p.sent) + ":" + std::to_string(p.received.size()) + ":" + std::to_string(fnv(p.received)) + ":"
                         + std::to_string(p.saw_eof) + ":" + (p.err.empty() ? std::string("-") : p.err) + ":" + std::to_string(p.tls_ok) + ":" + std::to_string(p.reused) + ":" + std::to_string(p.saw_close_notify));
                }
            }
        }
        set_capture_raw(false);
    }
    for (const std::string & e : take_log()) emit(e);
    emit("end:" + std::to_string(open_client_fds()));
    srv.shutdown();
    return out;
}

void on_alarm(int)
{
    char msg[64];
    int n = std::snprintf(msg, sizeof msg, " => HANG op:%d\n", g_current_op);
    ssize_t w = ::write(1, msg, static_cast<std::size_t>(n)); (void)w;
    _exit(3);
}

} // namespace

int main()
{
    std::signal(SIGPIPE, SIG_IGN);
    std::signal(SIGALRM, on_alarm);
    { peer_scope ps; g_good.generate("good"); g_bad.generate("bad"); }
    std::string line;
    while (std::getline(std::cin, line))
    {
        if (line.empty()) continue;
        std::string out;
        std::cout << line << std::flush;
        try { out = run(split(line, ' ')); }
        catch (const std::exception & ex) { out = std::string("escaped:") + typeid(ex).name() + ":" + ex.what(); }
        catch (...) { out = "escaped:unknown"; }
        alarm(0);
        std::cout << " => " << out << "\n" << std::flush;
    }
    return 0;
}
