// E-ctl: the real control_connection::recv()/read_line() driven through an in-memory transport whose delivery
// schedule is chosen by the scenario.
//   recv <n> <eof|err> <hexchunk,...>  ->  ... => <step> <step> ... | reads <sizes> | atend <k>
//   step = r:<code>:<hextext>:<hexbuf>:<connected>   or   x:<hexbuf>:<connected>   or  LIVELOCK  or  other:<type>
#include "common.hpp"
#include "env_mem.hpp"
#include <ftp/ftp.hpp>
#include <ftp/detail/control_connection.hpp>
#include <ftp/detail/net_context.hpp>

using namespace vh;

static std::string run(const std::vector<std::string> & a)
{
    unsigned long long n;
    if (a.size() != 4 || (a[0] != "recv" && a[0] != "recvwf") || !nat(a[1], n)) return "bad-op";
    std::vector<std::string> chunks;
    if (!hexlist(a[3], chunks)) return "bad-op";
    ftp::detail::net_context ctx;
    ftp::detail::control_connection cc(ctx);
    auto *ms = new mem_socket();
    ms->ioc = &ctx.get_io_context();
    ms->open = true;
    ms->in.fin = a[2] == "err" ? mem_stream::fin_err : mem_stream::fin_eof;
    for (auto & c : chunks) ms->in.chunks.push_back(c);
    cc.socket_.reset(ms);
    std::string out;
    for (unsigned long long i = 0; i < n; i++)
    {
        if (!out.empty()) out += " ";
        ms->in.reads_at_end_this_call = 0;
        try
        {
            ftp::reply r = cc.recv();
            out += "r:" + std::to_string(r.get_code()) + ":" + hex(r.get_status_string()) + ":" + hex(cc.buffer_) + ":" + std::to_string(cc.is_connected());
        }
        catch (const ftp::ftp_exception &) { out += "x:" + hex(cc.buffer_) + ":" + std::to_string(cc.is_connected()); }
        catch (const livelock &) { out += "LIVELOCK"; break; }
        catch (const std::exception & ex) { out += std::string("other:") + typeid(ex).name(); }
        catch (...) { out += "other:unknown"; }
    }
    std::string reads;
    for (std::size_t r : ms->in.reads) { if (!reads.empty()) reads += ","; reads += std::to_string(r); }
    if (reads.empty()) reads = "-";
    return out + " | reads " + reads + " | atend " + std::to_string(ms->in.reads_at_end);
}

int main()
{
    std::ios::sync_with_stdio(false);
    std::string line;
    while (std::getline(std::cin, line))
    {
        if (line.empty()) continue;
        std::string out;
        try { out = run(split(line, ' ')); }
        catch (const std::exception & ex) { out = std::string("escaped:") + typeid(ex).name(); }
        catch (...) { out = "escaped:unknown"; }
        std::cout << line << " => " << out << "\n";
    }
    return 0;
}
