// The scripted FTP / FTPS control-connection server on real loopback TCP (used by h_e2e and h_app).
#pragma once
#include "common.hpp"
#include "env_peer.hpp"
#include "interpose.hpp"
#include <openssl/x509v3.h>
#include <openssl/pem.h>
#include <openssl/rsa.h>
#include <mutex>

namespace vh {

// ---------------------------------------------------------------------------------------------------------------
// certificates
struct pki
{
    EVP_PKEY *ca_key = nullptr; X509 *ca = nullptr; EVP_PKEY *key = nullptr; X509 *cert = nullptr;
    std::string ca_pem;

    static X509 *make_cert(EVP_PKEY *subject_key, const char *cn, X509 *issuer, EVP_PKEY *issuer_key, bool is_ca, long serial)
    {
        X509 *x = X509_new();
        X509_set_version(x, 2);
        ASN1_INTEGER_set(X509_get_serialNumber(x), serial);
        X509_gmtime_adj(X509_getm_notBefore(x), -3600);
        X509_gmtime_adj(X509_getm_notAfter(x), 3600 * 24 * 30);
        X509_set_pubkey(x, subject_key);
        X509_NAME *n = X509_get_subject_name(x);
        X509_NAME_add_entry_by_txt(n, "CN", MBSTRING_ASC, reinterpret_cast<const unsigned char *>(cn), -1, -1, 0);
        X509_set_issuer_name(x, issuer ? X509_get_subject_name(issuer) : n);
        X509V3_CTX ctx; X509V3_set_ctx_nodb(&ctx); X509V3_set_ctx(&ctx, issuer ? issuer : x, x, nullptr, nullptr, 0);
        X509_EXTENSION *e = X509V3_EXT_conf_nid(nullptr, &ctx, NID_basic_constraints, is_ca ? "critical,CA:TRUE" : "CA:FALSE");
        if (e) { X509_add_ext(x, e, -1); X509_EXTENSION_free(e); }
        X509_sign(x, issuer_key, EVP_sha256());
        return x;
    }

    void generate(const char *name)
    {
        ca_key = EVP_RSA_gen(2048); key = EVP_RSA_gen(2048);
        std::string cn = std::string(name) + " CA";
        ca = make_cert(ca_key, cn.c_str(), nullptr, ca_key, true, 1);
        cert = make_cert(key, "localhost", ca, ca_key, false, 2);
        BIO *b = BIO_new(BIO_s_mem());
        PEM_write_bio_X509(b, ca);
        char *p; long n = BIO_get_mem_data(b, &p);
        ca_pem.assign(p, static_cast<std::size_t>(n));
        BIO_free(b);
    }

    SSL_CTX *server_ctx(int ver) const
    {
        SSL_CTX *c = SSL_CTX_new(TLS_server_method());
        SSL_CTX_use_certificate(c, cert);
        SSL_CTX_use_PrivateKey(c, key);
        int v = ver == 12 ? TLS1_2_VERSION : TLS1_3_VERSION;
        SSL_CTX_set_min_proto_version(c, v); SSL_CTX_set_max_proto_version(c, v);
        // stateless session tickets: reusable any number of times (the stateful cache makes TLS 1.3 tickets single-use)
        SSL_CTX_set_session_cache_mode(c, SSL_SESS_CACHE_OFF);
        SSL_CTX_set_options(c, SSL_OP_NO_ANTI_REPLAY);
        static const unsigned char sid[] = "vh-ftps";
        SSL_CTX_set_session_id_context(c, sid, sizeof sid - 1);
        return c;
    }
};

inline pki g_good, g_bad;

// ---------------------------------------------------------------------------------------------------------------
// the control-connection server
struct ctl_server
{
    script_server core;
    std::mutex mu;
    int lfd = -1; std::uint16_t port = 0;
    std::thread th; std::atomic<bool> stop{false};
    SSL_CTX *ctx = nullptr, *ctx_bad = nullptr;
    bool v6 = false;
    std::vector<std::string> events;       // server-side observations (under mu)
    bool down = false;
    // E-app: `idle` = a connection is open, every complete command line received so far has been answered in full and the
    // server is waiting for the next one; `kick` = close that connection now (the harness sets it when the client is blocked
    // reading a reply the script will never send: the model's control stream ends there, the real server hangs up there)
    std::atomic<bool> idle{false}, kick{false};
    std::atomic<int> open_conns{0};
    std::atomic<int> cur_fd{-1};          // descriptor of the control connection being served (-1: none)       // control connections accepted and not yet closed by the server
    ~ctl_server() { shutdown(); }

    void start(bool ipv6, int ver, bool reqreuse)
    {
        peer_scope ps;
        v6 = ipv6;
        ctx = g_good.server_ctx(ver); ctx_bad = g_bad.server_ctx(ver);
        core.peer.v6 = ipv6; core.peer.tls_ctx = ctx; core.peer.tls_ctx_other = ctx_bad; core.peer.require_reuse = reqreuse;
        lfd = ::socket(ipv6 ? AF_INET6 : AF_INET, SOCK_STREAM, 0);
        int one = 1; setsockopt(lfd, SOL_SOCKET, SO_REUSEADDR, &one, sizeof one);
        if (ipv6)
        {
            sockaddr_in6 a{}; a.sin6_family = AF_INET6; a.sin6_addr = in6addr_loopback;
            ::bind(lfd, reinterpret_cast<sockaddr *>(&a), sizeof a); ::listen(lfd, 4);
            socklen_t l = sizeof a; getsockname(lfd, reinterpret_cast<sockaddr *>(&a), &l); port = ntohs(a.sin6_port);
        }
        else
        {
            sockaddr_in a{}; a.sin_family = AF_INET; a.sin_addr.s_addr = htonl(INADDR_ANY);      // every loopback address (127.0.0.x)
            ::bind(lfd, reinterpret_cast<sockaddr *>(&a), sizeof a); ::listen(lfd, 4);
            socklen_t l = sizeof a; getsockname(lfd, reinterpret_cast<sockaddr *>(&a), &l); port = ntohs(a.sin_port);
        }
        th = std::thread([this] { peer_scope ps2; run(); });
    }

    void shutdown()
    {
        if (down) return;
        down = true;
        stop = true;
        if (th.joinable()) th.join();
        peer_scope ps;
        core.peer.finish(); core.peer.close_listener();
        if (lfd >= 0) ::close(lfd);
        if (ctx) SSL_CTX_free(ctx);
        if (ctx_bad) SSL_CTX_free(ctx_bad);
    }

    static bool wr(int fd, SSL *ssl, const std::string & b)
    {
        std::size_t pos = 0;
        while (pos < b.size())
        {
            ssize_t w = ssl ? SSL_write(ssl, b.data() + pos, static_cast<int>(b.size() - pos)) : ::send(fd, b.data() + pos, b.size() - pos, MSG_NOSIGNAL);
            if (w <= 0) return false;
            pos += static_cast<std::size_t>(w);
        }
        return true;
    }

    void run()
    {
        while (!stop)
        {
            pollfd p{lfd, POLLIN, 0};
            if (::poll(&p, 1, 100) <= 0) continue;
            int fd = ::accept(lfd, nullptr, nullptr);
            if (fd < 0) continue;
            int one = 1; setsockopt(fd, IPPROTO_TCP, TCP_NODELAY, &one, sizeof one);
            open_conns++;
            handle(fd);
            open_conns--;
        }
    }

    void handle(int fd)
    {
        SSL *ssl = nullptr;
        std::string buf;
        auto play = [&](const std::string & line) -> bool {
            std::vector<std::string> out; group g;
            if (line == "ABOR" && core.reactive_abor_armed)
            {
                // give the data peer a moment to notice the end of the data connection, if the client closed it before ABOR
                for (int i = 0; i < 30 && !core.peer.done; i++) std::this_thread::sleep_for(std::chrono::milliseconds(10));
                core.data_ended_first = core.peer.done && core.peer.saw_eof;
            }
            {
                std::lock_guard<std::mutex> l(mu);
                out = core.on_command(line);
                g = core.last_group;
                // PROT P accepted: data connections are protected from now on
                if (line == "PROT P" && !core.generated.empty() && core.generated.back().size() > 0 && core.generated.back()[0] < '4') core.peer.tls = true;
                if (line == "<connect>") core.peer.tls = false;
            }
            for (const std::string & c : out) if (!wr(fd, ssl, c)) return false;
            if (g.garbage) { wr(fd, nullptr, std::string("\x15\x03\x03\x00\x02\x02\x28 this is not a ServerHello\r\n", 36)); return false; }
            if (g.start_tls && !ssl)
            {
                ssl = SSL_new(g.bad_cert ? ctx_bad : ctx);
                { std::lock_guard<std::mutex> l(mu); core.peer.tls_ctx = g.bad_cert ? ctx_bad : ctx; core.peer.tls_ctx_other = g.bad_cert ? ctx : ctx_bad; }   // data connections: same context
                SSL_set_fd(ssl, fd);
                int r = SSL_accept(ssl);
                { std::lock_guard<std::mutex> l(mu); events.push_back(std::string("srv-hs:") + (r == 1 ? "1" : "0")); }
                if (r != 1) return false;
            }
            if (g.reset_after) { linger lg{1, 0}; setsockopt(fd, SOL_SOCKET, SO_LINGER, &lg, sizeof lg); }
            if (g.close_after) return false;
            return true;
        };
        cur_fd = fd;
        bool alive = play("<connect>");
        kick = false;
        while (alive && !stop)
        {
            if (kick.exchange(false)) break;
            pollfd p{fd, POLLIN, 0};
            idle = buf.empty();
            if (!(ssl && SSL_pending(ssl) > 0) && ::poll(&p, 1, 50) <= 0) continue;
            idle = false;
            char tmp[4096];
            ssize_t r = ssl ? SSL_read(ssl, tmp, sizeof tmp) : ::recv(fd, tmp, sizeof tmp, 0);
            if (r <= 0)
            {
                if (ssl && SSL_get_error(ssl, static_cast<int>(r)) == SSL_ERROR_ZERO_RETURN)
                {
                    // the client closed the TLS layer (logout / disconnect): answer the close-notify, go on in plaintext
                    SSL_shutdown(ssl);
                    SSL_free(ssl); ssl = nullptr;
                    std::lock_guard<std::mutex> l(mu); events.push_back("srv-tls-closed");
                    continue;
                }
                break;
            }
            if (!ssl) { std::lock_guard<std::mutex> l(mu); events.push_back("srv-plain:" + hex(std::string(tmp, static_cast<std::size_t>(r)))); }
            buf.append(tmp, static_cast<std::size_t>(r));
            std::size_t e;
            while (alive && (e = buf.find("\r\n")) != std::string::npos)
            {
                std::string line = buf.substr(0, e);
                buf.erase(0, e + 2);
                alive = play(line);
            }
        }
        idle = false;
        cur_fd = -1;
        if (ssl) SSL_free(ssl);
        ::close(fd);
    }
};


} // namespace vh
