// Interface of the libc interposition layer (interpose.cpp).
#pragma once
#include <string>
#include <vector>
#include <map>

namespace vh {

// While an object of this type is alive on a thread, sockets created / used by that thread belong to the scripted
// peer and are neither logged nor subject to fault injection.
struct peer_scope { peer_scope(); ~peer_scope(); };

struct fault_plan
{
    int close_fail_at = -1;   // k-th close() of a client descriptor reports EIO (after really closing)
    int close_count = 0;
    int send_fail_at = -1;    // k-th send()/sendmsg() on a client descriptor fails with EPIPE
    int send_count = 0;
    int send_eintr_at = -1;   // k-th send() on a client descriptor transmits only half of its bytes, the send() after it is
                              // interrupted by a signal (EINTR): a blocked send interrupted after partial progress
    bool eintr_pending = false; int eintr_count = 0;
};

void ilog(const std::string & event);            // append an event to the shared, ordered log
std::vector<std::string> take_log();             // fetch and clear the log
void reset_scenario();                           // new scenario: ordinals restart at 1
std::size_t open_client_fds();                   // client descriptors (AF_INET/AF_INET6 sockets) currently open
void set_faults(const fault_plan & f);
void set_capture_raw(bool on);                  // log the first bytes of every send()/sendmsg() of the client

} // namespace vh
