import Driver.Main
