import Ftp.Spec.Pure
import Driver.Codec
/- pure operations of the line protocol: model output, correspondence and monitor verdicts -/
namespace Driver
open Ftp

structure Verdict where
  model : String            -- what the Lean model computes (compared with the implementation's output)
  viol : Option String      -- monitor: failure class when the implementation's output violates the property
  tags : List String := []

def optNat : Option Nat → String
  | some n => s!"some {n}"
  | none => "none"

def parseReplies (s : String) : Option (List Reply) :=
  (splitComma s).mapM fun item =>
    match item.splitOn ":" with
    | [c, h] => match c.toNat?, bytesOfHex h with
      | some c, some t => some ⟨c, t⟩
      | _, _ => none
    | _ => none

def renderReplies (l : List Reply) : String :=
  if l.isEmpty then "-" else ",".intercalate (l.map fun r => s!"{r.code}:{hexOfBytes r.text}")

def renderCmdResult : Cmd.Result → String
  | .invalid => "invalid"
  | .ok c args => s!"ok {c.name} {renderHexList args}"

/-- `impl` is the implementation's output for the scenario `op args`. -/
def pureOp (op : String) (args : List String) (impl : String) : Option Verdict :=
  match op, args with
  | "cls", [c] => do
    let c ← c.toNat?
    let r : Reply := ⟨c, []⟩
    let m := s!"{b01 r.isPositive} {b01 r.isNegative} {b01 r.isIntermediate}"
    let s := s!"{b01 (Spec.isPositive c)} {b01 (Spec.isNegative c)} {b01 (Spec.isIntermediate c)}"
    pure { model := m, viol := if impl = s then none else some "class-of-code",
           tags := [if c = 65535 then "unspecified" else if c < 300 then "pos" else if c < 400 then "intermediate" else "neg"] }
  | "clsdef", [] =>
    let r := Reply.default
    let m := s!"{b01 r.isPositive} {b01 r.isNegative} {b01 r.isIntermediate} {r.code} {hexOfBytes r.text}"
    some { model := m, viol := if impl = "0 0 0 65535 x" then none else some "default-reply", tags := ["default"] }
  | "agg", [l] => do
    let rs ← parseReplies l
    let a := Replies.appendAll rs
    let m := s!"{b01 a.isPositive} {hexOfBytes a.status} {renderReplies a.list}"
    let s := s!"{b01 (Spec.aggPositive rs)} {hexOfBytes (Spec.aggStatus rs)} {renderReplies rs}"
    let npos := (rs.filter (·.isPositive)).length
    pure { model := m, viol := if impl = s then none else some "aggregate",
           tags := [if rs.isEmpty then "empty" else if npos = rs.length then "allpos" else if npos = 0 then "allneg" else "mixed"] }
  | "aggq", [qs, l] => do
    -- is_positive() asked while the aggregate is being filled: each answer is that of the members appended so far
    let rs ← parseReplies l
    let flags := qs.toList
    if flags.length ≠ rs.length + 1 then none else
    let answers := String.ofList ((List.range (rs.length + 1)).map fun i =>
      if flags.getD i '0' = '1' then (if (Replies.appendAll (rs.take i)).isPositive then '1' else '0') else '-')
    let a := Replies.appendAll rs
    let m := s!"{answers} {b01 a.isPositive}{b01 a.isPositive} {hexOfBytes a.status} {hexOfBytes a.status}"
    let sAnswers := String.ofList ((List.range (rs.length + 1)).map fun i =>
      if flags.getD i '0' = '1' then (if Spec.aggPositive (rs.take i) then '1' else '0') else '-')
    let s := s!"{sAnswers} {b01 (Spec.aggPositive rs)}{b01 (Spec.aggPositive rs)} {hexOfBytes (Spec.aggStatus rs)} {hexOfBytes (Spec.aggStatus rs)}"
    pure { model := m, viol := if impl = s then none else some "aggregate-queried-while-filled",
           tags := [if flags.head? = some '1' then "asked-empty" else "asked-later"] }
  | "size", [c, h] => do
    let c ← c.toNat?; let t ← bytesOfHex h
    let r : Reply := ⟨c, t⟩
    let m := optNat (Typed.parseSize r)
    let s := optNat (Spec.sizeOf r)
    pure { model := m, viol := if impl = s then none else some "size-value",
           tags := [if c != 213 then "not213" else if (Spec.sizeOf r).isSome then "value" else
                      if isDigits (t.drop 4) then "overflow" else "malformed"] }
  | "mdtm", [c, h] => do
    let c ← c.toNat?; let t ← bytesOfHex h
    let r : Reply := ⟨c, t⟩
    let m := match Typed.parseDatetime r with
      | some d => s!"some {d.year} {d.month} {d.day} {d.hour} {d.minute} {d.second} {d.fractions}"
      | none => "none"
    -- monitor: a value only for a 213 time-val, with the fields written; a value whenever the fraction fits
    let v : Option String :=
      if impl = "none" then
        (if Spec.timeMayBeNone r then none else some "timeval-without-value")
      else
        let p := t.drop 4
        if c = 213 && Spec.isTimeVal p then
          let f := Spec.timeFields p
          let fields := " ".intercalate ((if p.length = 14 then f.take 6 ++ [0] else f).map toString)
          if impl = s!"some {fields}" then none else some "time-fields"
        else some "value-for-malformed-time"
    pure { model := m, viol := v,
           tags := [if c != 213 then "not213" else if (Spec.timeOf r).isSome then
                      (if (t.drop 4).length = 14 then "value" else "value-frac")
                    else if Spec.isTimeVal (t.drop 4) then "frac-overflow" else "malformed"] }
  | "list", [h] => do
    let t ← bytesOfHex h
    let m := renderHexList (Typed.parseFileList t)
    let s := renderHexList (Spec.listLines t)
    pure { model := m, viol := if impl = s then none else some "listing-lines",
           tags := [if t.isEmpty then "empty" else if t.contains 13 then "cr" else "nocr"] }
  | "u8", [h] => do let t ← bytesOfHex h; pure { model := optNat (Utils.parseU8 t), viol := none, tags := ["u"] }
  | "u16", [h] => do let t ← bytesOfHex h; pure { model := optNat (Utils.parseU16 t), viol := none, tags := ["u"] }
  | "u32", [h] => do let t ← bytesOfHex h; pure { model := optNat (Utils.parseU32 t), viol := none, tags := ["u"] }
  | "u64", [h] => do
    let t ← bytesOfHex h
    let s := if isDigits t ∧ decValue t < Spec.two64 then some (decValue t) else none
    pure { model := optNat (Utils.parseU64 t), viol := if impl = optNat s then none else some "u64-value",
           tags := [if s.isSome then "value" else if isDigits t then "overflow" else "malformed"] }
  | "split", [h, d] => do
    let t ← bytesOfHex h; let d ← d.toNat?
    pure { model := renderHexList (Utils.splitString t d), viol := none, tags := ["split"] }
  | "epsv", [h] => do
    let t ← bytesOfHex h
    let s := Spec.epsvOf t
    pure { model := optNat (Endpoint.parseEpsv t), viol := if impl = optNat s then none else
              some (if impl = "none" then "epsv-wellformed-refused" else "epsv-number-not-written"),
           tags := [if s.isSome then "port" else "refused"] }
  | "pasv", [h] => do
    let t ← bytesOfHex h
    let m := match Endpoint.parsePasv t with
      | some (ip, p) => s!"some {hexOfBytes ip} {p}"
      | none => "none"
    let s := match Spec.pasvOf t with
      | some ([a, b, c, d], p) => s!"some {hexOfBytes (Endpoint.dotted a b c d)} {p}"
      | _ => "none"
    pure { model := m, viol := if impl = s then none else
              some (if impl = "none" then "pasv-wellformed-refused" else "pasv-number-not-written"),
           tags := [if s = "none" then "refused" else "endpoint"] }
  | "port", [fam, a, p] => do
    let a ← bytesOfHex a; let p ← p.toNat?
    let f := if fam = "4" then Endpoint.Family.v4 else .v6
    let m := match Endpoint.fmtPort f a p with
      | some c => s!"some {hexOfBytes c}"
      | none => "throw"
    -- monitor: the argument decodes (server side) to exactly this address and port; non-IPv4 is refused
    let v : Option String :=
      match bytesOfHex ((impl.splitOn " ").getD 1 "") with
      | some cmd =>
        if fam != "4" then some "port-command-for-non-ipv4"
        else if cmd.take 5 != str "PORT " then some "port-syntax"
        else match Spec.decodePortArg (cmd.drop 5) with
          | some ([h1, h2, h3, h4], q) =>
            if Endpoint.dotted h1 h2 h3 h4 = a ∧ q = p then none else some "port-advertises-other-endpoint"
          | _ => some "port-syntax"
      | none => if impl = "throw" ∧ fam != "4" then none else some "port-refused"
    pure { model := m, viol := v, tags := [if fam = "4" then "v4" else "v6"] }
  | "eprt", [fam, a, p] => do
    let a ← bytesOfHex a; let p ← p.toNat?
    let f := if fam = "4" then Endpoint.Family.v4 else .v6
    let m := s!"some {hexOfBytes (Endpoint.fmtEprt f a p)}"
    let v : Option String :=
      match bytesOfHex ((impl.splitOn " ").getD 1 "") with
      | some cmd =>
        if cmd.take 5 != str "EPRT " then some "eprt-syntax"
        else match Spec.decodeEprtArg (cmd.drop 5) with
          | some (fn, addr, q) =>
            if fn = (if fam = "4" then 1 else 2) ∧ addr = a ∧ q = p then none else some "eprt-advertises-other-endpoint"
          | none => some "eprt-syntax"
      | none => some "eprt-refused"
    pure { model := m, viol := v, tags := [if fam = "4" then "v4" else "v6"] }
  | "mkcmd", [v, a] => do
    let v ← bytesOfHex v
    let a ← if a = "-" then pure none else (bytesOfHex a).map some
    let r (o : Option Bytes) := match o with | some c => s!"some {hexOfBytes c}" | none => "throw"
    let s := Spec.commandLine v a
    pure { model := r (Endpoint.makeCommand v a), viol := if impl = r s then none else
             some (if s.isNone then "crlf-argument-accepted" else "command-line-altered"),
           tags := [match a with | none => "noarg" | some a => if Spec.hasCrLf a then "crlf" else if a.isEmpty then "emptyarg" else "arg"] }
  | "ul", [bs, d, sched, sizes] => do
    let bs ← bs.toNat?; let d ← bytesOfHex d; let sched ← natList sched; let sizes ← natList sizes
    let (out, fin) := Ascii.upload bs d sched sizes
    let m := if fin then hexOfBytes out else "nonterminating"
    pure { model := m, viol := if impl = hexOfBytes (Spec.ulSpec d) then none else some "ascii-upload-bytes",
           tags := [if d.contains 13 || d.contains 10 then "eol" else "plain"] }
  | "dl", [chunks] => do
    let cs ← hexList chunks
    let m := hexOfBytes (Ascii.download cs false [])
    pure { model := m, viol := if impl = hexOfBytes (Spec.dlSpec cs.flatten) then none else some "ascii-download-bytes",
           tags := [if cs.flatten.contains 13 then "cr" else "nocr"] }
  | "verbsweep", [_shard, _nshards, _secs] => do
    -- impl: done:<k>/<n> n:<accepted> acc:<hex>=<name>.<nargs>,...   Every token the implementation accepted is put to the
    -- model of the parser; it must be one of the documented verbs (in some case variant), as that command, without arguments
    match impl.splitOn " acc:" with
    | [head, accs] =>
      let pairs := if accs = "-" then [] else accs.splitOn ","
      let judged ← pairs.mapM fun p => match p.splitOn "=" with
        | [h, _] => do
          let tok ← bytesOfHex h
          let want := match Cmd.parseCommand tok with
            | .ok c args => s!"{c.name}.{args.length}"
            | .invalid => "invalid"
          pure s!"{h}={want}"
        | _ => none
      let model := head ++ " acc:" ++ (if judged.isEmpty then "-" else ",".intercalate judged)
      pure { model := model, viol := if model = impl then none else some "undocumented-verb-accepted",
             tags := [if pairs.isEmpty then "none-accepted" else "some-accepted"] }
    | _ => none
  | "cmd", [h] => do
    let l ← bytesOfHex h
    let r := Cmd.parseCommand l
    -- monitor: only `ok`/`invalid`; the verb decision is the documented table, case-insensitively
    let w := (Cmd.takeWord (Cmd.skipWs l)).1
    let v : Option String :=
      if impl = "invalid" then (if (Spec.verbOf w).isSome then some "documented-verb-refused" else none)
      else match impl.splitOn " " with
        | ["ok", name, _] =>
          match Spec.verbOf w with
          | some c => if c.name = name then none else some "wrong-command"
          | none => some "undocumented-verb-accepted"
        | _ => some "parser-failed-otherwise"
    pure { model := renderCmdResult r, viol := v,
           tags := [match r with | .invalid => "invalid" | .ok _ a => if a.isEmpty then "noargs" else "args"] }
  | "cmdrt", [name, argl, sepl] => do
    -- round trip: render verb + quoted args with the given separators; the implementation parsed the rendered line
    let args ← hexList argl; let seps ← hexList sepl
    let _ := seps
    let want := s!"ok {name} {renderHexList args}"
    pure { model := want, viol := if impl = want then none else some "quoting-not-inverted",
           tags := [if args.any (fun a => a.contains 34 || a.contains 92) then "escapes" else if args.isEmpty then "noargs" else "plainargs"] }
  | _, _ => none

end Driver
