import Driver.Pure
import Driver.Ctl
import Driver.ClientMon
import Driver.E2e
import Driver.App
import Driver.Conc
/-
  ftpdriver: one line in, one line out.

     <op> <args…> => <implementation output>

  answers   ok <tags>            model output = implementation output, monitor passes
            CORR <tags> model=<…>   implementation output differs from the model's
            VIOL <class> <tags> model=<…>   the monitor (the property's predicate) fails on the implementation output
            bad-op               anything that cannot be parsed (never a default)
-/
open Driver

def handleLine (line : String) : String :=
  match line.splitOn " => " with
  | [lhs, impl] =>
    match lhs.splitOn " " with
    | op :: args =>
      match (if op = "client" then clientOp args impl else if op = "e2e" then e2eOp args impl else if op = "app" then appOp args impl else if op = "conc" then concOp args impl else (pureOp op args impl <|> ctlOp op args impl)) with
      | some v =>
        let tags := ",".intercalate v.tags
        match v.viol with
        | some cls => s!"VIOL {cls} {tags} model={v.model}"
        | none => if v.model = impl then s!"ok {tags}" else s!"CORR {tags} model={v.model}"
      | none => "bad-op"
    | [] => "bad-op"
  | _ => "bad-op"

partial def loop (h : IO.FS.Stream) (out : IO.FS.Stream) : IO Unit := do
  let line ← h.getLine
  if line.isEmpty then return ()
  let l := (line.dropEndWhile (fun c => c = '\n' || c = '\r')).toString
  out.putStrLn (handleLine l)
  loop h out

def main : IO Unit := do
  let out ← IO.getStdout
  loop (← IO.getStdin) out
