import Ftp.Model.App
import Driver.ClientMon
/-
  Scenarios of the interactive command-line client (harness h_app): model run, correspondence, monitor of C20.
-/
namespace Driver
open Ftp Ftp.Client Ftp.App

/-- does the program's output match the model's segments?  `errorLine` matches some text that ends with a newline
    (the message may itself contain newlines: server text is quoted in it), `freeText` any text; both are resolved
    by trying every split position -/
partial def matchOut : List Seg → Bytes → Bool
  | [], out => out.isEmpty
  | .text b :: rest, out => out.take b.length == b && matchOut rest (out.drop b.length)
  | .errorLine :: rest, out =>
    (List.range out.length).any fun i => out.getD i 0 = 10 && matchOut rest (out.drop (i + 1))
  | .freeText :: rest, out =>
    (List.range (out.length + 1)).any fun i => matchOut rest (out.drop i)

def renderSegs (l : List Seg) : String :=
  " ".intercalate (l.map fun | .text b => hexOfBytes b | .errorLine => "<error-line>" | .freeText => "<free-text>")

def parseFiles (s : String) : Option Fs :=
  if s = "-" then some [] else
  (s.splitOn ";").mapM fun f =>
    match f.splitOn "=" with
    | [n, c] => do let n ← bytesOfHex n; let c ← bytesOfHex c; pure (n, some c)
    | [n] =>
      -- name@target: a symbolic link - an entry of its own, modelled as a plain entry whose content is the target text
      if (n.splitOn "@").length = 2 then
        (match n.splitOn "@" with
         | [a, t] => do let a ← bytesOfHex a; let t ← bytesOfHex t; pure (a, some t)
         | _ => none)
      else if n.endsWith "/" then (bytesOfHex (n.dropEnd 1).toString).map fun n => (n, none) else none
    | _ => none

def renderFs (fs : Fs) : String :=
  let items := (fs.filter fun e => e.1 != str "." && e.1 != str "..").map fun (n, c) => match c with
    | some b => s!"{hexOfBytes n}={b.length}.{(fnv64 b).toNat}"
    | none => s!"{hexOfBytes n}/"
  let sorted := items.toArray.qsort (· < ·) |>.toList
  if sorted.isEmpty then "-" else ";".intercalate sorted

def field (toks : List String) (pre : String) : String :=
  match toks.find? (·.startsWith pre) with
  | some t => (t.drop pre.length).toString
  | none => ""

def appOp (args : List String) (impl : String) : Option Verdict := do
  match args with
  | [groupsS, filesS, stdinS] =>
    let sgroups ← if groupsS = "-" then some [] else (groupsS.splitOn "/").mapM parseGroup
    let fs ← parseFiles filesS
    let lines ← hexList stdinS
    if impl = "bad-op" then none
    else
      let toks := impl.splitOn " "
      let exitS := field toks "exit:"
      let out := (bytesOfHex (field toks "out:")).getD []
      let srv := splitComma (field toks "srv:")
      let played := (oraclesOf toks).played
      let groups : List Group := (List.range (max sgroups.length played.length)).map fun i =>
        let act := (sgroups[i]?).bind (·.act)
        match played[i]? with
        | some raws => { raws := raws, act := act }
        | none => { raws := ((sgroups[i]?).map (·.raws)).getD [] |>.filterMap id, act := act }
      -- oracles: passive connects succeed exactly for the server's own 227/229 replies; ports the client listened on
      -- are read off the EPRT / PORT commands the server received; the data arrives in full blocks
      let connectOks := sgroups.filterMap fun g => if g.raws.contains none then some true else
        (if g.raws.any (fun r => match r with | some b => b.take 3 = str "229" || b.take 3 = str "227" | none => false) then some false else none)
      let listenPorts := srv.filterMap fun h =>
        match bytesOfHex h with
        | some b =>
          if b.take 5 = str "EPRT " then (Spec.decodeEprtArg (b.drop 5)).map (·.2.2)
          else if b.take 5 = str "PORT " then (Spec.decodePortArg (b.drop 5)).map (·.2)
          else none
        | none => none
      let dataReads := (sgroups.filterMap fun g => match g.act with | some (.send p) => some p | _ => none).flatMap fun p =>
        List.replicate ((p.length + 8191) / 8192) (some 8192) ++ [some 0]
      let w0 : AppWorld := {
        client := { mode := .passive, ttype := .binary, rfc := true, observers := [0], script := groups,
                    connectOks := connectOks, listenPorts := listenPorts, dataReads := dataReads },
        stdin := lines, fs := fs ++ [(str ".", none), (str "..", none)] }
      let w := App.main w0
      let modelSrv := (w.client.trace.filterMap fun | .ctlWrite b => some (hexOfBytes (b.take (b.length - 2))) | _ => none)
      let okOut := matchOut w.out out
      let okSrv := modelSrv = srv
      let okExit := exitS = toString w.status
      let okFs := field toks "fs:" = renderFs w.fs
      let diffs := (if okOut then [] else [s!"stdout: model {short (renderSegs w.out)}"]) ++
        (if okSrv then [] else [s!"server saw {short (",".intercalate srv)} / model {short (",".intercalate modelSrv)}"]) ++
        (if okExit then [] else [s!"exit {exitS} / model {w.status}"]) ++
        (if okFs then [] else [s!"files {short (field toks "fs:")} / model {short (renderFs w.fs)}"])
      -- monitor (C20): ends with success status; local files that existed before are untouched; a refused download
      -- leaves no file behind; no command reaches a server while the client is not connected
      let before := splitComma ((field toks "before:").replace ";" ",")
      let after := splitComma ((field toks "fs:").replace ";" ",")
      -- "after any library error the connection is dropped so that a following 'open' starts a clean session": the program
      -- answers `open` with "Already connected" more often than the model although the model saw a library error, or opens
      -- fewer connections than the model
      let already := str "Already connected, use close first."
      let countIn (hay : Bytes) : Nat := ((List.range (hay.length + 1 - already.length)).filter fun i => (hay.drop i).take already.length == already).length
      let modelAlready := (w.out.map fun | .text b => countIn b | _ => 0).sum
      let modelConns := (w.client.trace.filter fun e => match e with | .ctlConnect _ _ => true | _ => false).length
      let implConns := (field toks "conns:").toNat?.getD 0
      -- "ends only on 'exit' or end of input": the program prints more prompts than the model, which stopped at an `exit`
      let prompt := str "ftp> "
      let countP (hay : Bytes) : Nat := ((List.range (hay.length + 1 - prompt.length)).filter fun i => (hay.drop i).take prompt.length == prompt).length
      let modelPrompts := (w.out.map fun | .text b => countP b | _ => 0).sum
      let modelLeftInput := !w.stdin.isEmpty          -- the model ended (on `exit`) with input lines left unread
      let viol : Option String :=
        if exitS = "HANG" then some "hang"
        else if modelLeftInput && !(w.out.contains .freeText) && countP out > modelPrompts then some "went-on-after-exit"
        else if w.out.contains .errorLine && (countIn out > modelAlready || implConns < modelConns ||
                  (srv.length > modelSrv.length && srv.take modelSrv.length = modelSrv && implConns ≤ modelConns)) then
          some "connection-kept-after-library-error"
        else if exitS != "0" then some "ended-with-failure-status"
        else if before.any (fun e => e != "-" && !after.contains e) then some "pre-existing-local-file-changed-or-removed"
        else if !okFs && (after.length > (renderFs w.fs |>.splitOn ";").length) then some "file-of-refused-download-left-behind"
        else none
      let verbs := lines.map fun l => (Cmd.takeWord (Cmd.skipWs l)).1
      let tags := (if w.client.trace.any (fun e => match e with | .ctlConnect _ _ => true | _ => false) then ["connects"] else ["offline"]) ++
        (if w.out.contains .errorLine then ["library-error"] else []) ++
        (if verbs.any (fun v => (Spec.verbOf v) = some .get) then ["get"] else []) ++ (if verbs.any (fun v => (Spec.verbOf v) = some .put) then ["put"] else [])
      pure { model := if diffs.isEmpty then impl else "; ".intercalate diffs, viol := viol, tags := tags }
  | _ => none

end Driver
