import Ftp.Model.Client
import Ftp.Spec.Reader
import Driver.Codec
/-
  Client-level scenarios of the line protocol: parse the scenario and the implementation's trace, extract the
  environment's choices (oracles) from the trace, run the Lean model, render its trace in the same token syntax.
-/
namespace Driver
open Ftp Ftp.Client

/-! ### payloads / digests (same generators as harness/env_peer.hpp) -/

def fnv64 (bs : Bytes) : UInt64 :=
  bs.foldl (fun h b => (h ^^^ (UInt64.ofNat b)) * 1099511628211) 1469598103934665603

def genPayload (seed len : Nat) : Bytes :=
  let rec go : Nat → UInt64 → List Nat → List Nat
    | 0, _, acc => acc.reverse
    | n + 1, x, acc =>
      let x := x ^^^ (x <<< 13)
      let x := x ^^^ (x >>> 7)
      let x := x ^^^ (x <<< 17)
      go n x ((x &&& 0xff).toNat :: acc)
  go len (UInt64.ofNat seed * 0x9E3779B97F4A7C15 + 0x1234567) []

def parsePayload (s : String) : Option Bytes :=
  match s.toList with
  | 'h' :: t => bytesOfHexChars t
  | 'g' :: t =>
    match (String.ofList t).splitOn "." with
    | [a, b] => do let a ← a.toNat?; let b ← b.toNat?; pure (genPayload a b)
    | _ => none
  | _ => none

def dotList (s : String) : List Nat :=
  if s = "-" || s = "" then [] else (s.splitOn ".").filterMap String.toNat?

/-! ### scenario -/

structure SGroup where
  raws : List (Option Bytes)        -- `none` = placeholder (E / P), resolved by the harness
  act : Option DataAct := none
  truncate : Bool := false          -- the peer ends the data stream without a TLS close-notify
  earlyClose : Bool := false        -- the data peer closes its connection (FIN) instead of answering the TLS handshake
  startTls : Bool := false
  reset : Bool := false             -- the data peer ends the connection with a reset (RST) instead of an orderly close
  dataOtherCert : Bool := false     -- the data peer handshakes with the other TLS context (certificate of another CA)
  closes : Bool := false            -- the server drops the control connection after this group (X) or sends garbage (G)
  deriving Repr

def parseGroup (s : String) : Option SGroup := do
  let mut g : SGroup := { raws := [] }
  for it in s.splitOn "," do
    if it = "" then continue
    else if it = "T" then g := { g with startTls := true }
    else if it = "G" || it = "X" || it = "R" then g := { g with closes := true }
    else if it = "B" || it = "A" then pure ()
    else if it = "E" || it = "P" then g := { g with raws := g.raws ++ [none] }
    else match it.toList with
      | 'r' :: t => let b ← bytesOfHexChars t; g := { g with raws := g.raws ++ [some b] }
      | 'c' :: _ => pure ()
      | 'D' :: t =>
        match (String.ofList t).splitOn ":" with
        | ["send", p, _, e] => let p ← parsePayload p; g := { g with act := some (.send p), truncate := e.startsWith "t", reset := e.startsWith "r", dataOtherCert := e.contains 'b', earlyClose := e.contains 'k' }
        | ["recv", _, e] => g := { g with act := some .recv, reset := e.startsWith "r", dataOtherCert := e.contains 'b' }
        | ["none"] => g := { g with act := some .touch }
        | _ => none
      | _ => none
  pure g

structure SOp where
  name : String
  args : List String
  groups : List SGroup
  deriving Repr

def parseOp (s : String) : Option SOp := do
  let (body, script) := match s.splitOn "@" with
    | [b, sc] => (b, some sc)
    | _ => (s, none)
  let groups ← match script with
    | some sc => (sc.splitOn "/").mapM parseGroup
    | none => some []
  match body.splitOn ":" with
  | n :: a => pure { name := n, args := a, groups := groups }
  | [] => none

/-! ### implementation trace -> oracles -/

structure Oracles where
  ctlReads : List Nat := []
  connectOks : List Bool := []
  listenPorts : List Nat := []
  dataReads : List (Option Nat) := []
  blockOks : List Bool := []
  played : List (List Bytes) := []
  deriving Repr

def portOfEp (ep : String) : Nat := ((ep.splitOn "#").getD 1 "0").toNat?.getD 0

/-- group consecutive `dw` tokens into blocks -/
def blockOksOf : List String → Bool → Bool → List Bool
  | [], inBlk, ok => if inBlk then [ok] else []
  | t :: ts, inBlk, ok =>
    if t.startsWith "dw:" then blockOksOf ts true (ok && !(t.endsWith ":err" : Bool))
    else if inBlk then ok :: blockOksOf ts false true
    else blockOksOf ts false true

def oraclesOf (toks : List String) : Oracles := Id.run do
  let mut o : Oracles := {}
  for t in toks do
    match t.splitOn ":" with
    | ["cr", n] => o := { o with ctlReads := o.ctlReads ++ [n.toNat?.getD 0] }
    | ["dc", _, _, ok] => o := { o with connectOks := o.connectOks ++ [ok == "1"] }
    | ["db", _, _, got] => o := { o with listenPorts := o.listenPorts ++ [portOfEp got] }
    | ["dr", _, n] => o := { o with dataReads := o.dataReads ++ [n.toNat?] }
    | "played" :: rest =>
      let s := ":".intercalate rest
      if s != "-" then
        o := { o with played := (s.splitOn "/").map fun g => (splitComma g).filterMap bytesOfHex }
    | _ => pure ()
  { o with blockOks := blockOksOf toks false true }

/-! ### rendering the model's trace -/

def renderEp (addr : Bytes) (port : Nat) : String :=
  s!"{String.ofList (addr.map fun b => if b = 58 then ';' else Char.ofNat b)}#{port}"

def renderEv : Ev → String
  | .ctlConnect _ _ => "cc" | .ctlShutdown => "csh" | .ctlClose => "cx"
  | .ctlReply _ _ => "" | .listing _ => "" | .ctlWriteFail _ => ""
  | .ctlWrite b => s!"w:{hexOfBytes b}"
  | .ctlReadLine => "rl"
  | .obsConnected o h p => s!"o{o}:c:{hexOfBytes h}:{p}"
  | .obsRequest o c => s!"o{o}:q:{hexOfBytes c}"
  | .obsReply o c t => s!"o{o}:r:{c}:{hexOfBytes t}"
  | .obsFileList o t => s!"o{o}:l:{hexOfBytes t}"
  | .dataSocket d => s!"ds:{d}"
  | .dataConnect d a p ok => s!"dc:{d}:{renderEp a p}:{b01 ok}"
  | .dataBind d a asked got => s!"db:{d}:{renderEp a asked}:{renderEp a got}"
  | .dataListen d => s!"dl:{d}"
  | .dataAccept l d => s!"da:{l}:{d}"
  | .dataShutdown d => s!"dsh:{d}" | .dataClose d => s!"dx:{d}"
  | .dataRead d n => s!"dr:{d}:{n}" | .dataReadErr d => s!"dr:{d}:err"
  | .dataWrite d n => s!"dw:{d}:{n}" | .dataWriteErr d => s!"dw:{d}:err"
  | .sinkWrite n => s!"sk:w:{n}" | .sinkWriteFail => "sk:w:fail" | .sinkFlush => "sk:f"
  | .srcRead a g => s!"sr:{a}:{g}" | .srcFail => "sr:fail"
  | .cbPoll b => s!"cb:p:{b01 b}" | .cbBegin => "cb:b" | .cbNotify n => s!"cb:n:{n}" | .cbEnd => "cb:e"

def renderReplyList (l : List Reply) : String :=
  if l.isEmpty then "-" else ",".intercalate (l.map fun r => s!"{r.code}:{hexOfBytes r.text}")

def renderRepliesV (rs : Replies) : String :=
  s!"{b01 rs.isPositive}:{hexOfBytes rs.status}:{renderReplyList rs.list}"

/-- canonical form of the implementation's event tokens of one operation -/
partial def canonImpl (asciiPut : Bool) (coalesce : Bool) : List String → List String
  | [] => []
  | t :: ts =>
    if t.startsWith "cr:" then canonImpl asciiPut coalesce ts
    else if asciiPut && t.startsWith "sr:" then canonImpl asciiPut coalesce ts
    else if t = "rl" then
      "rl" :: canonImpl asciiPut coalesce (ts.dropWhile (fun u => u = "rl" || u.startsWith "cr:"))
    else if coalesce && t.startsWith "dw:" then
      -- coalesce the partial sends of one block
      let blk := (t :: ts).takeWhile (·.startsWith "dw:")
      let rest := (t :: ts).dropWhile (·.startsWith "dw:")
      let d := (t.splitOn ":").getD 1 "0"
      let tok := if blk.any (·.endsWith ":err") then s!"dw:{d}:err"
                 else s!"dw:{d}:{(blk.map fun b => ((b.splitOn ":").getD 2 "0").toNat?.getD 0).foldl (· + ·) 0}"
      tok :: canonImpl asciiPut coalesce rest
    else t :: canonImpl asciiPut coalesce ts

/-! ### running one operation in the model -/

inductive Ret
  | reply (r : Reply) | replies (rs : Replies) | list (rs : Replies) (text : Bytes)
  | size (r : Reply) | mdtm (r : Reply) | opt (r : Option Reply) | void | bool (b : Bool)

def renderRet : Res Ret → String
  | .throw => "thr:ftp"
  | .ok (.reply r) => s!"ret:reply:{r.code}:{hexOfBytes r.text}"
  | .ok (.replies rs) => s!"ret:replies:{renderRepliesV rs}"
  | .ok (.list rs t) => s!"ret:list:{renderRepliesV rs}:{hexOfBytes t}:{renderHexList (Typed.parseFileList t)}"
  | .ok (.size r) => s!"ret:size:{r.code}:{hexOfBytes r.text}:{match Typed.parseSize r with | some n => toString n | none => "none"}"
  | .ok (.mdtm r) =>
    let v := match Typed.parseDatetime r with
      | some d => s!"{d.year}.{d.month}.{d.day}.{d.hour}.{d.minute}.{d.second}.{d.fractions}"
      | none => "none"
    s!"ret:mdtm:{r.code}:{hexOfBytes r.text}:{v}"
  | .ok (.opt none) => "ret:opt:none"
  | .ok (.opt (some r)) => s!"ret:opt:{r.code}:{hexOfBytes r.text}"
  | .ok .void => "ret:void"
  | .ok (.bool b) => s!"ret:bool:{b01 b}"

def liftRet {α} (f : α → Ret) (m : M α) : M Ret := do let a ← m; pure (f a)

def hexArg (args : List String) (i : Nat) : Option Bytes := bytesOfHex (args.getD i "")

def cyc (l : List Nat) (n : Nat) : List Nat :=
  if l.isEmpty then [] else (List.range n).map fun i => l.getD (i % l.length) 1

/-- the program of one scenario operation; `none` = not a valid scenario -/
def opProgram (op : SOp) (w : World) : Option (M Ret × World) := do
  let a := op.args
  -- active mode on a closed control socket: `get_local_endpoint()` fails before anything else happens (see Driver/E2e.lean)
  if (op.name = "get" || op.name = "put" || op.name = "list") && !w.connected && w.mode == .active then pure (throwE, w) else
  match op.name with
  | "connect" =>
    let host ← hexArg a 0
    let port ← (a.getD 1 "").toNat?
    let cred ← if a.length ≥ 4 then (do let u ← hexArg a 2; let p ← hexArg a 3; pure (some (u, p))) else pure none
    pure (liftRet .replies (connect host port cred), w)
  | "login" => do let u ← hexArg a 0; let p ← hexArg a 1; pure (liftRet .replies (login u p), w)
  | "logout" => pure (liftRet .reply logout, w)
  | "cwd" => do let x ← hexArg a 0; pure (liftRet .reply (simple "CWD" (some x)), w)
  | "cdup" => pure (liftRet .reply (simple "CDUP" none), w)
  | "pwd" => pure (liftRet .reply (simple "PWD" none), w)
  | "dele" => do let x ← hexArg a 0; pure (liftRet .reply (simple "DELE" (some x)), w)
  | "mkd" => do let x ← hexArg a 0; pure (liftRet .reply (simple "MKD" (some x)), w)
  | "rmd" => do let x ← hexArg a 0; pure (liftRet .reply (simple "RMD" (some x)), w)
  | "size" => do let x ← hexArg a 0; pure (liftRet .size (simple "SIZE" (some x)), w)
  | "mdtm" => do let x ← hexArg a 0; pure (liftRet .mdtm (simple "MDTM" (some x)), w)
  | "stat" => if a.isEmpty then pure (liftRet .reply (simple "STAT" none), w)
              else do let x ← hexArg a 0; pure (liftRet .reply (simple "STAT" (some x)), w)
  | "syst" => pure (liftRet .reply (simple "SYST" none), w)
  | "help" => if a.isEmpty then pure (liftRet .reply (simple "HELP" none), w)
              else do let x ← hexArg a 0; pure (liftRet .reply (simple "HELP" (some x)), w)
  | "sitehelp" => pure (liftRet .reply (simple "SITE" (some (str "HELP"))), w)
  | "site" => do let x ← hexArg a 0; pure (liftRet .reply (simple "SITE" (some x)), w)
  | "noop" => pure (liftRet .reply (simple "NOOP" none), w)
  | "type" => pure (liftRet .reply (setTransferType (if a.getD 0 "" = "A" then .ascii else .binary)), w)
  | "setmode" => pure (pure .void, { w with mode := if a.getD 0 "" = "a" then .active else .passive })
  | "setrfc" => pure (pure .void, { w with rfc := a.getD 0 "" = "1" })
  | "rename" => do let x ← hexArg a 0; let y ← hexArg a 1; pure (liftRet .replies (rename x y), w)
  | "list" =>
    let names := a.getD 1 "" = "1"
    if a.getD 0 "" = "-" then pure (liftRet (fun p => .list p.1 p.2) (fileList none names), w)
    else do let x ← hexArg a 0; pure (liftRet (fun p => .list p.1 p.2) (fileList (some x) names), w)
  | "get" => do
    let path ← hexArg a 0
    let sinkSpec := a.getD 1 "ok"
    let cbSpec := a.getD 2 "-"
    let failAt := if sinkSpec.startsWith "fail" then (sinkSpec.drop 4).toString.toNat? else none
    let polls := if cbSpec = "-" then [] else (cbSpec.drop 1).toString.toList.map (fun c => c == '1')
    pure (liftRet .replies (download path (cbSpec != "-")), { w with sinkFailAt := failAt, polls := polls })
  | "put" => do
    let verb := a.getD 0 "STOR"
    let path ← hexArg a 1
    let data ← parsePayload (a.getD 2 "")
    let chop := dotList (a.getD 3 "-")
    let srcSpec := a.getD 4 "ok"
    let cbSpec := a.getD 5 "-"
    let failAt := if srcSpec.startsWith "fail" then (srcSpec.drop 4).toString.toNat? else none
    let polls := if cbSpec = "-" then [] else (cbSpec.drop 1).toString.toList.map (fun c => c == '1')
    pure (liftRet .replies (upload verb path (cbSpec != "-")),
          { w with src := ⟨data, cyc (if chop.isEmpty then [8192] else chop) (data.length + 2)⟩, srcFailAt := failAt, polls := polls })
  | "disc" => pure (liftRet .opt (disconnect (a.getD 0 "" = "1")), w)
  | "addobs" => do let i ← (a.getD 0 "").toNat?; pure (pure .void, { w with observers := w.observers ++ [i] })
  | "rmobs" => do let i ← (a.getD 0 "").toNat?; pure (pure .void, { w with observers := w.observers.filter (· != i) })
  | "rmin" => pure (pure .void, w)        -- arming only; the removal itself is applied by `applyReentrantRemovals` where it fired
  | "isconn" => pure (pure (.bool w.connected), w)
  | "faults" => pure (pure .void, w)
  | _ => none

/-- model tokens of one operation, and the world after it -/
def runOp (w : World) (op : SOp) (o : Oracles) : Option (List String × World) := do
  -- the script: what the harness actually played, then (should the model send more commands than the implementation
  -- did) the remaining groups of the scenario
  let groups : List Group := (List.range (max op.groups.length o.played.length)).map fun i =>
    let act := (op.groups[i]?).bind (·.act)
    match o.played[i]? with
    | some raws => { raws := raws, act := act }
    | none => { raws := ((op.groups[i]?).map (·.raws)).getD [] |>.filterMap id, act := act }
  let w0 : World := { w with
    script := groups, act := none,
    net := { w.net with sizes := o.ctlReads },
    connectOks := o.connectOks, listenPorts := o.listenPorts, dataReads := o.dataReads, blockOks := o.blockOks,
    conn := none, sinkFailAt := none, sinkWrites := 0, sink := [], sinkFlushes := 0, sinkSilent := false,
    src := ⟨[], []⟩, srcFailAt := none, srcReads := 0, polls := [], cancelled := false, peerGot := [], trace := [] }
  let (prog, w1) ← opProgram op w0
  let (res, w2) := prog w1
  let evs := (w2.trace.map renderEv).filter (· != "")
  let sinkTok := if op.name = "get" then
      [s!"sink:{w2.sink.length}:{(fnv64 w2.sink).toNat}:{if w2.sink.length ≤ 512 then hexOfBytes w2.sink else "-"}:{w2.sinkFlushes}"] else []
  let fds := match w2.conn with
    | some c => (if c.sock.isSome then 1 else 0) + (if c.acc.isSome then 1 else 0)
    | none => 0
  let st := s!"st:{b01 w2.connected}:{match w2.ttype with | .binary => "I" | .ascii => "A"}:{match w2.mode with | .passive => "p" | .active => "a"}:{b01 w2.rfc}:{fds}:{let p := w2.ctl.buf ++ w2.net.stream; if p.length ≤ 64 then hexOfBytes p else s!"n{p.length}"}"
  -- the control socket is held exactly while the client is connected
  pure (evs ++ [renderRet res] ++ sinkTok ++ [st, s!"cs:{b01 w2.connected}"], w2)

/-- split the implementation's tokens into per-operation segments (after each `op:k` marker) -/
def splitOps : List String → List (List String) → List String → List (List String)
  | [], acc, cur => (acc ++ [cur]).drop 1
  | t :: ts, acc, cur => if t.startsWith "op:" then splitOps ts (acc ++ [cur]) [] else splitOps ts acc (cur ++ [t])

def isSummary (t : String) : Bool :=
  t.startsWith "srv:" || t.startsWith "played:" || t.startsWith "peer:" || t.startsWith "end:"

structure OpView where
  op : SOp
  impl : List String        -- canonical event tokens + ret + sink + st of the implementation
  model : List String
  summary : List String     -- srv / played / peer tokens of the implementation
  worldBefore : World
  worldAfter : World

def parseCfg (cfg : String) : World × String := Id.run do
  let mut w : World := { mode := .passive, ttype := .binary, rfc := true }
  let mut prop := ""
  for kv in cfg.splitOn "," do
    if kv = "mode=a" then w := { w with mode := .active }
    else if kv = "rfc=0" then w := { w with rfc := false }
    else if kv = "type=A" then w := { w with ttype := .ascii }
    else if kv = "ip=6" then w := { w with v6 := true }
    else if kv.startsWith "prop=" then prop := (kv.drop 5).toString
  (w, prop)

/-- re-entrant removals (`orm:<i>:<j>` in the implementation's trace = observer i unregistered observer j from inside one of
    its callbacks during this call): the model registers / unregisters observers only between calls, so the effect is applied
    to its token stream here - from observer i's first event of the call on, observer j is told nothing (it is unlinked at
    once: not even the event being delivered reaches it if it stands behind i), and it is gone for the following calls.
    This part of the behaviour is modelled in the driver, not in the verified model. -/
def applyReentrantRemovals (seg model : List String) (w' : World) : List String × World :=
  let orms := seg.filterMap fun t => match t.splitOn ":" with
    | ["orm", i, j] => (do let i ← i.toNat?; let j ← j.toNat?; pure (i, j))
    | _ => none
  orms.foldl (fun (acc : List String × World) (ij : Nat × Nat) =>
    let (m, ww) := acc
    let (i, j) := ij
    match m.findIdx? (fun t => t.startsWith s!"o{i}:") with
    | some k =>
      let head := m.take (k + 1)
      let tail := (m.drop (k + 1)).filter fun t => !t.startsWith s!"o{j}:"
      (head ++ [s!"orm:{i}:{j}"] ++ tail, { ww with observers := ww.observers.filter (· != j) })
    | none => (m, ww)) (model, w')

/-- run the whole scenario in the model against the implementation's trace -/
def viewsOf (w : World) (ops : List SOp) (segs : List (List String)) : Option (List OpView) :=
  match ops, segs with
  | [], _ => some []
  | op :: ops', segs =>
    let seg := segs.headD []
    let o := oraclesOf seg
    match runOp w op o with
    | none => none
    | some (model, w') =>
      let (model, w') := applyReentrantRemovals seg model w'
      let asciiPut := op.name = "put" && w.ttype == .ascii
      let impl := canonImpl asciiPut true (seg.filter fun t => !isSummary t)
      let model := canonImpl asciiPut false model
      match viewsOf w' ops' segs.tail with
      | some vs => some ({ op := op, impl := impl, model := model, summary := seg.filter isSummary, worldBefore := w, worldAfter := w' } :: vs)
      | none => none

end Driver
