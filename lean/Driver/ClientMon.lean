import Driver.Client
import Driver.Pure
import Ftp.Spec.RefAutomaton
/-
  Verdict for client-level scenarios: correspondence (projection per property) and the property's monitor -
  the `Holds` predicate of the property, evaluated on the implementation's trace.
-/
namespace Driver
open Ftp Ftp.Client

def tokClass (t : String) : String :=
  let c := (t.splitOn ":").headD ""
  if c.startsWith "o" && c.length = 2 then "o" else c

/-- which token classes take part in the correspondence check of a property -/
def projection (prop : String) : List String :=
  match prop with
  | "C02" => ["w", "rl", "ret", "thr", "st"]
  | "C03" => ["dr", "sk", "sink", "ret", "thr", "st", "o"]
  | "C04" => ["sr", "dw", "dsh", "dx", "rl", "w", "ret", "thr", "st"]
  | "C05" => ["sk", "sink", "dw", "ret", "thr"]
  | "C06" => ["ds", "dc", "db", "dl", "da", "w", "ret", "thr"]
  | "C07" => ["w", "rl", "ds", "dc", "db", "dl", "da", "dsh", "dx", "dr", "dw", "sk", "sr", "sink", "ret", "thr", "st"]
  | "C09" => ["w", "ret", "thr"]
  | "C10" => ["w", "ret", "thr", "st"]
  | "C12" => ["cb", "dr", "dw", "sk", "sr", "w", "dsh", "dx", "ret", "thr", "sink"]
  | "C13" => ["cc", "csh", "cx", "w", "rl", "ret", "thr", "st"]
  | "C14" => ["o", "w", "rl", "cc", "ret", "thr"]
  | "C17" => ["ds", "da", "dx", "st", "ret", "thr"]
  | _ => []      -- everything

def project (prop : String) (toks : List String) : List String :=
  match projection prop with
  | [] => toks
  | cls => toks.filter fun t => cls.contains (tokClass t)

def firstDiff : List String → List String → Nat → Option (Nat × String × String)
  | [], [], _ => none
  | a :: as, b :: bs, i => if a = b then firstDiff as bs (i + 1) else some (i, a, b)
  | a :: _, [], i => some (i, a, "<nothing>")
  | [], b :: _, i => some (i, "<nothing>", b)

def short (s : String) : String := if s.length > 160 then (s.take 160).toString ++ "…" else s

/-- a reply decoded from its raw bytes (reference decoder) -/
def decodeRaw (raw : Bytes) : Option (Nat × Bytes) :=
  match Spec.decodeStream raw with
  | some [r] => some r
  | _ => none

/-- the `code:hex` items of a return token -/
def retReplies (ret : String) : Option (List String) :=
  match ret.splitOn ":" with
  | ["ret", "reply", c, h] => some [s!"{c}:{h}"]
  | "ret" :: "replies" :: _ :: _ :: rest => some (splitComma (":".intercalate rest))
  | "ret" :: "list" :: _ :: _ :: rest => some (splitComma (":".intercalate (rest.dropLast.dropLast)))
  | ["ret", "size", c, h, _] => some [s!"{c}:{h}"]
  | ["ret", "mdtm", c, h, _] => some [s!"{c}:{h}"]
  | ["ret", "opt", "none"] => some []
  | ["ret", "opt", c, h] => some [s!"{c}:{h}"]
  | _ => none

def retPositive (ret : String) : Option Bool :=
  match ret.splitOn ":" with
  | "ret" :: "replies" :: p :: _ => some (p = "1")
  | "ret" :: "list" :: p :: _ => some (p = "1")
  | _ => none

def findTok (toks : List String) (pre : String) : Option String := toks.find? (·.startsWith pre)

def idxOfTok (toks : List String) (p : String → Bool) : Option Nat :=
  (toks.zipIdx.find? fun (t, _) => p t).map (·.2)

def lastIdxOfTok (toks : List String) (p : String → Bool) : Option Nat :=
  ((toks.zipIdx.filter fun (t, _) => p t).getLast?).map (·.2)

def hasCrLfB (b : Bytes) : Bool := b.any fun c => c = 13 || c = 10

/-- state of the client as the implementation reported it after the previous operation -/
structure Seen where
  connected : Bool := false
  ascii : Bool := false
  active : Bool := false
  rfc : Bool := true
  v6 : Bool := false
  observers : List Nat := []
  inStep : Bool := true        -- no unread control bytes were left by the previous operation

def seenAfter (s : Seen) (v : OpView) : Seen :=
  let st := ((findTok v.impl "st:").getD "").splitOn ":"
  let s := { s with inStep := (st.getD 6 "x" = "x" || st.getD 6 "x" = "x0a"), connected := st.getD 1 "0" = "1", ascii := st.getD 2 "I" = "A", active := st.getD 3 "p" = "a", rfc := st.getD 4 "1" = "1" }
  match v.op.name, (v.op.args.getD 0 "").toNat? with
  | "addobs", some i => { s with observers := s.observers ++ [i] }
  | "rmobs", some i => { s with observers := s.observers.filter (· != i) }
  | _, _ =>
    -- re-entrant removals that fired during this call
    let gone := v.impl.filterMap fun t => match t.splitOn ":" with | ["orm", _, j] => j.toNat? | _ => none
    { s with observers := s.observers.filter fun o => !gone.contains o }

/-- text arguments of an operation (caller-supplied strings that go into command lines) -/
def textArgs (op : SOp) : List Bytes :=
  let h (i : Nat) := (bytesOfHex (op.args.getD i "")).toList
  match op.name with
  | "connect" => h 2 ++ h 3
  | "login" | "rename" => h 0 ++ h 1
  | "cwd" | "dele" | "mkd" | "rmd" | "size" | "mdtm" | "stat" | "help" | "site" | "get" => h 0
  | "list" => if op.args.getD 0 "-" = "-" then [] else h 0
  | "put" => h 1
  | _ => []

def writesOf (toks : List String) : List Bytes :=
  toks.filterMap fun t => if t.startsWith "w:" then bytesOfHex (t.drop 2).toString else none

def stripCrLf (b : Bytes) : Bytes := if b.drop (b.length - 2) = [13, 10] then b.take (b.length - 2) else b

def pollsOf (spec : String) : Option (List Bool) :=
  if spec = "-" then none else some ((spec.drop 1).toString.toList.map fun c => c == '1')

def cancelledOp (op : SOp) : Bool :=
  let spec := if op.name = "get" then op.args.getD 2 "-" else if op.name = "put" then op.args.getD 5 "-" else "-"
  match pollsOf spec with
  | some l => l.contains true
  | none => false

def payloadOfAct (op : SOp) : Option Bytes :=
  op.groups.findSome? fun g => match g.act with | some (.send p) => some p | _ => none

def isTransfer (op : SOp) : Bool := op.name = "get" || op.name = "put" || op.name = "list"

/-- codes of the replies the server generated in this operation -/
def generatedOf (v : OpView) : List (Nat × Bytes) := ((oraclesOf v.summary).played.flatten.filterMap decodeRaw)

def refCall (op : SOp) : Option Spec.Call :=
  let h (i : Nat) := bytesOfHex (op.args.getD i "")
  match op.name with
  | "cwd" => (h 0).map fun a => .simple "CWD" (some a)
  | "cdup" => some (.simple "CDUP" none)
  | "pwd" => some (.simple "PWD" none)
  | "dele" => (h 0).map fun a => .simple "DELE" (some a)
  | "mkd" => (h 0).map fun a => .simple "MKD" (some a)
  | "rmd" => (h 0).map fun a => .simple "RMD" (some a)
  | "size" => (h 0).map fun a => .simple "SIZE" (some a)
  | "mdtm" => (h 0).map fun a => .simple "MDTM" (some a)
  | "stat" => some (.simple "STAT" (if op.args.isEmpty then none else h 0))
  | "syst" => some (.simple "SYST" none)
  | "help" => some (.simple "HELP" (if op.args.isEmpty then none else h 0))
  | "sitehelp" => some (.simple "SITE" (some (str "HELP")))
  | "site" => (h 0).map fun a => .simple "SITE" (some a)
  | "noop" => some (.simple "NOOP" none)
  | "logout" => some (.simple "REIN" none)
  | "type" => some (.setType (op.args.getD 0 "" = "A"))
  | "rename" => do let a ← h 0; let b ← h 1; pure (.rename a b)
  | "login" => do let a ← h 0; let b ← h 1; pure (.login a b)
  | "connect" => if op.args.length ≥ 4 then (do let a ← h 2; let b ← h 3; pure (.connect (some (a, b)))) else some (.connect none)
  | "get" => (h 0).map fun a => .transfer "RETR" (some a) (cancelledOp op)
  | "put" => (h 1).map fun a => .transfer (op.args.getD 0 "STOR") (some a) (cancelledOp op)
  | "list" => some (.transfer (if op.args.getD 1 "" = "1" then "NLST" else "LIST") (if op.args.getD 0 "-" = "-" then none else h 0) false)
  | "disc" => some (.disconnect (op.args.getD 0 "" = "1"))
  | _ => none

/-- the callback events must be: poll false, begin, (notify n, poll)*, end, [final poll]  - or a single poll true -/
def cbGrammar (cb : List String) (moved : List Nat) : Option String :=
  match cb with
  | [] => none
  | ["cb:p:1", "cb:p:1"] => if moved.isEmpty then none else some "bytes-moved-after-cancel-before-start"
  | "cb:p:0" :: "cb:b" :: rest =>
    let rec body : List String → List Nat → Bool → Option String
      | "cb:e" :: tail, ns, cancelled =>
        if ns != moved then some "notify-arguments-are-not-the-blocks-moved"
        else match tail with
          | ["cb:p:1"] => none
          | ["cb:p:0"] => if cancelled then some "callback-sequence" else none
          | _ => some "callback-sequence"
      | n :: p :: tail, ns, cancelled =>
        if cancelled then some "block-moved-after-cancel"
        else if n.startsWith "cb:n:" && (p = "cb:p:0" || p = "cb:p:1") then
          body tail (ns ++ [((n.drop 5).toString.toNat?).getD 0]) (p = "cb:p:1")
        else some "callback-sequence"
      | _, _, _ => some "callback-sequence"
    body rest [] false
  | _ => some "callback-sequence"

/-- the property's predicate on one operation of the implementation's trace; `none` = holds -/
def monitorOp (prop : String) (seen : Seen) (v : OpView) (next : Option OpView) : Option String :=
  let impl := v.impl
  let op := v.op
  let ret := (impl.find? fun t => t.startsWith "ret:" || t.startsWith "thr:" || t = "LIVELOCK" || t.startsWith "escaped").getD ""
  let st := ((findTok impl "st:").getD "").splitOn ":"
  let fds := (st.getD 5 "0").toNat?.getD 0
  let pend := st.getD 6 "x"
  let gen := generatedOf v
  let generated : List String := gen.map fun (c, t) => s!"{c}:{hexOfBytes t}"
  let writes := writesOf impl
  let returned := ret.startsWith "ret:"
  let noCtl := op.name ∈ ["setmode", "setrfc", "addobs", "rmobs", "isconn", "faults"]
  -- only a return or an ftp_exception, whatever happens (C08's outcome clause, checked everywhere)
  if ret = "LIVELOCK" then some "spins-after-end-of-stream"
  else if ret.startsWith "thr:other" || ret.startsWith "escaped" then some "other-exception-escaped"
  else match prop with
  | "C02" =>
    -- a call that fails because it waits for one reply more than the server owes it: every group of the call's script was
    -- played, nothing is unread, and the last thing the client did was to ask the transport for another line
    let core := impl.filter fun t => !(t.startsWith "st:" || t.startsWith "srv:" || t.startsWith "played:" || t.startsWith "peer:" || t.startsWith "sink:" || t.startsWith "end:" || t.startsWith "cs:")
    let askedForMore := match core.reverse with
      | t :: "rl" :: _ => t.startsWith "thr:"
      | _ => false
    if !returned && !noCtl && askedForMore && !gen.isEmpty && pend = "x" &&
       (oraclesOf v.summary).played.length = op.groups.length && (op.groups.all fun g => !g.closes) then
      some "call-waits-for-a-reply-the-server-does-not-owe"
    else if !returned || noCtl then none
    else match retReplies ret with
      | none => none
      | some rs =>
        if op.name = "disc" && op.args.getD 0 "" != "1" then none
        else
          let aborSent := writes.contains (str "ABOR\r\n")
          let mainHasCompletion := (oraclesOf v.summary).played.any fun g => g.length ≥ 2 && (g.headD [] |>.headD 0) = 49
          if rs != generated then
            some (if op.name = "logout" && gen.length = 2 then "rein-answered-120-220-returns-one-reply"
                  else if aborSent && mainHasCompletion then "abor-after-transfer-completed-leaves-reply"
                  else "returned-replies-are-not-the-replies-to-this-call")
          else if pend != "x" && pend != "x0a" then
            some (if aborSent && mainHasCompletion then "abor-after-transfer-completed-leaves-reply" else "reply-left-unread")
          else none
  | "C03" | "C05" =>
    if !returned || cancelledOp op then none
    else if op.name = "get" then
      match payloadOfAct op, findTok impl "sink:" with
      | some p, some sk =>
        if (op.args.getD 1 "ok") != "ok" then none
        else if (op.groups.any fun g => g.raws.length ≥ 1) && (retPositive ret = some true) then
          let f := sk.splitOn ":"
          let want := if seen.ascii then Spec.dlSpec p else p
          if f.getD 1 "" != toString want.length || f.getD 2 "" != toString (fnv64 want).toNat then
            some (if seen.ascii then "ascii-download-bytes-differ" else "download-bytes-differ")
          else if f.getD 4 "" != "1" then some "flush-count"
          else if (impl.filter (·.startsWith "sk:")).getLast? != some "sk:f" then some "flush-not-after-last-byte"
          else none
        else none
      | _, _ => none
    else if op.name = "list" then
      match payloadOfAct op with
      | some p =>
        if retPositive ret != some true then none
        else
          let want := if seen.ascii then Spec.dlSpec p else p
          let f := ret.splitOn ":"
          let text := f.getD (f.length - 2) ""
          if text != hexOfBytes want then some "listing-text-differs"
          else if (impl.filter fun t => tokClass t = "o" && (t.splitOn ":").getD 1 "" = "l").any (fun t => (t.splitOn ":").getD 2 "" != hexOfBytes want) then some "observer-listing-text-differs"
          else none
      | none => none
    else if prop = "C05" && op.name = "put" && retPositive ret = some true then
      -- ASCII upload: what the peer received is the conversion of this call's own source - nothing carried over from
      -- an earlier transfer of the same client
      match parsePayload (op.args.getD 2 ""), findTok v.summary "peer:" with
      | some data, some pk =>
        let f := pk.splitOn ":"
        let want := if seen.ascii then Spec.ulSpec data else data
        if f.getD 3 "" != toString want.length || f.getD 4 "" != toString (fnv64 want).toNat then
          some "ascii-upload-bytes-differ"
        else none
      | _, _ => none
    else none
  | "C04" =>
    if !returned || cancelledOp op || op.name != "put" then none
    else if retPositive ret != some true then none
    else
      match parsePayload (op.args.getD 2 ""), findTok v.summary "peer:" with
      | some data, some pk =>
        let f := pk.splitOn ":"
        let want := if seen.ascii then Spec.ulSpec data else data
        if f.getD 3 "" != toString want.length || f.getD 4 "" != toString (fnv64 want).toNat then
          some (if seen.ascii then "ascii-upload-bytes-differ" else "upload-bytes-differ")
        else if f.getD 6 "" != "1" then some "peer-saw-no-end-of-file"
        else
          -- the data connection is closed before the completion reply is awaited
          match lastIdxOfTok impl (·.startsWith "dx:"), lastIdxOfTok impl (· = "rl") with
          | some ix, some ir => if ix < ir then none else some "completion-awaited-before-data-close"
          | _, _ => some "completion-awaited-before-data-close"
      | _, _ => none
  | "C06" =>
    if !isTransfer op then none
    else
      -- exactly the method selected by transfer mode and RFC 2428 setting: no set-up command of another method is sent
      let verbOfW (b : Bytes) : Bytes := b.takeWhile fun c => c != 32 && c != 13
      let setupVerbs := [str "EPSV", str "PASV", str "EPRT", str "PORT"]
      let selected := if seen.active then (if seen.rfc then str "EPRT" else str "PORT") else (if seen.rfc then str "EPSV" else str "PASV")
      let sentSetups := (writes.map verbOfW).filter fun v => setupVerbs.contains v
      if sentSetups.any (· != selected) then some "set-up-command-of-a-method-that-is-not-selected"
      else if sentSetups.length > 1 then some "more-than-one-set-up-command"
      else
      let setupReply := gen.head?
      let dcs := impl.filter (·.startsWith "dc:")
      let nsock := (impl.filter (·.startsWith "ds:")).length
      if !seen.active then
        match setupReply with
        | none => none
        | some (c, t) =>
          if c ≥ 400 then (if dcs.isEmpty then none else some "connected-after-refused-setup")
          else
            let addr := if seen.v6 then ";;1" else "127.0.0.1"
            let want : Option String :=
              if seen.rfc then (Spec.epsvOf t).map fun p => s!"{addr}#{p}"
              else match Spec.pasvOf t with
                | some ([a, b, c, d], p) => some s!"{a}.{b}.{c}.{d}#{p}"
                | _ => none
            match want with
            | none => if dcs.isEmpty && ret = "thr:ftp" then none else some "malformed-passive-reply-not-refused"
            | some ep =>
              match dcs with
              | [dc] => if (dc.splitOn ":").getD 2 "" = ep && nsock = 1 then none else some "connect-target-is-not-the-negotiated-endpoint"
              | _ => some "not-exactly-one-data-connection"
      else
        -- active: the command advertises the endpoint the client is listening on
        match findTok impl "db:", writes.head? with
        | some db, some cmd =>
          let got := (db.splitOn ":").getD 3 ""
          let line := stripCrLf cmd
          let adv : Option String :=
            if line.take 5 = str "EPRT " then
              match Spec.decodeEprtArg (line.drop 5) with
              | some (f, a, p) => if (f = 2) = seen.v6 then some s!"{String.ofList (a.map fun b => if b = 58 then ';' else Char.ofNat b)}#{p}" else none
              | none => none
            else if line.take 5 = str "PORT " then
              match Spec.decodePortArg (line.drop 5) with
              | some ([a, b, c, d], p) => some s!"{a}.{b}.{c}.{d}#{p}"
              | _ => none
            else none
          if adv != some got then some "advertised-endpoint-is-not-the-listening-socket"
          else if (impl.filter (·.startsWith "dl:")).length != 1 then some "not-listening-before-advertising"
          else if (idxOfTok impl (·.startsWith "dl:")).getD 0 > (idxOfTok impl (·.startsWith "w:")).getD 0 then some "not-listening-before-advertising"
          else if (impl.filter (·.startsWith "da:")).length > 1 then some "not-exactly-one-data-connection"
          else none
        | _, _ => if ret = "thr:ftp" then none else some "active-setup-without-listening-socket"
  | "C07" =>
    if !isTransfer op then none
    else
      let refused := (gen.take 2).any fun (c, _) => c ≥ 400 && c != 421
      if !refused then none
      else if impl.any (fun t => t.startsWith "sk:" || t.startsWith "sr:" || t.startsWith "dr:" || t.startsWith "dw:" || t.startsWith "cb:b") then
        some "refused-transfer-moved-data"
      else if !returned then some "refused-transfer-threw"
      -- "moves no data": a refused listing returns no listing text (nothing of an earlier listing either)
      else if op.name = "list" && (ret.splitOn ":").dropLast.getLast?.getD "x" != "x" then some "refused-listing-returned-text"
      -- the operation stops at the refused step: nothing is sent after the command that was refused (no ABOR either)
      else if (match gen.findIdx? (fun (c, _) => c ≥ 400 && c != 421) with
               | some k => decide (writes.length > k + 1)
               | none => false) then some "command-sent-after-the-refusal"
      else if retPositive ret != some false then some "refused-transfer-reported-positive"
      else if retReplies ret != some generated then some "refused-transfer-replies-differ"
      else if fds != 0 then some "refused-transfer-left-descriptor"
      else if pend != "x" && pend != "x0a" then some "refused-transfer-left-reply-unread"
      else match next with
        | some nv =>
          let nret := (nv.impl.find? fun t => t.startsWith "ret:" || t.startsWith "thr:").getD ""
          let ngen := (generatedOf nv).map fun (c, t) => s!"{c}:{hexOfBytes t}"
          if nret.startsWith "ret:" && !(nv.op.name ∈ ["setmode", "setrfc", "addobs", "rmobs", "isconn", "faults", "disc"]) && retReplies nret != some ngen
          then some "session-out-of-step-after-refusal" else none
        | none => none
  | "C09" =>
    if (textArgs op).any hasCrLfB then
      (if !writes.isEmpty then some "line-break-in-argument-was-transmitted"
       else if ret != "thr:ftp" then some "line-break-in-argument-not-rejected" else none)
    else if writes.any (fun w => w.drop (w.length - 2) != [13, 10] || hasCrLfB (w.take (w.length - 2))) then some "command-is-not-one-line"
    else none
  | "C10" =>
    if noCtl then none
    else match refCall op with
      | none => none
      | some call =>
        let s : Spec.Settings := { passive := !seen.active, rfc2428 := seen.rfc, asciiType := seen.ascii, v6 := seen.v6 }
        let activeLine := (writes.head?.map stripCrLf).getD []
        let want := Spec.expectedLines s call (gen.map (·.1)) activeLine
        let got := writes.map stripCrLf
        -- on an exception the call may stop early: what was sent must be a prefix of the reference sequence
        if returned && got != want then some "commands-differ-from-reference"
        else if !returned && got != want.take got.length then some "commands-differ-from-reference"
        else if returned && retReplies ret != some generated && !(op.name = "disc" && op.args.getD 0 "" != "1") then some "not-every-reply-returned"
        else
          let typeNow := st.getD 2 "I" = "A"
          if typeNow != seen.ascii then
            (if op.name = "type" && (gen.head?.map fun (c, _) => c < 400) = some true && typeNow = (op.args.getD 0 "" = "A") then none
             else some "transfer-type-changed-without-positive-TYPE")
          else if op.name = "type" && (gen.head?.map fun (c, _) => c < 400) = some true && typeNow != (op.args.getD 0 "" = "A") then some "transfer-type-not-updated"
          else none
  | "C12" =>
    if op.name != "get" && op.name != "put" then none
    else
      let spec := if op.name = "get" then op.args.getD 2 "-" else op.args.getD 5 "-"
      if spec = "-" then none
      else
        let cb := impl.filter (·.startsWith "cb:")
        let moved := impl.filterMap fun t =>
          if op.name = "get" && t.startsWith "dr:" then (match ((t.splitOn ":").getD 2 "").toNat? with | some 0 => none | x => x)
          else if op.name = "put" && t.startsWith "dw:" then ((t.splitOn ":").getD 2 "").toNat?
          else none
        if cb.isEmpty then none
        else match cbGrammar cb moved with
          | some c => some c
          | none =>
            if moved.any (· > 8192) then some "block-larger-than-8192"
            else if cb.getLast? = some "cb:p:1" && !writes.contains (str "ABOR\r\n") && seen.connected then
              -- the final poll reported cancellation: the next thing the client does is to send ABOR
              some "cancelled-without-ABOR"
            else if cb.getLast? = some "cb:p:1" && returned then
              -- cancelled: ABOR sent, data connection closed, ABOR's replies part of the result
              (if fds != 0 then some "cancelled-transfer-left-data-connection"
               else if (impl.any (·.startsWith "dsh:")) then some "cancelled-transfer-closed-gracefully"
               else if retReplies ret != some generated then some "abor-replies-not-in-result" else none)
            else if returned && writes.contains (str "ABOR\r\n") then some "ABOR-without-cancellation"
            else none
  | "C13" =>
    let conn := st.getD 1 "0" = "1"
    -- a 421 among the replies a call returned (greeting, completion reply, reply to ABOR, ...): not connected afterwards
    let ctlOpen : Option Bool := (findTok impl "cs:").map (fun t => t == "cs:1")
    if returned && ((retReplies ret).getD []).any (fun r => r.startsWith "421:") && conn then some "connected-after-421"
    -- after a non-graceful disconnect (returned or thrown), after a graceful one that returned, and whenever the client reports
    -- not connected: no control socket is held
    else if ((op.name = "disc" && (returned || op.args.getD 0 "" != "1")) || !conn) && ctlOpen = some true && !noCtl then
      some "control-socket-held-while-not-connected"
    else if op.name = "disc" then
      (if returned && conn then some "connected-after-disconnect"
       else if op.args.getD 0 "" != "1" && !writes.isEmpty then some "nongraceful-disconnect-sent-a-command"
       else if op.args.getD 0 "" != "1" && conn then some "nongraceful-disconnect-left-connection"
       else if op.args.getD 0 "" = "1" && returned && writes != [str "QUIT\r\n"] then some "graceful-disconnect-did-not-send-QUIT"
       else if op.args.getD 0 "" = "1" && returned && seen.inStep && retReplies ret != some generated then some "QUIT-reply-not-returned"
       else none)
    else if op.name = "connect" then
      (if returned then
         (match retReplies ret, generated.head? with
          | some (r :: _), some g => if r != g then some "first-reply-is-not-the-new-greeting"
                                       else if !conn && (gen.all fun (c, _) => c != 421) then some "not-connected-after-connect" else none
          | _, _ => none)
       else none)
    else if returned && ((retReplies ret).getD []).any (fun r => r.startsWith "421:") && conn then some "connected-after-421"
    else none
  | "C14" =>
    -- "an observer that has been removed receives nothing further" - also when it is removed from inside a callback
    let removedTold : Bool := Id.run do
      let mut gone : List Nat := []
      let mut bad := false
      for t in impl do
        match t.splitOn ":" with
        | ["orm", _, j] => gone := gone ++ [(j.toNat?).getD 99]
        | _ => if tokClass t = "o" && gone.any (fun j => t.startsWith s!"o{j}:") then bad := true
      return bad
    -- "of each listing's text": a listing call that returned tells every registered observer its text exactly once (the text
    -- the call returns), and no other call produces a listing event
    let listEvents := impl.filter fun t => tokClass t = "o" && (t.splitOn ":").getD 1 "" = "l"
    let listingBad : Bool :=
      if op.name = "list" && returned then
        let text := (ret.splitOn ":").dropLast.getLast?.getD ""        -- ret:list:<n>:<replies...>:<hex text>:<hex lines>
        let want := seen.observers.map fun o => s!"o{o}:l:{text}"
        -- a refused listing (negative result) has no data connection and hence no event
        if retPositive ret = some true then listEvents != want else !(listEvents.isEmpty || listEvents == want)
      else if op.name = "list" then false
      else !listEvents.isEmpty
    if removedTold then some "removed-observer-was-still-notified"
    else if impl.any (·.startsWith "orm:") then none       -- the expectation changes in mid-call: left to the correspondence
    else if listingBad then some "listing-events-differ-from-the-listing-returned"
    else
    -- the observers' events, in wire order, are exactly the transcript
    let obs := seen.observers
    let expected : List String := Id.run do
      let mut out : List String := []
      let mut replies := generated
      for t in impl do
        if t = "cc" then
          let h := (bytesOfHex (op.args.getD 0 "")).getD []
          out := out ++ obs.map fun o => s!"o{o}:c:{hexOfBytes h}:{op.args.getD 1 "0"}"
        else if t.startsWith "w:" then
          let cmd := stripCrLf ((bytesOfHex (t.drop 2).toString).getD [])
          out := out ++ obs.map fun o => s!"o{o}:q:{hexOfBytes cmd}"
      -- replies and listings are checked separately below (their position relative to `rl` is fixed by the code)
      let _ := replies
      out
    let gotReq := impl.filter fun t => tokClass t = "o" && ((t.splitOn ":").getD 1 "" = "q" || (t.splitOn ":").getD 1 "" = "c")
    let gotRep := impl.filter fun t => tokClass t = "o" && (t.splitOn ":").getD 1 "" = "r"
    let consumed := match retReplies ret with | some rs => rs | none => generated.take (gotRep.length / (max obs.length 1))
    let wantRep := consumed.flatMap fun r => obs.map fun o => s!"o{o}:r:{r}"
    if gotReq != expected then some "observer-requests-differ-from-transcript"
    else if returned && gotRep != wantRep && !noCtl && !(op.name = "disc" && op.args.getD 0 "" != "1") then some "observer-replies-differ-from-transcript"
    else
      -- each request is announced immediately before it is written
      let bad := impl.zipIdx.any fun (t, i) =>
        t.startsWith "w:" && !obs.isEmpty && !((impl.getD (i - 1) "").startsWith s!"o{obs.getLast?.getD 0}:q:")
      if bad then some "request-not-announced-before-write" else none
  | "C17" =>
    -- no data / listening descriptor survives a call; the control socket is held exactly while the client reports connected
    let conn : Bool := st.getD 1 "0" == "1"
    let ctlOpen : Option Bool := (findTok impl "cs:").map (fun t => t == "cs:1")
    if fds != 0 then some "data-descriptor-left-open"
    else if !noCtl && ctlOpen.isSome && ctlOpen != some conn then some "control-socket-state-differs-from-is-connected"
    else none
  | _ => none

def monitorAll (prop : String) : Seen → List OpView → Option String
  | _, [] => none
  | s, v :: vs =>
    match monitorOp prop s v vs.head? with
    | some c => some s!"{c}"
    | none => monitorAll prop (seenAfter s v) vs

def clientOp (args : List String) (impl : String) : Option Verdict := do
  let cfg ← args.head?
  let ops ← (args.drop 1).mapM parseOp
  let (w0, prop) := parseCfg cfg
  let toks := impl.splitOn " "
  if impl = "bad-op" then none
  else if toks.contains "HANG" then
    pure { model := "returns", viol := some "hang", tags := ["hang"] }
  else
    let segs := splitOps toks [] []
    let views ← viewsOf w0 ops segs
    -- correspondence on the property's projection
    let diffs := views.zipIdx.filterMap fun (v, k) =>
      match firstDiff (project prop v.impl) (project prop v.model) 0 with
      | some (i, a, b) => some s!"op{k}({v.op.name})#{i}: impl {short a} / model {short b}"
      | none => none
    let endTok := (toks.find? (·.startsWith "end:")).getD "end:?"
    let seen0 : Seen := { ascii := w0.ttype == .ascii, active := w0.mode == .active, rfc := w0.rfc, v6 := w0.v6 }
    let viol : Option String := (monitorAll prop seen0 views) <|>
      (if prop = "C17" && endTok != "end:0" then some "descriptor-survives-destruction" else none)
    let names := views.map (·.op.name)
    let tags := (if names.contains "get" then ["get"] else []) ++ (if names.contains "put" then ["put"] else []) ++
      (if names.contains "list" then ["list"] else []) ++ (if views.any (fun v => v.impl.contains "thr:ftp") then ["throws"] else []) ++
      (if views.any (fun v => cancelledOp v.op) then ["cancel"] else []) ++
      (if w0.mode == .active then ["active"] else ["passive"]) ++ (if w0.ttype == .ascii then ["ascii"] else []) ++
      (if names.length ≤ 2 then ["short"] else ["history"])
    pure { model := if diffs.isEmpty then impl else "; ".intercalate (diffs.take 3), viol := viol, tags := tags }

end Driver
