import Driver.Client
import Driver.Pure
/-
  Verdict for client-level scenarios: correspondence (projection per property) and the property's monitor,
  evaluated on the implementation's trace.
-/
namespace Driver
open Ftp Ftp.Client

def tokClass (t : String) : String :=
  let c := (t.splitOn ":").headD ""
  if c.startsWith "o" && c.length = 2 then "o" else c

/-- which token classes take part in the correspondence check of a property -/
def projection (prop : String) : List String :=
  match prop with
  | "C02" => ["w", "rl", "ret", "thr", "st"]
  | "C03" => ["dr", "sk", "sink", "ret", "thr", "st", "o"]
  | "C04" => ["sr", "dw", "dsh", "dx", "rl", "w", "ret", "thr", "st"]
  | "C05" => ["sk", "sink", "dw", "ret", "thr"]
  | "C06" => ["ds", "dc", "db", "dl", "da", "w", "ret", "thr"]
  | "C07" => ["w", "rl", "ds", "dc", "db", "dl", "da", "dsh", "dx", "dr", "dw", "sk", "sr", "sink", "ret", "thr", "st"]
  | "C09" => ["w", "ret", "thr"]
  | "C10" => ["w", "ret", "thr", "st"]
  | "C12" => ["cb", "dr", "dw", "sk", "sr", "w", "dsh", "dx", "ret", "thr", "sink"]
  | "C13" => ["cc", "csh", "cx", "w", "rl", "ret", "thr", "st"]
  | "C14" => ["o", "w", "rl", "cc", "ret", "thr"]
  | "C17" => ["ds", "da", "dx", "st", "ret", "thr"]
  | _ => []      -- everything

def project (prop : String) (toks : List String) : List String :=
  match projection prop with
  | [] => toks
  | cls => toks.filter fun t => cls.contains (tokClass t)

def firstDiff : List String → List String → Nat → Option (Nat × String × String)
  | [], [], _ => none
  | a :: as, b :: bs, i => if a = b then firstDiff as bs (i + 1) else some (i, a, b)
  | a :: _, [], i => some (i, a, "<nothing>")
  | [], b :: _, i => some (i, "<nothing>", b)

def short (s : String) : String := if s.length > 160 then (s.take 160).toString ++ "…" else s

/-- replies decoded from raw bytes (a well-formed reply each) -/
def decodeRaw (raw : Bytes) : Option (Nat × Bytes) :=
  match Spec.decodeStream raw with
  | some [r] => some r
  | _ => none

def retReplies (ret : String) : Option (List String) :=
  -- the `code:hex` items of a return token
  match ret.splitOn ":" with
  | ["ret", "reply", c, h] => some [s!"{c}:{h}"]
  | "ret" :: "replies" :: _ :: _ :: rest => some (splitComma (":".intercalate rest))
  | "ret" :: "list" :: _ :: _ :: rest =>
    -- rest = items..., hextext, hexlines  (items contain ':' but no ',' at top level except separators)
    let s := ":".intercalate (rest.dropLast.dropLast)
    some (splitComma s)
  | ["ret", "size", c, h, _] => some [s!"{c}:{h}"]
  | ["ret", "mdtm", c, h, _] => some [s!"{c}:{h}"]
  | ["ret", "opt", "none"] => some []
  | ["ret", "opt", c, h] => some [s!"{c}:{h}"]
  | _ => none

def findTok (toks : List String) (pre : String) : Option String := toks.find? (·.startsWith pre)

structure MonCtx where
  prop : String
  views : List OpView

/-- the generic monitors; each returns a failure class -/
def monitorOp (prop : String) (v : OpView) : Option String :=
  let impl := v.impl
  let ret := (impl.find? fun t => t.startsWith "ret:" || t.startsWith "thr:" || t = "LIVELOCK" || t.startsWith "escaped").getD ""
  let st := ((findTok impl "st:").getD "").splitOn ":"
  let fds := (st.getD 5 "0").toNat?.getD 0
  let pend := st.getD 6 "x"
  let played : List (List Bytes) := (oraclesOf v.summary).played
  let generated : List String := (played.flatten.filterMap decodeRaw).map fun (c, t) => s!"{c}:{hexOfBytes t}"
  -- C08-style outcome check applies everywhere: only a return or an ftp_exception
  if ret = "LIVELOCK" then some "spins-after-end-of-stream"
  else if ret.startsWith "thr:other" || ret.startsWith "escaped" then some "other-exception-escaped"
  else match prop with
  | "C02" =>
    if ret.startsWith "thr:" then none
    else match retReplies ret with
      | none => none
      | some rs =>
        if v.op.name ∈ ["setmode", "setrfc", "addobs", "rmobs", "isconn", "faults"] then none
        else if v.op.name = "disc" && v.op.args.getD 0 "" != "1" then none
        else if rs != generated then some "returned-replies-are-not-the-replies-to-this-call"
        else if pend != "x" && pend != "x0a" then some "reply-left-unread"
        else none
  | "C17" => if fds != 0 then some "data-descriptor-left-open" else none
  | _ => none

def clientOp (args : List String) (impl : String) : Option Verdict := do
  let cfg ← args.head?
  let ops ← (args.drop 1).mapM parseOp
  let (w0, prop) := parseCfg cfg
  let toks := impl.splitOn " "
  if impl = "bad-op" then none
  else if toks.contains "HANG" then
    pure { model := "returns", viol := some "hang", tags := ["hang"] }
  else
    let segs := splitOps toks [] []
    let views ← viewsOf w0 ops segs
    -- correspondence on the property's projection
    let diffs := views.zipIdx.filterMap fun (v, k) =>
      match firstDiff (project prop v.impl) (project prop v.model) 0 with
      | some (i, a, b) => some s!"op{k}({v.op.name})#{i}: impl {short a} / model {short b}"
      | none => none
    let endTok := (toks.find? (·.startsWith "end:")).getD "end:?"
    let viol : Option String := (views.findSome? (monitorOp prop)) <|>
      (if prop = "C17" && endTok != "end:0" then some "descriptor-survives-destruction" else none)
    let names := views.map (·.op.name)
    let tags := (if names.contains "get" then ["get"] else []) ++ (if names.contains "put" then ["put"] else []) ++
      (if names.contains "list" then ["list"] else []) ++ (if views.any (fun v => v.impl.contains "thr:ftp") then ["throws"] else []) ++
      (if names.length ≤ 2 then ["short"] else ["history"])
    pure { model := if diffs.isEmpty then impl else "; ".intercalate (diffs.take 3), viol := viol, tags := tags }

end Driver
