import Ftp.Spec.Reader
import Driver.Pure
/- control-reader operations of the line protocol -/
namespace Driver
open Ftp Ftp.Reader

def renderStep (r : RecvR) (c : Ctl) : String :=
  match r with
  | .reply code text => s!"r:{code}:{hexOfBytes text}:{hexOfBytes c.buf}:{b01 (!c.closed)}"
  | .error => s!"x:{hexOfBytes c.buf}:{b01 (!c.closed)}"
  | .fuel => "FUEL"

def runSteps : Nat → Ctl → Net → List String → List String × Net
  | 0, _, net, acc => (acc.reverse, net)
  | n + 1, c, net, acc =>
    -- after a 421 reply the connection is closed: a further receive step fails on the closed socket
    if c.closed then runSteps n c net (renderStep .error c :: acc)
    else
      let (r, c', net') := recv c net
      runSteps n c' net' (renderStep r c' :: acc)

/-- `recv n fin chunks => steps | reads sizes | atend k` -/
def ctlOp (op : String) (args : List String) (impl : String) : Option Verdict :=
  match op, args with
  | "recv", [n, fin, chunks] | "recvwf", [n, fin, chunks] => do
    let n ← n.toNat?
    let cs ← hexList chunks
    let parts := impl.splitOn " | "
    let stepsS := parts.getD 0 ""
    let reads ← match (parts.getD 1 "").splitOn " " with
      | ["reads", l] => natList l
      | _ => none
    let atend ← match (parts.getD 2 "").splitOn " " with
      | ["atend", k] => k.toNat?
      | _ => none
    let stream := cs.flatten
    let net : Net := { stream := stream, sizes := reads, fin := if fin = "err" then .err else .eof }
    let (msteps, net') := runSteps n {} net []
    let model := s!"{" ".intercalate msteps} | reads {renderNatList reads} | atend {net'.readsAtEnd}"
    let isteps := stepsS.splitOn " "
    -- monitor, part 1 (C08): every step is a reply or an ftp_exception, the transport is asked at most once
    -- per call after the end of the stream
    let bad := isteps.find? (fun s => !(s.startsWith "r:" || s.startsWith "x:"))
    let v1 : Option String := match bad with
      | some s => some (if s = "LIVELOCK" then "spins-after-end-of-stream" else "escaped-" ++ s)
      | none => if atend > n then some "reads-after-end" else none
    -- monitor, part 2 (C01): on a well-formed stream the steps are exactly the replies of the reference decoder
    let v2 : Option String :=
      if op = "recvwf" then
        match Spec.decodeStream stream with
        | none => some "generator-stream-not-wellformed"
        | some rs =>
          let want := rs.map fun (c, t) => s!"r:{c}:{hexOfBytes t}"
          let got := (isteps.take rs.length).map fun s => ":".intercalate ((s.splitOn ":").take 3)
          if got != want then some "reply-framing"
          else match isteps.getD (rs.length - 1) "" |>.splitOn ":" with
            | [_, _, _, buf, _] => if rs.length > 0 && buf != "x" then some "bytes-left-after-last-reply" else none
            | _ => none
      else none
    let cutCr := (cs.dropLast.any fun c => c.getLast? = some 13)
    pure { model := model, viol := v1 <|> v2,
           tags := [if op = "recvwf" then (if cutCr then "wf-cut-after-cr" else if cs.length > 1 then "wf-cut" else "wf-whole")
                    else if stepsS.contains "r:" then "replies" else "errors"] }
  | _, _ => none

end Driver
