import Driver.Client
import Driver.Pure
import Ftp.Spec.Pure
/-
  E-conc: several clients of one process transferring at the same time (harness/h_conc.cpp).  The model has no state
  shared between two clients, so its prediction for every client is the one of the single-client theorems
  (`C03.download_delivers` / `listing_delivers`, `C04.upload_transmits`, C05 for the ASCII type): the sink holds exactly
  the server's bytes, the server receives exactly the source's bytes - whatever the other clients do meanwhile.
-/
namespace Driver
open Ftp

private def lenFnv (bs : Bytes) : String := s!"{bs.length}.{(fnv64 bs).toNat}"

private def textPayload (seed len : Nat) (ascii : Bool) : Bytes :=
  let p := genPayload seed len
  if ascii then p.map (fun b => if b = 13 then 120 else b) else p

/-- the listing text the scripted server of h_conc sends: lines `e<k> <letters>` terminated by CR LF -/
private partial def listingText (seed len : Nat) : Bytes :=
  let raw := (genPayload (seed + 77) len).toArray
  let rawLen := raw.size
  let rec go (r : Array Nat) (k : Nat) : Array Nat :=
    if r.size ≥ len then r else
    let r := r ++ (s!"e{k} ".toList.map (·.toNat)).toArray
    let rec letters (r : Array Nat) (i : Nat) : Array Nat :=
      if i ≥ 40 || r.size ≥ len then r
      else letters (r.push (97 + (raw.getD (r.size % rawLen) 0) % 26)) (i + 1)
    let r := letters r 0
    go ((r.push 13).push 10) (k + 1)
  (go #[] 0).toList

def concOp (args : List String) (impl : String) : Option Verdict := do
  match args with
  | [what, ttype, _mode, jobs] =>
    let ascii := ttype = "A"
    let js ← (jobs.splitOn ",").mapM fun j => match j.splitOn "." with
      | [a, b] => do let a ← a.toNat?; let b ← b.toNat?; pure (a, b)
      | _ => none
    let expect : List String := js.mapIdx fun i (seed, len) =>
      if what = "dl" then
        let p := textPayload seed len ascii
        let l := listingText seed (len / 4 + 10)
        let sink := if ascii then Spec.dlSpec p else p
        let text := if ascii then Spec.dlSpec l else l
        s!"t{i}:{lenFnv sink}:{lenFnv text}:p"
      else
        let src := textPayload (seed + 1000) len false
        let wire := if ascii then Spec.ulSpec src else src
        s!"t{i}:{lenFnv wire}:p"
    let model := ",".intercalate expect
    if what ≠ "dl" && what ≠ "ul" then none else
    pure { model := model,
           viol := if impl = model then none else some "clients-of-one-process-interfere",
           tags := [s!"{what}{ttype}", s!"n{js.length}"] }
  | _ => none

end Driver
