import Ftp.Model.ClientTls
import Driver.ClientMon
/-
  End-to-end (TLS) scenarios: real client over real sockets against the scripted FTPS server.
  Correspondence on the projection [observer events, plaintext/TLS class of every control write, handshake events,
  result, connected flag]; monitors of C11 and C18 on the raw wire bytes and the interposed OpenSSL calls.
-/
namespace Driver
open Ftp Ftp.Client Ftp.ClientTls

structure E2eCfg where
  tls : Bool := false
  resume : Bool := false
  verifyPeer : Bool := true
  ver : Nat := 13
  reqreuse : Bool := false
  prop : String := ""

def parseE2eCfg (cfg : String) : World × E2eCfg := Id.run do
  let mut w : World := { mode := .passive, ttype := .binary, rfc := true, observers := [0] }
  let mut c : E2eCfg := {}
  for kv in cfg.splitOn "," do
    if kv = "mode=a" then w := { w with mode := .active }
    else if kv = "rfc=0" then w := { w with rfc := false }
    else if kv = "type=A" then w := { w with ttype := .ascii }
    else if kv = "ip=6" then w := { w with v6 := true }
    else if kv = "tls=1" then c := { c with tls := true }
    else if kv = "resume=1" then c := { c with resume := true }
    else if kv = "verify=none" then c := { c with verifyPeer := false }
    else if kv = "ver=12" then c := { c with ver := 12 }
    else if kv = "reqreuse=1" then c := { c with reqreuse := true }
    else if kv.startsWith "prop=" then c := { c with prop := (kv.drop 5).toString }
  (w, c)

/-- is the byte string a sequence of complete TLS records (content type 20..23, version 3.x)? -/
partial def tlsRecords (b : Bytes) : Option (List Nat) :=
  match b with
  | [] => some []
  | t :: 3 :: v :: l1 :: l2 :: rest =>
    if 20 ≤ t && t ≤ 23 && v ≤ 4 then
      let len := l1 * 256 + l2
      if len ≤ rest.length then (tlsRecords (rest.drop len)).map (t :: ·)
      else if len ≤ 16384 + 2048 then some [t]        -- the capture holds only the first bytes of a long record
      else none
    else none
  | _ => none

structure RawSend where
  fd : Nat
  bytes : Bytes
  idx : Nat            -- position in the token list

def rawSends (toks : List String) : List RawSend :=
  toks.zipIdx.filterMap fun (t, i) =>
    match t.splitOn ":" with
    | ["raw", d, h, _] => (bytesOfHex h).map fun b => { fd := d.toNat?.getD 0, bytes := b, idx := i }
    | _ => none

/-- canonical projection of the implementation's tokens of one operation (given the control descriptor) -/
partial def canonE2e (ctlFd : Nat) (ctlSsl : Option Nat) : List String → List String
  | [] => []
  | t :: ts =>
    let f := t.splitOn ":"
    if tokClass t = "o" then
      if f.getD 1 "" = "q" then
        -- the write of this command: the next raw send on the control descriptor
        let cw := match (ts.find? fun u => u.startsWith s!"raw:{ctlFd}:") with
          | some r =>
            let b := (bytesOfHex ((r.splitOn ":").getD 2 "")).getD []
            (match tlsRecords b with
             | some (ty :: _) => if ty = 23 then ["cw:tls"] else [s!"cw:tlsrecord{ty}"]
             | _ => [s!"cw:plain:{hexOfBytes b}"])
          | none => ["cw:none"]
        t :: cw ++ canonE2e ctlFd ctlSsl ts
      else if f.getD 1 "" = "c" then s!"o0:c" :: canonE2e ctlFd ctlSsl ts
      else t :: canonE2e ctlFd ctlSsl ts
    else if f.headD "" = "sn" then
      -- one handshake token per SSL object, placed where the object is created
      let k := (f.getD 1 "0").toNat?.getD 0
      let ok := b01 (ts.contains s!"hs:{k}:1")
      (if some k = ctlSsl then s!"hs:c:{ok}" else s!"hs:d:{ok}") :: canonE2e ctlFd ctlSsl ts
    else if t.startsWith "ret:" || t.startsWith "thr:" then t :: canonE2e ctlFd ctlSsl ts
    else if f.headD "" = "st" then s!"st:{f.getD 1 "0"}" :: canonE2e ctlFd ctlSsl ts
    else canonE2e ctlFd ctlSsl ts

def renderRepliesE (rs : Replies) : String := s!"{b01 rs.isPositive}:{renderReplyList rs.list}"

def renderEvT : EvT → List String
  | .ev tls (.ctlWrite b) => [if tls then "cw:tls" else s!"cw:plain:{hexOfBytes b}"]
  | .ev _ (.ctlWriteFail _) => ["cw:none"]      -- announced, never written (closed socket / SSL layer without a session)
  | .ev _ (.obsConnected _ _ _) => ["o0:c"]
  | .ev _ (.obsRequest o c) => [s!"o{o}:q:{hexOfBytes c}"]
  | .ev _ (.obsReply o c t) => [s!"o{o}:r:{c}:{hexOfBytes t}"]
  | .ev _ (.obsFileList o t) => [s!"o{o}:l:{hexOfBytes t}"]
  | .ctlTlsHandshake ok => [s!"hs:c:{b01 ok}"]
  | .dataTlsHandshake _ _ ok => [s!"hs:d:{b01 ok}"]
  | _ => []

/-- in the model a request is announced and then written: bring the tokens into the order `o:q, cw` used by canonE2e -/
def modelTokens (tr : List EvT) : List String := tr.flatMap renderEvT

inductive RetE
  | reply (r : Reply) | replies (rs : Replies) | list (rs : Replies) (t : Bytes) | opt (r : Option Reply) | bool (b : Bool)

def renderRetE : Res RetE → String
  | .throw => "thr:ftp"
  | .ok (.reply r) => s!"ret:reply:{r.code}:{hexOfBytes r.text}"
  | .ok (.replies rs) => s!"ret:replies:{renderRepliesE rs}"
  | .ok (.list rs t) => s!"ret:list:{renderRepliesE rs}:{hexOfBytes t}"
  | .ok (.opt none) => "ret:opt:none"
  | .ok (.opt (some r)) => s!"ret:opt:{r.code}:{hexOfBytes r.text}"
  | .ok (.bool b) => s!"ret:bool:{b01 b}"

def liftRetE {α} (f : α → RetE) (m : MT α) : MT RetE := do let a ← m; pure (f a)

/-- active mode on a client whose control socket is closed (a 421 closed it; no disconnect / connect since): the set-up of
    a transfer begins with `control_connection::get_local_endpoint()`, which fails on the closed descriptor - the call throws
    before a listener is opened, before the observers are told of a command.  The verified model opens the listener first
    and fails at the write (its theorems about transfers assume a session that is in step; `C13.no_write_while_disconnected`
    holds for both orders); this order of the two failures is modelled here, in the driver. -/
def deadActiveSetup (op : SOp) (w : WorldT) : Bool :=
  (op.name = "get" || op.name = "put" || op.name = "list") && !w.base.connected && w.base.mode == .active

def e2eProgram (op : SOp) (w : WorldT) (tcpOk : Bool := true) : Option (MT RetE × WorldT) := do
  let a := op.args
  if deadActiveSetup op w then pure (throwT, w) else
  match op.name with
  | "connect" =>
    let cred ← if a.length ≥ 4 then (do let u ← hexArg a 2; let p ← hexArg a 3; pure (some (u, p))) else pure none
    if !tcpOk then pure (liftRetE .replies (connectFailT cred), w) else
    pure (liftRetE .replies (connectT (if w.base.v6 then str "::1" else str "127.0.0.1") 0 cred), w)
  | "login" => do let u ← hexArg a 0; let p ← hexArg a 1; pure (liftRetE .replies (loginT u p), w)
  | "logout" => pure (liftRetE .reply logoutT, w)
  | "noop" => pure (liftRetE .reply (lift (simple "NOOP" none)), w)
  | "pwd" => pure (liftRetE .reply (lift (simple "PWD" none)), w)
  | "cwd" => do let x ← hexArg a 0; pure (liftRetE .reply (lift (simple "CWD" (some x))), w)
  | "list" => pure (liftRetE (fun p => .list p.1 p.2) (fileListT none false), w)
  | "get" => do
    let path ← hexArg a 0
    let cbSpec := a.getD 2 "-"
    let polls := if cbSpec = "-" then [] else (cbSpec.drop 1).toString.toList.map (fun c => c == '1')
    pure (liftRetE .replies (if cbSpec = "-" then downloadT path else downloadCbT path), { w with base := { w.base with polls := polls } })
  | "put" => do
    let path ← hexArg a 1
    let data ← parsePayload (a.getD 2 "")
    let cbSpec := a.getD 3 "-"
    let polls := if cbSpec = "-" then [] else (cbSpec.drop 1).toString.toList.map (fun c => c == '1')
    pure (liftRetE .replies (if cbSpec = "-" then uploadT (a.getD 0 "STOR") path else uploadCbT (a.getD 0 "STOR") path),
          { w with base := { w.base with src := ⟨data, cyc (let chop := dotList (a.getD 4 "-"); if chop.isEmpty then [8192] else chop) (data.length + 2)⟩, polls := polls } })
  | "disc" => pure (liftRetE .opt (disconnectT (a.getD 0 "" = "1")), w)
  | "isconn" => pure (pure (.bool w.base.connected), w)
  | _ => none

structure E2eView where
  op : SOp
  impl : List String
  model : List String
  raw : List String          -- all tokens of the operation
  ctlFd : Nat
  ctlSsl : Option Nat

/-- oracles for the TLS model from the tokens of one operation -/
def hsOksOf (toks : List String) : List Bool :=
  -- one outcome per SSL object created in this operation: success iff its handshake was seen to complete
  toks.filterMap fun t => match t.splitOn ":" with
    | ["sn", k, _] => some (toks.contains s!"hs:{k}:1")
    | _ => none

def runE2eOp (w : WorldT) (op : SOp) (seg : List String) (gone : Bool := false) : Option (List String × WorldT) := do
  let o := oraclesOf seg
  let groups : List Group :=
    -- the server has dropped this control connection: whatever is sent, nothing comes back (end-of-file)
    if gone && op.name != "connect" then List.replicate 8 { raws := [] } else
    (List.range (max op.groups.length o.played.length)).map fun i =>
    let act := (op.groups[i]?).bind (·.act)
    match o.played[i]? with
    | some raws => { raws := raws, act := act }
    | none => { raws := ((op.groups[i]?).map (·.raws)).getD [] |>.filterMap id, act := act }
  -- data reads: only those on data descriptors matter; the e2e transport frames the control replies itself, so the
  -- reader oracle is "one delivery per reply group"
  let b0 : World := { w.base with
    script := groups, act := none, net := { w.base.net with sizes := [] },
    connectOks := (o.connectOks.drop (if op.name = "connect" then 1 else 0)), listenPorts := o.listenPorts,
    dataReads := (match groups.findSome? (fun g => match g.act with | some (.send p) => some p | _ => none) with
                  | some p => List.replicate ((p.length + 8191) / 8192) (some 8192) ++
                              [if (w.tlsCtx && (op.groups.any (·.truncate))) || (op.groups.any fun g => g.reset && g.act matches some (.send _)) then none else some 0]
                  | none => []),
    -- a TLS upload whose peer resets the data connection after reading: the TLS shutdown of the data connection fails
    closeFails := if w.tlsCtx && (op.groups.any fun g => g.reset && g.act == some .recv) then [true] else [],
    blockOks := [], conn := none, sinkFailAt := none, sinkWrites := 0, sink := [], sinkFlushes := 0,
    sinkSilent := true, src := ⟨[], []⟩, srcFailAt := none, srcReads := 0, polls := [], cancelled := false, peerGot := [], trace := [] }
  let w0 : WorldT := { w with base := b0, hsOks := hsOksOf seg, dataTls := false, trace := [] }
  -- did the TCP connection of a connect come about?  (dc:<n>:<endpoint>:1 in the implementation's trace)
  let tcpOk := op.name != "connect" || seg.any fun t => match t.splitOn ":" with | ["dc", _, _, "1"] => true | _ => false
  let (prog, w1) ← e2eProgram op w0 tcpOk
  let (res, w2) := prog w1
  pure (modelTokens w2.trace ++ [renderRetE res] ++ [s!"st:{b01 w2.base.connected}"], w2)

end Driver

namespace Driver
open Ftp Ftp.Client Ftp.ClientTls

def hexContains (hay needle : Bytes) : Bool :=
  !needle.isEmpty && (List.range (hay.length + 1 - needle.length)).any fun i => (hay.drop i).take needle.length == needle

/-- secrets of an operation that must never be visible on the wire when TLS is configured -/
def secretsOf (op : SOp) : List Bytes :=
  let h (i : Nat) := (bytesOfHex (op.args.getD i "")).toList
  (match op.name with
   | "connect" => h 2 ++ h 3
   | "login" => h 0 ++ h 1
   | "cwd" | "get" => h 0
   | "put" => h 1
   | _ => []).filter (·.length ≥ 6)

structure E2eState where
  w : WorldT
  ctlFd : Nat := 0
  ctlSsl : Option Nat := none
  ctlCtx : Option String := none
  protectedSession : Bool := false     -- AUTH TLS accepted and handshake done in the current connection
  serverGone : Bool := false           -- the server has dropped the current control connection
  tlsBroken : Bool := false            -- AUTH TLS was accepted on the current connection but its handshake failed
  ctlPeer : String := ""               -- address the current control connection was opened to

/-- C11 / C18 monitors on the tokens of one operation -/
def monitorE2e (cfg : E2eCfg) (st : E2eState) (op : SOp) (seg : List String) : Option String :=
  let raws := rawSends seg
  let ret := (seg.find? fun t => t.startsWith "ret:" || t.startsWith "thr:").getD ""
  let returned := ret.startsWith "ret:"
  let played := (oraclesOf seg).played
  let gen := played.flatten.filterMap decodeRaw
  if ret.startsWith "thr:other" then some "other-exception-escaped"
  else if cfg.prop = "C11" && cfg.tls then
    -- (1) what the server received in plaintext on the control connection
    let srvPlain := seg.filterMap fun t => if t.startsWith "srv-plain:" then bytesOfHex (t.drop 10).toString else none
    let plainAll := srvPlain.flatten
    let ctlRaw := raws.filter (·.fd == st.ctlFd)
    let ctlPlainSends := ctlRaw.filter fun r => (tlsRecords r.bytes).isNone
    if op.name = "connect" then
      let authIdx := idxOfTok seg (· = s!"o0:q:{hexOfBytes (str "AUTH TLS")}")
      let greetingNeg := (gen.head?.map fun (c, _) => c ≥ 400 && c != 120).getD false
      if plainAll != str "AUTH TLS\r\n" && !(greetingNeg && plainAll.isEmpty) && !(gen.isEmpty && plainAll.isEmpty) then some "plaintext-other-than-AUTH-TLS-on-control-connection"
      else if ctlPlainSends.any (fun r => r.bytes != str "AUTH TLS\r\n") then some "plaintext-other-than-AUTH-TLS-on-control-connection"
      else
        -- (2) after a positive answer the next bytes are a TLS handshake
        let authReply := gen.getD (if (gen.head?.map (·.1)) = some 120 then 2 else 1) (0, [])
        let accepted := authIdx.isSome && authReply.1 != 0 && authReply.1 < 400
        let afterAuth := ctlRaw.filter fun r => r.bytes != str "AUTH TLS\r\n"
        if accepted then
          (match afterAuth.head? with
           | some r => if (tlsRecords r.bytes).map (·.headD 0) != some 22 then some "no-tls-handshake-after-AUTH-TLS" else
               -- (6) a failed handshake stops the call
               if seg.contains s!"hs:{st.ctlSsl.getD 0}:0" && (returned || (seg.filter fun t => t.startsWith "o0:q:").length > 1) then some "commands-after-failed-handshake" else none
           | none => if returned then some "no-tls-handshake-after-AUTH-TLS" else none)
        else if authIdx.isSome && authReply.1 ≥ 400 then
          -- AUTH TLS refused: no credentials, no further command
          (if (seg.filter fun t => t.startsWith "o0:q:").length > 1 then some "commands-after-refused-AUTH-TLS"
           else if !returned then none else none)
        else none
    else
      -- a connection whose handshake failed after AUTH TLS was accepted must never carry commands in clear text
      if st.tlsBroken && !ctlPlainSends.isEmpty then some "plaintext-after-failed-control-handshake"
      -- every other operation of a protected session: nothing in plaintext, all control sends are TLS records
      else if st.protectedSession && (!plainAll.isEmpty || !ctlPlainSends.isEmpty) then some "plaintext-on-protected-control-connection"
      else
        -- data connections: the first bytes are a handshake, everything is a TLS record, after the transfer command was accepted
        let dataRaw := raws.filter (·.fd != st.ctlFd)
        let dataProtected := st.protectedSession
        if dataProtected && dataRaw.any (fun r => (tlsRecords r.bytes).isNone) then some "plaintext-on-data-connection"
        else if dataProtected && (dataRaw.head?.map fun r => (tlsRecords r.bytes).map (·.headD 0) != some 22) = some true then some "data-connection-does-not-start-with-handshake"
        else
          let mainIdx := lastIdxOfTok seg fun t => t.startsWith "o0:r:1"
          (match dataRaw.head?, mainIdx with
           | some r, some m => if dataProtected && r.idx < m then some "data-handshake-before-transfer-command-accepted" else none
           | some _, none => if dataProtected then some "data-handshake-before-transfer-command-accepted" else none
           | none, _ => none) <|>
          -- certificate verification at the data handshake: a data peer with a certificate of an unknown CA is refused
          -- whenever the control connection verifies its peer ("a handshake or certificate verification failure is reported")
          (if dataProtected && cfg.verifyPeer && (op.groups.any (·.dataOtherCert)) && returned then some "untrusted-data-peer-accepted" else none) <|>
          -- truncation: a protected download whose stream ends without close-notify is an error
          (if dataProtected && (op.groups.any (·.truncate)) && (op.name = "get" || op.name = "list") && returned then some "truncated-tls-stream-delivered-as-complete" else none) <|>
          -- a data handshake the peer never answers (it closes the connection instead) is a failed handshake, whatever the transfer
          (if dataProtected && (op.groups.any (·.earlyClose)) && returned then some "failed-data-handshake-not-reported" else none) <|>
          -- secrets never in the clear
          (if raws.any (fun r => (secretsOf op).any fun s => hexContains r.bytes s) then some "secret-visible-on-the-wire" else none)
  else if cfg.prop = "C11" then none
  else if cfg.prop = "C10" || cfg.prop = "C02" || cfg.prop = "C07" then
    let stTok := ((seg.find? fun t => t.startsWith "st:").getD "").splitOn ":"
    let generated := gen.map fun (c, t) => s!"{c}:{hexOfBytes t}"
    let retItems : Option (List String) := match ret.splitOn ":" with
      | "ret" :: "replies" :: _ :: rest => some (splitComma (":".intercalate rest))
      | "ret" :: "list" :: _ :: rest => some (splitComma (":".intercalate rest.dropLast))
      | ["ret", "reply", c, h] => some [s!"{c}:{h}"]
      | ["ret", "opt", "none"] => some []
      | ["ret", "opt", c, h] => some [s!"{c}:{h}"]
      | _ => none
    let sent : List Bytes := seg.filterMap fun t => if t.startsWith "o0:q:" then bytesOfHex (t.drop 5).toString else none
    let hsOk := seg.any fun t => match t.splitOn ":" with | ["hs", _, "1"] => true | _ => false
    let settings : Spec.Settings := { passive := st.w.base.mode == .passive, rfc2428 := st.w.base.rfc, asciiType := st.w.base.ttype == .ascii, v6 := st.w.base.v6 }
    let codes := gen.map (·.1)
    let noCtl := op.name = "isconn" || (op.name = "disc" && op.args.getD 0 "" != "1")
    if cfg.prop = "C10" then
      let h (i : Nat) := bytesOfHex (op.args.getD i "")
      let want : Option (List Bytes) :=
        if op.name = "connect" then
          let cred := if op.args.length ≥ 4 then (match h 2, h 3 with | some u, some p => some (u, p) | _, _ => none) else none
          some (if cfg.tls then Spec.connectLinesTls settings cred codes hsOk else Spec.expectedLines settings (.connect cred) codes [])
        else if op.name = "login" then
          (match h 0, h 1 with
           | some u, some p => some (if cfg.tls then Spec.loginLinesTls settings u p codes else Spec.loginLines settings u p codes)
           | _, _ => none)
        else (refCall op).map fun call => Spec.expectedLines settings call codes (sent.headD [])
      match want with
      | none => none
      | some w =>
        if returned && sent != w then some "commands-differ-from-reference"
        else if !returned && sent != w.take sent.length then some "commands-differ-from-reference"
        else if returned && !noCtl && retItems != some generated then some "not-every-reply-returned"
        else none
    else if cfg.prop = "C02" then
      (if returned && !noCtl && retItems != some generated then some "returned-replies-are-not-the-replies-to-this-call" else none)
    else
      -- C07: a refused transfer returns its replies (negative overall), moves nothing, leaks nothing
      if op.name != "get" && op.name != "put" && op.name != "list" then none
      else
        let refused := (gen.take 2).any fun (c, _) => c ≥ 400 && c != 421
        if !refused then none
        else if !returned then some "refused-transfer-threw"
        else if retItems != some generated then some "refused-transfer-replies-differ"
        else if (ret.splitOn ":").getD 2 "1" != "0" then some "refused-transfer-reported-positive"
        else if stTok.getD 2 "1" != "1" then some "refused-transfer-left-descriptor"
        else if (((seg.find? fun t => t.startsWith "sink:").map fun t => (t.splitOn ":").getD 1 "0").getD "0") != "0" then some "refused-transfer-moved-data"
        else none
  else if cfg.prop = "C03" || cfg.prop = "C04" then
    let payload := op.groups.findSome? fun g => match g.act with | some (.send p) => some p | _ => none
    let positive := (ret.splitOn ":").getD 2 "0" = "1"
    if !returned || !positive || op.groups.any (·.truncate) then none
    else if cfg.prop = "C03" && op.name = "get" then
      (match payload, (seg.find? fun t => t.startsWith "sink:") with
       | some p, some sk =>
         let f := sk.splitOn ":"
         let want := if st.w.base.ttype == .ascii then Spec.dlSpec p else p
         if f.getD 1 "" != toString want.length || f.getD 2 "" != toString (fnv64 want).toNat then some "download-bytes-differ"
         else if f.getD 3 "" != "1" then some "flush-count" else none
       | _, _ => none)
    else if cfg.prop = "C03" && op.name = "list" then
      (match payload with
       | some p =>
         let want := if st.w.base.ttype == .ascii then Spec.dlSpec p else p
         if ((ret.splitOn ":").getLast?.getD "") != hexOfBytes want then some "listing-text-differs" else none
       | none => none)
    else if cfg.prop = "C04" && op.name = "put" then
      (match parsePayload (op.args.getD 2 ""), (seg.find? fun t => t.startsWith "peer:") with
       | some data, some pk =>
         let f := pk.splitOn ":"
         let want := if st.w.base.ttype == .ascii then Spec.ulSpec data else data
         -- peer:<connected>:<sent>:<recvlen>:<fnv>:<eof>:<err>:<tls_ok>:<reused>
         if f.getD 3 "" != toString want.length || f.getD 4 "" != toString (fnv64 want).toNat then some "upload-bytes-differ"
         else if f.getD 5 "" != "1" then some "peer-saw-no-end-of-file"
         -- "after a TLS close-notify when TLS is on": the peer of a protected data connection saw the close-notify
         -- peer:...:<tls_ok>:<reused>:<close-notify seen>
         else if f.getD 7 "0" = "1" && f.getD 9 "1" != "1" then some "data-connection-closed-without-tls-close-notify"
         else none
       | _, _ => none)
    else none
  else if cfg.prop = "C06" then
    if op.name != "get" && op.name != "put" && op.name != "list" then none
    else
      let dcs := seg.filterMap fun t => match t.splitOn ":" with | ["dc", d, ep, _] => (if d.toNat? != some st.ctlFd then some ep else none) | _ => none
      let setupReply := gen.head?
      if st.w.base.mode == .passive then
        match setupReply with
        | none => none
        | some (c, t) =>
          if c ≥ 400 then (if dcs.isEmpty then none else some "connected-after-refused-setup")
          else
            let want : Option String :=
              if st.w.base.rfc then (Spec.epsvOf t).map fun p => s!"{st.ctlPeer}#{p}"
              else match Spec.pasvOf t with
                | some ([a, b, c, d], p) => some s!"{a}.{b}.{c}.{d}#{p}"
                | _ => none
            match want with
            | none => if dcs.isEmpty && ret = "thr:ftp" then none else some "malformed-passive-reply-not-refused"
            | some ep => if dcs = [ep] then none else some "connect-target-is-not-the-negotiated-endpoint"
      else
        match (seg.find? fun t => t.startsWith "db:"), (seg.findSome? fun t => if t.startsWith "o0:q:" then bytesOfHex (t.drop 5).toString else none) with
        | some db, some line =>
          let got := (db.splitOn ":").getD 3 ""
          let adv : Option String :=
            if line.take 5 = str "EPRT " then
              (Spec.decodeEprtArg (line.drop 5)).map fun (_, a, p) => s!"{String.ofList (a.map fun b => if b = 58 then ';' else Char.ofNat b)}#{p}"
            else if line.take 5 = str "PORT " then
              match Spec.decodePortArg (line.drop 5) with
              | some ([a, b, c, d], p) => some s!"{a}.{b}.{c}.{d}#{p}"
              | _ => none
            else none
          if adv != some got then some "advertised-endpoint-is-not-the-listening-socket" else none
        | _, _ => none
  else if cfg.prop = "C13" then
    let stTok := ((seg.find? fun t => t.startsWith "st:").getD "").splitOn ":"
    let conn := stTok.getD 1 "0" = "1"
    let generated := gen.map fun (c, t) => s!"{c}:{hexOfBytes t}"
    let retItems : List String := match ret.splitOn ":" with
      | "ret" :: "replies" :: _ :: rest => splitComma (":".intercalate rest)
      | _ => []
    if returned && retItems.any (·.startsWith "421:") && conn then some "connected-after-421"
    else if op.name = "connect" then
      (if returned && retItems.head? != generated.head? then some "first-reply-is-not-the-new-greeting"
       else if returned && !conn && (gen.all fun (c, _) => c != 421) then some "not-connected-after-connect"
       else
         -- a new connection is plaintext until AUTH TLS is negotiated again: its first bytes are not TLS records
         (match (rawSends seg).find? (fun r => r.fd == st.ctlFd) with
          | some r => if (tlsRecords r.bytes).isSome then some "new-connection-does-not-start-in-plaintext" else none
          | none => none))
    else if op.name = "disc" then
      (if conn then some "connected-after-disconnect"
       else if op.args.getD 0 "" != "1" && seg.any (fun t => t.startsWith "o0:q:") then some "nongraceful-disconnect-sent-a-command"
       else if (stTok.getD 2 "0") != "0" then some "socket-held-after-disconnect" else none)
    else if returned && retItems.any (·.startsWith "421:") && conn then some "connected-after-421"
    else none
  else if cfg.prop = "C17" then
    -- after any call, returned or thrown: exactly one socket if the client reports connected, none otherwise
    let stTok := ((seg.find? fun t => t.startsWith "st:").getD "").splitOn ":"
    match stTok with
    | [_, c, n] => if n != c then some "descriptor-count-differs-from-connected-state" else none
    | _ => none
  else if cfg.prop = "C18" && cfg.tls then
    if op.name = "connect" then none
    else
      let sns := seg.filterMap fun t => match t.splitOn ":" with | ["sn", k, c] => some (k, c) | _ => none
      let bad := sns.findSome? fun (k, c) =>
        if some c != st.ctlCtx && st.ctlCtx.isSome then some "data-connection-uses-another-context"
        else
          let ss := seg.find? fun t => t.startsWith s!"ss:{k}:"
          match ss with
          | some t => if !cfg.resume then some "session-offered-without-resumption"
                      else if (t.splitOn ":").getD 2 "0" != toString (st.ctlSsl.getD 0) then some "offered-session-is-not-the-control-session" else none
          | none => if cfg.resume then some "control-session-not-offered" else none
      -- same verification settings as the control connection: a data peer that presents a certificate of a CA the
      -- control connection does not trust must be refused when the control connection verifies its peer
      let otherCert := op.groups.any (·.dataOtherCert)
      let goodCtl := st.protectedSession
      (if otherCert && cfg.verifyPeer && goodCtl && returned then some "data-connection-accepted-a-certificate-the-control-connection-refuses" else none) <|>
      bad <|>
      (match (seg.find? fun t => t.startsWith "peer:") with
       | some pk =>
         let f := pk.splitOn ":"
         -- peer:<connected>:<sent>:<recvlen>:<fnv>:<eof>:<err>:<tls_ok>:<reused>
         if f.getD 7 "0" = "1" && st.protectedSession then
           (if cfg.resume && f.getD 8 "0" != "1" && !otherCert then some "server-did-not-see-session-reuse"
            else if !cfg.resume && f.getD 8 "0" = "1" then some "session-reused-without-resumption" else none)
         else none
       | none => none)
  else none

def e2eOp (args : List String) (impl : String) : Option Verdict := do
  let cfgS ← args.head?
  let ops ← (args.drop 1).mapM parseOp
  let (w0, cfg) := parseE2eCfg cfgS
  let toks := impl.splitOn " "
  if impl = "bad-op" then none
  else if toks.any (·.startsWith "HANG") then pure { model := "returns", viol := some "hang", tags := ["hang"] }
  else
    let segs := splitOps toks [] []
    let mut st : E2eState := { w := { base := w0, tlsCtx := cfg.tls, resume := cfg.resume } }
    let mut diffs : List String := []
    let mut viol : Option String := none
    let mut k := 0
    for (op, seg) in ops.zip (segs ++ List.replicate ops.length []) do
      -- the control descriptor / SSL object of this connection
      if op.name = "connect" then
        let fd := (seg.findSome? fun t => match t.splitOn ":" with | ["ds", n] => n.toNat? | _ => none).getD 0
        let ssl := seg.findSome? fun t => match t.splitOn ":" with | ["sn", n, _] => n.toNat? | _ => none
        let ctx := seg.findSome? fun t => match t.splitOn ":" with | ["sn", _, c] => some c | _ => none
        let peerEp := (seg.findSome? fun t => match t.splitOn ":" with | ["dc", _, ep, "1"] => some ((ep.splitOn "#").headD "") | _ => none).getD st.ctlPeer
        st := { st with ctlFd := fd, ctlSsl := ssl, ctlCtx := ctx, protectedSession := false, ctlPeer := peerEp }
      let seg' := seg.filter fun t => !isSummary t || t.startsWith "played:"
      let nPlayed := (seg.filter fun t => t.startsWith "o0:q:").length + (if op.name = "connect" then 1 else 0)
      let goneNow := st.serverGone || ((op.groups.take nPlayed).any (·.closes))
      match runE2eOp { st.w with peerAnswersCloseNotify := !goneNow } { op with groups := op.groups } (seg.map id) st.serverGone with
      | none => failure
      | some (model, w') =>
        -- truncated TLS stream: the model's data script ends in an error
        let impl := canonE2e st.ctlFd st.ctlSsl (seg'.filter fun t => !t.startsWith "played:")
        match firstDiff impl model 0 with
        | some (i, a, b) => diffs := diffs ++ [s!"op{k}({op.name})#{i}: impl {short a} / model {short b}"]
        | none => pure ()
        if viol.isNone then viol := monitorE2e cfg st op seg
        let prot := if op.name = "connect" then seg.contains s!"hs:{st.ctlSsl.getD 0}:1" else
                    if op.name = "disc" || op.name = "logout" then false else st.protectedSession
        let broken := if op.name = "connect" then seg.contains s!"hs:{st.ctlSsl.getD 0}:0" else st.tlsBroken
        st := { st with w := w', protectedSession := prot, tlsBroken := broken, serverGone := if op.name = "connect" then ((op.groups.take nPlayed).any (·.closes)) else goneNow }
      k := k + 1
    let names := ops.map (·.name)
    let tags := (if cfg.tls then ["tls"] else ["plain"]) ++ (if names.contains "get" then ["get"] else []) ++
      (if names.contains "put" then ["put"] else []) ++ (if cfg.resume then ["resume"] else []) ++ [s!"tls1{cfg.ver % 10}"]
    pure { model := if diffs.isEmpty then impl else "; ".intercalate (diffs.take 3), viol := viol, tags := tags }

end Driver
