import Ftp.Basic
/- hex / list codecs of the line protocol (harness <-> driver) -/
namespace Driver
open Ftp

def hexDigit (n : Nat) : Char := if n < 10 then Char.ofNat (48 + n) else Char.ofNat (87 + n)

def hexOfBytes (bs : Bytes) : String :=
  String.ofList ('x' :: bs.flatMap (fun b => [hexDigit (b / 16), hexDigit (b % 16)]))

def hexVal (c : Char) : Option Nat :=
  if '0' ≤ c ∧ c ≤ '9' then some (c.toNat - 48)
  else if 'a' ≤ c ∧ c ≤ 'f' then some (c.toNat - 87)
  else none

def bytesOfHexChars : List Char → Option Bytes
  | [] => some []
  | [_] => none
  | a :: b :: t =>
    match hexVal a, hexVal b, bytesOfHexChars t with
    | some x, some y, some r => some ((x * 16 + y) :: r)
    | _, _, _ => none

/-- `x6162` -> [97, 98]; `x` -> [] -/
def bytesOfHex (s : String) : Option Bytes :=
  match s.toList with
  | 'x' :: t => bytesOfHexChars t
  | _ => none

def splitComma (s : String) : List String := if s = "-" then [] else s.splitOn ","

def hexList (s : String) : Option (List Bytes) := (splitComma s).mapM bytesOfHex

def natList (s : String) : Option (List Nat) := (splitComma s).mapM String.toNat?

def renderHexList (l : List Bytes) : String :=
  if l.isEmpty then "-" else ",".intercalate (l.map hexOfBytes)

def renderNatList (l : List Nat) : String :=
  if l.isEmpty then "-" else ",".intercalate (l.map toString)

def b01 (b : Bool) : String := if b then "1" else "0"

end Driver
