import Ftp.Basic
/-
  Transcription of app/cmdline/src/command_parser.cpp over the contract of
  `std::istringstream >> std::string` and `>> std::quoted(std::string&)` in the "C" locale
  (libstdc++ 12, bits/quoted_string.h).
-/
namespace Ftp.Cmd
open Ftp

inductive Command
  | open_ | mode | active | passive | user | cd | cdup | ls | put | get | rename | pwd | mkdir
  | rmdir | del | stat | syst | type | binary | ascii | size | noop | rhelp | logout | close
  | help | exit
  deriving Repr, DecidableEq, Inhabited

/-- the chain of `boost::iequals` comparisons in `get_command_from_string`, in source order -/
def verbTable : List (String × Command) :=
  [("open", .open_), ("mode", .mode), ("active", .active), ("passive", .passive), ("user", .user),
   ("logout", .logout), ("close", .close), ("cd", .cd), ("cdup", .cdup), ("ls", .ls), ("put", .put),
   ("get", .get), ("rename", .rename), ("pwd", .pwd), ("mkdir", .mkdir), ("rmdir", .rmdir),
   ("del", .del), ("stat", .stat), ("syst", .syst), ("type", .type), ("binary", .binary),
   ("ascii", .ascii), ("size", .size), ("noop", .noop), ("rhelp", .rhelp), ("help", .help),
   ("exit", .exit)]

def Command.name (c : Command) : String :=
  match verbTable.find? (fun p => p.2 = c) with
  | some p => p.1
  | none => ""

/-- `std::toupper` in the "C" locale (what `boost::iequals` folds with) -/
def toUpper (b : Byte) : Byte := if 97 ≤ b && b ≤ 122 then b - 32 else b

def iequals (a b : Bytes) : Bool := a.map toUpper == b.map toUpper

def commandFromString (tok : Bytes) : Option Command :=
  match verbTable.find? (fun p => iequals tok (str p.1)) with
  | some p => some p.2
  | none => none

/-- `std::isspace` in the "C" locale -/
def isSpace (b : Byte) : Bool := b = 32 || (9 ≤ b && b ≤ 13)

def skipWs : Bytes → Bytes
  | [] => []
  | c :: t => if isSpace c then skipWs t else c :: t

/-- characters up to the next white space: (token, rest) -/
def takeWord : Bytes → Bytes × Bytes
  | [] => ([], [])
  | c :: t => if isSpace c then ([], c :: t) else let (w, r) := takeWord t; (c :: w, r)

/-- the body of a quoted string, after the opening delimiter: `some (string, rest)` when the closing
    delimiter was found, `none` when the input ended first (extraction fails). -/
def quotedBody : Bytes → Bool → Bytes → Option (Bytes × Bytes)
  | [], _, _ => none
  | c :: t, true, acc => quotedBody t false (acc ++ [c])       -- the character after an escape
  | c :: t, false, acc =>
    if c = 92 then quotedBody t true acc
    else if c = 34 then some (acc, t)
    else quotedBody t false (acc ++ [c])

/-- one `iss >> std::quoted(arg)`: `some (arg, rest)` or `none` (stream failed) -/
def extractQuoted (s : Bytes) : Option (Bytes × Bytes) :=
  match skipWs s with
  | [] => none
  | c :: t =>
    if c = 34 then quotedBody t false []
    else let (w, r) := takeWord (c :: t); some (w, r)

/-- the `while (iss >> std::quoted(arg))` loop, on fuel (every successful extraction consumes input) -/
def argsLoop : Nat → Bytes → List Bytes
  | 0, _ => []
  | fuel + 1, s =>
    match extractQuoted s with
    | none => []
    | some (a, rest) => a :: argsLoop fuel rest

inductive Result
  | ok (c : Command) (args : List Bytes)
  | invalid
  deriving Repr, DecidableEq

def parseCommand (line : Bytes) : Result :=
  let (w, rest) := takeWord (skipWs line)
  match commandFromString w with
  | none => .invalid
  | some c => .ok c (argsLoop (line.length + 1) rest)

end Ftp.Cmd
