import Ftp.Model.Client
/-
  The TLS layer of src/client.cpp on top of the plain model (`Ftp.Client`):
    client::connect (AUTH TLS, set_ssl, ssl_handshake), process_login (PBSZ 0, PROT P), logout (ssl_shutdown,
    set_ssl(nullptr)), disconnect, ssl_handshake_data_connection in the four process_*_command functions,
    data_connection::disconnect with an SSL layer, control_connection::disconnect with an SSL layer.

  Every event of the plain model is recorded together with the state of the control channel at that moment
  (`tls = true`: the bytes travel inside the TLS session).  Handshake outcomes are oracles.
-/
namespace Ftp.ClientTls
open Ftp Ftp.Client Ftp.Endpoint

inductive EvT
  | ev (ctlTls : Bool) (e : Ev)                    -- an event of the plain model; `ctlTls` = control channel protected?
  | ctlTlsHandshake (ok : Bool)
  | ctlTlsShutdown
  | dataTlsHandshake (d : Nat) (offered : Bool) (ok : Bool)   -- `offered`: the control session is offered for resumption
  | dataTlsShutdown (d : Nat)
  deriving Repr, DecidableEq

structure WorldT where
  base : World
  tlsCtx : Bool := false          -- an SSL context was given to the client
  resume : Bool := false          -- ... created with session resumption
  ctlSsl : Bool := false          -- the control socket is an ssl_socket (set_ssl was called)
  ctlTls : Bool := false          -- ... and it completed its handshake: the control channel is protected
  dataTls : Bool := false         -- the data socket of the current operation is an ssl_socket
  hsOks : List Bool := []         -- outcomes of the successive TLS handshakes (control and data)
  peerAnswersCloseNotify : Bool := true   -- does the server answer the close-notify of the control channel?
  trace : List EvT := []
  deriving Repr

def MT (α : Type) := WorldT → Res α × WorldT

instance : Monad MT where
  pure a := fun w => (.ok a, w)
  bind m f := fun w =>
    match m w with
    | (.ok a, w') => f a w'
    | (.throw, w') => (.throw, w')

def throwT {α} : MT α := fun w => (.throw, w)
def getT : MT WorldT := fun w => (.ok w, w)
def modifyT (f : WorldT → WorldT) : MT Unit := fun w => (.ok (), f w)
def emitT (e : EvT) : MT Unit := modifyT fun w => { w with trace := w.trace ++ [e] }

/-- the events up to and including the close of the control connection -/
def uptoClose : List Ev → List Ev
  | [] => []
  | e :: rest => if e = .ctlClose then [e] else e :: uptoClose rest

/-- the events strictly before the first command write, and the bytes of that write (`none`: nothing is written) -/
def splitAtFirstCtlWrite : List Ev → Option (List Ev × Bytes)
  | [] => none
  | .ctlWrite b :: _ => some ([], b)
  | e :: rest =>
    match splitAtFirstCtlWrite rest with
    | some (pre, b) => some (e :: pre, b)
    | none => none

/-- the control socket has an SSL layer whose handshake did not complete (`connectT` threw at the handshake): nothing
    can be written on it any more -/
def WorldT.broken (w : WorldT) : Bool := w.ctlSsl && !w.ctlTls

/-- run a program of the plain model; its events are recorded with the current state of the control channel -/
def lift {α} (m : M α) : MT α := fun w =>
  let (r, b) := m { w.base with trace := [] }
  -- a write through an SSL layer whose handshake failed: no byte leaves the process, the call throws at its first
  -- command write - after the observers were told about the request; the plain state is left as it was
  -- (the tag `w.ctlTls` is `false` here)
  match (if w.broken then splitAtFirstCtlWrite b.trace else none) with
  | some (pre, cmd) =>
    (.throw, { w with trace := w.trace ++ (pre ++ [Ev.ctlWriteFail cmd]).map (EvT.ev w.ctlTls) })
  | none =>
  -- the 421 branch of control_connection::recv closes the connection through the SSL layer as well: when the peer
  -- has gone without answering the close-notify, the TLS shutdown reports an error - after the socket was closed
  -- and before the reply is passed on (the observers are not told)
  let closeFails := w.ctlSsl && w.base.connected && !b.connected && !w.peerAnswersCloseNotify
  let evs := if closeFails then uptoClose b.trace else b.trace
  let w' : WorldT := { w with base := { b with trace := w.base.trace }, trace := w.trace ++ evs.map (EvT.ev w.ctlTls) }
  if closeFails then (.throw, w') else (r, w')

def scopedT {α} (body : MT α) (cleanup : MT Unit) : MT α := fun w =>
  match body w with
  | (.ok a, w') => (match cleanup w' with
      | (.ok _, w'') => (.ok a, w'')
      | (.throw, w'') => (.throw, w''))
  | (.throw, w') => (.throw, (cleanup w').2)

def nextHandshake : MT Bool := do
  let w ← getT
  modifyT fun w => { w with hsOks := w.hsOks.tail }
  pure (w.hsOks.head?.getD true)

/-! ### control channel -/

def processCommandIntoT (cmd : Bytes) (rs : Replies) : MT (Reply × Replies) := lift (processCommandInto cmd rs)

/-- `process_login` with a TLS context: PBSZ 0 and PROT P before TYPE -/
def processLoginT (user pass : Bytes) (rs : Replies) : MT (Reply × Replies) := do
  let cu ← lift (mkCmd "USER" (some user))
  let cp ← lift (mkCmd "PASS" (some pass))
  let (r, rs) ← processCommandIntoT cu rs
  let (r, rs) ← if r.code == 331 then processCommandIntoT cp rs else pure (r, rs)
  if r.isNegative then pure (r, rs)
  else
    let w ← getT
    let go : MT (Reply × Replies) := processCommandIntoT (typeCommand w.base.ttype) rs
    if w.tlsCtx then
      let (r, rs) ← processCommandIntoT (str "PBSZ 0") rs
      if r.isNegative then pure (r, rs)
      else
        let (r, rs) ← processCommandIntoT (str "PROT P") rs
        if r.isNegative then pure (r, rs)
        else processCommandIntoT (typeCommand w.base.ttype) rs
    else go

def loginT (user pass : Bytes) : MT Replies := do
  let (_, rs) ← processLoginT user pass Replies.empty
  pure rs

/-- `client::connect` with a TLS context -/
def connectT (host : Bytes) (port : Nat) (cred : Option (Bytes × Bytes)) : MT Replies := do
  match cred with
  | some (u, p) => let _ ← lift (mkCmd "USER" (some u)); let _ ← lift (mkCmd "PASS" (some p)); pure ()
  | none => pure ()
  -- a connection that is still open is abandoned first: closed without TLS or TCP shutdown
  let w0 ← getT
  if w0.base.connected then
    emitT (.ev w0.ctlTls .ctlClose)
    modifyT fun w => { w with base := { w.base with connected := false } }
  -- a new connection is plain until the handshake is performed
  modifyT fun w => { w with ctlTls := false, ctlSsl := false }
  lift (do
    modifyW fun w =>
      let g : Group := match w.script with
        | g :: _ => g
        | [] => { raws := [] }
      { w with ctl := {}, connected := true, script := w.script.tail, net := { w.net with stream := g.raws.flatten } }
    emit (.ctlConnect host port)
    forObservers (fun o => .obsConnected o host port))
  let (r, rs) ← lift (recvInto Replies.empty)
  let (r, rs) ← if r.code == 120 then lift (recvInto rs) else pure (r, rs)
  if r.isNegative then pure rs
  else
    let w ← getT
    let afterTls (rs : Replies) : MT Replies :=
      match cred with
      | some (u, p) => do let (_, rs) ← processLoginT u p rs; pure rs
      | none => pure rs
    if w.tlsCtx then
      let (r, rs) ← processCommandIntoT (str "AUTH TLS") rs
      if r.isNegative then pure rs
      else
        modifyT fun w => { w with ctlSsl := true }       -- set_ssl: the socket is wrapped before the handshake
        let ok ← nextHandshake
        emitT (.ctlTlsHandshake ok)
        if !ok then throwT
        else
          modifyT fun w => { w with ctlTls := true }
          afterTls rs
    else afterTls rs

/-- a `connect` whose TCP connection cannot be established (the name does not resolve, the connection is refused): what
    `connectT` does before it opens the new connection - the argument checks, the connection that is still open
    abandoned, the SSL layer of the old connection removed - and then the error instead of the new connection -/
def connectFailT (cred : Option (Bytes × Bytes)) : MT Replies := do
  match cred with
  | some (u, p) => let _ ← lift (mkCmd "USER" (some u)); let _ ← lift (mkCmd "PASS" (some p)); pure ()
  | none => pure ()
  let w0 ← getT
  if w0.base.connected then
    emitT (.ev w0.ctlTls .ctlClose)
    modifyT fun w => { w with base := { w.base with connected := false } }
  modifyT fun w => { w with ctlTls := false, ctlSsl := false }
  throwT

/-- `control_connection::disconnect` with an SSL layer: TLS shutdown, TCP shutdown, close - always all three -/
def ctlCloseT : MT Unit := do
  let w ← getT
  if w.ctlSsl then emitT .ctlTlsShutdown
  fun w' => ((lift ctlClose) { w' with peerAnswersCloseNotify := true }).map id (fun x => { x with peerAnswersCloseNotify := w'.peerAnswersCloseNotify })
  -- a TLS shutdown on an engine that never completed its handshake, or whose peer has gone without answering the
  -- close-notify, reports an error - after the socket was closed
  -- ... as does a shutdown while application data of the peer is still unread in the TLS stream
  if w.ctlSsl && (!w.ctlTls || !w.peerAnswersCloseNotify || !w.base.net.stream.isEmpty) then throwT

def logoutT : MT Reply := do
  let r ← lift (simple "REIN" none)
  let w ← getT
  if r.isPositive && w.ctlSsl && w.base.connected then
    emitT .ctlTlsShutdown
    modifyT fun w => { w with ctlTls := false, ctlSsl := false }
  pure r

def disconnectT (graceful : Bool) : MT (Option Reply) := do
  let r ← if graceful then (do let r ← lift (do let c ← mkCmd "QUIT" none; processCommand c); pure (some r)) else pure none
  let w ← getT
  if w.base.connected then ctlCloseT
  modifyT fun w => { w with ctlTls := false, ctlSsl := false }
  pure r

/-! ### data connections -/

/-- `ssl_handshake_data_connection`: the control session is offered iff the context was created with resumption -/
def dataHandshake : MT Unit := do
  let w ← getT
  if w.tlsCtx then
    let d := match w.base.conn with | some c => c.sock.getD 0 | none => 0
    let ok ← nextHandshake
    emitT (.dataTlsHandshake d w.resume ok)
    modifyT fun w => { w with dataTls := true }
    if !ok then throwT

/-- `data_connection::disconnect` with an SSL layer -/
def dataDisconnectT (graceful : Bool) : MT Unit := do
  let w ← getT
  if w.dataTls then
    match w.base.conn with
    | some c => (match c.sock with | some d => emitT (.dataTlsShutdown d) | none => pure ())
    | none => pure ()
  lift (dataDisconnect graceful)

def processEpsvT (cmd : Bytes) (rs : Replies) : MT (Bool × Replies) := do
  let (r, rs) ← processCommandIntoT (str "EPSV") rs
  if r.isNegative then pure (false, rs)
  else
    match parseEpsv r.text with
    | none => throwT
    | some port =>
      let w ← getT
      lift (dataConnect (addrText w.base) port)
      let (r, rs) ← processCommandIntoT cmd rs
      if r.isNegative then
        lift (dataDisconnect true)
        pure (false, rs)
      else
        dataHandshake
        pure (true, rs)

def processPasvT (cmd : Bytes) (rs : Replies) : MT (Bool × Replies) := do
  let (r, rs) ← processCommandIntoT (str "PASV") rs
  if r.isNegative then pure (false, rs)
  else
    match parsePasv r.text with
    | none => throwT
    | some (ip, port) =>
      lift (dataConnect ip port)
      let (r, rs) ← processCommandIntoT cmd rs
      if r.isNegative then
        lift (dataDisconnect true)
        pure (false, rs)
      else
        dataHandshake
        pure (true, rs)

def processActiveT (eprt : Bool) (cmd : Bytes) (rs : Replies) : MT (Bool × Replies) := do
  let port ← lift dataListen
  let w ← getT
  let fam : Family := if w.base.v6 then .v6 else .v4
  let c ← if eprt then pure (fmtEprt fam (addrText w.base) port)
          else match fmtPort fam (addrText w.base) port with
            | some c => pure c
            | none => throwT
  let (r, rs) ← processCommandIntoT c rs
  if r.isNegative then pure (false, rs)
  else
    let (r, rs) ← processCommandIntoT cmd rs
    if r.isNegative then pure (false, rs)
    else
      lift dataAccept
      dataHandshake
      pure (true, rs)

def createDataConnectionT (cmd : Bytes) (rs : Replies) : MT (Bool × Replies) := do
  let w ← getT
  modifyT fun w => { w with dataTls := false }
  match w.base.mode, w.base.rfc with
  | .passive, true => processEpsvT cmd rs
  | .passive, false => processPasvT cmd rs
  | .active, true => processActiveT true cmd rs
  | .active, false => processActiveT false cmd rs

def finishTransferT (rs : Replies) : MT Replies := do
  dataDisconnectT true
  let (_, rs) ← lift (recvInto rs)
  pure rs

def cleanupT : MT Unit := do
  lift destroyConn
  modifyT fun w => { w with dataTls := false }

def downloadT (path : Bytes) : MT Replies :=
  scopedT (do
    let c ← lift (mkCmd "RETR" (some path))
    let (ready, rs) ← createDataConnectionT c Replies.empty
    if ready then
      let w ← getT
      lift (dataRecv false w.base.ttype)
      finishTransferT rs
    else pure rs) cleanupT

def uploadT (verb : String) (path : Bytes) : MT Replies :=
  scopedT (do
    let c ← lift (mkCmd verb (some path))
    let (ready, rs) ← createDataConnectionT c Replies.empty
    if ready then
      let w ← getT
      lift (dataSend false w.base.ttype)
      finishTransferT rs
    else pure rs) cleanupT

/-! ### transfers with a callback (cancellation) on a TLS session: ABOR, then the data connection is closed without the
    TCP shutdown (`disconnect(false)` still closes the TLS layer first) -/

def finishTransferCbT (rs : Replies) : MT Replies := do
  let cancelled ← lift poll
  if cancelled then
    let rs ← lift (processAbort rs)
    dataDisconnectT false
    pure rs
  else finishTransferT rs

def downloadCbT (path : Bytes) : MT Replies :=
  scopedT (do
    let c ← lift (mkCmd "RETR" (some path))
    let (ready, rs) ← createDataConnectionT c Replies.empty
    if ready then
      let w ← getT
      lift (dataRecv true w.base.ttype)
      finishTransferCbT rs
    else pure rs) cleanupT

def uploadCbT (verb : String) (path : Bytes) : MT Replies :=
  scopedT (do
    let c ← lift (mkCmd verb (some path))
    let (ready, rs) ← createDataConnectionT c Replies.empty
    if ready then
      let w ← getT
      lift (dataSend true w.base.ttype)
      finishTransferCbT rs
    else pure rs) cleanupT

def fileListT (path : Option Bytes) (names : Bool) : MT (Replies × Bytes) :=
  scopedT (do
    let c ← lift (mkCmd (if names then "NLST" else "LIST") path)
    let (ready, rs) ← createDataConnectionT c Replies.empty
    if ready then
      let w ← getT
      lift (modifyW fun b => { b with sinkSilent := true, sink := [], sinkFailAt := none })
      lift (dataRecv false w.base.ttype)
      let w ← getT
      lift (do emit (.listing w.base.sink); forObservers (fun o => .obsFileList o w.base.sink))
      dataDisconnectT true
      let (_, rs) ← lift (recvInto rs)
      pure (rs, w.base.sink)
    else pure (rs, [])) cleanupT

end Ftp.ClientTls
