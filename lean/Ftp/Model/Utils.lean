import Ftp.Basic
/-
  Transcription of src/utils.cpp (`try_parse_uint8/16/32/64`, `split_string`).
-/
namespace Ftp.Utils
open Ftp

def u64max : Nat := 18446744073709551615

/-- The loop of `try_parse_uint64`; `v` is the accumulator `value`. -/
def parseU64Loop : Bytes → Nat → Option Nat
  | [], v => some v
  | ch :: rest, v =>
    if ch < 48 || ch > 57 then none
    else
      let digit := ch - 48
      if v > u64max / 10 then none
      else
        let v10 := v * 10
        if v10 > u64max - digit then none
        else parseU64Loop rest (v10 + digit)

def parseU64 (s : Bytes) : Option Nat :=
  if s.isEmpty then none else parseU64Loop s 0

def parseBounded (max : Nat) (s : Bytes) : Option Nat :=
  match parseU64 s with
  | none => none
  | some v => if v > max then none else some v

def parseU8 := parseBounded 255
def parseU16 := parseBounded 65535
def parseU32 := parseBounded 4294967295

/-- `split_string`: pieces between delimiters; a trailing empty piece is not produced. -/
def splitGo (del : Byte) : Bytes → Bytes → List Bytes
  | [], _ => []
  | ch :: rest, cur =>
    if ch = del then cur :: splitGo del rest []
    else if rest.isEmpty then [cur ++ [ch]]
    else splitGo del rest (cur ++ [ch])

def splitString (s : Bytes) (del : Byte) : List Bytes := splitGo del s []

end Ftp.Utils
