import Ftp.Basic
/-
  Transcription of src/ascii_istream.cpp (upload converter) and src/ascii_ostream.cpp
  (download converter), POSIX branch.
-/
namespace Ftp.Ascii
open Ftp

/-! ### the source behind `ascii_istream` -/

/-- An honest `input_stream`: hands out `data` in pieces; `sched` are the sizes it would like to
    return on successive calls (each call returns at least one byte while data remains, at most
    what was asked); after the data it returns 0 forever. -/
structure Src where
  data : Bytes
  sched : List Nat
  deriving Repr

def Src.read (s : Src) (n : Nat) : Bytes × Src :=
  let want := match s.sched with
    | [] => n
    | k :: _ => if k = 0 then 1 else k
  let got := min want n
  (s.data.take got, { data := s.data.drop got, sched := s.sched.tail })

/-! ### `ascii_istream` -/

structure IState where
  needLf : Bool
  skipLf : Bool
  internal : Bytes      -- the unread part of `internal_` (`internal_pos_ .. internal_size_`)
  bufSize : Nat
  deriving Repr

def IState.init (bufSize : Nat) : IState := ⟨false, false, [], bufSize⟩

/-- The inner `while (internal_pos_ < internal_size_)` loop.  `out` is what has been put into the
    caller's buffer so far (`pos = out.length`). Precondition (kept by the callers): `out.length < size`. -/
def inner (size : Nat) : Bytes → Bytes → Bool → Bool → Bytes × Bytes × Bool × Bool
  | [], out, skip, need => ([], out, skip, need)
  | ch :: rest, out, skip, need =>
    let r : Bytes × Bool × Bool :=
      if ch = CR then
        -- append_crlf; skip_linefeed_ = true
        if out.length + 1 ≥ size then (out ++ [CR], true, true) else (out ++ [CR, LF], true, need)
      else if ch = LF then
        if !skip then
          (if out.length + 1 ≥ size then (out ++ [CR], false, true) else (out ++ [CR, LF], false, need))
        else (out, false, need)
      else (out ++ [ch], false, need)
    if r.1.length ≥ size then (rest, r.1, r.2.1, r.2.2)
    else inner size rest r.1 r.2.1 r.2.2

/-- The outer `while (pos < size)` loop, on fuel. -/
def outer (size : Nat) : Nat → IState → Src → Bytes → IState × Src × Bytes
  | 0, st, src, out => (st, src, out)
  | fuel + 1, st, src, out =>
    if out.length ≥ size then (st, src, out)
    else
      let (internal, src, stop) :=
        if st.internal.isEmpty then
          let (got, src') := src.read st.bufSize
          (got, src', got.isEmpty)
        else (st.internal, src, false)
      if stop then ({ st with internal := [] }, src, out)
      else
        let (rest, out', skip, need) := inner size internal out st.skipLf st.needLf
        outer size fuel { st with internal := rest, skipLf := skip, needLf := need } src out'

/-- One call `ascii_istream::read(buf, size)`; returns the bytes put into `buf`. -/
def read (st : IState) (src : Src) (size : Nat) : Bytes × IState × Src :=
  let (out0, st0) :=
    if 0 < size && st.needLf then ([LF], { st with needLf := false }) else ([], st)
  let (st', src', out) := outer size (st0.internal.length + src.data.length + 1) st0 src out0
  (out, st', src')

/-- The caller's loop (`data_connection::send`): read with the given buffer sizes (8192 once the
    list is exhausted) until a read returns nothing.  Returns the concatenated output and whether
    the loop finished within the fuel. -/
def drain : Nat → IState → Src → List Nat → Bytes → Bytes × Bool
  | 0, _, _, _, acc => (acc, false)
  | fuel + 1, st, src, sizes, acc =>
    let size := match sizes with
      | [] => 8192
      | k :: _ => if k = 0 then 1 else k
    let (out, st', src') := read st src size
    if out.isEmpty then (acc, true)
    else drain fuel st' src' sizes.tail (acc ++ out)

def upload (bufSize : Nat) (data : Bytes) (sched sizes : List Nat) : Bytes × Bool :=
  drain (2 * data.length + 2) (IState.init bufSize) ⟨data, sched⟩ sizes []

/-! ### `ascii_ostream` -/

/-- One `ascii_ostream::write`: the bytes handed to the sink and the new `prev_cr_`. -/
def writeGo : Bytes → Bool → Bytes → Bytes × Bool
  | [], prev, out => (out, prev)
  | ch :: rest, prev, out =>
    if ch = CR then
      if prev then writeGo rest prev (out ++ [CR]) else writeGo rest true out
    else if ch = LF then writeGo rest false (out ++ [LF])
    else writeGo rest false (if prev then out ++ [CR, ch] else out ++ [ch])

def write (prev : Bool) (chunk : Bytes) : Bytes × Bool := writeGo chunk prev []

def flush (prev : Bool) : Bytes := if prev then [CR] else []

/-- all sink bytes for a sequence of writes followed by flush -/
def download : List Bytes → Bool → Bytes → Bytes
  | [], prev, acc => acc ++ flush prev
  | c :: cs, prev, acc =>
    let (o, p) := write prev c
    download cs p (acc ++ o)

end Ftp.Ascii
