import Ftp.Model.Utils
import Ftp.Model.Reply
/-
  Transcription of the static helpers of src/client.cpp:
  try_parse_epsv_reply, try_parse_pasv_reply, make_eprt_command, make_port_command,
  make_command, make_type_command.
-/
namespace Ftp.Endpoint
open Ftp Ftp.Utils

/-- `find(ch)` + `substr`: the text before the first `ch` and the text after it -/
def splitFirst (ch : Byte) : Bytes → Option (Bytes × Bytes)
  | [] => none
  | c :: t =>
    if c = ch then some ([], t)
    else match splitFirst ch t with
      | some (pre, post) => some (c :: pre, post)
      | none => none

/-- `rfind(ch)` + `substr`: the text before the last `ch` and the text after it -/
def splitLast (ch : Byte) : Bytes → Option (Bytes × Bytes)
  | [] => none
  | c :: t =>
    match splitLast ch t with
    | some (pre, post) => some (c :: pre, post)
    | none => if c = ch then some ([], t) else none

/-- the text between the first `(` and the last `)` of the reply (`begin = find('(')`, `end = rfind(')')`,
    refused unless `begin < end`): `some (pre, inner, post)` with `text = pre ++ "(" ++ inner ++ ")" ++ post`. -/
def parenGroup (t : Bytes) : Option (Bytes × Bytes × Bytes) :=
  match splitFirst 40 t with
  | none => none
  | some (pre, afterOpen) =>
    -- the last `)` of the whole text lies after the `(` iff `afterOpen` contains a `)`
    match splitLast 41 afterOpen with
    | none => none
    | some (inner, post) => some (pre, inner, post)

/-- `try_parse_epsv_reply` on the reply text: `(<d><d><d><tcp-port><d>)`. -/
def parseEpsv (t : Bytes) : Option Nat :=
  match parenGroup t with
  | none => none
  | some (_, inner, _) =>
    -- `end - begin < 6`
    if inner.length < 5 then none
    else
      let d := inner.getD 0 0
      if d < 33 || d > 126 then none
      else if inner.getD 1 0 != d || inner.getD 2 0 != d || inner.getLast? != some d then none
      else parseU16 ((inner.drop 3).dropLast)

/-- the dotted quad built from four parsed octets -/
def dotted (a b c d : Nat) : Bytes :=
  toDec a ++ [46] ++ toDec b ++ [46] ++ toDec c ++ [46] ++ toDec d

/-- `try_parse_pasv_reply`: `(h1,h2,h3,h4,p1,p2)`; result = (ip text, port). -/
def parsePasv (t : Bytes) : Option (Bytes × Nat) :=
  match parenGroup t with
  | none => none
  | some (_, a, _) =>
    -- `begin + 1 >= end`
    if a.isEmpty then none
    else if a.count 44 != 5 then none
    else
      match splitString a 44 with
      | [t0, t1, t2, t3, t4, t5] =>
        match parseU8 t0, parseU8 t1, parseU8 t2, parseU8 t3, parseU8 t4, parseU8 t5 with
        | some h1, some h2, some h3, some h4, some p1, some p2 =>
          some (dotted h1 h2 h3 h4, p1 * 256 + p2)
        | _, _, _, _, _, _ => none
      | _ => none

inductive Family | v4 | v6
  deriving Repr, DecidableEq

/-- `make_eprt_command` (the address text is what `address::to_string` produced). -/
def fmtEprt (fam : Family) (addr : Bytes) (port : Nat) : Bytes :=
  str "EPRT |" ++ (match fam with | .v4 => [49] | .v6 => [50]) ++ [124] ++ addr ++ [124] ++ toDec port ++ [124]

/-- `make_port_command`; refuses anything that is not IPv4. -/
def fmtPort (fam : Family) (addr : Bytes) (port : Nat) : Option Bytes :=
  match fam with
  | .v6 => none
  | .v4 => some (str "PORT " ++ addr.map (fun ch => if ch = 46 then 44 else ch)
             ++ [44] ++ toDec (port / 256) ++ [44] ++ toDec (port % 256))

def hasCrLf (s : Bytes) : Bool := s.any (fun c => c = CR || c = LF)

/-- `make_command(verb, argument)`: `none` = ftp_exception (argument contains CR or LF). -/
def makeCommand (verb : Bytes) (arg : Option Bytes) : Option Bytes :=
  match arg with
  | none => some verb
  | some a => if hasCrLf a then none else some (verb ++ [SP] ++ a)

end Ftp.Endpoint
