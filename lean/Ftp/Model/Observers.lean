import Ftp.Basic
/-
  The notification loops of src/client.cpp (`notify_connected / notify_request / notify_reply / notify_file_list`:
  a range-for over the std::list `observers_`) when observers unregister other observers from inside their callback
  (`client::remove_observer` = `std::list::remove`: the nodes of the other elements stay valid, the loop goes on with
  the successor of the current node).

  `kills o` = the observers that observer `o` unregisters when it is called in this round.  An observer that
  unregisters *itself* from inside its callback erases the node the loop stands on (undefined behaviour in the C++);
  the theorems that need it exclude this case explicitly.
-/
namespace Ftp.Observers

/-- one notification round over the registered observers `obs`; `dead` = observers unregistered so far in this round.
    Returns the observers that are called, in the order in which they are called. -/
def round (kills : Nat → List Nat) : List Nat → List Nat → List Nat
  | [], _ => []
  | o :: rest, dead => if dead.contains o then round kills rest dead else o :: round kills rest (dead ++ kills o)

/-- the registered observers after the round: those that no called observer unregistered -/
def remaining (kills : Nat → List Nat) (obs : List Nat) : List Nat :=
  obs.filter fun x => !((round kills obs []).flatMap kills).contains x

/-- the armed removal of the harness: observer `i` unregisters observer `j` at its next callback -/
def single (i j : Nat) : Nat → List Nat := fun o => if o = i then [j] else []

end Ftp.Observers
