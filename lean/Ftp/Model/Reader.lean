import Ftp.Model.Utils
/-
  Transcription of the control-channel reader:
    socket_base::match_eol / read_line (over the contract of boost::asio::read_until on a
    dynamic_buffer capped at 8192), control_connection::read_line / recv / is_last_line.

  The transport is an oracle: the bytes the server will still send (`stream`), the sizes of the
  successive deliveries (`sizes`; what each `read_some` returns - every real run induces such a list),
  and what the transport reports once the stream is exhausted (`fin`: end-of-file or an I/O error).
-/
namespace Ftp.Reader
open Ftp Ftp.Utils

def maxLine : Nat := 8192

inductive End | eof | err
  deriving Repr, DecidableEq

structure Net where
  stream : Bytes
  sizes : List Nat
  fin : End
  readsAtEnd : Nat := 0      -- how often the transport was asked after the stream was exhausted
  deriving Repr

/-- `match_eol`: number of bytes up to and including the first terminator.  LF, CR LF, or a CR that is
    followed by another byte *or is the last byte seen so far* ends a line. -/
def matchEol : Bytes → Option Nat
  | [] => none
  | c :: t =>
    if c = LF then some 1
    else if c = CR then (match t with | d :: _ => if d = LF then some 2 else some 1 | [] => some 1)
    else match matchEol t with
      | some n => some (n + 1)
      | none => none

inductive LineR
  | line (l : Bytes)
  | eof | err | tooLong
  | fuel            -- never produced with the fuel the callers supply (theorem `readLine_no_fuel`)
  deriving Repr, DecidableEq

/-- `socket_base::read_line` = `read_until(socket, dynamic_buffer(buf, 8192), match_eol)`, followed by what
    `control_connection::read_line` does with the result (cut the line off the front of `buffer_`). -/
def readLineF : Nat → Bytes → Net → LineR × Bytes × Net
  | 0, buf, net => (.fuel, buf, net)
  | f + 1, buf, net =>
    match matchEol buf with
    | some n => (.line (buf.take n), buf.drop n, net)
    | none =>
      if buf.length ≥ maxLine then (.tooLong, buf, net)
      else
        match net.stream with
        | [] => ((match net.fin with | .eof => .eof | .err => .err), buf, { net with readsAtEnd := net.readsAtEnd + 1 })
        | _ :: _ =>
          let want := match net.sizes with
            | [] => maxLine
            | k :: _ => if k = 0 then 1 else k
          let got := min want (maxLine - buf.length)
          readLineF f (buf ++ net.stream.take got) { net with stream := net.stream.drop got, sizes := net.sizes.tail }

def readLine (buf : Bytes) (net : Net) : LineR × Bytes × Net := readLineF (net.stream.length + 1) buf net

/-- `try_parse_status_code` -/
def parseStatus (line : Bytes) : Option Nat :=
  if line.length < 3 then none else parseU16 (line.take 3)

/-- `control_connection::is_last_line` -/
def isLastLine (line : Bytes) (code : Nat) : Bool :=
  if line.length < 4 then false
  else if line.getD 3 0 != 32 then false
  else match parseStatus line with
    | some c => c == code
    | none => false

inductive RecvR
  | reply (code : Nat) (text : Bytes)
  | error                      -- ftp_exception
  | fuel
  deriving Repr, DecidableEq

structure Ctl where
  buf : Bytes := []            -- `buffer_`
  skipLf : Bool := false       -- the previous reply ended on a bare CR (its LF may still arrive)
  closed : Bool := false       -- the 421 branch closed the socket
  deriving Repr, DecidableEq

/-- the `for (;;)` loop of a multi-line reply: returns the accumulated status string -/
def multiF : Nat → Nat → Bytes → Bytes → Net → Option Bytes × Bool × Bytes × Net
  | 0, _, acc, buf, net => (some acc, true, buf, net)      -- (result, out-of-fuel?, buffer, net)
  | f + 1, code, acc, buf, net =>
    match readLine buf net with
    | (.line l, buf', net') =>
      if isLastLine l code then (some (acc ++ l), false, buf', net')
      else multiF f code (acc ++ l) buf' net'
    | (.fuel, buf', net') => (none, true, buf', net')
    | (_, buf', net') => (none, false, buf', net')

def stripEol (s : Bytes) : Bytes :=
  let s1 := if s.getLast? = some LF then s.dropLast else s
  if s1.getLast? = some CR then s1.dropLast else s1

/-- `control_connection::recv` -/
def recv (c : Ctl) (net : Net) : RecvR × Ctl × Net :=
  match readLine c.buf net with
  | (.line l0, buf0, net0) =>
    -- the LF of a CR LF pair that was cut between two reads
    let first : LineR × Bytes × Net :=
      if c.skipLf && l0 == [LF] then readLine buf0 net0 else (.line l0, buf0, net0)
    match first with
    | (.line l, buf1, net1) =>
      match parseStatus l with
      | none => (.error, { c with buf := buf1, skipLf := false }, net1)
      | some code =>
        let body : Option Bytes × Bool × Bytes × Net :=
          if l.length > 3 && l.getD 3 0 == 45 then multiF (buf1.length + net1.stream.length + 1) code l buf1 net1
          else (some l, false, buf1, net1)
        match body with
        | (some status, false, buf2, net2) =>
          (.reply code (stripEol status),
           { buf := buf2, skipLf := status.getLast? = some CR, closed := c.closed || code == 421 }, net2)
        | (_, true, buf2, net2) => (.fuel, { c with buf := buf2, skipLf := false }, net2)
        | (none, false, buf2, net2) => (.error, { c with buf := buf2, skipLf := false }, net2)
    | (.fuel, buf1, net1) => (.fuel, { c with buf := buf1, skipLf := false }, net1)
    | (_, buf1, net1) => (.error, { c with buf := buf1, skipLf := false }, net1)
  | (.fuel, buf0, net0) => (.fuel, { c with buf := buf0 }, net0)
  | (_, buf0, net0) => (.error, { c with buf := buf0 }, net0)

/-- `n` successive receive steps -/
def recvMany : Nat → Ctl → Net → List RecvR × Ctl × Net
  | 0, c, net => ([], c, net)
  | n + 1, c, net =>
    let (r, c', net') := recv c net
    let (rs, c'', net'') := recvMany n c' net'
    (r :: rs, c'', net'')

end Ftp.Reader
