import Ftp.Model.Utils
import Ftp.Model.Reply
/-
  Transcription of src/file_size_reply.cpp (parse_size), src/file_modified_time_reply.cpp
  (parse_datetime) and src/file_list_reply.cpp (parse_file_list).
-/
namespace Ftp.Typed
open Ftp Ftp.Utils

def parseSize (r : Reply) : Option Nat :=
  if r.code != 213 then none
  else if r.text.length < 5 then none
  else parseU64 (r.text.drop 4)

structure DateTime where
  year : Nat
  month : Nat
  day : Nat
  hour : Nat
  minute : Nat
  second : Nat
  fractions : Nat
  deriving Repr, DecidableEq

/-- `substr(pos, n)` -/
def substr (s : Bytes) (pos n : Nat) : Bytes := (s.drop pos).take n

def parseDatetime (r : Reply) : Option DateTime :=
  if r.code != 213 then none
  else if r.text.length < 5 then none
  else
    let tv := r.text.drop 4
    if tv.length < 14 then none
    else
      match parseU16 (substr tv 0 4) with
      | none => none
      | some year =>
      match parseU8 (substr tv 4 2) with
      | none => none
      | some month =>
      match parseU8 (substr tv 6 2) with
      | none => none
      | some day =>
      match parseU8 (substr tv 8 2) with
      | none => none
      | some hour =>
      match parseU8 (substr tv 10 2) with
      | none => none
      | some minute =>
      match parseU8 (substr tv 12 2) with
      | none => none
      | some second =>
        if tv.length > 14 then
          -- the optional fraction: a period and at least one digit
          if tv.getD 14 0 != 46 then none
          else
            match parseU32 (tv.drop 15) with
            | none => none
            | some fr => some ⟨year, month, day, hour, minute, second, fr⟩
        else some ⟨year, month, day, hour, minute, second, 0⟩

/-- `std::getline` pieces of a text: LF-terminated pieces, a final unterminated piece is kept iff
    it is non-empty. -/
def getlinePieces : Bytes → Bytes → List Bytes
  | [], cur => if cur.isEmpty then [] else [cur]
  | c :: rest, cur => if c = LF then cur :: getlinePieces rest [] else getlinePieces rest (cur ++ [c])

def stripOneCR (l : Bytes) : Bytes :=
  if l.getLast? = some CR then l.dropLast else l

def parseFileList (t : Bytes) : List Bytes := (getlinePieces t []).map stripOneCR

end Ftp.Typed
