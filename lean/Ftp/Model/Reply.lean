import Ftp.Basic
/-
  Transcription of src/reply.cpp and src/replies.cpp.
-/
namespace Ftp

def unspecified : Nat := 65535

structure Reply where
  code : Nat
  text : Bytes
  deriving Repr, DecidableEq, Inhabited

namespace Reply
/-- default-constructed `ftp::reply` -/
def default : Reply := ⟨unspecified, []⟩
def isPositive (r : Reply) : Bool := r.code != unspecified && r.code < 400
def isNegative (r : Reply) : Bool := r.code != unspecified && r.code ≥ 400
def isIntermediate (r : Reply) : Bool := r.code != unspecified && r.code ≥ 300 && r.code < 400
end Reply

structure Replies where
  list : List Reply
  isPositive : Bool
  status : Bytes
  deriving Repr, DecidableEq, Inhabited

namespace Replies
def empty : Replies := ⟨[], false, []⟩

/-- `replies::append` -/
def append (rs : Replies) (r : Reply) : Replies :=
  if rs.list.isEmpty then
    { list := rs.list ++ [r], isPositive := r.isPositive, status := rs.status ++ r.text }
  else if r.isPositive then
    { list := rs.list ++ [r], isPositive := rs.isPositive, status := rs.status ++ [CR, LF] ++ r.text }
  else
    { list := rs.list ++ [r], isPositive := false, status := rs.status ++ [CR, LF] ++ r.text }

def appendAll (rs : List Reply) : Replies := rs.foldl append empty
end Replies

end Ftp
