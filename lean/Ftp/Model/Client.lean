import Ftp.Model.Reader
import Ftp.Model.Reply
import Ftp.Model.Endpoint
import Ftp.Model.Typed
import Ftp.Model.Ascii
/-
  Transcription of src/client.cpp (every public operation and the private process_* helpers), of the
  event-relevant parts of src/data_connection.cpp (connect / listen / accept / send / recv / disconnect and the
  destructor) and of control_connection::send / recv / disconnect / connect, as programs of a small
  state-and-exception monad whose only primitives are the boundary actions.

  Everything the environment decides is an oracle in `World`: the reply groups the server will play, how the control
  bytes are cut into reads, the ports the kernel hands out, whether a connect succeeds, what each read on the data
  socket returns, whether a block could be written.
-/
namespace Ftp.Client
open Ftp Ftp.Endpoint

inductive TType | binary | ascii
  deriving Repr, DecidableEq
inductive TMode | passive | active
  deriving Repr, DecidableEq

/-- boundary events (the trace alphabet shared with the harness) -/
inductive Ev
  | ctlConnect (host : Bytes) (port : Nat) | ctlShutdown | ctlClose
  | ctlReply (code : Nat) (text : Bytes)   -- ghost: a reply was framed (not visible to the harness)
  | listing (text : Bytes)                 -- ghost: the text of a completed listing
  | ctlWrite (bytes : Bytes)
  | ctlWriteFail (bytes : Bytes)           -- ghost: the write was attempted on a closed connection
  | ctlReadLine
  | obsConnected (o : Nat) (host : Bytes) (port : Nat)
  | obsRequest (o : Nat) (cmd : Bytes)
  | obsReply (o : Nat) (code : Nat) (text : Bytes)
  | obsFileList (o : Nat) (text : Bytes)
  | dataSocket (d : Nat)
  | dataConnect (d : Nat) (addr : Bytes) (port : Nat) (ok : Bool)
  | dataBind (d : Nat) (addr : Bytes) (asked got : Nat)
  | dataListen (d : Nat)
  | dataAccept (l d : Nat)
  | dataShutdown (d : Nat) | dataClose (d : Nat)
  | dataRead (d : Nat) (n : Nat)          -- n = 0: end of file
  | dataReadErr (d : Nat)
  | dataWrite (d : Nat) (n : Nat)         -- one block (partial sends coalesced)
  | dataWriteErr (d : Nat)
  | sinkWrite (n : Nat) | sinkWriteFail | sinkFlush
  | srcRead (asked got : Nat) | srcFail
  | cbPoll (b : Bool) | cbBegin | cbNotify (n : Nat) | cbEnd
  deriving Repr, DecidableEq

/-- what the scripted peer does on the data connection -/
inductive DataAct
  | send (payload : Bytes)      -- peer writes the payload, then closes (or resets)
  | recv                        -- peer reads until end of file
  | touch                       -- opens and closes without moving a byte
  deriving Repr, DecidableEq

structure Group where
  raws : List Bytes             -- raw bytes of the replies of this group (placeholders resolved)
  act : Option DataAct := none
  deriving Repr

structure DataConn where
  sock : Option Nat := none     -- open data descriptor
  acc : Option Nat := none      -- open listening descriptor
  deriving Repr, DecidableEq

structure World where
  -- client members
  mode : TMode
  ttype : TType
  rfc : Bool
  observers : List Nat := []
  connected : Bool := false
  ctl : Reader.Ctl := {}
  -- environment
  v6 : Bool := false
  net : Reader.Net := { stream := [], sizes := [], fin := .eof }
  script : List Group := []
  act : Option DataAct := none         -- data action armed by the last command
  connectOks : List Bool := []
  listenPorts : List Nat := []
  dataReads : List (Option Nat) := []  -- successive read_some results on data sockets: some n (0 = eof), none = error
  blockOks : List Bool := []           -- could the k-th block be written completely?
  closeFails : List Bool := []         -- does the k-th close of a data descriptor report an error?
  nextD : Nat := 1
  conn : Option DataConn := none       -- the data_connection object alive on the stack of the operation
  -- user objects of the current operation
  sinkFailAt : Option Nat := none
  sinkWrites : Nat := 0
  sink : Bytes := []
  sinkFlushes : Nat := 0
  sinkSilent : Bool := false           -- the internal ostringstream of get_file_list: no events
  src : Ascii.Src := ⟨[], []⟩
  srcFailAt : Option Nat := none
  srcReads : Nat := 0
  polls : List Bool := []
  cancelled : Bool := false            -- sticky
  peerGot : Bytes := []                -- bytes the peer received on the data connection
  trace : List Ev := []
  deriving Repr

inductive Res (α : Type)
  | ok (a : α)
  | throw
  deriving Repr

/-- state + exception monad; the world (and its trace) survives an exception -/
def M (α : Type) := World → Res α × World

instance : Monad M where
  pure a := fun w => (.ok a, w)
  bind m f := fun w =>
    match m w with
    | (.ok a, w') => f a w'
    | (.throw, w') => (.throw, w')

def throwE {α} : M α := fun w => (.throw, w)
def getW : M World := fun w => (.ok w, w)
def modifyW (f : World → World) : M Unit := fun w => (.ok (), f w)
def emit (e : Ev) : M Unit := modifyW fun w => { w with trace := w.trace ++ [e] }

/-- run `body`; run `cleanup` afterwards on both the normal and the exceptional path (a C++ scope exit) -/
def withScope {α} (body : M α) (cleanup : M Unit) : M α := fun w =>
  match body w with
  | (.ok a, w') => (match cleanup w' with
      | (.ok _, w'') => (.ok a, w'')
      | (.throw, w'') => (.throw, w''))
  | (.throw, w') => (.throw, (cleanup w').2)

def CRLF : Bytes := [CR, LF]

def forObservers (f : Nat → Ev) : M Unit := do
  let w ← getW
  modifyW fun w' => { w' with trace := w'.trace ++ w.observers.map f }

/-! ### control channel primitives -/

/-- `client::send`: notify, then `control_connection::send` (append CR LF, write).  The scripted server answers a
    complete command line with the next group of its script. -/
def ctlSend (cmd : Bytes) : M Unit := do
  forObservers (fun o => .obsRequest o cmd)
  let w ← getW
  if !w.connected then
    emit (.ctlWriteFail (cmd ++ CRLF))      -- write on a closed socket
    throwE
  else
    emit (.ctlWrite (cmd ++ CRLF))
    modifyW fun w =>
      let g : Group := match w.script with
        | g :: _ => g
        | [] => { raws := [str "500 script exhausted\r\n"] }
      { w with script := w.script.tail, net := { w.net with stream := w.net.stream ++ g.raws.flatten },
               act := match g.act with | some a => some a | none => w.act }

/-- `control_connection::disconnect` on the in-memory transport (no SSL layer) -/
def ctlClose : M Unit := do
  emit .ctlShutdown
  emit .ctlClose
  modifyW fun w => { w with connected := false }

/-- `client::recv`: `control_connection::recv` (with its 421 branch), then notify -/
def ctlRecv : M Reply := do
  let w ← getW
  emit .ctlReadLine
  if !w.connected then throwE
  else
    let (r, c', net') := Reader.recv { w.ctl with closed := false } w.net
    modifyW fun w => { w with ctl := c', net := net' }
    match r with
    | .reply code text =>
      emit (.ctlReply code text)
      if code == 421 then ctlClose
      forObservers (fun o => .obsReply o code text)
      pure ⟨code, text⟩
    | _ => throwE

def recvInto (rs : Replies) : M (Reply × Replies) := do
  let r ← ctlRecv
  pure (r, rs.append r)

/-- `make_command`: throws when the argument contains CR or LF -/
def mkCmd (verb : String) (arg : Option Bytes) : M Bytes :=
  match makeCommand (str verb) arg with
  | some c => pure c
  | none => throwE

def processCommand (cmd : Bytes) : M Reply := do
  ctlSend cmd
  ctlRecv

def processCommandInto (cmd : Bytes) (rs : Replies) : M (Reply × Replies) := do
  ctlSend cmd
  recvInto rs

def typeCommand (t : TType) : Bytes :=
  match t with
  | .binary => str "TYPE I"
  | .ascii => str "TYPE A"

/-! ### simple operations -/

def simple (verb : String) (arg : Option Bytes) : M Reply := do
  let c ← mkCmd verb arg
  processCommand c

def processLogin (user pass : Bytes) (rs : Replies) : M (Reply × Replies) := do
  let cu ← mkCmd "USER" (some user)
  let cp ← mkCmd "PASS" (some pass)
  let (r, rs) ← processCommandInto cu rs
  let (r, rs) ← if r.code == 331 then processCommandInto cp rs else pure (r, rs)
  if r.isNegative then pure (r, rs)
  else
    let w ← getW
    processCommandInto (typeCommand w.ttype) rs

def login (user pass : Bytes) : M Replies := do
  let (_, rs) ← processLogin user pass Replies.empty
  pure rs

/-- `client::connect` (no TLS context on this transport) -/
def connect (host : Bytes) (port : Nat) (cred : Option (Bytes × Bytes)) : M Replies := do
  match cred with
  | some (u, p) => let _ ← mkCmd "USER" (some u); let _ ← mkCmd "PASS" (some p); pure ()
  | none => pure ()
  -- control_connection::connect: a connection that is still open is abandoned first (closed, no shutdown) ...
  let w0 ← getW
  if w0.connected then
    emit .ctlClose
    modifyW fun w => { w with connected := false }
  -- ... then: clean state, TCP connect; the server plays its greeting group
  modifyW fun w =>
    let g : Group := match w.script with
      | g :: _ => g
      | [] => { raws := [] }
    { w with ctl := {}, connected := true, script := w.script.tail,
             net := { w.net with stream := g.raws.flatten } }
  emit (.ctlConnect host port)
  forObservers (fun o => .obsConnected o host port)
  let (r, rs) ← recvInto Replies.empty
  let (r, rs) ← if r.code == 120 then recvInto rs else pure (r, rs)
  if r.isNegative then pure rs
  else
    match cred with
    | some (u, p) => let (_, rs) ← processLogin u p rs; pure rs
    | none => pure rs

def logout : M Reply := simple "REIN" none

def setTransferType (t : TType) : M Reply := do
  let r ← processCommand (typeCommand t)
  if r.isPositive then modifyW fun w => { w with ttype := t }
  pure r

def rename (a b : Bytes) : M Replies := do
  let c1 ← mkCmd "RNFR" (some a)
  let c2 ← mkCmd "RNTO" (some b)
  let (r, rs) ← processCommandInto c1 Replies.empty
  if r.code == 350 then
    let (_, rs) ← processCommandInto c2 rs
    pure rs
  else pure rs

def disconnect (graceful : Bool) : M (Option Reply) := do
  let r ← if graceful then (do let c ← mkCmd "QUIT" none; let r ← processCommand c; pure (some r)) else pure none
  let w ← getW
  if w.connected then ctlClose
  pure r

/-! ### data connection primitives -/

def newDescriptor : M Nat := do
  let w ← getW
  modifyW fun w => { w with nextD := w.nextD + 1 }
  emit (.dataSocket w.nextD)
  pure w.nextD

/-- close one data descriptor; the close itself always happens, it may *report* an error -/
def closeD (d : Nat) : M Bool := do
  emit (.dataClose d)
  let w ← getW
  modifyW fun w => { w with closeFails := w.closeFails.tail }
  pure (w.closeFails.head?.getD false)

/-- destructor of `data_connection`: the acceptor is destroyed first, then the socket (reverse member order) -/
def destroyConn : M Unit := do
  let w ← getW
  match w.conn with
  | none => pure ()
  | some c =>
    match c.acc with | some a => let _ ← closeD a; pure () | none => pure ()
    match c.sock with | some s => let _ ← closeD s; pure () | none => pure ()
    modifyW fun w => { w with conn := none }

/-- `data_connection::disconnect(graceful)` without SSL -/
def dataDisconnect (graceful : Bool) : M Unit := do
  let w ← getW
  match w.conn with
  | none => pure ()
  | some c =>
    match c.sock with
    | some s =>
      if graceful then emit (.dataShutdown s)
      let failed ← closeD s
      modifyW fun w => { w with conn := some { c with sock := none } }
      if failed then throwE
    | none =>
      -- shutdown on a socket that was never opened reports an error other than not_connected
      if graceful then throwE
    match c.acc with
    | some a =>
      let failed ← closeD a
      modifyW fun w => { w with conn := some { sock := none, acc := none } }
      if failed then throwE
    | none => pure ()

def addrText (w : World) : Bytes := if w.v6 then str "::1" else str "127.0.0.1"

/-- `data_connection::connect` -/
def dataConnect (addr : Bytes) (port : Nat) : M Unit := do
  let d ← newDescriptor
  let w ← getW
  let ok := w.connectOks.head?.getD false
  modifyW fun w => { w with connectOks := w.connectOks.tail }
  emit (.dataConnect d addr port ok)
  if ok then modifyW fun w => { w with conn := some { sock := some d } }
  else
    let _ ← closeD d
    throwE

/-- `data_connection::listen` + `get_listen_endpoint`: returns the port the kernel chose -/
def dataListen : M Nat := do
  let d ← newDescriptor
  let w ← getW
  let p := w.listenPorts.head?.getD 0
  modifyW fun w => { w with listenPorts := w.listenPorts.tail, conn := some { acc := some d } }
  emit (.dataBind d (addrText w) 0 p)
  emit (.dataListen d)
  pure p

/-- `data_connection::accept` -/
def dataAccept : M Unit := do
  let w ← getW
  match w.conn with
  | some c =>
    match c.acc with
    | some a =>
      let d := w.nextD
      modifyW fun w => { w with nextD := w.nextD + 1, conn := some { c with sock := some d } }
      emit (.dataAccept a d)
    | none => throwE
  | none => throwE

/-! ### data connection set-up (`create_data_connection`) -/

/-- returns `true` when a connection is ready for the transfer (`false` = the C++ `nullptr`) -/
def processEpsv (cmd : Bytes) (rs : Replies) : M (Bool × Replies) := do
  let c ← mkCmd "EPSV" none
  let (r, rs) ← processCommandInto c rs
  if r.isNegative then pure (false, rs)
  else
    match parseEpsv r.text with
    | none => throwE
    | some port =>
      let w ← getW
      dataConnect (addrText w) port
      let (r, rs) ← processCommandInto cmd rs
      if r.isNegative then
        dataDisconnect true
        pure (false, rs)
      else pure (true, rs)

/-- is the dotted text an address `make_address` accepts?  (the model only ever sees texts built by `dotted`) -/
def processPasv (cmd : Bytes) (rs : Replies) : M (Bool × Replies) := do
  let c ← mkCmd "PASV" none
  let (r, rs) ← processCommandInto c rs
  if r.isNegative then pure (false, rs)
  else
    match parsePasv r.text with
    | none => throwE
    | some (ip, port) =>
      dataConnect ip port
      let (r, rs) ← processCommandInto cmd rs
      if r.isNegative then
        dataDisconnect true
        pure (false, rs)
      else pure (true, rs)

def processActive (eprt : Bool) (cmd : Bytes) (rs : Replies) : M (Bool × Replies) := do
  let port ← dataListen
  let w ← getW
  let fam : Family := if w.v6 then .v6 else .v4
  let c ← if eprt then pure (fmtEprt fam (addrText w) port)
          else match fmtPort fam (addrText w) port with
            | some c => pure c
            | none => throwE
  let (r, rs) ← processCommandInto c rs
  if r.isNegative then pure (false, rs)
  else
    let (r, rs) ← processCommandInto cmd rs
    if r.isNegative then pure (false, rs)
    else
      dataAccept
      pure (true, rs)

def createDataConnection (cmd : Bytes) (rs : Replies) : M (Bool × Replies) := do
  let w ← getW
  match w.mode, w.rfc with
  | .passive, true => processEpsv cmd rs
  | .passive, false => processPasv cmd rs
  | .active, true => processActive true cmd rs
  | .active, false => processActive false cmd rs

/-! ### transfer loops (`data_connection::recv` / `send`) -/

def poll : M Bool := do
  let w ← getW
  let b := w.cancelled || w.polls.head?.getD false
  modifyW fun w => { w with polls := w.polls.tail, cancelled := b }
  emit (.cbPoll b)
  pure b

def sinkWrite (bs : Bytes) : M Unit := do
  let w ← getW
  modifyW fun w => { w with sinkWrites := w.sinkWrites + 1 }
  if w.sinkFailAt == some w.sinkWrites then
    emit .sinkWriteFail
    throwE
  else
    if !w.sinkSilent then emit (.sinkWrite bs.length)
    modifyW fun w => { w with sink := w.sink ++ bs }

def sinkFlush : M Unit := do
  let w ← getW
  if !w.sinkSilent then emit .sinkFlush
  modifyW fun w => { w with sinkFlushes := w.sinkFlushes + 1 }

/-- write one received block through the stream chosen by the transfer type; returns the new `prev_cr_` -/
def streamWrite (t : TType) (prev : Bool) (block : Bytes) : M Bool :=
  match t with
  | .binary => do sinkWrite block; pure false
  | .ascii => do
    let (out, p) := Ascii.write prev block
    sinkWrite out
    pure p

def streamFlush (t : TType) (prev : Bool) : M Unit := do
  match t with
  | .binary => pure ()
  | .ascii => if prev then sinkWrite [CR] else pure ()
  sinkFlush

/-- the read loop of `data_connection::recv`; `payload` = what the peer still has to send -/
def recvLoop (cb : Bool) (t : TType) (d : Nat) : Nat → Bytes → Bool → M (Bool × Bool)
  | 0, _, prev => pure (prev, false)
  | fuel + 1, payload, prev => do
    let w ← getW
    let r := w.dataReads.head?.getD (some 0)
    modifyW fun w => { w with dataReads := w.dataReads.tail }
    match r with
    | none => emit (.dataReadErr d); pure (prev, true)
    | some 0 => emit (.dataRead d 0); pure (prev, false)
    | some n0 =>
      let n := min n0 8192            -- the block buffer holds 8192 bytes
      let block := payload.take n
      if block.isEmpty then
        -- nothing left to deliver: the read reports end-of-file
        emit (.dataRead d 0)
        pure (prev, false)
      else
      emit (.dataRead d block.length)
      let prev ← streamWrite t prev block
      if cb then
        emit (.cbNotify block.length)
        let c ← poll
        if c then pure (prev, false) else recvLoop cb t d fuel (payload.drop n) prev
      else recvLoop cb t d fuel (payload.drop n) prev

/-- `data_connection::recv(stream, cb)`; `true` = it returned without doing anything (cancelled before the start) -/
def dataRecv (cb : Bool) (t : TType) : M Unit := do
  let w ← getW
  let d := match w.conn with | some c => c.sock.getD 0 | none => 0
  let payload := match w.act with | some (.send p) => p | _ => []
  let go : M Unit := do
    let (prev, failed) ← recvLoop cb t d (w.dataReads.length + 1) payload false
    if failed then throwE
    streamFlush t prev
    if cb then emit .cbEnd
  if cb then
    let c ← poll
    if c then pure ()
    else
      emit .cbBegin
      go
  else go

def srcRead (n : Nat) : M Bytes := do
  let w ← getW
  modifyW fun w => { w with srcReads := w.srcReads + 1 }
  if w.srcFailAt == some w.srcReads then
    emit .srcFail
    throwE
  else
    let (got, s') := w.src.read n
    modifyW fun w => { w with src := s' }
    emit (.srcRead n got.length)
    pure got

/-- write one block to the data socket (`boost::asio::write` = all of it or an error) -/
def dataWrite (d : Nat) (block : Bytes) : M Unit := do
  let w ← getW
  let ok := w.blockOks.head?.getD true
  modifyW fun w => { w with blockOks := w.blockOks.tail }
  if ok then
    emit (.dataWrite d block.length)
    modifyW fun w => { w with peerGot := w.peerGot ++ block }
  else
    emit (.dataWriteErr d)
    throwE

/-- the loop of `data_connection::send` for the binary stream -/
def sendLoopBin (cb : Bool) (d : Nat) : Nat → M Unit
  | 0 => pure ()
  | fuel + 1 => do
    let block ← srcRead 8192
    if block.isEmpty then pure ()
    else
      dataWrite d block
      if cb then
        emit (.cbNotify block.length)
        let c ← poll
        if c then pure () else sendLoopBin cb d fuel
      else sendLoopBin cb d fuel

/-- ... and for the ASCII stream (`ascii_istream` with its 8192-byte internal buffer in front of the source;
    the source reads it performs are not events of this model) -/
def sendLoopAscii (cb : Bool) (d : Nat) : Nat → Ascii.IState → M Unit
  | 0, _ => pure ()
  | fuel + 1, st => do
    let w ← getW
    let (block, st', src') := Ascii.read st w.src 8192
    -- the source reads performed inside this `ascii_istream::read`; a failing source aborts it
    let calls := w.src.sched.length - src'.sched.length
    let fails := match w.srcFailAt with
      | some k => w.srcReads ≤ k && k < w.srcReads + calls
      | none => false
    if fails then
      emit .srcFail
      throwE
    modifyW fun w => { w with src := src', srcReads := w.srcReads + calls }
    if block.isEmpty then pure ()
    else
      dataWrite d block
      if cb then
        emit (.cbNotify block.length)
        let c ← poll
        if c then pure () else sendLoopAscii cb d fuel st'
      else sendLoopAscii cb d fuel st'

def dataSend (cb : Bool) (t : TType) : M Unit := do
  let w ← getW
  let d := match w.conn with | some c => c.sock.getD 0 | none => 0
  let fuel := 2 * w.src.data.length + 2
  let go : M Unit := do
    match t with
    | .binary => sendLoopBin cb d fuel
    | .ascii => sendLoopAscii cb d fuel (Ascii.IState.init 8192)
    if cb then emit .cbEnd
  if cb then
    let c ← poll
    if c then pure ()
    else
      emit .cbBegin
      go
  else go

/-! ### transfers -/

def processAbort (rs : Replies) : M Replies := do
  let c ← mkCmd "ABOR" none
  let (r, rs) ← processCommandInto c rs
  if r.code == 426 then
    let (_, rs) ← recvInto rs
    pure rs
  else pure rs

/-- the part of process_download / process_upload after the stream has been moved -/
def finishTransfer (cb : Bool) (rs : Replies) : M Replies := do
  let cancelled ← if cb then poll else pure false
  if cancelled then
    let rs ← processAbort rs
    dataDisconnect false
    pure rs
  else
    dataDisconnect true
    let (_, rs) ← recvInto rs
    pure rs

def download (path : Bytes) (cb : Bool) : M Replies :=
  withScope (do
    let c ← mkCmd "RETR" (some path)
    let (ready, rs) ← createDataConnection c Replies.empty
    if ready then
      let w ← getW
      dataRecv cb w.ttype
      finishTransfer cb rs
    else pure rs) destroyConn

def upload (verb : String) (path : Bytes) (cb : Bool) : M Replies :=
  withScope (do
    let c ← mkCmd verb (some path)
    let (ready, rs) ← createDataConnection c Replies.empty
    if ready then
      let w ← getW
      dataSend cb w.ttype
      finishTransfer cb rs
    else pure rs) destroyConn

def fileList (path : Option Bytes) (names : Bool) : M (Replies × Bytes) :=
  withScope (do
    let c ← mkCmd (if names then "NLST" else "LIST") path
    let (ready, rs) ← createDataConnection c Replies.empty
    if ready then
      let w ← getW
      -- the sink is an ostringstream behind an ostream_adapter: modelled by the recording sink without events
      modifyW fun w => { w with sinkSilent := true, sink := [], sinkFailAt := none }
      dataRecv false w.ttype
      let w ← getW
      emit (.listing w.sink)
      forObservers (fun o => .obsFileList o w.sink)
      dataDisconnect true
      let (_, rs) ← recvInto rs
      pure (rs, w.sink)
    else pure (rs, [])) destroyConn

end Ftp.Client
