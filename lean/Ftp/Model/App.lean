import Ftp.Model.Client
import Ftp.Model.CmdParser
/-
  Transcription of app/cmdline: main.cpp (exit status), cmdline_interface::run (the loop and its two catch clauses),
  command_handler::handle (forced non-graceful disconnect after a library error) and the 27 handlers, over the client
  model, the list of stdin lines and an abstract working directory.

  What the program prints is modelled as a list of segments: literal text, or "one line of text the model does not
  predict" (the message of an ftp_exception).
-/
namespace Ftp.App
open Ftp Ftp.Client Ftp.Cmd

inductive Seg
  | text (b : Bytes)
  | errorLine                 -- the what() of an ftp_exception, followed by a newline
  | freeText                  -- fixed informational text the model does not spell out (the help screen)
  deriving Repr, DecidableEq

/-- an entry of the working directory: `none` = a directory -/
abbrev Fs := List (Bytes × Option Bytes)

structure AppWorld where
  client : World
  stdin : List Bytes
  out : List Seg := []
  fs : Fs := []
  ended : Bool := false          -- the loop has ended (exit, or end of input)
  status : Nat := 0              -- exit status
  serverPort : Bytes := str "$PORT"     -- the literal that stands for the scripted server's port in the input
  deriving Repr

inductive AppRes (α : Type)
  | ok (a : α)
  | cmdErr (msg : Bytes)      -- cmdline_exception
  | ftpErr                    -- ftp::ftp_exception
  | eof                       -- std::istream::failure at end of input

def A (α : Type) := AppWorld → AppRes α × AppWorld

instance : Monad A where
  pure a := fun w => (.ok a, w)
  bind m f := fun w =>
    match m w with
    | (.ok a, w') => f a w'
    | (.cmdErr e, w') => (.cmdErr e, w')
    | (.ftpErr, w') => (.ftpErr, w')
    | (.eof, w') => (.eof, w')

def getA : A AppWorld := fun w => (.ok w, w)
def modifyA (f : AppWorld → AppWorld) : A Unit := fun w => (.ok (), f w)
def print (b : Bytes) : A Unit := modifyA fun w => { w with out := w.out ++ [Seg.text b] }
def println (s : String) : A Unit := print (str s ++ [LF])
def fail {α} (msg : Bytes) : A α := fun w => (.cmdErr msg, w)
def failS {α} (s : String) : A α := fail (str s)

/-- `utils::read_line` / `read_password`: print the prompt, read one line; end of input raises the stream failure -/
def readLine (prompt : String) : A Bytes := fun w =>
  let w := { w with out := w.out ++ [Seg.text (str prompt)] }
  match w.stdin with
  | [] => (.eof, w)
  | l :: rest => (.ok l, { w with stdin := rest })

/-- what the stdout_writer observer and the transfer callback print for the events of a client call -/
def printed : Ev → Bytes
  | .obsReply _ _ t => t ++ [LF]
  | .obsFileList _ t => t
  | .cbBegin => str "Transmitting data..."
  | .cbEnd => [LF]
  | _ => []

/-- run a client operation; its observer / callback output goes to stdout; an ftp_exception is what `handle` sees -/
def client {α} (m : M α) : A α := fun w =>
  let (r, c) := m { w.client with trace := [] }
  let text := (c.trace.map printed).flatten
  let w' := { w with client := { c with trace := w.client.trace ++ c.trace },
                     out := if text.isEmpty then w.out else w.out ++ [Seg.text text] }
  match r with
  | .ok a => (.ok a, w')
  | .throw => (.ftpErr, w')

def needConnection : A Unit := do
  let w ← getA
  if !w.client.connected then failS "Connection is not open."

/-- `utils::get_filename` -/
def filename (path : Bytes) : Bytes :=
  match (path.reverse.findIdx? fun c => c = 47 || c = 92) with
  | some i => path.drop (path.length - i)
  | none => path

def lookupFs (fs : Fs) (name : Bytes) : Option (Option Bytes) := (fs.find? fun e => e.1 = name).map (·.2)

/-- can a file of this name be created in the working directory?  (the model knows plain names only) -/
def creatable (name : Bytes) : Bool := !name.isEmpty && name.length ≤ 255 && !name.contains 47 && !name.contains 0

def oneArg (args : List Bytes) (prompt usage : String) : A Bytes :=
  match args with
  | [] => readLine prompt
  | [a] => pure a
  | _ => failS usage

def optArg (args : List Bytes) (usage : String) : A (Option Bytes) :=
  match args with
  | [] => pure none
  | [a] => pure (some a)
  | _ => failS usage

/-- the handlers of `command_handler` -/
def handler (c : Command) (args : List Bytes) : A Unit :=
  match c with
  | .open_ => do
    let w ← getA
    if w.client.connected then failS "Already connected, use close first."
    let (host, port) ← match args with
      | [] => do let h ← readLine "hostname: "; pure (h, none)
      | [h] => pure (h, none)
      | [h, p] => pure (h, some p)
      | _ => failS "usage: open hostname [ port ]"
    let w ← getA
    let reachable ← match port with
      | none => pure false                                   -- port 21: nothing listens there
      | some p =>
        if p = w.serverPort then pure true
        else match Utils.parseU16 p with
          | some _ => pure false
          | none => failS "Invalid port number."
    if !(reachable && host = str "127.0.0.1") then
      -- resolve / connect failure: an ftp_exception
      fun w => (.ftpErr, w)
    else
      let rs ← client (Client.connect host 0 none)
      if rs.isPositive then
        let u ← readLine "username: "
        let p ← readLine "password: "
        let _ ← client (Client.login u p)
        pure ()
  | .mode => do
    let w ← getA
    println (if w.client.mode == .passive then "Using passive mode for data connection." else "Using active mode for data connection.")
  | .active => do modifyA fun w => { w with client := { w.client with mode := .active } }; println "Active mode on."
  | .passive => do modifyA fun w => { w with client := { w.client with mode := .passive } }; println "Passive mode on."
  | .user => do
    needConnection
    let (u, p) ← match args with
      | [] => do let u ← readLine "username: "; let p ← readLine "password: "; pure (u, p)
      | [u] => do let p ← readLine "password: "; pure (u, p)
      | _ => failS "usage: user username"
    let _ ← client (Client.login u p)
    pure ()
  | .cd => do needConnection; let d ← oneArg args "remote directory: " "usage: cd remote-directory"; let _ ← client (simple "CWD" (some d)); pure ()
  | .cdup => do needConnection; let _ ← client (simple "CDUP" none); pure ()
  | .ls => do needConnection; let d ← optArg args "usage: ls [ remote-directory ]"; let _ ← client (fileList d false); pure ()
  | .put => do
    needConnection
    let (loc, rem) ← match args with
      | [] => do let l ← readLine "local-file: "; pure (l, filename l)
      | [l] => pure (l, filename l)
      | [l, r] => pure (l, r)
      | _ => failS "usage: put local-file [ remote-file ]"
    let w ← getA
    match lookupFs w.fs loc with
    | some (some content) =>
      modifyA fun w => { w with client := { w.client with src := ⟨content, List.replicate (content.length + 2) 8192⟩, srcFailAt := none, srcReads := 0, polls := [], cancelled := false, peerGot := [] } }
      let _ ← client (upload "STOR" rem true)
      pure ()
    | some none =>
      -- a directory: `std::ifstream` opens it (open(2) succeeds), the first read fails
      modifyA fun w => { w with client := { w.client with src := ⟨[], [8192, 8192]⟩, srcFailAt := some 0, srcReads := 0, polls := [], cancelled := false, peerGot := [] } }
      let _ ← client (upload "STOR" rem true)
      pure ()
    | none => fail (str "Cannot open file '" ++ loc ++ str "'.")
  | .get => do
    needConnection
    let (rem, loc) ← match args with
      | [] => do let r ← readLine "remote-file: "; pure (r, filename r)
      | [r] => pure (r, filename r)
      | [r, l] => pure (r, l)
      | _ => failS "usage: get remote-file [ local-file ]"
    let w ← getA
    if (lookupFs w.fs loc).isSome then fail (str "File '" ++ loc ++ str "' already exists.")
    else if !creatable loc then fail (str "Cannot create file '" ++ loc ++ str "'.")
    else
      -- the file is created (empty) before the transfer starts
      modifyA fun w => { w with fs := w.fs ++ [(loc, some [])],
                                client := { w.client with sink := [], sinkWrites := 0, sinkFlushes := 0, sinkFailAt := none, sinkSilent := false, polls := [], cancelled := false } }
      -- whatever happens, what reached the sink is in the file
      let r : AppRes Replies × AppWorld := client (download rem true) (← getA)
      let w' := { r.2 with fs := r.2.fs.map fun e => if e.1 = loc then (loc, some r.2.client.sink) else e }
      match r.1 with
      | .ok rs =>
        if !rs.isPositive then (fun _ => (.ok (), { w' with fs := w'.fs.filter fun e => e.1 != loc }))
        else (fun _ => (.ok (), w'))
      | .ftpErr => fun _ => (.ftpErr, w')
      | .cmdErr e => fun _ => (.cmdErr e, w')
      | .eof => fun _ => (.eof, w')
  | .rename => do
    needConnection
    match args with
    | [a, b] => do let _ ← client (Client.rename a b); pure ()
    | _ => failS "usage: rename from-remote-path to-remote-path"
  | .pwd => do needConnection; let _ ← client (simple "PWD" none); pure ()
  | .mkdir => do needConnection; let d ← oneArg args "directory-name: " "usage: mkdir directory-name"; let _ ← client (simple "MKD" (some d)); pure ()
  | .rmdir => do needConnection; let d ← oneArg args "directory-name: " "usage: rmdir directory-name"; let _ ← client (simple "RMD" (some d)); pure ()
  | .del => do needConnection; let f ← oneArg args "remote-file: " "usage: del remote-file"; let _ ← client (simple "DELE" (some f)); pure ()
  | .stat => do needConnection; let f ← optArg args "usage: stat [ remote-file ]"; let _ ← client (simple "STAT" f); pure ()
  | .syst => do needConnection; let _ ← client (simple "SYST" none); pure ()
  | .type => do
    needConnection
    let w ← getA
    println (if w.client.ttype == .binary then "Using binary transfer type." else "Using ascii transfer type.")
  | .binary => do needConnection; let _ ← client (setTransferType .binary); pure ()
  | .ascii => do needConnection; let _ ← client (setTransferType .ascii); pure ()
  | .size => do
    needConnection
    let f ← oneArg args "remote-file: " "usage: size remote-file"
    let r ← client (simple "SIZE" (some f))
    match Typed.parseSize r with
    | some n => print (toDec n ++ str " bytes." ++ [LF])
    | none => pure ()
  | .noop => do needConnection; let _ ← client (simple "NOOP" none); pure ()
  | .rhelp => do needConnection; let c ← optArg args "usage: rhelp [ remote-command ]"; let _ ← client (simple "HELP" c); pure ()
  | .logout => do needConnection; let _ ← client Client.logout; pure ()
  | .close => do needConnection; let _ ← client (Client.disconnect true); pure ()
  | .help => modifyA fun w => { w with out := w.out ++ [Seg.freeText] }
  | .exit => fun w =>
    -- errors are ignored when the user exits
    if w.client.connected then
      match client (Client.disconnect true) w with
      | (_, w') => (.ok (), w')
    else (.ok (), w)

/-- `command_handler::handle`: after an ftp_exception the connection is dropped (errors ignored), then rethrown -/
def handle (c : Command) (args : List Bytes) : A Unit := fun w =>
  match handler c args w with
  | (.ftpErr, w') =>
    let (_, c') := (Client.disconnect false) { w'.client with trace := [] }
    (.ftpErr, { w' with client := { c' with trace := w'.client.trace ++ c'.trace } })
  | r => r

/-- one iteration of `cmdline_interface::run`; `true` = the loop goes on -/
def step (w : AppWorld) : AppWorld :=
  let w := { w with out := w.out ++ [Seg.text (str "ftp> ")] }
  match w.stdin with
  | [] => { w with ended := true, status := 0 }            -- end of input: main returns EXIT_SUCCESS
  | line :: rest =>
    let w := { w with stdin := rest }
    if line.isEmpty then w
    else
      match parseCommand line with
      | .invalid => { w with out := w.out ++ [Seg.text (str "Invalid command." ++ [LF])] }
      | .ok c args =>
        match handle c args w with
        | (.ok _, w') => if c = Command.exit then { w' with ended := true, status := 0 } else w'
        | (.cmdErr m, w') => { w' with out := w'.out ++ [Seg.text (m ++ [LF])] }
        | (.ftpErr, w') => { w' with out := w'.out ++ [Seg.errorLine] }
        | (.eof, w') => { w' with ended := true, status := 0 }

/-- the whole program: at most one iteration per input line, plus the one that meets the end of input -/
def run : Nat → AppWorld → AppWorld
  | 0, w => w
  | n + 1, w => if w.ended then w else run n (step w)

def main (w : AppWorld) : AppWorld := run (w.stdin.length + 1) w

end Ftp.App
