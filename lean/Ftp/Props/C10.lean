import Ftp.Spec.Session
import Ftp.Spec.RefAutomaton
import Ftp.Lemmas.ClientCtl
/-
  C10 - each operation sends its prescribed commands and advances only as prescribed.
  Model: `Ftp.Client`; reference: `Ftp.Spec.expectedLines` (an automaton over reply codes).
-/
namespace Ftp.Props.C10
open Ftp Ftp.Client Ftp.Session Ftp.Client.CtlL

def settingsOf (w : World) : Spec.Settings :=
  { passive := w.mode == .passive, rfc2428 := w.rfc, asciiType := w.ttype == .ascii, v6 := w.v6 }

/-- the reference call of an API call; `cancelled` = the callback reported cancellation when the transfer ended -/
def callOf (op : Op) (cancelled : Bool) : Spec.Call :=
  match op with
  | .connect _ _ c => .connect c
  | .login u p => .login u p
  | .logout => .simple "REIN" none
  | .simple v a => .simple v a
  | .setType t => .setType (t == .ascii)
  | .rename a b => .rename a b
  | .download p cb => .transfer "RETR" (some p) (cb && cancelled)
  | .upload v p cb => .transfer v (some p) (cb && cancelled)
  | .list p n => .transfer (if n then "NLST" else "LIST") p false
  | .disconnect g => .disconnect g

private theorem run_eq {α} (m : M α) (w : World) (a : α) (h : result m w = .ok a) : m w = (.ok a, after m w) := by
  unfold result at h
  unfold after
  rw [← h]

/-- what a call that returned has sent and received, against the reference automaton -/
private theorem run_spec (op : Op) (w w' : World) (o : Out) (h : op.run w = (.ok o, w')) :
    ∃ ws, Ext w w' ws o.replyList ∧
      ws.map lineOf = Spec.expectedLines (settingsOf w) (callOf op w'.cancelled) (o.replyList.map (·.code))
        ((ws.head?.map lineOf).getD []) := by
  cases op with
  | connect hst p c =>
    simp only [Op.run, bind_ok, pure_ok] at h
    obtain ⟨r, w1, h1, rfl, rfl⟩ := h
    obtain ⟨ws, x, hw⟩ := connect_spec (settingsOf w) rfl [] h1
    exact ⟨ws, x, hw⟩
  | login u p =>
    simp only [Op.run, bind_ok, pure_ok] at h
    obtain ⟨r, w1, h1, rfl, rfl⟩ := h
    exact login_spec (settingsOf w) rfl h1
  | logout =>
    simp only [Op.run, bind_ok, pure_ok] at h
    obtain ⟨r, w1, h1, rfl, rfl⟩ := h
    unfold logout at h1
    exact ⟨_, simple_spec h1, by simp [Spec.expectedLines, callOf]⟩
  | simple v a =>
    simp only [Op.run, bind_ok, pure_ok] at h
    obtain ⟨r, w1, h1, rfl, rfl⟩ := h
    exact ⟨_, simple_spec h1, by simp [Spec.expectedLines, callOf]⟩
  | setType t =>
    simp only [Op.run, bind_ok, pure_ok] at h
    obtain ⟨r, w1, h1, rfl, rfl⟩ := h
    refine ⟨_, setTransferType_spec h1, ?_⟩
    cases t <;> simp [Spec.expectedLines, callOf, typeCommand]
  | rename a b =>
    simp only [Op.run, bind_ok, pure_ok] at h
    obtain ⟨r, w1, h1, rfl, rfl⟩ := h
    obtain ⟨ws, x, hw⟩ := rename_spec (settingsOf w) [] h1
    exact ⟨ws, x, hw⟩
  | download p cb =>
    simp only [Op.run, bind_ok, pure_ok] at h
    obtain ⟨r, w1, h1, rfl, rfl⟩ := h
    exact download_spec (settingsOf w) rfl rfl h1
  | upload v p cb =>
    simp only [Op.run, bind_ok, pure_ok] at h
    obtain ⟨r, w1, h1, rfl, rfl⟩ := h
    exact upload_spec (settingsOf w) rfl rfl h1
  | list p n =>
    simp only [Op.run, bind_ok, pure_ok] at h
    obtain ⟨⟨rs, text⟩, w1, h1, rfl, rfl⟩ := h
    exact fileList_spec (settingsOf w) rfl rfl h1
  | disconnect g =>
    simp only [Op.run, bind_ok, pure_ok] at h
    obtain ⟨r, w1, h1, rfl, rfl⟩ := h
    obtain ⟨ws, x, hw⟩ := disconnect_spec h1
    refine ⟨ws, x, ?_⟩
    rw [hw]
    cases g <;> simp [Spec.expectedLines, callOf]

/-- for every API call that returns, against every server whose replies are well-formed (any codes, any number of
    replies per command): the commands sent are exactly those of the reference automaton driven by the reply codes
    actually received -/
theorem commands_follow_reference (op : Op) (w : World) (q : List Ftp.Props.C01.WfReply) (sc : List SGroup)
    (hstep : InStep w q ∨ (∃ h p c, op = .connect h p c)) (hsc : w.script = sc.map SGroup.enc) (hwf : WfScript sc)
    (hret : ∃ o, result op.run w = .ok o) :
    (writes (added op.run w)).map lineOf =
      Spec.expectedLines (settingsOf w) (callOf op (after op.run w).cancelled)
        ((received (added op.run w)).map (·.code)) (((writes (added op.run w)).head?.map lineOf).getD []) := by
  obtain ⟨o, ho⟩ := hret
  obtain ⟨ws, x, hw⟩ := run_spec op w _ o (run_eq _ _ _ ho)
  obtain ⟨e1, e2⟩ := Ext.added x
  rw [e1, e2]
  exact hw

/-- every reply received during a call is returned by it, in order -/
theorem every_reply_returned (op : Op) (w : World) (o : Out) (hret : result op.run w = .ok o) :
    o.replyList = received (added op.run w) := by
  obtain ⟨ws, x, _⟩ := run_spec op w _ o (run_eq _ _ _ hret)
  exact (Ext.added x).2.symm

/-- the transfer type the client reports and converts by changes only when the server positively acknowledges a TYPE
    command, and then to the type of that command -/
theorem type_changes_only_on_ack (op : Op) (w : World) (h : (after op.run w).ttype ≠ w.ttype) :
    ∃ t, op = .setType t ∧ (after op.run w).ttype = t ∧
      ((received (added op.run w)).getLast?.map Reply.isPositive) = some true := by
  by_cases hs : ∃ t, op = .setType t
  · obtain ⟨t, rfl⟩ := hs
    have e : after (Op.setType t).run w = (setTransferType t w).2 := map_apply (setTransferType t) Out.reply w
    rw [e] at h
    obtain ⟨h1, h2⟩ := setTransferType_tt t w h
    refine ⟨t, rfl, by rw [e]; exact h1, ?_⟩
    unfold added
    rw [e]
    exact h2
  · have k := run_rg cmdOk_true op (opVerbOk_true op) (fun t ht => hs ⟨t, ht⟩)
    exact absurd (k w).1 h

/-- a history of API calls on one client: each call starts in the state the previous one left (returned or thrown) -/
def runOps : List Op → World → World
  | [], w => w
  | op :: ops, w => runOps ops (after op.run w)

/-- **histories**: whatever the calls are and however the server answers - logins, logouts, logins again, transfers,
    refusals, 421s, lost connections - the transfer type the client reports and converts by at the end of a history is
    the one it had at the start unless the history contains a `set_transfer_type` call (whose own theorem,
    `type_changes_only_on_ack`, says it changes the type only on a positive reply) -/
theorem history_type_changes_only_by_set_type (ops : List Op) (w : World)
    (h : ∀ op ∈ ops, ∀ t, op ≠ .setType t) : (runOps ops w).ttype = w.ttype := by
  induction ops generalizing w with
  | nil => rfl
  | cons op ops ih =>
    have h1 : (after op.run w).ttype = w.ttype := by
      by_cases hc : (after op.run w).ttype = w.ttype
      · exact hc
      · obtain ⟨t, ht, _⟩ := type_changes_only_on_ack op w hc
        exact absurd ht (h op (by simp) t)
    show (runOps ops (after op.run w)).ttype = w.ttype
    rw [ih (after op.run w) (fun o ho => h o (List.mem_cons_of_mem _ ho)), h1]

/-- connecting with a user name behaves exactly like connecting and then logging in (when the greeting is not
    negative) -/
theorem connect_with_user_is_connect_then_login (h : Bytes) (p : Nat) (u pw : Bytes) (w : World)
    (hu : Endpoint.hasCrLf u = false) (hp : Endpoint.hasCrLf pw = false)
    (rs : Replies) (w1 : World) (h1 : (Client.connect h p none) w = (.ok rs, w1))
    (hpos : (rs.list.getLast?.map Reply.isNegative) = some false) :
    added (Op.connect h p (some (u, pw))).run w = added (Op.connect h p none).run w ++ added (Op.login u pw).run w1 := by
  have e := connect_user_world hu hp h1 hpos
  have e1 : ((Op.connect h p none).run w).2 = w1 := by
    rw [show (Op.connect h p none).run = (do let r ← Client.connect h p none; pure (Out.replies r)) from rfl,
      map_apply, h1]
  have k1 := run_rt cmdOk_true (Op.connect h p none) trivial w
  rw [e1] at k1
  have k2 := run_rt cmdOk_true (Op.login u pw) trivial w1
  refine added_trans e1 k1 k2 ?_
  rw [show (Op.connect h p (some (u, pw))).run = (do let r ← Client.connect h p (some (u, pw)); pure (Out.replies r))
      from rfl,
    show (Op.login u pw).run = (do let r ← Client.login u pw; pure (Out.replies r)) from rfl, map_apply, map_apply]
  exact e

end Ftp.Props.C10
