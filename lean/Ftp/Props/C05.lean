import Ftp.Spec.Pure
import Ftp.Lemmas.Ascii
/-
  C05 - ASCII type converts line endings exactly, independent of chunking.
  Model: `Ftp.Ascii` (ascii_istream::read behind a chopping source, ascii_ostream::write/flush).
-/
namespace Ftp.Props.C05
open Ftp Ftp.Ascii

/-- upload: for every byte string, every internal buffer size >= 1, every short-read pattern of the source and every
    sequence of caller buffer sizes, the concatenated output of the reads (until one returns nothing - which happens
    within the stated number of calls) is the whole-string substitution CR LF | CR | LF -> CR LF -/
theorem upload_eq_spec (bufSize : Nat) (hb : 1 ≤ bufSize) (data : Bytes) (sched sizes : List Nat) :
    upload bufSize data sched sizes = (Spec.ulSpec data, true) := by
  exact upload_spec bufSize hb data sched sizes

/-- upload output does not depend on any of the chunkings -/
theorem upload_chunking_independent (b1 b2 : Nat) (h1 : 1 ≤ b1) (h2 : 1 ≤ b2) (data : Bytes)
    (sched1 sched2 sizes1 sizes2 : List Nat) :
    upload b1 data sched1 sizes1 = upload b2 data sched2 sizes2 := by
  rw [upload_eq_spec b1 h1, upload_eq_spec b2 h2]

/-- download: for every partition of the received bytes into write calls, the bytes handed to the sink by the writes
    and the final flush are the whole-string substitution CR LF -> LF (a final CR is delivered by flush) -/
theorem download_eq_spec (chunks : List Bytes) :
    download chunks false [] = Spec.dlSpec chunks.flatten := by
  rw [download_spec]
  simp [dlRest]

/-- download output does not depend on the partition -/
theorem download_chunking_independent (c1 c2 : List Bytes) (h : c1.flatten = c2.flatten) :
    download c1 false [] = download c2 false [] := by
  rw [download_eq_spec, download_eq_spec, h]

/-- LF-only text (no CR) survives upload followed by download unchanged -/
theorem roundtrip (s : Bytes) (h : CR ∉ s) : Spec.dlSpec (Spec.ulSpec s) = s := by
  exact roundtrip_aux s h

/-- the reference substitutions are the ones the property names: upload maps CR LF, lone CR and lone LF to CR LF -/
theorem ulSpec_cases (c : Byte) (t : Bytes) :
    Spec.ulSpec [] = [] ∧
    Spec.ulSpec (CR :: LF :: t) = CR :: LF :: Spec.ulSpec t ∧
    (t.head? ≠ some LF → Spec.ulSpec (CR :: t) = CR :: LF :: Spec.ulSpec t) ∧
    Spec.ulSpec (LF :: t) = CR :: LF :: Spec.ulSpec t ∧
    (c ≠ CR → c ≠ LF → Spec.ulSpec (c :: t) = c :: Spec.ulSpec t) := by
  refine ⟨rfl, ?_, ?_, ?_, ?_⟩
  · simp [Spec.ulSpec, Spec.ulGo, LF_ne_CR]
  · intro h
    simp only [Spec.ulSpec, Spec.ulGo, if_true]
    rw [ulGo_true_eq_false t h]
  · simp [Spec.ulSpec, Spec.ulGo, LF_ne_CR]
  · intro h1 h2
    simp [Spec.ulSpec, Spec.ulGo, h1, h2]

/-- non-vacuity: every state of both converters is reached -/
example : upload 2 (str "a\r\nb\nc\rd\r") [1, 1] [1, 2] = (str "a\r\nb\r\nc\r\nd\r\n", true) ∧
    download [str "a\r", str "\nb\r", str "\r", str "c\r"] false [] = str "a\nb\r\rc\r" := by decide

end Ftp.Props.C05
