import Ftp.Generated.SourceFacts
import Ftp.Props.C19
/-
  C19, tie to the source by translation: the chain of comparisons of `get_command_from_string` as it is written in
  app/cmdline/src/command_parser.cpp *now* (regenerated into `Ftp.Generated.verbChain` on every run of the check) is the
  table the model and the theorems of C19.lean are about.
-/
namespace Ftp.Props.C19
open Ftp Ftp.Cmd

/-- the C++ enumerator of a command -/
def cppName : Command → String
  | .open_ => "open" | .mode => "mode" | .active => "active" | .passive => "passive" | .user => "user" | .cd => "cd"
  | .cdup => "cdup" | .ls => "ls" | .put => "put" | .get => "get" | .rename => "rename" | .pwd => "pwd" | .mkdir => "mkdir"
  | .rmdir => "rmdir" | .del => "del" | .stat => "stat" | .syst => "syst" | .type => "type" | .binary => "binary"
  | .ascii => "ascii" | .size => "size" | .noop => "noop" | .rhelp => "rhelp" | .logout => "logout" | .close => "close"
  | .help => "help" | .exit => "exit"

/-- distinct commands have distinct enumerators (so the comparison below loses nothing) -/
theorem cppName_injective (a b : Command) (h : cppName a = cppName b) : a = b := by
  cases a <;> cases b <;> first | rfl | (exact absurd h (by decide))

/-- the model's table is the source's chain: same strings, same enumerators, same order -/
theorem verb_table_is_the_sources : verbTable.map (fun p => (p.1, cppName p.2)) = Generated.verbChain := by decide

end Ftp.Props.C19
