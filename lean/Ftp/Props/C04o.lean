import Ftp.Spec.Session
import Ftp.Props.C04
import Ftp.Props.C03o
import Ftp.Lemmas.ClientSession
import Ftp.Lemmas.ClientOps
/-
  C04 at the level of the whole operation: `upload_file` / `append_file` (STOR, STOU, APPE) as the caller sees them.
-/
set_option linter.unusedVariables false
set_option linter.unusedSimpArgs false

namespace Ftp.Props.C04
open Ftp Ftp.Client Ftp.Session Ftp.Props.C01
open Ftp.Client.SessL Ftp.Client.OpsL Ftp.Client.CtlL

/-- what the peer must have received after an upload of `data` with the given transfer type (C05 for ASCII) -/
def transmitted (t : TType) (data : Bytes) : Bytes :=
  match t with
  | .binary => data
  | .ascii => Spec.ulSpec data

/-- upload, end to end: for every source content, every pattern of short reads of the source, every verb (STOR / STOU /
    APPE), every well-formed reply text and all four methods, in a session that is in step: the call returns exactly the
    three replies, the peer has received exactly the source bytes (converted for ASCII type), the source is exhausted,
    the data connection was shut down and closed before the completion reply was read, no descriptor is left and the
    session is in step again (unless the completion reply was 421) -/
theorem upload_transmits (verb : String) (path : Bytes) (w : World) (s m c : WfReply) (act : Option DataAct)
    (rest : List SGroup)
    (hstep : InStep w []) (hconn0 : w.conn = none) (hpath : Endpoint.hasCrLf path = false)
    (hverb : Endpoint.hasCrLf (str verb) = false)
    (hs : s.wf) (hm : m.wf) (hc : c.wf) (hsetup : C03.SetupOk w s) (hmain : m.code < 400)
    (hsc : w.script = (⟨[s], none⟩ :: ⟨[m, c], act⟩ :: rest).map SGroup.enc)
    (hclose : ∀ b ∈ w.closeFails, b = false)
    (hok : ∀ b ∈ w.blockOks, b = true) (hsrc : w.srcFailAt = none) :
    ∃ rs, result (Op.upload verb path false).run w = .ok (.replies rs) ∧
      rs.list = [replyOf s, replyOf m, replyOf c] ∧
      (after (Op.upload verb path false).run w).peerGot = w.peerGot ++ transmitted w.ttype w.src.data ∧
      (after (Op.upload verb path false).run w).conn = none ∧
      (∃ d pre post, added (Op.upload verb path false).run w = pre ++ Ev.dataShutdown d :: Ev.dataClose d :: post ∧
          Ev.ctlReply c.code c.text ∈ post ∧ (∀ e ∈ post, ∀ d' n, e ≠ Ev.dataWrite d' n)) ∧
      (c.code ≠ 421 → InStep (after (Op.upload verb path false).run w) []) := by
  obtain ⟨hacc, hpass, hv6⟩ := hsetup
  obtain ⟨w1, d, a, hcdc, hc1, hs1, hsc1, hconn1, hcf1, _⟩ :=
    cdc_accepted (str verb ++ [SP] ++ path) Replies.empty w s m c act rest hstep hs hm hc hacc hmain hpass hv6 hsc
  obtain ⟨u1, u2, u3, u4, u5, u6, u7, u8, u9, u10⟩ := (createDataConnection_usr _ _).of_eq hcdc
  obtain ⟨_, evs1, ht1, _⟩ := (createDataConnection_nd _ _).of_eq hcdc
  obtain ⟨w2, hmv, f1, hdat, hcf⟩ := dataSend_peer w1 (by rw [u7]; exact hok) (u9.trans hsrc)
  have hc2 : w2.connected = true := hdat.2.2.2.1.trans hc1
  have hs2 : Sync w2 [c] := sync_of_dat hdat hs1
  obtain ⟨evs2, ht2, _⟩ := hdat.2.2.2.2.2
  obtain ⟨c', net', hrun, hsy⟩ := xfer_run verb path (fun t => dataSend false t) w w1 w2 _ c d a hpath hcdc hmv hc2 hs2
    (hcf.1.trans hconn1) (by rw [hcf.2, hcf1]; exact hclose)
  have hul : upload verb path false w =
      (.ok (((Replies.empty.append (replyOf s)).append (replyOf m)).append (replyOf c)), doneW d a w2 c c' net') := by
    unfold upload
    exact hrun
  have hop : (Op.upload verb path false).run w =
      (.ok (.replies (((Replies.empty.append (replyOf s)).append (replyOf m)).append (replyOf c))),
        doneW d a w2 c c' net') := by
    simp only [Op.run]
    rw [DataL.bind_ok hul]
    rfl
  refine ⟨((Replies.empty.append (replyOf s)).append (replyOf m)).append (replyOf c), by simp only [result, hop],
    ?_, ?_, ?_, ?_, ?_⟩
  · simp [DataL.append_list, Replies.empty]
  · simp only [after, hop]
    show w2.peerGot = _
    rw [f1, u1, u8, u10]
    cases w.ttype <;> rfl
  · simp only [after, hop]
    rfl
  · have htr : (after (Op.upload verb path false).run w).trace = w.trace ++ ((evs1 ++ evs2) ++
        Ev.dataShutdown d :: Ev.dataClose d :: (a.toList.map Ev.dataClose ++
          ([.ctlReadLine, .ctlReply c.code c.text] ++ (if c.code = 421 then [.ctlShutdown, .ctlClose] else []) ++
            w2.observers.map (fun o => Ev.obsReply o c.code c.text)))) := by
      simp only [after, hop, doneW_trace, ht2, ht1, List.append_assoc]
    refine ⟨d, evs1 ++ evs2, _, DataL.added_of_trace _ _ _ htr, ?_, ?_⟩
    · simp
    · intro e he d' n hn
      subst hn
      simp only [List.mem_append, List.mem_map, List.mem_cons, List.not_mem_nil, or_false] at he
      rcases he with ⟨x, _, hx⟩ | ((he | he) | he) | ⟨o, _, ho⟩
      · cases hx
      · cases he
      · cases he
      · split at he
        · simp at he
        · cases he
      · cases ho
  · intro h421
    simp only [after, hop]
    exact doneW_inStep d a w2 c c' net' hc2 hsy h421

end Ftp.Props.C04
