import Ftp.Generated.SourceFacts
import Ftp.Props.C04
/-
  C04, tie to the source by translation: the block buffer of data_connection::send in src/data_connection.cpp now has the
  size the model's send loop uses.
-/
namespace Ftp.Props.C04
open Ftp Ftp.Client Ftp.Session

/-- `blocks_at_most_8192` with the source's constant -/
theorem blocks_at_most_the_sources_buffer (w : World) (t : TType) (cb : Bool) :
    ∀ e ∈ added (dataSend cb t) w, ∀ d n, e = Ev.dataWrite d n → n ≤ Generated.sendBlock := by
  have h : Generated.sendBlock = 8192 := by decide
  rw [h]
  exact blocks_at_most_8192 w t cb

end Ftp.Props.C04
