import Ftp.Spec.Session
import Ftp.Lemmas.ClientSession
/-
  C13 - disconnect always releases the connection; a new connection starts clean.
  Model: `Ftp.Client.connect / disconnect / ctlRecv` (the TLS aspects are in `Ftp.ClientTls`, exercised end to end).
-/
namespace Ftp.Props.C13
open Ftp Ftp.Client Ftp.Session Ftp.Props.C01 Ftp.Client.SessL

/-- a new connection starts clean: whatever the old session left behind - any buffer content, any unread bytes in
    flight, a pending "skip LF", a connection still marked open or closed - the first reply of the new session is the
    new server's greeting, and the session is in step afterwards -/
theorem connect_starts_clean (h : Bytes) (p : Nat) (w : World) (g : WfReply) (rest : List SGroup)
    (hg : g.wf) (h120 : g.code ≠ 120) (hsc : w.script = (⟨[g], none⟩ :: rest).map SGroup.enc) :
    ∃ w', Client.connect h p none w = (.ok (Replies.empty.append (replyOf g)), w') ∧
      (g.code ≠ 421 → InStep w' [] ∧ w'.connected = true) ∧ w'.script = rest.map SGroup.enc := by
  obtain ⟨hs, hscr, hconn⟩ := sync_openW h p w ⟨[g], none⟩ rest
    (by intro r hr; simp only [List.mem_singleton] at hr; subst hr; exact hg) hsc
  obtain ⟨c', net', h1, h2⟩ := ctlRecv_sync hconn hs
  refine ⟨recvW (openW h p w) g.code g.text c' net', ?_, ?_, ?_⟩
  · rw [CtlL.connect_eq]
    simp only [CtlL.bind_apply, connectCheck_none, connectCore_run]
    have hgreet : greet (openW h p w) = (.ok (replyOf g, Replies.empty.append (replyOf g)),
        recvW (openW h p w) g.code g.text c' net') := by
      unfold greet
      rw [CtlL.bind_apply, recvInto_run _ h1]
      have : ((replyOf g).code == 120) = false := by simpa [replyOf] using h120
      simp only [this, Bool.false_eq_true, if_false]
      rfl
    rw [hgreet]
    simp only [CtlL.connectTail]
    split <;> rfl
  · intro h421
    have hc : (recvW (openW h p w) g.code g.text c' net').connected = true := by
      simp [recvW, h421, hconn]
    exact ⟨⟨hc, h2⟩, hc⟩
  · exact hscr

/-- a non-graceful disconnect sends no command and leaves the client disconnected, from any state -/
theorem nongraceful_disconnect (w : World) :
    result (Client.disconnect false) w = .ok none ∧ (after (Client.disconnect false) w).connected = false ∧
    writes (added (Client.disconnect false) w) = [] ∧
    (w.connected = true → added (Client.disconnect false) w = [Ev.ctlShutdown, Ev.ctlClose]) ∧
    (w.connected = false → added (Client.disconnect false) w = []) := by
  cases hc : w.connected with
  | true =>
    have hrun : Client.disconnect false w =
        (.ok none, { w with connected := false, trace := w.trace ++ [.ctlShutdown] ++ [.ctlClose] }) := by
      unfold Client.disconnect
      open DataL in msimp [hc]
    simp [result, after, added, hrun, writes]
  | false =>
    have hrun : Client.disconnect false w = (.ok none, w) := by
      unfold Client.disconnect
      open DataL in msimp [hc]
    simp [result, after, added, hrun, writes, hc]

/-- a graceful disconnect sends QUIT, returns its reply and leaves the client disconnected -/
theorem graceful_disconnect (w : World) (r : WfReply) (rest : List SGroup) (hstep : InStep w []) (hr : r.wf)
    (hsc : w.script = (⟨[r], none⟩ :: rest).map SGroup.enc) :
    result (Client.disconnect true) w = .ok (some (replyOf r)) ∧
    writes (added (Client.disconnect true) w) = [str "QUIT\r\n"] ∧
    (after (Client.disconnect true) w).connected = false := by
  obtain ⟨hconn, hsync⟩ := hstep
  obtain ⟨hs1, _⟩ := sync_sendW' (cmd := str "QUIT") (gs := ⟨[r], none⟩ :: rest) hsync hsc
    (by intro x hx; simp only [nextG, List.head?_cons, Option.getD_some, List.mem_singleton] at hx; subst hx; exact hr)
  simp only [nextG, List.head?_cons, Option.getD_some, List.nil_append] at hs1
  have hc1 : (sendW (str "QUIT") w).connected = true := hconn
  obtain ⟨c', net', h1, h2⟩ := ctlRecv_sync hc1 hs1
  obtain ⟨w2, hw2, hcn2, htr2⟩ := disconnect_tail (some (replyOf r)) (recvW (sendW (str "QUIT") w) r.code r.text c' net')
  have hrun : Client.disconnect true w = (.ok (some (replyOf r)), w2) := by
    unfold Client.disconnect processCommand
    have hmk : mkCmd "QUIT" none = pure (str "QUIT") := rfl
    rw [hmk]
    open DataL in msimp [DataL.bind_ok (ctlSend_conn (str "QUIT") w hconn), DataL.bind_ok h1]
    open DataL in msimp at hw2
    exact hw2
  refine ⟨by simp [result, hrun], ?_, by simp [after, hrun, hcn2]⟩
  have htr : (after (Client.disconnect true) w).trace = w.trace ++
      (w.observers.map (fun o => Ev.obsRequest o (str "QUIT")) ++ [.ctlWrite (str "QUIT" ++ CRLF)] ++
        ([.ctlReadLine, .ctlReply r.code r.text] ++ (if r.code = 421 then [.ctlShutdown, .ctlClose] else []) ++
         w.observers.map (fun o => Ev.obsReply o r.code r.text)) ++
        (if (recvW (sendW (str "QUIT") w) r.code r.text c' net').connected = true then [.ctlShutdown, .ctlClose] else [])) := by
    simp [after, hrun, htr2, recvW, sendW]
  rw [DataL.added_of_trace _ _ _ htr]
  have ho1 : writes (w.observers.map (fun o => Ev.obsRequest o (str "QUIT"))) = [] :=
    DataL.writes_eq_nil _ (by intro e he b; obtain ⟨o, _, rfl⟩ := List.mem_map.mp he; simp)
  have ho2 : writes (w.observers.map (fun o => Ev.obsReply o r.code r.text)) = [] :=
    DataL.writes_eq_nil _ (by intro e he b; obtain ⟨o, _, rfl⟩ := List.mem_map.mp he; simp)
  simp only [CtlL.writes_append, ho1, ho2]
  split <;> split <;> simp [writes] <;> decide

/-- receiving a 421 reply closes the connection: the client reports not connected -/
theorem reply_421_disconnects (w : World) (r : WfReply) (q : List WfReply) (hstep : InStep w (r :: q)) (h421 : r.code = 421) :
    result ctlRecv w = .ok (replyOf r) ∧ (after ctlRecv w).connected = false ∧
    Ev.ctlClose ∈ added ctlRecv w := by
  obtain ⟨c', net', h1, _⟩ := ctlRecv_sync hstep.1 hstep.2
  refine ⟨by simp [result, h1], by simp [after, h1, recvW, h421], ?_⟩
  have htr : (after ctlRecv w).trace = w.trace ++ ([.ctlReadLine, .ctlReply r.code r.text] ++ [.ctlShutdown, .ctlClose] ++
      w.observers.map (fun o => Ev.obsReply o r.code r.text)) := by
    simp [after, h1, recvW, h421]
  rw [DataL.added_of_trace _ _ _ htr]
  simp

/-- a successful connect reports connected -/
theorem connected_after_connect (h : Bytes) (p : Nat) (c : Option (Bytes × Bytes)) (w : World) (rs : Replies) (w' : World)
    (hc : Client.connect h p c w = (.ok rs, w')) (hno421 : ∀ r ∈ rs.list, r.code ≠ 421) : w'.connected = true := by
  obtain ⟨ws, ⟨evs0, ht0, _, hrec⟩, _⟩ :=
    CtlL.connect_spec (s := ⟨true, true, w.ttype == .ascii, false⟩) rfl [] hc
  rw [CtlL.connect_eq] at hc
  simp only [CtlL.bind_ok] at hc
  obtain ⟨_, w0, h0, x, w1, h1, h2⟩ := hc
  have := CtlL.connectCheck_ok h0; subst this
  rw [connectCore_run] at h1
  have k1 : CtlL.Keeps Rc greet := by
    unfold greet
    exact CtlL.Keeps.bind (recvInto_rc _) (fun x => by dsimp only; split; exact recvInto_rc _; exact CtlL.Keeps.pure _)
  have k2 : CtlL.Keeps Rc (CtlL.connectTail c x) := by
    unfold CtlL.connectTail
    split
    · exact CtlL.Keeps.pure _
    · split
      · exact CtlL.Keeps.bind (processLogin_rc _ _ _) (fun _ => CtlL.Keeps.pure _)
      · exact CtlL.Keeps.pure _
  obtain ⟨evs, ht, hcn⟩ := CtlL.IsPre.trans (k1.of_eq h1) (k2.of_eq h2)
  rcases hcn rfl with hcn | ⟨t, hmem⟩
  · exact hcn
  · exfalso
    have he : evs0 = (if w0.connected then [.ctlClose] else []) ++ [.ctlConnect h p] ++
        w0.observers.map (fun o => Ev.obsConnected o h p) ++ evs := by
      have := ht0.symm.trans ht
      simp only [openW, List.append_assoc] at this
      simpa only [List.append_assoc] using List.append_cancel_left this
    have : (⟨421, t⟩ : Reply) ∈ received evs0 := by
      rw [he, CtlL.received_append]
      refine List.mem_append_right _ ?_
      unfold received
      rw [List.mem_filterMap]
      exact ⟨_, hmem, rfl⟩
    rw [hrec] at this
    exact hno421 _ this rfl

/-- after a disconnect, operations fail without touching the old connection until a new connect -/
theorem no_write_while_disconnected (op : Op) (w : World) (hd : w.connected = false)
    (hne : ∀ h p c, op ≠ .connect h p c) : writes (added op.run w) = [] := by
  obtain ⟨_, evs, ht, hw⟩ := run_rd op hne w hd
  rw [DataL.added_of_trace _ _ evs ht]
  exact hw

end Ftp.Props.C13
