import Ftp.Generated.SourceFacts
import Ftp.Props.C12
/-
  C12, tie to the source by translation: "no further block (at most 8192 bytes)" - both block buffers of
  src/data_connection.cpp have that size now.
-/
namespace Ftp.Props.C12
open Ftp

theorem block_sizes_are_the_sources : Generated.recvBlock = 8192 ∧ Generated.sendBlock = 8192 := by decide

end Ftp.Props.C12
