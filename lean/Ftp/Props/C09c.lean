import Ftp.Spec.Session
import Ftp.Props.C09
import Ftp.Lemmas.ClientCtl
/-
  C09 (client level) - one command line per protocol step; caller text cannot inject commands.
-/
namespace Ftp.Props.C09
open Ftp Ftp.Client Ftp.Session Ftp.Endpoint Ftp.Client.CtlL

/-- the caller-supplied texts of a call -/
def textArgs : Op → List Bytes
  | .connect _ _ (some (u, p)) => [u, p]
  | .login u p => [u, p]
  | .simple _ (some a) => [a]
  | .rename a b => [a, b]
  | .download p _ => [p]
  | .upload _ p _ => [p]
  | .list (some p) _ => [p]
  | _ => []

/-- the verbs are the library's own constants -/
def verbOk : Op → Prop
  | .simple v _ => hasCrLf (str v) = false
  | .upload v _ _ => hasCrLf (str v) = false
  | _ => True

/-- every write of every call, in every state, is exactly one line: some text free of CR and LF followed by a single
    CR LF -/
theorem every_write_is_one_line (op : Op) (w : World) (hv : verbOk op) :
    ∀ b ∈ writes (added op.run w), ∃ line, b = line ++ [CR, LF] ∧ hasCrLf line = false := by
  have hv' : OpVerbOk OneLine op := by
    cases op <;> first | exact .inr hv | trivial
  intro b hb
  exact added_of_rt (run_rt cmdOk_oneLine op hv') w _ (mem_writes.mp hb) b rfl

private theorem textArgs_eq (op : Op) : textArgs op = callTexts op := by
  cases op with
  | connect h p c => rcases c with _ | ⟨u, p⟩ <;> rfl
  | simple v a => cases a <;> rfl
  | list p n => cases p <;> rfl
  | _ => rfl

/-- `crlf_argument_rejected` for the worlds in which no data connection object is alive when the call starts (as
    between any two calls of a real run: `conn` is the object on the stack of a transfer operation).  Without that
    hypothesis the statement below is false: the scope exit of a transfer operation closes the descriptors of a
    pre-existing `conn`, e.g. `w := { mode := .passive, ttype := .binary, rfc := true, conn := some { sock := some 3 } }`,
    `op := .download (str "a\r\nDELE b") false` gives `added op.run w = [.dataClose 3]`. -/
private theorem crlf_argument_rejected_no_conn (op : Op) (w : World) (h : ∃ a ∈ textArgs op, hasCrLf a = true)
    (hconn : w.conn = none) : result op.run w = .throw ∧ added op.run w = [] := by
  rw [textArgs_eq] at h
  have e := run_rejects op w h hconn
  unfold result added after
  rw [e]
  exact ⟨rfl, by simp⟩

/-- the counterexample to `crlf_argument_rejected` as stated (for every `w`) -/
private theorem crlf_argument_rejected_counterexample :
    let w : World := { mode := .passive, ttype := .binary, rfc := true, conn := some { sock := some 3 } }
    let op : Op := .download (str "a\r\nDELE b") false
    (∃ a ∈ textArgs op, hasCrLf a = true) ∧ added op.run w = [.dataClose 3] := by decide

/-- a call whose caller text contains CR or LF is rejected with an error before anything is sent (and before the
    connection is opened); `w.conn = none`: no data connection object of an earlier call is alive (C17.balanced: none
    ever survives a call) -/
theorem crlf_argument_rejected (op : Op) (w : World) (h : ∃ a ∈ textArgs op, hasCrLf a = true) (hconn : w.conn = none) :
    result op.run w = .throw ∧ added op.run w = [] :=
  crlf_argument_rejected_no_conn op w h hconn

/-- caller text free of CR and LF is transmitted unchanged: the first command of a simple call is verb SP text -/
theorem text_unchanged (v : String) (a : Bytes) (w : World) (ha : hasCrLf a = false) (hc : w.connected = true) :
    (writes (added (Op.simple v (some a)).run w)).head? = some (str v ++ [SP] ++ a ++ [CR, LF]) := by
  obtain ⟨rest, h⟩ := simple_first_write v a w ha hc
  have e : after (Op.simple v (some a)).run w = (simple v (some a) w).2 := map_apply (simple v (some a)) Out.reply w
  unfold added
  rw [e, h]
  rfl

end Ftp.Props.C09
