import Ftp.Spec.Session
import Ftp.Props.C06
import Ftp.Lemmas.ClientSession
/-
  C06 (client level) - data connections go to, or are advertised at, exactly the negotiated endpoint.
-/
set_option linter.unusedVariables false
set_option linter.unusedSimpArgs false

namespace Ftp.Props.C06
open Ftp Ftp.Client Ftp.Session Ftp.Props.C01 Ftp.Endpoint Ftp.Client.SessL

def connects (tr : List Ev) : List Ev := tr.filter fun | .dataConnect _ _ _ _ => true | _ => false

private theorem connects_append (a b : List Ev) : connects (a ++ b) = connects a ++ connects b := by
  simp [connects]

private theorem opened_append (a b : List Ev) : opened (a ++ b) = opened a ++ opened b := by
  simp [opened]

private theorem quiet_of_pn {l : List Ev} (h : ∀ e ∈ l, Pn e) : connects l = [] ∧ opened l = [] := by
  induction l with
  | nil => exact ⟨rfl, rfl⟩
  | cons e t ih =>
    obtain ⟨i1, i2⟩ := ih (fun e he => h e (List.mem_cons_of_mem _ he))
    have he := h e (List.mem_cons_self ..)
    cases e <;> simp_all [connects, opened, Pn, isOpenEv]

private theorem mid (A B : List Ev) (d : Nat) (addr : Bytes) (port : Nat) (ok : Bool) (hA : ∀ e ∈ A, Pn e)
    (hB : ∀ e ∈ B, Pn e) :
    connects (A ++ [Ev.dataSocket d, Ev.dataConnect d addr port ok] ++ B) = [Ev.dataConnect d addr port ok] ∧
    opened (A ++ [Ev.dataSocket d, Ev.dataConnect d addr port ok] ++ B) = [d] := by
  simp only [connects_append, opened_append, (quiet_of_pn hA).1, (quiet_of_pn hA).2, (quiet_of_pn hB).1,
    (quiet_of_pn hB).2]
  exact ⟨rfl, rfl⟩

private theorem turnEvs_pn (w : World) (c : Bytes) (code : Nat) (text : Bytes) : ∀ e ∈ turnEvs w c code text, Pn e :=
  fun e he => pn_of_ctl e (turnEvs_ctl w c code text e he)

/-- the passive set-up once the reply has been parsed: connect, then the transfer command -/
private theorem passive_tail (cmd : Bytes) (rs : Replies) (w w2 : World) (addr : Bytes) (port : Nat) (A : List Ev)
    (m : M (Bool × Replies)) (hA : ∀ e ∈ A, Pn e) (ht : w2.trace = w.trace ++ A) (hd : w2.nextD = w.nextD)
    (hok : w2.connectOks = w.connectOks)
    (hrun : m w = (dataConnect addr port >>= fun _ => passiveRest cmd rs) w2) :
    connects (added m w) = [Ev.dataConnect w.nextD addr port (w.connectOks.head?.getD false)] ∧
    opened (added m w) = [w.nextD] := by
  cases hc : w.connectOks.head?.getD false with
  | false =>
    have h3 := dataConnect_fail addr port w2 (by rw [hok]; exact hc)
    have htr : (after m w).trace = w.trace ++ (A ++ [Ev.dataSocket w.nextD, Ev.dataConnect w.nextD addr port false] ++
        [Ev.dataClose w.nextD]) := by
      simp only [after, hrun, CtlL.bind_apply, h3, ht, hd]
      simp
    rw [DataL.added_of_trace _ _ _ htr]
    exact mid A _ _ _ _ _ hA (by intro e he; simp only [List.mem_singleton] at he; subst he; rfl)
  | true =>
    have h3 := dataConnect_ok addr port w2 (by rw [hok]; exact hc)
    obtain ⟨_, B, hB, pB⟩ := passiveRest_pn cmd rs (dcW addr port w2)
    have htr : (after m w).trace = w.trace ++ (A ++ [Ev.dataSocket w.nextD, Ev.dataConnect w.nextD addr port true] ++ B) := by
      simp only [after, hrun, CtlL.bind_apply, h3]
      rw [hB]
      simp [dcW, ht, hd]
    rw [DataL.added_of_trace _ _ _ htr]
    exact mid A B _ _ _ _ hA pB

/-- EPSV: exactly one data connection is opened, to the control connection's peer address at the port written in the
    229 reply -/
theorem epsv_connects_to_negotiated_port (cmd : Bytes) (rs : Replies) (w : World) (s : WfReply) (rest : List SGroup)
    (port : Nat) (hstep : InStep w []) (hs : s.wf) (hacc : s.code < 400) (hport : parseEpsv s.text = some port)
    (hsc : w.script = (⟨[s], none⟩ :: rest).map SGroup.enc) (hwf : WfScript rest) :
    connects (added (processEpsv cmd rs) w) = [Ev.dataConnect w.nextD (addrText w) port (w.connectOks.head?.getD false)] ∧
    (opened (added (processEpsv cmd rs) w)) = [w.nextD] := by
  obtain ⟨hconn, hsync⟩ := hstep
  obtain ⟨c', net', h1, _, _, _⟩ := turn_run (gs := ⟨[s], none⟩ :: rest) (x := s) (q' := []) (str "EPSV") rs hconn hsync hsc
    (by intro x hx; simp only [nextG, List.head?_cons, Option.getD_some, List.mem_singleton] at hx; subst hx; exact hs) rfl
  have hneg : (replyOf s).isNegative = false := by rw [isNegative_replyOf hs]; simp; omega
  refine passive_tail cmd (rs.append (replyOf s)) w (turnW (str "EPSV") w s c' net') (addrText w) port _ _
    (turnEvs_pn w (str "EPSV") s.code s.text) (turnW_trace ..) rfl rfl ?_
  unfold processEpsv passiveRest
  have hmk : mkCmd "EPSV" none = pure (str "EPSV") := rfl
  rw [hmk]
  have hp : parseEpsv (replyOf s).text = some port := hport
  open DataL in msimp [DataL.bind_ok h1, hneg, hp]
  rfl


/-- PASV: ... to the IPv4 address and the port p1 * 256 + p2 written in the 227 reply -/
theorem pasv_connects_to_negotiated_endpoint (cmd : Bytes) (rs : Replies) (w : World) (s : WfReply) (rest : List SGroup)
    (ip : Bytes) (port : Nat) (hstep : InStep w []) (hs : s.wf) (hacc : s.code < 400) (hport : parsePasv s.text = some (ip, port))
    (hsc : w.script = (⟨[s], none⟩ :: rest).map SGroup.enc) (hwf : WfScript rest) :
    connects (added (processPasv cmd rs) w) = [Ev.dataConnect w.nextD ip port (w.connectOks.head?.getD false)] ∧
    (opened (added (processPasv cmd rs) w)) = [w.nextD] := by
  obtain ⟨hconn, hsync⟩ := hstep
  obtain ⟨c', net', h1, _, _, _⟩ := turn_run (gs := ⟨[s], none⟩ :: rest) (x := s) (q' := []) (str "PASV") rs hconn hsync hsc
    (by intro x hx; simp only [nextG, List.head?_cons, Option.getD_some, List.mem_singleton] at hx; subst hx; exact hs) rfl
  have hneg : (replyOf s).isNegative = false := by rw [isNegative_replyOf hs]; simp; omega
  refine passive_tail cmd (rs.append (replyOf s)) w (turnW (str "PASV") w s c' net') ip port _ _
    (turnEvs_pn w (str "PASV") s.code s.text) (turnW_trace ..) rfl rfl ?_
  unfold processPasv passiveRest
  have hmk : mkCmd "PASV" none = pure (str "PASV") := rfl
  rw [hmk]
  have hp : parsePasv (replyOf s).text = some (ip, port) := hport
  open DataL in msimp [DataL.bind_ok h1, hneg, hp]

/-- a 227 / 229 reply without well-formed fields is reported as an error: nothing is connected to -/
theorem malformed_passive_reply_is_an_error (cmd : Bytes) (rs : Replies) (w : World) (s : WfReply) (rest : List SGroup)
    (hstep : InStep w []) (hs : s.wf) (hacc : s.code < 400)
    (hsc : w.script = (⟨[s], none⟩ :: rest).map SGroup.enc) :
    (parseEpsv s.text = none → result (processEpsv cmd rs) w = .throw ∧ opened (added (processEpsv cmd rs) w) = []) ∧
    (parsePasv s.text = none → result (processPasv cmd rs) w = .throw ∧ opened (added (processPasv cmd rs) w) = []) := by
  obtain ⟨hconn, hsync⟩ := hstep
  have hneg : (replyOf s).isNegative = false := by rw [isNegative_replyOf hs]; simp; omega
  have hnx : ∀ x ∈ (nextG (⟨[s], none⟩ :: rest)).replies, x.wf := by
    intro x hx; simp only [nextG, List.head?_cons, Option.getD_some, List.mem_singleton] at hx; subst hx; exact hs
  constructor
  · intro hport
    obtain ⟨c', net', h1, _, _, _⟩ := turn_run (gs := ⟨[s], none⟩ :: rest) (x := s) (q' := []) (str "EPSV") rs hconn hsync hsc hnx rfl
    have hrun : processEpsv cmd rs w = (.throw, turnW (str "EPSV") w s c' net') := by
      unfold processEpsv
      have hmk : mkCmd "EPSV" none = pure (str "EPSV") := rfl
      rw [hmk]
      have hp : parseEpsv (replyOf s).text = none := hport
      open DataL in msimp [DataL.bind_ok h1, hneg, hp]
    refine ⟨by simp [result, hrun], ?_⟩
    rw [DataL.added_of_trace _ _ _ (by simp only [after, hrun]; exact turnW_trace ..)]
    exact (quiet_of_pn (turnEvs_pn _ _ _ _)).2
  · intro hport
    obtain ⟨c', net', h1, _, _, _⟩ := turn_run (gs := ⟨[s], none⟩ :: rest) (x := s) (q' := []) (str "PASV") rs hconn hsync hsc hnx rfl
    have hrun : processPasv cmd rs w = (.throw, turnW (str "PASV") w s c' net') := by
      unfold processPasv
      have hmk : mkCmd "PASV" none = pure (str "PASV") := rfl
      rw [hmk]
      have hp : parsePasv (replyOf s).text = none := hport
      open DataL in msimp [DataL.bind_ok h1, hneg, hp]
    refine ⟨by simp [result, hrun], ?_⟩
    rw [DataL.added_of_trace _ _ _ (by simp only [after, hrun]; exact turnW_trace ..)]
    exact (quiet_of_pn (turnEvs_pn _ _ _ _)).2

private theorem writes_obsRequest (obs : List Nat) (c : Bytes) : writes (obs.map (fun o => Ev.obsRequest o c)) = [] := by
  induction obs <;> simp_all [writes]

/-- the events of the active set-up when the advertisement can be built -/
private theorem active_events (eprt : Bool) (cmd : Bytes) (rs : Replies) (w : World) (c : Bytes)
    (hconn : w.connected = true) (hl : activeLine eprt w = some c) :
    ∃ rest, added (processActive eprt cmd rs) w =
        [Ev.dataSocket w.nextD, Ev.dataBind w.nextD (addrText w) 0 (w.listenPorts.head?.getD 0), Ev.dataListen w.nextD] ++ rest ∧
      (writes rest).head? = some (c ++ [CR, LF]) := by
  obtain ⟨_, evs, ht, _⟩ := activeRest_t cmd rs (sendW c (listenW w))
  refine ⟨w.observers.map (fun o => Ev.obsRequest o c) ++ [.ctlWrite (c ++ CRLF)] ++ evs, ?_, ?_⟩
  · apply DataL.added_of_trace
    rw [after, processActive_run eprt cmd rs w c hconn hl, ht]
    simp [sendW, listenW]
  · rw [CtlL.writes_append, CtlL.writes_append, writes_obsRequest]
    rfl

/-- active mode: the client is already listening (socket, bind to the control connection's local address, listen)
    when it advertises, and the EPRT argument decodes - by the server-side reference decoder - to exactly the family,
    address and port of that listening socket -/
theorem eprt_advertises_listening_socket (cmd : Bytes) (rs : Replies) (w : World) (hconn : w.connected = true)
    (hp : w.listenPorts.head?.getD 0 < 65536) :
    ∃ rest, added (processActive true cmd rs) w =
        [Ev.dataSocket w.nextD, Ev.dataBind w.nextD (addrText w) 0 (w.listenPorts.head?.getD 0), Ev.dataListen w.nextD] ++ rest ∧
      ∃ line, (writes rest).head? = some (line ++ [CR, LF]) ∧ line.take 5 = str "EPRT " ∧
        Spec.decodeEprtArg (line.drop 5) = some ((if w.v6 then 2 else 1), addrText w, w.listenPorts.head?.getD 0) := by
  obtain ⟨rest, h1, h2⟩ := active_events true cmd rs w _ hconn rfl
  refine ⟨rest, h1, _, h2, ?_⟩
  have hbar : 124 ∉ addrText w := by
    rcases CtlL.addrText_cases w with h | h <;> (rw [h]; decide)
  have := eprt_roundtrip (if w.v6 = true then .v6 else .v4) (addrText w) (w.listenPorts.head?.getD 0) hbar hp
  refine ⟨this.1, ?_⟩
  rw [this.2]
  cases w.v6 <;> rfl

/-- PORT likewise for IPv4; for an IPv6 control connection PORT cannot express the endpoint and is refused before
    anything is sent -/
theorem port_advertises_listening_socket (cmd : Bytes) (rs : Replies) (w : World) (hconn : w.connected = true)
    (hp : w.listenPorts.head?.getD 0 < 65536) :
    (w.v6 = false →
      ∃ rest, added (processActive false cmd rs) w =
          [Ev.dataSocket w.nextD, Ev.dataBind w.nextD (addrText w) 0 (w.listenPorts.head?.getD 0), Ev.dataListen w.nextD] ++ rest ∧
        ∃ line, (writes rest).head? = some (line ++ [CR, LF]) ∧ line.take 5 = str "PORT " ∧
          Spec.decodePortArg (line.drop 5) = some ([127, 0, 0, 1], w.listenPorts.head?.getD 0)) ∧
    (w.v6 = true → result (processActive false cmd rs) w = .throw ∧ writes (added (processActive false cmd rs) w) = []) := by
  constructor
  · intro hv6
    have haddr : addrText w = dotted 127 0 0 1 := by
      simp only [addrText, hv6, Bool.false_eq_true, if_false]
      decide
    obtain ⟨c, hc, ht, hdec⟩ := port_roundtrip 127 0 0 1 (w.listenPorts.head?.getD 0) (by omega) (by omega) (by omega)
      (by omega) hp
    have hl : activeLine false w = some c := by
      simp only [activeLine, Bool.false_eq_true, if_false, hv6, haddr]
      exact hc
    obtain ⟨rest, h1, h2⟩ := active_events false cmd rs w c hconn hl
    exact ⟨rest, h1, c, h2, ht, hdec⟩
  · intro hv6
    have hl : activeLine false w = none := by
      simp only [activeLine, Bool.false_eq_true, if_false, hv6, if_true]
      rfl
    have hrun := processActive_refused cmd rs w hl
    refine ⟨by simp [result, hrun], ?_⟩
    rw [DataL.added_of_trace _ _ [Ev.dataSocket w.nextD, Ev.dataBind w.nextD (addrText w) 0 (w.listenPorts.head?.getD 0),
      Ev.dataListen w.nextD] (by simp only [after, hrun]; rfl)]
    rfl

/-- a program that accepts at most one connection -/
private def AtMost1 {α} (m : M α) : Prop :=
  ∀ w, ∃ evs, (m w).2.trace = w.trace ++ evs ∧ (evs.filter isAccEv).length ≤ 1

private theorem filter_acc_of_pa {l : List Ev} (h : ∀ e ∈ l, Pa e) : l.filter isAccEv = [] := by
  rw [List.filter_eq_nil_iff]
  intro e he
  simp [h e he]

private theorem AtMost1.of_keeps {α} {m : M α} (h : CtlL.Keeps (CtlL.Rg Pa) m) : AtMost1 m := by
  intro w
  obtain ⟨_, evs, ht, hp⟩ := h w
  exact ⟨evs, ht, by simp [filter_acc_of_pa hp]⟩

private theorem AtMost1.bind {α β} {m : M α} {f : α → M β} (hm : CtlL.Keeps (CtlL.Rg Pa) m) (hf : ∀ a, AtMost1 (f a)) :
    AtMost1 (m >>= f) := by
  intro w
  obtain ⟨_, e1, t1, p1⟩ := hm w
  rw [CtlL.bind_apply]
  rcases hmw : m w with ⟨a | _, w1⟩
  · rw [hmw] at t1
    have t1' : w1.trace = w.trace ++ e1 := t1
    obtain ⟨e2, t2, p2⟩ := hf a w1
    refine ⟨e1 ++ e2, by rw [t2, t1', List.append_assoc], ?_⟩
    simpa [List.filter_append, filter_acc_of_pa p1] using p2
  · rw [hmw] at t1
    exact ⟨e1, t1, by simp [filter_acc_of_pa p1]⟩

private theorem AtMost1.accept {α} (a : α) : AtMost1 (dataAccept >>= fun _ => (pure a : M α)) := by
  intro w
  rw [CtlL.bind_apply]
  unfold dataAccept
  rcases hc : w.conn with _ | ⟨sock, acc⟩
  · exact ⟨[], by simp [CtlL.bind_apply, getW, hc, throwE], by simp⟩
  · rcases acc with _ | l
    · exact ⟨[], by simp [CtlL.bind_apply, getW, hc, throwE], by simp⟩
    · exact ⟨[.dataAccept l w.nextD], by simp [getW, hc, modifyW, emit, pure], Nat.le_refl 1⟩

private theorem active_jp (cmd c : Bytes) (rs : Replies) : AtMost1 (do
      let __x ← processCommandInto c rs
      match __x with
        | (r, rs) =>
          if r.isNegative = true then pure (false, rs)
          else do
            let __x ← processCommandInto cmd rs
            match __x with
              | (r, rs) =>
                if r.isNegative = true then pure (false, rs)
                else do
                  dataAccept
                  pure (true, rs)) := by
  refine AtMost1.bind (processCommandInto_p pa_of_ctl _ _) fun x => ?_
  obtain ⟨r, rs1⟩ := x
  show AtMost1 (if r.isNegative = true then _ else _)
  split
  · exact AtMost1.of_keeps (CtlL.Keeps.pure _)
  refine AtMost1.bind (processCommandInto_p pa_of_ctl _ _) fun y => ?_
  obtain ⟨r2, rs2⟩ := y
  show AtMost1 (if r2.isNegative = true then _ else _)
  split
  · exact AtMost1.of_keeps (CtlL.Keeps.pure _)
  · exact AtMost1.accept _

/-- at most one connection is accepted per transfer, and only after both the set-up and the transfer command were
    answered non-negatively -/
theorem at_most_one_accept (eprt : Bool) (cmd : Bytes) (rs : Replies) (w : World) :
    ((added (processActive eprt cmd rs) w).filter fun | .dataAccept _ _ => true | _ => false).length ≤ 1 := by
  have key : AtMost1 (processActive eprt cmd rs) := by
    unfold processActive
    refine AtMost1.bind dataListen_pa fun port => AtMost1.bind CtlL.Keeps.getW fun w1 => ?_
    dsimp only
    split
    · exact AtMost1.bind (CtlL.Keeps.pure _) fun c => active_jp cmd c rs
    · split
      · exact AtMost1.bind (CtlL.Keeps.pure _) fun c => active_jp cmd c rs
      · exact AtMost1.bind CtlL.Keeps.throwE fun c => active_jp cmd c rs
  obtain ⟨evs, ht, hlen⟩ := key w
  rw [DataL.added_of_trace _ _ evs ht]
  have : (evs.filter fun | .dataAccept _ _ => true | _ => false) = evs.filter isAccEv := by
    congr 1
  rw [this]
  exact hlen

end Ftp.Props.C06
