import Ftp.Generated.ClientFacts
import Ftp.Props.C02
/-
  C02, tie to the source by translation: the two places where a call reads a second reply for one command - the 220 that
  follows a 120 greeting, the completion reply that follows a 426 answer to ABOR - are triggered in the model by the very
  codes src/client.cpp compares with now (tools/gen_source_facts.py, re-run on every check).
-/
namespace Ftp.Props.C02
open Ftp Ftp.Client

/-- `process_abort` reads one more reply exactly after the code the source compares with -/
theorem abort_reads_second_reply_on_the_sources_code (rs : Replies) :
    processAbort rs = (do
      let c ← mkCmd "ABOR" none
      let (r, rs) ← processCommandInto c rs
      if r.code == Generated.abortSecondReplyAfter then
        let (_, rs) ← recvInto rs
        pure rs
      else pure rs) := rfl

/-- `connect` reads the greeting that follows a preliminary reply exactly after the code the source compares with -/
theorem connect_reads_second_greeting_on_the_sources_code (host : Bytes) (port : Nat) (cred : Option (Bytes × Bytes)) :
    connect host port cred = (do
      match cred with
      | some (u, p) => let _ ← mkCmd "USER" (some u); let _ ← mkCmd "PASS" (some p); pure ()
      | none => pure ()
      let w0 ← getW
      if w0.connected then
        emit .ctlClose
        modifyW fun w => { w with connected := false }
      modifyW fun w =>
        let g : Group := match w.script with
          | g :: _ => g
          | [] => { raws := [] }
        { w with ctl := {}, connected := true, script := w.script.tail,
                 net := { w.net with stream := g.raws.flatten } }
      emit (.ctlConnect host port)
      forObservers (fun o => .obsConnected o host port)
      let (r, rs) ← recvInto Replies.empty
      let (r, rs) ← if r.code == Generated.greetingPreliminary then recvInto rs else pure (r, rs)
      if r.isNegative then pure rs
      else
        match cred with
        | some (u, p) => let (_, rs) ← processLogin u p rs; pure rs
        | none => pure rs) := rfl

/-- no other member function of ftp::client compares a reply code with a constant -/
theorem second_reply_sites_are_the_sources :
    (Generated.comparedCodes.filter fun fc => fc.1 ≠ "rename" ∧ fc.1 ≠ "process_login") =
      [("connect", [120]), ("process_abort", [426])] := by decide

end Ftp.Props.C02
