import Ftp.Generated.ClientFacts
import Ftp.Props.C10
/-
  C10, tie to the source by translation (tools/gen_source_facts.py, re-run on every check):
  * the fourteen member functions of ftp::client whose body is `make_command(VERB[, ARG])` + `process_command(command)`
    are translated from src/client.cpp into programs of the model's monad (`Ftp.Generated.*`); they are proved to be the
    model's `simple VERB ARG` for the verb the property prescribes, and therefore to send exactly that one line;
  * the command literals every member function names, and the reply codes it compares with, are those the model and the
    reference automaton use; the four decisive codes (120, 331, 350, 426) are the ones the reference automaton branches on.
  A change of a verb, of a literal or of a decisive code in the source breaks one of these obligations.
-/
namespace Ftp.Props.C10
open Ftp Ftp.Client

/-- the translated simple calls are the model's `simple` with the verb the property names for that call -/
theorem simple_calls_are_the_sources :
    (∀ p, Generated.change_current_directory p = simple "CWD" (some p)) ∧
    (Generated.change_current_directory_up = simple "CDUP" none) ∧
    (Generated.get_current_directory = simple "PWD" none) ∧
    (∀ p, Generated.remove_file p = simple "DELE" (some p)) ∧
    (∀ p, Generated.create_directory p = simple "MKD" (some p)) ∧
    (∀ p, Generated.remove_directory p = simple "RMD" (some p)) ∧
    (∀ p, Generated.get_file_size p = simple "SIZE" (some p)) ∧
    (∀ p, Generated.get_file_modified_time p = simple "MDTM" (some p)) ∧
    (∀ p, Generated.get_status p = simple "STAT" p) ∧
    (Generated.get_system_type = simple "SYST" none) ∧
    (∀ c, Generated.get_help c = simple "HELP" c) ∧
    (Generated.get_site_commands = simple "SITE" (some (str "HELP"))) ∧
    (∀ c, Generated.send_site_command c = simple "SITE" (some c)) ∧
    (Generated.send_noop = simple "NOOP" none) :=
  ⟨fun _ => rfl, rfl, rfl, fun _ => rfl, fun _ => rfl, fun _ => rfl, fun _ => rfl, fun _ => rfl, fun _ => rfl, rfl,
   fun _ => rfl, rfl, fun _ => rfl, rfl⟩

/-- ... and so every translated call that returns has sent exactly the one line the property prescribes for it
    (`Op.simple v a` runs `simple v a`, which by the theorem above is the translation of the member function) -/
theorem translated_simple_call_sends_its_line (v : String) (a : Option Bytes) (w : World)
    (q : List Ftp.Props.C01.WfReply) (sc : List Session.SGroup)
    (hstep : Session.InStep w q) (hsc : w.script = sc.map Session.SGroup.enc) (hwf : Session.WfScript sc)
    (hret : ∃ o, Session.result (Session.Op.simple v a).run w = .ok o) :
    (Session.writes (Session.added (Session.Op.simple v a).run w)).map Session.lineOf = [Spec.line v a] := by
  have h := commands_follow_reference (.simple v a) w q sc (Or.inl hstep) hsc hwf hret
  rw [h]
  simp [Spec.expectedLines, callOf]

/-- only SIZE and MDTM hand their reply to a typed-reply constructor (C16 judges what those make of it) -/
theorem typed_wrappers_are_the_sources :
    Generated.typedWrappers = [("get_file_size", "file_size_reply"), ("get_file_modified_time", "file_modified_time_reply")] := by
  decide

/-- the command literals of src/client.cpp, function by function, are the ones the model's operations use -/
theorem command_literals_are_the_sources :
    Generated.commandLiterals =
      [("connect", ["USER", "PASS", "AUTH TLS"]), ("logout", ["REIN"]),
       ("change_current_directory", ["CWD"]), ("change_current_directory_up", ["CDUP"]), ("get_current_directory", ["PWD"]),
       ("upload_file", ["STOU", "STOR"]), ("append_file", ["APPE"]), ("get_file_list", ["NLST", "LIST"]),
       ("rename", ["RNFR", "RNTO"]), ("remove_file", ["DELE"]), ("create_directory", ["MKD"]), ("remove_directory", ["RMD"]),
       ("get_file_size", ["SIZE"]), ("get_file_modified_time", ["MDTM"]), ("get_status", ["STAT"]),
       ("get_system_type", ["SYST"]), ("get_help", ["HELP"]), ("get_site_commands", ["SITE", "HELP"]),
       ("send_site_command", ["SITE"]), ("send_noop", ["NOOP"]), ("disconnect", ["QUIT"]),
       ("make_type_command", ["TYPE", "I", "TYPE", "A"]), ("process_login", ["USER", "PASS", "PBSZ 0", "PROT P"]),
       ("process_download", ["RETR"]), ("process_abort", ["ABOR"]), ("process_epsv_command", ["EPSV"]),
       ("make_eprt_command", ["EPRT"]), ("process_pasv_command", ["PASV"]), ("make_port_command", ["PORT"])] := by
  decide

/-- no member function compares a reply code with anything but these -/
theorem compared_codes_are_the_sources :
    Generated.comparedCodes = [("connect", [120]), ("rename", [350]), ("process_login", [331]), ("process_abort", [426])] := by
  decide

/-- the reference automaton branches on the codes the source compares with: RNTO only after the source's code ... -/
theorem rename_advances_on_the_sources_code (s : Spec.Settings) (a b : Bytes) (c : Nat) (cs : List Nat) (l : Bytes) :
    Spec.expectedLines s (.rename a b) (c :: cs) l =
      Spec.line "RNFR" (some a) :: (if c = Generated.renameToAfter then [Spec.line "RNTO" (some b)] else []) := by
  have h : Generated.renameToAfter = 350 := by decide
  rw [h]; rfl

/-- ... PASS only after the source's code, and a login that is refused at USER stops there -/
theorem login_advances_on_the_sources_code (s : Spec.Settings) (u p : Bytes) (c : Nat) (cs : List Nat) :
    (c = Generated.loginPassAfter →
      (Spec.loginLines s u p (c :: cs)).take 2 = [Spec.line "USER" (some u), Spec.line "PASS" (some p)]) ∧
    (c ≠ Generated.loginPassAfter → Spec.negative c = true → Spec.loginLines s u p (c :: cs) = [Spec.line "USER" (some u)]) := by
  have h : Generated.loginPassAfter = 331 := by decide
  rw [h]
  constructor
  · intro hc; subst hc; simp [Spec.loginLines]
  · intro hc hn; simp [Spec.loginLines, hc, hn]

/-- the model's operations compare with the very codes of the source -/
theorem model_compares_the_sources_codes :
    (∀ a b, rename a b = (do
      let c1 ← mkCmd "RNFR" (some a)
      let c2 ← mkCmd "RNTO" (some b)
      let (r, rs) ← processCommandInto c1 Replies.empty
      if r.code == Generated.renameToAfter then
        let (_, rs) ← processCommandInto c2 rs
        pure rs
      else pure rs)) ∧
    (∀ rs, processAbort rs = (do
      let c ← mkCmd "ABOR" none
      let (r, rs) ← processCommandInto c rs
      if r.code == Generated.abortSecondReplyAfter then
        let (_, rs) ← recvInto rs
        pure rs
      else pure rs)) :=
  ⟨fun _ _ => rfl, fun _ => rfl⟩

end Ftp.Props.C10
