import Ftp.Props.C10
import Ftp.Props.C11
/-
  C10 with a TLS context: "login sends USER, then PASS only after 331, stops at the first negative reply and on success
  sends - with TLS configured PBSZ 0 and PROT P first - TYPE I or TYPE A", and connect = greeting, AUTH TLS, handshake,
  login.  Model: `Ftp.ClientTls.loginT` / `connectT`; reference: `Ftp.Spec.loginLinesTls` / `connectLinesTls`.
-/
namespace Ftp.Props.C10
open Ftp Ftp.Client Ftp.ClientTls Ftp.Session Ftp.Props.C11

/-- the replies framed on the control channel during a TLS-level trace -/
def repliesT (tr : List EvT) : List Reply := tr.filterMap fun | .ev _ (.ctlReply c t) => some ⟨c, t⟩ | _ => none

/-! ### transport of the plain-level facts through `lift` -/

private theorem bindT_ok {α β} {m : MT α} {f : α → MT β} {w w' : WorldT} {b : β} :
    (m >>= f) w = (.ok b, w') ↔ ∃ a w1, m w = (.ok a, w1) ∧ f a w1 = (.ok b, w') := by
  rw [L.bindT_eq]
  rcases m w with ⟨a | _, w1⟩
  · constructor
    · intro h; exact ⟨a, w1, rfl, h⟩
    · rintro ⟨a', w1', h1, h2⟩
      simp only [Prod.mk.injEq, Res.ok.injEq] at h1
      obtain ⟨rfl, rfl⟩ := h1
      exact h2
  · simp

private theorem pureT_ok {α} {a b : α} {w w' : WorldT} : (pure a : MT α) w = (.ok b, w') ↔ a = b ∧ w = w' := by
  show ((Res.ok a, w) = (Res.ok b, w')) ↔ _
  simp

private theorem throwT_ok {α} {b : α} {w w' : WorldT} : (throwT : MT α) w = (.ok b, w') ↔ False := by
  simp [throwT]

private theorem getT_ok {a w w' : WorldT} : getT w = (.ok a, w') ↔ a = w ∧ w' = w := by
  simp [getT]; constructor <;> (rintro ⟨rfl, rfl⟩; exact ⟨rfl, rfl⟩)

private theorem modifyT_ok {f : WorldT → WorldT} {u : Unit} {w w' : WorldT} : modifyT f w = (.ok u, w') ↔ w' = f w := by
  simp [modifyT]; constructor <;> (intro h; exact h.symm)

private theorem allWrites_append' (a b : List EvT) : allWrites (a ++ b) = allWrites a ++ allWrites b := by
  simp [allWrites, List.filterMap_append]

private theorem repliesT_append (a b : List EvT) : repliesT (a ++ b) = repliesT a ++ repliesT b := by
  simp [repliesT, List.filterMap_append]

private theorem allWrites_map' (t : Bool) (evs : List Ev) : allWrites (evs.map (EvT.ev t)) = writes evs := by
  induction evs with
  | nil => rfl
  | cons e tl ih =>
    have h1 : allWrites ((e :: tl).map (EvT.ev t)) = allWrites [EvT.ev t e] ++ allWrites (tl.map (EvT.ev t)) :=
      allWrites_append' [_] _
    have h2 : writes (e :: tl) = writes [e] ++ writes tl := CtlL.writes_append [e] tl
    rw [h1, h2, ih]
    cases e <;> rfl

private theorem repliesT_map (t : Bool) (evs : List Ev) : repliesT (evs.map (EvT.ev t)) = received evs := by
  induction evs with
  | nil => rfl
  | cons e tl ih =>
    have h1 : repliesT ((e :: tl).map (EvT.ev t)) = repliesT [EvT.ev t e] ++ repliesT (tl.map (EvT.ev t)) :=
      repliesT_append [_] _
    have h2 : received (e :: tl) = received [e] ++ received tl := CtlL.received_append [e] tl
    rw [h1, h2, ih]
    cases e <;> rfl

/-- from `w` to `w'` the TLS-level trace grew by events whose control writes are `ws` and whose framed replies are `rs` -/
private def ExtT (w w' : WorldT) (ws : List Bytes) (rs : List Reply) : Prop :=
  ∃ evs, w'.trace = w.trace ++ evs ∧ allWrites evs = ws ∧ repliesT evs = rs

private theorem ExtT.refl (w : WorldT) : ExtT w w [] [] := ⟨[], by simp, rfl, rfl⟩

private theorem ExtT.trans {a b c : WorldT} {ws ws' : List Bytes} {rs rs' : List Reply} (h1 : ExtT a b ws rs)
    (h2 : ExtT b c ws' rs') : ExtT a c (ws ++ ws') (rs ++ rs') := by
  obtain ⟨e1, t1, a1, b1⟩ := h1
  obtain ⟨e2, t2, a2, b2⟩ := h2
  exact ⟨e1 ++ e2, by rw [t2, t1, List.append_assoc], by rw [allWrites_append', a1, a2],
    by rw [repliesT_append, b1, b2]⟩

private theorem ExtT.added {α} {m : MT α} {w : WorldT} {ws : List Bytes} {rs : List Reply}
    (h : ExtT w (afterT m w) ws rs) : allWrites (addedT m w) = ws ∧ repliesT (addedT m w) = rs := by
  obtain ⟨evs, t, a, b⟩ := h
  unfold addedT
  rw [t, List.drop_left]
  exact ⟨a, b⟩

/-- what a lifted step leaves alone -/
private def Same (w w' : WorldT) : Prop :=
  w'.tlsCtx = w.tlsCtx ∧ w'.ctlSsl = w.ctlSsl ∧ w'.ctlTls = w.ctlTls

private theorem Same.refl (w : WorldT) : Same w w := ⟨rfl, rfl, rfl⟩
private theorem Same.trans {a b c : WorldT} (h1 : Same a b) (h2 : Same b c) : Same a c :=
  ⟨h2.1.trans h1.1, h2.2.1.trans h1.2.1, h2.2.2.trans h1.2.2⟩

/-- a lifted program that returned, in a session that is not broken: the plain program returned the same value, and
    all its events were recorded -/
private theorem lift_ok {α} {m : M α} {w w' : WorldT} {a : α} (hnb : w.ctlSsl = true → w.ctlTls = true)
    (h : lift m w = (.ok a, w')) :
    ∃ b, m { w.base with trace := [] } = (.ok a, b) ∧ w'.base = { b with trace := w.base.trace } ∧
      w'.trace = w.trace ++ b.trace.map (EvT.ev w.ctlTls) ∧ Same w w' := by
  have hnb' : w.ctlTls = true ∨ w.ctlSsl = false := by
    cases hs : w.ctlSsl
    · exact Or.inr rfl
    · exact Or.inl (hnb hs)
  rw [L.lift_eq_of_not_broken m w hnb'] at h
  rcases hm : m { w.base with trace := [] } with ⟨r, b⟩
  rw [hm] at h
  dsimp only at h
  cases hc : L.closeF w b
  · rw [hc] at h
    simp only [Bool.false_eq_true, if_false, Prod.mk.injEq] at h
    obtain ⟨rfl, rfl⟩ := h
    exact ⟨b, rfl, rfl, rfl, rfl, rfl, rfl⟩
  · rw [hc] at h
    simp at h

private theorem lift_ext {α} {m : M α} {w w' : WorldT} {a : α} {ws : List Bytes} {rs : List Reply}
    (hnb : w.ctlSsl = true → w.ctlTls = true) (h : lift m w = (.ok a, w'))
    (hx : ∀ b, m { w.base with trace := [] } = (.ok a, b) →
      CtlL.Ext { w.base with trace := [] } b ws rs ∧ b.ttype = w.base.ttype) :
    ExtT w w' ws rs ∧ Same w w' ∧ w'.base.ttype = w.base.ttype := by
  obtain ⟨b, hm, hb, ht, hs⟩ := lift_ok hnb h
  obtain ⟨⟨evs, t, a1, a2⟩, htt⟩ := hx b hm
  simp only [List.nil_append] at t
  refine ⟨⟨_, ht, ?_, ?_⟩, hs, by rw [hb]; exact htt⟩
  · rw [allWrites_map', t, a1]
  · rw [repliesT_map, t, a2]

private theorem nb_of_same {w w' : WorldT} (h : Same w w') (hnb : w.ctlSsl = true → w.ctlTls = true) :
    w'.ctlSsl = true → w'.ctlTls = true := by
  rw [h.2.1, h.2.2]; exact hnb

/-- one command / reply exchange through the TLS layer that returned -/
private theorem pciT_ok {cmd : Bytes} {rs rs' : Replies} {w w' : WorldT} {r : Reply}
    (hnb : w.ctlSsl = true → w.ctlTls = true) (h : processCommandIntoT cmd rs w = (.ok (r, rs'), w')) :
    rs' = rs.append r ∧ ExtT w w' [cmd ++ CRLF] [r] ∧ r.code < 1000 ∧ Same w w' ∧ w'.base.ttype = w.base.ttype := by
  unfold processCommandIntoT at h
  obtain ⟨b, hm, _⟩ := lift_ok hnb h
  obtain ⟨e, _, l⟩ := CtlL.processCommandInto_ext hm
  obtain ⟨x, s, t⟩ := lift_ext (ws := [cmd ++ CRLF]) (rs := [r]) hnb h (fun b hb =>
    ⟨(CtlL.processCommandInto_ext hb).2.1, ((CtlL.processCommandInto_rg (Q := fun _ => True) trivial _).of_eq hb).1⟩)
  exact ⟨e, x, l, s, t⟩

private theorem recvT_ok {rs rs' : Replies} {w w' : WorldT} {r : Reply}
    (hnb : w.ctlSsl = true → w.ctlTls = true) (h : lift (recvInto rs) w = (.ok (r, rs'), w')) :
    rs' = rs.append r ∧ ExtT w w' [] [r] ∧ r.code < 1000 ∧ Same w w' ∧ w'.base.ttype = w.base.ttype := by
  obtain ⟨b, hm, _⟩ := lift_ok hnb h
  obtain ⟨e, _, l⟩ := CtlL.recvInto_ext hm
  obtain ⟨x, s, t⟩ := lift_ext (ws := []) (rs := [r]) hnb h (fun b hb =>
    ⟨(CtlL.recvInto_ext hb).2.1, ((CtlL.recvInto_rg (Q := fun _ => True) _).of_eq hb).1⟩)
  exact ⟨e, x, l, s, t⟩

private theorem liftMkCmd_ok {v : String} {a : Option Bytes} {c : Bytes} {w w' : WorldT}
    (h : lift (mkCmd v a) w = (.ok c, w')) : Endpoint.makeCommand (str v) a = some c ∧ w' = w := by
  rw [L.lift_mkCmd] at h
  cases hm : Endpoint.makeCommand (str v) a with
  | none => rw [hm] at h; simp at h
  | some c' =>
    rw [hm] at h
    simp only [Prod.mk.injEq, Res.ok.injEq] at h
    exact ⟨by rw [h.1], h.2.symm⟩


/-! ### login -/

/-- the command lines of the TLS login after the credentials were accepted (`rest`: the codes received from there on) -/
private def tlsTail (s : Spec.Settings) (rest : List Nat) : List Bytes :=
  str "PBSZ 0" :: (match rest with
    | [] => []
    | c :: rest' => if Spec.negative c then [] else
      str "PROT P" :: (match rest' with
        | [] => []
        | c' :: _ => if Spec.negative c' then [] else [Spec.typeLine s]))

private theorem loginLinesTls_eq (s : Spec.Settings) (user pass : Bytes) (codes : List Nat) :
    Spec.loginLinesTls s user pass codes =
      match codes with
      | [] => [Spec.line "USER" (some user)]
      | c1 :: rest =>
        if c1 = 331 then
          Spec.line "USER" (some user) :: Spec.line "PASS" (some pass) ::
            (match rest with
             | [] => []
             | c2 :: rest' => if Spec.negative c2 then [] else tlsTail s rest')
        else if Spec.negative c1 then [Spec.line "USER" (some user)]
        else Spec.line "USER" (some user) :: tlsTail s rest := rfl

/-- `processLoginT` after the USER / PASS exchange -/
private def loginTailT (x : Reply × Replies) : MT (Reply × Replies) :=
  if x.1.isNegative then pure x
  else do
    let w ← getT
    if w.tlsCtx then do
      let (r, rs) ← processCommandIntoT (str "PBSZ 0") x.2
      if r.isNegative then pure (r, rs)
      else
        let (r, rs) ← processCommandIntoT (str "PROT P") rs
        if r.isNegative then pure (r, rs)
        else processCommandIntoT (typeCommand w.base.ttype) rs
    else processCommandIntoT (typeCommand w.base.ttype) x.2

private theorem loginTailT_spec {rs2 rs' : Replies} {w2 w' : WorldT} {r r2 : Reply} (s : Spec.Settings)
    (hs : s.asciiType = (w2.base.ttype == .ascii)) (hnb : w2.ctlSsl = true → w2.ctlTls = true) (hl : r2.code < 1000)
    (h : loginTailT (r2, rs2) w2 = (.ok (r, rs'), w')) :
    ∃ ws rl, ExtT w2 w' ws rl ∧ rs'.list = rs2.list ++ rl ∧
      ws.map lineOf = (if Spec.negative r2.code then []
        else if w2.tlsCtx then tlsTail s (rl.map (·.code)) else [Spec.typeLine s]) := by
  rw [← CtlL.neg_eq hl]
  unfold loginTailT at h
  dsimp only at h
  split at h
  · rename_i hneg
    simp only [pureT_ok, Prod.mk.injEq] at h
    obtain ⟨⟨rfl, rfl⟩, rfl⟩ := h
    exact ⟨[], [], ExtT.refl _, by simp, by simp [hneg]⟩
  · rename_i hneg
    simp only [bindT_ok, getT_ok] at h
    obtain ⟨_, _, ⟨e, e'⟩, h⟩ := h
    subst e'; subst e
    rename_i w2
    have hneg' : r2.isNegative = false := by simpa using hneg
    simp only [hneg', Bool.false_eq_true, if_false]
    split at h
    · rename_i htls
      simp only [htls, if_true]
      simp only [bindT_ok] at h
      obtain ⟨⟨r3, rs3⟩, w3, h3, h⟩ := h
      obtain ⟨e3, x3, l3, s3, t3⟩ := pciT_ok hnb h3
      subst e3
      dsimp only at h
      split at h
      · rename_i hn3
        simp only [pureT_ok, Prod.mk.injEq] at h
        obtain ⟨⟨rfl, rfl⟩, rfl⟩ := h
        refine ⟨_, _, x3, by simp, ?_⟩
        rw [CtlL.neg_eq l3] at hn3
        simp [tlsTail, hn3]
      · rename_i hn3
        simp only [bindT_ok] at h
        obtain ⟨⟨r4, rs4⟩, w4, h4, h⟩ := h
        have hnb3 := nb_of_same s3 hnb
        obtain ⟨e4, x4, l4, s4, t4⟩ := pciT_ok hnb3 h4
        subst e4
        dsimp only at h
        rw [CtlL.neg_eq l3] at hn3
        split at h
        · rename_i hn4
          simp only [pureT_ok, Prod.mk.injEq] at h
          obtain ⟨⟨rfl, rfl⟩, rfl⟩ := h
          refine ⟨_, _, x3.trans x4, by simp, ?_⟩
          rw [CtlL.neg_eq l4] at hn4
          simp [tlsTail, hn3, hn4]
        · rename_i hn4
          have hnb4 := nb_of_same s4 hnb3
          obtain ⟨e5, x5, l5, s5, t5⟩ := pciT_ok hnb4 h
          subst e5
          refine ⟨_, _, (x3.trans x4).trans x5, by simp, ?_⟩
          rw [CtlL.neg_eq l4] at hn4
          simp [tlsTail, hn3, hn4]
          exact CtlL.typeCommand_line s _ hs
    · rename_i htls
      have htls' : w2.tlsCtx = false := by simpa using htls
      simp only [htls', Bool.false_eq_true, if_false]
      obtain ⟨e3, x3, l3, s3, t3⟩ := pciT_ok hnb h
      subst e3
      refine ⟨_, _, x3, by simp, ?_⟩
      simp
      exact CtlL.typeCommand_line s _ hs

private theorem processLoginT_spec {u p : Bytes} {rs rs' : Replies} {w w' : WorldT} {r : Reply} (s : Spec.Settings)
    (hs : s.asciiType = (w.base.ttype == .ascii)) (hnb : w.ctlSsl = true → w.ctlTls = true)
    (h : processLoginT u p rs w = (.ok (r, rs'), w')) :
    ∃ ws rl, ExtT w w' ws rl ∧ rs'.list = rs.list ++ rl ∧
      ws.map lineOf = (if w.tlsCtx then Spec.loginLinesTls s u p (rl.map (·.code))
        else Spec.loginLines s u p (rl.map (·.code))) := by
  unfold processLoginT at h
  simp only [bindT_ok] at h
  obtain ⟨cu, wa, hcu, cp, wb, hcp, ⟨r1, rs1⟩, w1, h1, h⟩ := h
  obtain ⟨mcu, e⟩ := liftMkCmd_ok hcu; subst wa
  obtain ⟨mcp, e⟩ := liftMkCmd_ok hcp; subst wb
  have ecu := CtlL.makeCommand_line _ _ _ mcu
  have ecp := CtlL.makeCommand_line _ _ _ mcp
  obtain ⟨e1, x1, l1, s1, t1⟩ := pciT_ok hnb h1
  subst e1
  have hnb1 := nb_of_same s1 hnb
  dsimp only at h
  split at h
  · rename_i h331
    simp only [bindT_ok] at h
    obtain ⟨⟨r2, rs2⟩, w2, h2, h⟩ := h
    obtain ⟨e2, x2, l2, s2, t2⟩ := pciT_ok hnb1 h2
    subst e2
    have hnb2 := nb_of_same s2 hnb1
    have h' : loginTailT (r2, (rs.append r1).append r2) w2 = (.ok (r, rs'), w') := h
    obtain ⟨ws, rl, x3, e3, hw⟩ := loginTailT_spec s (by rw [hs, t2, t1]) hnb2 l2 h'
    refine ⟨_, _, (x1.trans x2).trans x3, by rw [e3]; simp, ?_⟩
    have : r1.code = 331 := by simpa using h331
    rw [(s1.trans s2).1] at hw
    simp only [List.map_append, List.map_cons, List.map_nil, CtlL.lineOf_cmd, hw, this, Spec.loginLines,
      loginLinesTls_eq, ecu, ecp]
    cases w.tlsCtx <;> simp
  · rename_i h331
    have h' : loginTailT (r1, rs.append r1) w1 = (.ok (r, rs'), w') := h
    obtain ⟨ws, rl, x3, e3, hw⟩ := loginTailT_spec s (by rw [hs, t1]) hnb1 l1 h'
    refine ⟨_, _, x1.trans x3, by rw [e3]; simp, ?_⟩
    have : r1.code ≠ 331 := by simpa using h331
    rw [s1.1] at hw
    simp only [List.map_cons, CtlL.lineOf_cmd, hw, Spec.loginLines, loginLinesTls_eq,
      ecu, List.cons_append, List.nil_append]
    rw [if_neg this, if_neg this]
    cases w.tlsCtx <;> simp <;> split <;> simp

private theorem runT_eq {α} (m : MT α) (w : WorldT) (a : α) (h : resultT m w = .ok a) : m w = (.ok a, afterT m w) := by
  unfold resultT at h
  unfold afterT
  rw [← h]

private theorem loginT_spec {u p : Bytes} {rs : Replies} {w w' : WorldT} (s : Spec.Settings)
    (hs : s.asciiType = (w.base.ttype == .ascii)) (hnb : w.ctlSsl = true → w.ctlTls = true)
    (h : loginT u p w = (.ok rs, w')) :
    ExtT w w' (allWrites (w'.trace.drop w.trace.length)) rs.list ∧
      (allWrites (w'.trace.drop w.trace.length)).map lineOf =
        (if w.tlsCtx then Spec.loginLinesTls s u p (rs.list.map (·.code))
          else Spec.loginLines s u p (rs.list.map (·.code))) := by
  unfold loginT at h
  simp only [bindT_ok, pureT_ok] at h
  obtain ⟨⟨r, rs'⟩, w1, h1, rfl, rfl⟩ := h
  obtain ⟨ws, rl, x, e, hw⟩ := processLoginT_spec s hs hnb h1
  have e' : rs'.list = rl := by simpa [Replies.empty] using e
  obtain ⟨evs, t, a1, a2⟩ := id x
  rw [t, List.drop_left, a1, e']
  exact ⟨x, hw⟩

/-! ### connect -/

private def credLines (s : Spec.Settings) (cred : Option (Bytes × Bytes)) (rest : List Nat) : List Bytes :=
  match cred with
  | some (u, p) => Spec.loginLinesTls s u p rest
  | none => []

private theorem ext_hs (w w' : WorldT) (ok : Bool) (h : w'.trace = w.trace ++ [EvT.ctlTlsHandshake ok]) :
    ExtT w w' [] [] := ⟨_, h, rfl, rfl⟩

private def connectRefT (s : Spec.Settings) (cred : Option (Bytes × Bytes)) (g : Nat) (rest : List Nat) : List Bytes :=
  if Spec.negative g then []
  else str "AUTH TLS" :: (match rest with
    | [] => []
    | a :: rest' =>
      if Spec.negative a then [] else credLines s cred rest')

private theorem connectLinesTls_1 (s : Spec.Settings) (cred : Option (Bytes × Bytes)) (g : Nat) (rest : List Nat)
    (hg : g ≠ 120) : Spec.connectLinesTls s cred (g :: rest) true = connectRefT s cred g rest := by
  unfold Spec.connectLinesTls connectRefT
  dsimp only
  split
  · rename_i heq
    split at heq
    · cases heq
    · cases heq
    · rename_i h; cases h
  · rename_i g' rest' heq
    split at heq
    · rename_i h; simp only [List.cons.injEq] at h; exact absurd h.1 hg
    · rename_i h
      simp only [List.cons.injEq] at h
      simp only [Option.some.injEq, Prod.mk.injEq] at heq
      obtain ⟨rfl, rfl⟩ := h
      obtain ⟨rfl, rfl⟩ := heq
      simp
      rfl
    · cases heq

private theorem connectLinesTls_2 (s : Spec.Settings) (cred : Option (Bytes × Bytes)) (g : Nat) (rest : List Nat) :
    Spec.connectLinesTls s cred (120 :: g :: rest) true = connectRefT s cred g rest := by
  unfold Spec.connectLinesTls connectRefT
  simp
  rfl

private def afterTlsT (cred : Option (Bytes × Bytes)) (rs : Replies) : MT Replies :=
  match cred with
  | some (u, p) => do let (_, rs) ← processLoginT u p rs; pure rs
  | none => pure rs

/-- `connectT` after the greeting -/
private def connectTailT (cred : Option (Bytes × Bytes)) (x : Reply × Replies) : MT Replies :=
  if x.1.isNegative then pure x.2
  else do
    let w ← getT
    if w.tlsCtx then
      let (r, rs) ← processCommandIntoT (str "AUTH TLS") x.2
      if r.isNegative then pure rs
      else
        modifyT fun w => { w with ctlSsl := true }
        let ok ← nextHandshake
        emitT (.ctlTlsHandshake ok)
        if !ok then throwT
        else
          modifyT fun w => { w with ctlTls := true }
          afterTlsT cred rs
    else afterTlsT cred x.2

private theorem afterTlsT_spec {cred : Option (Bytes × Bytes)} {rs1 rs : Replies} {w w' : WorldT} (s : Spec.Settings)
    (hs : s.asciiType = (w.base.ttype == .ascii)) (hnb : w.ctlSsl = true → w.ctlTls = true) (htls : w.tlsCtx = true)
    (h : afterTlsT cred rs1 w = (.ok rs, w')) :
    ∃ ws rl, ExtT w w' ws rl ∧ rs.list = rs1.list ++ rl ∧
      ws.map lineOf = credLines s cred (rl.map (·.code)) := by
  unfold afterTlsT at h
  unfold credLines
  rcases cred with _ | ⟨u, p⟩
  · simp only [pureT_ok] at h
    obtain ⟨rfl, rfl⟩ := h
    exact ⟨[], [], ExtT.refl _, by simp, by simp⟩
  · simp only [bindT_ok, pureT_ok] at h
    obtain ⟨⟨r3, rs3⟩, w3, h3, rfl, rfl⟩ := h
    obtain ⟨ws, rl, x3, e3, hw⟩ := processLoginT_spec s hs hnb h3
    rw [if_pos htls] at hw
    exact ⟨ws, rl, x3, e3, hw⟩

private theorem connectTailT_spec {cred : Option (Bytes × Bytes)} {rs1 rs : Replies} {w w' : WorldT} {r : Reply}
    (s : Spec.Settings) (hs : s.asciiType = (w.base.ttype == .ascii)) (hssl : w.ctlSsl = false)
    (htls : w.tlsCtx = true) (hl : r.code < 1000)
    (h : connectTailT cred (r, rs1) w = (.ok rs, w')) :
    ∃ ws rl, ExtT w w' ws rl ∧ rs.list = rs1.list ++ rl ∧
      ws.map lineOf = connectRefT s cred r.code (rl.map (·.code)) := by
  have hnb : w.ctlSsl = true → w.ctlTls = true := by rw [hssl]; intro h; cases h
  unfold connectTailT at h
  unfold connectRefT
  dsimp only at h
  rw [← CtlL.neg_eq hl]
  split at h
  · rename_i hneg
    simp only [pureT_ok] at h
    obtain ⟨rfl, rfl⟩ := h
    exact ⟨[], [], ExtT.refl _, by simp, by simp [hneg]⟩
  · rename_i hneg
    have hneg' : r.isNegative = false := by simpa using hneg
    simp only [bindT_ok, getT_ok] at h
    obtain ⟨_, _, ⟨e, e'⟩, h⟩ := h
    subst e'; subst e
    rw [if_pos htls] at h
    simp only [bindT_ok] at h
    obtain ⟨⟨r4, rs4⟩, w4, h4, h⟩ := h
    obtain ⟨e4, x4, l4, s4, t4⟩ := pciT_ok hnb h4
    subst e4
    dsimp only at h
    split at h
    · rename_i hn4
      simp only [pureT_ok] at h
      obtain ⟨rfl, rfl⟩ := h
      refine ⟨_, _, x4, by simp, ?_⟩
      rw [CtlL.neg_eq l4] at hn4
      simp [hneg', hn4]
    · rename_i hn4
      rw [CtlL.neg_eq l4] at hn4
      unfold nextHandshake at h
      simp only [bindT_ok, getT_ok, modifyT_ok, pureT_ok, emitT] at h
      obtain ⟨_, w5, rfl, ok, w6, ⟨_, _, ⟨rfl, rfl⟩, _, w7, rfl, hok, rfl⟩, _, w8, rfl, h⟩ := h
      split at h
      · exact (throwT_ok.1 h).elim
      · simp only [bindT_ok, modifyT_ok] at h
        obtain ⟨_, w9, rfl, h⟩ := h
        obtain ⟨ws, rl, x5, e5, hw⟩ := afterTlsT_spec (cred := cred) s (by rw [hs, ← t4]) (fun _ => rfl)
          (by show w4.tlsCtx = true; rw [s4.1, htls]) h
        refine ⟨_, _, (x4.trans (ext_hs _ _ ok rfl)).trans x5, by rw [e5]; simp, ?_⟩
        simp [hneg', hn4, hw]

private theorem openBlock_rg (host : Bytes) (port : Nat) : CtlL.Keeps (CtlL.Rg CtlL.P0) (do
    modifyW fun w =>
      let g : Group := match w.script with
        | g :: _ => g
        | [] => { raws := [] }
      { w with ctl := {}, connected := true, script := w.script.tail, net := { w.net with stream := g.raws.flatten } }
    emit (.ctlConnect host port)
    forObservers (fun o => .obsConnected o host port) : M Unit) := by
  keeps

private theorem connectBody_spec {host : Bytes} {port : Nat} {cred : Option (Bytes × Bytes)} {w w' : WorldT}
    {rs : Replies} (s : Spec.Settings) (hs : s.asciiType = (w.base.ttype == .ascii)) (htls : w.tlsCtx = true)
    (h : L.connectBody host port cred w = (.ok rs, w')) :
    ∃ ws, ExtT w w' ws rs.list ∧ ws.map lineOf = Spec.connectLinesTls s cred (rs.list.map (·.code)) true := by
  unfold L.connectBody at h
  simp only [bindT_ok, modifyT_ok] at h
  obtain ⟨_, w0, rfl, _, w1, h1, ⟨r2, rs2⟩, w2, h2, h⟩ := h
  have hnb0 : ({ w with ctlTls := false, ctlSsl := false } : WorldT).ctlSsl = true →
      ({ w with ctlTls := false, ctlSsl := false } : WorldT).ctlTls = true := by intro h; cases h
  have x0 : ExtT w { w with ctlTls := false, ctlSsl := false } [] [] := ⟨[], by simp, rfl, rfl⟩
  obtain ⟨x1, s1, t1⟩ := lift_ext (ws := []) (rs := []) hnb0 h1 (fun b hb =>
    ⟨CtlL.Ext.of_data (openBlock_rg host port) hb, ((openBlock_rg host port).of_eq hb).1⟩)
  have hnb1 := nb_of_same s1 hnb0
  obtain ⟨e2, x2, l2, s2, t2⟩ := recvT_ok hnb1 h2
  have hnb2 := nb_of_same s2 hnb1
  subst e2
  dsimp only at h
  split at h
  · rename_i h120
    have h120 : r2.code = 120 := by simpa using h120
    simp only [bindT_ok] at h
    obtain ⟨⟨r3, rs3⟩, w3, h3, h⟩ := h
    obtain ⟨e3, x3, l3, s3, t3⟩ := recvT_ok hnb2 h3
    subst e3
    have h' : connectTailT cred (r3, (Replies.empty.append r2).append r3) w3 = (.ok rs, w') := h
    have s03 := (s1.trans s2).trans s3
    obtain ⟨ws, rl, x4, e4, hw⟩ := connectTailT_spec s (by rw [hs, t3, t2, t1]) s03.2.1 (by rw [s03.1]; exact htls) l3 h'
    refine ⟨_, by simpa [e4, Replies.empty] using (((x0.trans x1).trans x2).trans x3).trans x4, ?_⟩
    rw [e4, hw]
    simp only [Replies.empty, CtlL.append_list, List.nil_append, List.map_cons, List.cons_append, h120]
    rw [connectLinesTls_2]
  · rename_i h120
    have h120 : r2.code ≠ 120 := by simpa using h120
    have h' : connectTailT cred (r2, Replies.empty.append r2) w2 = (.ok rs, w') := h
    have s02 := s1.trans s2
    obtain ⟨ws, rl, x4, e4, hw⟩ := connectTailT_spec s (by rw [hs, t2, t1]) s02.2.1 (by rw [s02.1]; exact htls) l2 h'
    refine ⟨_, by simpa [e4, Replies.empty] using ((x0.trans x1).trans x2).trans x4, ?_⟩
    rw [e4, hw]
    simp only [Replies.empty, CtlL.append_list, List.nil_append, List.map_cons, List.cons_append]
    rw [connectLinesTls_1 _ _ _ _ h120]

/-- abandoning a connection that is still open writes nothing and receives nothing -/
private theorem connectDropT_ok {w w1 : WorldT} {u : Unit} (h : L.connectDropT w = (.ok u, w1)) :
    ExtT w w1 [] [] ∧ w1.tlsCtx = w.tlsCtx ∧ w1.base.ttype = w.base.ttype := by
  unfold L.connectDropT at h
  simp only [bindT_ok, getT_ok] at h
  obtain ⟨_, _, ⟨rfl, rfl⟩, h⟩ := h
  split at h
  · simp only [bindT_ok, emitT, modifyT_ok] at h
    obtain ⟨_, _, rfl, rfl⟩ := h
    exact ⟨⟨[.ev _ .ctlClose], rfl, rfl, rfl⟩, rfl, rfl⟩
  · obtain ⟨_, rfl⟩ := pureT_ok.mp h
    exact ⟨ExtT.refl _, rfl, rfl⟩

private theorem connectRest_spec {host : Bytes} {port : Nat} {cred : Option (Bytes × Bytes)} {w w' : WorldT}
    {rs : Replies} (s : Spec.Settings) (hs : s.asciiType = (w.base.ttype == .ascii)) (htls : w.tlsCtx = true)
    (h : (L.connectDropT >>= fun _ => L.connectBody host port cred) w = (.ok rs, w')) :
    ∃ ws, ExtT w w' ws rs.list ∧ ws.map lineOf = Spec.connectLinesTls s cred (rs.list.map (·.code)) true := by
  simp only [bindT_ok] at h
  obtain ⟨_, w1, h1, h⟩ := h
  obtain ⟨x1, t1, y1⟩ := connectDropT_ok h1
  obtain ⟨ws, x, hw⟩ := connectBody_spec s (by rw [hs, y1]) (t1.trans htls) h
  exact ⟨ws, by simpa using x1.trans x, hw⟩

private theorem connectT_spec {host : Bytes} {port : Nat} {cred : Option (Bytes × Bytes)} {w w' : WorldT}
    {rs : Replies} (s : Spec.Settings) (hs : s.asciiType = (w.base.ttype == .ascii)) (htls : w.tlsCtx = true)
    (h : connectT host port cred w = (.ok rs, w')) :
    ∃ ws, ExtT w w' ws rs.list ∧ ws.map lineOf = Spec.connectLinesTls s cred (rs.list.map (·.code)) true := by
  rw [L.connectT_eq] at h
  rcases cred with _ | ⟨u, p⟩
  · exact connectRest_spec s hs htls h
  · simp only [bindT_ok] at h
    obtain ⟨_, wa, ha, _, wb, hb, h⟩ := h
    obtain ⟨_, e⟩ := liftMkCmd_ok ha; subst wa
    obtain ⟨_, e⟩ := liftMkCmd_ok hb; subst wb
    exact connectRest_spec s hs htls (bindT_ok.mpr h)


/-- login with a TLS context, in a session that is not broken: for every call that returns, whatever the server answers,
    the command lines written are exactly those of the reference automaton driven by the codes of the replies received,
    and the replies returned are the replies received, in order -/
theorem tls_login_follows_reference (u p : Bytes) (w : WorldT) (rs : Replies)
    (htls : w.tlsCtx = true) (hnb : w.ctlSsl = true → w.ctlTls = true)
    (hret : resultT (loginT u p) w = .ok rs) :
    (allWrites (addedT (loginT u p) w)).map lineOf =
      Spec.loginLinesTls (settingsOf w.base) u p ((repliesT (addedT (loginT u p) w)).map (·.code)) ∧
    rs.list = repliesT (addedT (loginT u p) w) := by
  obtain ⟨x, hw⟩ := loginT_spec (settingsOf w.base) rfl hnb (runT_eq _ _ _ hret)
  obtain ⟨_, e2⟩ := ExtT.added x
  rw [if_pos htls] at hw
  rw [e2]
  exact ⟨hw, rfl⟩

/-- without a TLS context the TLS-level login is the plain one -/
theorem login_without_context_follows_reference (u p : Bytes) (w : WorldT) (rs : Replies)
    (htls : w.tlsCtx = false) (hnb : w.ctlSsl = true → w.ctlTls = true)
    (hret : resultT (loginT u p) w = .ok rs) :
    (allWrites (addedT (loginT u p) w)).map lineOf =
      Spec.loginLines (settingsOf w.base) u p ((repliesT (addedT (loginT u p) w)).map (·.code)) := by
  obtain ⟨x, hw⟩ := loginT_spec (settingsOf w.base) rfl hnb (runT_eq _ _ _ hret)
  obtain ⟨_, e2⟩ := ExtT.added x
  rw [htls] at hw
  rw [e2]
  exact hw

/-- connect with a TLS context: for every call that returns (the handshake, if reached, succeeded): greeting, AUTH TLS,
    then the login sequence of the reference automaton -/
theorem tls_connect_follows_reference (h : Bytes) (port : Nat) (cred : Option (Bytes × Bytes)) (w : WorldT) (rs : Replies)
    (htls : w.tlsCtx = true)
    (hret : resultT (connectT h port cred) w = .ok rs) :
    (allWrites (addedT (connectT h port cred) w)).map lineOf =
      Spec.connectLinesTls (settingsOf w.base) cred ((repliesT (addedT (connectT h port cred) w)).map (·.code)) true ∧
    rs.list = repliesT (addedT (connectT h port cred) w) := by
  obtain ⟨ws, x, hw⟩ := connectT_spec (settingsOf w.base) rfl htls (runT_eq _ _ _ hret)
  obtain ⟨e1, e2⟩ := ExtT.added x
  rw [e1, e2]
  exact ⟨hw, rfl⟩

end Ftp.Props.C10
