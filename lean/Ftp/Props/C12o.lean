import Ftp.Spec.Session
import Ftp.Props.C12
import Ftp.Props.C03o
import Ftp.Lemmas.ClientOps
import Ftp.Lemmas.ClientCancel
/-
  C12 at the level of the whole operation: a download that is cancelled by its callback after j blocks.
-/
set_option linter.unusedVariables false

namespace Ftp.Props.C12
open Ftp Ftp.Client Ftp.Session Ftp.Props.C01

/-- the callback events of a trace, in order -/
def cbEvents (tr : List Ev) : List Ev := tr.filter fun | .cbPoll _ | .cbBegin | .cbNotify _ | .cbEnd => true | _ => false

/-- a binary download with a callback that reports cancellation at the poll after the j-th full block (j >= 1), against a
    server that is still sending (it answers ABOR with 426 and then a second reply), in all four data-connection methods,
    in a session that is in step: exactly j blocks of 8192 bytes reach the sink, the callback sees
    poll, begin, (notify 8192, poll) x j, end, poll; ABOR is the last command written; the data connection is closed
    without a graceful shutdown; the replies returned are set-up, preliminary, and the two replies to ABOR; no descriptor
    is left and the session is in step again -/
theorem cancelled_download_aborts (path : Bytes) (w : World) (s m a1 a2 : WfReply) (payload : Bytes) (j : Nat)
    (moreReads : List (Option Nat)) (morePolls : List Bool) (rest : List SGroup)
    (hstep : InStep w []) (hconn0 : w.conn = none) (hpath : Endpoint.hasCrLf path = false)
    (hs : s.wf) (hm : m.wf) (ha1 : a1.wf) (ha2 : a2.wf)
    (hsetup : C03.SetupOk w s) (hmain : m.code < 400) (h426 : a1.code = 426)
    (hsc : w.script = (⟨[s], none⟩ :: ⟨[m], some (.send payload)⟩ :: ⟨[a1, a2], none⟩ :: rest).map SGroup.enc)
    (hclose : ∀ b ∈ w.closeFails, b = false)
    (hbin : w.ttype = .binary) (hj : 1 ≤ j) (hlen : j * 8192 ≤ payload.length)
    (hreads : w.dataReads = List.replicate j (some 8192) ++ moreReads)
    (hpolls : w.polls = List.replicate j false ++ true :: morePolls) (hnc : w.cancelled = false)
    (hsink : w.sinkFailAt = none) (hsil : w.sinkSilent = false) :
    ∃ rs, result (Op.download path true).run w = .ok (.replies rs) ∧
      rs.list = [replyOf s, replyOf m, replyOf a1, replyOf a2] ∧
      (after (Op.download path true).run w).sink = w.sink ++ payload.take (j * 8192) ∧
      cbEvents (added (Op.download path true).run w) =
        Ev.cbPoll false :: Ev.cbBegin :: ((List.replicate (j - 1) [Ev.cbNotify 8192, Ev.cbPoll false]).flatten ++
          [Ev.cbNotify 8192, Ev.cbPoll true, Ev.cbEnd, Ev.cbPoll true]) ∧
      (writes (added (Op.download path true).run w)).getLast? = some (str "ABOR\r\n") ∧
      (∀ d, Ev.dataShutdown d ∉ added (Op.download path true).run w) ∧
      (after (Op.download path true).run w).conn = none ∧
      (a2.code ≠ 421 → InStep (after (Op.download path true).run w) []) := by
  have hcb : ∀ tr : List Ev, cbEvents tr = tr.filter isCb := by
    intro tr
    have : (fun e : Ev => match e with | .cbPoll _ | .cbBegin | .cbNotify _ | .cbEnd => true | _ => false) = isCb := by
      funext e
      cases e <;> rfl
    unfold cbEvents
    rw [← this]
  obtain ⟨hacc, hpass, hv6⟩ := hsetup
  rw [hcb]
  exact Ftp.Client.CancelL.cancelled_download_core path w s m a1 a2 payload j moreReads morePolls rest hstep hpath
    hs hm ha1 ha2 hacc hpass hv6 hmain h426 hsc hclose hbin hj hlen hreads hpolls hnc hsink hsil

/-! ### non-vacuity: the hypotheses are satisfiable (the theorem is instantiated on concrete worlds) -/

private def r229 : WfReply := ⟨229, [⟨str "229 ok (|||5000|)", true⟩]⟩
private def r200 : WfReply := ⟨200, [⟨str "200 ok", true⟩]⟩
private def r150 : WfReply := ⟨150, [⟨str "150 go", true⟩]⟩
private def r426 : WfReply := ⟨426, [⟨str "426 aborted", true⟩]⟩
private def r226 : WfReply := ⟨226, [⟨str "226 abor ok", true⟩]⟩

private theorem r229_wf : r229.wf := by
  refine ⟨by decide, by decide, ?_, .inl ⟨str "ok (|||5000|)", true, by decide⟩⟩
  intro l hl
  have : l = ⟨str "229 ok (|||5000|)", true⟩ := by simpa [r229] using hl
  subst this
  exact ⟨by decide, by decide, by decide⟩

private theorem r200_wf : r200.wf := by
  refine ⟨by decide, by decide, ?_, .inl ⟨str "ok", true, by decide⟩⟩
  intro l hl
  have : l = ⟨str "200 ok", true⟩ := by simpa [r200] using hl
  subst this
  exact ⟨by decide, by decide, by decide⟩

private theorem r150_wf : r150.wf := by
  refine ⟨by decide, by decide, ?_, .inl ⟨str "go", true, by decide⟩⟩
  intro l hl
  have : l = ⟨str "150 go", true⟩ := by simpa [r150] using hl
  subst this
  exact ⟨by decide, by decide, by decide⟩

private theorem r426_wf : r426.wf := by
  refine ⟨by decide, by decide, ?_, .inl ⟨str "aborted", true, by decide⟩⟩
  intro l hl
  have : l = ⟨str "426 aborted", true⟩ := by simpa [r426] using hl
  subst this
  exact ⟨by decide, by decide, by decide⟩

private theorem r226_wf : r226.wf := by
  refine ⟨by decide, by decide, ?_, .inl ⟨str "abor ok", true, by decide⟩⟩
  intro l hl
  have : l = ⟨str "226 abor ok", true⟩ := by simpa [r226] using hl
  subst this
  exact ⟨by decide, by decide, by decide⟩

/-- the payload of the non-vacuity examples: two full blocks and 50 bytes more -/
def payloadCx : Bytes := List.replicate (2 * 8192 + 50) 65

/-- an EPSV download whose callback reports cancellation at the poll after the second block -/
def worldCx : World :=
  { mode := .passive, ttype := .binary, rfc := true, connected := true, connectOks := [true],
    script := ([⟨[r229], none⟩, ⟨[r150], some (.send payloadCx)⟩, ⟨[r426, r226], none⟩] : List SGroup).map SGroup.enc,
    dataReads := [some 8192, some 8192, some 100, some 0],
    polls := [false, false, true, false] }

/-- ... and a PORT download that is cancelled at the poll after the first block -/
def worldCxA : World :=
  { mode := .active, ttype := .binary, rfc := false, connected := true, listenPorts := [4000],
    script := ([⟨[r200], none⟩, ⟨[r150], some (.send payloadCx)⟩, ⟨[r426, r226], none⟩] : List SGroup).map SGroup.enc,
    dataReads := [some 8192, some 8192, some 100, some 0],
    polls := [false, true, false] }

private theorem payloadCx_length : payloadCx.length = 2 * 8192 + 50 := by
  rw [payloadCx, List.length_replicate]

/-- passive mode, j = 2: the theorem applies, and what it says on this world -/
example :
    cbEvents (added (Op.download (str "f") true).run worldCx) =
      [.cbPoll false, .cbBegin, .cbNotify 8192, .cbPoll false, .cbNotify 8192, .cbPoll true, .cbEnd, .cbPoll true] ∧
    (after (Op.download (str "f") true).run worldCx).sink = payloadCx.take 16384 ∧
    (writes (added (Op.download (str "f") true).run worldCx)).getLast? = some (str "ABOR\r\n") ∧
    InStep (after (Op.download (str "f") true).run worldCx) [] := by
  obtain ⟨rs, _, _, h3, h4, h5, _, _, h8⟩ :=
    cancelled_download_aborts (str "f") worldCx r229 r150 r426 r226 payloadCx 2 [some 100, some 0] [false] []
      ⟨rfl, .inl rfl, Nat.zero_le _, by simp⟩ rfl (by decide) r229_wf r150_wf r426_wf r226_wf
      ⟨by decide, fun _ => ⟨rfl, by decide⟩, fun h => (by cases h)⟩ (by decide) rfl rfl (fun b hb => (by cases hb)) rfl
      (by decide) (by rw [payloadCx_length]; decide) rfl rfl rfl rfl rfl
  exact ⟨by simpa using h4, by simpa [worldCx] using h3, h5, h8 (by decide)⟩

/-- active mode, j = 1 -/
example :
    cbEvents (added (Op.download (str "f") true).run worldCxA) =
      [.cbPoll false, .cbBegin, .cbNotify 8192, .cbPoll true, .cbEnd, .cbPoll true] ∧
    (after (Op.download (str "f") true).run worldCxA).sink = payloadCx.take 8192 ∧
    (after (Op.download (str "f") true).run worldCxA).conn = none := by
  obtain ⟨rs, _, _, h3, h4, _, _, h7, _⟩ :=
    cancelled_download_aborts (str "f") worldCxA r200 r150 r426 r226 payloadCx 1
      [some 8192, some 100, some 0] [false] []
      ⟨rfl, .inl rfl, Nat.zero_le _, by simp⟩ rfl (by decide) r200_wf r150_wf r426_wf r226_wf
      ⟨by decide, fun h => (by cases h), fun _ _ => rfl⟩ (by decide) rfl rfl (fun b hb => (by cases hb)) rfl
      (by decide) (by rw [payloadCx_length]; decide) rfl rfl rfl rfl rfl
  exact ⟨by simpa using h4, by simpa [worldCxA] using h3, h7⟩

end Ftp.Props.C12
