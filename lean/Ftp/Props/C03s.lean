import Ftp.Generated.SourceFacts
import Ftp.Props.C03
/-
  C03, tie to the source by translation: the block buffer of data_connection::recv in src/data_connection.cpp now has the
  size the model's read loop (and `Segmentation`) assumes.
-/
namespace Ftp.Props.C03
open Ftp

theorem recv_block_is_the_sources : Generated.recvBlock = 8192 := by decide

end Ftp.Props.C03
