import Ftp.Spec.Session
import Ftp.Props.C03
import Ftp.Props.C07
import Ftp.Lemmas.ClientSession
import Ftp.Lemmas.ClientOps
/-
  C03 at the level of the whole operation: `download_file` / `get_file_list` as the caller sees them - set-up command,
  transfer command, data transfer, completion reply - in all four data-connection methods.
-/
set_option linter.unusedVariables false
set_option linter.unusedSimpArgs false

namespace Ftp.Props.C03
open Ftp Ftp.Client Ftp.Session Ftp.Props.C01
open Ftp.Client.SessL Ftp.Client.OpsL Ftp.Client.CtlL

/-- what a sink must hold after a download of `payload` with the given transfer type (C05 for ASCII) -/
def delivered (t : TType) (payload : Bytes) : Bytes :=
  match t with
  | .binary => payload
  | .ascii => Spec.dlSpec payload

/-- the set-up of the data connection succeeds: in passive mode the reply carries a parsable endpoint and the connect
    succeeds; in active mode the listening address is printable (PORT needs IPv4) -/
def SetupOk (w : World) (s : WfReply) : Prop :=
  s.code < 400 ∧
  (w.mode = .passive → w.connectOks.head? = some true ∧
      (if w.rfc then (Endpoint.parseEpsv s.text).isSome else (Endpoint.parsePasv s.text).isSome)) ∧
  (w.mode = .active → w.rfc = false → w.v6 = false)

/-- download, end to end: for every payload, every segmentation, every well-formed reply text and all four methods, in a
    session that is in step: the call returns exactly the three replies (set-up, preliminary, completion), the sink
    holds the payload (converted for ASCII type) appended to what it held, it was flushed exactly once, no data
    descriptor is left, and the session is in step again (unless the completion reply was 421) -/
theorem download_delivers (path : Bytes) (w : World) (s m c : WfReply) (payload : Bytes) (reads : List Nat)
    (more : List (Option Nat)) (rest : List SGroup)
    (hstep : InStep w []) (hconn0 : w.conn = none) (hpath : Endpoint.hasCrLf path = false)
    (hs : s.wf) (hm : m.wf) (hc : c.wf) (hsetup : SetupOk w s) (hmain : m.code < 400)
    (hsc : w.script = (⟨[s], none⟩ :: ⟨[m, c], some (.send payload)⟩ :: rest).map SGroup.enc)
    (hclose : ∀ b ∈ w.closeFails, b = false)
    (hseg : Segmentation payload reads) (hreads : w.dataReads = reads.map some ++ some 0 :: more)
    (hsink : w.sinkFailAt = none) (hsil : w.sinkSilent = false) :
    ∃ rs, result (Op.download path false).run w = .ok (.replies rs) ∧
      rs.list = [replyOf s, replyOf m, replyOf c] ∧
      (after (Op.download path false).run w).sink = w.sink ++ delivered w.ttype payload ∧
      (after (Op.download path false).run w).sinkFlushes = w.sinkFlushes + 1 ∧
      (after (Op.download path false).run w).conn = none ∧
      (c.code ≠ 421 → InStep (after (Op.download path false).run w) []) := by
  obtain ⟨hacc, hpass, hv6⟩ := hsetup
  obtain ⟨w1, d, a, hcdc, hc1, hs1, hsc1, hconn1, hcf1, hact1⟩ :=
    cdc_accepted (str "RETR" ++ [SP] ++ path) Replies.empty w s m c (some (.send payload)) rest hstep hs hm hc hacc hmain
      hpass hv6 hsc
  obtain ⟨u1, u2, u3, u4, u5, u6, u7, u8, u9, u10⟩ := (createDataConnection_usr _ _).of_eq hcdc
  obtain ⟨w2, hmv, f1, f2, hdat, hcf⟩ := dataRecv_sink w1 payload reads more hseg.1 hseg.2 (hact1 _ rfl)
    (u6.trans hreads) (u4.trans hsink)
  have hc2 : w2.connected = true := hdat.2.2.2.1.trans hc1
  have hs2 : Sync w2 [c] := sync_of_dat hdat hs1
  obtain ⟨c', net', hrun, hsy⟩ := xfer_run "RETR" path (fun t => dataRecv false t) w w1 w2 _ c d a hpath hcdc hmv hc2 hs2
    (hcf.1.trans hconn1) (by rw [hcf.2, hcf1]; exact hclose)
  have hdl : download path false w =
      (.ok (((Replies.empty.append (replyOf s)).append (replyOf m)).append (replyOf c)), doneW d a w2 c c' net') := by
    unfold download
    exact hrun
  have hop : (Op.download path false).run w =
      (.ok (.replies (((Replies.empty.append (replyOf s)).append (replyOf m)).append (replyOf c))),
        doneW d a w2 c c' net') := by
    simp only [Op.run]
    rw [DataL.bind_ok hdl]
    rfl
  refine ⟨((Replies.empty.append (replyOf s)).append (replyOf m)).append (replyOf c), by simp only [result, hop],
    ?_, ?_, ?_, ?_, ?_⟩
  · simp [DataL.append_list, Replies.empty]
  · simp only [after, hop]
    show w2.sink = _
    rw [f2, u1, u2]
    cases w.ttype <;> rfl
  · simp only [after, hop]
    show w2.sinkFlushes = _
    rw [f1, u3]
  · simp only [after, hop]
    rfl
  · intro h421
    simp only [after, hop]
    exact doneW_inStep d a w2 c c' net' hc2 hsy h421

/-- listing, end to end: the text returned is the payload (converted for ASCII type), for every payload, segmentation
    and method -/
theorem listing_delivers (path : Option Bytes) (names : Bool) (w : World) (s m c : WfReply) (payload : Bytes)
    (reads : List Nat) (more : List (Option Nat)) (rest : List SGroup)
    (hstep : InStep w []) (hconn0 : w.conn = none) (hpath : ∀ p ∈ path, Endpoint.hasCrLf p = false)
    (hs : s.wf) (hm : m.wf) (hc : c.wf) (hsetup : SetupOk w s) (hmain : m.code < 400)
    (hsc : w.script = (⟨[s], none⟩ :: ⟨[m, c], some (.send payload)⟩ :: rest).map SGroup.enc)
    (hclose : ∀ b ∈ w.closeFails, b = false)
    (hseg : Segmentation payload reads) (hreads : w.dataReads = reads.map some ++ some 0 :: more) :
    ∃ rs, result (Op.list path names).run w = .ok (.listing rs (delivered w.ttype payload)) ∧
      rs.list = [replyOf s, replyOf m, replyOf c] ∧
      (after (Op.list path names).run w).conn = none ∧
      (c.code ≠ 421 → InStep (after (Op.list path names).run w) []) := by
  obtain ⟨hacc, hpass, hv6⟩ := hsetup
  obtain ⟨cmd, hmk⟩ : ∃ cmd, mkCmd (if names then "NLST" else "LIST") path w = (.ok cmd, w) := by
    rcases path with _ | p
    · exact ⟨_, rfl⟩
    · exact ⟨_, CtlL.mkCmd_succ _ _ _ (hpath p rfl)⟩
  obtain ⟨w1, d, a, hcdc, hc1, hs1, hsc1, hconn1, hcf1, hact1⟩ :=
    cdc_accepted cmd Replies.empty w s m c (some (.send payload)) rest hstep hs hm hc hacc hmain hpass hv6 hsc
  obtain ⟨u1, u2, u3, u4, u5, u6, u7, u8, u9, u10⟩ := (createDataConnection_usr _ _).of_eq hcdc
  obtain ⟨w2, hmv, f1, f2, hdat, hcf⟩ := dataRecv_sink { w1 with sinkSilent := true, sink := [], sinkFailAt := none }
    payload reads more hseg.1 hseg.2 (hact1 _ rfl) (u6.trans hreads) rfl
  have hc2 : w2.connected = true := hdat.2.2.2.1.trans hc1
  have hs2 : Sync w2 [c] := sync_of_dat hdat hs1
  obtain ⟨c', net', hrun, hsy⟩ := list_run path names cmd w w1 w2 _ c d a hmk hcdc hmv hc2 hs2
    (hcf.1.trans hconn1) (by rw [hcf.2]; show ∀ b ∈ w1.closeFails, b = false; rw [hcf1]; exact hclose)
  have htext : w2.sink = delivered w.ttype payload := by
    rw [f2]
    show [] ++ (match w1.ttype with | .binary => payload | .ascii => Spec.dlSpec payload) = _
    rw [u1]
    cases w.ttype <;> rfl
  have hop : (Op.list path names).run w =
      (.ok (.listing (((Replies.empty.append (replyOf s)).append (replyOf m)).append (replyOf c))
        (delivered w.ttype payload)), doneW d a (lsW w2) c c' net') := by
    simp only [Op.run]
    rw [DataL.bind_ok hrun, htext]
    rfl
  refine ⟨((Replies.empty.append (replyOf s)).append (replyOf m)).append (replyOf c), by simp only [result, hop],
    ?_, ?_, ?_⟩
  · simp [DataL.append_list, Replies.empty]
  · simp only [after, hop]
    rfl
  · intro h421
    simp only [after, hop]
    exact doneW_inStep d a (lsW w2) c c' net' hc2 hsy h421

/-- the world of the non-vacuity example: an EPSV download of "hello world" in three segments -/
def worldDl : World :=
  { mode := .passive, ttype := .binary, rfc := true, connected := true, connectOks := [true],
    script := [{ raws := [str "229 ok (|||5000|)\r\n"] },
               { raws := [str "150 go\r\n", str "226 done\r\n"], act := some (.send (str "hello world")) }],
    dataReads := [some 5, some 1, some 5, some 0] }

example :
    (after (Op.download (str "f") false).run worldDl).sink = str "hello world" ∧
    (after (Op.download (str "f") false).run worldDl).sinkFlushes = 1 := by
  decide +kernel

end Ftp.Props.C03
