import Ftp.Spec.Pure
/-
  C15 - reply classes partition the codes; aggregates are positive iff all members are.
  Model: `Ftp.Reply`, `Ftp.Replies` (src/reply.cpp, src/replies.cpp).
-/
namespace Ftp.Props.C15
open Ftp

/-- every reply that carries a code is exactly one of positive (< 400) / negative (≥ 400);
    intermediate (300-399) is a subset of positive -/
theorem class_partition (c : Nat) (t : Bytes) (h : c ≠ 65535) :
    let r : Reply := ⟨c, t⟩
    (r.isPositive = true ↔ c < 400) ∧ (r.isNegative = true ↔ 400 ≤ c) ∧
    (r.isPositive = !r.isNegative) ∧
    (r.isIntermediate = true ↔ (300 ≤ c ∧ c < 400)) ∧
    (r.isIntermediate = true → r.isPositive = true) := by
  have h1 : (c != 65535) = true := by simpa using h
  simp only [Reply.isPositive, Reply.isNegative, Reply.isIntermediate, unspecified, h1, Bool.true_and,
    decide_eq_true_eq, ge_iff_le, Bool.and_eq_true]
  refine ⟨trivial, trivial, ?_, trivial, ?_⟩
  · by_cases hc : c < 400 <;> simp [hc] <;> omega
  · intro h2; exact h2.2

/-- a default-constructed reply (and any reply with the sentinel code) is none of the three -/
theorem default_none (t : Bytes) :
    let r : Reply := ⟨65535, t⟩
    r.isPositive = false ∧ r.isNegative = false ∧ r.isIntermediate = false ∧
    Reply.default.code = 65535 ∧ Reply.default.text = [] := by
  simp [Reply.isPositive, Reply.isNegative, Reply.isIntermediate, unspecified, Reply.default]

/-- the model's classification is the reference classification -/
theorem model_eq_spec (r : Reply) :
    r.isPositive = Spec.isPositive r.code ∧ r.isNegative = Spec.isNegative r.code ∧
    r.isIntermediate = Spec.isIntermediate r.code := by
  simp [Reply.isPositive, Reply.isNegative, Reply.isIntermediate, Spec.isPositive, Spec.isNegative,
    Spec.isIntermediate, unspecified]

private theorem status_snoc (pre : List Bytes) (t : Bytes) :
    Spec.intercalateCRLF (pre ++ [t]) =
      if pre.isEmpty then t else Spec.intercalateCRLF pre ++ [CR, LF] ++ t := by
  induction pre with
  | nil => simp [Spec.intercalateCRLF]
  | cons a pre ih =>
    cases pre with
    | nil => simp [Spec.intercalateCRLF]
    | cons b pre =>
      simp only [List.cons_append, Spec.intercalateCRLF, List.isEmpty_cons, Bool.false_eq_true, if_false] at ih ⊢
      rw [ih]; simp

/-- the invariant of `replies::append` -/
private def Inv (a : Replies) (pre : List Reply) : Prop :=
  a.list = pre ∧ a.isPositive = Spec.aggPositive pre ∧ a.status = Spec.aggStatus pre

private theorem inv_step (a : Replies) (pre : List Reply) (r : Reply) (h : Inv a pre) :
    Inv (a.append r) (pre ++ [r]) := by
  obtain ⟨hl, hp, hs⟩ := h
  have hpos : r.isPositive = Spec.isPositive r.code := (model_eq_spec r).1
  unfold Replies.append
  cases pre with
  | nil =>
    simp only [hl, List.isEmpty_nil, if_true]
    refine ⟨by simp, ?_, ?_⟩
    · simp [Spec.aggPositive, hpos]
    · simp [hs, Spec.aggStatus, Spec.intercalateCRLF]
  | cons p pre =>
    simp only [hl, List.isEmpty_cons, Bool.false_eq_true, if_false]
    have hst : Spec.aggStatus (p :: pre ++ [r]) = Spec.aggStatus (p :: pre) ++ [CR, LF] ++ r.text := by
      unfold Spec.aggStatus
      have := status_snoc ((p :: pre).map (·.text)) r.text
      simpa using this
    cases hr : r.isPositive with
    | true =>
      refine ⟨by simp, ?_, ?_⟩
      · rw [hpos] at hr
        simp [hp, Spec.aggPositive, hr]
      · have hst' : Spec.aggStatus (p :: (pre ++ [r])) = Spec.aggStatus (p :: pre) ++ [CR, LF] ++ r.text := by simpa using hst
        simp [hs, hst']
    | false =>
      refine ⟨by simp, ?_, ?_⟩
      · rw [hpos] at hr
        simp [Spec.aggPositive, hr]
      · have hst' : Spec.aggStatus (p :: (pre ++ [r])) = Spec.aggStatus (p :: pre) ++ [CR, LF] ++ r.text := by simpa using hst
        simp [hs, hst']

private theorem inv_fold (rs : List Reply) (a : Replies) (pre : List Reply) (h : Inv a pre) :
    Inv (rs.foldl Replies.append a) (pre ++ rs) := by
  induction rs generalizing a pre with
  | nil => simpa using h
  | cons r rs ih =>
    have := ih (a.append r) (pre ++ [r]) (inv_step a pre r h)
    simpa using this

/-- an aggregate is positive exactly when it is non-empty and every member is positive, lists its members in
    arrival order, and its status text is the members' texts joined by CR LF -/
theorem aggregate (rs : List Reply) :
    (Replies.appendAll rs).isPositive = (!rs.isEmpty && rs.all (fun r => r.isPositive)) ∧
    (Replies.appendAll rs).list = rs ∧
    (Replies.appendAll rs).status = Spec.intercalateCRLF (rs.map (·.text)) := by
  have h := inv_fold rs Replies.empty [] ⟨rfl, by simp [Replies.empty, Spec.aggPositive], by simp [Replies.empty, Spec.aggStatus, Spec.intercalateCRLF]⟩
  obtain ⟨hl, hp, hs⟩ := h
  simp only [List.nil_append] at hl hp hs
  refine ⟨?_, hl, hs⟩
  show (List.foldl Replies.append Replies.empty rs).isPositive = _
  rw [hp, Spec.aggPositive]
  congr 1

/-- non-vacuity: a mixed aggregate -/
example : (Replies.appendAll [⟨150, str "150 a"⟩, ⟨550, str "550 b"⟩, ⟨226, []⟩]).isPositive = false ∧
    (Replies.appendAll [⟨150, str "150 a"⟩, ⟨226, str "226 b"⟩]).isPositive = true ∧
    (Replies.appendAll [⟨150, str "1"⟩, ⟨226, str "2"⟩]).status = [49, 13, 10, 50] := by decide

end Ftp.Props.C15
