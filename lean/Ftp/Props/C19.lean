import Ftp.Spec.Pure
import Ftp.Lemmas.CmdParser
/-
  C19 - the command-line parser is total, case-insensitive and inverts its quoting.
  Model: `Ftp.Cmd` (get_command_from_string, parse_command over the stream-extraction contract).
-/
namespace Ftp.Props.C19
open Ftp Ftp.Cmd

/-- the comparison chain of the code recognises exactly the 27 documented (name, command) pairs -/
theorem table_documented :
    verbTable.length = 27 ∧ (∀ p ∈ verbTable, p ∈ Spec.verbs) ∧ (∀ p ∈ Spec.verbs, p ∈ verbTable) ∧
    (verbTable.map (·.1)).Nodup ∧ (verbTable.map (·.2)).Nodup := by
  decide

/-- a token is accepted as command `c` exactly when it equals the documented name of `c` up to ASCII letter case;
    nothing else is accepted -/
theorem verb_iff (tok : Bytes) (c : Command) :
    commandFromString tok = some c ↔ tok.map Spec.asciiLower = str c.name :=
  commandFromString_iff tok c

/-- totality: every line gives a command with arguments or the application's own "invalid command" -/
theorem total (line : Bytes) :
    parseCommand line = .invalid ∨ ∃ c args, parseCommand line = .ok c args := by
  cases h : parseCommand line with
  | invalid => exact Or.inl rfl
  | ok c args => exact Or.inr ⟨c, args, rfl⟩

/-- arguments written with the supported quoting, each preceded by a non-empty run of white space -/
def renderArgs : List Bytes → List Bytes → Bytes
  | a :: as, s :: ss => s ++ Spec.quote a ++ renderArgs as ss
  | _, _ => []

private theorem renderArgs_length (args seps : List Bytes) (hl : seps.length = args.length) :
    args.length ≤ (renderArgs args seps).length := by
  induction args generalizing seps with
  | nil => simp
  | cons a as ih =>
    cases seps with
    | nil => simp at hl
    | cons s ss =>
      have := ih ss (by simpa using hl)
      simp only [renderArgs, Spec.quote, List.length_append, List.length_cons, List.length_nil]
      omega

private theorem startsSpace_render (args seps : List Bytes)
    (hs : ∀ s ∈ seps, s ≠ [] ∧ ∀ b ∈ s, isSpace b = true)
    (trail : Bytes) (htrail : ∀ b ∈ trail, isSpace b = true) :
    startsSpace (renderArgs args seps ++ trail) := by
  cases args with
  | nil => simpa [renderArgs] using startsSpace_of_all trail htrail
  | cons a as =>
    cases seps with
    | nil => simpa [renderArgs] using startsSpace_of_all trail htrail
    | cons s ss =>
      have h1 := hs s (by simp)
      obtain ⟨s0, st, rfl⟩ := List.exists_cons_of_ne_nil h1.1
      intro x hx
      simp only [renderArgs, List.cons_append, List.head?_cons, Option.mem_def, Option.some.injEq] at hx
      subst hx
      exact h1.2 s0 (by simp)

private theorem argsLoop_render (args seps : List Bytes) (hl : seps.length = args.length)
    (hs : ∀ s ∈ seps, s ≠ [] ∧ ∀ b ∈ s, isSpace b = true)
    (trail : Bytes) (htrail : ∀ b ∈ trail, isSpace b = true) (fuel : Nat) (hf : args.length < fuel) :
    argsLoop fuel (renderArgs args seps ++ trail) = args := by
  induction args generalizing seps fuel with
  | nil =>
    cases fuel with
    | zero => omega
    | succ f => simp [renderArgs, argsLoop, extractQuoted_all_space trail htrail]
  | cons a as ih =>
    cases seps with
    | nil => simp at hl
    | cons s ss =>
      cases fuel with
      | zero => omega
      | succ f =>
        have h1 := hs s (by simp)
        have e : renderArgs (a :: as) (s :: ss) ++ trail = s ++ Spec.quote a ++ (renderArgs as ss ++ trail) := by
          simp [renderArgs]
        rw [e]
        simp only [argsLoop, extractQuoted_quote s a _ h1.2]
        rw [ih ss (by simpa using hl) (fun x hx => hs x (by simp [hx])) f (by simp at hf; omega)]

/-- round trip: any verb in any letter case, followed by any list of arbitrary byte strings written with double quotes
    and backslash escapes and separated by white space, is recovered exactly (leading / trailing white space allowed) -/
theorem roundtrip (c : Command) (verb : Bytes) (hv : verb.map Spec.asciiLower = str c.name)
    (args seps : List Bytes) (hl : seps.length = args.length)
    (hs : ∀ s ∈ seps, s ≠ [] ∧ ∀ b ∈ s, isSpace b = true)
    (lead trail : Bytes) (hlead : ∀ b ∈ lead, isSpace b = true) (htrail : ∀ b ∈ trail, isSpace b = true) :
    parseCommand (lead ++ verb ++ renderArgs args seps ++ trail) = .ok c args := by
  have hvl : ∀ b ∈ verb, isSpace b = false := by
    intro b hb
    apply isSpace_false_of_lower
    apply name_lower c
    rw [← hv]
    exact List.mem_map_of_mem hb
  have hne : verb ≠ [] := by
    intro h
    subst h
    exact name_ne_nil c hv.symm
  obtain ⟨v0, vt, rfl⟩ := List.exists_cons_of_ne_nil hne
  have hcmd := (verb_iff _ c).2 hv
  have e : lead ++ (v0 :: vt) ++ renderArgs args seps ++ trail =
      lead ++ ((v0 :: vt) ++ (renderArgs args seps ++ trail)) := by simp
  have hlen := renderArgs_length args seps hl
  unfold parseCommand
  rw [e, skipWs_append_space _ _ hlead, List.cons_append, skipWs_cons_nonspace _ _ (hvl v0 (by simp)),
    ← List.cons_append, takeWord_append _ _ hvl (startsSpace_render args seps hs trail htrail)]
  simp only [hcmd]
  congr 1
  apply argsLoop_render args seps hl hs trail htrail
  simp only [List.length_append]
  omega

/-- non-vacuity -/
example : parseCommand (str "  GeT \"a \\\"b\\\\\" \t\"\" c") = .ok .get [str "a \"b\\", [], str "c"] ∧
    parseCommand (str "gett x") = .invalid ∧ parseCommand (str "get \"unterminated") = .ok .get [] ∧
    parseCommand [] = .invalid := by decide

end Ftp.Props.C19
