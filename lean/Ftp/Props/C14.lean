import Ftp.Spec.Session
import Ftp.Lemmas.ClientTrace
/-
  C14 - observers see exactly the control-channel transcript, in order.
  Model: `Ftp.Client` (client::send / recv / notify_*); every API call of `Ftp.Session.Op`.
-/
namespace Ftp.Props.C14
open Ftp Ftp.Client Ftp.Session Ftp.Client.TraceL

/-- what the registered observers are told around one transcript event, in registration order: a connect, a reply
    and a listing are announced after they happened, a command before it is written -/
def block (obs : List Nat) : Ev → List Ev
  | .ctlConnect h p => .ctlConnect h p :: obs.map (fun o => .obsConnected o h p)
  | .ctlWrite b => obs.map (fun o => .obsRequest o (lineOf b)) ++ [.ctlWrite b]
  | .ctlWriteFail b => obs.map (fun o => .obsRequest o (lineOf b)) ++ [.ctlWriteFail b]
  | .ctlReply c t => .ctlReply c t :: obs.map (fun o => .obsReply o c t)
  | .listing t => .listing t :: obs.map (fun o => .obsFileList o t)
  | e => [e]

/-- what observer `o` must be told for a transcript event -/
def toObs (o : Nat) : Ev → Option Ev
  | .ctlConnect h p => some (.obsConnected o h p)
  | .ctlWrite b => some (.obsRequest o (lineOf b))
  | .ctlWriteFail b => some (.obsRequest o (lineOf b))
  | .ctlReply c t => some (.obsReply o c t)
  | .listing t => some (.obsFileList o t)
  | _ => none


/-! ### proof: an invariant kept by every atomic step, hence by every call -/

/-- the events a program appended are interleaved as `block` prescribes -/
private def Good (obs : List Nat) (δ : List Ev) : Prop :=
  δ.filter (fun e => isTranscript e || isObs e) = (δ.filter isTranscript).flatMap (block obs)

private def R (w w' : World) : Prop :=
  w'.observers = w.observers ∧ ∃ δ, w'.trace = w.trace ++ δ ∧ Good w.observers δ

private theorem good_nil (obs : List Nat) : Good obs [] := rfl

private theorem good_append {obs : List Nat} {a b : List Ev} (ha : Good obs a) (hb : Good obs b) : Good obs (a ++ b) := by
  unfold Good at *
  simp only [List.filter_append, List.flatMap_append, ha, hb]

private theorem R_refl (w : World) : R w w := ⟨rfl, [], by simp, good_nil _⟩

private theorem R_trans (a b c : World) (h1 : R a b) (h2 : R b c) : R a c := by
  obtain ⟨ho1, δ1, ht1, hg1⟩ := h1
  obtain ⟨ho2, δ2, ht2, hg2⟩ := h2
  refine ⟨ho2.trans ho1, δ1 ++ δ2, by rw [ht2, ht1, List.append_assoc], good_append hg1 ?_⟩
  rw [← ho1]; exact hg2

private theorem lineOf_crlf (cmd : Bytes) : lineOf (cmd ++ CRLF) = cmd := by
  simp [lineOf, CRLF]

private theorem R_of_append {w w' : World} {δ : List Ev} (ho : w'.observers = w.observers)
    (ht : w'.trace = w.trace ++ δ) (hg : Good w.observers δ) : R w w' := ⟨ho, δ, ht, hg⟩

private theorem good_plain (obs : List Nat) (e : Ev) (h : plain e = true) : Good obs [e] := by
  have : (isTranscript e || isObs e) = false := by
    simpa only [plain, Bool.not_eq_true'] using h
  have h2 : isTranscript e = false := by simp only [Bool.or_eq_false_iff] at this; exact this.1
  have h3 : isObs e = false := by simp only [Bool.or_eq_false_iff] at this; exact this.2
  simp [Good, h2, h3]

private theorem keeps_R_mod (w₀ : World) (f : World → World) (h : ∀ w', FrameD w' (f w')) : Keeps (R w₀) (modifyW f) :=
  keeps_of_rel R_trans (fun _ => R_of_append (h _).2.1 (by simpa using (h _).1) (good_nil _)) w₀

private theorem keeps_R_emit (w₀ : World) (e : Ev) (h : plain e = true) : Keeps (R w₀) (emit e) :=
  keeps_of_rel R_trans (fun _ => R_of_append (δ := [e]) rfl rfl (good_plain _ e h)) w₀

private theorem keeps_R_close (w₀ : World) : Keeps (R w₀) ctlClose := by
  unfold ctlClose
  exact keeps_bind (keeps_R_emit _ _ rfl) fun _ => keeps_bind (keeps_R_emit _ _ rfl) fun _ =>
    keeps_of_rel R_trans (fun _ => R_of_append (δ := []) rfl (by simp) (good_nil _)) w₀

private theorem keeps_R_drop (w₀ : World) : Keeps (R w₀) connectDrop := by
  unfold connectDrop
  exact keeps_bind (keeps_R_emit _ _ rfl) fun _ =>
    keeps_of_rel R_trans (fun _ => R_of_append (δ := []) rfl (by simp) (good_nil _)) w₀

private theorem keeps_R_send (w₀ : World) (c : Bytes) : Keeps (R w₀) (ctlSend c) := by
  refine keeps_of_rel R_trans (fun w => ?_) w₀
  rw [ctlSend_eq]
  simp only [bind_apply, forObservers_apply, sendTail, getW_apply]
  split
  · refine R_of_append (δ := w.observers.map (fun o => .obsRequest o c) ++ [.ctlWriteFail (c ++ CRLF)]) rfl
      (by simp) ?_
    simp [Good, List.filter_append, List.filter_cons, List.filter_map, Function.comp_def, isTranscript, isObs, block,
      lineOf_crlf]
  · refine R_of_append (δ := w.observers.map (fun o => .obsRequest o c) ++ [.ctlWrite (c ++ CRLF)]) rfl
      (by simp) ?_
    simp [Good, List.filter_append, List.filter_cons, List.filter_map, Function.comp_def, isTranscript, isObs, block,
      lineOf_crlf]

private theorem keeps_R_recvTail (w₀ : World) (c : Nat) (t : Bytes) : Keeps (R w₀) (recvTail c t) := by
  refine keeps_of_rel R_trans (fun w => ?_) w₀
  unfold recvTail
  split
  · simp only [ctlClose, bind_apply, emit_apply, modifyW_apply, forObservers_apply, pure_apply]
    refine R_of_append
      (δ := [.ctlReply c t, .ctlShutdown, .ctlClose] ++ w.observers.map (fun o => .obsReply o c t)) rfl (by simp) ?_
    simp [Good, List.filter_cons, List.filter_map, Function.comp_def,
      isTranscript, isObs, block]
  · simp only [bind_apply, emit_apply, forObservers_apply, pure_apply]
    refine R_of_append (δ := [.ctlReply c t] ++ w.observers.map (fun o => .obsReply o c t)) rfl (by simp) ?_
    simp [Good, List.filter_cons, List.filter_map, Function.comp_def,
      isTranscript, isObs, block]

private theorem keeps_R_copen (w₀ : World) (h : Bytes) (p : Nat) : Keeps (R w₀) (connectOpen h p) := by
  refine keeps_of_rel R_trans (fun w => ?_) w₀
  simp only [connectOpen, bind_apply, emit_apply, modifyW_apply, forObservers_apply]
  refine R_of_append (δ := [.ctlConnect h p] ++ w.observers.map (fun o => .obsConnected o h p)) rfl (by simp) ?_
  simp [Good, List.filter_cons, List.filter_map, Function.comp_def,
    isTranscript, isObs, block]

private theorem keeps_R_listing (w₀ : World) (t : Bytes) : Keeps (R w₀) (listingNotify t) := by
  refine keeps_of_rel R_trans (fun w => ?_) w₀
  simp only [listingNotify, bind_apply, emit_apply, forObservers_apply]
  refine R_of_append (δ := [.listing t] ++ w.observers.map (fun o => .obsFileList o t)) rfl (by simp) ?_
  simp [Good, List.filter_cons, List.filter_map, Function.comp_def,
    isTranscript, isObs, block]

private theorem plain_of_quiet {e : Ev} (h : quiet e = true) : plain e = true := by
  simp only [quiet, Bool.and_eq_true] at h; exact h.1

private theorem atoms (w₀ : World) : AtomsD (R w₀) where
  mod f h := keeps_R_mod w₀ f fun w => frameD_of_frame (h w)
  emit e h := keeps_R_emit w₀ e (plain_of_quiet h)
  send := keeps_R_send w₀
  recv := keeps_ctlRecv (keeps_R_emit w₀ _ rfl) (fun f h => keeps_R_mod w₀ f fun w => frameD_of_frame (h w))
    (keeps_R_recvTail w₀)
  close := keeps_R_close w₀
  drop := keeps_R_drop w₀
  copen := keeps_R_copen w₀
  modD := keeps_R_mod w₀
  emitD := keeps_R_emit w₀
  listing := keeps_R_listing w₀

private theorem run_R (op : Op) (w : World) : R w (after op.run w) :=
  keeps_rel (fun w₀ => keeps_run (atoms w₀).atomsB op) R_refl w

/-- a call only ever appends to the trace, and never changes the set of observers -/
theorem trace_grows (op : Op) (w : World) :
    (after op.run w).trace = w.trace ++ added op.run w ∧ (after op.run w).observers = w.observers := by
  obtain ⟨ho, δ, ht, _⟩ := run_R op w
  rw [added_of_append _ _ δ ht]
  exact ⟨ht, ho⟩

/-- for every API call in every state (any server behaviour, any fault): the transcript events and the observer events
    of the call are interleaved exactly as `block` prescribes - each command is announced to every registered observer,
    in registration order, immediately before it is written; each connect, each reply as framed and each listing
    immediately after it -/
theorem interleaving (op : Op) (w : World) :
    (added op.run w).filter (fun e => isTranscript e || isObs e) =
      ((added op.run w).filter isTranscript).flatMap (block w.observers) := by
  obtain ⟨_, δ, ht, hg⟩ := run_R op w
  rw [added_of_append _ _ δ ht]
  exact hg


private theorem isObsOf_and (o : Nat) (e : Ev) : isObsOf o e = (isObsOf o e && (isTranscript e || isObs e)) := by
  cases e <;> simp [isObsOf, isTranscript, isObs]

private theorem filter_eq_single {o : Nat} {obs : List Nat} (ho : o ∈ obs) (hn : obs.Nodup) :
    obs.filter (fun i => i == o) = [o] := by
  induction obs with
  | nil => cases ho
  | cons x xs ih =>
    rw [List.nodup_cons] at hn
    by_cases hx : x = o
    · subst hx
      have : xs.filter (fun i => i == x) = [] := by
        rw [List.filter_eq_nil_iff]; intro a ha; simp only [beq_iff_eq]; intro h; exact hn.1 (h ▸ ha)
      simp [this]
    · have ho' : o ∈ xs := by
        rcases List.mem_cons.mp ho with h | h
        · exact absurd h.symm hx
        · exact h
      simp [hx, ih ho' hn.2]

private theorem filter_eq_none {o : Nat} {obs : List Nat} (ho : o ∉ obs) : obs.filter (fun i => i == o) = [] := by
  rw [List.filter_eq_nil_iff]; intro a ha; simp only [beq_iff_eq]; intro h; exact ho (h ▸ ha)

private theorem block_filter_of_mem {o : Nat} {obs : List Nat} (ho : o ∈ obs) (hn : obs.Nodup) (e : Ev)
    (he : isTranscript e = true) : (block obs e).filter (isObsOf o) = (toObs o e).toList := by
  cases e <;> simp [isTranscript] at he <;>
    simp [block, toObs, List.filter_append, List.filter_map, Function.comp_def, isObsOf,
      filter_eq_single ho hn]

private theorem block_filter_of_not_mem {o : Nat} {obs : List Nat} (ho : o ∉ obs) (e : Ev)
    (he : isTranscript e = true) : (block obs e).filter (isObsOf o) = [] := by
  cases e <;> simp [isTranscript] at he <;>
    simp [block, List.filter_append, List.filter_map, Function.comp_def, isObsOf,
      filter_eq_none ho]

private theorem toObs_of_transcript (o : Nat) (e : Ev) :
    (if isTranscript e = true then toObs o e else none) = toObs o e := by
  cases e <;> simp [isTranscript, toObs]

/-- what observer `o` sees of a call, in terms of the transcript of the call -/
private theorem obs_view (op : Op) (w : World) (o : Nat) :
    (added op.run w).filter (isObsOf o) =
      ((added op.run w).filter isTranscript).flatMap (fun e => (block w.observers e).filter (isObsOf o)) := by
  have h := congrArg (List.filter (isObsOf o)) (interleaving op w)
  rw [List.filter_filter, List.filter_flatMap] at h
  rw [← h]
  exact List.filter_congr fun e _ => isObsOf_and o e

/-- hence the event sequence of a registered observer equals the transcript of the control channel -/
theorem log_is_transcript (op : Op) (w : World) (o : Nat) (ho : o ∈ w.observers) (hn : w.observers.Nodup) :
    (added op.run w).filter (isObsOf o) = (added op.run w).filterMap (toObs o) := by
  rw [obs_view]
  have h2 : (added op.run w).filterMap (toObs o) = ((added op.run w).filter isTranscript).filterMap (toObs o) := by
    rw [List.filterMap_filter]
    simp only [toObs_of_transcript]
  rw [h2]
  have hall : ∀ e ∈ (added op.run w).filter isTranscript, isTranscript e = true := fun e he => (List.mem_filter.mp he).2
  generalize (added op.run w).filter isTranscript = T at hall
  induction T with
  | nil => rfl
  | cons e es ih =>
    rw [List.flatMap_cons, List.filterMap_cons, ih (fun e he => hall e (List.mem_cons_of_mem _ he)),
      block_filter_of_mem ho hn e (hall e List.mem_cons_self)]
    cases toObs o e <;> rfl

/-- an observer that is not registered (never added, or removed) receives nothing -/
theorem unregistered_is_silent (op : Op) (w : World) (o : Nat) (ho : o ∉ w.observers) :
    (added op.run w).filter (isObsOf o) = [] := by
  rw [obs_view]
  have hall : ∀ e ∈ (added op.run w).filter isTranscript, isTranscript e = true := fun e he => (List.mem_filter.mp he).2
  generalize (added op.run w).filter isTranscript = T at hall
  induction T with
  | nil => rfl
  | cons e es ih =>
    rw [List.flatMap_cons, ih (fun e he => hall e (List.mem_cons_of_mem _ he)),
      block_filter_of_not_mem ho e (hall e List.mem_cons_self)]
    rfl

/-- non-vacuity: a login seen by two observers -/
example :
    let w : World := { mode := .passive, ttype := .binary, rfc := true, observers := [0, 2], connected := true,
                       script := [{ raws := [str "230 ok\r\n"] }, { raws := [str "200 ok\r\n"] }] }
    (added (Op.login (str "u") (str "p")).run w).filter (isObsOf 2) =
      [.obsRequest 2 (str "USER u"), .obsReply 2 230 (str "230 ok"), .obsRequest 2 (str "TYPE I"), .obsReply 2 200 (str "200 ok")] := by
  decide

end Ftp.Props.C14
