import Ftp.Model.Observers
import Ftp.Model.Client
/-
  C14, re-entrant removal: "An observer that has been removed receives nothing further" when the removal happens from
  inside a callback, while a notification round is in progress.  Model: `Ftp.Observers.round` (the range-for over the
  std::list of observers with `std::list::remove` called from a callback).
-/
namespace Ftp.Props.C14
open Ftp.Observers

/-- without re-entrant removals a round calls every registered observer, in registration order (this is the
    `forObservers` of the client model, whose theorems quantify over the observer list at the start of a call) -/
theorem round_without_removals (obs : List Nat) : round (fun _ => []) obs [] = obs := by
  induction obs with
  | nil => rfl
  | cons o rest ih => simp [round, ih]

/-- the notification primitive of the client model (`Ftp.Client.forObservers`, through which every observer event of
    every operation is emitted) is one such round without removals over the observers registered at that moment -/
theorem forObservers_is_a_round (f : Nat → Ftp.Client.Ev) (w : Ftp.Client.World) :
    Ftp.Client.forObservers f w =
      (.ok (), { w with trace := w.trace ++ (round (fun _ => []) w.observers []).map f }) := by
  rw [round_without_removals]
  rfl

/-- nobody who was unregistered before his turn is called -/
theorem round_skips_dead (kills : Nat → List Nat) (obs dead : List Nat) (x : Nat) (hx : x ∈ dead) :
    x ∉ round kills obs dead := by
  induction obs generalizing dead with
  | nil => simp [round]
  | cons o rest ih =>
    unfold round
    split
    · exact ih dead hx
    · rename_i hd
      intro hmem
      rcases List.mem_cons.1 hmem with h | h
      · subst h; simp [hx] at hd
      · exact ih (dead ++ kills o) (List.mem_append_left _ hx) h

/-- the observers called are called in registration order, each at most as often as it is registered -/
theorem round_sublist (kills : Nat → List Nat) (obs dead : List Nat) : (round kills obs dead).Sublist obs := by
  induction obs generalizing dead with
  | nil => simp [round]
  | cons o rest ih =>
    unfold round
    split
    · exact (ih dead).cons o
    · exact (ih _).cons₂ o

/-- a round over `a ++ b` is the round over `a` followed by the round over `b` in which everybody the observers called
    in `a` have unregistered is dead -/
theorem round_append (kills : Nat → List Nat) (a b dead : List Nat) :
    round kills (a ++ b) dead = round kills a dead ++ round kills b (dead ++ (round kills a dead).flatMap kills) := by
  induction a generalizing dead with
  | nil => simp [round]
  | cons o rest ih =>
    simp only [List.cons_append, round]
    split
    · exact ih dead
    · simp only [List.cons_append, List.flatMap_cons, ih, List.append_assoc]

/-- **a removed observer receives nothing further**: once an observer that is called has unregistered `x`, `x` is not
    called in the rest of the round, wherever it stands -/
theorem removed_observer_not_called_afterwards (kills : Nat → List Nat) (a b : List Nat) (o x : Nat)
    (ho : o ∈ round kills a []) (hx : x ∈ kills o) : x ∉ round kills b ([] ++ (round kills a []).flatMap kills) := by
  apply round_skips_dead
  simp only [List.nil_append, List.mem_flatMap]
  exact ⟨o, ho, hx⟩

/-- ... and it is not registered any more when the round is over -/
theorem removed_observer_not_registered_afterwards (kills : Nat → List Nat) (obs : List Nat) (o x : Nat)
    (ho : o ∈ round kills obs []) (hx : x ∈ kills o) : x ∉ remaining kills obs := by
  unfold remaining
  intro h
  have := (List.mem_filter.1 h).2
  simp only [Bool.not_eq_true', List.contains_eq_mem, decide_eq_false_iff_not, List.mem_flatMap, not_exists, not_and] at this
  exact this o ho hx

/-- observers that nobody unregisters are not affected: they are called exactly as without removals -/
theorem others_unaffected (kills : Nat → List Nat) (obs dead : List Nat) (x : Nat) (hx : x ∈ obs)
    (hd : x ∉ dead) (hk : ∀ o, x ∉ kills o) : x ∈ round kills obs dead := by
  induction obs generalizing dead with
  | nil => cases hx
  | cons o rest ih =>
    unfold round
    rcases List.mem_cons.1 hx with h | h
    · subst h
      simp [hd]
    · split
      · exact ih dead h hd
      · exact List.mem_cons_of_mem _ (ih _ h (by simp [hd, hk o]))

/-- the armed removal of the harness (`rmin:i:j`: observer i unregisters observer j at its next callback, i ≠ j): the
    round calls everybody up to and including i, and after i everybody but j - which is how the driver rewrites the
    model's event stream at the place where the implementation reports that the removal fired -/
theorem round_single_kill (i j : Nat) (pre post : List Nat) (hij : i ≠ j) (hpre : i ∉ pre) :
    round (single i j) (pre ++ i :: post) [] = pre ++ i :: post.filter (· ≠ j) := by
  have single_ne : ∀ o, o ≠ i → single i j o = [] := fun o h => by simp [single, h]
  have single_self : single i j i = [j] := by simp [single]
  have hpre' : round (single i j) pre [] = pre ∧ (round (single i j) pre []).flatMap (single i j) = [] := by
    induction pre with
    | nil => simp [round]
    | cons o rest ih =>
      have ho : o ≠ i := fun h => hpre (by simp [h])
      have hr : i ∉ rest := fun h => hpre (List.mem_cons_of_mem _ h)
      obtain ⟨h1, h2⟩ := ih hr
      have e : round (single i j) (o :: rest) [] = o :: round (single i j) rest [] := by
        simp [round, single_ne o ho]
      rw [e, h1] at *
      exact ⟨rfl, by rw [List.flatMap_cons, single_ne o ho, h1] at *; simpa using h2⟩
  -- after i: j is dead, nobody else unregisters anybody
  have hpost : ∀ (l dead : List Nat), (∀ x, x ∈ dead ↔ x = j) → round (single i j) l dead = l.filter (· ≠ j) := by
    intro l
    induction l with
    | nil => intro dead _; simp [round]
    | cons o rest ih =>
      intro dead hdead
      unfold round
      by_cases hoj : o = j
      · subst hoj
        have : dead.contains o = true := by simp [hdead]
        simp only [this, if_true]
        rw [ih dead hdead]
        simp
      · have : dead.contains o = false := by simp [hdead, hoj]
        simp only [this, Bool.false_eq_true, if_false]
        rw [ih (dead ++ single i j o) (by
          intro x
          by_cases hoi : o = i
          · subst hoi; rw [single_self]; simp [hdead]
          · rw [single_ne o hoi]; simp [hdead])]
        simp [hoj]
  rw [round_append]
  obtain ⟨h1, h2⟩ := hpre'
  rw [h1] at h2 ⊢
  rw [h2]
  congr 1
  have e : round (single i j) (i :: post) ([] ++ []) = i :: round (single i j) post ([] ++ [] ++ single i j i) := by
    simp [round]
  rw [e, single_self]
  congr 1
  exact hpost post _ (by simp)

/-- non-vacuity: three observers, the first unregisters the third from inside its callback: the third is not called in
    this round and is gone afterwards; the second is called as usual -/
example : round (single 0 2) [0, 1, 2] [] = [0, 1] ∧ remaining (single 0 2) [0, 1, 2] = [0, 1] := by decide

end Ftp.Props.C14
