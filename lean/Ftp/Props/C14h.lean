import Ftp.Spec.History
import Ftp.Props.C14
import Ftp.Lemmas.History
/-
  C14 at the level of histories, with observers registered and unregistered between calls.
-/
namespace Ftp.Props.C14
open Ftp Ftp.Client Ftp.Session Ftp.Session.Hist

/-- what observer `o` is told about the events of a trace (the definition `toObs` of C14.lean) while it is registered -/
def expectedLog (o : Nat) : List Call → World → List Ev
  | [], _ => []
  | c :: rest, w =>
    (if o ∈ (c.before w).observers then (added c.op.run (c.before w)).filterMap (toObs o) else []) ++
      expectedLog o rest (c.after w)

/-- for every history of every length in which the environment may also register / unregister observers between calls
    (never the same observer twice): the log of an observer is exactly the transcript of the calls made while it was
    registered, in order, and nothing else -/
theorem history_log (o : Nat) (h : List Call) (w : World) (hfair : ∀ c ∈ h, c.fair)
    (hnodup : ∀ w' ∈ starts h w, w'.observers.Nodup) :
    (histAdded h w).filter (isObsOf o) = expectedLog o h w := by
  induction h generalizing w with
  | nil => rw [histAdded_nil]; rfl
  | cons c rest ih =>
    have hfr : ∀ c' ∈ rest, c'.fair := fun c' hc' => hfair c' (List.mem_cons_of_mem _ hc')
    have hn : (c.before w).observers.Nodup := hnodup _ (by rw [starts]; exact List.mem_cons_self)
    have ih' := ih (c.after w) hfr fun w' hw' => hnodup w' (by rw [starts]; exact List.mem_cons_of_mem _ hw')
    rw [histAdded_cons c rest hfair, List.filter_append, ih', expectedLog]
    congr 1
    split
    · exact log_is_transcript c.op (c.before w) o ‹_› hn
    · exact unregistered_is_silent c.op (c.before w) o ‹_›

/-- a history during which nobody touches the observer list: the log of a registered observer is the transcript of
    the whole history -/
theorem history_log_fixed (o : Nat) (h : List Call) (w : World) (hfair : ∀ c ∈ h, c.fair)
    (hkeep : ∀ c ∈ h, c.keepsObservers) (ho : o ∈ w.observers) (hn : w.observers.Nodup) :
    (histAdded h w).filter (isObsOf o) = (histAdded h w).filterMap (toObs o) := by
  induction h generalizing w with
  | nil => rw [histAdded_nil]; rfl
  | cons c rest ih =>
    have hfr : ∀ c' ∈ rest, c'.fair := fun c' hc' => hfair c' (List.mem_cons_of_mem _ hc')
    have hb : (c.before w).observers = w.observers := hkeep c List.mem_cons_self w
    have ha : (c.after w).observers = w.observers := by
      rw [Call.after, (trace_grows c.op (c.env w)).2]; exact hb
    have ih' := ih (c.after w) hfr (fun c' hc' => hkeep c' (List.mem_cons_of_mem _ hc')) (by rw [ha]; exact ho)
      (by rw [ha]; exact hn)
    rw [histAdded_cons c rest hfair, List.filter_append, List.filterMap_append, ih',
      log_is_transcript c.op (c.before w) o (by rw [hb]; exact ho) (by rw [hb]; exact hn)]

end Ftp.Props.C14
