import Ftp.Spec.Pure
import Ftp.Lemmas.Utils
import Ftp.Lemmas.Endpoint
/-
  C06 (pure part) - every number taken from a 227/229 reply is the number written; PORT/EPRT advertise,
  in RFC 959 / RFC 2428 syntax, exactly the given address and port.
  Model: `Ftp.Endpoint.parseEpsv / parsePasv / fmtPort / fmtEprt`.
-/
namespace Ftp.Props.C06
open Ftp Ftp.Utils Ftp.Endpoint

/-- 229: a port is produced exactly for `pre ( d d d <digits> d ) post` (first `(`, last `)`), one delimiter in
    33..126, and the port is the decimal value written, below 65536 -/
theorem epsv_iff (t : Bytes) (p : Nat) :
    parseEpsv t = some p ↔
      ∃ pre d ds post, t = pre ++ [40, d, d, d] ++ ds ++ [d, 41] ++ post ∧ 40 ∉ pre ∧ 41 ∉ post ∧
        33 ≤ d ∧ d ≤ 126 ∧ isDigits ds = true ∧ decValue ds = p ∧ p < 65536 := by
  constructor
  · intro h
    unfold parseEpsv at h
    cases hg : parenGroup t with
    | none => simp [hg] at h
    | some g =>
      obtain ⟨pre, inner, post⟩ := g
      obtain ⟨ht, hpre, hpost⟩ := parenGroup_sound hg
      simp only [hg] at h
      rcases inner with _ | ⟨a0, _ | ⟨a1, _ | ⟨a2, rest⟩⟩⟩
      · simp at h
      · simp at h
      · simp at h
      · rcases List.eq_nil_or_concat rest with rfl | ⟨ds, l, rfl⟩
        · simp at h
        · simp only [List.concat_eq_append] at h ht
          have e1 : (a0 :: a1 :: a2 :: (ds ++ [l])).getLast? = some l := List.getLast?_concat (l := a0 :: a1 :: a2 :: ds)
          have e2 : (List.drop 3 (a0 :: a1 :: a2 :: (ds ++ [l]))).dropLast = ds := by simp
          rw [e1, e2, parseU16_spec] at h
          simp only [List.getD_cons_zero, List.getD_cons_succ] at h
          split at h
          · cases h
          · split at h
            · cases h
            · split at h
              · cases h
              · split at h
                · rename_i h1 h2 h3 h4
                  simp only [Bool.or_eq_true, decide_eq_true_eq, not_or, bne_iff_ne, ne_eq,
                    Decidable.not_not, Option.some.injEq] at h2 h3 h
                  obtain ⟨⟨rfl, rfl⟩, rfl⟩ := h3
                  refine ⟨pre, l, ds, post, ?_, hpre, hpost, by omega, by omega, h4.1, h, by omega⟩
                  rw [ht]; simp
                · cases h
  · rintro ⟨pre, d, ds, post, rfl, hpre, hpost, hd1, hd2, hds, rfl, hp⟩
    have ht : pre ++ [40, d, d, d] ++ ds ++ [d, 41] ++ post
        = pre ++ 40 :: ((d :: d :: d :: (ds ++ [d])) ++ 41 :: post) := by simp
    have hne := isDigits_ne_nil hds
    have hlen : ¬ (d :: d :: d :: (ds ++ [d])).length < 5 := by
      cases ds with
      | nil => exact absurd rfl hne
      | cons x xs => simp
    have e1 : (d :: d :: d :: (ds ++ [d])).getLast? = some d := List.getLast?_concat (l := d :: d :: d :: ds)
    have e2 : (List.drop 3 (d :: d :: d :: (ds ++ [d]))).dropLast = ds := by simp
    have hd : ¬ ((decide (d < 33) || decide (d > 126)) = true) := by
      simp only [Bool.or_eq_true, decide_eq_true_eq]; omega
    unfold parseEpsv
    rw [ht, parenGroup_complete _ hpre hpost]
    simp only [hlen, if_false, e1, e2, List.getD_cons_zero, List.getD_cons_succ, hd, parseU16_spec, hds]
    simp
    omega

/-- 227 soundness: an endpoint is produced only for six comma-separated decimal fields, each at most 255; the
    address is the four numbers written and the port is p1 * 256 + p2 (never wrapped: it is below 65536) -/
theorem pasv_sound (t ip : Bytes) (port : Nat) (h : parsePasv t = some (ip, port)) :
    ∃ pre post f1 f2 f3 f4 f5 f6,
      t = pre ++ [40] ++ f1 ++ [44] ++ f2 ++ [44] ++ f3 ++ [44] ++ f4 ++ [44] ++ f5 ++ [44] ++ f6 ++ [41] ++ post ∧
      (∀ f ∈ [f1, f2, f3, f4, f5, f6], isDigits f = true ∧ decValue f ≤ 255) ∧
      ip = dotted (decValue f1) (decValue f2) (decValue f3) (decValue f4) ∧
      port = decValue f5 * 256 + decValue f6 ∧ port < 65536 := by
  unfold parsePasv at h
  cases hg : parenGroup t with
  | none => simp [hg] at h
  | some g =>
    obtain ⟨pre, a, post⟩ := g
    obtain ⟨ht, hpre, hpost⟩ := parenGroup_sound hg
    simp only [hg] at h
    split at h
    · cases h
    · split at h
      · cases h
      · rename_i hcnt
        split at h
        · rename_i t0 t1 t2 t3 t4 t5 hs
          split at h
          · rename_i h1 h2 h3 h4 p1 p2 e1 e2 e3 e4 e5 e6
            simp only [Option.some.injEq, Prod.mk.injEq] at h
            obtain ⟨rfl, rfl⟩ := h
            obtain ⟨d1, v1, rfl⟩ := parseU8_some e1
            obtain ⟨d2, v2, rfl⟩ := parseU8_some e2
            obtain ⟨d3, v3, rfl⟩ := parseU8_some e3
            obtain ⟨d4, v4, rfl⟩ := parseU8_some e4
            obtain ⟨d5, v5, rfl⟩ := parseU8_some e5
            obtain ⟨d6, v6, rfl⟩ := parseU8_some e6
            have hc : a.count 44 = 5 := by simpa using hcnt
            unfold splitString at hs
            have hj := splitGo_join 44 a [] (by rw [hs, hc]; rfl)
            rw [hs] at hj
            simp only [joinWith, List.nil_append] at hj
            refine ⟨pre, post, t0, t1, t2, t3, t4, t5, ?_, ?_, rfl, rfl, by omega⟩
            · rw [ht, ← hj]; simp
            · simp only [List.mem_cons, List.not_mem_nil, or_false]
              rintro f (rfl | rfl | rfl | rfl | rfl | rfl) <;> constructor <;> assumption
          · cases h
        · cases h

/-- 227 completeness: every well-formed reply (first `(`, last `)`) is accepted with exactly those numbers -/
theorem pasv_complete (pre post f1 f2 f3 f4 f5 f6 : Bytes) (hpre : 40 ∉ pre) (hpost : 41 ∉ post)
    (hf : ∀ f ∈ [f1, f2, f3, f4, f5, f6], isDigits f = true ∧ decValue f ≤ 255) :
    parsePasv (pre ++ [40] ++ f1 ++ [44] ++ f2 ++ [44] ++ f3 ++ [44] ++ f4 ++ [44] ++ f5 ++ [44] ++ f6 ++ [41] ++ post)
      = some (dotted (decValue f1) (decValue f2) (decValue f3) (decValue f4), decValue f5 * 256 + decValue f6) := by
  obtain ⟨d1, v1⟩ := hf f1 (by simp)
  obtain ⟨d2, v2⟩ := hf f2 (by simp)
  obtain ⟨d3, v3⟩ := hf f3 (by simp)
  obtain ⟨d4, v4⟩ := hf f4 (by simp)
  obtain ⟨d5, v5⟩ := hf f5 (by simp)
  obtain ⟨d6, v6⟩ := hf f6 (by simp)
  have c : (44 : Nat) < 48 ∨ 57 < 44 := by omega
  have n1 := not_mem_of_isDigits d1 c
  have n2 := not_mem_of_isDigits d2 c
  have n3 := not_mem_of_isDigits d3 c
  have n4 := not_mem_of_isDigits d4 c
  have n5 := not_mem_of_isDigits d5 c
  have n6 := not_mem_of_isDigits d6 c
  have ht : pre ++ [40] ++ f1 ++ [44] ++ f2 ++ [44] ++ f3 ++ [44] ++ f4 ++ [44] ++ f5 ++ [44] ++ f6 ++ [41] ++ post
      = pre ++ 40 :: ((f1 ++ 44 :: (f2 ++ 44 :: (f3 ++ 44 :: (f4 ++ 44 :: (f5 ++ 44 :: f6))))) ++ 41 :: post) := by
    simp
  have hs : splitString (f1 ++ 44 :: (f2 ++ 44 :: (f3 ++ 44 :: (f4 ++ 44 :: (f5 ++ 44 :: f6))))) 44
      = [f1, f2, f3, f4, f5, f6] := by
    unfold splitString
    rw [splitGo_piece _ _ _ _ n1, splitGo_piece _ _ _ _ n2, splitGo_piece _ _ _ _ n3,
      splitGo_piece _ _ _ _ n4, splitGo_piece _ _ _ _ n5, splitGo_last _ _ _ n6 (isDigits_ne_nil d6)]
    simp
  have hcnt : (f1 ++ 44 :: (f2 ++ 44 :: (f3 ++ 44 :: (f4 ++ 44 :: (f5 ++ 44 :: f6))))).count 44 = 5 := by
    simp only [List.count_append, List.count_cons_self, List.count_eq_zero.mpr n1,
      List.count_eq_zero.mpr n2, List.count_eq_zero.mpr n3, List.count_eq_zero.mpr n4,
      List.count_eq_zero.mpr n5, List.count_eq_zero.mpr n6]
  have hne : (f1 ++ 44 :: (f2 ++ 44 :: (f3 ++ 44 :: (f4 ++ 44 :: (f5 ++ 44 :: f6))))).isEmpty = false := by
    simp
  unfold parsePasv
  rw [ht, parenGroup_complete _ hpre hpost]
  simp only [hne, hcnt, hs, parseU8_digits d1 v1, parseU8_digits d2 v2, parseU8_digits d3 v3,
    parseU8_digits d4 v4, parseU8_digits d5 v5, parseU8_digits d6 v6]
  simp

/-- `std::to_string` round-trips through decimal reading -/
theorem toDec_roundtrip (n : Nat) : isDigits (toDec n) = true ∧ decValue (toDec n) = n := by
  exact toDec_spec n

/-- PORT: for every IPv4 address and every port the command is `PORT ` followed by an argument that an RFC 959
    server decodes to exactly that address and port -/
theorem port_roundtrip (a b c d port : Nat) (ha : a < 256) (hb : b < 256) (hc : c < 256) (hd : d < 256)
    (hp : port < 65536) :
    ∃ cmd, fmtPort .v4 (dotted a b c d) port = some cmd ∧ cmd.take 5 = str "PORT " ∧
      Spec.decodePortArg (cmd.drop 5) = some ([a, b, c, d], port) := by
  refine ⟨_, rfl, ?_, ?_⟩
  · rw [str_PORT]; rfl
  · have k : (44 : Nat) < 48 ∨ 57 < 44 := by omega
    have e : List.drop 5 (str "PORT " ++ (dotted a b c d).map (fun ch => if ch = 46 then 44 else ch)
          ++ [44] ++ toDec (port / 256) ++ [44] ++ toDec (port % 256))
        = toDec a ++ 44 :: (toDec b ++ 44 :: (toDec c ++ 44 :: (toDec d ++ 44 ::
            (toDec (port / 256) ++ 44 :: toDec (port % 256))))) := by
      rw [str_PORT]
      simp [dotted, map_dot_toDec]
    rw [e]
    unfold Spec.decodePortArg
    rw [splitComma_piece _ _ _ (not_mem_toDec a k), splitComma_piece _ _ _ (not_mem_toDec b k),
      splitComma_piece _ _ _ (not_mem_toDec c k), splitComma_piece _ _ _ (not_mem_toDec d k),
      splitComma_piece _ _ _ (not_mem_toDec _ k), splitComma_last _ _ (not_mem_toDec _ k)]
    simp only [List.nil_append, List.map_cons, List.map_nil, octet_toDec a ha, octet_toDec b hb,
      octet_toDec c hc, octet_toDec d hd, octet_toDec (port / 256) (by omega),
      octet_toDec (port % 256) (by omega)]
    simp
    omega

/-- PORT is refused for anything that is not IPv4 -/
theorem port_v6_refused (addr : Bytes) (port : Nat) : fmtPort .v6 addr port = none := rfl

/-- EPRT: for both families, every address text free of `|` and every port, the command is `EPRT ` followed by an
    argument that an RFC 2428 server decodes to exactly that family, address and port -/
theorem eprt_roundtrip (fam : Family) (addr : Bytes) (port : Nat) (ha : 124 ∉ addr) (hp : port < 65536) :
    (fmtEprt fam addr port).take 5 = str "EPRT " ∧
    Spec.decodeEprtArg ((fmtEprt fam addr port).drop 5) =
      some ((match fam with | .v4 => 1 | .v6 => 2), addr, port) := by
  have k : (124 : Nat) < 48 ∨ 57 < 124 := by omega
  unfold fmtEprt
  rw [str_EPRTbar, str_EPRT]
  refine ⟨by simp, ?_⟩
  have e : ∀ f : Nat, List.drop 5 ([69, 80, 82, 84, 32, 124] ++ [f] ++ [124] ++ addr ++ [124] ++ toDec port ++ [124])
      = [] ++ 124 :: ([f] ++ 124 :: (addr ++ 124 :: (toDec port ++ 124 :: []))) := by
    intro f; simp
  have s : ∀ f : Nat, f ≠ 124 → Spec.splitBar ([] ++ 124 :: ([f] ++ 124 :: (addr ++ 124 :: (toDec port ++ 124 :: [])))) []
      = [[], [f], addr, toDec port, []] := by
    intro f hf
    rw [splitBar_piece _ _ _ (by simp), splitBar_piece _ _ _ (by simpa using hf.symm),
      splitBar_piece _ _ _ ha, splitBar_piece _ _ _ (not_mem_toDec _ k)]
    simp [Spec.splitBar]
  cases fam
  · simp only []
    rw [e 49]
    unfold Spec.decodeEprtArg
    rw [s 49 (by omega)]
    simp [toDec_isDigits, toDec_decValue, hp]
  · simp only []
    rw [e 50]
    unfold Spec.decodeEprtArg
    rw [s 50 (by omega)]
    simp [toDec_isDigits, toDec_decValue, hp]

/-- non-vacuity / the repaired defects -/
example : parseEpsv (str "229 Entering Extended Passive Mode (|||6446|)") = some 6446 ∧
    parseEpsv (str "229 ok (||6446|)") = none ∧ parseEpsv (str "229 ok (abc6446x)") = none ∧
    parseEpsv (str "229 ok (|||65536|)") = none ∧
    parsePasv (str "227 Entering Passive Mode (127,0,0,1,198,65)") = some (str "127.0.0.1", 50753) ∧
    parsePasv (str "227 ok (127,0,0,1,256,0)") = none ∧ parsePasv (str "227 ok (1,2,3,4,5,6,)") = none ∧
    parsePasv (str "227 ok (999,0,0,1,4,5)") = none ∧
    fmtPort .v4 (str "10.0.0.1") 50000 = some (str "PORT 10,0,0,1,195,80") ∧
    fmtEprt .v6 (str "::1") 50000 = str "EPRT |2|::1|50000|" := by decide

end Ftp.Props.C06
