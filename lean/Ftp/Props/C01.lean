import Ftp.Spec.Reader
import Ftp.Lemmas.Utils
import Ftp.Lemmas.Reader
/-
  C01 - control replies are framed exactly, independent of network segmentation.
  Model: `Ftp.Reader` (match_eol, read_until contract, control_connection::read_line / recv / is_last_line).
-/
namespace Ftp.Props.C01
open Ftp Ftp.Reader

/-- one line of a reply: its content and the terminator the server chose -/
structure Line where
  text : Bytes
  crlf : Bool
  deriving Repr, DecidableEq

def Line.enc (l : Line) : Bytes := l.text ++ (if l.crlf then [CR, LF] else [LF])

/-- content free of CR and LF, and the whole line (with terminator) shorter than the 8192-byte limit -/
def Line.ok (l : Line) : Prop := CR ∉ l.text ∧ LF ∉ l.text ∧ l.text.length + 2 < maxLine

def digits3 (code : Nat) : Bytes := [48 + code / 100, 48 + code / 10 % 10, 48 + code % 10]

/-- an RFC 959 reply as a list of raw lines -/
structure WfReply where
  code : Nat
  lines : List Line
  deriving Repr, DecidableEq

/-- single-line `ddd SP text`, or multi-line opened by `ddd-` and closed by the first later line that begins with the
    same `ddd` followed by a space (middle lines are arbitrary otherwise: they may start with digits, with another
    code, or with the same code followed by `-`) -/
def WfReply.wf (r : WfReply) : Prop :=
  100 ≤ r.code ∧ r.code ≤ 599 ∧ (∀ l ∈ r.lines, l.ok) ∧
  ((∃ t crlf, r.lines = [⟨digits3 r.code ++ SP :: t, crlf⟩]) ∨
   (∃ t0 c0 mids tn cn,
      r.lines = ⟨digits3 r.code ++ 45 :: t0, c0⟩ :: (mids ++ [⟨digits3 r.code ++ SP :: tn, cn⟩]) ∧
      ∀ m ∈ mids, isLastLine m.enc r.code = false))

/-- the bytes the server sends for the reply -/
def WfReply.raw (r : WfReply) : Bytes := (r.lines.map Line.enc).flatten

/-- the reply's bytes minus the final line terminator -/
def WfReply.text (r : WfReply) : Bytes :=
  (r.lines.dropLast.map Line.enc).flatten ++ (match r.lines.getLast? with | some l => l.text | none => [])

def WfReply.expected (r : WfReply) : RecvR := .reply r.code r.text

def streamOf (rs : List WfReply) : Bytes := (rs.map WfReply.raw).flatten

/-- what is still to come after some replies have been received: the not yet consumed bytes are exactly the encoding of
    the remaining replies, possibly preceded by the LF of a CR LF pair that was cut between two reads (and then the
    reader knows it: `skipLf`) -/
def Pending (c : Ctl) (net : Net) (rest : List WfReply) : Prop :=
  (c.buf ++ net.stream = streamOf rest) ∨ (c.skipLf = true ∧ c.buf ++ net.stream = LF :: streamOf rest)

/-! ### private helpers: from the structured reply to the generic reader lemmas of `Ftp.Lemmas.Reader` -/

private def termOf (crlf : Bool) : Bytes := if crlf then [CR, LF] else [LF]

private def item (l : Line) : Bytes × Bytes := (l.text, termOf l.crlf)

private theorem okTerm_termOf (b : Bool) : OkTerm (termOf b) := by
  cases b
  · exact .inl rfl
  · exact .inr rfl

private theorem enc_eq (l : Line) : l.enc = l.text ++ termOf l.crlf := rfl

private theorem enc_fun : Line.enc = fun l => l.text ++ termOf l.crlf := rfl

private theorem encItems_map (ls : List Line) : encItems (ls.map item) = (ls.map Line.enc).flatten := by
  induction ls with
  | nil => rfl
  | cons l ls ih => rw [List.map_cons, encItems_cons, ih]; simp [item, enc_eq]

private theorem streamOf_cons (r : WfReply) (rest : List WfReply) : streamOf (r :: rest) = r.raw ++ streamOf rest := by
  simp [streamOf]

private theorem digits3_head (code : Nat) (h1 : 100 ≤ code) (h2 : code ≤ 599) (b : Nat) (t : Bytes) :
    4 ≤ (digits3 code ++ b :: t).length ∧ parseStatus (digits3 code ++ b :: t) = some code ∧
    (digits3 code ++ b :: t).getD 3 0 = b ∧ digits3 code ++ b :: t ≠ [] := by
  refine ⟨by simp [digits3], parseStatus_digits code h1 h2 (b :: t), by simp [digits3], by simp [digits3]⟩

private theorem codeOf_d3 (code : Nat) (h1 : 100 ≤ code) (h2 : code ≤ 599) (x : Bytes) :
    Spec.codeOf (digits3 code ++ x) = some code := Spec.codeOf_digits code h1 h2 x

private theorem step_of_out (r : WfReply) (rest : List WfReply) (c : Ctl) (net : Net)
    (h : RecvOut r.code r.text (streamOf rest) net (recv c net)) :
    ∃ c' net', recv c net = (r.expected, c', net') ∧ Pending c' net' rest ∧ c'.buf.length ≤ maxLine ∧
      net'.sizes.length ≤ net.sizes.length ∧ net'.fin = net.fin := by
  rcases hrd : recv c net with ⟨res, c', net'⟩
  rw [hrd] at h
  obtain ⟨h1, h2, h3, h4, h5⟩ := h
  simp only at h1 h2 h3 h4 h5
  subst h1
  exact ⟨c', net', rfl, h5, h2, h4, h3⟩

/-- one receive step yields the next reply exactly, and keeps everything after it for the next step - for every
    delivery schedule and every state of the buffer that `Pending` allows -/
theorem step (r : WfReply) (rest : List WfReply) (hr : r.wf) (c : Ctl) (net : Net)
    (hb : c.buf.length ≤ maxLine) (hp : Pending c net (r :: rest)) :
    ∃ c' net', recv c net = (r.expected, c', net') ∧ Pending c' net' rest ∧ c'.buf.length ≤ maxLine ∧
      net'.sizes.length ≤ net.sizes.length ∧ net'.fin = net.fin := by
  apply step_of_out
  obtain ⟨hlo, hhi, hok, hshape⟩ := hr
  rw [Pending, streamOf_cons] at hp
  rcases hshape with ⟨t, crlf, hlines⟩ | ⟨t0, c0, mids, tn, cn, hlines, hmids⟩
  · -- single-line reply
    obtain ⟨h4, hps, h3, hne⟩ := digits3_head r.code hlo hhi SP t
    have hokl : OkText (digits3 r.code ++ SP :: t) := hok ⟨_, crlf⟩ (by rw [hlines]; simp)
    have hraw : r.raw = (digits3 r.code ++ SP :: t) ++ termOf crlf := by
      simp [WfReply.raw, hlines, enc_eq]
    have htext : r.text = digits3 r.code ++ SP :: t := by
      simp [WfReply.text, hlines]
    rw [hraw, List.append_assoc] at hp
    obtain ⟨l, buf1, net1, hrecv, hlo'⟩ := recv_first c net _ _ _ hokl (okTerm_termOf crlf) hne hb hp
    rw [hrecv, htext]
    exact recvAfter_single c r.code _ _ _ l buf1 net net1 hokl h4 hps h3 (okTerm_termOf crlf) hlo'
  · -- multi-line reply
    obtain ⟨h40, hps0, h30, hne0⟩ := digits3_head r.code hlo hhi 45 t0
    obtain ⟨h4n, hpsn, h3n, _⟩ := digits3_head r.code hlo hhi SP tn
    have hok0 : OkText (digits3 r.code ++ 45 :: t0) := hok ⟨_, c0⟩ (by rw [hlines]; simp)
    have hokn : OkText (digits3 r.code ++ SP :: tn) := hok ⟨_, cn⟩ (by rw [hlines]; simp)
    have hraw : r.raw = (digits3 r.code ++ 45 :: t0) ++ (termOf c0 ++ (encItems (mids.map item) ++
        ((digits3 r.code ++ SP :: tn) ++ termOf cn))) := by
      simp [WfReply.raw, hlines, enc_eq, encItems_map]
    have htext : r.text = (digits3 r.code ++ 45 :: t0) ++ (termOf c0 ++ (encItems (mids.map item) ++
        (digits3 r.code ++ SP :: tn))) := by
      have hl2 : r.lines = (⟨digits3 r.code ++ 45 :: t0, c0⟩ :: mids) ++ [⟨digits3 r.code ++ SP :: tn, cn⟩] := by
        rw [hlines]; simp
      rw [WfReply.text, hl2, List.dropLast_concat, List.getLast?_concat]
      simp [enc_eq, encItems_map]
    have hitems : ∀ p ∈ mids.map item, OkText p.1 ∧ OkTerm p.2 ∧ isLastLine (p.1 ++ p.2) r.code = false := by
      intro p hp
      obtain ⟨m, hm, rfl⟩ := List.mem_map.mp hp
      exact ⟨hok m (by rw [hlines]; simp [hm]), okTerm_termOf _, hmids m hm⟩
    have hlast : isLastLine (digits3 r.code ++ SP :: tn) r.code = true := by
      exact isLastLine_of _ _ h4n h3n hpsn
    rw [hraw] at hp
    simp only [List.append_assoc] at hp
    obtain ⟨l, buf1, net1, hrecv, hlo'⟩ := recv_first c net _ _ _ hok0 (okTerm_termOf c0) hne0 hb hp
    rw [hrecv, htext]
    exact recvAfter_multi c r.code _ _ _ _ _ l buf1 _ net net1 h40 hps0 h30 hitems hokn (okTerm_termOf cn) h4n hlast
      (by simpa only [List.append_assoc] using hlo')

private theorem framing_gen (rs : List WfReply) (hwf : ∀ r ∈ rs, r.wf) (c : Ctl) (net : Net)
    (hb : c.buf.length ≤ maxLine) (hp : Pending c net rs) :
    ∃ c' net', recvMany rs.length c net = (rs.map WfReply.expected, c', net') ∧ Pending c' net' [] := by
  induction rs generalizing c net with
  | nil => exact ⟨c, net, rfl, hp⟩
  | cons r rs ih =>
    obtain ⟨c1, net1, h1, hp1, hb1, _, _⟩ := step r rs (hwf r (List.mem_cons_self ..)) c net hb hp
    obtain ⟨c2, net2, h2, hp2⟩ := ih (fun r hr => hwf r (List.mem_cons_of_mem _ hr)) c1 net1 hb1 hp1
    refine ⟨c2, net2, ?_, hp2⟩
    simp only [List.length_cons, recvMany, h1, h2, List.map_cons]

/-- framing: for every finite sequence of well-formed replies and every way the stream is cut into network reads
    (`sizes`), the receive steps yield exactly the replies, in order; nothing is lost, duplicated or merged -/
theorem framing (rs : List WfReply) (hwf : ∀ r ∈ rs, r.wf) (sizes : List Nat) (fin : End) :
    ∃ c' net', recvMany rs.length {} { stream := streamOf rs, sizes := sizes, fin := fin } =
        (rs.map WfReply.expected, c', net') ∧ Pending c' net' [] := by
  apply framing_gen rs hwf
  · show ([] : Bytes).length ≤ maxLine
    simp
  · exact .inl (by simp)

/-- the result is identical for every two segmentations -/
theorem schedule_independent (rs : List WfReply) (hwf : ∀ r ∈ rs, r.wf) (s1 s2 : List Nat) (f1 f2 : End) :
    (recvMany rs.length {} { stream := streamOf rs, sizes := s1, fin := f1 }).1 =
    (recvMany rs.length {} { stream := streamOf rs, sizes := s2, fin := f2 }).1 := by
  obtain ⟨_, _, h1, _⟩ := framing rs hwf s1 f1
  obtain ⟨_, _, h2, _⟩ := framing rs hwf s2 f2
  rw [h1, h2]

private def linesEnc (rs : List WfReply) : List Bytes := (rs.map (fun r => r.lines.map Line.enc)).flatten

private def allItems (rs : List WfReply) : List (Bytes × Bytes) := (rs.map (fun r => r.lines.map item)).flatten

private theorem streamOf_eq_encItems (rs : List WfReply) : streamOf rs = encItems (allItems rs) := by
  induction rs with
  | nil => rfl
  | cons r rs ih =>
    rw [streamOf_cons, ih]
    simp [allItems, encItems, WfReply.raw, item, enc_fun, Function.comp_def]

private theorem allItems_enc (rs : List WfReply) : (allItems rs).map (fun p => p.1 ++ p.2) = linesEnc rs := by
  simp [allItems, linesEnc, item, enc_fun, List.map_flatten, Function.comp_def]

private theorem allItems_ok (rs : List WfReply) (hwf : ∀ r ∈ rs, r.wf) :
    ∀ p ∈ allItems rs, OkText p.1 ∧ OkTerm p.2 := by
  intro p hp
  simp only [allItems, List.mem_flatten, List.mem_map] at hp
  obtain ⟨_, ⟨r, hr, rfl⟩, hp⟩ := hp
  obtain ⟨l, hl, rfl⟩ := List.mem_map.mp hp
  exact ⟨(hwf r hr).2.2.1 l hl, okTerm_termOf _⟩

private theorem linesEnc_cons (r : WfReply) (rs : List WfReply) :
    linesEnc (r :: rs) = r.lines.map Line.enc ++ linesEnc rs := by
  simp [linesEnc]

private theorem group_spec (rs : List WfReply) (hwf : ∀ r ∈ rs, r.wf) (f : Nat) (hf : (linesEnc rs).length ≤ f) :
    Spec.groupReplies f (linesEnc rs) = some (rs.map fun r => (r.code, r.text)) := by
  induction rs generalizing f with
  | nil => exact Spec.groupReplies_nil f
  | cons r rs ih =>
    have ih' := ih (fun r hr => hwf r (List.mem_cons_of_mem _ hr))
    obtain ⟨hlo, hhi, hok, hshape⟩ := hwf r (List.mem_cons_self ..)
    rw [linesEnc_cons] at hf ⊢
    rcases hshape with ⟨t, crlf, hlines⟩ | ⟨t0, c0, mids, tn, cn, hlines, hmids⟩
    · obtain ⟨h4, hps, h3, hne⟩ := digits3_head r.code hlo hhi SP t
      have hokl : OkText (digits3 r.code ++ SP :: t) := hok ⟨_, crlf⟩ (by rw [hlines]; simp)
      have htext : r.text = digits3 r.code ++ SP :: t := by
        simp [WfReply.text, hlines]
      rw [hlines] at hf ⊢
      simp only [List.map_cons, List.map_nil, List.cons_append, List.nil_append, List.length_cons] at hf ⊢
      obtain ⟨f', rfl⟩ : ∃ f', f = f' + 1 := ⟨f - 1, by omega⟩
      rw [htext]
      exact Spec.groupReplies_single f' ((digits3 r.code ++ SP :: t) ++ termOf crlf) _ r.code _ _
        (by rw [List.append_assoc]; exact codeOf_d3 r.code hlo hhi _) (Spec.content_enc _ _ hokl.1 (okTerm_termOf crlf)) h3
        (ih' f' (by omega))
    · obtain ⟨h40, hps0, h30, hne0⟩ := digits3_head r.code hlo hhi 45 t0
      obtain ⟨h4n, hpsn, h3n, hnen⟩ := digits3_head r.code hlo hhi SP tn
      have hok0 : OkText (digits3 r.code ++ 45 :: t0) := hok ⟨_, c0⟩ (by rw [hlines]; simp)
      have hokn : OkText (digits3 r.code ++ SP :: tn) := hok ⟨_, cn⟩ (by rw [hlines]; simp)
      have hl2 : r.lines = (⟨digits3 r.code ++ 45 :: t0, c0⟩ :: mids) ++ [⟨digits3 r.code ++ SP :: tn, cn⟩] := by
        rw [hlines]; simp
      have hcont0 : Spec.content ((digits3 r.code ++ 45 :: t0) ++ termOf c0) = digits3 r.code ++ 45 :: t0 :=
        Spec.content_enc _ _ hok0.1 (okTerm_termOf c0)
      have hm : ∀ m ∈ mids.map Line.enc, Spec.closes r.code m = false := by
        intro m' hm'
        obtain ⟨m, hm, rfl⟩ := List.mem_map.mp hm'
        cases hcl : Spec.closes r.code m.enc with
        | false => rfl
        | true =>
          have := Spec.closes_imp_isLastLine r.code m.text (termOf m.crlf)
            (hok m (by rw [hlines]; simp [hm])).1 (okTerm_termOf _) hcl
          rw [← enc_eq, hmids m hm] at this
          exact absurd this (by simp)
      have hcl : Spec.closes r.code ((digits3 r.code ++ SP :: tn) ++ termOf cn) = true :=
        Spec.closes_of r.code _ _ hokn.1 (okTerm_termOf cn)
          (by rw [List.append_assoc]; exact codeOf_d3 r.code hlo hhi _) h3n h4n
      have htake := Spec.takeReply_spec r.code (mids.map Line.enc) _ (linesEnc rs) hm hcl
      have hshape : List.map Line.enc r.lines ++ linesEnc rs =
          ((digits3 r.code ++ 45 :: t0) ++ termOf c0) ::
            (mids.map Line.enc ++ ((digits3 r.code ++ SP :: tn) ++ termOf cn) :: linesEnc rs) := by
        rw [hlines]; simp [enc_eq]
      rw [hshape] at hf ⊢
      simp only [List.length_cons] at hf
      obtain ⟨f', rfl⟩ : ∃ f', f = f' + 1 := ⟨f - 1, by omega⟩
      have hf' : (linesEnc rs).length ≤ f' := by
        simp only [List.length_append, List.length_cons] at hf; omega
      have hc0 : Spec.codeOf ((digits3 r.code ++ 45 :: t0) ++ termOf c0) = some r.code := by
        rw [List.append_assoc]; exact codeOf_d3 r.code hlo hhi _
      have := Spec.groupReplies_multi f' ((digits3 r.code ++ 45 :: t0) ++ termOf c0) _ _ _ r.code _ hc0
        (by rw [hcont0]; exact h30) (by rw [hcont0]; exact h40) htake (ih' f' hf')
      rw [this, List.map_cons]
      congr 3
      rw [WfReply.text, hl2, List.dropLast_concat, List.getLast?_concat]
      simp only [List.flatten_append, List.flatten_cons, List.flatten_nil, List.append_nil, List.map_cons]
      have hca := Spec.content_append_enc
        (((digits3 r.code ++ 45 :: t0) ++ termOf c0) ++ (mids.map Line.enc).flatten) _ _ hnen hokn.1 (okTerm_termOf cn)
      simp only [enc_eq, List.append_assoc] at hca ⊢
      exact hca

/-- the reference decoder used as the monitor agrees with the structured encoding -/
theorem decode_encode (rs : List WfReply) (hwf : ∀ r ∈ rs, r.wf) :
    Spec.decodeStream (streamOf rs) = some (rs.map fun r => (r.code, r.text)) := by
  have hok := allItems_ok rs hwf
  unfold Spec.decodeStream
  rw [streamOf_eq_encItems, Spec.rawLines_enc _ (fun p hp => ⟨(hok p hp).1.2.1, (hok p hp).2⟩)]
  simp only [Spec.linesOk_enc _ hok, if_true]
  rw [allItems_enc]
  exact group_spec rs hwf _ (Nat.le_refl _)

/-- non-vacuity: `150 ok CR | LF 226 done CR LF` (the cut that used to break framing), and a multi-line reply whose
    middle lines start with digits / the same code and `-` -/
example :
    let r1 : WfReply := ⟨150, [⟨str "150 ok", true⟩]⟩
    let r2 : WfReply := ⟨226, [⟨str "226-a", true⟩, ⟨str "226-b", false⟩, ⟨str "2260", true⟩, ⟨str "226 done", true⟩]⟩
    (recvMany 2 {} { stream := streamOf [r1, r2], sizes := [7, 1, 3, 200], fin := .eof }).1 = [r1.expected, r2.expected] ∧
    r2.text = str "226-a\r\n226-b\n2260\r\n226 done" := by decide

end Ftp.Props.C01

