import Ftp.Spec.History
import Ftp.Props.C17
import Ftp.Lemmas.History
/-
  C17 at the level of histories: the number of descriptors the client holds does not grow with the number of operations.
-/
namespace Ftp.Props.C17
open Ftp Ftp.Client Ftp.Session Ftp.Session.Hist

/-- the induction behind `history_balanced`: the accounting of the whole history, strengthened by the bounds on the
    descriptor counter that make the descriptors of different calls distinct -/
private theorem history_inv (h : List Call) (w : World) (hfair : ∀ c ∈ h, c.fair) (h0 : w.conn = none) :
    (runHistory h w).conn = none ∧
    (opened (histAdded h w)).Perm (closed (histAdded h w)) ∧
    (opened (histAdded h w)).Nodup ∧
    ∀ d ∈ opened (histAdded h w), w.nextD ≤ d := by
  induction h generalizing w with
  | nil =>
    rw [histAdded_nil]
    exact ⟨h0, List.Perm.refl _, List.nodup_nil, fun d hd => by cases hd⟩
  | cons c rest ih =>
    have hf := hfair c List.mem_cons_self
    have hb0 : (c.before w).conn = none := by rw [Call.before, (hf w).conn]; exact h0
    obtain ⟨b1, b2, b3⟩ := balanced c.op (c.before w) hb0
    obtain ⟨f1, f2⟩ := fresh c.op (c.before w) hb0
    have hub := opened_lt c.op (c.before w)
    have hnd : (c.before w).nextD = w.nextD := (hf w).nextD
    obtain ⟨i1, i2, i3, i4⟩ := ih (c.after w) (fun c' hc' => hfair c' (List.mem_cons_of_mem _ hc')) b1
    rw [histAdded_cons c rest hfair, opened_append, closed_append]
    refine ⟨i1, b2.append i2, List.nodup_append.mpr ⟨b3, i3, fun a ha b hb hab => ?_⟩, fun d hd => ?_⟩
    · have h1 := hub a ha
      have h2 := i4 b hb
      subst hab
      exact absurd h1 (Nat.not_lt.mpr h2)
    · rcases List.mem_append.mp hd with hd | hd
      · rw [← hnd]; exact f1 d hd
      · have := i4 d hd
        have h3 : w.nextD ≤ (c.after w).nextD := by rw [← hnd]; exact f2
        omega

/-- for every history of API calls, of every length, whatever the environment does between and during the calls
    (any server behaviour, any connect / read / write / close result, failing user streams, cancellation), returned or
    thrown: no data_connection object survives, every data or listening descriptor opened anywhere in the history has
    been closed exactly once by the end of the call that opened it, and no descriptor number is used twice -/
theorem history_balanced (h : List Call) (w : World) (hfair : ∀ c ∈ h, c.fair) (h0 : w.conn = none) :
    (runHistory h w).conn = none ∧
    (opened (histAdded h w)).Perm (closed (histAdded h w)) ∧
    (opened (histAdded h w)).Nodup := by
  obtain ⟨h1, h2, h3, _⟩ := history_inv h w hfair h0
  exact ⟨h1, h2, h3⟩

/-- ... at every point between two calls, not only at the end -/
theorem history_balanced_everywhere (h : List Call) (w : World) (hfair : ∀ c ∈ h, c.fair) (h0 : w.conn = none) :
    ∀ w' ∈ starts h w, w'.conn = none ∧
      (opened (w'.trace.drop w.trace.length)).Perm (closed (w'.trace.drop w.trace.length)) := by
  induction h generalizing w with
  | nil => intro w' hw'; cases hw'
  | cons c rest ih =>
    intro w' hw'
    have hf := hfair c List.mem_cons_self
    have hb0 : (c.before w).conn = none := by rw [Call.before, (hf w).conn]; exact h0
    rw [starts, List.mem_cons] at hw'
    rcases hw' with rfl | hw'
    · refine ⟨hb0, ?_⟩
      have : (c.before w).trace.drop w.trace.length = [] := by
        rw [Call.before, (hf w).trace, List.drop_length]
      rw [this]
      exact List.Perm.refl _
    · obtain ⟨b1, b2, _⟩ := balanced c.op (c.before w) hb0
      have hfr : ∀ c' ∈ rest, c'.fair := fun c' hc' => hfair c' (List.mem_cons_of_mem _ hc')
      obtain ⟨i1, i2⟩ := ih (c.after w) hfr b1 w' hw'
      have ht := starts_trace rest hfr (c.after w) w' hw'
      have hd : w'.trace.drop w.trace.length =
          added c.op.run (c.before w) ++ w'.trace.drop (c.after w).trace.length := by
        generalize w'.trace.drop (c.after w).trace.length = ε at ht ⊢
        rw [ht, call_trace c hf, List.append_assoc, List.drop_left]
      rw [hd, opened_append, closed_append]
      exact ⟨i1, b2.append i2⟩

private def refusedDownload : Call where
  env w := { w with listenPorts := [50000], script := [{ raws := [str "200 ok\r\n"] }, { raws := [str "550 no\r\n"] }] }
  op := .download (str "f") false

private def noop : Call where
  env w := { w with script := [{ raws := [str "200 ok\r\n"] }] }
  op := .simple "NOOP" none

/-- non-vacuity: a history of three calls (refused active-mode download, simple command, refused download again - in
    active mode as well: the transfer mode is a member of the client, which the environment cannot change) -/
example : ∃ h : List Call, h.length = 3 ∧ (∀ c ∈ h, c.fair) ∧
    (opened (histAdded h { mode := .active, ttype := .binary, rfc := true, connected := true })).length ≥ 1 := by
  refine ⟨[refusedDownload, noop, refusedDownload], rfl, ?_, by decide⟩
  intro c hc
  simp only [List.mem_cons, List.not_mem_nil, or_false] at hc
  rcases hc with rfl | rfl | rfl <;> exact fun w => ⟨rfl, rfl, rfl, rfl, rfl, rfl, rfl, rfl, rfl⟩

end Ftp.Props.C17
