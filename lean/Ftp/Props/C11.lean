import Ftp.Model.ClientTls
import Ftp.Lemmas.ClientTls
/-
  C11 - with TLS configured nothing but AUTH TLS travels in clear text.
  Model: `Ftp.ClientTls` (connect / AUTH TLS / handshake, login with PBSZ and PROT, data-connection handshake
  after the transfer command is accepted, logout / disconnect) on top of the plain client model.
-/
namespace Ftp.Props.C11
open Ftp Ftp.Client Ftp.ClientTls

def afterT {α} (m : MT α) (w : WorldT) : WorldT := (m w).2
def resultT {α} (m : MT α) (w : WorldT) : Res α := (m w).1
def addedT {α} (m : MT α) (w : WorldT) : List EvT := (afterT m w).trace.drop w.trace.length

/-- command lines written while the control channel is not protected -/
def plainWrites (tr : List EvT) : List Bytes := tr.filterMap fun | .ev false (.ctlWrite b) => some b | _ => none
/-- all command lines written -/
def allWrites (tr : List EvT) : List Bytes := tr.filterMap fun | .ev _ (.ctlWrite b) => some b | _ => none
/-- payload movement on the data connection -/
def isPayload : EvT → Bool
  | .ev _ (.dataRead _ _) | .ev _ (.dataWrite _ _) | .ev _ (.sinkWrite _) | .ev _ (.srcRead _ _) => true
  | _ => false

def AUTH : Bytes := str "AUTH TLS\r\n"

/-- the calls made between connect and logout / disconnect -/
inductive SessionOp
  | login (u p : Bytes)
  | simple (verb : String) (arg : Option Bytes)
  | download (path : Bytes)
  | upload (verb : String) (path : Bytes)
  | list (path : Option Bytes) (names : Bool)

def SessionOp.run : SessionOp → MT Unit
  | .login u p => do let _ ← loginT u p; pure ()
  | .simple v a => do let _ ← lift (Client.simple v a); pure ()
  | .download p => do let _ ← downloadT p; pure ()
  | .upload v p => do let _ ← uploadT v p; pure ()
  | .list p n => do let _ ← fileListT p n; pure ()

/-! the definitions above and their copies in `Ftp.ClientTls.L` (used by the helper lemmas) agree -/

private theorem plainWrites_eq (tr : List EvT) : plainWrites tr = L.plainWrites tr := rfl
private theorem allWrites_eq (tr : List EvT) : allWrites tr = L.allWrites tr := rfl
private theorem isPayload_eq (e : EvT) : isPayload e = L.payloadT e := by
  cases e with
  | ev t e0 => cases e0 <;> rfl
  | _ => rfl
private theorem keep_eq :
    (fun e : EvT => match e with | .ev _ (.obsReply _ _ _) | .ev _ (.dataAccept _ _) => false | _ => true) = L.keepT := by
  funext e
  cases e with
  | ev t e0 => cases e0 <;> rfl
  | _ => rfl

private theorem op_tag (op : SessionOp) : L.AllT L.TagOk op.run := by
  cases op with
  | login u p => exact L.allT_discard (L.q3_tag (L.loginT_q3 u p))
  | simple v a => exact L.allT_discard (L.q3_tag (L.q3_lift (L.simple_np v a)))
  | download p => exact L.allT_discard (L.downloadT_tag p)
  | upload v p => exact L.allT_discard (L.uploadT_tag v p)
  | list p n => exact L.allT_discard (L.fileListT_tag p n)

private theorem op_shape (op : SessionOp) (w : WorldT) :
    L.SatT op.run w (fun r _ evs => L.Shape w (r = .throw) evs) := by
  cases op with
  | login u p => exact L.satT_discard (Q := fun t _ evs => L.Shape w t evs) (L.shape_q3 (L.loginT_q3 u p) w)
  | simple v a =>
    exact L.satT_discard (Q := fun t _ evs => L.Shape w t evs) (L.shape_q3 (L.q3_lift (L.simple_np v a)) w)
  | download p => exact L.satT_discard (Q := fun t _ evs => L.Shape w t evs) (L.downloadT_shape p w)
  | upload v p => exact L.satT_discard (Q := fun t _ evs => L.Shape w t evs) (L.uploadT_shape v p w)
  | list p n => exact L.satT_discard (Q := fun t _ evs => L.Shape w t evs) (L.fileListT_shape p n w)

private theorem op_tag_added (op : SessionOp) (w : WorldT) :
    L.cfg (afterT op.run w) = L.cfg w ∧ ∀ e ∈ addedT op.run w, L.TagOk (L.cfg w) e := (op_tag op w).added

private theorem op_shape_added (op : SessionOp) (w : WorldT) :
    L.Shape w (resultT op.run w = .throw) (addedT op.run w) := (op_shape op w).added

private theorem auth_eq : AUTH = L.AUTHL := by decide

private theorem connect_added (host : Bytes) (port : Nat) (cred : Option (Bytes × Bytes)) (w : WorldT)
    (h : w.tlsCtx = true) :
    L.ConnPost (resultT (connectT host port cred) w) (afterT (connectT host port cred) w)
      (addedT (connectT host port cred) w) := (L.connectT_spec host port cred w h).added

/-- connecting with a TLS context - whatever the server answers, whether or not the handshake succeeds, with or
    without credentials: the only command line ever written in clear text is `AUTH TLS` -/
theorem connect_plaintext_is_auth_only (host : Bytes) (port : Nat) (cred : Option (Bytes × Bytes)) (w : WorldT)
    (h : w.tlsCtx = true) :
    plainWrites (addedT (connectT host port cred) w) = [] ∨ plainWrites (addedT (connectT host port cred) w) = [AUTH] := by
  rw [plainWrites_eq, auth_eq]
  exact L.connPost_plain (connect_added host port cred w h)

/-- ... and it is the first command of the connection -/
theorem auth_is_first (host : Bytes) (port : Nat) (cred : Option (Bytes × Bytes)) (w : WorldT) (h : w.tlsCtx = true) :
    allWrites (addedT (connectT host port cred) w) = [] ∨ (allWrites (addedT (connectT host port cred) w)).head? = some AUTH := by
  rw [allWrites_eq, auth_eq]
  exact L.connPost_first (connect_added host port cred w h)

/-- after `AUTH TLS` the next step of the client is the TLS handshake - or, when the server refused, nothing at all:
    no credentials, no further command -/
theorem after_auth_handshake_or_stop (host : Bytes) (port : Nat) (cred : Option (Bytes × Bytes)) (w : WorldT)
    (h : w.tlsCtx = true) :
    ((∀ ok, EvT.ctlTlsHandshake ok ∉ addedT (connectT host port cred) w) →
        allWrites (addedT (connectT host port cred) w) = [] ∨ allWrites (addedT (connectT host port cred) w) = [AUTH]) ∧
    (EvT.ctlTlsHandshake false ∈ addedT (connectT host port cred) w →
        resultT (connectT host port cred) w = .throw ∧ allWrites (addedT (connectT host port cred) w) = [AUTH] ∧
        (addedT (connectT host port cred) w).getLast? = some (EvT.ctlTlsHandshake false)) := by
  rw [allWrites_eq, auth_eq]
  exact ⟨fun hn => L.connPost_stop (connect_added host port cred w h) hn,
    fun hm => L.connPost_fail (connect_added host port cred w h) hm⟩

/-- a successful connect with a TLS context leaves the control channel protected -/
theorem connect_protects (host : Bytes) (port : Nat) (cred : Option (Bytes × Bytes)) (w : WorldT) (h : w.tlsCtx = true)
    (hs : EvT.ctlTlsHandshake true ∈ addedT (connectT host port cred) w) :
    (afterT (connectT host port cred) w).ctlTls = true :=
  L.connPost_protects (connect_added host port cred w h) hs

/-- between connect and logout / disconnect every call of a protected session writes every command inside TLS, and
    leaves the session protected -/
theorem session_stays_protected (op : SessionOp) (w : WorldT) (h : w.ctlTls = true) :
    plainWrites (addedT op.run w) = [] ∧ (afterT op.run w).ctlTls = true := by
  obtain ⟨hc, ht⟩ := op_tag_added op w
  refine ⟨?_, ?_⟩
  · rw [plainWrites_eq]; exact L.tag_plain ht h
  · have : (afterT op.run w).ctlTls = w.ctlTls := congrArg (fun k => k.2.2) hc
    rw [this, h]

/-- a history of calls on one session: each call starts in the state the previous one left, whether it returned or threw -/
def runAll : List SessionOp → WorldT → WorldT
  | [], w => w
  | op :: ops, w => runAll ops (afterT op.run w)

/-- **histories**: from a protected session, any number of calls - logins, simple commands, downloads, uploads, listings,
    in any order, returned or thrown - never writes a command in clear text, and the session is still protected at the
    end (induction over the list of calls) -/
theorem history_stays_protected (ops : List SessionOp) (w : WorldT) (h : w.ctlTls = true) :
    (∃ evs, (runAll ops w).trace = w.trace ++ evs ∧ plainWrites evs = []) ∧ (runAll ops w).ctlTls = true := by
  induction ops generalizing w with
  | nil => exact ⟨⟨[], by simp [runAll], rfl⟩, h⟩
  | cons op ops ih =>
    obtain ⟨e1, ht1, _⟩ := op_tag op w
    obtain ⟨hp1, hc1⟩ := session_stays_protected op w h
    have he1 : addedT op.run w = e1 := by
      unfold addedT afterT
      rw [ht1, List.drop_left]
    obtain ⟨⟨e2, ht2, hp2⟩, hc2⟩ := ih (afterT op.run w) hc1
    refine ⟨⟨e1 ++ e2, ?_, ?_⟩, hc2⟩
    · show (runAll ops (afterT op.run w)).trace = _
      rw [ht2]
      show (op.run w).2.trace ++ e2 = _
      rw [ht1, List.append_assoc]
    · rw [← he1]
      unfold plainWrites at *
      rw [List.filterMap_append, hp1, hp2]
      rfl

private theorem op_broken (op : SessionOp) : L.AllB op.run := by
  cases op with
  | login u p => exact L.allB_discard (L.loginT_b u p)
  | simple v a => exact L.allB_discard (L.allB_lift _)
  | download p => exact L.allB_discard (L.downloadT_b p)
  | upload v p => exact L.allB_discard (L.uploadT_b v p)
  | list p n => exact L.allB_discard (L.fileListT_b p n)

/-- when the TLS handshake of the control connection failed (`connect` threw: the socket has its SSL layer,
    `ctlSsl = true`, but no session, `ctlTls = false`) nothing is sent any more: whatever the call, whatever the
    server would answer and whatever the oracles, no command line is written - neither in clear text nor inside TLS.
    (The call stops at its first command write, after the observers were told about the request, and throws.) -/
theorem broken_session_sends_nothing (op : SessionOp) (w : WorldT) (hs : w.ctlSsl = true) (ht : w.ctlTls = false) :
    allWrites (addedT op.run w) = [] := by
  rw [allWrites_eq]
  exact ((op_broken op) w ⟨hs, ht⟩).added.2

/-- ... and the session stays in that state: the next call sends nothing either -/
theorem broken_session_stays_broken (op : SessionOp) (w : WorldT) (hs : w.ctlSsl = true) (ht : w.ctlTls = false) :
    (afterT op.run w).ctlSsl = true ∧ (afterT op.run w).ctlTls = false :=
  ((op_broken op) w ⟨hs, ht⟩).added.1

/-- the graceful disconnect of such a session does not send QUIT (nor anything else) -/
theorem broken_session_quit_not_sent (w : WorldT) (hs : w.ctlSsl = true) (ht : w.ctlTls = false) :
    allWrites (addedT (disconnectT true) w) = [] := by
  rw [allWrites_eq]
  exact (L.disconnectT_nw true w ⟨hs, ht⟩).added

/-- ... it throws at the write of QUIT, as `client::disconnect` does when `process_command` throws: the connection
    is not closed and the SSL layer stays in place (`disconnectT false` is the way out) -/
theorem broken_session_quit_throws (w : WorldT) (hs : w.ctlSsl = true) (ht : w.ctlTls = false) :
    resultT (disconnectT true) w = .throw ∧
      (afterT (disconnectT true) w).ctlSsl = true ∧ (afterT (disconnectT true) w).ctlTls = false :=
  L.disconnectT_broken w ⟨hs, ht⟩

/-- the data connection's handshake takes place before the first payload byte moves: no payload event precedes it, and
    with a TLS context no payload event happens in a call that has no successful data handshake -/
theorem data_handshake_before_payload (op : SessionOp) (w : WorldT) (h : w.tlsCtx = true) :
    ∀ pre e post, addedT op.run w = pre ++ e :: post → isPayload e = true →
      ∃ d offered, EvT.dataTlsHandshake d offered true ∈ pre := by
  intro pre e post hs hp
  rw [isPayload_eq] at hp
  exact L.shape_before_payload (op_shape_added op w) h hs hp

/-- ... and after the transfer command was accepted: the event before the handshake (observer notifications and the
    accept of an active-mode connection aside) is the framing of a non-negative reply -/
theorem data_handshake_after_acceptance (op : SessionOp) (w : WorldT) (pre post : List EvT) (d : Nat) (offered ok : Bool)
    (hsplit : addedT op.run w = pre ++ EvT.dataTlsHandshake d offered ok :: post) :
    ∃ tls c t pre', c < 400 ∧
      pre.filter (fun e => match e with | .ev _ (.obsReply _ _ _) | .ev _ (.dataAccept _ _) => false | _ => true) =
        pre' ++ [EvT.ev tls (.ctlReply c t)] := by
  rw [keep_eq]
  exact L.shape_after_acceptance (op_shape_added op w) hsplit

/-- a failed data handshake is reported and no payload moves -/
theorem data_handshake_failure_stops (op : SessionOp) (w : WorldT) (d : Nat) (offered : Bool)
    (hf : EvT.dataTlsHandshake d offered false ∈ addedT op.run w) :
    resultT op.run w = .throw ∧ ∀ e ∈ addedT op.run w, isPayload e = false := by
  obtain ⟨h1, h2⟩ := L.shape_failure (op_shape_added op w) hf
  exact ⟨h1, fun e he => by rw [isPayload_eq]; exact h2 e he⟩

/-- a download whose data stream ends in an error (the TLS layer reports a missing close-notify as an error, not as
    end-of-file; see C03.read_error_is_reported for the read loop itself) is never returned as a completed transfer:
    when the receive step throws, the whole call throws -/
theorem truncated_stream_is_an_error (path : Bytes) (w : WorldT) (hp : Endpoint.hasCrLf path = false)
    (rs : Replies) (w' : WorldT)
    (hready : createDataConnectionT (str "RETR" ++ [SP] ++ path) Replies.empty w = (.ok (true, rs), w'))
    (hthrow : resultT (lift (dataRecv false w'.base.ttype)) w' = .throw) :
    resultT (downloadT path) w = .throw := by
  have hmk : lift (mkCmd "RETR" (some path)) w = (.ok (str "RETR" ++ [SP] ++ path), w) := by
    rw [L.lift_mkCmd]; simp [Endpoint.makeCommand, hp]
  unfold resultT at hthrow ⊢
  unfold downloadT ClientTls.scopedT
  simp only [L.bindT_eq, hmk, hready, if_true]
  have hget : getT w' = (.ok w', w') := rfl
  simp only [hget]
  rcases hl : lift (dataRecv false w'.base.ttype) w' with ⟨r, w2⟩
  rw [hl] at hthrow
  simp only at hthrow
  subst hthrow
  rfl

end Ftp.Props.C11
