import Ftp.Spec.Session
import Ftp.Props.C05
import Ftp.Lemmas.ClientData
/-
  C04 - binary upload transmits exactly the source bytes, then signals end-of-file, then waits for the completion reply.
  Model: `Ftp.Client.dataSend` (data_connection::send), `Ftp.Client.finishTransfer`, `dataDisconnect`.
-/
namespace Ftp.Props.C04
open Ftp Ftp.Client Ftp.Session Ftp.Client.DataL

/-- binary upload: for every payload and every pattern of short reads of the source, the bytes written to the data
    connection are exactly the source bytes up to its first empty read -/
theorem binary_transmits_exactly (w : World) (hok : ∀ b ∈ w.blockOks, b = true) (hsrc : w.srcFailAt = none) :
    result (dataSend false .binary) w = .ok () ∧
    (after (dataSend false .binary) w).peerGot = w.peerGot ++ w.src.data ∧
    (after (dataSend false .binary) w).src.data = [] := by
  exact dataSend_binary_exact w hok hsrc

/-- ... independent of how the source chops its reads -/
theorem binary_chop_independent (w : World) (s1 s2 : List Nat) (hok : ∀ b ∈ w.blockOks, b = true) (hsrc : w.srcFailAt = none) :
    (after (dataSend false .binary) { w with src := ⟨w.src.data, s1⟩ }).peerGot =
    (after (dataSend false .binary) { w with src := ⟨w.src.data, s2⟩ }).peerGot := by
  rw [(binary_transmits_exactly { w with src := ⟨w.src.data, s1⟩ } hok hsrc).2.1,
    (binary_transmits_exactly { w with src := ⟨w.src.data, s2⟩ } hok hsrc).2.1]

/-- every block handed to the data socket holds at most 8192 bytes -/
theorem blocks_at_most_8192 (w : World) (t : TType) (cb : Bool) :
    ∀ e ∈ added (dataSend cb t) w, ∀ d n, e = Ev.dataWrite d n → n ≤ 8192 := by
  obtain ⟨l, h1, h2, _⟩ := dataSend_general cb t w
  rw [added_of_trace _ _ _ h1]
  exact h2

/-- ASCII upload end to end: the bytes written are the source with CR LF | CR | LF -> CR LF (C05) -/
theorem ascii_transmits_converted (w : World) (hok : ∀ b ∈ w.blockOks, b = true) (hsrc : w.srcFailAt = none) :
    result (dataSend false .ascii) w = .ok () ∧
    (after (dataSend false .ascii) w).peerGot = w.peerGot ++ Spec.ulSpec w.src.data := by
  exact dataSend_ascii_exact w hok hsrc

/-- after the last byte the data connection is closed (shutdown, then close: the server sees end-of-file) and only
    afterwards the completion reply is awaited: the events of the end of an uncancelled transfer start with the
    shutdown and close of the data socket, and the first control read comes after them -/
theorem close_before_completion (w : World) (rs : Replies) (d : Nat) (a : Option Nat)
    (hc : w.conn = some { sock := some d, acc := a }) (hcl : ∀ b ∈ w.closeFails, b = false) :
    ∃ rest, added (finishTransfer false rs) w =
      [Ev.dataShutdown d, Ev.dataClose d] ++ (match a with | some l => [Ev.dataClose l] | none => []) ++ Ev.ctlReadLine :: rest := by
  obtain ⟨rest, h⟩ := finishTransfer_close_first w rs d a hc hcl
  refine ⟨rest, ?_⟩
  rw [h]
  cases a <;> rfl

/-- a failed write is reported: the call throws -/
theorem write_error_is_reported (w : World) (t : TType) (hne : w.src.data ≠ []) (hb : w.blockOks.head? = some false)
    (hsrc : w.srcFailAt = none) : result (dataSend false t) w = .throw := by
  exact dataSend_write_error w t hne hb hsrc

example :
    let w : World := { mode := .passive, ttype := .binary, rfc := true, src := ⟨str "hello world", [2, 3, 1]⟩,
                       conn := some { sock := some 1 } }
    (after (dataSend false .binary) w).peerGot = str "hello world" := by decide

end Ftp.Props.C04
