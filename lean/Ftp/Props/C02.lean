import Ftp.Spec.Session
import Ftp.Lemmas.ClientSession
/-
  C02 - session lockstep: each call returns exactly the replies to its own commands.
  Model: `Ftp.Client` over the byte-level reader; the server is any script whose groups have the shapes RFC 959
  prescribes for the commands they answer (`Shaped`).
-/
set_option linter.unusedVariables false
set_option linter.unusedSimpArgs false

namespace Ftp.Props.C02
open Ftp Ftp.Client Ftp.Session Ftp.Props.C01 Ftp.Client.SessL

def verbOf (line : Bytes) : Bytes := line.takeWhile (· != SP)
def transferVerbs : List Bytes := [str "RETR", str "STOR", str "STOU", str "APPE", str "LIST", str "NLST"]
def isTransfer (line : Bytes) : Bool := transferVerbs.contains (verbOf line)
def ABOR : Bytes := str "ABOR"

/-- a server that answers as RFC 959 prescribes: the commands received (`none` = a new connection) with the replies
    generated for each.  One reply per command; 120 may precede the greeting; a transfer command is refused (one
    negative reply) or answered by a preliminary reply and - unless the client aborts before the server has finished -
    a completion reply; ABOR of a transfer that is still running is answered 426 + a second reply, otherwise by one
    reply.  (Out of scope, see the counterexample theorems: ABOR arriving after the server already completed the
    transfer; REIN answered 120 + 220.) -/
inductive Shaped : List (Option Bytes × List WfReply) → Prop
  | nil : Shaped []
  | greeting (g : WfReply) (rest) : g.code ≠ 120 → Shaped rest → Shaped ((none, [g]) :: rest)
  | greeting120 (g0 g : WfReply) (rest) : g0.code = 120 → Shaped rest → Shaped ((none, [g0, g]) :: rest)
  | simple (l : Bytes) (r : WfReply) (rest) : isTransfer l = false → l ≠ ABOR → Shaped rest → Shaped ((some l, [r]) :: rest)
  | refused (l : Bytes) (m : WfReply) (rest) : isTransfer l = true → 400 ≤ m.code → Shaped rest → Shaped ((some l, [m]) :: rest)
  | completed (l : Bytes) (m c : WfReply) (rest) : isTransfer l = true → m.code < 200 →
      (∀ g, rest.head? ≠ some (some ABOR, g)) → Shaped rest → Shaped ((some l, [m, c]) :: rest)
  | aborted426 (l : Bytes) (m a1 a2 : WfReply) (rest) : isTransfer l = true → m.code < 200 → a1.code = 426 →
      Shaped rest → Shaped ((some l, [m]) :: (some ABOR, [a1, a2]) :: rest)
  | aborted (l : Bytes) (m a : WfReply) (rest) : isTransfer l = true → m.code < 200 → a.code ≠ 426 →
      Shaped rest → Shaped ((some l, [m]) :: (some ABOR, [a]) :: rest)

/-- the library's own verbs -/
def opOk : Op → Prop
  | .simple v _ => v ∈ ["CWD", "CDUP", "PWD", "DELE", "MKD", "RMD", "SIZE", "MDTM", "STAT", "SYST", "HELP", "SITE", "NOOP"]
  | .upload v _ _ => v ∈ ["STOR", "STOU", "APPE"]
  | _ => True

/-- the commands of a call paired with the groups the server played for them -/
def exchanged (op : Op) (lines : List Bytes) (sc : List SGroup) : List (Option Bytes × List WfReply) :=
  match op with
  | .connect _ _ _ =>
    (match sc with
     | [] => []
     | g :: gs => (none, g.replies) :: (lines.map fun l => some (lineOf l)).zip (gs.map (·.replies)))
  | _ => (lines.map fun l => some (lineOf l)).zip (sc.map (·.replies))

/-! ### private helpers: the client's reading pattern against the shapes of the server's groups -/

private theorem isTransfer_eq (l : Bytes) : isTransfer l = xIsTransfer l := rfl
private theorem abor_eq : ABOR = xABOR := rfl
private theorem opOk_iff (op : Op) : opOk op ↔ xOpOk op := by cases op <;> exact Iff.rfl

private theorem consumedOf_cons (o : Option Bytes) (c : List WfReply) (rest : List (Option Bytes × List WfReply)) :
    consumedOf ((o, c) :: rest) = c ++ consumedOf rest := rfl

/-- when the groups the server generated have the RFC shapes for the commands sent, the replies the client consumed
    per command are exactly the groups: nothing is left unread -/
private theorem shaped_pat {D : List (Option Bytes × List WfReply)} (hp : Pat D) :
    ∀ (G : List (List WfReply)) (q : List WfReply), G.length = D.length → Shaped ((D.map (·.1)).zip G) →
      G.flatten = consumedOf D ++ q → q = [] ∧ G = D.map (·.2) := by
  induction hp with
  | nil =>
    intro G q hlen _ hfl
    have : G = [] := List.length_eq_zero_iff.mp hlen
    subst this
    simp only [consumedOf, List.map_nil, List.flatten_nil, List.nil_append] at hfl
    exact ⟨hfl.symm, rfl⟩
  | greet1 x rest hx _ ih =>
    intro G q hlen hsh hfl
    rcases G with _ | ⟨g, G'⟩
    · simp at hlen
    simp only [List.map_cons, List.zip_cons_cons] at hsh
    simp only [consumedOf_cons, List.flatten_cons] at hfl
    generalize hZ : (rest.map (·.1)).zip G' = Z at hsh
    cases hsh with
    | greeting g0 _ hne hsh' =>
      simp only [List.cons_append, List.nil_append, List.cons.injEq] at hfl
      obtain ⟨rfl, hfl⟩ := hfl
      obtain ⟨hq, hG⟩ := ih G' q (by simpa using hlen) (hZ ▸ hsh') hfl
      exact ⟨hq, by simp [hG]⟩
    | greeting120 g0 g1 _ h120 hsh' =>
      simp only [List.cons_append, List.nil_append, List.cons.injEq] at hfl
      exact absurd (hfl.1 ▸ h120) hx
  | greet2 x y rest hx _ ih =>
    intro G q hlen hsh hfl
    rcases G with _ | ⟨g, G'⟩
    · simp at hlen
    simp only [List.map_cons, List.zip_cons_cons] at hsh
    simp only [consumedOf_cons, List.flatten_cons] at hfl
    generalize hZ : (rest.map (·.1)).zip G' = Z at hsh
    cases hsh with
    | greeting g0 _ hne hsh' =>
      simp only [List.cons_append, List.nil_append, List.cons.injEq] at hfl
      exact absurd (hfl.1 ▸ hx) hne
    | greeting120 g0 g1 _ h120 hsh' =>
      simp only [List.cons_append, List.nil_append, List.cons.injEq] at hfl
      obtain ⟨rfl, rfl, hfl⟩ := hfl
      obtain ⟨hq, hG⟩ := ih G' q (by simpa using hlen) (hZ ▸ hsh') hfl
      exact ⟨hq, by simp [hG]⟩
  | one l x rest hl _ ih =>
    intro G q hlen hsh hfl
    rcases G with _ | ⟨g, G'⟩
    · simp at hlen
    simp only [List.map_cons, List.zip_cons_cons] at hsh
    simp only [consumedOf_cons, List.flatten_cons] at hfl
    generalize hZ : (rest.map (·.1)).zip G' = Z at hsh
    have hnt : isTransfer l = false := hl.1
    cases hsh with
    | simple _ r _ _ _ hsh' =>
      simp only [List.cons_append, List.nil_append, List.cons.injEq] at hfl
      obtain ⟨rfl, hfl⟩ := hfl
      obtain ⟨hq, hG⟩ := ih G' q (by simpa using hlen) (hZ ▸ hsh') hfl
      exact ⟨hq, by simp [hG]⟩
    | refused _ m _ ht _ _ => rw [hnt] at ht; cases ht
    | completed _ m c _ ht _ _ _ => rw [hnt] at ht; cases ht
    | aborted426 _ m a1 a2 _ ht _ _ _ => rw [hnt] at ht; cases ht
    | aborted _ m a _ ht _ _ _ => rw [hnt] at ht; cases ht
  | xferNeg l m ht hm =>
    intro G q hlen hsh hfl
    rcases G with _ | ⟨g, _ | ⟨g2, G'⟩⟩
    · simp at hlen
    · simp only [List.map_cons, List.map_nil, List.zip_cons_cons, List.zip_nil_right] at hsh
      have ht' : isTransfer l = true := ht
      cases hsh with
      | simple _ r _ hnt _ _ => rw [ht'] at hnt; cases hnt
      | refused _ m' _ _ _ _ =>
        simp [consumedOf] at hfl
        obtain ⟨rfl, hq⟩ := hfl
        exact ⟨hq, by simp⟩
      | completed _ m' c' _ _ hm' _ _ =>
        simp [consumedOf] at hfl
        obtain ⟨rfl, _⟩ := hfl
        omega
    · simp at hlen
  | xferDone l m c ht hm =>
    intro G q hlen hsh hfl
    rcases G with _ | ⟨g, _ | ⟨g2, G'⟩⟩
    · simp at hlen
    · simp only [List.map_cons, List.map_nil, List.zip_cons_cons, List.zip_nil_right] at hsh
      have ht' : isTransfer l = true := ht
      cases hsh with
      | simple _ r _ hnt _ _ => rw [ht'] at hnt; cases hnt
      | refused _ m' _ _ hm' _ =>
        simp [consumedOf] at hfl
      | completed _ m' c' _ _ hm' _ _ =>
        simp [consumedOf] at hfl
        obtain ⟨rfl, rfl, hq⟩ := hfl
        exact ⟨hq, by simp⟩
    · simp at hlen
  | xferAbort1 l m a ht hm ha =>
    intro G q hlen hsh hfl
    rcases G with _ | ⟨g, _ | ⟨g2, _ | ⟨g3, G'⟩⟩⟩
    · simp at hlen
    · simp at hlen
    · simp only [List.map_cons, List.map_nil, List.zip_cons_cons, List.zip_nil_right] at hsh
      have ht' : isTransfer l = true := ht
      cases hsh with
      | simple _ r _ hnt _ _ => rw [ht'] at hnt; cases hnt
      | refused _ m' _ _ hm' _ =>
        simp [consumedOf] at hfl
        obtain ⟨rfl, _⟩ := hfl
        omega
      | completed _ m' c' _ _ hm' hnext _ => exact absurd rfl (hnext g2)
      | aborted426 _ m' a1 a2 _ _ _ h426 _ =>
        simp [consumedOf] at hfl
        obtain ⟨rfl, rfl, _⟩ := hfl
        exact absurd h426 ha
      | aborted _ m' a' _ _ _ _ _ =>
        simp [consumedOf] at hfl
        obtain ⟨rfl, rfl, hq⟩ := hfl
        exact ⟨hq, by simp⟩
    · simp at hlen
  | xferAbort2 l m a b ht hm ha =>
    intro G q hlen hsh hfl
    rcases G with _ | ⟨g, _ | ⟨g2, _ | ⟨g3, G'⟩⟩⟩
    · simp at hlen
    · simp at hlen
    · simp only [List.map_cons, List.map_nil, List.zip_cons_cons, List.zip_nil_right] at hsh
      have ht' : isTransfer l = true := ht
      cases hsh with
      | simple _ r _ hnt _ _ => rw [ht'] at hnt; cases hnt
      | refused _ m' _ _ hm' _ =>
        simp [consumedOf] at hfl
        obtain ⟨rfl, _⟩ := hfl
        omega
      | completed _ m' c' _ _ hm' hnext _ => exact absurd rfl (hnext g2)
      | aborted426 _ m' a1 a2 _ _ _ h426 _ =>
        simp [consumedOf] at hfl
        obtain ⟨rfl, rfl, rfl, hq⟩ := hfl
        exact ⟨hq, by simp⟩
      | aborted _ m' a' _ _ _ h426 _ =>
        simp [consumedOf] at hfl
    · simp at hlen


private theorem gen_eq_take (gs : List SGroup) (n : Nat) (h : n ≤ gs.length) :
    gen gs n = (gs.map (·.replies)).take n := by
  induction n generalizing gs with
  | zero => simp [gen]
  | succ n ih =>
    rcases gs with _ | ⟨g, gs'⟩
    · simp at h
    · simp only [gen, nextG, List.head?_cons, Option.getD_some, List.tail_cons, List.map_cons, List.take_succ_cons]
      rw [ih gs' (by simpa using h)]

private theorem zip_take {α β} (l : List α) (xs : List β) : l.zip (xs.take l.length) = l.zip xs := by
  induction l generalizing xs with
  | nil => simp
  | cons a l ih =>
    rcases xs with _ | ⟨x, xs⟩
    · simp
    · simp [ih]

private theorem lines_map (L : List Bytes) : (L.map (· ++ CRLF)).map (fun l => some (lineOf l)) = L.map some := by
  simp [List.map_map, Function.comp_def]

/-- the conclusion of lockstep from the dialog of the call -/
private theorem finish {w' : World} {w : World} {G : List (List WfReply)} {D : List (Option Bytes × List WfReply)}
    {q' : List WfReply} {o : Out} (hd : Dlg w w' G D q') (ho : o.replyList = (consumedOf D).map replyOf)
    (E : List (Option Bytes × List WfReply)) (hE : E = (D.map (·.1)).zip G) (hsh : Shaped E) :
    o.replyList = (E.map (·.2)).flatten.map replyOf ∧ Sync w' [] := by
  obtain ⟨hq, hG⟩ := shaped_pat hd.pat G q' hd.len (hE ▸ hsh) hd.led
  subst hq
  have hsnd : E.map (·.2) = G := by
    rw [hE]
    exact List.map_snd_zip (by simp [hd.len])
  refine ⟨?_, hd.sync⟩
  rw [ho, hsnd, hd.led, List.append_nil]

/-- the number of reply groups a call consumes without sending a command: the greeting of a connect -/
def greetings : Op → Nat
  | .connect _ _ _ => 1
  | _ => 0

/-- lockstep, for a script that is at least as long as the number of commands the call sends -/
private theorem lockstep_core (op : Op) (w : World) (sc : List SGroup) (hop : opOk op)
    (hstep : InStep w [] ∨ (∃ h p c, op = .connect h p c))
    (hsc : w.script = sc.map SGroup.enc) (hwf : WfScript sc)
    (o : Out) (hret : result op.run w = .ok o)
    (hshape : Shaped (exchanged op (writes (added op.run w)) sc))
    (hlen : (writes (added op.run w)).length + greetings op ≤ sc.length) :
    o.replyList = ((exchanged op (writes (added op.run w)) sc).map (·.2)).flatten.map replyOf ∧
    Sync (after op.run w) [] := by
  have h : op.run w = (.ok o, after op.run w) := by
    unfold result at hret
    unfold after
    rw [← hret]
  by_cases hc : ∃ hh p c, op = .connect hh p c
  · obtain ⟨hh, p, c, rfl⟩ := hc
    simp only [Op.run, CtlL.bind_ok, CtlL.pure_ok] at h
    obtain ⟨rs, w1, h1, ho, hw1⟩ := h
    subst ho
    obtain ⟨g, gs', D, q', rfl, hd, hl, hfst⟩ := connect_dlg h1 hsc hwf
    rw [hw1] at hd
    have hwr : writes (added (Op.connect hh p c).run w) = linesOf D := (CtlL.Ext.added hd.ext).1
    rw [hwr] at hshape hlen ⊢
    have hlenD : D.length = 1 + (D.filterMap (·.1)).length := by
      have := congrArg List.length hfst
      simpa [Nat.add_comm] using this
    refine finish hd (by simpa [Out.replyList] using hl) _ ?_ hshape
    simp only [exchanged, linesOf, lines_map, hfst, List.zip_cons_cons]
    congr 1
    have : D.length - 1 = ((D.filterMap (·.1)).map some).length := by simp [hlenD]
    rw [this, gen_eq_take _ _ (by simpa [linesOf, greetings] using hlen), zip_take]
  · have hne : ∀ hh p c, op ≠ .connect hh p c := fun hh p c e => hc ⟨hh, p, c, e⟩
    have hstep' : InStep w [] := by
      rcases hstep with hs | hs
      · exact hs
      · exact absurd hs hc
    have hst : St w [] sc := ⟨hstep'.2, hsc, hwf⟩
    obtain ⟨D, q', hd, hl, hfst⟩ := run_dlg op hne ((opOk_iff op).mp hop) hst h
    have hwr : writes (added op.run w) = linesOf D := (CtlL.Ext.added hd.ext).1
    rw [hwr] at hshape hlen ⊢
    have hlenD : D.length = (D.filterMap (·.1)).length := by
      have := congrArg List.length hfst
      simpa using this
    have hex : exchanged op (linesOf D) sc = (D.map (·.1)).zip (gen sc D.length) := by
      have e1 : exchanged op (linesOf D) sc = ((linesOf D).map fun l => some (lineOf l)).zip (sc.map (·.replies)) := by
        cases op <;> first | rfl | exact absurd rfl (hne _ _ _)
      have hle : D.length ≤ sc.length := by
        have : greetings op = 0 := by
          cases op <;> first | rfl | exact absurd rfl (hne _ _ _)
        rw [this] at hlen
        simpa [linesOf, hlenD] using hlen
      rw [e1, linesOf, lines_map, ← hfst, gen_eq_take _ _ hle]
      have : D.length = (D.map (·.1)).length := by simp
      rw [this, zip_take]
    exact finish hd hl _ hex hshape


/-- lockstep: for every API call that returns, in a session that is in step (nothing unread), against every
    well-formed server whose reply groups have the RFC shapes for the commands the call sent and whose script has a
    group for every command the call sends (`hlen`; plus the greeting of a connect - past the end of its script the
    model's server answers "500 script exhausted", which `exchanged` does not see): the replies returned are exactly
    the replies generated for the connection opened / the commands sent during the call, in order, and nothing is
    left unread -/
theorem lockstep (op : Op) (w : World) (sc : List SGroup) (hop : opOk op)
    (hstep : InStep w [] ∨ (∃ h p c, op = .connect h p c))
    (hsc : w.script = sc.map SGroup.enc) (hwf : WfScript sc)
    (o : Out) (hret : result op.run w = .ok o)
    (hshape : Shaped (exchanged op (writes (added op.run w)) sc))
    (hlen : (writes (added op.run w)).length + greetings op ≤ sc.length) :
    o.replyList = ((exchanged op (writes (added op.run w)) sc).map (·.2)).flatten.map replyOf ∧
    Pending (after op.run w).ctl (after op.run w).net [] := by
  obtain ⟨h1, h2⟩ := lockstep_core op w sc hop hstep hsc hwf o hret hshape hlen
  exact ⟨h1, h2.1⟩

/-- ... so the next call starts in step again (unless the server ended the session with 421) -/
theorem stays_in_step (op : Op) (w : World) (sc : List SGroup) (hop : opOk op)
    (hstep : InStep w [] ∨ (∃ h p c, op = .connect h p c))
    (hsc : w.script = sc.map SGroup.enc) (hwf : WfScript sc)
    (o : Out) (hret : result op.run w = .ok o)
    (hshape : Shaped (exchanged op (writes (added op.run w)) sc))
    (hlen : (writes (added op.run w)).length + greetings op ≤ sc.length)
    (hconn : (after op.run w).connected = true) :
    InStep (after op.run w) [] := by
  obtain ⟨_, h2⟩ := lockstep_core op w sc hop hstep hsc hwf o hret hshape hlen
  exact ⟨hconn, h2⟩

/-! #### the statements `lockstep` and `stays_in_step` are false for a script that is shorter than the number of
    commands sent: the model then plays "500 script exhausted" for the extra commands, but `exchanged` (a `zip`) drops
    them, so `Shaped` says nothing about them -/

private def cexW1 : World := { mode := .passive, ttype := .binary, rfc := true, connected := true }

private def cexChk1 : Bool :=
  match result (Op.simple "NOOP" none).run cexW1 with
  | .ok o => o.replyList.length == 1
  | .throw => false

/-- counterexample to `lockstep` as stated: NOOP against the empty script (`sc = []`): the call returns the reply
    "500 script exhausted", `exchanged` is empty (hence `Shaped`), but the returned reply list is not empty -/
theorem lockstep_needs_full_script :
    ¬ (∀ (op : Op) (w : World) (sc : List SGroup), opOk op → (InStep w [] ∨ (∃ h p c, op = .connect h p c)) →
        w.script = sc.map SGroup.enc → WfScript sc → ∀ (o : Out), result op.run w = .ok o →
        Shaped (exchanged op (writes (added op.run w)) sc) →
        o.replyList = ((exchanged op (writes (added op.run w)) sc).map (·.2)).flatten.map replyOf ∧
        Pending (after op.run w).ctl (after op.run w).net []) := by
  intro H
  have hchk : cexChk1 = true := by decide +kernel
  unfold cexChk1 at hchk
  split at hchk
  · rename_i o heq
    have hstep : InStep cexW1 [] := ⟨rfl, .inl rfl, Nat.zero_le _, by simp⟩
    have := (H (.simple "NOOP" none) cexW1 [] (by simp [opOk]) (.inl hstep) rfl (by intro g hg; cases hg) o heq
      (by simp [exchanged]; exact Shaped.nil)).1
    simp [exchanged] at this
    rw [this] at hchk
    simp at hchk
  · cases hchk

private def r229 : WfReply := ⟨229, [⟨str "229 ok (|||5000|)", true⟩]⟩
private def r150 : WfReply := ⟨150, [⟨str "150 go", true⟩]⟩
private def r226 : WfReply := ⟨226, [⟨str "226 transfer complete", true⟩]⟩

private theorem r229_wf : r229.wf := by
  refine ⟨by decide, by decide, ?_, .inl ⟨str "ok (|||5000|)", true, by decide⟩⟩
  intro l hl
  have : l = ⟨str "229 ok (|||5000|)", true⟩ := by simpa [r229] using hl
  subst this
  exact ⟨by decide, by decide, by decide⟩

private theorem r150_wf : r150.wf := by
  refine ⟨by decide, by decide, ?_, .inl ⟨str "go", true, by decide⟩⟩
  intro l hl
  have : l = ⟨str "150 go", true⟩ := by simpa [r150] using hl
  subst this
  exact ⟨by decide, by decide, by decide⟩

private theorem r226_wf : r226.wf := by
  refine ⟨by decide, by decide, ?_, .inl ⟨str "transfer complete", true, by decide⟩⟩
  intro l hl
  have : l = ⟨str "226 transfer complete", true⟩ := by simpa [r226] using hl
  subst this
  exact ⟨by decide, by decide, by decide⟩

/-- the script of finding K1 cut after the transfer group -/
private def cexSc : List SGroup := [⟨[r229], none⟩, ⟨[r150, r226], some (.send (str "hello"))⟩]

private def cexW2 : World :=
  { mode := .passive, ttype := .binary, rfc := true, connected := true, connectOks := [true],
    script := cexSc.map SGroup.enc, dataReads := [some 5], polls := [false, true] }

private def cexChk2 : Bool :=
  match result (Op.download (str "f") true).run cexW2 with
  | .ok _ => true
  | .throw => false

/-- counterexample to `stays_in_step` (and to the second half of `lockstep`) as stated: the cancelled download of
    finding K1 against a script that ends after the transfer group.  The ABOR is answered "500 script exhausted" by
    the model, `exchanged` drops it, the two remaining groups have the shapes `simple` and `completed`, the call
    returns and the client is still connected - but the reply to ABOR stays unread -/
theorem stays_in_step_needs_full_script :
    ¬ (∀ (op : Op) (w : World) (sc : List SGroup), opOk op → (InStep w [] ∨ (∃ h p c, op = .connect h p c)) →
        w.script = sc.map SGroup.enc → WfScript sc → ∀ (o : Out), result op.run w = .ok o →
        Shaped (exchanged op (writes (added op.run w)) sc) → (after op.run w).connected = true →
        InStep (after op.run w) []) := by
  intro H
  have hchk : cexChk2 = true := by decide +kernel
  unfold cexChk2 at hchk
  split at hchk
  · rename_i o heq
    have hstep : InStep cexW2 [] := ⟨rfl, .inl rfl, Nat.zero_le _, by simp⟩
    have hwf : WfScript cexSc := by
      intro g hg r hr
      simp only [cexSc, List.mem_cons, List.not_mem_nil, or_false] at hg
      rcases hg with rfl | rfl
      · simp only [List.mem_singleton] at hr; subst hr; exact r229_wf
      · simp only [List.mem_cons, List.not_mem_nil, or_false] at hr
        rcases hr with rfl | rfl
        · exact r150_wf
        · exact r226_wf
    have hex : exchanged (Op.download (str "f") true) (writes (added (Op.download (str "f") true).run cexW2)) cexSc =
        [(some (str "EPSV"), [r229]), (some (str "RETR f"), [r150, r226])] := by decide +kernel
    have hsh : Shaped (exchanged (Op.download (str "f") true) (writes (added (Op.download (str "f") true).run cexW2)) cexSc) := by
      rw [hex]
      exact Shaped.simple _ _ _ (by decide) (by decide)
        (Shaped.completed _ _ _ _ (by decide) (by decide) (by intro g h; cases h) Shaped.nil)
    have hconn : (after (Op.download (str "f") true).run cexW2).connected = true := by decide +kernel
    have := (H (.download (str "f") true) cexW2 cexSc trivial (.inl hstep) rfl hwf o heq hsh hconn).2.1
    unfold Pending at this
    revert this
    decide +kernel
  · cases hchk

/-- the world of recorded finding K1: the server had already completed the transfer (150, data, 226) when the client's
    ABOR arrives, and answers ABOR with a single 226 -/
def worldK1 : World :=
  { mode := .passive, ttype := .binary, rfc := true, connected := true, connectOks := [true],
    script := [{ raws := [str "229 ok (|||5000|)\r\n"] },
               { raws := [str "150 go\r\n", str "226 transfer complete\r\n"], act := some (.send (str "hello")) },
               { raws := [str "226 abort ok\r\n"] }],
    dataReads := [some 5], polls := [false, true] }

private def chkK1 : Bool :=
  match result (Op.download (str "f") true).run worldK1 with
  | .ok (.replies rs) => decide (rs.list.map (·.code) = [229, 150, 226])
  | _ => false

/-- counterexample (K1): the cancelled download returns, but it has read only one of the two remaining replies: the
    reply to ABOR stays unread -/
theorem fails_on_abor_after_completion :
    ∃ rs, result (Op.download (str "f") true).run worldK1 = .ok (.replies rs) ∧
      rs.list.map (·.code) = [229, 150, 226] ∧
      (after (Op.download (str "f") true).run worldK1).net.stream = str "226 abort ok\r\n" := by
  have h : chkK1 = true := by decide +kernel
  unfold chkK1 at h
  split at h
  · rename_i rs heq
    exact ⟨rs, heq, of_decide_eq_true h, by decide +kernel⟩
  · cases h

/-- the world of recorded finding K2: REIN answered 120 then 220 -/
def worldK2 : World :=
  { mode := .passive, ttype := .binary, rfc := true, connected := true,
    script := [{ raws := [str "120 wait\r\n", str "220 ready\r\n"] }] }

private def chkK2 : Bool :=
  match result Op.logout.run worldK2 with
  | .ok (.reply r) => decide (r.code = 120)
  | _ => false

/-- counterexample (K2): `logout` returns one reply, the 220 stays unread (it sits in the reader's buffer: the whole
    group "120 ... 220 ..." was delivered by one read) -/
theorem fails_on_rein_120 :
    ∃ r, result Op.logout.run worldK2 = .ok (.reply r) ∧ r.code = 120 ∧
      (after Op.logout.run worldK2).ctl.buf ++ (after Op.logout.run worldK2).net.stream = str "220 ready\r\n" := by
  have h : chkK2 = true := by decide +kernel
  unfold chkK2 at h
  split at h
  · rename_i r heq
    exact ⟨r, heq, of_decide_eq_true h, by decide +kernel⟩
  · cases h

end Ftp.Props.C02
