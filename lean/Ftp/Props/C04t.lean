import Ftp.Props.C04
import Ftp.Props.C11
import Ftp.Lemmas.ClientTlsXfer
/-
  C04 on a TLS-protected session: "It then closes the data connection (after a TLS close-notify when TLS is on) so that the
  server sees end-of-file, and only afterwards waits for the completion reply."  Model: `Ftp.ClientTls.uploadT`.
-/
namespace Ftp.Props.C04
open Ftp Ftp.Client Ftp.ClientTls Ftp.Props.C11

/-- is the event a read on the control channel? -/
def isCtlRead : EvT → Bool
  | .ev _ .ctlReadLine => true
  | _ => false

/-- is the event a write of payload to the data connection? -/
def isDataWrite : EvT → Bool
  | .ev _ (.dataWrite _ _) => true
  | _ => false

/-- an upload on a session whose data connections are protected, for every call that returns: the trace of the call is
    `pre ++ [TLS close-notify on d, TCP shutdown of d, close of d] ++ post` where every payload write is in `pre`, and the
    read of the completion reply is in `post` (there is one) - the close-notify comes after the last payload byte and the
    completion reply is awaited only after the data connection has been closed -/
theorem tls_upload_close_notify_close_then_completion (verb : String) (path : Bytes) (w : WorldT) (rs : Replies)
    (hret : resultT (uploadT verb path) w = .ok rs)
    (hhs : ∃ d off, EvT.dataTlsHandshake d off true ∈ addedT (uploadT verb path) w) :
    ∃ pre post d t1 t2,
      addedT (uploadT verb path) w =
        pre ++ [EvT.dataTlsShutdown d, EvT.ev t1 (.dataShutdown d), EvT.ev t2 (.dataClose d)] ++ post ∧
      (∀ e ∈ post, isDataWrite e = false) ∧
      (∃ e ∈ post, isCtlRead e = true) ∧
      (∀ e ∈ pre, e ≠ EvT.dataTlsShutdown d) := by
  obtain ⟨pre, post, d, t, heq, hpre, hpost, tr, hr⟩ := (X.uploadT_close_shape verb path w).added rs hret hhs
  refine ⟨pre, post, d, t, t, heq, ?_, ⟨_, hr, rfl⟩, fun e he => hpre e he d⟩
  intro e he
  obtain ⟨t', e0, rfl, h0⟩ := hpost e he
  cases e0 <;> first | rfl | exact absurd rfl (h0 _ _)

/-! ### non-vacuity: the hypotheses are satisfiable -/

/-- a protected session (`AUTH TLS` done, handshake completed), an EPSV upload of "hello" read from the source in two
    segments; the data handshake succeeds -/
def worldUlT : WorldT :=
  { base := { mode := .passive, ttype := .binary, rfc := true, connected := true, connectOks := [true],
              script := [{ raws := [str "229 ok (|||5000|)\r\n"] },
                         { raws := [str "150 go\r\n", str "226 done\r\n"], act := some .recv }],
              src := ⟨str "hello", [3, 2]⟩ },
    tlsCtx := true, ctlSsl := true, ctlTls := true, hsOks := [true] }

/-- ... the same in active mode (EPRT): the close of the listening descriptor follows the close of the data descriptor
    (it is part of `post`) -/
def worldUlActT : WorldT :=
  { base := { mode := .active, ttype := .binary, rfc := true, connected := true, listenPorts := [4000],
              script := [{ raws := [str "200 ok\r\n"] },
                         { raws := [str "150 go\r\n", str "226 done\r\n"], act := some .recv }],
              src := ⟨str "hello", [3, 2]⟩ },
    tlsCtx := true, ctlSsl := true, ctlTls := true, hsOks := [true] }

private def returned {α} : Res α → Bool
  | .ok _ => true
  | .throw => false

/-- both hypotheses of the theorem hold in `worldUlT` -/
example :
    returned (resultT (uploadT "STOR" (str "f")) worldUlT) = true ∧
    EvT.dataTlsHandshake 1 false true ∈ addedT (uploadT "STOR" (str "f")) worldUlT := by
  decide +kernel

/-- the theorem instantiated in `worldUlT` -/
example : ∃ pre post d t1 t2,
    addedT (uploadT "STOR" (str "f")) worldUlT =
      pre ++ [EvT.dataTlsShutdown d, EvT.ev t1 (.dataShutdown d), EvT.ev t2 (.dataClose d)] ++ post ∧
    (∀ e ∈ post, isDataWrite e = false) ∧ (∃ e ∈ post, isCtlRead e = true) ∧
    (∀ e ∈ pre, e ≠ EvT.dataTlsShutdown d) := by
  have hok : returned (resultT (uploadT "STOR" (str "f")) worldUlT) = true := by decide +kernel
  cases hr : resultT (uploadT "STOR" (str "f")) worldUlT with
  | throw => rw [hr] at hok; cases hok
  | ok rs =>
    exact tls_upload_close_notify_close_then_completion "STOR" (str "f") worldUlT rs hr ⟨1, false, by decide +kernel⟩

/-- what the call appends in `worldUlT`: the two payload writes, then close-notify, shutdown, close of descriptor 1,
    then the read of the completion reply -/
example : addedT (uploadT "STOR" (str "f")) worldUlT =
    [.ev true (.ctlWrite (str "EPSV\r\n")), .ev true .ctlReadLine, .ev true (.ctlReply 229 (str "229 ok (|||5000|)")),
     .ev true (.dataSocket 1), .ev true (.dataConnect 1 (str "127.0.0.1") 5000 true),
     .ev true (.ctlWrite (str "STOR f\r\n")), .ev true .ctlReadLine, .ev true (.ctlReply 150 (str "150 go")),
     .dataTlsHandshake 1 false true,
     .ev true (.srcRead 8192 3), .ev true (.dataWrite 1 3), .ev true (.srcRead 8192 2), .ev true (.dataWrite 1 2),
     .ev true (.srcRead 8192 0),
     .dataTlsShutdown 1, .ev true (.dataShutdown 1), .ev true (.dataClose 1),
     .ev true .ctlReadLine, .ev true (.ctlReply 226 (str "226 done"))] := by
  decide +kernel

/-- active mode: the data descriptor is 2 (accepted on the listening descriptor 1); the hypotheses hold, and the end of
    the trace is close-notify on 2, shutdown of 2, close of 2, close of 1, read of the completion reply -/
example :
    returned (resultT (uploadT "STOR" (str "f")) worldUlActT) = true ∧
    EvT.dataTlsHandshake 2 false true ∈ addedT (uploadT "STOR" (str "f")) worldUlActT ∧
    (addedT (uploadT "STOR" (str "f")) worldUlActT).drop 16 =
      [.dataTlsShutdown 2, .ev true (.dataShutdown 2), .ev true (.dataClose 2), .ev true (.dataClose 1),
       .ev true .ctlReadLine, .ev true (.ctlReply 226 (str "226 done"))] := by
  decide +kernel

end Ftp.Props.C04
