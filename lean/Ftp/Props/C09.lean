import Ftp.Spec.Pure
/-
  C09 - one command line per protocol step; caller text cannot inject commands.
  Model (this part): `Ftp.Endpoint.makeCommand` (client::make_command) followed by the CR LF that
  `control_connection::send` appends.
-/
namespace Ftp.Props.C09
open Ftp Ftp.Endpoint

/-- the bytes put on the wire for one command: the line and a single CR LF -/
def wire (line : Bytes) : Bytes := line ++ [CR, LF]

/-- number of line breaks (CR or LF bytes) in a byte string -/
def breaks (s : Bytes) : Nat := s.countP (fun c => c = CR || c = LF)

private theorem hasCrLf_false_iff (s : Bytes) : hasCrLf s = false ↔ breaks s = 0 := by
  unfold hasCrLf breaks
  rw [List.countP_eq_zero]
  simp [List.any_eq_false]

/-- the model is the reference function -/
theorem makeCommand_eq_spec (verb : Bytes) (arg : Option Bytes) :
    makeCommand verb arg = Spec.commandLine verb arg := rfl

/-- a command whose caller text is free of CR and LF is transmitted as exactly one line: verb, one space, the text
    unchanged, and the only line break on the wire is the final CR LF -/
theorem one_line (verb arg : Bytes) (hv : hasCrLf verb = false) (ha : hasCrLf arg = false) :
    makeCommand verb (some arg) = some (verb ++ [SP] ++ arg) ∧
    breaks (wire (verb ++ [SP] ++ arg)) = 2 ∧
    (wire (verb ++ [SP] ++ arg)).drop (verb.length + 1 + arg.length) = [CR, LF] := by
  refine ⟨by simp [makeCommand, ha], ?_, ?_⟩
  · have h1 := (hasCrLf_false_iff verb).1 hv
    have h2 := (hasCrLf_false_iff arg).1 ha
    unfold breaks at *
    simp only [CR, LF] at h1 h2
    simp [wire, List.countP_append, CR, LF, SP, h1, h2]
  · have : verb.length + 1 + arg.length = (verb ++ [SP] ++ arg).length := by simp; omega
    rw [wire, this, List.drop_left]

/-- a command without argument is the verb alone -/
theorem no_argument (verb : Bytes) : makeCommand verb none = some verb := rfl

/-- caller text containing CR or LF is rejected: no command line is produced at all -/
theorem reject_crlf (verb arg : Bytes) (h : hasCrLf arg = true) : makeCommand verb (some arg) = none := by
  simp [makeCommand, h]

/-- conversely, whatever is accepted contains no line break beyond those of the verb -/
theorem accepted_has_no_break (verb arg line : Bytes) (hv : hasCrLf verb = false)
    (h : makeCommand verb (some arg) = some line) : hasCrLf line = false ∧ line = verb ++ [SP] ++ arg := by
  simp only [makeCommand] at h
  by_cases ha : hasCrLf arg = true
  · simp [ha] at h
  · have ha' : hasCrLf arg = false := by simpa using ha
    simp only [ha', Bool.false_eq_true, if_false, Option.some.injEq] at h
    subst h
    refine ⟨?_, rfl⟩
    rw [hasCrLf_false_iff] at *
    unfold breaks at *
    simp only [CR, LF] at hv ha'
    simp [List.countP_append, hv, ha', CR, LF, SP]

example : makeCommand (str "DELE") (some (str "a\r\nDELE b")) = none ∧
    makeCommand (str "DELE") (some (str "a b")) = some (str "DELE a b") := by decide

end Ftp.Props.C09
