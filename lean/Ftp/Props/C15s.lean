import Ftp.Generated.SourceFacts
import Ftp.Props.C15
/-
  C15, tie to the source by translation: the thresholds written in src/reply.cpp now are those of the model's classes.
-/
namespace Ftp.Props.C15
open Ftp

theorem class_thresholds_are_the_sources (r : Reply) :
    r.isPositive = (r.code != unspecified && decide (r.code < Generated.positiveBelow)) ∧
    r.isNegative = (r.code != unspecified && decide (r.code ≥ Generated.negativeFrom)) ∧
    r.isIntermediate = (r.code != unspecified && decide (r.code ≥ Generated.intermediateFrom) &&
                        decide (r.code < Generated.intermediateBelow)) := by
  have h1 : Generated.positiveBelow = 400 := by decide
  have h2 : Generated.negativeFrom = 400 := by decide
  have h3 : Generated.intermediateFrom = 300 := by decide
  have h4 : Generated.intermediateBelow = 400 := by decide
  rw [h1, h2, h3, h4]
  exact ⟨rfl, rfl, rfl⟩

end Ftp.Props.C15
