import Ftp.Spec.Session
import Ftp.Props.C05
import Ftp.Lemmas.ClientData
/-
  C03 - binary download and listings deliver exactly the bytes the server sent.
  Model: `Ftp.Client.dataRecv` (data_connection::recv) behind the stream chosen by the transfer type,
  `Ftp.Client.fileList`.
-/
namespace Ftp.Props.C03
open Ftp Ftp.Client Ftp.Session Ftp.Client.DataL

/-- the sink-side events of a trace -/
def sinkEvents (tr : List Ev) : List Ev := tr.filter fun | .sinkWrite _ | .sinkWriteFail | .sinkFlush => true | _ => false

/-- a segmentation of the payload into network reads: every read returns between 1 and 8192 bytes and together they
    deliver the whole payload; afterwards the peer's close is seen as end-of-file -/
def Segmentation (payload : Bytes) (reads : List Nat) : Prop :=
  (∀ n ∈ reads, 0 < n ∧ n ≤ 8192) ∧ reads.sum = payload.length

private theorem sinkEvents_blocks (d : Nat) (reads : List Nat) (tail : List Ev) :
    sinkEvents ((reads.map fun n => [Ev.dataRead d n, Ev.sinkWrite n]).flatten ++ tail) =
      reads.map Ev.sinkWrite ++ sinkEvents tail := by
  induction reads with
  | nil => rfl
  | cons n rs ih =>
    simp only [sinkEvents, List.map_cons, List.flatten_cons, List.cons_append, List.nil_append] at ih ⊢
    simp [ih]

/-- binary download: for every payload (every length, every byte value) and every segmentation, the sink receives
    exactly the payload - appended to what it held, nothing lost, duplicated or reordered - and is asked to flush
    exactly once, after the last byte -/
theorem binary_delivers_exactly (w : World) (payload : Bytes) (reads : List Nat) (more : List (Option Nat))
    (hseg : Segmentation payload reads) (hact : w.act = some (.send payload))
    (hreads : w.dataReads = reads.map some ++ some 0 :: more) (hsink : w.sinkFailAt = none) (hsil : w.sinkSilent = false) :
    result (dataRecv false .binary) w = .ok () ∧
    (after (dataRecv false .binary) w).sink = w.sink ++ payload ∧
    (after (dataRecv false .binary) w).sinkFlushes = w.sinkFlushes + 1 ∧
    sinkEvents (added (dataRecv false .binary) w) = reads.map Ev.sinkWrite ++ [Ev.sinkFlush] ∧
    (after (dataRecv false .binary) w).dataReads = more := by
  obtain ⟨h1, h2, h3, h4, h5, _⟩ := dataRecv_delivers .binary w payload reads more hseg.1 hseg.2 hact hreads hsink
  refine ⟨h1, h4 rfl, h2, ?_, h3⟩
  rw [added_of_trace _ _ _ (h5 rfl hsil), sinkEvents_blocks]
  rfl

/-- the result does not depend on the segmentation -/
theorem binary_segmentation_independent (w : World) (payload : Bytes) (r1 r2 : List Nat) (m1 m2 : List (Option Nat))
    (h1 : Segmentation payload r1) (h2 : Segmentation payload r2) (hact : w.act = some (.send payload))
    (hsink : w.sinkFailAt = none) (hsil : w.sinkSilent = false) :
    (after (dataRecv false .binary) { w with dataReads := r1.map some ++ some 0 :: m1 }).sink =
    (after (dataRecv false .binary) { w with dataReads := r2.map some ++ some 0 :: m2 }).sink := by
  rw [(binary_delivers_exactly { w with dataReads := r1.map some ++ some 0 :: m1 } payload r1 m1 h1 hact rfl hsink hsil).2.1,
    (binary_delivers_exactly { w with dataReads := r2.map some ++ some 0 :: m2 } payload r2 m2 h2 hact rfl hsink hsil).2.1]

/-- ASCII download end to end: the sink receives the payload with every CR LF replaced by LF (C05), for every
    segmentation -/
theorem ascii_delivers_converted (w : World) (payload : Bytes) (reads : List Nat) (more : List (Option Nat))
    (hseg : Segmentation payload reads) (hact : w.act = some (.send payload))
    (hreads : w.dataReads = reads.map some ++ some 0 :: more) (hsink : w.sinkFailAt = none) :
    result (dataRecv false .ascii) w = .ok () ∧
    (after (dataRecv false .ascii) w).sink = w.sink ++ Spec.dlSpec payload ∧
    (after (dataRecv false .ascii) w).sinkFlushes = w.sinkFlushes + 1 := by
  obtain ⟨h1, h2, _, _, _, h6⟩ := dataRecv_delivers .ascii w payload reads more hseg.1 hseg.2 hact hreads hsink
  exact ⟨h1, h6 rfl, h2⟩

/-- a data stream that ends in an error (reset, truncated TLS stream) is never delivered as a complete transfer: the
    call throws and the sink is not flushed -/
theorem read_error_is_reported (w : World) (t : TType) (reads : List Nat) (more : List (Option Nat)) (payload : Bytes)
    (hpos : ∀ n ∈ reads, 0 < n) (hlen : reads.sum ≤ payload.length) (hact : w.act = some (.send payload))
    (hreads : w.dataReads = reads.map some ++ none :: more) (hsink : w.sinkFailAt = none) :
    result (dataRecv false t) w = .throw ∧ (after (dataRecv false t) w).sinkFlushes = w.sinkFlushes := by
  exact dataRecv_read_error t w payload reads more hpos hlen hact hreads hsink

example :
    let w : World := { mode := .passive, ttype := .binary, rfc := true, act := some (.send (str "hello world")),
                       dataReads := [some 5, some 1, some 5, some 0], conn := some { sock := some 1 } }
    (after (dataRecv false .binary) w).sink = str "hello world" ∧
    sinkEvents (added (dataRecv false .binary) w) = [.sinkWrite 5, .sinkWrite 1, .sinkWrite 5, .sinkFlush] := by decide

end Ftp.Props.C03
