import Ftp.Generated.SourceFacts
import Ftp.Props.C05
/-
  C05, tie to the source by translation: the default sizes of the converters' internal buffers in
  include/ftp/detail/ascii_istream.hpp / ascii_ostream.hpp now.  The theorems of C05.lean hold for every internal
  buffer size >= 1, so the only obligation is that the source's default is in that range.
-/
namespace Ftp.Props.C05
open Ftp

theorem internal_buffers_are_in_range : 1 ≤ Generated.asciiInBuf ∧ 1 ≤ Generated.asciiOutHint := by decide

end Ftp.Props.C05
