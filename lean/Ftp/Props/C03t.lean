import Ftp.Props.C03o
import Ftp.Props.C11
import Ftp.Lemmas.ClientTlsDl
/-
  C03 on a TLS-protected session ("with or without TLS"): the download operation of the TLS layer of the model delivers
  exactly the payload, after a successful data-connection handshake.  Model: `Ftp.ClientTls.downloadT`.
-/
set_option linter.unusedVariables false
set_option linter.unusedSimpArgs false

namespace Ftp.Props.C03
open Ftp Ftp.Client Ftp.ClientTls Ftp.Session Ftp.Props.C01 Ftp.Props.C11

private theorem isPayload_eq_payloadT (e : EvT) : isPayload e = L.payloadT e := by
  cases e with
  | ev t e0 => cases e0 <;> rfl
  | _ => rfl

/-- download over a protected session, end to end: the hypotheses of `download_delivers` on the plain part of the world, a
    session whose control channel is protected, a TLS context, and a data handshake that succeeds: the call returns the
    three replies, the sink holds exactly the payload (converted for ASCII type) appended to what it held, flushed once; the
    data-connection handshake is in the trace and no payload byte is read before it -/
theorem tls_download_delivers (path : Bytes) (w : WorldT) (s m c : WfReply) (payload : Bytes) (reads : List Nat)
    (more : List (Option Nat)) (rest : List SGroup)
    (hstep : InStep w.base []) (hconn0 : w.base.conn = none) (hpath : Endpoint.hasCrLf path = false)
    (hs : s.wf) (hm : m.wf) (hc : c.wf) (hsetup : SetupOk w.base s) (hmain : m.code < 400)
    (hsc : w.base.script = (⟨[s], none⟩ :: ⟨[m, c], some (.send payload)⟩ :: rest).map SGroup.enc)
    (hclose : ∀ b ∈ w.base.closeFails, b = false)
    (hseg : Segmentation payload reads) (hreads : w.base.dataReads = reads.map some ++ some 0 :: more)
    (hsink : w.base.sinkFailAt = none) (hsil : w.base.sinkSilent = false)
    (hctx : w.tlsCtx = true) (hssl : w.ctlSsl = true) (htls : w.ctlTls = true) (hpeer : w.peerAnswersCloseNotify = true)
    (hhs : w.hsOks.head? = some true) (hc421 : c.code ≠ 421) :
    ∃ rs, resultT (downloadT path) w = .ok rs ∧
      rs.list = [replyOf s, replyOf m, replyOf c] ∧
      (afterT (downloadT path) w).base.sink = w.base.sink ++ delivered w.base.ttype payload ∧
      (afterT (downloadT path) w).base.sinkFlushes = w.base.sinkFlushes + 1 ∧
      (afterT (downloadT path) w).base.conn = none ∧
      (∃ pre post d off, addedT (downloadT path) w = pre ++ EvT.dataTlsHandshake d off true :: post ∧
          (∀ e ∈ pre, isPayload e = false)) := by
  obtain ⟨hacc, hpass, hv6⟩ := hsetup
  have tok : D.TOk w := ⟨⟨htls, hpeer⟩, hctx, hhs⟩
  obtain ⟨w', P, d, o, Q, hrun, hsk, hfl, hcn, htr, hP⟩ := D.downloadT_run path w s m c payload reads more rest tok
    hstep hpath hs hm hc hacc hmain hpass hv6 hsc hclose hseg.1 hseg.2 hreads hsink
  refine ⟨((Replies.empty.append (replyOf s)).append (replyOf m)).append (replyOf c), by simp only [resultT, hrun],
    ?_, ?_, ?_, ?_, ⟨P, Q, d, o, ?_, ?_⟩⟩
  · simp [DataL.append_list, Replies.empty]
  · simp only [afterT, hrun]
    rw [hsk]
    cases w.base.ttype <;> rfl
  · simp only [afterT, hrun]
    exact hfl
  · simp only [afterT, hrun]
    exact hcn
  · simp only [addedT, afterT, hrun]
    rw [htr, List.drop_left]
  · intro e he
    rw [isPayload_eq_payloadT]
    exact hP e he

/-! ### non-vacuity: an EPSV download of "hello world" in three segments over a protected session -/

/-- `worldDl` of C03o behind a protected control channel, with a TLS context and a data handshake that succeeds -/
def worldDlT : WorldT :=
  { base := worldDl, tlsCtx := true, ctlSsl := true, ctlTls := true, hsOks := [true] }

private def sDl : WfReply := ⟨229, [⟨str "229 ok (|||5000|)", true⟩]⟩
private def mDl : WfReply := ⟨150, [⟨str "150 go", true⟩]⟩
private def cDl : WfReply := ⟨226, [⟨str "226 done", true⟩]⟩

private theorem wf_single (code : Nat) (t : Bytes) (h1 : 100 ≤ code) (h2 : code ≤ 599)
    (hok : (⟨digits3 code ++ SP :: t, true⟩ : Line).ok) : (⟨code, [⟨digits3 code ++ SP :: t, true⟩]⟩ : WfReply).wf := by
  refine ⟨h1, h2, ?_, .inl ⟨t, true, rfl⟩⟩
  intro l hl
  rw [List.mem_singleton.1 hl]
  exact hok

private theorem sDl_wf : sDl.wf := wf_single 229 (str "ok (|||5000|)") (by decide) (by decide) ⟨by decide, by decide, by decide⟩
private theorem mDl_wf : mDl.wf := wf_single 150 (str "go") (by decide) (by decide) ⟨by decide, by decide, by decide⟩
private theorem cDl_wf : cDl.wf := wf_single 226 (str "done") (by decide) (by decide) ⟨by decide, by decide, by decide⟩

/-- the theorem instantiated in `worldDlT`: all its hypotheses hold there -/
example : ∃ rs, resultT (downloadT (str "f")) worldDlT = .ok rs ∧
    rs.list = [replyOf sDl, replyOf mDl, replyOf cDl] ∧
    (afterT (downloadT (str "f")) worldDlT).base.sink = [] ++ delivered .binary (str "hello world") ∧
    (afterT (downloadT (str "f")) worldDlT).base.sinkFlushes = 0 + 1 ∧
    (afterT (downloadT (str "f")) worldDlT).base.conn = none ∧
    (∃ pre post d off, addedT (downloadT (str "f")) worldDlT = pre ++ EvT.dataTlsHandshake d off true :: post ∧
        (∀ e ∈ pre, isPayload e = false)) :=
  tls_download_delivers (str "f") worldDlT sDl mDl cDl (str "hello world") [5, 1, 5] [] []
    ⟨rfl, .inl rfl, by decide, fun _ h => by cases h⟩ rfl (by decide) sDl_wf mDl_wf cDl_wf
    ⟨by decide, fun _ => ⟨rfl, by decide⟩, fun h => by cases h⟩ (by decide) rfl (fun _ h => by cases h)
    ⟨by decide, by decide⟩ rfl rfl rfl rfl rfl rfl rfl rfl (by decide)

/-- what the call leaves and appends in `worldDlT`, computed -/
example :
    (afterT (downloadT (str "f")) worldDlT).base.sink = str "hello world" ∧
    (afterT (downloadT (str "f")) worldDlT).base.sinkFlushes = 1 ∧
    addedT (downloadT (str "f")) worldDlT =
      [.ev true (.ctlWrite (str "EPSV\r\n")), .ev true .ctlReadLine, .ev true (.ctlReply 229 (str "229 ok (|||5000|)")),
       .ev true (.dataSocket 1), .ev true (.dataConnect 1 (str "127.0.0.1") 5000 true),
       .ev true (.ctlWrite (str "RETR f\r\n")), .ev true .ctlReadLine, .ev true (.ctlReply 150 (str "150 go")),
       .dataTlsHandshake 1 false true,
       .ev true (.dataRead 1 5), .ev true (.sinkWrite 5), .ev true (.dataRead 1 1), .ev true (.sinkWrite 1),
       .ev true (.dataRead 1 5), .ev true (.sinkWrite 5), .ev true (.dataRead 1 0), .ev true .sinkFlush,
       .dataTlsShutdown 1, .ev true (.dataShutdown 1), .ev true (.dataClose 1),
       .ev true .ctlReadLine, .ev true (.ctlReply 226 (str "226 done"))] := by
  decide +kernel

end Ftp.Props.C03
