import Ftp.Generated.SourceFacts
import Ftp.Props.C08
/-
  C08, tie to the source by translation: the line-length limit passed to read_line in src/control_connection.cpp now is
  the limit of the model's reader.
-/
namespace Ftp.Props.C08
open Ftp

theorem line_limit_is_the_sources : Reader.maxLine = Generated.ctlMaxLine := by decide

end Ftp.Props.C08
