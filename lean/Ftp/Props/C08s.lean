import Ftp.Generated.SourceFacts
import Ftp.Generated.UtilsFacts
import Ftp.Model.Utils
import Ftp.Props.C08
/-
  C08, tie to the source by translation: the line-length limit passed to read_line in src/control_connection.cpp now is
  the limit of the model's reader.
-/
namespace Ftp.Props.C08
open Ftp

theorem line_limit_is_the_sources : Reader.maxLine = Generated.ctlMaxLine := by decide

/-- the narrowing parsers as they are written in src/utils.cpp now (translated on every run: the type whose maximum the
    value is compared with, the type of the `static_cast`, the type of the result) are the model's bounded parsers: a value
    is returned only if it fits, and it is returned unchanged - never wrapped by the narrowing conversion -/
theorem narrowing_parsers_are_the_sources (s : Bytes) :
    Generated.try_parse_uint8 s = Utils.parseU8 s ∧ Generated.try_parse_uint16 s = Utils.parseU16 s ∧
    Generated.try_parse_uint32 s = Utils.parseU32 s := by
  unfold Generated.try_parse_uint8 Generated.try_parse_uint16 Generated.try_parse_uint32
    Utils.parseU8 Utils.parseU16 Utils.parseU32 Utils.parseBounded
  refine ⟨?_, ?_, ?_⟩ <;> (cases Utils.parseU64 s with
    | none => rfl
    | some v =>
      simp only
      split
      · rfl
      · rename_i h; congr 1; omega)

end Ftp.Props.C08
