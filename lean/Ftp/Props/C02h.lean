import Ftp.Spec.History
import Ftp.Props.C02
/-
  C02 at the level of histories: lockstep is an invariant of the whole session, not only of one call.
-/
namespace Ftp.Props.C02
open Ftp Ftp.Client Ftp.Session Ftp.Props.C01

def isConnect : Op → Prop
  | .connect _ _ _ => True
  | _ => False

/-- the hypotheses of `lockstep` for every call of a history: each call is served by a well-formed server whose reply
    groups have the RFC shapes and that answers every command, and each call returns; a call that leaves the client
    disconnected (QUIT, 421) is followed by a connect, if by anything -/
def ServedFrom : List Call → World → Prop
  | [], _ => True
  | c :: rest, w =>
    (∃ (sc : List SGroup) (o : Out), opOk c.op ∧ (c.before w).script = sc.map SGroup.enc ∧ WfScript sc ∧
        result c.op.run (c.before w) = .ok o ∧
        Shaped (exchanged c.op (writes (added c.op.run (c.before w))) sc) ∧
        (writes (added c.op.run (c.before w))).length + greetings c.op ≤ sc.length) ∧
    ((c.after w).connected = false → ∀ c' ∈ rest.head?, isConnect c'.op) ∧
    ServedFrom rest (c.after w)

/-- the conclusion of `lockstep` / `stays_in_step` for every call of a history -/
def AnsweredFrom : List Call → World → Prop
  | [], _ => True
  | c :: rest, w =>
    (∃ (sc : List SGroup) (o : Out), (c.before w).script = sc.map SGroup.enc ∧
        result c.op.run (c.before w) = .ok o ∧
        o.replyList = ((exchanged c.op (writes (added c.op.run (c.before w))) sc).map (·.2)).flatten.map replyOf ∧
        ((c.after w).connected = true → InStep (c.after w) [])) ∧
    AnsweredFrom rest (c.after w)

/-- a fair environment step leaves the session in step: it touches neither the reader's buffer nor the bytes in flight -/
private theorem inStep_env {w w' : World} {q : List WfReply} (h : EnvStep w w') (hs : InStep w q) : InStep w' q := by
  obtain ⟨h1, h2, h3, h4⟩ := hs
  refine ⟨by rw [h.connected]; exact h1, ?_, by rw [h.ctl]; exact h3, h4⟩
  unfold Pending at *
  rw [h.ctl, h.stream]; exact h2

private theorem connect_of_isConnect {op : Op} (h : isConnect op) : ∃ h p c, op = .connect h p c := by
  cases op <;> first | exact ⟨_, _, _, rfl⟩ | exact h.elim

/-- for every history of every length whose calls all return, against well-behaved servers, with any preparation of the
    environment between the calls: every call returns exactly the replies generated for the commands it sent, in order,
    and leaves nothing unread - lockstep never slips -/
theorem history_lockstep (h : List Call) (w : World) (hfair : ∀ c ∈ h, c.fair)
    (hstart : InStep w [] ∨ ∀ c ∈ h.head?, isConnect c.op)
    (hs : ServedFrom h w) : AnsweredFrom h w := by
  induction h generalizing w with
  | nil => trivial
  | cons c rest ih =>
    obtain ⟨⟨sc, o, hop, hsc, hwf, hret, hshape, hlen⟩, hdisc, hrest⟩ := hs
    have hf := hfair c List.mem_cons_self
    have hfr : ∀ c' ∈ rest, c'.fair := fun c' hc' => hfair c' (List.mem_cons_of_mem _ hc')
    have hstep : InStep (c.before w) [] ∨ ∃ h p cr, c.op = .connect h p cr := by
      rcases hstart with h | h
      · exact .inl (inStep_env (hf w) h)
      · exact .inr (connect_of_isConnect (h c (by simp)))
    have h1 := lockstep c.op (c.before w) sc hop hstep hsc hwf o hret hshape hlen
    have h2 := stays_in_step c.op (c.before w) sc hop hstep hsc hwf o hret hshape hlen
    refine ⟨⟨sc, o, hsc, hret, h1.1, h2⟩, ih (c.after w) hfr ?_ hrest⟩
    cases hc : (c.after w).connected with
    | true => exact .inl (h2 hc)
    | false => exact .inr (hdisc hc)

end Ftp.Props.C02
