import Ftp.Model.App
import Ftp.Lemmas.App
/-
  C20 - the interactive client survives any input and server, and protects local files.
  Model: `Ftp.App` (main, cmdline_interface::run, command_handler::handle and the handlers) over `Ftp.Client`.
-/
namespace Ftp.Props.C20
open Ftp Ftp.Client Ftp.App Ftp.Cmd

/-- the commands that need an open connection -/
def needsConnection (c : Command) : Bool :=
  match c with
  | .user | .cd | .cdup | .ls | .put | .get | .rename | .pwd | .mkdir | .rmdir | .del | .stat | .syst | .type
  | .binary | .ascii | .size | .noop | .rhelp | .logout | .close => true
  | _ => false

/-- for every script of input lines, every server behaviour (any script, any oracle) and every working directory:
    the program ends, with success status, and it ends only because `exit` was handled or the input is exhausted -/
theorem ends_only_on_exit_or_eof (w : AppWorld) (h0 : w.ended = false) (hs : w.status = 0) :
    (main w).ended = true ∧ (main w).status = 0 ∧
    ((main w).stdin = [] ∨
      ∃ pre line args, w.stdin = pre ++ line :: (main w).stdin ∧ parseCommand line = .ok .exit args) := by
  exact L.run_spec _ w h0 hs (Nat.lt_succ_self _)

/-- a command that needs a connection, given while disconnected, answers "Connection is not open." and does nothing
    else: no network event, no input consumed, no file touched -/
theorem guard_when_disconnected (c : Command) (args : List Bytes) (w : AppWorld) (hc : needsConnection c = true)
    (hd : w.client.connected = false) :
    handle c args w = (.cmdErr (str "Connection is not open."), w) := by
  cases c <;> first
    | (simp [needsConnection] at hc; done)
    | (rw [L.handle_of_ne] <;>
        simp [handler, L.bind_apply, L.needConnection_apply, hd])

/-- `get` never overwrites or deletes a local entry that already existed, whatever the server does and however the
    call ends -/
theorem get_preserves_existing_files (args : List Bytes) (w : AppWorld) :
    ∀ e ∈ w.fs, e ∈ (handle .get args w).2.fs := by
  rw [(L.handle_spec _ _ _).2.2.2.1]
  exact L.handler_get_fs args w

/-- `get` on a name that already exists is refused before anything is sent -/
theorem get_refuses_existing (rem loc : Bytes) (w : AppWorld) (hc : w.client.connected = true)
    (he : (lookupFs w.fs loc).isSome = true) :
    handle .get [rem, loc] w = (.cmdErr (str "File '" ++ loc ++ str "' already exists."), w) := by
  have h : handler .get [rem, loc] w = (.cmdErr (str "File '" ++ loc ++ str "' already exists."), w) := by
    rw [L.handler_get_two rem loc w hc, L.getBody_apply, if_pos he]
  rw [L.handle_of_ne (by simp [h]), h]

/-- the state in which `get` starts the transfer: the (empty) file exists, the sink is fresh -/
def started (w : AppWorld) (loc : Bytes) : AppWorld :=
  let c : World := { w.client with sink := [], sinkWrites := 0, sinkFlushes := 0, sinkFailAt := none, sinkSilent := false,
                                   polls := [], cancelled := false }
  { w with fs := w.fs ++ [(loc, some [])], client := c }

/-- when the server refuses the download (the result is not positive) the file `get` created is removed again: the
    directory is as before -/
theorem get_removes_file_of_refused_download (rem loc : Bytes) (w : AppWorld) (hc : w.client.connected = true)
    (hn : lookupFs w.fs loc = none) (hcr : creatable loc = true) (rs : Replies) (w' : AppWorld)
    (hd : App.client (download rem true) (started w loc) = (.ok rs, w'))
    (hneg : rs.isPositive = false) :
    (handle .get [rem, loc] w).2.fs = w.fs := by
  rw [(L.handle_spec _ _ _).2.2.2.1, L.handler_get_two rem loc w hc, L.getBody_apply,
    if_neg (by simp [hn]), if_neg (by simp [hcr])]
  exact (L.getRun_fs rem loc w hn).2 rs w' hd hneg

/-- after any library error the connection is dropped -/
theorem connection_dropped_after_library_error (c : Command) (args : List Bytes) (w w' : AppWorld)
    (h : handle c args w = (.ftpErr, w')) : w'.client.connected = false := by
  exact L.handle_ftpErr h

/-- the loop never dies of an error: every outcome of a handler is turned into output and the loop goes on, except
    `exit` and the end of input -/
theorem step_only_ends_on_exit_or_eof (w : AppWorld) (h : (step w).ended = true) (h0 : w.ended = false) :
    w.stdin = [] ∨ (∃ line rest args, w.stdin = line :: rest ∧ parseCommand line = .ok .exit args) ∨
    (∃ line rest, w.stdin = line :: rest ∧ (step w).stdin = [] ) := by
  cases hstd : w.stdin with
  | nil => exact .inl rfl
  | cons line rest =>
    rcases L.step_cons_spec w line rest hstd h0 with ⟨e1, _⟩ | ⟨_, _, e3⟩ | ⟨_, _, _, args, e4⟩
    · rw [e1] at h; cases h
    · exact .inr (.inr ⟨line, rest, rfl, e3⟩)
    · exact .inr (.inl ⟨line, rest, args, rfl, e4⟩)

end Ftp.Props.C20
