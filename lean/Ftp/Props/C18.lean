import Ftp.Model.ClientTls
import Ftp.Props.C11
import Ftp.Lemmas.ClientTls
/-
  C18 - data connections reuse the control TLS session and context when asked to.
  Model: `Ftp.ClientTls.dataHandshake` (client::ssl_handshake_data_connection).
-/
namespace Ftp.Props.C18
open Ftp Ftp.Client Ftp.ClientTls Ftp.Props.C11

private theorem op_tag (op : SessionOp) : L.AllT L.TagOk op.run := by
  cases op with
  | login u p => exact L.allT_discard (L.q3_tag (L.loginT_q3 u p))
  | simple v a => exact L.allT_discard (L.q3_tag (L.q3_lift (L.simple_np v a)))
  | download p => exact L.allT_discard (L.downloadT_tag p)
  | upload v p => exact L.allT_discard (L.uploadT_tag v p)
  | list p n => exact L.allT_discard (L.fileListT_tag p n)

private theorem op_shape (op : SessionOp) (w : WorldT) :
    L.SatT op.run w (fun r _ evs => L.Shape w (r = .throw) evs) := by
  cases op with
  | login u p => exact L.satT_discard (Q := fun t _ evs => L.Shape w t evs) (L.shape_q3 (L.loginT_q3 u p) w)
  | simple v a =>
    exact L.satT_discard (Q := fun t _ evs => L.Shape w t evs) (L.shape_q3 (L.q3_lift (L.simple_np v a)) w)
  | download p => exact L.satT_discard (Q := fun t _ evs => L.Shape w t evs) (L.downloadT_shape p w)
  | upload v p => exact L.satT_discard (Q := fun t _ evs => L.Shape w t evs) (L.uploadT_shape v p w)
  | list p n => exact L.satT_discard (Q := fun t _ evs => L.Shape w t evs) (L.fileListT_shape p n w)

private theorem op_tag_added (op : SessionOp) (w : WorldT) :
    L.cfg (afterT op.run w) = L.cfg w ∧ ∀ e ∈ addedT op.run w, L.TagOk (L.cfg w) e := (op_tag op w).added

private theorem op_shape_added (op : SessionOp) (w : WorldT) :
    L.Shape w (resultT op.run w = .throw) (addedT op.run w) := (op_shape op w).added

private theorem isHs_eq :
    (fun e : EvT => match e with | .dataTlsHandshake _ _ _ => true | _ => false) = L.isHs := by
  funext e
  cases e <;> rfl

/-- every data-connection handshake of every call offers the control connection's session exactly when the context was
    created with session resumption (and the handshake is performed with the client's own context - the model has
    only one) -/
theorem offers_control_session_iff_resumption (op : SessionOp) (w : WorldT) :
    ∀ d offered ok, EvT.dataTlsHandshake d offered ok ∈ addedT op.run w → offered = w.resume := by
  intro d offered ok hm
  exact (L.tag_offer (op_tag_added op w).2 hm).1

/-- without a TLS context no handshake is attempted; with one, a transfer never moves payload without it (C11) and
    performs at most one handshake per call -/
theorem at_most_one_handshake_per_call (op : SessionOp) (w : WorldT) :
    ((addedT op.run w).filter fun e => match e with | .dataTlsHandshake _ _ _ => true | _ => false).length ≤ 1 ∧
    (w.tlsCtx = false → ∀ d o k, EvT.dataTlsHandshake d o k ∉ addedT op.run w) := by
  refine ⟨?_, ?_⟩
  · rw [isHs_eq]; exact L.shape_count (op_shape_added op w)
  · intro hctx d o k hm
    have := (L.tag_offer (op_tag_added op w).2 hm).2
    have h2 : (L.cfg w).1 = w.tlsCtx := rfl
    rw [h2, hctx] at this
    cases this

/-- the resumption setting is a property of the client's context: no call changes it -/
theorem resumption_setting_is_stable (op : SessionOp) (w : WorldT) :
    (afterT op.run w).resume = w.resume ∧ (afterT op.run w).tlsCtx = w.tlsCtx := by
  have hc := (op_tag_added op w).1
  exact ⟨congrArg (fun k => k.2.1) hc, congrArg (fun k => k.1) hc⟩

/-- **histories**: over any number of consecutive calls on one connection (1, 20 or more transfers, listings, logins and
    simple commands in any order, returned or thrown), every data-connection handshake offers the control connection's
    session exactly when the context was created with resumption - the first transfer and every later one alike
    (induction over the list of calls; `C11.runAll` runs them one after the other) -/
theorem history_offers_control_session_iff_resumption (ops : List SessionOp) (w : WorldT) :
    ∃ evs, (runAll ops w).trace = w.trace ++ evs ∧
      (∀ d offered ok, EvT.dataTlsHandshake d offered ok ∈ evs → offered = w.resume) ∧
      (runAll ops w).resume = w.resume := by
  induction ops generalizing w with
  | nil => exact ⟨[], by simp [runAll], by simp, rfl⟩
  | cons op ops ih =>
    obtain ⟨e1, ht1, _⟩ := op_tag op w
    have he1 : addedT op.run w = e1 := by
      unfold addedT afterT
      rw [ht1, List.drop_left]
    have h1 := offers_control_session_iff_resumption op w
    have hr := (resumption_setting_is_stable op w).1
    obtain ⟨e2, ht2, h2, hr2⟩ := ih (afterT op.run w)
    refine ⟨e1 ++ e2, ?_, ?_, ?_⟩
    · show (runAll ops (afterT op.run w)).trace = _
      rw [ht2]
      show (op.run w).2.trace ++ e2 = _
      rw [ht1, List.append_assoc]
    · intro d offered ok hm
      rcases List.mem_append.1 hm with hm | hm
      · exact h1 d offered ok (he1 ▸ hm)
      · rw [h2 d offered ok hm, hr]
    · show (runAll ops (afterT op.run w)).resume = _
      rw [hr2, hr]

end Ftp.Props.C18
