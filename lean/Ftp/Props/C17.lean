import Ftp.Spec.Session
import Ftp.Lemmas.ClientTrace
/-
  C17 - no socket outlives its purpose, whatever the history.
  Model: `Ftp.Client` (data_connection objects owned by the operation, explicit disconnects, destructor).
-/
namespace Ftp.Props.C17
open Ftp Ftp.Client Ftp.Session Ftp.Client.TraceL

/-! ### proof of the descriptor accounting: an invariant linking the trace of the call, `conn` and `nextD` -/

private def live : Option DataConn → List Nat
  | none => []
  | some c => c.acc.toList ++ c.sock.toList

private def Inv (w₀ w : World) : Prop :=
  ∃ δ, w.trace = w₀.trace ++ δ ∧ w₀.nextD ≤ w.nextD ∧
    ∀ d, (opened δ).count d = (closed δ).count d + (live w.conn).count d ∧ (opened δ).count d ≤ 1 ∧
      (0 < (opened δ).count d → w₀.nextD ≤ d ∧ d < w.nextD)

private def I17 (w₀ : World) (S : Option DataConn → Prop) (w : World) : Prop := Inv w₀ w ∧ S w.conn

private theorem opened_append (a b : List Ev) : opened (a ++ b) = opened a ++ opened b := by
  simp [opened, List.filterMap_append]
private theorem closed_append (a b : List Ev) : closed (a ++ b) = closed a ++ closed b := by
  simp [closed, List.filterMap_append]

private theorem inv_step {w₀ w w' : World} (h : Inv w₀ w) (ε : List Ev) (ht : w'.trace = w.trace ++ ε)
    (hn : w.nextD ≤ w'.nextD)
    (h1 : ∀ d, (opened ε).count d + (live w.conn).count d = (closed ε).count d + (live w'.conn).count d)
    (h2 : (opened ε).Nodup) (h3 : ∀ d ∈ opened ε, w.nextD ≤ d ∧ d < w'.nextD) : Inv w₀ w' := by
  obtain ⟨δ, hδ, hle, hc⟩ := h
  refine ⟨δ ++ ε, by rw [ht, hδ, List.append_assoc], by omega, fun d => ?_⟩
  have := hc d
  have := h1 d
  have := List.nodup_iff_count.mp h2 d
  have h4 : 0 < (opened ε).count d → w.nextD ≤ d ∧ d < w'.nextD := fun h => h3 d (List.count_pos_iff.mp h)
  simp only [opened_append, closed_append, List.count_append]
  omega

private theorem inv_refl (w : World) (h : w.conn = none) : Inv w w :=
  ⟨[], by simp, Nat.le_refl _, fun d => by simp [opened, closed, live, h]⟩

private theorem nodesc_single (e : Ev) (h : isDesc e = false) : opened [e] = [] ∧ closed [e] = [] := by
  cases e <;> simp_all [opened, closed, isDesc]

private theorem nodesc_map (f : Nat → Ev) (h : ∀ o, isDesc (f o) = false) (l : List Nat) :
    opened (l.map f) = [] ∧ closed (l.map f) = [] := by
  induction l with
  | nil => exact ⟨rfl, rfl⟩
  | cons x xs ih =>
    have := nodesc_single (f x) (h x)
    rw [List.map_cons, ← List.singleton_append, opened_append, closed_append, this.1, this.2, ih.1, ih.2]
    exact ⟨rfl, rfl⟩

/-- a step that opens and closes nothing and leaves the connection object alone -/
private theorem i17_quiet {w₀ w w' : World} {S : Option DataConn → Prop} (h : I17 w₀ S w) (ε : List Ev)
    (ht : w'.trace = w.trace ++ ε) (hc : w'.conn = w.conn) (hn : w'.nextD = w.nextD)
    (ho : opened ε = [] ∧ closed ε = []) : I17 w₀ S w' := by
  refine ⟨inv_step h.1 ε ht (by omega) (fun d => by simp [ho.1, ho.2, hc]) (by simp [ho.1]) (by simp [ho.1]), ?_⟩
  rw [hc]; exact h.2

private theorem i17_fine (w₀ : World) (S : Option DataConn → Prop) : Fine (I17 w₀ S) := by
  have hmod : ∀ f : World → World, (∀ w, FrameC w (f w)) → Keeps (I17 w₀ S) (modifyW f) := fun f hf =>
    ⟨fun w h => i17_quiet h [] (by simpa using (hf w).1) (hf w).2.1 (hf w).2.2 ⟨rfl, rfl⟩⟩
  have hemit : ∀ e, isDesc e = false → Keeps (I17 w₀ S) (emit e) := fun e he =>
    ⟨fun w h => i17_quiet h [e] rfl rfl rfl (nodesc_single e he)⟩
  have hobs : ∀ f : Nat → Ev, (∀ o, isDesc (f o) = false) → Keeps (I17 w₀ S) (forObservers f) := fun f hf =>
    ⟨fun w h => i17_quiet h _ rfl rfl rfl (nodesc_map f hf _)⟩
  exact {
    mod := fun f hf => hmod f fun w => ⟨(hf w).1, (hf w).2.2.2.1, (hf w).2.2.2.2⟩
    emit := hemit
    obs := hobs
    close := keeps_close_of hmod hemit
    drop := keeps_drop_of hmod hemit
    copen := keeps_copen_of hmod hemit hobs }

private theorem i17_atoms (w₀ : World) (S : Option DataConn → Prop) : AtomsA (I17 w₀ S) := (i17_fine w₀ S).atomsA


/-- close the goal `Inv w₀ w'` for a concrete successor `w'` of a world satisfying `Inv` -/
local syntax "inv_tac " term " with " (term),* : tactic
local macro_rules
  | `(tactic| inv_tac $h with $[$ts],*) => `(tactic|
    (refine inv_step $h _ (by first | exact (List.append_nil _).symm | (simp only [List.append_assoc, List.cons_append, List.nil_append]; rfl))
      (by simp) ?_ ?_ ?_
     · intro d; simp [opened, closed, live, $[$ts:term],*] <;> grind
     · simp [opened]
     · simp [opened]))

private theorem hoare_dataConnect (w₀ : World) (a : Bytes) (p : Nat) :
    Hoare (I17 w₀ (· = none)) (dataConnect a p) (fun _ => Inv w₀) (Inv w₀) := by
  refine ⟨fun w ⟨hinv, hnone⟩ => ?_⟩
  simp only [] at hnone
  simp only [dataConnect, newDescriptor, closeD, bind_apply, getW_apply, modifyW_apply, emit_apply, pure_apply,
    throwE_apply, ite_apply_M]
  split
  · simp only [post_ok]
    inv_tac hinv with hnone
  · simp only [post_throw]
    inv_tac hinv with hnone

private def sockNone (c : Option DataConn) : Prop := ∃ c', c = some c' ∧ c'.sock = none

private theorem hoare_dataListen (w₀ : World) :
    Hoare (I17 w₀ (· = none)) dataListen (fun _ => I17 w₀ sockNone) (Inv w₀) := by
  refine ⟨fun w ⟨hinv, hnone⟩ => ?_⟩
  simp only [] at hnone
  simp only [dataListen, newDescriptor, bind_apply, getW_apply, modifyW_apply, emit_apply, pure_apply, post_ok]
  refine ⟨?_, _, rfl, rfl⟩
  inv_tac hinv with hnone

private theorem hoare_dataAccept (w₀ : World) :
    Hoare (I17 w₀ sockNone) dataAccept (fun _ => Inv w₀) (Inv w₀) := by
  refine ⟨fun w ⟨hinv, c, hc, hs⟩ => ?_⟩
  simp only [dataAccept, bind_apply, getW_apply]
  rw [hc]
  simp only []
  cases ha : c.acc with
  | some a =>
    simp only [bind_apply, modifyW_apply, emit_apply, post_ok]
    inv_tac hinv with hc, hs, ha
  | none => exact hinv

private theorem keeps_inv_dataDisconnect (w₀ : World) (g : Bool) : Keeps (Inv w₀) (dataDisconnect g) := by
  refine ⟨fun w hinv => ?_⟩
  simp only [dataDisconnect, bind_apply, getW_apply]
  cases hc : w.conn with
  | none => exact hinv
  | some c =>
    simp only []
    cases hs : c.sock <;> simp only [] <;> cases ha : c.acc <;> (try simp only []) <;> cases g <;>
      simp only [closeD, bind_apply, getW_apply, modifyW_apply, emit_apply, pure_apply, throwE_apply, ite_apply_M,
        Bool.false_eq_true, if_false, if_true] <;>
      (repeat' split) <;> first | exact hinv | inv_tac hinv with hc, hs, ha

private theorem hoare_destroyConn (w₀ : World) :
    Hoare (Inv w₀) destroyConn (fun _ => I17 w₀ (· = none)) (I17 w₀ (· = none)) := by
  refine ⟨fun w hinv => ?_⟩
  simp only [destroyConn, bind_apply, getW_apply]
  cases hc : w.conn with
  | none => exact ⟨hinv, hc⟩
  | some c =>
    simp only []
    cases hs : c.sock <;> simp only [] <;> cases ha : c.acc <;>
      simp only [closeD, bind_apply, getW_apply, modifyW_apply, emit_apply, pure_apply, post_ok] <;>
      refine ⟨?_, rfl⟩ <;> inv_tac hinv with hc, hs, ha

private theorem inv_fine (w₀ : World) : Fine (Inv w₀) := (i17_fine w₀ (fun _ => True)).of_iff fun _ => ⟨fun h => h.1, fun h => ⟨h, trivial⟩⟩

private theorem inv_atomsT (w₀ : World) : AtomsT (Inv w₀) where
  toAtomsA := (inv_fine w₀).atomsA
  listing := (inv_fine w₀).listing
  ddisc := keeps_inv_dataDisconnect w₀

private theorem hoare_processEpsv (w₀ : World) (cmd : Bytes) (rs : Replies) :
    Hoare (I17 w₀ (· = none)) (processEpsv cmd rs) (fun _ => Inv w₀) (Inv w₀) := by
  have A0 := i17_atoms w₀ (· = none)
  have T := inv_atomsT w₀
  have A := T.toAtomsA
  unfold processEpsv
  refine hoare_bind (hoare_keeps (keeps_mkCmd A0 _ _) fun _ h => h.1) fun c => ?_
  refine hoare_bind (hoare_keeps (keeps_processCommandInto A0 _ _) fun _ h => h.1) fun x => ?_
  split
  split
  · exact hoare_pure _ fun _ h => h.1
  · split
    · exact hoare_throw fun _ h => h.1
    · refine hoare_bind (Q := fun _ => I17 w₀ (· = none)) (hoare_getW fun _ h => h) fun w => ?_
      refine hoare_bind (hoare_dataConnect w₀ _ _) fun _ => ?_
      refine hoare_of_keeps ?_
      keeps_walk

private theorem hoare_processPasv (w₀ : World) (cmd : Bytes) (rs : Replies) :
    Hoare (I17 w₀ (· = none)) (processPasv cmd rs) (fun _ => Inv w₀) (Inv w₀) := by
  have A0 := i17_atoms w₀ (· = none)
  have T := inv_atomsT w₀
  have A := T.toAtomsA
  unfold processPasv
  refine hoare_bind (hoare_keeps (keeps_mkCmd A0 _ _) fun _ h => h.1) fun c => ?_
  refine hoare_bind (hoare_keeps (keeps_processCommandInto A0 _ _) fun _ h => h.1) fun x => ?_
  split
  split
  · exact hoare_pure _ fun _ h => h.1
  · split
    · exact hoare_throw fun _ h => h.1
    · refine hoare_bind (hoare_dataConnect w₀ _ _) fun _ => ?_
      refine hoare_of_keeps ?_
      keeps_walk

private theorem hoare_activeRest (w₀ : World) (cmd c : Bytes) (rs : Replies) :
    Hoare (I17 w₀ sockNone) (do
      let (r, rs) ← processCommandInto c rs
      if r.isNegative then pure (false, rs)
      else
        let (r, rs) ← processCommandInto cmd rs
        if r.isNegative then pure (false, rs)
        else
          dataAccept
          pure (true, rs)) (fun _ => Inv w₀) (Inv w₀) := by
  have A := i17_atoms w₀ sockNone
  refine hoare_bind (hoare_keeps (keeps_processCommandInto A _ _) fun _ h => h.1) fun x => ?_
  split
  split
  · exact hoare_pure _ fun _ h => h.1
  · refine hoare_bind (hoare_keeps (keeps_processCommandInto A _ _) fun _ h => h.1) fun x => ?_
    split
    split
    · exact hoare_pure _ fun _ h => h.1
    · exact hoare_bind (hoare_dataAccept w₀) fun _ => hoare_pure _ fun _ h => h

private theorem hoare_processActive (w₀ : World) (e : Bool) (cmd : Bytes) (rs : Replies) :
    Hoare (I17 w₀ (· = none)) (processActive e cmd rs) (fun _ => Inv w₀) (Inv w₀) := by
  unfold processActive
  refine hoare_bind (hoare_dataListen w₀) fun port => ?_
  refine hoare_bind (Q := fun _ => I17 w₀ sockNone) (hoare_getW fun _ h => h) fun w => ?_
  dsimp only
  generalize (if w.v6 = true then Endpoint.Family.v6 else Endpoint.Family.v4) = fam
  refine hoare_ite (fun _ => ?_) (fun _ => ?_)
  · exact hoare_bind (Q := fun _ => I17 w₀ sockNone) (hoare_pure _ fun _ h => h) fun c => hoare_activeRest w₀ cmd c rs
  · cases Endpoint.fmtPort fam (addrText w) port with
    | some c =>
      exact hoare_bind (Q := fun _ => I17 w₀ sockNone) (hoare_pure _ fun _ h => h) fun c => hoare_activeRest w₀ cmd c rs
    | none =>
      exact hoare_bind (Q := fun _ => I17 w₀ sockNone) (hoare_throw fun _ h => h.1) fun c => hoare_activeRest w₀ cmd c rs

private theorem hoare_createDataConnection (w₀ : World) (cmd : Bytes) (rs : Replies) :
    Hoare (I17 w₀ (· = none)) (createDataConnection cmd rs) (fun _ => Inv w₀) (Inv w₀) := by
  unfold createDataConnection
  refine hoare_bind (Q := fun _ => I17 w₀ (· = none)) (hoare_getW fun _ h => h) fun w => ?_
  split
  · exact hoare_processEpsv w₀ _ _
  · exact hoare_processPasv w₀ _ _
  · exact hoare_processActive w₀ _ _ _
  · exact hoare_processActive w₀ _ _ _

private theorem hoare_download (w₀ : World) (p : Bytes) (cb : Bool) :
    Hoare (I17 w₀ (· = none)) (download p cb) (fun _ => I17 w₀ (· = none)) (I17 w₀ (· = none)) := by
  have A0 := i17_atoms w₀ (· = none)
  have T := inv_atomsT w₀
  have A := T.toAtomsA
  unfold download
  refine hoare_withScope (Q := fun _ => Inv w₀) (E' := Inv w₀) ?_ (fun _ => hoare_destroyConn w₀) (hoare_destroyConn w₀)
  refine hoare_bind (hoare_keeps (keeps_mkCmd A0 _ _) fun _ h => h.1) fun c => ?_
  refine hoare_bind (hoare_createDataConnection w₀ _ _) fun x => ?_
  refine hoare_of_keeps ?_
  keeps_walk

private theorem hoare_upload (w₀ : World) (v : String) (p : Bytes) (cb : Bool) :
    Hoare (I17 w₀ (· = none)) (upload v p cb) (fun _ => I17 w₀ (· = none)) (I17 w₀ (· = none)) := by
  have A0 := i17_atoms w₀ (· = none)
  have T := inv_atomsT w₀
  have A := T.toAtomsA
  unfold upload
  refine hoare_withScope (Q := fun _ => Inv w₀) (E' := Inv w₀) ?_ (fun _ => hoare_destroyConn w₀) (hoare_destroyConn w₀)
  refine hoare_bind (hoare_keeps (keeps_mkCmd A0 _ _) fun _ h => h.1) fun c => ?_
  refine hoare_bind (hoare_createDataConnection w₀ _ _) fun x => ?_
  refine hoare_of_keeps ?_
  keeps_walk

private theorem hoare_fileList (w₀ : World) (p : Option Bytes) (n : Bool) :
    Hoare (I17 w₀ (· = none)) (fileList p n) (fun _ => I17 w₀ (· = none)) (I17 w₀ (· = none)) := by
  have A0 := i17_atoms w₀ (· = none)
  have T := inv_atomsT w₀
  have A := T.toAtomsA
  unfold fileList
  refine hoare_withScope (Q := fun _ => Inv w₀) (E' := Inv w₀) ?_ (fun _ => hoare_destroyConn w₀) (hoare_destroyConn w₀)
  refine hoare_bind (hoare_keeps (keeps_mkCmd A0 _ _) fun _ h => h.1) fun c => ?_
  refine hoare_bind (hoare_createDataConnection w₀ _ _) fun x => ?_
  refine hoare_of_keeps ?_
  keeps_walk

private theorem hoare_run (w₀ : World) (op : Op) :
    Hoare (I17 w₀ (· = none)) op.run (fun _ => I17 w₀ (· = none)) (I17 w₀ (· = none)) := by
  have A := i17_atoms w₀ (· = none)
  cases op with
  | download p cb => exact hoare_bind (hoare_download w₀ p cb) fun _ => hoare_pure _ fun _ h => h
  | upload v p cb => exact hoare_bind (hoare_upload w₀ v p cb) fun _ => hoare_pure _ fun _ h => h
  | list p n => exact hoare_bind (hoare_fileList w₀ p n) fun _ => hoare_pure _ fun _ h => h
  | _ => exact hoare_of_keeps (by simp only [Op.run]; keeps_walk)

private theorem run_inv (op : Op) (w : World) (h : w.conn = none) : I17 w (· = none) (after op.run w) := by
  have h1 := (hoare_run w op).h w ⟨inv_refl w h, h⟩
  unfold after
  rcases hm : op.run w with ⟨r, w'⟩
  rw [hm] at h1
  cases r <;> exact h1

/-! ### proof of the control-socket accounting: a step relation kept by every atomic step -/

private def Racc (w w' : World) : Prop :=
  ∃ δ, w'.trace = w.trace ++ δ ∧
    (w'.connected = true → w.connected = false → ∃ h p, Ev.ctlConnect h p ∈ δ) ∧
    (w'.connected = false → w.connected = true → Ev.ctlClose ∈ δ)

private theorem racc_step {w w' : World} (δ : List Ev) (hc : w'.connected = w.connected) (ht : w'.trace = w.trace ++ δ) :
    Racc w w' := by
  refine ⟨δ, ht, ?_, ?_⟩ <;> (intro h1 h2; rw [hc, h2] at h1; cases h1)

private theorem racc_refl (w : World) : Racc w w := racc_step [] rfl (by simp)

private theorem racc_trans (a b c : World) (h1 : Racc a b) (h2 : Racc b c) : Racc a c := by
  obtain ⟨δ1, ht1, hc1, hd1⟩ := h1
  obtain ⟨δ2, ht2, hc2, hd2⟩ := h2
  refine ⟨δ1 ++ δ2, by rw [ht2, ht1, List.append_assoc], ?_, ?_⟩
  · intro hc ha
    cases hb : b.connected with
    | true => obtain ⟨h, p, hm⟩ := hc1 hb ha; exact ⟨h, p, List.mem_append_left _ hm⟩
    | false => obtain ⟨h, p, hm⟩ := hc2 hc hb; exact ⟨h, p, List.mem_append_right _ hm⟩
  · intro hc ha
    cases hb : b.connected with
    | true => exact List.mem_append_right _ (hd2 hc hb)
    | false => exact List.mem_append_left _ (hd1 hb ha)

private theorem keeps_acc_mod (w₀ : World) (f : World → World) (h : ∀ w, FrameD w (f w)) : Keeps (Racc w₀) (modifyW f) :=
  keeps_of_rel racc_trans (fun _ => racc_step [] (h _).2.2 (by simpa using (h _).1)) w₀

private theorem keeps_acc_emit (w₀ : World) (e : Ev) : Keeps (Racc w₀) (emit e) :=
  keeps_of_rel racc_trans (fun _ => racc_step [e] rfl rfl) w₀

private theorem keeps_acc_obs (w₀ : World) (f : Nat → Ev) : Keeps (Racc w₀) (forObservers f) :=
  keeps_of_rel racc_trans (fun _ => racc_step _ rfl rfl) w₀

private theorem keeps_acc_close (w₀ : World) : Keeps (Racc w₀) ctlClose := by
  refine keeps_of_rel racc_trans (fun w => ⟨[.ctlShutdown, .ctlClose], ?_, ?_, ?_⟩) w₀
  · simp [ctlClose]
  · intro h; simp [ctlClose] at h
  · intro _ _; simp

private theorem keeps_acc_drop (w₀ : World) : Keeps (Racc w₀) connectDrop := by
  refine keeps_of_rel racc_trans (fun w => ⟨[.ctlClose], ?_, ?_, ?_⟩) w₀
  · simp [connectDrop]
  · intro h; simp [connectDrop] at h
  · intro _ _; simp

private theorem keeps_acc_copen (w₀ : World) (h : Bytes) (p : Nat) : Keeps (Racc w₀) (connectOpen h p) := by
  refine keeps_of_rel racc_trans
    (fun w => ⟨[.ctlConnect h p] ++ w.observers.map (fun o => .obsConnected o h p), ?_, ?_, ?_⟩) w₀
  · simp [connectOpen]
  · intro _ _; exact ⟨h, p, by simp⟩
  · intro h; simp [connectOpen] at h

private theorem acc_fine (w₀ : World) : Fine (Racc w₀) where
  mod f h := keeps_acc_mod w₀ f fun w => frameD_of_frame (h w)
  emit e _ := keeps_acc_emit w₀ e
  obs f _ := keeps_acc_obs w₀ f
  close := keeps_acc_close w₀
  drop := keeps_acc_drop w₀
  copen := keeps_acc_copen w₀

private theorem acc_atoms (w₀ : World) : AtomsD (Racc w₀) where
  toAtomsA := (acc_fine w₀).atomsA
  modD := keeps_acc_mod w₀
  emitD e _ := keeps_acc_emit w₀ e
  listing := (acc_fine w₀).listing

/-- for every API call in every state - whatever the server answers, whether connects succeed, whatever the data
    socket delivers, wherever a sink, a source, a write or a close fails, whether the call returns or throws -
    every data or listening descriptor opened during the call is closed during the call, exactly once, and no
    data_connection object survives the call -/
theorem balanced (op : Op) (w : World) (h : w.conn = none) :
    (after op.run w).conn = none ∧
    (opened (added op.run w)).Perm (closed (added op.run w)) ∧
    (opened (added op.run w)).Nodup := by
  obtain ⟨⟨δ, ht, _, hc⟩, hn⟩ := run_inv op w h
  rw [added_of_append _ _ δ ht]
  rw [hn] at hc
  refine ⟨hn, List.perm_iff_count.mpr fun d => ?_, List.nodup_iff_count.mpr fun d => (hc d).2.1⟩
  simpa [live] using (hc d).1

/-- descriptors are never reused within a client: every descriptor a call opens is new -/
theorem fresh (op : Op) (w : World) (h : w.conn = none) :
    (∀ d ∈ opened (added op.run w), w.nextD ≤ d) ∧ w.nextD ≤ (after op.run w).nextD := by
  obtain ⟨⟨δ, ht, hle, hc⟩, _⟩ := run_inv op w h
  rw [added_of_append _ _ δ ht]
  exact ⟨fun d hd => ((hc d).2.2 (List.count_pos_iff.mpr hd)).1, hle⟩


/-- the client holds the control socket exactly while it reports connected: a call changes `connected` only through
    connect (opens), disconnect / a 421 reply (shutdown + close in the trace) -/
theorem control_socket_accounting (op : Op) (w : World) :
    ((after op.run w).connected = true ∧ w.connected = false → ∃ h p, Ev.ctlConnect h p ∈ added op.run w) ∧
    ((after op.run w).connected = false ∧ w.connected = true → Ev.ctlClose ∈ added op.run w) := by
  obtain ⟨δ, ht, hc, hd⟩ : Racc w (after op.run w) :=
    keeps_rel (fun w₀ => keeps_run (acc_atoms w₀).atomsB op) racc_refl w
  rw [added_of_append _ _ δ ht]
  exact ⟨fun h => hc h.1 h.2, fun h => hd h.1 h.2⟩

/-- non-vacuity: a refused active-mode download closes its listening socket -/
example :
    let w : World := { mode := .active, ttype := .binary, rfc := true, connected := true, listenPorts := [50000],
                       script := [{ raws := [str "200 ok\r\n"] }, { raws := [str "550 no\r\n"] }] }
    opened (added (Op.download (str "f") false).run w) = [1] ∧ closed (added (Op.download (str "f") false).run w) = [1] := by
  decide

end Ftp.Props.C17
