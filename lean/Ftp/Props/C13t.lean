import Ftp.Model.ClientTls
import Ftp.Lemmas.ClientTls
import Ftp.Props.C11
/-
  C13 / C11 / C17 on the TLS layer: a `connect` that cannot establish its TCP connection (`connectFailT`).
  Whatever state the client was in - connected or not, with an SSL layer whose handshake completed, failed or was never
  started - the call reports the error, the client is not connected afterwards, the old connection (if one was open) has
  been closed, the SSL layer is gone, and not a single command was written (in particular none in clear text on the old
  connection: this is the history of repair F13).
-/
namespace Ftp.Props.C13
open Ftp Ftp.Client Ftp.ClientTls Ftp.ClientTls.L
open Ftp.Props.C11 (afterT resultT addedT allWrites)

/-- the argument checks of `connect`: both texts are validated before anything else happens -/
def credsOk (cred : Option (Bytes × Bytes)) : Bool :=
  match cred with
  | some (u, p) => !Endpoint.hasCrLf u && !Endpoint.hasCrLf p
  | none => true

/-- a failed connect always reports the error -/
theorem failed_connect_throws (cred : Option (Bytes × Bytes)) (w : WorldT) : resultT (connectFailT cred) w = .throw := by
  unfold resultT connectFailT
  cases cred with
  | none =>
    simp only [bindT_eq, getT, modifyT, emitT, throwT, Pure.pure]
    cases w.base.connected <;> rfl
  | some c =>
    obtain ⟨u, p⟩ := c
    simp only [bindT_eq, lift_mkCmd, Endpoint.makeCommand, getT, modifyT, emitT, throwT, Pure.pure]
    cases Endpoint.hasCrLf u <;> cases Endpoint.hasCrLf p <;> simp <;> cases w.base.connected <;> rfl

/-- ... with rejected arguments nothing at all has happened ... -/
theorem failed_connect_rejected_arguments (cred : Option (Bytes × Bytes)) (w : WorldT) (h : credsOk cred = false) :
    afterT (connectFailT cred) w = w := by
  unfold afterT connectFailT
  cases cred with
  | none => simp [credsOk] at h
  | some c =>
    obtain ⟨u, p⟩ := c
    simp only [credsOk, Bool.and_eq_false_iff, Bool.not_eq_false'] at h
    simp only [bindT_eq, lift_mkCmd, Endpoint.makeCommand, getT, modifyT, emitT, throwT, Pure.pure]
    cases hu : Endpoint.hasCrLf u with
    | true => simp
    | false =>
      rcases h with h | h
      · rw [hu] at h; cases h
      · simp [h]

/-- ... and otherwise the client is released: not connected, no SSL layer, the connection that was open closed
    (abandoned - no QUIT, no shutdown), and nothing else happened -/
theorem failed_connect_releases (cred : Option (Bytes × Bytes)) (w : WorldT) (h : credsOk cred = true) :
    (afterT (connectFailT cred) w).base.connected = false ∧
    (afterT (connectFailT cred) w).ctlSsl = false ∧ (afterT (connectFailT cred) w).ctlTls = false ∧
    addedT (connectFailT cred) w = (if w.base.connected then [EvT.ev w.ctlTls .ctlClose] else []) := by
  unfold afterT addedT afterT connectFailT
  cases cred with
  | none =>
    simp only [bindT_eq, getT, modifyT, emitT, throwT, Pure.pure]
    cases hc : w.base.connected <;> simp [hc, bindT_eq, modifyT, emitT, throwT]
  | some c =>
    obtain ⟨u, p⟩ := c
    simp only [credsOk, Bool.and_eq_true, Bool.not_eq_true'] at h
    simp only [bindT_eq, lift_mkCmd, Endpoint.makeCommand, h.1, h.2, getT, modifyT, emitT, throwT, Pure.pure]
    cases hc : w.base.connected <;> simp [hc, bindT_eq, modifyT, emitT, throwT]

/-- no command leaves the client during a failed connect - neither on the old connection nor anywhere else -/
theorem failed_connect_writes_nothing (cred : Option (Bytes × Bytes)) (w : WorldT) :
    C11.allWrites (addedT (connectFailT cred) w) = [] := by
  cases h : credsOk cred with
  | false =>
    have := failed_connect_rejected_arguments cred w h
    unfold addedT; rw [this]; simp [C11.allWrites]
  | true =>
    rw [(failed_connect_releases cred w h).2.2.2]
    cases w.base.connected <;> simp [C11.allWrites]

/-- what replaces the body of `connect` when the TCP connection does not come about: the SSL layer of the old
    connection is removed, then the error -/
def connectFailBody : MT Replies := do
  modifyT fun w => { w with ctlTls := false, ctlSsl := false }
  throwT

/-- a failed connect is `connectT` with everything from the opening of the new connection on replaced by the error:
    the two share the argument checks and the abandoning of the open connection (`connectT_eq` states the same
    decomposition for `connectT`, with `connectBody host port cred` in the place of `connectFailBody`; `connectBody`
    begins with the same removal of the SSL layer) -/
theorem failed_connect_is_connect_up_to_the_connection (cred : Option (Bytes × Bytes)) :
    connectFailT cred =
      match cred with
      | some (u, p) => lift (mkCmd "USER" (some u)) >>= fun _ => lift (mkCmd "PASS" (some p)) >>= fun _ =>
          connectDropT >>= fun _ => connectFailBody
      | none => connectDropT >>= fun _ => connectFailBody := by
  cases cred with
  | none =>
    exact getT_ite_jp (fun w => w.base.connected) (fun w0 => emitT (.ev w0.ctlTls .ctlClose))
      (modifyT fun w => { w with base := { w.base with connected := false } }) connectFailBody
  | some c =>
    obtain ⟨u, p⟩ := c
    show (lift (mkCmd "USER" (some u)) >>= fun _ => lift (mkCmd "PASS" (some p)) >>= fun _ => _) = _
    congr 1; funext _; congr 1; funext _
    exact getT_ite_jp (fun w => w.base.connected) (fun w0 => emitT (.ev w0.ctlTls .ctlClose))
      (modifyT fun w => { w with base := { w.base with connected := false } }) connectFailBody

/-- non-vacuity: a protected session, then a connect that fails: the old connection is closed, the layer is gone -/
example :
    let w : WorldT := { base := { mode := .passive, ttype := .binary, rfc := true, connected := true }, tlsCtx := true,
                        ctlSsl := true, ctlTls := true }
    addedT (connectFailT none) w = [EvT.ev true .ctlClose] ∧ (afterT (connectFailT none) w).ctlSsl = false := by
  decide

end Ftp.Props.C13
