import Ftp.Spec.Session
import Ftp.Props.C17
import Ftp.Lemmas.ClientSession
/-
  C07 - a refused transfer moves no data, leaks nothing and leaves the session usable.
-/
set_option linter.unusedVariables false
set_option linter.unusedSimpArgs false

namespace Ftp.Props.C07
open Ftp Ftp.Client Ftp.Session Ftp.Props.C01 Ftp.Client.SessL

def isTransferOp : Op → Bool
  | .download _ _ | .upload _ _ _ | .list _ _ => true
  | _ => false

def refusal (r : WfReply) : Prop := 400 ≤ r.code ∧ r.code ≠ 421

/-- the outcome of a refused transfer -/
structure Refused (op : Op) (w : World) (replies : List WfReply) : Prop where
  returned : ∃ o, result op.run w = .ok o ∧ o.replyList = replies.map replyOf ∧
    (match o with | .replies rs => rs.isPositive = false | .listing rs t => rs.isPositive = false ∧ t = [] | _ => False)
  no_data : ∀ e ∈ added op.run w, isData e = false ∧ e ≠ Ev.cbBegin
  nothing_after_refusal : (writes (added op.run w)).length = replies.length
  no_descriptor : (after op.run w).conn = none ∧ (opened (added op.run w)).Perm (closed (added op.run w))
  in_step : InStep (after op.run w) []

/-- the transfer command of a call -/
private def cmdOf : Op → Bytes
  | .download p _ => str "RETR" ++ [SP] ++ p
  | .upload v p _ => str v ++ [SP] ++ p
  | .list (some p) n => str (if n then "NLST" else "LIST") ++ [SP] ++ p
  | .list none n => str (if n then "NLST" else "LIST")
  | _ => []

private def outOf : Op → Replies → Out
  | .list _ _, rs => .listing rs []
  | _, rs => .replies rs

private theorem withScope_ok_run {α} (body : M α) (w w1 : World) (a : α) (h : body w = (.ok a, w1)) :
    withScope body destroyConn w = (.ok a, (destroyConn w1).2) := by
  unfold withScope
  rw [h]
  simp only
  rw [destroyConn_ok w1]

/-- a transfer whose set-up reports "not ready" returns the replies collected so far -/
private theorem run_refused (op : Op) (w w1 : World) (rs1 : Replies) (hop : isTransferOp op = true)
    (hargs : ∀ a ∈ (match op with | .download p _ => [p] | .upload _ p _ => [p] | .list (some p) _ => [p] | _ => []), Endpoint.hasCrLf a = false)
    (h : createDataConnection (cmdOf op) Replies.empty w = (.ok (false, rs1), w1)) :
    op.run w = (.ok (outOf op rs1), (destroyConn w1).2) := by
  cases op with
  | download p cb =>
    have ha := hargs p (by simp)
    simp only [Op.run, download, CtlL.bind_apply]
    rw [withScope_ok_run _ w w1 rs1]
    · rfl
    · simp only [CtlL.bind_apply, CtlL.mkCmd_succ _ _ _ ha]
      erw [h]
      rfl
  | upload v p cb =>
    have ha := hargs p (by simp)
    simp only [Op.run, upload, CtlL.bind_apply]
    rw [withScope_ok_run _ w w1 rs1]
    · rfl
    · simp only [CtlL.bind_apply, CtlL.mkCmd_succ _ _ _ ha]
      erw [h]
      rfl
  | list p n =>
    simp only [Op.run, fileList, CtlL.bind_apply]
    rw [withScope_ok_run _ w w1 (rs1, [])]
    · rfl
    · rcases p with _ | p
      · have hmk : mkCmd (if n = true then "NLST" else "LIST") none w = (.ok (str (if n = true then "NLST" else "LIST")), w) := rfl
        simp only [CtlL.bind_apply, hmk]
        erw [h]
        rfl
      · have ha := hargs p (by simp)
        simp only [CtlL.bind_apply, CtlL.mkCmd_succ _ _ _ ha]
        erw [h]
        rfl
  | _ => simp [isTransferOp] at hop

private theorem refused_of (op : Op) (w w1 : World) (rs1 : Replies) (replies : List WfReply)
    (hop : isTransferOp op = true) (hconn0 : w.conn = none)
    (hargs : ∀ a ∈ (match op with | .download p _ => [p] | .upload _ p _ => [p] | .list (some p) _ => [p] | _ => []), Endpoint.hasCrLf a = false)
    (h : createDataConnection (cmdOf op) Replies.empty w = (.ok (false, rs1), w1))
    (hl : rs1.list = replies.map replyOf) (hpos : rs1.isPositive = false) (hsync : Sync w1 [])
    (hc : w1.connected = true) : Refused op w replies := by
  have hrun := run_refused op w w1 rs1 hop hargs h
  obtain ⟨_, evs1, ht1, hp1⟩ := (createDataConnection_nd _ _).of_eq h
  obtain ⟨_, evs2, ht2, hp2⟩ := destroyConn_nd w1
  obtain ⟨d1, d2, d3, d4, _⟩ := destroyConn_dat w1
  have htr : (after op.run w).trace = w.trace ++ (evs1 ++ evs2) := by
    simp only [after, hrun, ht2, ht1, List.append_assoc]
  have hadd := DataL.added_of_trace _ _ _ htr
  refine ⟨⟨outOf op rs1, by simp [result, hrun], ?_, ?_⟩, ?_, ?_, ?_, ?_⟩
  · cases op <;> simp [isTransferOp] at hop <;> simpa [outOf, Out.replyList] using hl
  · cases op <;> simp [isTransferOp] at hop <;> simp [outOf, hpos]
  · rw [hadd]
    intro e he
    have : Pnd e := by
      rcases List.mem_append.mp he with he | he
      · exact hp1 e he
      · exact hp2 e he
    refine ⟨this, ?_⟩
    rintro rfl
    simp [Pnd, isData] at this
  · rw [hadd]
    obtain ⟨setup, ws, rl, ⟨evs, hte, hw, _⟩, hrl, hshape, _⟩ := CtlL.createDataConnection_spec h
    have : evs = evs1 := List.append_cancel_left (hte.symm.trans ht1)
    subst this
    have hw2 : writes evs2 = [] := by
      apply DataL.writes_eq_nil
      intro e he b hb
      subst hb
      have := (CtlL.destroyConn_rg w1).2
      obtain ⟨evs2', ht2', hp2'⟩ := this
      have : evs2' = evs2 := List.append_cancel_left (ht2'.symm.trans ht2)
      subst this
      have := hp2' _ he
      simp [CtlL.P0, CtlL.isCtlEv] at this
    rw [CtlL.writes_append, hw, hw2, List.append_nil]
    simp only [Replies.empty, List.nil_append] at hrl
    have hlen : rl.length = replies.length := by rw [← hrl, hl, List.length_map]
    rcases hshape with ⟨r1, _, rfl, rfl, _⟩ | ⟨r1, r2, rfl, rfl, _, _⟩ <;> simpa using hlen
  · have := C17.balanced op w hconn0
    exact ⟨this.1, this.2.1⟩
  · simp only [after, hrun]
    refine ⟨d4.trans hc, ?_⟩
    unfold Sync at hsync
    rw [← d1, ← d2] at hsync
    exact hsync

private theorem pos_false1 (s : WfReply) (hs : s.wf) (h : 400 ≤ s.code) :
    (Replies.empty.append (replyOf s)).isPositive = false := by
  simp only [Replies.append, Replies.empty, List.isEmpty_nil, if_true, isPositive_replyOf hs]
  simp; omega

private theorem pos_false2 (s m : WfReply) (hm : m.wf) (h : 400 ≤ m.code) :
    ((Replies.empty.append (replyOf s)).append (replyOf m)).isPositive = false := by
  have hp : (replyOf m).isPositive = false := by rw [isPositive_replyOf hm]; simp; omega
  simp [Replies.append, Replies.empty, hp]

/-- the set-up command (EPSV / PASV / EPRT / PORT) is refused: the operation stops there, in every mode -/
theorem refused_at_setup (op : Op) (w : World) (s : WfReply) (rest : List SGroup) (hop : isTransferOp op = true)
    (hstep : InStep w []) (hconn0 : w.conn = none) (hs : s.wf) (href : refusal s)
    (hsc : w.script = (⟨[s], none⟩ :: rest).map SGroup.enc)
    (hargs : ∀ a ∈ (match op with | .download p _ => [p] | .upload _ p _ => [p] | .list (some p) _ => [p] | _ => []), Endpoint.hasCrLf a = false)
    (hv6 : w.mode = .active → w.rfc = false → w.v6 = false) :
    Refused op w [s] := by
  have key : ∃ w1, createDataConnection (cmdOf op) Replies.empty w = (.ok (false, Replies.empty.append (replyOf s)), w1) ∧
      Sync w1 [] ∧ (s.code ≠ 421 → w1.connected = true) := by
    rw [createDataConnection_eq]
    rcases hm : w.mode <;> rcases hr : w.rfc <;> simp only
    · obtain ⟨w1, h1, h2, h3, _⟩ := processPasv_refused (cmdOf op) Replies.empty w s none rest hstep hs href.1 hsc
      exact ⟨w1, h1, h2, h3⟩
    · obtain ⟨w1, h1, h2, h3, _⟩ := processEpsv_refused (cmdOf op) Replies.empty w s none rest hstep hs href.1 hsc
      exact ⟨w1, h1, h2, h3⟩
    · obtain ⟨w1, h1, hc1, hs1, _⟩ := processActive_start false (cmdOf op) Replies.empty w s none rest hstep hs hsc
        (fun _ => hv6 hm hr)
      obtain ⟨w2, g1, g2, g3, _⟩ := activeRest_refused1 (cmdOf op) Replies.empty w1 s hc1 hs1 href.1
      exact ⟨w2, h1.trans g1, g2, g3⟩
    · obtain ⟨w1, h1, hc1, hs1, _⟩ := processActive_start true (cmdOf op) Replies.empty w s none rest hstep hs hsc
        (fun h => by cases h)
      obtain ⟨w2, g1, g2, g3, _⟩ := activeRest_refused1 (cmdOf op) Replies.empty w1 s hc1 hs1 href.1
      exact ⟨w2, h1.trans g1, g2, g3⟩
  obtain ⟨w1, h1, h2, h3⟩ := key
  exact refused_of op w w1 _ [s] hop hconn0 hargs h1 (by simp [Replies.empty]) (pos_false1 s hs href.1) h2 (h3 href.2)

/-- the transfer command itself (RETR / STOR / STOU / APPE / LIST / NLST) is refused after an accepted set-up -/
theorem refused_at_main (op : Op) (w : World) (s m : WfReply) (act : Option DataAct) (rest : List SGroup)
    (hop : isTransferOp op = true)
    (hstep : InStep w []) (hconn0 : w.conn = none) (hs : s.wf) (hm : m.wf) (hacc : s.code < 400) (href : refusal m)
    (hsc : w.script = (⟨[s], none⟩ :: ⟨[m], act⟩ :: rest).map SGroup.enc)
    (hargs : ∀ a ∈ (match op with | .download p _ => [p] | .upload _ p _ => [p] | .list (some p) _ => [p] | _ => []), Endpoint.hasCrLf a = false)
    (hv6 : w.mode = .active → w.rfc = false → w.v6 = false)
    (hpassive : w.mode = .passive →
        (w.connectOks.head? = some true) ∧ (w.closeFails.head?.getD false = false) ∧
        (if w.rfc then (Endpoint.parseEpsv s.text).isSome else (Endpoint.parsePasv s.text).isSome))
    (hactive : w.mode = .active → w.closeFails.head?.getD false = false) :
    Refused op w [s, m] := by
  have key : ∃ w1, createDataConnection (cmdOf op) Replies.empty w =
        (.ok (false, (Replies.empty.append (replyOf s)).append (replyOf m)), w1) ∧
      Sync w1 [] ∧ (m.code ≠ 421 → w1.connected = true) := by
    rw [createDataConnection_eq]
    rcases hmo : w.mode <;> rcases hr : w.rfc <;> simp only
    · obtain ⟨hok, hcf, hparse⟩ := hpassive hmo
      simp only [hr, Bool.false_eq_true, if_false] at hparse
      obtain ⟨⟨ip, port⟩, hp⟩ := Option.isSome_iff_exists.mp hparse
      obtain ⟨w3, h1, hc3, hs3, hsc3, hconn3, hcf3⟩ := processPasv_accepted (cmdOf op) Replies.empty w s none _ ip port
        hstep hs hacc hsc (by rw [hok]; rfl) hp
      obtain ⟨w5, g1, g2, g3⟩ := passiveRest_refused (cmdOf op) _ w3 m act rest w.nextD hc3 hs3 hsc3 hm href.1 hconn3
        (by rw [hcf3]; exact hcf)
      exact ⟨w5, h1.trans g1, g2, g3⟩
    · obtain ⟨hok, hcf, hparse⟩ := hpassive hmo
      simp only [hr, if_true] at hparse
      obtain ⟨port, hp⟩ := Option.isSome_iff_exists.mp hparse
      obtain ⟨w3, h1, hc3, hs3, hsc3, hconn3, hcf3⟩ := processEpsv_accepted (cmdOf op) Replies.empty w s none _ port
        hstep hs hacc hsc (by rw [hok]; rfl) hp
      obtain ⟨w5, g1, g2, g3⟩ := passiveRest_refused (cmdOf op) _ w3 m act rest w.nextD hc3 hs3 hsc3 hm href.1 hconn3
        (by rw [hcf3]; exact hcf)
      exact ⟨w5, h1.trans g1, g2, g3⟩
    · obtain ⟨w1, h1, hc1, hs1, hsc1⟩ := processActive_start false (cmdOf op) Replies.empty w s none _ hstep hs hsc
        (fun _ => hv6 hmo hr)
      obtain ⟨w2, g1, g2, g3⟩ := activeRest_refused2 (cmdOf op) Replies.empty w1 s m act rest hc1 hs1 hacc hsc1 hm href.1
      exact ⟨w2, h1.trans g1, g2, g3⟩
    · obtain ⟨w1, h1, hc1, hs1, hsc1⟩ := processActive_start true (cmdOf op) Replies.empty w s none _ hstep hs hsc
        (fun h => by cases h)
      obtain ⟨w2, g1, g2, g3⟩ := activeRest_refused2 (cmdOf op) Replies.empty w1 s m act rest hc1 hs1 hacc hsc1 hm href.1
      exact ⟨w2, h1.trans g1, g2, g3⟩
  obtain ⟨w1, h1, h2, h3⟩ := key
  exact refused_of op w w1 _ [s, m] hop hconn0 hargs h1 (by simp [Replies.empty]) (pos_false2 s m hm href.1) h2 (h3 href.2)

end Ftp.Props.C07
