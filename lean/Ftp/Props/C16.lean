import Ftp.Spec.Pure
import Ftp.Lemmas.Utils
/-
  C16 - typed replies carry a value exactly when the 213 payload is well-formed.
  Model: `Ftp.Typed.parseSize / parseDatetime / parseFileList`.
-/
namespace Ftp.Props.C16
open Ftp Ftp.Utils Ftp.Typed

/-- the size model is the reference function, for every reply -/
theorem size_eq_spec (r : Reply) : parseSize r = Spec.sizeOf r := by
  unfold parseSize Spec.sizeOf
  by_cases hc : r.code = 213
  · simp only [hc, bne_self_eq_false, Bool.false_eq_true, if_false, true_and]
    by_cases hl : r.text.length < 5
    · have : List.drop 4 r.text = [] ∨ ∃ a, List.drop 4 r.text = [a] ∧ False := by
        left; apply List.drop_eq_nil_of_le; omega
      rcases this with h | ⟨_, _, h⟩
      · simp [hl, h, isDigits]
      · exact h.elim
    · simp only [hl, if_false]
      rw [parseU64_spec]
      have : (decValue (List.drop 4 r.text) ≤ u64max) ↔ decValue (List.drop 4 r.text) < Spec.two64 := by
        unfold u64max Spec.two64; omega
      simp only [this]
  · have : (r.code != 213) = true := by simpa using hc
    simp [this, hc]

/-- a size value exists exactly for a 213 reply whose payload is a decimal number below 2^64, and it is that number -/
theorem size_value (r : Reply) (n : Nat) :
    parseSize r = some n ↔
      (r.code = 213 ∧ isDigits (r.text.drop 4) = true ∧ decValue (r.text.drop 4) = n ∧ n < 2 ^ 64) := by
  rw [size_eq_spec]; unfold Spec.sizeOf Spec.two64
  dsimp only
  constructor
  · intro h
    split at h
    · rename_i hh; obtain ⟨h1, h2, h3⟩ := hh
      injection h with h; subst h; exact ⟨h1, h2, rfl, by omega⟩
    · cases h
  · rintro ⟨h1, h2, h3, h4⟩
    subst h3
    have : decValue (List.drop 4 r.text) < 18446744073709551616 := by omega
    simp [h1, h2, this]

private theorem exists14 (l : Bytes) (h : 14 ≤ l.length) :
    ∃ a0 a1 a2 a3 a4 a5 a6 a7 a8 a9 a10 a11 a12 a13 rest,
      l = a0 :: a1 :: a2 :: a3 :: a4 :: a5 :: a6 :: a7 :: a8 :: a9 :: a10 :: a11 :: a12 :: a13 :: rest := by
  match l, h with
  | a0 :: a1 :: a2 :: a3 :: a4 :: a5 :: a6 :: a7 :: a8 :: a9 :: a10 :: a11 :: a12 :: a13 :: rest, _ =>
    exact ⟨a0, a1, a2, a3, a4, a5, a6, a7, a8, a9, a10, a11, a12, a13, rest, rfl⟩

private theorem dig (a : Nat) : (isDigit a = true) ↔ (48 ≤ a ∧ a ≤ 57) := by simp [isDigit]

/-- the reference value as a record -/
def toDateTime : List Nat → Option DateTime
  | [y, mo, d, h, mi, s, f] => some ⟨y, mo, d, h, mi, s, f⟩
  | _ => none

/-- the time model is the reference function, for every reply: a value exactly for a 213 time-val
    (14 digits, optionally a period and one or more digits) whose fraction fits 32 bits, its fields equal to
    the digits written -/
private theorem ite_some_cond {α} {c : Prop} [Decidable c] {a y : α}
    (h : (if c then some a else none) = some y) : c := by
  by_cases hc : c
  · exact hc
  · simp [hc] at h

theorem time_eq_spec (r : Reply) : parseDatetime r = (Spec.timeOf r).bind toDateTime := by
  unfold parseDatetime Spec.timeOf
  dsimp only
  by_cases hc : r.code = 213
  · simp only [hc, bne_self_eq_false, Bool.false_eq_true, if_false, true_and]
    by_cases hl : r.text.length < 5
    · have h0 : List.drop 4 r.text = [] := by apply List.drop_eq_nil_of_le; omega
      simp [hl, h0, Spec.isTimeVal]
    · simp only [hl, if_false]
      generalize List.drop 4 r.text = tv
      by_cases h14 : tv.length < 14
      · have : ¬ (min 14 tv.length = 14) := by omega
        simp [h14, Spec.isTimeVal, this]
      · simp only [h14, if_false]
        obtain ⟨a0, a1, a2, a3, a4, a5, a6, a7, a8, a9, a10, a11, a12, a13, rest, rfl⟩ := exists14 tv (by omega)
        simp only [substr, List.drop, List.take, parseU16_spec, parseU8_spec, parseU32_spec, isDigits, List.isEmpty_cons,
          Bool.not_false, Bool.true_and, List.all_cons, List.all_nil, Bool.and_true, Bool.and_eq_true, dig,
          Spec.isTimeVal, Spec.timeFields, Spec.field, List.length_cons, List.getD_cons_succ]
        by_cases hd : (48 ≤ a0 ∧ a0 ≤ 57) ∧ (48 ≤ a1 ∧ a1 ≤ 57) ∧ (48 ≤ a2 ∧ a2 ≤ 57) ∧ (48 ≤ a3 ∧ a3 ≤ 57) ∧
            (48 ≤ a4 ∧ a4 ≤ 57) ∧ (48 ≤ a5 ∧ a5 ≤ 57) ∧ (48 ≤ a6 ∧ a6 ≤ 57) ∧ (48 ≤ a7 ∧ a7 ≤ 57) ∧
            (48 ≤ a8 ∧ a8 ≤ 57) ∧ (48 ≤ a9 ∧ a9 ≤ 57) ∧ (48 ≤ a10 ∧ a10 ≤ 57) ∧ (48 ≤ a11 ∧ a11 ≤ 57) ∧
            (48 ≤ a12 ∧ a12 ≤ 57) ∧ (48 ≤ a13 ∧ a13 ≤ 57)
        · obtain ⟨d0, d1, d2, d3, d4, d5, d6, d7, d8, d9, d10, d11, d12, d13⟩ := hd
          have e1 : decValue [a0, a1, a2, a3] ≤ 65535 := by simp [decValue]; omega
          have e2 : decValue [a4, a5] ≤ 255 := by simp [decValue]; omega
          have e3 : decValue [a6, a7] ≤ 255 := by simp [decValue]; omega
          have e4 : decValue [a8, a9] ≤ 255 := by simp [decValue]; omega
          have e5 : decValue [a10, a11] ≤ 255 := by simp [decValue]; omega
          have e6 : decValue [a12, a13] ≤ 255 := by simp [decValue]; omega
          simp only [d0, d1, d2, d3, d4, d5, d6, d7, d8, d9, d10, d11, d12, d13, and_self, e1, e2, e3, e4, e5, e6, if_true, true_and]
          cases rest with
          | nil => simp [toDateTime, decValue, Spec.two32]
          | cons c rest' =>
            simp only [List.length_cons, List.getD_cons_zero, List.drop_succ_cons, List.drop_zero]
            by_cases hp : c = 46
            · subst hp
              cases rest' with
              | nil => simp [decValue, Spec.two32]
              | cons f fs =>
                by_cases hfd : isDigit f = true
                · by_cases hfs : fs.all isDigit = true
                  · have hfs' : ∀ x ∈ fs, isDigit x = true := by simpa using hfs
                    by_cases hv : decValue (f :: fs) ≤ 4294967295
                    · have hv' : decValue (f :: fs) < Spec.two32 := by unfold Spec.two32; omega
                      simp [hfd, hv, hv']
                      rw [if_pos hfs', if_pos hfs']; rfl
                    · have hv' : ¬ decValue (f :: fs) < Spec.two32 := by unfold Spec.two32; omega
                      simp [hfd, hv, hv']
                  · have hfs' : ¬ ∀ x ∈ fs, isDigit x = true := by simpa using hfs
                    simp [hfd]
                    rw [if_neg (fun h => hfs' h.1), if_neg (fun h => hfs' h.1)]; rfl
                · simp [hfd]
            · have : (c != 46) = true := by simpa using hp
              simp [this, hp]
        · -- some of the fourteen characters is not a digit: both sides are `none`
          have hrhs : ¬ (((48 ≤ a0 ∧ a0 ≤ 57) ∧ (48 ≤ a1 ∧ a1 ≤ 57) ∧ (48 ≤ a2 ∧ a2 ≤ 57) ∧ (48 ≤ a3 ∧ a3 ≤ 57) ∧
            (48 ≤ a4 ∧ a4 ≤ 57) ∧ (48 ≤ a5 ∧ a5 ≤ 57) ∧ (48 ≤ a6 ∧ a6 ≤ 57) ∧ (48 ≤ a7 ∧ a7 ≤ 57) ∧
            (48 ≤ a8 ∧ a8 ≤ 57) ∧ (48 ≤ a9 ∧ a9 ≤ 57) ∧ (48 ≤ a10 ∧ a10 ≤ 57) ∧ (48 ≤ a11 ∧ a11 ≤ 57) ∧
            (48 ≤ a12 ∧ a12 ≤ 57) ∧ (48 ≤ a13 ∧ a13 ≤ 57))) := hd
          simp only [hrhs, false_and, and_false, if_false, Option.bind_none, Nat.add_one_ne_zero]
          split
          · rfl
          · rename_i y h1; have c1 := ite_some_cond h1
            split
            · rfl
            · rename_i mo h2; have c2 := ite_some_cond h2
              split
              · rfl
              · rename_i d h3; have c3 := ite_some_cond h3
                split
                · rfl
                · rename_i hh h4; have c4 := ite_some_cond h4
                  split
                  · rfl
                  · rename_i mi h5; have c5 := ite_some_cond h5
                    split
                    · rfl
                    · rename_i sc h6; have c6 := ite_some_cond h6
                      exfalso; apply hd; omega
  · have : (r.code != 213) = true := by simpa using hc
    simp [this, hc]

/-- sound: a time value exists only for a 213 reply whose payload is an RFC 3659 time-val, and its fields are the
    digits written -/
theorem time_sound (r : Reply) (d : DateTime) (h : parseDatetime r = some d) :
    r.code = 213 ∧ Spec.isTimeVal (r.text.drop 4) = true ∧
    [d.year, d.month, d.day, d.hour, d.minute, d.second, d.fractions] = Spec.timeFields (r.text.drop 4) := by
  rw [time_eq_spec] at h
  unfold Spec.timeOf at h
  dsimp only at h
  split at h
  · rename_i hh
    refine ⟨hh.1, hh.2.1, ?_⟩
    simp only [Spec.timeFields, Option.bind_some, toDateTime] at h ⊢
    injection h with h; subst h; rfl
  · simp at h

/-- complete: a time-val whose fraction fits 32 bits always yields a value -/
theorem time_complete (r : Reply) (h1 : r.code = 213) (h2 : Spec.isTimeVal (r.text.drop 4) = true)
    (h3 : decValue ((r.text.drop 4).drop 15) < 2 ^ 32) : (parseDatetime r).isSome = true := by
  rw [time_eq_spec]
  unfold Spec.timeOf Spec.two32
  dsimp only
  have : decValue (List.drop 19 r.text) < 4294967296 := by
    have := h3; simp only [List.drop_drop] at this; omega
  simp [h1, h2, this, Spec.timeFields, toDateTime]

/-! ### listings -/

/-- the listing model is the reference function (LF-separated pieces, one trailing CR removed from each) -/
theorem list_eq_spec (t : Bytes) : parseFileList t = Spec.listLines t := by
  have h : ∀ (t cur : Bytes), getlinePieces t cur = Spec.splitLF t cur := by
    intro t
    induction t with
    | nil => intro cur; rfl
    | cons c t ih => intro cur; simp only [getlinePieces, Spec.splitLF, ih]
  unfold parseFileList Spec.listLines
  rw [h]
  rfl

private theorem pieces_line (l rest cur : Bytes) (h : LF ∉ l) :
    getlinePieces (l ++ LF :: rest) cur = (cur ++ l) :: getlinePieces rest [] := by
  induction l generalizing cur with
  | nil => simp [getlinePieces]
  | cons c l ih =>
    have hc : c ≠ LF := by intro e; apply h; simp [e]
    have hl : LF ∉ l := by intro e; apply h; simp [e]
    simp only [List.cons_append, getlinePieces, hc, if_false]
    rw [ih _ hl]; simp

/-- text made of LF-terminated lines (optionally CR LF) -/
def render (crlf : Bool) : List Bytes → Bytes
  | [] => []
  | l :: ls => l ++ (if crlf then [CR, LF] else [LF]) ++ render crlf ls

/-- round trip: lines free of LF that do not end in CR, rendered with CR LF or with LF, are recovered exactly -/
theorem list_roundtrip (crlf : Bool) (ls : List Bytes)
    (h : ∀ l ∈ ls, LF ∉ l ∧ l.getLast? ≠ some CR) : parseFileList (render crlf ls) = ls := by
  unfold parseFileList
  induction ls with
  | nil => simp [render, getlinePieces]
  | cons l ls ih =>
    have hl := h l (by simp)
    have ih' := ih (fun x hx => h x (by simp [hx]))
    cases crlf with
    | false =>
      simp only [render, Bool.false_eq_true, if_false, List.append_assoc, List.singleton_append]
      rw [pieces_line _ _ _ hl.1]
      simp only [List.nil_append, List.map_cons]
      rw [ih']
      simp [stripOneCR, hl.2]
    | true =>
      simp only [render, if_true, List.append_assoc, List.cons_append, List.nil_append]
      have : l ++ CR :: LF :: render true ls = (l ++ [CR]) ++ LF :: render true ls := by simp
      rw [this, pieces_line]
      · simp only [List.nil_append, List.map_cons]
        rw [ih']
        simp [stripOneCR]
      · intro hm
        simp only [List.mem_append, List.mem_singleton] at hm
        rcases hm with hm | hm
        · exact hl.1 hm
        · simp [CR, LF] at hm

private theorem pieces_lf_free (t cur : Bytes) (hc : LF ∉ cur) : ∀ l ∈ getlinePieces t cur, LF ∉ l := by
  induction t generalizing cur with
  | nil =>
    intro l hl
    simp only [getlinePieces] at hl
    split at hl
    · simp at hl
    · simp at hl; subst hl; exact hc
  | cons c t ih =>
    intro l hl
    simp only [getlinePieces] at hl
    split at hl
    · simp only [List.mem_cons] at hl
      rcases hl with hl | hl
      · subst hl; exact hc
      · exact ih [] (by simp) l hl
    · rename_i hne
      apply ih (cur ++ [c]) _ l hl
      simp only [List.mem_append, List.mem_singleton, not_or]
      exact ⟨hc, fun e => hne e.symm⟩

/-- every line of a listing is free of LF -/
theorem list_lines_lf_free (t : Bytes) : ∀ l ∈ parseFileList t, LF ∉ l := by
  intro l hl
  unfold parseFileList at hl
  simp only [List.mem_map] at hl
  obtain ⟨p, hp, rfl⟩ := hl
  have := pieces_lf_free t [] (by simp) p hp
  unfold stripOneCR
  split
  · intro hm; exact this (List.dropLast_subset _ hm)
  · exact this

/-- non-vacuity -/
example : parseSize ⟨213, str "213 18446744073709551615"⟩ = some 18446744073709551615 ∧
    parseSize ⟨213, str "213 18446744073709551616"⟩ = none ∧
    parseDatetime ⟨213, str "213 19980615100045.014"⟩ = some ⟨1998, 6, 15, 10, 0, 45, 14⟩ ∧
    parseDatetime ⟨213, str "213 20200101120000x5"⟩ = none ∧
    parseDatetime ⟨213, str "213 20200101120000."⟩ = none ∧
    parseFileList (str "a\r\nb\n\nc") = [str "a", str "b", [], str "c"] := by decide

end Ftp.Props.C16
