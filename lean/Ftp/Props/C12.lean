import Ftp.Spec.Session
import Ftp.Lemmas.ClientData
/-
  C12 - transfer callbacks bracket and count the transfer; cancellation stops and aborts.
  Model: `Ftp.Client.dataRecv` / `dataSend` with a callback, `finishTransfer`, `processAbort`.
-/
namespace Ftp.Props.C12
open Ftp Ftp.Client Ftp.Session Ftp.Client.DataL

/-- payload movements over the data connection -/
def moved : Ev → Option Nat
  | .dataRead _ n => if n = 0 then none else some n
  | .dataWrite _ n => some n
  | _ => none

/-- the callback events and the block movements of a trace, in order -/
def cbView (tr : List Ev) : List Ev := tr.filter fun e => isCb e || (moved e).isSome

/-- after `begin`: each block is moved, then notified with its size, then cancellation is polled; a poll that reports
    true is followed by `end` at once (no further block); otherwise `end` comes after the last block -/
def bodyOk : List Ev → Bool
  | [.cbEnd] => true
  | mv :: .cbNotify n :: .cbPoll b :: rest =>
    (moved mv == some n) && (n ≤ 8192) && (if b then rest == [.cbEnd] else bodyOk rest)
  | _ => false

/-- the shape of a transfer with a callback: cancelled before the start (a single poll, nothing else: no begin, no
    end, no byte), or poll - begin - blocks - end -/
def shapeOk : List Ev → Bool
  | [.cbPoll true] => true
  | .cbPoll false :: .cbBegin :: rest => bodyOk rest
  | _ => false

private def notif : Ev → Option Nat
  | .cbNotify n => some n
  | _ => none

private theorem quiet_view {e : Ev} (h : quiet e = true) :
    (isCb e || (moved e).isSome) = false ∧ notif e = none ∧ moved e = none := by
  cases e with
  | dataRead d n => cases n <;> simp_all [quiet, isCb, moved, notif]
  | _ => simp_all [quiet, isCb, moved, notif]

private theorem cbView_quiet (s : List Ev) (h : ∀ e ∈ s, quiet e = true) :
    cbView s = [] ∧ s.filterMap notif = [] ∧ s.filterMap moved = [] := by
  induction s with
  | nil => exact ⟨rfl, rfl, rfl⟩
  | cons e s ih =>
    obtain ⟨h1, h2, h3⟩ := quiet_view (h e (by simp))
    obtain ⟨g1, g2, g3⟩ := ih (fun x hx => h x (by simp [hx]))
    refine ⟨?_, ?_, ?_⟩
    · simp only [cbView] at g1 ⊢
      rw [List.filter_cons, h1]
      simpa using g1
    · rw [List.filterMap_cons, h2]; exact g2
    · rw [List.filterMap_cons, h3]; exact g3

private theorem cbView_append (l₁ l₂ : List Ev) : cbView (l₁ ++ l₂) = cbView l₁ ++ cbView l₂ := by
  simp [cbView]

private theorem move_view {n : Nat} {mv : Ev} (h : isMove n mv = true) :
    (isCb mv || (moved mv).isSome) = true ∧ moved mv = some n ∧ notif mv = none := by
  cases mv <;> simp [isMove] at h
  · obtain ⟨h1, h2⟩ := h
    subst h1
    simp [isCb, moved, notif, h2]
  · subst h
    simp [isCb, moved, notif]

private theorem blocks_view {l : List Ev} (h : Blocks l) :
    bodyOk (cbView l ++ [.cbEnd]) = true ∧ (l.filterMap notif).sum = (l.filterMap moved).sum := by
  induction h with
  | nil => exact ⟨rfl, rfl⟩
  | skip e l he _ ih =>
    obtain ⟨h1, h2, h3⟩ := quiet_view he
    refine ⟨?_, ?_⟩
    · have : cbView (e :: l) = cbView l := by
        simp only [cbView]
        rw [List.filter_cons, h1]
        simp
      rw [this]; exact ih.1
    · rw [List.filterMap_cons, List.filterMap_cons, h2, h3]; exact ih.2
  | block mv n s b rest hmv hn hs hb _ ih =>
    obtain ⟨m1, m2, m3⟩ := move_view hmv
    obtain ⟨s1, s2, s3⟩ := cbView_quiet s hs
    have hview : cbView (mv :: s ++ Ev.cbNotify n :: Ev.cbPoll b :: rest) =
        mv :: Ev.cbNotify n :: Ev.cbPoll b :: cbView rest := by
      rw [← List.singleton_append, List.append_assoc, cbView_append, cbView_append, s1]
      have h1 : cbView [mv] = [mv] := by simp [cbView, m1]
      have h2 : cbView (Ev.cbNotify n :: Ev.cbPoll b :: rest) = Ev.cbNotify n :: Ev.cbPoll b :: cbView rest := by
        simp [cbView, isCb]
      rw [h1, h2]; rfl
    refine ⟨?_, ?_⟩
    · rw [hview]
      have hrest : b = true → cbView rest = [] := fun hb' => (cbView_quiet rest (hb hb')).1
      cases mv <;> simp [isMove] at hmv
      all_goals
        cases b
        · simpa [bodyOk, m2, hn] using ih.1
        · simp [bodyOk, m2, hn, hrest rfl]
    · rw [← List.singleton_append, List.append_assoc]
      have e1 : notif (Ev.cbNotify n) = some n := rfl
      have e2 : moved (Ev.cbNotify n) = none := rfl
      have e3 : notif (Ev.cbPoll b) = none := rfl
      have e4 : moved (Ev.cbPoll b) = none := rfl
      simp only [List.filterMap_append, List.filterMap_cons, List.filterMap_nil, m2, m3, s2, s3, e1, e2, e3, e4,
        List.sum_append, List.sum_cons, List.sum_nil, List.nil_append]
      have := ih.2
      omega

/-- download with a callback: for every payload, every sequence of reads, every poll oracle - whenever the call
    returns, the callback events bracket and count the transfer as `shapeOk` prescribes -/
theorem recv_shape (w : World) (t : TType) (h : result (dataRecv true t) w = .ok ()) :
    shapeOk (cbView (added (dataRecv true t) w)) = true := by
  rcases dataRecv_cb t w h with h1 | ⟨l, hl, h1⟩
  · rw [h1]; rfl
  · rw [h1]
    have : cbView (Ev.cbPoll false :: Ev.cbBegin :: l ++ [Ev.cbEnd]) =
        Ev.cbPoll false :: Ev.cbBegin :: (cbView l ++ [.cbEnd]) := by
      simp [cbView, isCb]
    rw [this]
    exact (blocks_view hl).1

/-- upload with a callback -/
theorem send_shape (w : World) (t : TType) (h : result (dataSend true t) w = .ok ()) :
    shapeOk (cbView (added (dataSend true t) w)) = true := by
  obtain ⟨l0, h0, _, h2⟩ := dataSend_general true t w
  rw [added_of_trace _ _ _ h0]
  rcases h2 rfl h with h1 | ⟨l, hl, h1⟩
  · rw [h1]; rfl
  · rw [h1]
    have : cbView (Ev.cbPoll false :: Ev.cbBegin :: l ++ [Ev.cbEnd]) =
        Ev.cbPoll false :: Ev.cbBegin :: (cbView l ++ [.cbEnd]) := by
      simp [cbView, isCb]
    rw [this]
    exact (blocks_view hl).1

/-- the sum of the notify arguments is the number of bytes moved over the data connection -/
theorem notify_sum_is_bytes_moved (w : World) (t : TType) (h : result (dataRecv true t) w = .ok ()) :
    ((added (dataRecv true t) w).filterMap fun | .cbNotify n => some n | _ => none).sum =
    ((added (dataRecv true t) w).filterMap moved).sum := by
  change ((added (dataRecv true t) w).filterMap notif).sum = _
  rcases dataRecv_cb t w h with h1 | ⟨l, hl, h1⟩
  · rw [h1]; rfl
  · rw [h1]
    have := (blocks_view hl).2
    simp only [List.cons_append, List.filterMap_cons, List.filterMap_append, List.filterMap_nil, notif, moved,
      List.sum_append, List.sum_nil]
    omega

/-- cancelled before the start: no byte moves, neither begin nor end is invoked -/
theorem cancelled_before_start (w : World) (t : TType) (h : (w.cancelled || w.polls.head?.getD false) = true) :
    added (dataRecv true t) w = [Ev.cbPoll true] ∧ added (dataSend true t) w = [Ev.cbPoll true] := by
  exact cancelled_start w t h

/-- once cancellation has been reported, the end of the transfer sends ABOR, reads its replies into the result and
    closes the data connection without a graceful shutdown -/
theorem cancellation_aborts (w : World) (rs : Replies) (d : Nat) (a : Option Nat) (hcan : w.cancelled = true)
    (hc : w.conn = some { sock := some d, acc := a }) (hconn : w.connected = true) :
    (writes (added (finishTransfer true rs) w)).head? = some (str "ABOR\r\n") ∧
    Ev.dataShutdown d ∉ added (finishTransfer true rs) w ∧
    (∀ o, result (finishTransfer true rs) w = .ok o →
        Ev.dataClose d ∈ added (finishTransfer true rs) w ∧
        o.list = rs.list ++ received (added (finishTransfer true rs) w)) := by
  exact finishTransfer_cancelled w rs d a hcan hc hconn

/-- without cancellation no ABOR is sent -/
theorem no_abort_without_cancellation (w : World) (rs : Replies) (hcan : w.cancelled = false)
    (hp : w.polls.head?.getD false = false) :
    writes (added (finishTransfer true rs) w) = [] := by
  exact finishTransfer_no_abort w rs hcan hp

example :
    let w : World := { mode := .passive, ttype := .binary, rfc := true, act := some (.send (str "hello world")),
                       dataReads := [some 5, some 6, some 0], polls := [false, false, true], conn := some { sock := some 1 } }
    cbView (added (dataRecv true .binary) w) =
      [.cbPoll false, .cbBegin, .dataRead 1 5, .cbNotify 5, .cbPoll false, .dataRead 1 6, .cbNotify 6, .cbPoll true, .cbEnd] := by decide

end Ftp.Props.C12
