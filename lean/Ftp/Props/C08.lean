import Ftp.Model.Reader
import Ftp.Lemmas.Utils
import Ftp.Lemmas.ReaderTotal
/-
  C08 (control-reader part) - whatever bytes the server sends and wherever it closes or fails, a receive step ends
  in a reply or an error; it never spins once the transport has reported the end, never buffers more than 8192
  bytes, and no decimal field is ever wrapped.
  Model: `Ftp.Reader`.
-/
namespace Ftp.Props.C08
open Ftp Ftp.Reader Ftp.Utils

/-- reading one line always terminates within the fuel the model supplies -/
theorem readLine_total (buf : Bytes) (net : Net) : (readLine buf net).1 ≠ .fuel :=
  (readLine_spec_T buf net).1

/-- a receive step always terminates within the fuel the model supplies: for every buffer content, every remaining
    server output, every delivery schedule and both ways the transport can end -/
theorem recv_total (c : Ctl) (net : Net) : (recv c net).1 ≠ .fuel :=
  (recv_spec c net).1

/-- once the transport has reported the end of the stream (end-of-file or an error), the step ends: the transport is
    asked at most once more -/
theorem recv_reads_at_end (c : Ctl) (net : Net) : (recv c net).2.2.readsAtEnd ≤ net.readsAtEnd + 1 :=
  (recv_spec c net).2.1

/-- ... and a step that hit the end reports an error (it does not return an empty or partial reply) -/
theorem recv_end_is_error (c : Ctl) (net : Net) (h : (recv c net).2.2.readsAtEnd = net.readsAtEnd + 1) :
    (recv c net).1 = .error :=
  (recv_spec c net).2.2.1 h

/-- the buffer never grows beyond 8192 bytes -/
theorem buffer_bounded (c : Ctl) (net : Net) (h : c.buf.length ≤ maxLine) :
    (recv c net).2.1.buf.length ≤ maxLine :=
  (recv_spec c net).2.2.2 h

/-- a control line that exceeds 8192 bytes without a terminator is refused, and nothing beyond the 8192 bytes is taken
    from the transport -/
theorem long_line_refused (c : Ctl) (net : Net) (hb : c.buf.length ≤ maxLine)
    (hlen : maxLine ≤ (c.buf ++ net.stream).length)
    (hno : ∀ b ∈ (c.buf ++ net.stream).take maxLine, b ≠ CR ∧ b ≠ LF) :
    (recv c net).1 = .error ∧ (recv c net).2.1.buf = (c.buf ++ net.stream).take maxLine :=
  recv_long c net hb hlen hno

/-- decimal fields are never wrapped: a parsed value is the decimal value of the digits written and fits the type -/
theorem no_wrap (s : Bytes) (n : Nat) :
    (parseU8 s = some n → isDigits s = true ∧ n = decValue s ∧ n < 2 ^ 8) ∧
    (parseU16 s = some n → isDigits s = true ∧ n = decValue s ∧ n < 2 ^ 16) ∧
    (parseU32 s = some n → isDigits s = true ∧ n = decValue s ∧ n < 2 ^ 32) ∧
    (parseU64 s = some n → isDigits s = true ∧ n = decValue s ∧ n < 2 ^ 64) := by
  refine ⟨?_, ?_, ?_, ?_⟩
  · rw [parseU8_spec]; split
    · rename_i hc; intro h; cases h; exact ⟨hc.1, rfl, by have := hc.2; omega⟩
    · intro h; cases h
  · rw [parseU16_spec]; split
    · rename_i hc; intro h; cases h; exact ⟨hc.1, rfl, by have := hc.2; omega⟩
    · intro h; cases h
  · rw [parseU32_spec]; split
    · rename_i hc; intro h; cases h; exact ⟨hc.1, rfl, by have := hc.2; omega⟩
    · intro h; cases h
  · rw [parseU64_spec]; split
    · rename_i hc; intro h; cases h; exact ⟨hc.1, rfl, by have := hc.2; unfold u64max at this; omega⟩
    · intro h; cases h

/-- the defect that was repaired: the server closes inside a multi-line reply -/
example : (recv {} { stream := str "220-a\r\n", sizes := [], fin := .eof }).1 = .error ∧
    (recv {} { stream := str "220-a\r\n", sizes := [], fin := .eof }).2.2.readsAtEnd = 1 := by decide

end Ftp.Props.C08
