import Ftp.Model.App
/- helper lemmas about the interactive client model (`Ftp.App`) used by `Ftp.Props.C20` -/
namespace Ftp.App.L
open Ftp Ftp.Client Ftp.App Ftp.Cmd

/-! ### the client never stays connected after `disconnect false` -/

theorem disconnect_false_connected (w : World) : (Client.disconnect false w).2.connected = false := by
  cases h : w.connected <;>
    simp [Client.disconnect, bind, pure, getW, ctlClose, emit, modifyW, h]

/-! ### what `client m` leaves alone -/

def AppRes.isEof {α} : AppRes α → Bool
  | .eof => true
  | _ => false

theorem client_spec {α} (m : M α) (w : AppWorld) :
    (client m w).2.stdin = w.stdin ∧ (client m w).2.ended = w.ended ∧ (client m w).2.status = w.status ∧
    (client m w).2.fs = w.fs ∧ AppRes.isEof (client m w).1 = false := by
  unfold client
  rcases h : m { w.client with trace := [] } with ⟨r, c⟩
  cases r <;> simp [AppRes.isEof]

theorem client_stdin {α} (m : M α) (w : AppWorld) : (client m w).2.stdin = w.stdin := (client_spec m w).1
theorem client_ended {α} (m : M α) (w : AppWorld) : (client m w).2.ended = w.ended := (client_spec m w).2.1
theorem client_status {α} (m : M α) (w : AppWorld) : (client m w).2.status = w.status := (client_spec m w).2.2.1
theorem client_fs {α} (m : M α) (w : AppWorld) : (client m w).2.fs = w.fs := (client_spec m w).2.2.2.1
theorem client_not_eof {α} (m : M α) (w : AppWorld) : AppRes.isEof (client m w).1 = false :=
  (client_spec m w).2.2.2.2

/-! ### programs that only pop input lines -/

/-- `w'` is `w` after some input lines were consumed; the loop flags are untouched -/
structure Pop (w w' : AppWorld) : Prop where
  ended : w'.ended = w.ended
  status : w'.status = w.status
  suffix : ∃ pre, w.stdin = pre ++ w'.stdin

theorem Pop.refl (w : AppWorld) : Pop w w := ⟨rfl, rfl, [], rfl⟩

theorem Pop.trans {a b c : AppWorld} (h1 : Pop a b) (h2 : Pop b c) : Pop a c := by
  obtain ⟨p1, hp1⟩ := h1.suffix
  obtain ⟨p2, hp2⟩ := h2.suffix
  exact ⟨h2.ended.trans h1.ended, h2.status.trans h1.status, p1 ++ p2, by rw [hp1, hp2, List.append_assoc]⟩

theorem Pop.of_eq {w w' : AppWorld} (h1 : w'.stdin = w.stdin) (h2 : w'.ended = w.ended)
    (h3 : w'.status = w.status) : Pop w w' := ⟨h2, h3, [], by simp [h1]⟩

/-- a program only pops input lines, keeps the loop flags, and reports end of input only when the input is empty -/
def Good {α} (m : A α) : Prop := ∀ w, Pop w (m w).2 ∧ (AppRes.isEof (m w).1 = true → (m w).2.stdin = [])

theorem good_pure {α} (a : α) : Good (pure a : A α) := fun w => ⟨Pop.refl w, by simp [pure, AppRes.isEof]⟩

theorem bind_apply {α β} (m : A α) (f : α → A β) (w : AppWorld) :
    (m >>= f) w = (match m w with
      | (.ok a, w') => f a w'
      | (.cmdErr e, w') => (.cmdErr e, w')
      | (.ftpErr, w') => (.ftpErr, w')
      | (.eof, w') => (.eof, w')) := rfl

theorem good_bind {α β} (m : A α) (f : α → A β) (hm : Good m) (hf : ∀ a, Good (f a)) : Good (m >>= f) := by
  intro w
  have h1 := hm w
  rw [bind_apply]
  rcases h : m w with ⟨r, w1⟩
  rw [h] at h1
  cases r with
  | ok a => exact ⟨h1.1.trans (hf a w1).1, (hf a w1).2⟩
  | cmdErr e => exact ⟨h1.1, by simp [AppRes.isEof]⟩
  | ftpErr => exact ⟨h1.1, by simp [AppRes.isEof]⟩
  | eof => exact ⟨h1.1, fun _ => h1.2 rfl⟩

theorem good_getA : Good getA := fun w => ⟨Pop.refl w, by simp [getA, AppRes.isEof]⟩

theorem good_modifyA (f : AppWorld → AppWorld)
    (h : ∀ w, (f w).stdin = w.stdin ∧ (f w).ended = w.ended ∧ (f w).status = w.status) : Good (modifyA f) :=
  fun w => ⟨Pop.of_eq (h w).1 (h w).2.1 (h w).2.2, by simp [modifyA, AppRes.isEof]⟩

theorem good_print (b : Bytes) : Good (print b) := good_modifyA _ fun _ => ⟨rfl, rfl, rfl⟩
theorem good_println (s : String) : Good (println s) := good_print _

theorem good_fail {α} (msg : Bytes) : Good (fail msg : A α) := fun w => ⟨Pop.refl w, by simp [fail, AppRes.isEof]⟩
theorem good_failS {α} (s : String) : Good (failS s : A α) := good_fail _

theorem good_ftpErr {α} : Good (fun w => (AppRes.ftpErr, w) : A α) := fun w => ⟨Pop.refl w, by simp [AppRes.isEof]⟩

theorem good_readLine (p : String) : Good (readLine p) := by
  intro w
  unfold readLine
  cases h : w.stdin with
  | nil => simp [AppRes.isEof]; exact Pop.of_eq (by simp [h]) rfl rfl
  | cons l rest => simp [AppRes.isEof]; exact ⟨rfl, rfl, [l], by simp [h]⟩

theorem good_client {α} (m : M α) : Good (client m) := fun w =>
  ⟨Pop.of_eq (client_stdin m w) (client_ended m w) (client_status m w), by simp [client_not_eof]⟩

theorem good_needConnection : Good needConnection := by
  unfold needConnection
  apply good_bind _ _ good_getA
  intro w
  split
  · exact good_failS _
  · exact good_pure _

theorem good_oneArg (args : List Bytes) (p u : String) : Good (oneArg args p u) := by
  unfold oneArg
  split
  · exact good_readLine _
  · exact good_pure _
  · exact good_failS _

theorem good_optArg (args : List Bytes) (u : String) : Good (optArg args u) := by
  unfold optArg
  split
  · exact good_pure _
  · exact good_pure _
  · exact good_failS _

theorem good_ite {α} (c : Prop) [Decidable c] (t e : A α) (ht : Good t) (he : Good e) : Good (if c then t else e) := by
  split <;> assumption

macro "good_atom" : tactic => `(tactic| with_reducible (first
  | exact good_pure _ | exact good_getA | exact good_readLine _ | exact good_client _ | exact good_needConnection
  | exact good_oneArg _ _ _ | exact good_optArg _ _ | exact good_failS _ | exact good_fail _ | exact good_println _
  | exact good_print _ | exact good_ftpErr | exact good_modifyA _ (fun _ => ⟨rfl, rfl, rfl⟩)
  | apply good_bind | intro _))

macro "good_tac" : tactic => `(tactic| repeat (first | good_atom | apply good_ite | split))

theorem good_handler_most (c : Command) (args : List Bytes) (h1 : c ≠ .get) (h2 : c ≠ .exit) :
    Good (handler c args) := by
  cases c <;> first | contradiction | (simp only [handler]; good_tac)

theorem good_exit (args : List Bytes) : Good (handler .exit args) := by
  simp only [handler]
  intro w
  simp only []
  split
  · have := client_spec (Client.disconnect true) w
    exact ⟨Pop.of_eq this.1 this.2.1 this.2.2.1, by simp [AppRes.isEof]⟩
  · exact ⟨Pop.refl w, by simp [AppRes.isEof]⟩

/-- the state in which `get` starts the transfer -/
def started (w : AppWorld) (loc : Bytes) : AppWorld :=
  { w with fs := w.fs ++ [(loc, some [])],
           client := { w.client with sink := [], sinkWrites := 0, sinkFlushes := 0, sinkFailAt := none,
                                     sinkSilent := false, polls := [], cancelled := false } }

/-- what `get` does once the file is created -/
def getRun (rem loc : Bytes) (w : AppWorld) : AppRes Unit × AppWorld :=
  let r := client (download rem true) (started w loc)
  let w' := { r.2 with fs := r.2.fs.map fun e => if e.1 = loc then (loc, some r.2.client.sink) else e }
  match r.1 with
  | .ok rs => if !rs.isPositive then (.ok (), { w' with fs := w'.fs.filter fun e => e.1 != loc }) else (.ok (), w')
  | .ftpErr => (.ftpErr, w')
  | .cmdErr e => (.cmdErr e, w')
  | .eof => (.eof, w')

def getBody (rem loc : Bytes) : A Unit := fun w =>
  if (lookupFs w.fs loc).isSome then (.cmdErr (str "File '" ++ loc ++ str "' already exists."), w)
  else if !creatable loc then (.cmdErr (str "Cannot create file '" ++ loc ++ str "'."), w)
  else getRun rem loc w

def getArgs (args : List Bytes) : A (Bytes × Bytes) :=
  match args with
  | [] => do let r ← readLine "remote-file: "; pure (r, filename r)
  | [r] => pure (r, filename r)
  | [r, l] => pure (r, l)
  | _ => failS "usage: get remote-file [ local-file ]"

theorem getBody_apply (rem loc : Bytes) (w : AppWorld) : getBody rem loc w =
  if (lookupFs w.fs loc).isSome then (.cmdErr (str "File '" ++ loc ++ str "' already exists."), w)
  else if !creatable loc then (.cmdErr (str "Cannot create file '" ++ loc ++ str "'."), w)
  else getRun rem loc w := rfl

theorem ite_apply_A {α} (c : Prop) [Decidable c] (t e : A α) (w : AppWorld) :
    (if c then t else e) w = if c then t w else e w := by split <;> rfl

theorem pure_apply {α} (a : α) (w : AppWorld) : (pure a : A α) w = (.ok a, w) := rfl

macro "get_tail_tac" : tactic => `(tactic| (
  simp only [pure_apply, getA, getBody_apply, ite_apply_A, fail, failS, bind_apply, modifyA]
  split
  · rfl
  split
  · rfl
  simp only [getRun, started]
  generalize client (download _ true) _ = r
  rcases r with ⟨r1, w3⟩
  cases r1 <;> simp only [] <;> first | rfl | (rename_i rs; cases rs.isPositive <;> rfl)))

theorem handler_get_apply (args : List Bytes) (w : AppWorld) :
    handler .get args w = (needConnection >>= fun _ => getArgs args >>= fun x => getBody x.1 x.2) w := by
  simp only [handler, bind_apply]
  rcases needConnection w with ⟨r, w1⟩
  cases r <;> simp only []
  unfold getArgs
  split
  · simp only [bind_apply]
    rcases readLine "remote-file: " w1 with ⟨r2, w2⟩
    cases r2 <;> simp only []
    get_tail_tac
  · get_tail_tac
  · get_tail_tac
  · simp only [bind_apply, failS, fail]


/-! ### `get` and the working directory -/

theorem getRun_spec (rem loc : Bytes) (w : AppWorld) :
    (getRun rem loc w).2.stdin = w.stdin ∧ (getRun rem loc w).2.ended = w.ended ∧
    (getRun rem loc w).2.status = w.status ∧ AppRes.isEof (getRun rem loc w).1 = false := by
  have h := client_spec (download rem true) (started w loc)
  unfold getRun
  generalize client (download rem true) (started w loc) = r at h
  rcases r with ⟨r1, w3⟩
  cases r1
  · simp only []
    split <;> (simp [AppRes.isEof, started] at h ⊢; exact ⟨h.1, h.2.1, h.2.2.1⟩)
  all_goals (simp [AppRes.isEof, started] at h ⊢ <;> exact ⟨h.1, h.2.1, h.2.2.1⟩)

theorem good_getBody (rem loc : Bytes) : Good (getBody rem loc) := by
  intro w
  rw [getBody_apply]
  split
  · exact ⟨Pop.refl w, by simp [AppRes.isEof]⟩
  split
  · exact ⟨Pop.refl w, by simp [AppRes.isEof]⟩
  have h := getRun_spec rem loc w
  exact ⟨Pop.of_eq h.1 h.2.1 h.2.2.1, by simp [h.2.2.2]⟩

theorem good_getArgs (args : List Bytes) : Good (getArgs args) := by
  unfold getArgs
  good_tac

theorem good_handler (c : Command) (args : List Bytes) : Good (handler c args) := by
  by_cases h1 : c = .get
  · subst h1
    intro w
    rw [handler_get_apply]
    exact good_bind _ _ good_needConnection
      (fun _ => good_bind _ _ (good_getArgs args) (fun x => good_getBody x.1 x.2)) w
  by_cases h2 : c = .exit
  · subst h2; exact good_exit args
  exact good_handler_most c args h1 h2

/-! ### `handle` -/

theorem handle_apply (c : Command) (args : List Bytes) (w : AppWorld) :
    handle c args w = (match handler c args w with
      | (.ftpErr, w') =>
        (.ftpErr, { w' with client := { ((Client.disconnect false) { w'.client with trace := [] }).2 with
            trace := w'.client.trace ++ ((Client.disconnect false) { w'.client with trace := [] }).2.trace } })
      | r => r) := rfl

theorem handle_of_ne {c : Command} {args : List Bytes} {w : AppWorld}
    (h : ∀ w', handler c args w ≠ (.ftpErr, w')) : handle c args w = handler c args w := by
  rw [handle_apply]
  split
  · rename_i w' heq; exact absurd heq (h w')
  · rfl

theorem handle_ftpErr {c : Command} {args : List Bytes} {w w' : AppWorld} (h : handle c args w = (.ftpErr, w')) :
    w'.client.connected = false := by
  rw [handle_apply] at h
  split at h
  · rename_i w1 heq
    injection h with _ h2
    rw [← h2]
    exact disconnect_false_connected _
  · rename_i r hne
    exact absurd h (hne w')

theorem handle_spec (c : Command) (args : List Bytes) (w : AppWorld) :
    (handle c args w).2.stdin = (handler c args w).2.stdin ∧ (handle c args w).2.ended = (handler c args w).2.ended ∧
    (handle c args w).2.status = (handler c args w).2.status ∧ (handle c args w).2.fs = (handler c args w).2.fs ∧
    AppRes.isEof (handle c args w).1 = AppRes.isEof (handler c args w).1 := by
  rw [handle_apply]
  split
  · rename_i w1 heq
    simp [heq, AppRes.isEof]
  · simp

theorem good_handle (c : Command) (args : List Bytes) : Good (handle c args) := by
  intro w
  have h := handle_spec c args w
  have g := good_handler c args w
  refine ⟨⟨h.2.1.trans g.1.ended, h.2.2.1.trans g.1.status, ?_⟩, ?_⟩
  · rw [h.1]; exact g.1.suffix
  · rw [h.1, h.2.2.2.2]; exact g.2

/-! ### the working directory under `get` -/

theorem lookupFs_none {fs : Fs} {loc : Bytes} (h : lookupFs fs loc = none) : ∀ e ∈ fs, e.1 ≠ loc := by
  unfold lookupFs at h
  simp only [Option.map_eq_none_iff, List.find?_eq_none, decide_eq_true_eq] at h
  exact h

theorem map_entry_id {fs : Fs} {loc : Bytes} (s : Bytes) (h : ∀ e ∈ fs, e.1 ≠ loc) :
    fs.map (fun e => if e.1 = loc then (loc, some s) else e) = fs := by
  induction fs with
  | nil => rfl
  | cons a t ih =>
    simp only [List.map_cons, if_neg (h a (by simp)), ih (fun e he => h e (by simp [he]))]

theorem filter_entry_id {fs : Fs} {loc : Bytes} (h : ∀ e ∈ fs, e.1 ≠ loc) :
    fs.filter (fun e => e.1 != loc) = fs := by
  rw [List.filter_eq_self]
  intro e he
  simpa using h e he

theorem getRun_fs (rem loc : Bytes) (w : AppWorld) (hn : lookupFs w.fs loc = none) :
    (∀ e ∈ w.fs, e ∈ (getRun rem loc w).2.fs) ∧
    (∀ rs w', client (download rem true) (started w loc) = (.ok rs, w') → rs.isPositive = false →
      (getRun rem loc w).2.fs = w.fs) := by
  have hne := lookupFs_none hn
  have h := client_fs (download rem true) (started w loc)
  unfold getRun
  generalize client (download rem true) (started w loc) = r at h
  rcases r with ⟨r1, w3⟩
  have hfs : w3.fs = w.fs ++ [(loc, some [])] := h
  have hmap : (w3.fs.map fun e => if e.1 = loc then (loc, some w3.client.sink) else e)
      = w.fs ++ [(loc, some w3.client.sink)] := by
    rw [hfs, List.map_append, map_entry_id _ hne]; simp
  have hfilter : ((w.fs ++ [(loc, some w3.client.sink)]).filter fun e => e.1 != loc) = w.fs := by
    rw [List.filter_append, filter_entry_id hne]; simp
  cases r1
  · rename_i rs
    simp only [hmap, hfilter]
    constructor
    · intro e he; split <;> simp [he]
    · intro rs' w' heq hneg
      injection heq with h1 _
      injection h1 with h1
      subst h1
      simp [hneg]
  all_goals (simp only [hmap]; exact ⟨fun e he => by simp [he], fun rs' w' heq => by simp at heq⟩)

theorem needConnection_apply (w : AppWorld) : needConnection w =
    if w.client.connected = true then (.ok (), w) else (.cmdErr (str "Connection is not open."), w) := by
  simp only [needConnection, bind_apply, getA, ite_apply_A, failS, fail, pure_apply]
  cases w.client.connected <;> rfl

theorem getArgs_fs (args : List Bytes) (w : AppWorld) : (getArgs args w).2.fs = w.fs := by
  unfold getArgs
  split
  · simp only [bind_apply, readLine]
    cases w.stdin <;> rfl
  · rfl
  · rfl
  · rfl

theorem getBody_fs (rem loc : Bytes) (w : AppWorld) : ∀ e ∈ w.fs, e ∈ (getBody rem loc w).2.fs := by
  rw [getBody_apply]
  split
  · exact fun e he => he
  split
  · exact fun e he => he
  rename_i h _
  exact (getRun_fs rem loc w (by simpa using h)).1

theorem handler_get_fs (args : List Bytes) (w : AppWorld) : ∀ e ∈ w.fs, e ∈ (handler .get args w).2.fs := by
  rw [handler_get_apply, bind_apply, needConnection_apply]
  by_cases hc : w.client.connected = true
  · rw [if_pos hc]
    simp only [bind_apply]
    have h := getArgs_fs args w
    generalize getArgs args w = r at h
    rcases r with ⟨r, w2⟩
    have h : w2.fs = w.fs := h
    cases r
    · intro e he; exact getBody_fs _ _ w2 e (h ▸ he)
    all_goals (intro e he; exact h ▸ he)
  · rw [if_neg hc]
    exact fun e he => he

theorem handler_get_two (rem loc : Bytes) (w : AppWorld) (hc : w.client.connected = true) :
    handler .get [rem, loc] w = getBody rem loc w := by
  rw [handler_get_apply, bind_apply, needConnection_apply, if_pos hc]
  rfl

/-! ### the loop -/

theorem handle_exit_stdin (args : List Bytes) (w : AppWorld) : (handle .exit args w).2.stdin = w.stdin := by
  rw [(handle_spec _ _ _).1]
  simp only [handler]
  split
  · exact client_stdin _ _
  · rfl

theorem step_nil (w : AppWorld) (h : w.stdin = []) :
    step w = { w with out := w.out ++ [Seg.text (str "ftp> ")], ended := true, status := 0 } := by
  simp only [step, h]

theorem step_cons (w : AppWorld) (line : Bytes) (rest : List Bytes) (h : w.stdin = line :: rest) :
    step w =
      (let w1 : AppWorld := { w with out := w.out ++ [Seg.text (str "ftp> ")], stdin := rest }
       if line.isEmpty then w1
       else
         match parseCommand line with
         | .invalid => { w1 with out := w1.out ++ [Seg.text (str "Invalid command." ++ [LF])] }
         | .ok c args =>
           match handle c args w1 with
           | (.ok _, w') => if c = Command.exit then { w' with ended := true, status := 0 } else w'
           | (.cmdErr m, w') => { w' with out := w'.out ++ [Seg.text (m ++ [LF])] }
           | (.ftpErr, w') => { w' with out := w'.out ++ [Seg.errorLine] }
           | (.eof, w') => { w' with ended := true, status := 0 }) := by
  simp only [step, h]
  rfl

/-- what one iteration does on a non-empty input: it goes on having popped at least the command line, or it ends
    with nothing left to read, or it ends because the line was `exit` (and only that line was consumed) -/
theorem step_cons_spec (w : AppWorld) (line : Bytes) (rest : List Bytes) (h : w.stdin = line :: rest)
    (h0 : w.ended = false) :
    ((step w).ended = false ∧ (step w).status = w.status ∧ ∃ pre, rest = pre ++ (step w).stdin) ∨
    ((step w).ended = true ∧ (step w).status = 0 ∧ (step w).stdin = []) ∨
    ((step w).ended = true ∧ (step w).status = 0 ∧ (step w).stdin = rest ∧
      ∃ args, parseCommand line = .ok .exit args) := by
  rw [step_cons w line rest h]
  simp only []
  by_cases hl : line.isEmpty = true
  · rw [if_pos hl]; exact .inl ⟨h0, rfl, [], rfl⟩
  rw [if_neg hl]
  cases hp : parseCommand line with
  | invalid => exact .inl ⟨h0, rfl, [], rfl⟩
  | ok c args =>
    simp only []
    generalize hw1 : ({ w with out := w.out ++ [Seg.text (str "ftp> ")], stdin := rest } : AppWorld) = w1
    have e1 : w1.ended = false := by rw [← hw1]; exact h0
    have e2 : w1.status = w.status := by rw [← hw1]
    have e3 : w1.stdin = rest := by rw [← hw1]
    have g := good_handle c args w1
    have hx : c = .exit → (handle c args w1).2.stdin = rest := by
      intro hc; subst hc; rw [handle_exit_stdin, e3]
    generalize handle c args w1 = r at g hx
    rcases r with ⟨r, w'⟩
    obtain ⟨⟨p1, p2, pre, p3⟩, geof⟩ := g
    simp only [e3] at p3
    cases r with
    | ok a =>
      simp only []
      by_cases hc : c = .exit
      · rw [if_pos hc]
        exact .inr (.inr ⟨rfl, rfl, hx hc, args, hc ▸ rfl⟩)
      · rw [if_neg hc]
        exact .inl ⟨p1.trans e1, p2.trans e2, pre, p3⟩
    | cmdErr m => exact .inl ⟨p1.trans e1, p2.trans e2, pre, p3⟩
    | ftpErr => exact .inl ⟨p1.trans e1, p2.trans e2, pre, p3⟩
    | eof => exact .inr (.inl ⟨rfl, rfl, geof rfl⟩)

theorem run_of_ended (n : Nat) (w : AppWorld) (h : w.ended = true) : run n w = w := by
  cases n <;> simp [run, h]

theorem run_spec : ∀ (n : Nat) (w : AppWorld), w.ended = false → w.status = 0 → w.stdin.length < n →
    (run n w).ended = true ∧ (run n w).status = 0 ∧
    ((run n w).stdin = [] ∨
      ∃ pre line args, w.stdin = pre ++ line :: (run n w).stdin ∧ parseCommand line = .ok .exit args) := by
  intro n
  induction n with
  | zero => intro w _ _ h; omega
  | succ n ih =>
    intro w h0 hs hlen
    have hrun : run (n + 1) w = run n (step w) := by simp [run, h0]
    rw [hrun]
    cases hstd : w.stdin with
    | nil =>
      have := step_nil w hstd
      have he : (step w).ended = true := by rw [this]
      rw [run_of_ended n _ he, this]
      exact ⟨rfl, rfl, .inl hstd⟩
    | cons line rest =>
      rcases step_cons_spec w line rest hstd h0 with ⟨e1, e2, pre, e3⟩ | ⟨e1, e2, e3⟩ | ⟨e1, e2, e3, args, e4⟩
      · have hl : (step w).stdin.length < n := by
          have : w.stdin.length = (pre ++ (step w).stdin).length + 1 := by rw [hstd, e3]; simp
          simp at this; omega
        obtain ⟨r1, r2, r3⟩ := ih (step w) e1 (e2.trans hs) hl
        refine ⟨r1, r2, ?_⟩
        rcases r3 with r3 | ⟨pre', line', args', r3, r4⟩
        · exact .inl r3
        · refine .inr ⟨line :: pre ++ pre', line', args', ?_, r4⟩
          rw [e3, r3]; simp
      · rw [run_of_ended n _ e1]; exact ⟨e1, e2, .inl e3⟩
      · rw [run_of_ended n _ e1]
        exact ⟨e1, e2, .inr ⟨[], line, args, by rw [e3]; rfl, e4⟩⟩

end Ftp.App.L

