import Ftp.Spec.Pure
/- helper lemmas about the command-line parser model (`Ftp.Cmd`) used by `Ftp.Props.C19` -/
namespace Ftp.Cmd
open Ftp

/-! ### case folding -/

def isLowerName (n : Bytes) : Prop := ∀ b ∈ n, 97 ≤ b ∧ b ≤ 122

instance (n : Bytes) : Decidable (isLowerName n) := by unfold isLowerName; infer_instance

theorem toUpper_eq_iff (a b : Nat) (hb : 97 ≤ b ∧ b ≤ 122) :
    toUpper a = toUpper b ↔ Spec.asciiLower a = b := by
  unfold toUpper Spec.asciiLower
  simp only [Bool.and_eq_true, decide_eq_true_eq]
  unfold Byte
  split <;> split <;> omega

theorem iequals_iff (tok n : Bytes) (hn : isLowerName n) :
    iequals tok n = true ↔ tok.map Spec.asciiLower = n := by
  unfold iequals
  induction tok generalizing n with
  | nil => cases n <;> simp
  | cons a t ih =>
    cases n with
    | nil => simp
    | cons b n' =>
      have hb : 97 ≤ b ∧ b ≤ 122 := hn b (by simp)
      have hn' : isLowerName n' := fun x hx => hn x (by simp [hx])
      have := ih n' hn'
      simp only [beq_iff_eq] at this
      simp only [List.map_cons, beq_iff_eq, List.cons.injEq, toUpper_eq_iff a b hb, this]

theorem isSpace_false_of_lower (b : Nat) (h : 97 ≤ Spec.asciiLower b ∧ Spec.asciiLower b ≤ 122) :
    isSpace b = false := by
  unfold Spec.asciiLower at h
  unfold isSpace
  simp only [Bool.and_eq_true, decide_eq_true_eq] at h
  simp only [Bool.or_eq_false_iff, Bool.and_eq_false_iff, decide_eq_false_iff_not]
  unfold Byte at h ⊢
  split at h <;> omega

/-! ### the verb table -/

theorem verbTable_lower : ∀ p ∈ verbTable, isLowerName (str p.1) := by decide

theorem verbTable_name : ∀ p ∈ verbTable, str p.2.name = str p.1 := by decide

theorem name_lower (c : Command) : isLowerName (str c.name) := by cases c <;> decide

theorem name_ne_nil (c : Command) : str c.name ≠ [] := by cases c <;> decide

theorem find_name (c : Command) :
    (match verbTable.find? (fun p => str c.name == str p.1) with
      | some p => some p.2
      | none => none) = some c := by
  cases c <;> decide

theorem find_congr {α : Type} (l : List α) (p q : α → Bool) (h : ∀ x ∈ l, p x = q x) :
    l.find? p = l.find? q := by
  induction l with
  | nil => rfl
  | cons a t ih =>
    have ha := h a (by simp)
    have := ih (fun x hx => h x (by simp [hx]))
    simp only [List.find?_cons, ha, this]

theorem commandFromString_eq (tok : Bytes) :
    commandFromString tok =
      match verbTable.find? (fun p => tok.map Spec.asciiLower == str p.1) with
      | some p => some p.2
      | none => none := by
  unfold commandFromString
  congr 1
  apply find_congr
  intro p hp
  have := iequals_iff tok (str p.1) (verbTable_lower p hp)
  rw [Bool.eq_iff_iff, this, beq_iff_eq]

theorem commandFromString_iff (tok : Bytes) (c : Command) :
    commandFromString tok = some c ↔ tok.map Spec.asciiLower = str c.name := by
  rw [commandFromString_eq]
  constructor
  · intro h
    split at h
    · rename_i p hf
      have hmem := List.mem_of_find?_eq_some hf
      have hp := List.find?_some hf
      simp only [beq_iff_eq] at hp
      simp only [Option.some.injEq] at h
      rw [hp, ← h, verbTable_name p hmem]
    · cases h
  · intro h
    rw [h]
    exact find_name c

/-! ### white space and words -/

theorem skipWs_append_space (ws rest : Bytes) (h : ∀ b ∈ ws, isSpace b = true) :
    skipWs (ws ++ rest) = skipWs rest := by
  induction ws with
  | nil => rfl
  | cons c t ih =>
    have hc := h c (by simp)
    simp only [List.cons_append, skipWs, hc, if_true]
    exact ih (fun b hb => h b (by simp [hb]))

theorem skipWs_all_space (ws : Bytes) (h : ∀ b ∈ ws, isSpace b = true) : skipWs ws = [] := by
  have := skipWs_append_space ws [] h
  simpa [skipWs] using this

theorem skipWs_cons_nonspace (c : Byte) (t : Bytes) (h : isSpace c = false) :
    skipWs (c :: t) = c :: t := by
  simp [skipWs, h]

/-- `rest` is empty or starts with white space -/
def startsSpace (rest : Bytes) : Prop := ∀ c ∈ rest.head?, isSpace c = true

theorem takeWord_startsSpace (rest : Bytes) (hr : startsSpace rest) : takeWord rest = ([], rest) := by
  cases rest with
  | nil => rfl
  | cons c t =>
    have : isSpace c = true := hr c (by simp)
    simp [takeWord, this]

theorem takeWord_append (w rest : Bytes) (hw : ∀ b ∈ w, isSpace b = false) (hr : startsSpace rest) :
    takeWord (w ++ rest) = (w, rest) := by
  induction w with
  | nil => exact takeWord_startsSpace rest hr
  | cons c t ih =>
    have hc := hw c (by simp)
    have := ih (fun b hb => hw b (by simp [hb]))
    simp [takeWord, hc, this]

theorem startsSpace_append (s rest : Bytes) (hs : ∀ b ∈ s, isSpace b = true) (hr : startsSpace rest) :
    startsSpace (s ++ rest) := by
  cases s with
  | nil => exact hr
  | cons c t =>
    intro x hx
    simp only [List.cons_append, List.head?_cons, Option.mem_def, Option.some.injEq] at hx
    subst hx
    exact hs c (by simp)

theorem startsSpace_of_all (s : Bytes) (hs : ∀ b ∈ s, isSpace b = true) : startsSpace s := by
  have := startsSpace_append s [] hs (by intro c hc; simp at hc)
  simpa using this

/-! ### quoting -/

theorem quotedBody_escape (a rest acc : Bytes) :
    quotedBody (Spec.escape a ++ 34 :: rest) false acc = some (acc ++ a, rest) := by
  induction a generalizing acc with
  | nil => simp [Spec.escape, quotedBody]
  | cons c t ih =>
    unfold Spec.escape
    by_cases h : c = 34 ∨ c = 92
    · simp only [h, if_true, List.cons_append, quotedBody]
      simp [ih]
    · have h1 : c ≠ 34 := fun e => h (Or.inl e)
      have h2 : c ≠ 92 := fun e => h (Or.inr e)
      simp [quotedBody, h1, h2, ih]

theorem extractQuoted_quote (sep a rest : Bytes) (hsep : ∀ b ∈ sep, isSpace b = true) :
    extractQuoted (sep ++ Spec.quote a ++ rest) = some (a, rest) := by
  unfold extractQuoted Spec.quote
  have : sep ++ ([34] ++ Spec.escape a ++ [34]) ++ rest = sep ++ (34 :: (Spec.escape a ++ 34 :: rest)) := by
    simp
  rw [this, skipWs_append_space _ _ hsep, skipWs_cons_nonspace _ _ (by decide)]
  simp [quotedBody_escape]

theorem extractQuoted_all_space (s : Bytes) (hs : ∀ b ∈ s, isSpace b = true) : extractQuoted s = none := by
  unfold extractQuoted
  rw [skipWs_all_space s hs]

end Ftp.Cmd
