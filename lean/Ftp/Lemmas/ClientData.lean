import Ftp.Spec.Session
import Ftp.Props.C05
/-
  Helper lemmas for C03 / C04 / C12: symbolic execution of the data-transfer programs of `Ftp.Model.Client`.
-/
namespace Ftp.Client.DataL
open Ftp Ftp.Client Ftp.Session Ftp.Ascii

variable {α β : Type}

theorem bind_eq (m : M α) (f : α → M β) (w : World) :
    (m >>= f) w = match m w with
      | (.ok a, w') => f a w'
      | (.throw, w') => (.throw, w') := rfl

theorem bind_ok {m : M α} {f : α → M β} {w w' : World} {a : α} (h : m w = (.ok a, w')) :
    (m >>= f) w = f a w' := by rw [bind_eq, h]

theorem bind_throw {m : M α} {f : α → M β} {w w' : World} (h : m w = (.throw, w')) :
    (m >>= f) w = (.throw, w') := by rw [bind_eq, h]

@[simp] theorem pure_run (a : α) (w : World) : (pure a : M α) w = (.ok a, w) := rfl
@[simp] theorem getW_run (w : World) : getW w = (.ok w, w) := rfl
@[simp] theorem modifyW_run (g : World → World) (w : World) : modifyW g w = (.ok (), g w) := rfl
@[simp] theorem emit_run (e : Ev) (w : World) : emit e w = (.ok (), { w with trace := w.trace ++ [e] }) := rfl
@[simp] theorem throwE_run (w : World) : (throwE : M α) w = (.throw, w) := rfl
@[simp] theorem pure_bind_run (a : α) (f : α → M β) (w : World) : (pure a >>= f) w = f a w := rfl
@[simp] theorem getW_bind (f : World → M β) (w : World) : (getW >>= f) w = f w w := rfl
@[simp] theorem modifyW_bind (g : World → World) (f : Unit → M β) (w : World) : (modifyW g >>= f) w = f () (g w) := rfl
@[simp] theorem emit_bind (e : Ev) (f : Unit → M β) (w : World) :
    (emit e >>= f) w = f () { w with trace := w.trace ++ [e] } := rfl
@[simp] theorem throwE_bind (f : α → M β) (w : World) : ((throwE : M α) >>= f) w = (.throw, w) := rfl
@[simp] theorem ite_run (c : Prop) [Decidable c] (a b : M α) (w : World) :
    (if c then a else b) w = if c then a w else b w := by split <;> rfl
@[simp] theorem ite_bind (c : Prop) [Decidable c] (a b : M α) (f : α → M β) (w : World) :
    ((if c then a else b) >>= f) w = if c then (a >>= f) w else (b >>= f) w := by split <;> rfl

theorem added_of_trace (m : M α) (w : World) (l : List Ev) (h : (after m w).trace = w.trace ++ l) :
    added m w = l := by
  simp [added, h]

theorem poll_run (w : World) : poll w =
    (.ok (w.cancelled || w.polls.head?.getD false),
     { w with polls := w.polls.tail, cancelled := (w.cancelled || w.polls.head?.getD false),
              trace := w.trace ++ [.cbPoll (w.cancelled || w.polls.head?.getD false)] }) := rfl

theorem sinkWrite_run (bs : Bytes) (w : World) : sinkWrite bs w =
    if w.sinkFailAt = some w.sinkWrites then
      (.throw, { w with sinkWrites := w.sinkWrites + 1, trace := w.trace ++ [.sinkWriteFail] })
    else
      (.ok (), { w with sinkWrites := w.sinkWrites + 1, sink := w.sink ++ bs,
                        trace := w.trace ++ (if w.sinkSilent then [] else [.sinkWrite bs.length]) }) := by
  unfold sinkWrite
  by_cases h : w.sinkFailAt = some w.sinkWrites
  · simp [h]
  · cases hs : w.sinkSilent <;> simp [h, hs]

theorem recvLoop_zero (cb t d payload prev w) : recvLoop cb t d 0 payload prev w = (.ok (prev, false), w) := rfl

theorem recvLoop_err (cb t d fuel payload prev) (w : World) (h : w.dataReads.head?.getD (some 0) = none) :
    recvLoop cb t d (fuel+1) payload prev w =
      (.ok (prev, true), { w with dataReads := w.dataReads.tail, trace := w.trace ++ [.dataReadErr d] }) := by
  rw [recvLoop]
  simp [h]

theorem recvLoop_eof (cb t d fuel payload prev) (w : World) (h : w.dataReads.head?.getD (some 0) = some 0) :
    recvLoop cb t d (fuel+1) payload prev w =
      (.ok (prev, false), { w with dataReads := w.dataReads.tail, trace := w.trace ++ [.dataRead d 0] }) := by
  rw [recvLoop]
  simp [h]


theorem bind_assoc_run {γ : Type} (m : M α) (g : α → M β) (f : β → M γ) (w : World) :
    ((m >>= g) >>= f) w = (m >>= fun a => g a >>= f) w := by
  rw [bind_eq, bind_eq, bind_eq]
  rcases m w with ⟨r | _, w'⟩ <;> rfl

theorem forObservers_run (f : Nat → Ev) (w : World) :
    forObservers f w = (.ok (), { w with trace := w.trace ++ w.observers.map f }) := rfl

theorem forObservers_bind (f : Nat → Ev) (g : Unit → M β) (w : World) :
    (forObservers f >>= g) w = g () { w with trace := w.trace ++ w.observers.map f } := rfl

theorem ctlClose_run (w : World) : ctlClose w =
    (.ok (), { w with connected := false, trace := w.trace ++ [.ctlShutdown] ++ [.ctlClose] }) := rfl

theorem ctlClose_bind (g : Unit → M β) (w : World) : (ctlClose >>= g) w =
    g () { w with connected := false, trace := w.trace ++ [.ctlShutdown] ++ [.ctlClose] } := rfl

/-- symbolic execution of the primitives of `M` -/
syntax "msimp" ("[" Lean.Parser.Tactic.simpLemma,* "]")? (Lean.Parser.Tactic.location)? : tactic
macro_rules
  | `(tactic| msimp) => `(tactic| simp only [pure_run, getW_run, modifyW_run, emit_run, throwE_run, pure_bind_run,
      getW_bind, modifyW_bind, emit_bind, throwE_bind, ite_run, ite_bind, bind_assoc_run, forObservers_run,
      forObservers_bind, ctlClose_run, ctlClose_bind, Bool.false_eq_true, if_false, if_true])
  | `(tactic| msimp $loc:location) => `(tactic| simp only [pure_run, getW_run, modifyW_run, emit_run, throwE_run,
      pure_bind_run, getW_bind, modifyW_bind, emit_bind, throwE_bind, ite_run, ite_bind, bind_assoc_run, forObservers_run,
      forObservers_bind, ctlClose_run, ctlClose_bind, Bool.false_eq_true, if_false,
      if_true] $loc)
  | `(tactic| msimp [$ts,*]) => `(tactic| simp only [pure_run, getW_run, modifyW_run, emit_run, throwE_run,
      pure_bind_run, getW_bind, modifyW_bind, emit_bind, throwE_bind, ite_run, ite_bind, bind_assoc_run, forObservers_run,
      forObservers_bind, ctlClose_run, ctlClose_bind, Bool.false_eq_true, if_false,
      if_true, $ts,*])
  | `(tactic| msimp [$ts,*] $loc:location) => `(tactic| simp only [pure_run, getW_run, modifyW_run, emit_run,
      throwE_run, pure_bind_run, getW_bind, modifyW_bind, emit_bind, throwE_bind, ite_run, ite_bind, bind_assoc_run, forObservers_run,
      forObservers_bind, ctlClose_run, ctlClose_bind, Bool.false_eq_true,
      if_false, if_true, $ts,*] $loc)

theorem recvLoop_empty (cb t d fuel payload prev) (w : World) (n0 : Nat) (h : w.dataReads.head?.getD (some 0) = some n0)
    (hb : (payload.take (min n0 8192)).isEmpty = true) :
    recvLoop cb t d (fuel+1) payload prev w =
      (.ok (prev, false), { w with dataReads := w.dataReads.tail, trace := w.trace ++ [.dataRead d 0] }) := by
  rw [recvLoop]
  cases n0 with
  | zero => msimp [h]
  | succ n => msimp [h, hb]

theorem recvLoop_block (cb t d fuel payload prev) (w : World) (n0 : Nat) (h : w.dataReads.head?.getD (some 0) = some n0)
    (hb : (payload.take (min n0 8192)).isEmpty = false) :
    recvLoop cb t d (fuel+1) payload prev w =
      (streamWrite t prev (payload.take (min n0 8192)) >>= fun p =>
        if cb then
          (emit (.cbNotify (payload.take (min n0 8192)).length) >>= fun _ =>
           poll >>= fun c => if c then pure (p, false) else recvLoop cb t d fuel (payload.drop (min n0 8192)) p)
        else recvLoop cb t d fuel (payload.drop (min n0 8192)) p)
      { w with dataReads := w.dataReads.tail, trace := w.trace ++ [.dataRead d (payload.take (min n0 8192)).length] } := by
  rw [recvLoop]
  cases n0 with
  | zero => simp at hb
  | succ n => 
    msimp [h, hb]

/-! ### more primitives -/

theorem sinkFlush_run (w : World) : sinkFlush w =
    (.ok (), { w with sinkFlushes := w.sinkFlushes + 1,
                      trace := w.trace ++ (if w.sinkSilent then [] else [.sinkFlush]) }) := by
  unfold sinkFlush
  cases hs : w.sinkSilent <;> msimp [hs] <;> simp

/-- what one block becomes on its way to the sink, and the new `prev_cr_` -/
def conv (t : TType) (prev : Bool) (block : Bytes) : Bytes × Bool :=
  match t with
  | .binary => (block, false)
  | .ascii => Ascii.write prev block

theorem streamWrite_eq (t : TType) (prev : Bool) (block : Bytes) (w : World) :
    streamWrite t prev block w = (sinkWrite (conv t prev block).1 >>= fun _ => pure (conv t prev block).2) w := by
  cases t <;> rfl

theorem streamWrite_run (t : TType) (prev : Bool) (block : Bytes) (w : World) : streamWrite t prev block w =
    if w.sinkFailAt = some w.sinkWrites then
      (.throw, { w with sinkWrites := w.sinkWrites + 1, trace := w.trace ++ [.sinkWriteFail] })
    else
      (.ok (conv t prev block).2,
        { w with sinkWrites := w.sinkWrites + 1, sink := w.sink ++ (conv t prev block).1,
                 trace := w.trace ++ (if w.sinkSilent then [] else [.sinkWrite (conv t prev block).1.length]) }) := by
  rw [streamWrite_eq, bind_eq, sinkWrite_run]
  by_cases h : w.sinkFailAt = some w.sinkWrites
  · simp only [h, if_true]
  · simp only [h, if_false]; rfl

/-- the bytes `streamFlush` still hands to the sink -/
def flushBytes (t : TType) (prev : Bool) : Bytes :=
  match t with
  | .binary => []
  | .ascii => if prev then [CR] else []

theorem streamFlush_ok (t : TType) (prev : Bool) (w : World) (h : w.sinkFailAt = none) :
    ∃ w', streamFlush t prev w = (.ok (), w') ∧ w'.sink = w.sink ++ flushBytes t prev ∧
      w'.sinkFlushes = w.sinkFlushes + 1 ∧ w'.dataReads = w.dataReads ∧
      (t = .binary → w'.trace = w.trace ++ (if w.sinkSilent then [] else [.sinkFlush])) := by
  unfold streamFlush
  cases t with
  | binary =>
    msimp [sinkFlush_run]
    exact ⟨_, rfl, by simp [flushBytes], rfl, rfl, fun _ => rfl⟩
  | ascii =>
    cases prev with
    | false =>
      msimp [sinkFlush_run]
      exact ⟨_, rfl, by simp [flushBytes], rfl, rfl, fun h => by cases h⟩
    | true =>
      msimp [bind_eq, sinkWrite_run, h, sinkFlush_run]
      simp only [reduceCtorEq, if_false]
      exact ⟨_, rfl, by simp [flushBytes], rfl, rfl, fun h => by cases h⟩

theorem srcRead_run (n : Nat) (w : World) : srcRead n w =
    if w.srcFailAt = some w.srcReads then
      (.throw, { w with srcReads := w.srcReads + 1, trace := w.trace ++ [.srcFail] })
    else
      (.ok (w.src.read n).1, { w with srcReads := w.srcReads + 1, src := (w.src.read n).2,
                                      trace := w.trace ++ [.srcRead n (w.src.read n).1.length] }) := by
  unfold srcRead
  by_cases h : w.srcFailAt = some w.srcReads
  · msimp [h]; simp
  · msimp [h]; simp [h]

theorem dataWrite_run (d : Nat) (block : Bytes) (w : World) : dataWrite d block w =
    if w.blockOks.head?.getD true = true then
      (.ok (), { w with blockOks := w.blockOks.tail, peerGot := w.peerGot ++ block,
                        trace := w.trace ++ [.dataWrite d block.length] })
    else
      (.throw, { w with blockOks := w.blockOks.tail, trace := w.trace ++ [.dataWriteErr d] }) := by
  unfold dataWrite
  cases h : w.blockOks.head?.getD true <;> msimp [h]

theorem closeD_run (d : Nat) (w : World) : closeD d w =
    (.ok (w.closeFails.head?.getD false),
      { w with closeFails := w.closeFails.tail, trace := w.trace ++ [.dataClose d] }) := rfl

/-! ### download without a callback -/

/-- the number of payload bytes a sequence of reads consumes (a read returns at most 8192 bytes) -/
def cut (reads : List Nat) : Nat := (reads.map (min · 8192)).sum

/-- events of an undisturbed binary download into an audible sink -/
def recvEvs (d : Nat) (reads : List Nat) : List Ev :=
  (reads.map fun n => [Ev.dataRead d (min n 8192), Ev.sinkWrite (min n 8192)]).flatten

theorem cut_le_sum (reads : List Nat) : cut reads ≤ reads.sum := by
  induction reads with
  | nil => simp [cut]
  | cons n rs ih => simp only [cut, List.map_cons, List.sum_cons] at ih ⊢; omega

theorem cut_eq_sum (reads : List Nat) (h : ∀ n ∈ reads, n ≤ 8192) : cut reads = reads.sum := by
  induction reads with
  | nil => simp [cut]
  | cons n rs ih =>
    have h1 := h n (by simp)
    have h2 := ih (fun m hm => h m (by simp [hm]))
    simp only [cut, List.map_cons, List.sum_cons] at h2 ⊢
    omega

theorem recvLoop_prefix (t : TType) (d : Nat) : ∀ (reads : List Nat) (k : Nat) (payload : Bytes) (prev : Bool)
    (w : World) (rest : List (Option Nat)),
    w.dataReads = reads.map some ++ rest → (∀ n ∈ reads, 0 < n) → reads.sum ≤ payload.length →
    w.sinkFailAt = none →
    ∃ prev' w', recvLoop false t d (reads.length + k) payload prev w
        = recvLoop false t d k (payload.drop (cut reads)) prev' w' ∧
      w'.dataReads = rest ∧ w'.sinkFailAt = none ∧ w'.sinkFlushes = w.sinkFlushes ∧ w'.sinkSilent = w.sinkSilent ∧
      (t = .binary → w'.sink = w.sink ++ payload.take (cut reads)) ∧
      (t = .binary → w.sinkSilent = false → w'.trace = w.trace ++ recvEvs d reads) ∧
      (t = .ascii → w'.sink ++ dlRest prev' (payload.drop (cut reads)) = w.sink ++ dlRest prev payload) := by
  intro reads
  induction reads with
  | nil =>
    intro k payload prev w rest h _ _ hs
    refine ⟨prev, w, ?_, ?_, hs, rfl, rfl, ?_, ?_, ?_⟩
    · simp [cut]
    · simpa using h
    · intro _; simp [cut]
    · intro _ _; simp [recvEvs]
    · intro _; simp [cut]
  | cons n rs ih =>
    intro k payload prev w rest h hpos hlen hs
    have hn : 0 < n := hpos n (by simp)
    simp only [List.sum_cons] at hlen
    have hm : 0 < min n 8192 := by omega
    have hhd : w.dataReads.head?.getD (some 0) = some n := by rw [h]; rfl
    have hb : (payload.take (min n 8192)).isEmpty = false := by
      cases hp : payload with
      | nil => rw [hp] at hlen; simp at hlen; omega
      | cons a p =>
        obtain ⟨m, hm'⟩ : ∃ m, min n 8192 = m + 1 := ⟨min n 8192 - 1, by omega⟩
        rw [hm']; rfl
    have hfuel : (n :: rs).length + k = (rs.length + k) + 1 := by simp only [List.length_cons]; omega
    have hne : ¬ (w.sinkFailAt = some w.sinkWrites) := by rw [hs]; simp
    rw [hfuel, recvLoop_block false t d _ payload prev w n hhd hb, bind_eq, streamWrite_run, if_neg hne]
    simp only [Bool.false_eq_true, if_false]
    have hdr : (payload.drop (min n 8192)).length = payload.length - min n 8192 := by simp
    obtain ⟨prev', w', h1, h2, h3, h4, h5, h6, h7, h8⟩ := ih k (payload.drop (min n 8192)) (conv t prev (payload.take (min n 8192))).2
      { w with dataReads := w.dataReads.tail,
               sinkWrites := w.sinkWrites + 1, sink := w.sink ++ (conv t prev (payload.take (min n 8192))).1,
               trace := w.trace ++ [.dataRead d (payload.take (min n 8192)).length] ++
                  (if w.sinkSilent then [] else [.sinkWrite (conv t prev (payload.take (min n 8192))).1.length]) }
      rest (by simp [h]) (fun m hm => hpos m (by simp [hm])) (by rw [hdr]; omega) hs
    have hcut : cut (n :: rs) = min n 8192 + cut rs := by simp [cut]
    refine ⟨prev', w', ?_, h2, h3, h4, h5, ?_, ?_, ?_⟩
    · rw [h1, hcut, List.drop_drop]
    · intro ht
      rw [h6 ht, hcut, List.take_add]
      subst ht
      simp [conv]
    · intro ht hsil
      have := h7 ht hsil
      rw [this]
      subst ht
      have hl : (payload.take (min n 8192)).length = min n 8192 := by
        rw [List.length_take]; omega
      simp [conv, hsil, recvEvs, hl]
    · intro ht
      subst ht
      rw [hcut, ← List.drop_drop, h8 rfl]
      simp only [conv, List.append_assoc]
      have := writeGo_spec (payload.take (min n 8192)) prev [] (payload.drop (min n 8192))
      simp only [List.nil_append, List.take_append_drop] at this
      rw [write, this]

/-- the descriptor and the payload `dataRecv` / `dataSend` work with -/
def dOf (w : World) : Nat := match w.conn with | some c => c.sock.getD 0 | none => 0
def payloadOf (w : World) : Bytes := match w.act with | some (.send p) => p | _ => []


theorem bind_pure_unit (m : M Unit) (w : World) : (m >>= fun _ => pure ()) w = m w := by
  rw [bind_eq]
  rcases m w with ⟨r | _, w'⟩ <;> rfl

theorem dataRecv_nocb_ok (t : TType) (w w1 : World) (p failed : Bool)
    (h : recvLoop false t (dOf w) (w.dataReads.length + 1) (payloadOf w) false w = (.ok (p, failed), w1)) :
    dataRecv false t w = if failed then (.throw, w1) else streamFlush t p w1 := by
  unfold dataRecv
  msimp
  rw [bind_eq]
  erw [h]
  cases failed
  · msimp [bind_pure_unit]
  · msimp

theorem dataRecv_nocb_throw (t : TType) (w w1 : World)
    (h : recvLoop false t (dOf w) (w.dataReads.length + 1) (payloadOf w) false w = (.throw, w1)) :
    dataRecv false t w = (.throw, w1) := by
  unfold dataRecv
  msimp
  rw [bind_eq]
  erw [h]

theorem recvEvs_eq (d : Nat) (reads : List Nat) (h : ∀ n ∈ reads, n ≤ 8192) :
    recvEvs d reads = (reads.map fun n => [Ev.dataRead d n, Ev.sinkWrite n]).flatten := by
  induction reads with
  | nil => rfl
  | cons n rs ih =>
    have h1 := h n (by simp)
    have h2 := ih (fun m hm => h m (by simp [hm]))
    simp only [recvEvs, List.map_cons, List.flatten_cons] at h2 ⊢
    rw [h2, Nat.min_eq_left h1]

/-- an undisturbed download: every read returns between 1 and 8192 bytes, together the whole payload, then end of file -/
theorem dataRecv_delivers (t : TType) (w : World) (payload : Bytes) (reads : List Nat) (more : List (Option Nat))
    (hb : ∀ n ∈ reads, 0 < n ∧ n ≤ 8192) (hsum : reads.sum = payload.length)
    (hact : w.act = some (.send payload)) (hreads : w.dataReads = reads.map some ++ some 0 :: more)
    (hsink : w.sinkFailAt = none) :
    result (dataRecv false t) w = .ok () ∧
    (after (dataRecv false t) w).sinkFlushes = w.sinkFlushes + 1 ∧
    (after (dataRecv false t) w).dataReads = more ∧
    (t = .binary → (after (dataRecv false t) w).sink = w.sink ++ payload) ∧
    (t = .binary → w.sinkSilent = false → (after (dataRecv false t) w).trace = w.trace ++
        ((reads.map fun n => [Ev.dataRead (dOf w) n, Ev.sinkWrite n]).flatten ++ [.dataRead (dOf w) 0, .sinkFlush])) ∧
    (t = .ascii → (after (dataRecv false t) w).sink = w.sink ++ Spec.dlSpec payload) := by
  have hpay : payloadOf w = payload := by simp [payloadOf, hact]
  have hfuel : w.dataReads.length + 1 = reads.length + (more.length + 1 + 1) := by
    rw [hreads]; simp; omega
  have hcut : cut reads = payload.length := by
    rw [cut_eq_sum reads (fun n hn => (hb n hn).2), hsum]
  obtain ⟨prev', w', h1, h2, h3, h4, h5, h6, h7, h8⟩ := recvLoop_prefix t (dOf w) reads (more.length + 1 + 1) payload false w
    (some 0 :: more) hreads (fun n hn => (hb n hn).1) (by omega) hsink
  rw [hcut] at h1 h6 h8
  rw [recvLoop_eof _ _ _ _ _ _ _ (by rw [h2]; rfl)] at h1
  have hrun := dataRecv_nocb_ok t w _ prev' false (by rw [hpay, hfuel]; exact h1)
  simp only [Bool.false_eq_true, if_false] at hrun
  obtain ⟨w'', g1, g2, g3, g4, g5⟩ := streamFlush_ok t prev'
    { w' with dataReads := w'.dataReads.tail, trace := w'.trace ++ [.dataRead (dOf w) 0] } h3
  rw [g1] at hrun
  simp only [result, after, hrun]
  refine ⟨trivial, ?_, ?_, ?_, ?_, ?_⟩
  · rw [g3]; simp [h4]
  · rw [g4]; simp [h2]
  · intro ht
    subst ht
    rw [g2, h6 rfl]
    simp [flushBytes]
  · intro ht hsil
    rw [g5 ht]
    simp only [h5, hsil, h7 ht hsil, recvEvs_eq _ _ (fun n hn => (hb n hn).2)]
    simp
  · intro ht
    subst ht
    have := h8 rfl
    simp only [List.drop_length, dlRest, List.append_nil, Bool.false_eq_true, if_false, List.nil_append] at this
    rw [g2, ← this]
    simp only [flushBytes]
    cases prev' <;> simp [Spec.dlSpec]

/-- a read error before the payload has been delivered completely -/
theorem dataRecv_read_error (t : TType) (w : World) (payload : Bytes) (reads : List Nat) (more : List (Option Nat))
    (hpos : ∀ n ∈ reads, 0 < n) (hlen : reads.sum ≤ payload.length)
    (hact : w.act = some (.send payload)) (hreads : w.dataReads = reads.map some ++ none :: more)
    (hsink : w.sinkFailAt = none) :
    result (dataRecv false t) w = .throw ∧ (after (dataRecv false t) w).sinkFlushes = w.sinkFlushes := by
  have hpay : payloadOf w = payload := by simp [payloadOf, hact]
  have hfuel : w.dataReads.length + 1 = reads.length + (more.length + 1 + 1) := by
    rw [hreads]; simp; omega
  obtain ⟨prev', w', h1, h2, h3, h4, h5, h6, h7, h8⟩ := recvLoop_prefix t (dOf w) reads (more.length + 1 + 1) payload false w
    (none :: more) hreads hpos hlen hsink
  rw [recvLoop_err _ _ _ _ _ _ _ (by rw [h2]; rfl)] at h1
  have hrun := dataRecv_nocb_ok t w _ prev' true (by rw [hpay, hfuel]; exact h1)
  simp only [if_true] at hrun
  simp only [result, after, hrun]
  exact ⟨trivial, h4⟩
/-! ### transfers with a callback: the shape of the added events -/

/-- events that are neither callback invocations nor block movements -/
def quiet : Ev → Bool
  | .sinkWrite _ | .sinkWriteFail | .sinkFlush | .srcRead _ _ | .srcFail | .dataRead _ 0 | .dataReadErr _
  | .dataWriteErr _ => true
  | _ => false

/-- `mv` moves a block of `n` bytes over the data connection -/
def isMove (n : Nat) : Ev → Bool
  | .dataRead _ m => m == n && n != 0
  | .dataWrite _ m => m == n
  | _ => false

/-- the events of a transfer loop with a callback that ran to its end: quiet events and blocks
    `move, (quiet)*, notify, poll`; after a poll that reported cancellation only quiet events follow -/
inductive Blocks : List Ev → Prop
  | nil : Blocks []
  | skip (e : Ev) (l : List Ev) : DataL.quiet e = true → Blocks l → Blocks (e :: l)
  | block (mv : Ev) (n : Nat) (s : List Ev) (b : Bool) (rest : List Ev) :
      isMove n mv = true → n ≤ 8192 → (∀ e ∈ s, DataL.quiet e = true) →
      (b = true → ∀ e ∈ rest, DataL.quiet e = true) → Blocks rest →
      Blocks (mv :: s ++ .cbNotify n :: .cbPoll b :: rest)

theorem Blocks.of_quiet (l : List Ev) (h : ∀ e ∈ l, quiet e = true) : Blocks l := by
  induction l with
  | nil => exact .nil
  | cons e l ih => exact .skip e l (h e (by simp)) (ih fun x hx => h x (by simp [hx]))

theorem recvLoop_blocks (t : TType) (d : Nat) : ∀ (fuel : Nat) (payload : Bytes) (prev : Bool) (w : World),
    ∃ l, (recvLoop true t d fuel payload prev w).2.trace = w.trace ++ l ∧
      (∀ r, (recvLoop true t d fuel payload prev w).1 = .ok r → Blocks l) := by
  intro fuel
  induction fuel with
  | zero =>
    intro payload prev w
    exact ⟨[], by simp [recvLoop_zero], fun _ _ => .nil⟩
  | succ fuel ih =>
    intro payload prev w
    cases h : w.dataReads.head?.getD (some 0) with
    | none =>
      rw [recvLoop_err _ _ _ _ _ _ _ h]
      exact ⟨[.dataReadErr d], rfl, fun _ _ => .of_quiet _ (by simp [quiet])⟩
    | some n0 =>
      cases hb : (payload.take (min n0 8192)).isEmpty with
      | true =>
        rw [recvLoop_empty _ _ _ _ _ _ _ n0 h hb]
        exact ⟨[.dataRead d 0], rfl, fun _ _ => .of_quiet _ (by simp [quiet])⟩
      | false =>
        rw [recvLoop_block _ _ _ _ _ _ _ n0 h hb, bind_eq, streamWrite_run]
        have hlen : (payload.take (min n0 8192)).length ≤ 8192 := by
          rw [List.length_take]; omega
        have hpos : (payload.take (min n0 8192)).length ≠ 0 := by
          intro h0; rw [List.length_eq_zero_iff] at h0; rw [h0] at hb; simp at hb
        generalize payload.take (min n0 8192) = block at hlen hpos
        by_cases hf : w.sinkFailAt = some w.sinkWrites
        · rw [if_pos hf]
          exact ⟨[.dataRead d block.length, .sinkWriteFail], by simp, fun r hr => by simp at hr⟩
        · rw [if_neg hf]
          msimp [bind_eq, poll_run]
          generalize hs : (if w.sinkSilent = true then [] else [Ev.sinkWrite (conv t prev block).1.length]) = s
          have hsq : ∀ e ∈ s, quiet e = true := by
            intro e he
            rw [← hs] at he
            split at he
            · simp at he
            · simp at he; subst he; rfl
          cases hc : (w.cancelled || w.polls.head?.getD false) with
          | true =>
            simp only [if_true]
            refine ⟨.dataRead d block.length :: s ++ .cbNotify block.length :: .cbPoll true :: [], by simp,
              fun _ _ => .block _ _ _ _ _ (by simp [isMove, hpos]) hlen hsq (fun _ e he => by simp at he) .nil⟩
          | false =>
            simp only [Bool.false_eq_true, if_false]
            obtain ⟨l, h1, h2⟩ := ih (payload.drop (min n0 8192)) (conv t prev block).2
              { w with dataReads := w.dataReads.tail, sinkWrites := w.sinkWrites + 1,
                       sink := w.sink ++ (conv t prev block).1, polls := w.polls.tail, cancelled := false,
                       trace := w.trace ++ [.dataRead d block.length] ++ s ++ [.cbNotify block.length] ++ [.cbPoll false] }
            refine ⟨.dataRead d block.length :: s ++ .cbNotify block.length :: .cbPoll false :: l, ?_, fun r hr =>
              .block _ _ _ _ _ (by simp [isMove, hpos]) hlen hsq (fun h => by cases h) (h2 r hr)⟩
            rw [h1]
            simp

theorem Blocks.append_quiet {l : List Ev} (hl : Blocks l) (q : List Ev) (hq : ∀ e ∈ q, quiet e = true) :
    Blocks (l ++ q) := by
  induction hl with
  | nil => exact .of_quiet q hq
  | skip e l he _ ih => exact .skip e _ he ih
  | block mv n s b rest hmv hn hs hb _ ih =>
    have : (mv :: s ++ Ev.cbNotify n :: Ev.cbPoll b :: rest) ++ q = mv :: s ++ Ev.cbNotify n :: Ev.cbPoll b :: (rest ++ q) := by
      simp
    rw [this]
    refine .block mv n s b _ hmv hn hs (fun hb' e he => ?_) ih
    rcases List.mem_append.1 he with h | h
    · exact hb hb' e h
    · exact hq e h

theorem streamFlush_quiet (t : TType) (prev : Bool) (w : World) :
    ∃ q, (streamFlush t prev w).2.trace = w.trace ++ q ∧ ∀ e ∈ q, quiet e = true := by
  unfold streamFlush
  cases t with
  | binary =>
    msimp [sinkFlush_run]
    refine ⟨_, rfl, ?_⟩
    intro e he; split at he <;> simp at he; subst he; rfl
  | ascii =>
    cases prev with
    | false =>
      msimp [sinkFlush_run]
      refine ⟨_, rfl, ?_⟩
      intro e he; split at he <;> simp at he; subst he; rfl
    | true =>
      msimp [bind_eq, sinkWrite_run]
      by_cases hf : w.sinkFailAt = some w.sinkWrites
      · rw [if_pos hf]
        exact ⟨[.sinkWriteFail], rfl, by simp [quiet]⟩
      · rw [if_neg hf]
        msimp [sinkFlush_run]
        refine ⟨(if w.sinkSilent = true then [] else [Ev.sinkWrite [CR].length]) ++ (if w.sinkSilent = true then [] else [Ev.sinkFlush]), by simp, ?_⟩
        intro e he
        cases hs : w.sinkSilent <;> simp [hs] at he
        rcases he with he | he <;> subst he <;> rfl

theorem dataRecv_cb_eq (t : TType) (w : World) : ∃ d payload, dataRecv true t w =
    (poll >>= fun c => if c then pure () else
      emit .cbBegin >>= fun _ => recvLoop true t d (w.dataReads.length + 1) payload false >>= fun x =>
        if x.2 then ((throwE : M Unit) >>= fun _ => streamFlush t x.1 >>= fun _ => emit .cbEnd)
        else streamFlush t x.1 >>= fun _ => emit .cbEnd) w := by
  refine ⟨dOf w, payloadOf w, ?_⟩
  unfold dataRecv
  msimp
  rfl

/-- `dataRecv` with a callback, when it returns normally -/
theorem dataRecv_cb (t : TType) (w : World) (h : result (dataRecv true t) w = .ok ()) :
    added (dataRecv true t) w = [.cbPoll true] ∨
    ∃ l, Blocks l ∧ added (dataRecv true t) w = .cbPoll false :: .cbBegin :: l ++ [.cbEnd] := by
  obtain ⟨d, payload, heq⟩ := dataRecv_cb_eq t w
  unfold result at h
  rw [heq] at h
  cases hc : (w.cancelled || w.polls.head?.getD false) with
  | true =>
    left
    apply added_of_trace
    simp only [after, heq]
    msimp [bind_eq, poll_run, hc]
  | false =>
    right
    msimp [bind_eq, poll_run, hc] at h
    obtain ⟨l, h1, h2⟩ := recvLoop_blocks t d (w.dataReads.length + 1) payload false
      { w with polls := w.polls.tail, cancelled := false, trace := w.trace ++ [.cbPoll false] ++ [.cbBegin] }
    rcases hr : recvLoop true t d (w.dataReads.length + 1) payload false
      { w with polls := w.polls.tail, cancelled := false, trace := w.trace ++ [.cbPoll false] ++ [.cbBegin] } with ⟨r, w3⟩
    rw [hr] at h h1 h2
    cases r with
    | throw => simp at h
    | ok x =>
      obtain ⟨p, failed⟩ := x
      cases failed with
      | true => msimp at h; simp at h
      | false =>
        msimp [bind_eq] at h
        obtain ⟨q, g1, g2⟩ := streamFlush_quiet t p w3
        rcases hf : streamFlush t p w3 with ⟨r', w4⟩
        rw [hf] at h g1
        cases r' with
        | throw => simp at h
        | ok u =>
          refine ⟨l ++ q, (h2 _ rfl).append_quiet q g2, ?_⟩
          apply added_of_trace
          simp only [after, heq]
          msimp [bind_eq, poll_run, hc, hr, hf]
          simp only at g1 h1
          rw [g1, h1]
          simp
/-! ### the upload loops -/

theorem src_read_length_le (s : Src) (n : Nat) : (s.read n).1.length ≤ n := by
  simp only [Src.read, List.length_take]
  omega

theorem ascii_read_length_le (st : IState) (src : Src) (size : Nat) (hs : 1 ≤ size) (hb : 1 ≤ st.bufSize) :
    (Ascii.read st src size).1.length ≤ size := by
  have hs' : 0 < size := hs
  obtain ⟨need, skip, internal, bufSize⟩ := st
  cases need with
  | false =>
    have hr := outer_spec size (internal.length + src.data.length + 1) ⟨false, skip, internal, bufSize⟩ src []
      hb (by simp) (by simp) (by simp)
    simp only [Ascii.read, Bool.and_false, Bool.false_eq_true, if_false]
    exact hr.le
  | true =>
    have hr := outer_spec size (internal.length + src.data.length + 1) ⟨false, skip, internal, bufSize⟩ src [LF]
      hb (by simpa using hs) (by simp) (by simp)
    simp only [Ascii.read, hs', decide_true, Bool.and_true, if_true]
    exact hr.le

theorem head_getD_true (l : List Bool) (h : ∀ b ∈ l, b = true) : l.head?.getD true = true := by
  cases l with
  | nil => rfl
  | cons b t => simpa using h b (by simp)

theorem all_true_tail (l : List Bool) (h : ∀ b ∈ l, b = true) : ∀ b ∈ l.tail, b = true :=
  fun b hb => h b (List.mem_of_mem_tail hb)

theorem sendLoopBin_exact (d : Nat) : ∀ (fuel : Nat) (w : World), (∀ b ∈ w.blockOks, b = true) → w.srcFailAt = none →
    w.src.data.length + 1 ≤ fuel →
    ∃ w', sendLoopBin false d fuel w = (.ok (), w') ∧ w'.peerGot = w.peerGot ++ w.src.data ∧ w'.src.data = [] := by
  intro fuel
  induction fuel with
  | zero => intro w _ _ h; omega
  | succ fuel ih =>
    intro w hok hsrc hfuel
    have hne : ¬ (w.srcFailAt = some w.srcReads) := by rw [hsrc]; simp
    obtain ⟨hr1, hr2⟩ := Src.read_spec w.src 8192 (by omega)
    rw [sendLoopBin, bind_eq, srcRead_run, if_neg hne]
    simp only
    cases hb : (w.src.read 8192).1.isEmpty with
    | true =>
      have he : (w.src.read 8192).1 = [] := by simpa using hb
      have hd := hr2 he
      rw [he, hd] at hr1
      msimp
      exact ⟨_, rfl, by simp [hd], by simpa using hr1⟩
    | false =>
      msimp [bind_eq, dataWrite_run, head_getD_true _ hok]
      have hlt : (w.src.read 8192).2.data.length < w.src.data.length := by
        rw [← hr1, List.length_append]
        have : (w.src.read 8192).1.length ≠ 0 := by
          intro h0; rw [List.length_eq_zero_iff] at h0; rw [h0] at hb; simp at hb
        omega
      obtain ⟨w', h1, h2, h3⟩ := ih
        { w with srcReads := w.srcReads + 1, src := (w.src.read 8192).2, blockOks := w.blockOks.tail,
                 peerGot := w.peerGot ++ (w.src.read 8192).1,
                 trace := w.trace ++ [.srcRead 8192 (w.src.read 8192).1.length] ++ [.dataWrite d (w.src.read 8192).1.length] }
        (all_true_tail _ hok) hsrc (by simp only; omega)
      refine ⟨w', h1, ?_, h3⟩
      rw [h2]
      simp only [List.append_assoc, hr1]

/-- does one of the source reads performed inside an `ascii_istream::read` fail? -/
def asciiFails (w : World) (calls : Nat) : Bool :=
  match w.srcFailAt with
  | some k => w.srcReads ≤ k && k < w.srcReads + calls
  | none => false

theorem sendLoopAscii_succ (cb : Bool) (d fuel : Nat) (st : IState) (w : World) :
    sendLoopAscii cb d (fuel + 1) st w =
      if asciiFails w (w.src.sched.length - (Ascii.read st w.src 8192).2.2.sched.length) = true then
        (.throw, { w with trace := w.trace ++ [.srcFail] })
      else if (Ascii.read st w.src 8192).1.isEmpty = true then
        (.ok (), { w with src := (Ascii.read st w.src 8192).2.2,
                          srcReads := w.srcReads + (w.src.sched.length - (Ascii.read st w.src 8192).2.2.sched.length) })
      else
        (dataWrite d (Ascii.read st w.src 8192).1 >>= fun _ =>
          if cb then
            (emit (.cbNotify (Ascii.read st w.src 8192).1.length) >>= fun _ => poll >>= fun c =>
              if c then pure () else sendLoopAscii cb d fuel (Ascii.read st w.src 8192).2.1)
          else sendLoopAscii cb d fuel (Ascii.read st w.src 8192).2.1)
        { w with src := (Ascii.read st w.src 8192).2.2,
                 srcReads := w.srcReads + (w.src.sched.length - (Ascii.read st w.src 8192).2.2.sched.length) } := by
  rw [sendLoopAscii]
  rcases hr : Ascii.read st w.src 8192 with ⟨block, st', src'⟩
  unfold asciiFails
  cases hf : w.srcFailAt with
  | none => msimp [hr, hf]
  | some k => msimp [hr, hf]

theorem asciiFails_none (w : World) (calls : Nat) (h : w.srcFailAt = none) : asciiFails w calls = false := by
  simp [asciiFails, h]

theorem sendLoopAscii_exact (d : Nat) : ∀ (fuel : Nat) (st : IState) (w : World), (∀ b ∈ w.blockOks, b = true) →
    w.srcFailAt = none → 1 ≤ st.bufSize → (remain st w.src).length + 1 ≤ fuel →
    ∃ w', sendLoopAscii false d fuel st w = (.ok (), w') ∧ w'.peerGot = w.peerGot ++ remain st w.src := by
  intro fuel
  induction fuel with
  | zero => intro st w _ _ _ h; omega
  | succ fuel ih =>
    intro st w hok hsrc hbuf hfuel
    obtain ⟨h1, h2, h3⟩ := read_spec st w.src 8192 (by omega) hbuf
    rw [sendLoopAscii_succ, asciiFails_none _ _ hsrc]
    simp only [Bool.false_eq_true, if_false]
    cases hb : (Ascii.read st w.src 8192).1.isEmpty with
    | true =>
      have he : (Ascii.read st w.src 8192).1 = [] := by simpa using hb
      simp only [if_true]
      exact ⟨_, rfl, by simp [h2 he]⟩
    | false =>
      msimp [bind_eq, dataWrite_run, head_getD_true _ hok]
      have hlt : (remain (Ascii.read st w.src 8192).2.1 (Ascii.read st w.src 8192).2.2).length < (remain st w.src).length := by
        rw [← h1, List.length_append]
        have : (Ascii.read st w.src 8192).1.length ≠ 0 := by
          intro h0; rw [List.length_eq_zero_iff] at h0; rw [h0] at hb; simp at hb
        omega
      obtain ⟨w', g1, g2⟩ := ih (Ascii.read st w.src 8192).2.1
        { w with src := (Ascii.read st w.src 8192).2.2,
                 srcReads := w.srcReads + (w.src.sched.length - (Ascii.read st w.src 8192).2.2.sched.length),
                 blockOks := w.blockOks.tail,
                 peerGot := w.peerGot ++ (Ascii.read st w.src 8192).1,
                 trace := w.trace ++ [.dataWrite d (Ascii.read st w.src 8192).1.length] }
        (all_true_tail _ hok) hsrc (by omega) (by simp only; omega)
      refine ⟨w', g1, ?_⟩
      rw [g2]
      simp only [List.append_assoc, h1]

theorem dataSend_nocb_bin (w : World) :
    ∃ d, dataSend false .binary w = sendLoopBin false d (2 * w.src.data.length + 2) w := by
  refine ⟨dOf w, ?_⟩
  unfold dataSend
  msimp
  exact bind_pure_unit _ _

theorem dataSend_nocb_ascii (w : World) :
    ∃ d, dataSend false .ascii w = sendLoopAscii false d (2 * w.src.data.length + 2) (IState.init 8192) w := by
  refine ⟨dOf w, ?_⟩
  unfold dataSend
  msimp
  exact bind_pure_unit _ _

theorem dataSend_binary_exact (w : World) (hok : ∀ b ∈ w.blockOks, b = true) (hsrc : w.srcFailAt = none) :
    result (dataSend false .binary) w = .ok () ∧
    (after (dataSend false .binary) w).peerGot = w.peerGot ++ w.src.data ∧
    (after (dataSend false .binary) w).src.data = [] := by
  obtain ⟨d, hd⟩ := dataSend_nocb_bin w
  obtain ⟨w', h1, h2, h3⟩ := sendLoopBin_exact d (2 * w.src.data.length + 2) w hok hsrc (by omega)
  simp only [result, after, hd, h1]
  exact ⟨trivial, h2, h3⟩

theorem dataSend_ascii_exact (w : World) (hok : ∀ b ∈ w.blockOks, b = true) (hsrc : w.srcFailAt = none) :
    result (dataSend false .ascii) w = .ok () ∧
    (after (dataSend false .ascii) w).peerGot = w.peerGot ++ Spec.ulSpec w.src.data := by
  obtain ⟨d, hd⟩ := dataSend_nocb_ascii w
  have hrem : remain (IState.init 8192) w.src = Spec.ulSpec w.src.data := by
    simp [remain, IState.init, Spec.ulSpec]
  obtain ⟨w', h1, h2⟩ := sendLoopAscii_exact d (2 * w.src.data.length + 2) (IState.init 8192) w hok hsrc
    (by simp [IState.init]) (by
      rw [hrem]
      have := ulGo_length_le false w.src.data
      simp only [Spec.ulSpec]; omega)
  simp only [result, after, hd, h1]
  exact ⟨trivial, by rw [h2, hrem]⟩

theorem ulGo_false_ne_nil (data : Bytes) (h : data ≠ []) : Spec.ulGo false data ≠ [] := by
  cases data with
  | nil => exact absurd rfl h
  | cons c t =>
    simp only [Spec.ulGo]
    split
    · simp
    · split <;> simp

theorem dataSend_write_error (w : World) (t : TType) (hne : w.src.data ≠ []) (hb : w.blockOks.head? = some false)
    (hsrc : w.srcFailAt = none) : result (dataSend false t) w = .throw := by
  have hhd : w.blockOks.head?.getD true = false := by rw [hb]; rfl
  cases t with
  | binary =>
    obtain ⟨d, hd⟩ := dataSend_nocb_bin w
    have hne' : ¬ (w.srcFailAt = some w.srcReads) := by rw [hsrc]; simp
    obtain ⟨hr1, hr2⟩ := Src.read_spec w.src 8192 (by omega)
    have hbe : (w.src.read 8192).1.isEmpty = false := by
      cases he : (w.src.read 8192).1.isEmpty
      · rfl
      · exact absurd (hr2 (by simpa using he)) hne
    simp only [result, hd]
    rw [sendLoopBin, bind_eq, srcRead_run, if_neg hne']
    msimp [hbe, bind_eq, dataWrite_run, hhd]
  | ascii =>
    obtain ⟨d, hd⟩ := dataSend_nocb_ascii w
    obtain ⟨h1, h2, h3⟩ := read_spec (IState.init 8192) w.src 8192 (by omega) (by simp [IState.init])
    have hbe : (Ascii.read (IState.init 8192) w.src 8192).1.isEmpty = false := by
      cases he : (Ascii.read (IState.init 8192) w.src 8192).1.isEmpty
      · rfl
      · have := h2 (by simpa using he)
        simp only [remain, IState.init, lfIf_false, List.nil_append] at this
        exact absurd this (ulGo_false_ne_nil _ hne)
    simp only [result, hd]
    rw [sendLoopAscii_succ, asciiFails_none _ _ hsrc]
    msimp [hbe, bind_eq, dataWrite_run, hhd]
/-- every block handed to the data socket holds at most 8192 bytes -/
def SmallWrites (l : List Ev) : Prop := ∀ e ∈ l, ∀ d n, e = Ev.dataWrite d n → n ≤ 8192

theorem SmallWrites.append {l₁ l₂ : List Ev} (h₁ : SmallWrites l₁) (h₂ : SmallWrites l₂) : SmallWrites (l₁ ++ l₂) := by
  intro e he
  rcases List.mem_append.1 he with h | h
  · exact h₁ e h
  · exact h₂ e h

theorem SmallWrites.nil : SmallWrites [] := by intro e he; cases he

theorem sendLoopBin_general (cb : Bool) (d : Nat) : ∀ (fuel : Nat) (w : World),
    ∃ l, (sendLoopBin cb d fuel w).2.trace = w.trace ++ l ∧ SmallWrites l ∧
      (cb = true → (sendLoopBin cb d fuel w).1 = .ok () → Blocks l) := by
  intro fuel
  induction fuel with
  | zero =>
    intro w
    exact ⟨[], by simp [sendLoopBin], .nil, fun _ _ => .nil⟩
  | succ fuel ih =>
    intro w
    rw [sendLoopBin, bind_eq, srcRead_run]
    by_cases hf : w.srcFailAt = some w.srcReads
    · rw [if_pos hf]
      exact ⟨[.srcFail], rfl, by simp [SmallWrites], fun _ h => by simp at h⟩
    · rw [if_neg hf]
      simp only
      have hlen := src_read_length_le w.src 8192
      generalize hblock : (w.src.read 8192).1 = block at hlen
      cases hb : block.isEmpty with
      | true =>
        msimp
        exact ⟨[.srcRead 8192 block.length], rfl, by simp [SmallWrites],
          fun _ _ => .of_quiet _ (by simp [quiet])⟩
      | false =>
        msimp [bind_eq, dataWrite_run]
        cases hw : w.blockOks.head?.getD true with
        | false =>
          simp only [Bool.false_eq_true, if_false]
          exact ⟨[.srcRead 8192 block.length, .dataWriteErr d], by simp, by simp [SmallWrites],
            fun _ h => by simp at h⟩
        | true =>
          simp only [if_true]
          cases cb with
          | false =>
            msimp
            obtain ⟨l, h1, h2, _⟩ := ih
              { w with srcReads := w.srcReads + 1, src := (w.src.read 8192).2, blockOks := w.blockOks.tail,
                       peerGot := w.peerGot ++ block,
                       trace := w.trace ++ [.srcRead 8192 block.length] ++ [.dataWrite d block.length] }
            refine ⟨[.srcRead 8192 block.length, .dataWrite d block.length] ++ l, ?_, ?_, fun h => by cases h⟩
            · rw [h1]; simp
            · apply SmallWrites.append _ h2
              intro e he d' n hn
              simp at he
              rcases he with he | he <;> subst he <;> cases hn
              exact hlen
          | true =>
            msimp [bind_eq, poll_run]
            have hmv : isMove block.length (.dataWrite d block.length) = true := by simp [isMove]
            cases hc : (w.cancelled || w.polls.head?.getD false) with
            | true =>
              simp only [if_true]
              refine ⟨.srcRead 8192 block.length :: (.dataWrite d block.length :: [] ++ .cbNotify block.length :: .cbPoll true :: []),
                by simp, ?_, fun _ _ => .skip _ _ rfl (.block _ _ _ _ _ hmv hlen (by simp) (by simp) .nil)⟩
              intro e he d' n hn
              simp at he
              rcases he with he | he | he | he <;> subst he <;> cases hn
              exact hlen
            | false =>
              simp only [Bool.false_eq_true, if_false]
              obtain ⟨l, h1, h2, h3⟩ := ih
                { w with srcReads := w.srcReads + 1, src := (w.src.read 8192).2, blockOks := w.blockOks.tail,
                         peerGot := w.peerGot ++ block, polls := w.polls.tail, cancelled := false,
                         trace := w.trace ++ [.srcRead 8192 block.length] ++ [.dataWrite d block.length] ++
                                  [.cbNotify block.length] ++ [.cbPoll false] }
              refine ⟨.srcRead 8192 block.length :: (.dataWrite d block.length :: [] ++ .cbNotify block.length :: .cbPoll false :: l),
                ?_, ?_, fun _ hr => .skip _ _ rfl (.block _ _ _ _ _ hmv hlen (by simp) (by simp) (h3 rfl hr))⟩
              · rw [h1]; simp
              · have : SmallWrites [.srcRead 8192 block.length, .dataWrite d block.length, .cbNotify block.length, .cbPoll false] := by
                  intro e he d' n hn
                  simp at he
                  rcases he with he | he | he | he <;> subst he <;> cases hn
                  exact hlen
                exact this.append h2

theorem sendLoopAscii_general (cb : Bool) (d : Nat) : ∀ (fuel : Nat) (st : IState) (w : World), 1 ≤ st.bufSize →
    ∃ l, (sendLoopAscii cb d fuel st w).2.trace = w.trace ++ l ∧ SmallWrites l ∧
      (cb = true → (sendLoopAscii cb d fuel st w).1 = .ok () → Blocks l) := by
  intro fuel
  induction fuel with
  | zero =>
    intro st w _
    exact ⟨[], by simp [sendLoopAscii], .nil, fun _ _ => .nil⟩
  | succ fuel ih =>
    intro st w hbuf
    rw [sendLoopAscii_succ]
    have hlen := ascii_read_length_le st w.src 8192 (by omega) hbuf
    have hbuf' := (read_spec st w.src 8192 (by omega) hbuf).2.2
    generalize Ascii.read st w.src 8192 = r at hlen hbuf'
    obtain ⟨block, st', src'⟩ := r
    simp only at hlen hbuf' ⊢
    cases hfl : asciiFails w (w.src.sched.length - src'.sched.length) with
    | true =>
      simp only [if_true]
      exact ⟨[.srcFail], rfl, by simp [SmallWrites], fun _ h => by simp at h⟩
    | false =>
      simp only [Bool.false_eq_true, if_false]
      cases hb : block.isEmpty with
      | true =>
        simp only [if_true]
        exact ⟨[], by simp, .nil, fun _ _ => .nil⟩
      | false =>
        msimp [bind_eq, dataWrite_run]
        cases hw : w.blockOks.head?.getD true with
        | false =>
          simp only [Bool.false_eq_true, if_false]
          exact ⟨[.dataWriteErr d], by simp, by simp [SmallWrites], fun _ h => by simp at h⟩
        | true =>
          simp only [if_true]
          have hsw : SmallWrites [.dataWrite d block.length] := by
            intro e he d' n hn
            simp at he
            subst he; cases hn
            exact hlen
          cases cb with
          | false =>
            msimp
            obtain ⟨l, h1, h2, _⟩ := ih st'
              { w with src := src', srcReads := w.srcReads + (w.src.sched.length - src'.sched.length),
                       blockOks := w.blockOks.tail, peerGot := w.peerGot ++ block,
                       trace := w.trace ++ [.dataWrite d block.length] } (by omega)
            refine ⟨[.dataWrite d block.length] ++ l, ?_, hsw.append h2, fun h => by cases h⟩
            rw [h1]; simp
          | true =>
            msimp [bind_eq, poll_run]
            have hmv : isMove block.length (.dataWrite d block.length) = true := by simp [isMove]
            have hsw' : ∀ b, SmallWrites [.dataWrite d block.length, .cbNotify block.length, .cbPoll b] := by
              intro b e he d' n hn
              simp at he
              rcases he with he | he | he <;> subst he <;> cases hn
              exact hlen
            cases hc : (w.cancelled || w.polls.head?.getD false) with
            | true =>
              simp only [if_true]
              exact ⟨.dataWrite d block.length :: [] ++ .cbNotify block.length :: .cbPoll true :: [],
                by simp, hsw' true, fun _ _ => .block _ _ _ _ _ hmv hlen (by simp) (by simp) .nil⟩
            | false =>
              simp only [Bool.false_eq_true, if_false]
              obtain ⟨l, h1, h2, h3⟩ := ih st'
                { w with src := src', srcReads := w.srcReads + (w.src.sched.length - src'.sched.length),
                         blockOks := w.blockOks.tail, peerGot := w.peerGot ++ block, polls := w.polls.tail,
                         cancelled := false,
                         trace := w.trace ++ [.dataWrite d block.length] ++
                                  [.cbNotify block.length] ++ [.cbPoll false] } (by omega)
              refine ⟨.dataWrite d block.length :: [] ++ .cbNotify block.length :: .cbPoll false :: l,
                ?_, ?_, fun _ hr => .block _ _ _ _ _ hmv hlen (by simp) (by simp) (h3 rfl hr)⟩
              · rw [h1]; simp
              · exact (hsw' false).append h2

/-- the loop of `dataSend` for either transfer type -/
def sendLoop (cb : Bool) (d fuel : Nat) (t : TType) : M Unit :=
  match t with
  | .binary => sendLoopBin cb d fuel
  | .ascii => sendLoopAscii cb d fuel (IState.init 8192)

theorem sendLoop_general (cb : Bool) (d fuel : Nat) (t : TType) (w : World) :
    ∃ l, (sendLoop cb d fuel t w).2.trace = w.trace ++ l ∧ SmallWrites l ∧
      (cb = true → (sendLoop cb d fuel t w).1 = .ok () → Blocks l) := by
  cases t with
  | binary => exact sendLoopBin_general cb d fuel w
  | ascii => exact sendLoopAscii_general cb d fuel (IState.init 8192) w (by simp [IState.init])

theorem dataSend_cb_eq (t : TType) (w : World) : ∃ d fuel, dataSend true t w =
    (poll >>= fun c => if c then pure () else
      emit .cbBegin >>= fun _ => sendLoop true d fuel t >>= fun _ => emit .cbEnd) w := by
  refine ⟨dOf w, 2 * w.src.data.length + 2, ?_⟩
  cases t <;> (unfold dataSend; msimp; rfl)

theorem dataSend_nocb_eq (t : TType) (w : World) : ∃ d fuel, dataSend false t w = sendLoop false d fuel t w := by
  refine ⟨dOf w, 2 * w.src.data.length + 2, ?_⟩
  cases t <;> (unfold dataSend; msimp; exact bind_pure_unit _ _)

theorem dataSend_general (cb : Bool) (t : TType) (w : World) :
    ∃ l, (after (dataSend cb t) w).trace = w.trace ++ l ∧ SmallWrites l ∧
      (cb = true → result (dataSend cb t) w = .ok () →
        l = [.cbPoll true] ∨ ∃ l', Blocks l' ∧ l = .cbPoll false :: .cbBegin :: l' ++ [.cbEnd]) := by
  cases cb with
  | false =>
    obtain ⟨d, fuel, heq⟩ := dataSend_nocb_eq t w
    obtain ⟨l, h1, h2, _⟩ := sendLoop_general false d fuel t w
    exact ⟨l, by simp only [after, heq]; exact h1, h2, fun h => by cases h⟩
  | true =>
    obtain ⟨d, fuel, heq⟩ := dataSend_cb_eq t w
    simp only [after, result, heq]
    cases hc : (w.cancelled || w.polls.head?.getD false) with
    | true =>
      msimp [bind_eq, poll_run, hc]
      exact ⟨[.cbPoll true], rfl, by simp [SmallWrites], fun _ _ => .inl rfl⟩
    | false =>
      msimp [bind_eq, poll_run, hc]
      obtain ⟨l, h1, h2, h3⟩ := sendLoop_general true d fuel t
        { w with polls := w.polls.tail, cancelled := false, trace := w.trace ++ [.cbPoll false] ++ [.cbBegin] }
      rcases hr : sendLoop true d fuel t
        { w with polls := w.polls.tail, cancelled := false, trace := w.trace ++ [.cbPoll false] ++ [.cbBegin] } with ⟨r, w3⟩
      rw [hr] at h1 h3
      simp only at h1 h3
      have hpre : SmallWrites [.cbPoll false, .cbBegin] := by
        intro e he d' n hn; simp at he; rcases he with he | he <;> subst he <;> cases hn
      cases r with
      | throw =>
        simp only
        refine ⟨.cbPoll false :: .cbBegin :: l, by rw [h1]; simp, hpre.append h2, fun _ h => by simp at h⟩
      | ok u =>
        msimp
        refine ⟨.cbPoll false :: .cbBegin :: l ++ [.cbEnd], by rw [h1]; simp, ?_, fun _ _ => .inr ⟨l, h3 trivial rfl, rfl⟩⟩
        have : SmallWrites [.cbEnd] := by
          intro e he d' n hn; simp at he; subst he; cases hn
        exact (hpre.append h2).append this
theorem cancelled_start (w : World) (t : TType) (h : (w.cancelled || w.polls.head?.getD false) = true) :
    added (dataRecv true t) w = [Ev.cbPoll true] ∧ added (dataSend true t) w = [Ev.cbPoll true] := by
  obtain ⟨d, payload, h1⟩ := dataRecv_cb_eq t w
  obtain ⟨d', fuel, h2⟩ := dataSend_cb_eq t w
  constructor
  · apply added_of_trace
    simp only [after, h1]
    msimp [bind_eq, poll_run, h]
  · apply added_of_trace
    simp only [after, h2]
    msimp [bind_eq, poll_run, h]

/-! ### the end of a transfer -/

theorem ctlSend_run (cmd : Bytes) (w : World) (h : w.connected = true) :
    ∃ w', ctlSend cmd w = (.ok (), w') ∧
      w'.trace = w.trace ++ (w.observers.map (fun o => Ev.obsRequest o cmd) ++ [.ctlWrite (cmd ++ CRLF)]) ∧
      w'.conn = w.conn := by
  unfold ctlSend forObservers
  msimp [h]
  simp only [Bool.not_true, Bool.false_eq_true, if_false]
  exact ⟨_, rfl, by simp, rfl⟩

theorem ctlRecv_spec (w : World) :
    ∃ l, (ctlRecv w).2.trace = w.trace ++ .ctlReadLine :: l ∧ (ctlRecv w).2.conn = w.conn ∧
      (((ctlRecv w).1 = .throw ∧ l = []) ∨
       ∃ code text, (ctlRecv w).1 = .ok ⟨code, text⟩ ∧
         l = .ctlReply code text :: ((if code == 421 then [.ctlShutdown, .ctlClose] else []) ++
               w.observers.map (fun o => Ev.obsReply o code text))) := by
  unfold ctlRecv
  msimp
  cases hc : w.connected with
  | false =>
    refine ⟨[], ?_⟩
    simp
  | true =>
    simp only [Bool.not_true, Bool.false_eq_true, if_false]
    rcases hr : Reader.recv { buf := w.ctl.buf, skipLf := w.ctl.skipLf } w.net with ⟨r, c', net'⟩
    cases r with
    | reply code text =>
      msimp
      cases h421 : code == 421 with
      | true =>
        msimp
        refine ⟨.ctlReply code text :: ([.ctlShutdown, .ctlClose] ++ w.observers.map (fun o => Ev.obsReply o code text)), ?_⟩
        simp
        exact ⟨code, text, ⟨rfl, rfl⟩, by simp [beq_iff_eq.1 h421]⟩
      | false =>
        msimp
        refine ⟨.ctlReply code text :: ([] ++ w.observers.map (fun o => Ev.obsReply o code text)), ?_⟩
        simp
        exact ⟨code, text, ⟨rfl, rfl⟩, by simp [beq_eq_false_iff_ne.1 h421]⟩
    | _ =>
      msimp
      refine ⟨[], ?_⟩
      simp

theorem closeD_bind {β : Type} (d : Nat) (f : Bool → M β) (w : World) : (closeD d >>= f) w =
    f (w.closeFails.head?.getD false) { w with closeFails := w.closeFails.tail, trace := w.trace ++ [.dataClose d] } := rfl

theorem dataDisconnect_events (g : Bool) (w : World) :
    ∃ l, (dataDisconnect g w).2.trace = w.trace ++ l ∧
      ∀ e ∈ l, (∃ x, e = Ev.dataClose x) ∨ (g = true ∧ ∃ x, e = Ev.dataShutdown x) := by
  unfold dataDisconnect
  msimp
  rcases hconn : w.conn with _ | ⟨sock, acc⟩
  · exact ⟨[], by simp, by simp⟩
  · rcases sock with _ | s <;> rcases acc with _ | a <;> cases g <;>
      cases hcf : w.closeFails.head?.getD false <;> cases hcf2 : w.closeFails.tail.head?.getD false <;>
      msimp [closeD_bind, hcf, hcf2] <;>
      first
      | (try simp only [List.append_assoc]); (refine ⟨_, rfl, ?_⟩; simp; done)
      | (refine ⟨[], ?_, ?_⟩ <;> simp; done)

theorem dataDisconnect_false (w : World) (d : Nat) (a : Option Nat) (hc : w.conn = some { sock := some d, acc := a }) :
    ∃ l, (dataDisconnect false w).2.trace = w.trace ++ .dataClose d :: l ∧ ∀ e ∈ l, ∃ x, e = Ev.dataClose x := by
  unfold dataDisconnect
  msimp [hc, closeD_bind]
  rcases a with _ | a <;>
    cases hcf : w.closeFails.head?.getD false <;> cases hcf2 : w.closeFails.tail.head?.getD false <;>
    msimp [closeD_bind, hcf, hcf2] <;>
    (try simp only [List.append_assoc, List.cons_append, List.nil_append]) <;>
    (refine ⟨_, rfl, ?_⟩; simp)

theorem head_getD_false (l : List Bool) (h : ∀ b ∈ l, b = false) : l.head?.getD false = false := by
  cases l with
  | nil => rfl
  | cons b t => simpa using h b (by simp)

theorem dataDisconnect_true_ok (w : World) (d : Nat) (a : Option Nat) (hc : w.conn = some { sock := some d, acc := a })
    (hcl : ∀ b ∈ w.closeFails, b = false) :
    ∃ w', dataDisconnect true w = (.ok (), w') ∧
      w'.trace = w.trace ++ ([.dataShutdown d, .dataClose d] ++ a.toList.map Ev.dataClose) := by
  have h1 := head_getD_false _ hcl
  have h2 := head_getD_false w.closeFails.tail (fun b hb => hcl b (List.mem_of_mem_tail hb))
  unfold dataDisconnect
  msimp [hc, closeD_bind]
  rcases a with _ | a <;> msimp [closeD_bind, h1, h2] <;> exact ⟨_, rfl, by simp⟩

/-- events of reading replies from the control connection -/
def ctlEv : Ev → Bool
  | .ctlReadLine | .ctlReply _ _ | .ctlShutdown | .ctlClose | .obsReply _ _ _ => true
  | _ => false

theorem append_list (rs : Replies) (r : Reply) : (rs.append r).list = rs.list ++ [r] := by
  unfold Replies.append
  split
  · rfl
  · split <;> rfl

theorem received_obs (obs : List Nat) (code : Nat) (text : Bytes) :
    received (obs.map fun o => Ev.obsReply o code text) = [] := by
  induction obs with
  | nil => rfl
  | cons o os ih => simp [received]

theorem received_append (l₁ l₂ : List Ev) : received (l₁ ++ l₂) = received l₁ ++ received l₂ := by
  simp [received]

theorem recvInto_spec (rs : Replies) (w : World) :
    ∃ l, (recvInto rs w).2.trace = w.trace ++ .ctlReadLine :: l ∧ (recvInto rs w).2.conn = w.conn ∧
      (∀ e ∈ l, ctlEv e = true) ∧
      ∀ r rs', (recvInto rs w).1 = .ok (r, rs') → rs'.list = rs.list ++ received l := by
  obtain ⟨l, h1, h2, h3⟩ := ctlRecv_spec w
  unfold recvInto
  rw [bind_eq]
  rcases hr : ctlRecv w with ⟨res, w'⟩
  rw [hr] at h1 h2 h3
  simp only at h1 h2 h3
  refine ⟨l, ?_⟩
  rcases h3 with ⟨h3, hl⟩ | ⟨code, text, h3, hl⟩
  · subst h3 hl
    exact ⟨h1, h2, by simp, by simp⟩
  · subst h3
    refine ⟨h1, h2, ?_, ?_⟩
    · intro e he
      rw [hl] at he
      simp at he
      rcases he with he | he | he
      · subst he; rfl
      · rcases he.2 with he | he <;> subst he <;> rfl
      · obtain ⟨o, _, he⟩ := he
        subst he; rfl
    · intro r rs' hres
      simp only [pure_run, Res.ok.injEq, Prod.mk.injEq] at hres
      obtain ⟨hr1, hr2⟩ := hres
      subst hr1 hr2
      rw [append_list, hl]
      have : received (Ev.ctlReply code text :: ((if (code == 421) = true then [Ev.ctlShutdown, Ev.ctlClose] else []) ++
          List.map (fun o => Ev.obsReply o code text) w.observers)) = [⟨code, text⟩] := by
        rw [← List.singleton_append, received_append, received_append, received_obs]
        split <;> rfl
      rw [this]

theorem mkCmd_abor : mkCmd "ABOR" none = pure (str "ABOR") := rfl

theorem processAbort_spec (rs : Replies) (w : World) (h : w.connected = true) :
    ∃ l, (processAbort rs w).2.trace = w.trace ++ (w.observers.map (fun o => Ev.obsRequest o (str "ABOR")) ++
            [.ctlWrite (str "ABOR" ++ CRLF)]) ++ l ∧
      (processAbort rs w).2.conn = w.conn ∧ (∀ e ∈ l, ctlEv e = true) ∧
      ∀ o, (processAbort rs w).1 = .ok o → o.list = rs.list ++ received l := by
  unfold processAbort processCommandInto
  rw [mkCmd_abor]
  msimp
  obtain ⟨w1, h1, h2, h3⟩ := ctlSend_run (str "ABOR") w h
  rw [bind_ok h1, bind_eq]
  obtain ⟨l1, g1, g2, g3, g4⟩ := recvInto_spec rs w1
  rcases hr : recvInto rs w1 with ⟨res, w2⟩
  rw [hr] at g1 g2 g4
  simp only at g1 g2 g4
  cases res with
  | throw =>
    refine ⟨.ctlReadLine :: l1, by simp only [g1, h2], by simp only [g2, h3], ?_, by simp⟩
    intro e he
    rcases List.mem_cons.1 he with he | he
    · subst he; rfl
    · exact g3 e he
  | ok x =>
    obtain ⟨r, rs1⟩ := x
    have hrs1 := g4 r rs1 rfl
    simp only
    cases h426 : r.code == 426 with
    | false =>
      msimp
      refine ⟨.ctlReadLine :: l1, by simp only [g1, h2], by simp only [g2, h3], ?_, ?_⟩
      · intro e he
        rcases List.mem_cons.1 he with he | he
        · subst he; rfl
        · exact g3 e he
      · intro o ho
        simp only [Res.ok.injEq] at ho
        subst ho
        rw [hrs1]
        rfl
    | true =>
      msimp
      rw [bind_eq]
      obtain ⟨l2, k1, k2, k3, k4⟩ := recvInto_spec rs1 w2
      rcases hr2 : recvInto rs1 w2 with ⟨res2, w3⟩
      rw [hr2] at k1 k2 k4
      simp only at k1 k2 k4
      have hall : ∀ e ∈ Ev.ctlReadLine :: l1 ++ Ev.ctlReadLine :: l2, ctlEv e = true := by
        intro e he
        simp only [List.mem_append, List.mem_cons] at he
        rcases he with (he | he) | he | he
        · subst he; rfl
        · exact g3 e he
        · subst he; rfl
        · exact k3 e he
      cases res2 with
      | throw =>
        exact ⟨.ctlReadLine :: l1 ++ .ctlReadLine :: l2, by simp only [k1, g1, h2]; simp, by simp only [k2, g2, h3], hall,
          by simp⟩
      | ok y =>
        obtain ⟨r2, rs2⟩ := y
        simp only [pure_run]
        refine ⟨.ctlReadLine :: l1 ++ .ctlReadLine :: l2, by simp only [k1, g1, h2]; simp, by simp only [k2, g2, h3], hall, ?_⟩
        intro o ho
        simp only [Res.ok.injEq] at ho
        subst ho
        rw [k4 r2 rs2 rfl, hrs1, received_append]
        simp only [List.append_assoc]
        rfl

theorem writes_eq_nil (l : List Ev) (h : ∀ e ∈ l, ∀ b, e ≠ Ev.ctlWrite b) : writes l = [] := by
  induction l with
  | nil => rfl
  | cons e l ih =>
    have he := h e (by simp)
    have := ih (fun x hx => h x (by simp [hx]))
    cases e <;> simp_all [writes]

theorem writes_append (l₁ l₂ : List Ev) : writes (l₁ ++ l₂) = writes l₁ ++ writes l₂ := by
  simp [writes]

theorem received_eq_nil (l : List Ev) (h : ∀ e ∈ l, ∀ c t, e ≠ Ev.ctlReply c t) : received l = [] := by
  induction l with
  | nil => rfl
  | cons e l ih =>
    have he := h e (by simp)
    have := ih (fun x hx => h x (by simp [hx]))
    cases e <;> simp_all [received]

/-- C12: once cancellation has been reported, the end of the transfer sends ABOR ... -/
theorem finishTransfer_cancelled (w : World) (rs : Replies) (d : Nat) (a : Option Nat) (hcan : w.cancelled = true)
    (hc : w.conn = some { sock := some d, acc := a }) (hconn : w.connected = true) :
    (writes (added (finishTransfer true rs) w)).head? = some (str "ABOR\r\n") ∧
    Ev.dataShutdown d ∉ added (finishTransfer true rs) w ∧
    (∀ o, result (finishTransfer true rs) w = .ok o →
        Ev.dataClose d ∈ added (finishTransfer true rs) w ∧
        o.list = rs.list ++ received (added (finishTransfer true rs) w)) := by
  have hpoll : (w.cancelled || w.polls.head?.getD false) = true := by simp [hcan]
  obtain ⟨l, h1, h2, h3, h4⟩ := processAbort_spec rs
    { w with polls := w.polls.tail, cancelled := true, trace := w.trace ++ [.cbPoll true] } hconn
  simp only at h1 h2
  have hrun : finishTransfer true rs w = (processAbort rs >>= fun rs' => dataDisconnect false >>= fun _ => pure rs')
      { w with polls := w.polls.tail, cancelled := true, trace := w.trace ++ [.cbPoll true] } := by
    unfold finishTransfer
    msimp [bind_eq, poll_run, hpoll]
  rcases hr : processAbort rs
    { w with polls := w.polls.tail, cancelled := true, trace := w.trace ++ [.cbPoll true] } with ⟨res, w2⟩
  rw [hr] at h1 h2 h4
  simp only at h1 h2 h4
  generalize hpre : [Ev.cbPoll true] ++ w.observers.map (fun o => Ev.obsRequest o (str "ABOR")) = pre at *
  have hobs : writes pre = [] := by
    apply writes_eq_nil
    intro e he b
    rw [← hpre] at he
    simp at he
    rcases he with he | ⟨o, _, he⟩ <;> subst he <;> simp
  have hrecpre : received (pre ++ [.ctlWrite (str "ABOR" ++ CRLF)]) = [] := by
    apply received_eq_nil
    intro e he c t
    rw [← hpre] at he
    simp at he
    rcases he with he | ⟨o, _, he⟩ | he <;> subst he <;> simp
  have hnosh : ∀ l', (∀ e ∈ l', ctlEv e = true ∨ ∃ x, e = Ev.dataClose x) →
      Ev.dataShutdown d ∉ pre ++ [.ctlWrite (str "ABOR" ++ CRLF)] ++ l' := by
    intro l' hl' hmem
    rw [← hpre] at hmem
    simp at hmem
    have := hl' _ hmem
    simp [ctlEv] at this
  have hwr : ∀ l', (writes (pre ++ [.ctlWrite (str "ABOR" ++ CRLF)] ++ l')).head? = some (str "ABOR\r\n") := by
    intro l'
    rw [writes_append, writes_append, hobs]
    rfl
  have h1' : w2.trace = w.trace ++ (pre ++ [.ctlWrite (str "ABOR" ++ CRLF)] ++ l) := by
    rw [h1, ← hpre]; simp
  cases res with
  | throw =>
    have htr : (after (finishTransfer true rs) w).trace = w.trace ++ (pre ++ [.ctlWrite (str "ABOR" ++ CRLF)] ++ l) := by
      simp only [after, hrun, bind_throw hr, h1']
    have hres : result (finishTransfer true rs) w = .throw := by
      simp only [result, hrun, bind_throw hr]
    rw [added_of_trace _ _ _ htr, hres]
    exact ⟨hwr l, hnosh l (fun e he => .inl (h3 e he)), fun o ho => by simp at ho⟩
  | ok rs' =>
    obtain ⟨l2, g1, g2⟩ := dataDisconnect_false w2 d a (by rw [h2]; exact hc)
    rcases hd : dataDisconnect false w2 with ⟨res2, w3⟩
    rw [hd] at g1
    simp only at g1
    have htr : (after (finishTransfer true rs) w).trace = w.trace ++ (pre ++ [.ctlWrite (str "ABOR" ++ CRLF)] ++
        (l ++ .dataClose d :: l2)) := by
      simp only [after, hrun, bind_ok hr]
      rw [bind_eq, hd]
      cases res2 <;> simp only [pure_run, g1, h1'] <;> simp
    have hres : ∀ o, result (finishTransfer true rs) w = .ok o → o = rs' := by
      intro o
      simp only [result, hrun, bind_ok hr]
      rw [bind_eq, hd]
      cases res2 <;> simp
      exact fun h => h.symm
    rw [added_of_trace _ _ _ htr]
    refine ⟨hwr _, hnosh _ ?_, ?_⟩
    · intro e he
      simp only [List.mem_append, List.mem_cons] at he
      rcases he with he | he | he
      · exact .inl (h3 e he)
      · exact .inr ⟨d, he⟩
      · exact .inr (g2 e he)
    · intro o ho
      have := hres o ho
      subst this
      refine ⟨by simp, ?_⟩
      rw [h4 o rfl]
      have hrec2 : received (Ev.dataClose d :: l2) = [] := by
        apply received_eq_nil
        intro e he c t
        simp at he
        rcases he with he | he
        · subst he; simp
        · obtain ⟨x, hx⟩ := g2 e he
          subst hx; simp
      rw [received_append, hrecpre, received_append, hrec2]
      simp

/-- a continuation that neither throws nor touches the world does not change the final world -/
theorem bind_snd {α β : Type} (m : M α) (f : α → M β) (w : World) (hf : ∀ a w', (f a w').2 = w') :
    ((m >>= f) w).2 = (m w).2 := by
  rw [bind_eq]
  rcases m w with ⟨r | _, w'⟩
  · exact hf r w'
  · rfl

theorem poll_bind {β : Type} (f : Bool → M β) (w : World) : (poll >>= f) w =
    f (w.cancelled || w.polls.head?.getD false)
     { w with polls := w.polls.tail, cancelled := (w.cancelled || w.polls.head?.getD false),
              trace := w.trace ++ [.cbPoll (w.cancelled || w.polls.head?.getD false)] } := rfl

theorem finishTransfer_no_abort (w : World) (rs : Replies) (hcan : w.cancelled = false)
    (hp : w.polls.head?.getD false = false) :
    writes (added (finishTransfer true rs) w) = [] := by
  have hpoll : (w.cancelled || w.polls.head?.getD false) = false := by simp [hcan, hp]
  obtain ⟨l1, h1, h2⟩ := dataDisconnect_events true
    { w with polls := w.polls.tail, cancelled := false, trace := w.trace ++ [.cbPoll false] }
  have key : ∃ l, (after (finishTransfer true rs) w).trace = w.trace ++ l ∧ ∀ e ∈ l, ∀ b, e ≠ Ev.ctlWrite b := by
    unfold after finishTransfer
    msimp [poll_bind, hpoll]
    rcases hd : dataDisconnect true
      { w with polls := w.polls.tail, cancelled := false, trace := w.trace ++ [.cbPoll false] } with ⟨res, w2⟩
    rw [bind_eq, hd]
    rw [hd] at h1
    simp only at h1
    have hl1 : ∀ e ∈ l1, ∀ b, e ≠ Ev.ctlWrite b := by
      intro e he b
      rcases h2 e he with ⟨x, hx⟩ | ⟨_, x, hx⟩ <;> subst hx <;> simp
    cases res with
    | throw =>
      refine ⟨.cbPoll false :: l1, by simp only [h1]; simp, ?_⟩
      intro e he b
      rcases List.mem_cons.1 he with he | he
      · subst he; simp
      · exact hl1 e he b
    | ok u =>
      simp only
      obtain ⟨l2, g1, _, g3, _⟩ := recvInto_spec rs w2
      rw [bind_snd _ _ _ (by rintro ⟨_, _⟩ w'; rfl), g1, h1]
      refine ⟨.cbPoll false :: l1 ++ .ctlReadLine :: l2, by simp, ?_⟩
      intro e he b
      simp only [List.mem_append, List.mem_cons] at he
      rcases he with (he | he) | he | he
      · subst he; simp
      · exact hl1 e he b
      · subst he; simp
      · have := g3 e he
        intro hc; subst hc; simp [ctlEv] at this
  obtain ⟨l, hl, hw⟩ := key
  rw [added_of_trace _ _ _ hl]
  exact writes_eq_nil l hw

theorem finishTransfer_close_first (w : World) (rs : Replies) (d : Nat) (a : Option Nat)
    (hc : w.conn = some { sock := some d, acc := a }) (hcl : ∀ b ∈ w.closeFails, b = false) :
    ∃ rest, added (finishTransfer false rs) w =
      [Ev.dataShutdown d, Ev.dataClose d] ++ a.toList.map Ev.dataClose ++ Ev.ctlReadLine :: rest := by
  obtain ⟨w1, h1, h2⟩ := dataDisconnect_true_ok w d a hc hcl
  obtain ⟨l2, g1, _, _, _⟩ := recvInto_spec rs w1
  refine ⟨l2, ?_⟩
  apply added_of_trace
  unfold after finishTransfer
  msimp
  rw [bind_ok h1]
  rw [bind_snd _ _ _ (by rintro ⟨_, _⟩ w'; rfl), g1, h2]
  simp
end Ftp.Client.DataL
