import Ftp.Spec.Session
import Ftp.Spec.RefAutomaton
import Ftp.Lemmas.Endpoint
import Ftp.Lemmas.ReaderTotal
/-
  helper lemmas about the client-level model (`Ftp.Client`): a small program logic for the state-and-exception monad
  `M`, invariants that hold on every path (`Keeps`), and specifications of the successful paths of the control-channel
  primitives and of the operations built from them (used by C10 and C09 at client level)
-/
set_option linter.unusedSectionVars false
set_option linter.unusedVariables false
set_option linter.unusedSimpArgs false

namespace Ftp.Client.CtlL
open Ftp Ftp.Client Ftp.Session Ftp.Endpoint

/-! ### the monad -/

theorem bind_apply {α β} (m : M α) (f : α → M β) (w : World) :
    (m >>= f) w = match m w with
      | (.ok a, w') => f a w'
      | (.throw, w') => (.throw, w') := rfl

theorem pure_apply {α} (a : α) (w : World) : (pure a : M α) w = (.ok a, w) := rfl

theorem throwE_apply {α} (w : World) : (throwE : M α) w = (.throw, w) := rfl

theorem modifyW_apply (f : World → World) (w : World) : modifyW f w = (.ok (), f w) := rfl

theorem bind_ok {α β} {m : M α} {f : α → M β} {w w' : World} {b : β} :
    (m >>= f) w = (.ok b, w') ↔ ∃ a w1, m w = (.ok a, w1) ∧ f a w1 = (.ok b, w') := by
  rw [bind_apply]
  rcases m w with ⟨a | _, w1⟩
  · constructor
    · intro h; exact ⟨a, w1, rfl, h⟩
    · rintro ⟨a', w1', h1, h2⟩
      simp only [Prod.mk.injEq, Res.ok.injEq] at h1
      obtain ⟨rfl, rfl⟩ := h1
      exact h2
  · simp

theorem pure_ok {α} {a b : α} {w w' : World} : (pure a : M α) w = (.ok b, w') ↔ a = b ∧ w = w' := by
  simp [pure_apply]

theorem throwE_ok {α} {b : α} {w w' : World} : (throwE : M α) w = (.ok b, w') ↔ False := by
  simp [throwE]

theorem getW_ok {a w w' : World} : getW w = (.ok a, w') ↔ a = w ∧ w' = w := by
  simp [getW]; constructor <;> (rintro ⟨rfl, rfl⟩; exact ⟨rfl, rfl⟩)

theorem modifyW_ok {f : World → World} {u : Unit} {w w' : World} : modifyW f w = (.ok u, w') ↔ w' = f w := by
  simp [modifyW]; constructor <;> (intro h; exact h.symm)

/-! ### invariants of every path -/

/-- a relation between the world before and after that holds however the program ends -/
def Keeps {α} (R : World → World → Prop) (m : M α) : Prop := ∀ w, R w (m w).2

/-- ... together with a property of the value when it returns -/
def KeepsP {α} (R : World → World → Prop) (m : M α) (P : α → Prop) : Prop :=
  ∀ w, R w (m w).2 ∧ ∀ a, (m w).1 = .ok a → P a

class IsPre (R : World → World → Prop) : Prop where
  refl : ∀ w, R w w
  trans : ∀ {a b c}, R a b → R b c → R a c

namespace Keeps
variable {R : World → World → Prop} [IsPre R] {α β : Type}

theorem pure (a : α) : Keeps R (Pure.pure a : M α) := fun w => IsPre.refl w
theorem throwE : Keeps R (Client.throwE : M α) := fun w => IsPre.refl w
theorem getW : Keeps R Client.getW := fun w => IsPre.refl w
theorem modifyW {f : World → World} (h : ∀ w, R w (f w)) : Keeps R (Client.modifyW f) := h

theorem bind {m : M α} {f : α → M β} (hm : Keeps R m) (hf : ∀ a, Keeps R (f a)) : Keeps R (m >>= f) := by
  intro w
  have h1 := hm w
  rw [bind_apply]
  rcases hmw : m w with ⟨a | _, w1⟩
  · rw [hmw] at h1
    exact IsPre.trans h1 (hf a w1)
  · rw [hmw] at h1
    exact h1

theorem bindP {m : M α} {f : α → M β} {P : α → Prop} (hm : KeepsP R m P) (hf : ∀ a, P a → Keeps R (f a)) :
    Keeps R (m >>= f) := by
  intro w
  obtain ⟨h1, h2⟩ := hm w
  rw [bind_apply]
  rcases hmw : m w with ⟨a | _, w1⟩
  · rw [hmw] at h1 h2
    exact IsPre.trans h1 (hf a (h2 a rfl) w1)
  · rw [hmw] at h1
    exact h1

theorem ite {c : Prop} [Decidable c] {a b : M α} (ha : Keeps R a) (hb : Keeps R b) : Keeps R (if c then a else b) := by
  split <;> assumption

theorem withScope {body : M α} {cleanup : M Unit} (hb : Keeps R body) (hc : Keeps R cleanup) :
    Keeps R (Client.withScope body cleanup) := by
  intro w
  have h1 := hb w
  have h2 := hc (body w).2
  unfold Client.withScope
  rcases hbw : body w with ⟨a | _, w1⟩
  · rw [hbw] at h1 h2
    simp only at h2 ⊢
    rcases hcw : cleanup w1 with ⟨u | _, w2⟩ <;> (rw [hcw] at h2; exact IsPre.trans h1 h2)
  · rw [hbw] at h1 h2
    exact IsPre.trans h1 h2

theorem mono {R' : World → World → Prop} {m : M α} (h : Keeps R m) (hr : ∀ w w', R w w' → R' w w') : Keeps R' m :=
  fun w => hr _ _ (h w)

/-- what a run that returned tells about the final world -/
theorem of_eq {m : M α} (h : Keeps R m) {w w' : World} {r : Res α} (he : m w = (r, w')) : R w w' := by
  have := h w; rw [he] at this; exact this

end Keeps

/-! ### the relations -/

/-- the events of the framed control-channel view -/
def isCtlEv : Ev → Bool
  | .ctlWrite _ | .ctlReply _ _ => true
  | _ => false

/-- the transfer type is kept and the trace is extended by events that satisfy `P` -/
def Rg (P : Ev → Prop) (w w' : World) : Prop :=
  w'.ttype = w.ttype ∧ ∃ evs, w'.trace = w.trace ++ evs ∧ ∀ e ∈ evs, P e

instance (P : Ev → Prop) : IsPre (Rg P) where
  refl w := ⟨rfl, [], by simp, by simp⟩
  trans := by
    rintro a b c ⟨h1, e1, t1, p1⟩ ⟨h2, e2, t2, p2⟩
    refine ⟨h2.trans h1, e1 ++ e2, by rw [t2, t1, List.append_assoc], ?_⟩
    intro e he
    rcases List.mem_append.mp he with he | he
    · exact p1 e he
    · exact p2 e he

/-- the sticky cancellation flag is kept -/
def Rcanc (w w' : World) : Prop := w'.cancelled = w.cancelled

instance : IsPre Rcanc where
  refl _ := rfl
  trans h1 h2 := Eq.trans h2 h1

/-- the non-control events -/
abbrev P0 : Ev → Prop := fun e => isCtlEv e = false

namespace Rg
variable {P : Ev → Prop}

theorem modifyW {f : World → World} (h1 : ∀ w, (f w).ttype = w.ttype) (h2 : ∀ w, (f w).trace = w.trace) :
    Keeps (Rg P) (Client.modifyW f) :=
  fun w => ⟨h1 w, [], by simp [Client.modifyW, h2 w], by simp⟩

theorem emit {e : Ev} (h : P e) : Keeps (Rg P) (Client.emit e) :=
  fun w => ⟨rfl, [e], rfl, by simpa using h⟩

theorem forObservers {f : Nat → Ev} (h : ∀ o, P (f o)) : Keeps (Rg P) (Client.forObservers f) := by
  intro w
  refine ⟨rfl, w.observers.map f, rfl, ?_⟩
  intro e he
  obtain ⟨o, _, rfl⟩ := List.mem_map.mp he
  exact h o

theorem mono {P' : Ev → Prop} {α} {m : M α} (h : Keeps (Rg P) m) (hp : ∀ e, P e → P' e) : Keeps (Rg P') m := by
  intro w
  obtain ⟨h1, evs, h2, h3⟩ := h w
  exact ⟨h1, evs, h2, fun e he => hp e (h3 e he)⟩

end Rg

namespace Rcanc
theorem emit (e : Ev) : Keeps Rcanc (Client.emit e) := fun _ => rfl
theorem forObservers (f : Nat → Ev) : Keeps Rcanc (Client.forObservers f) := fun _ => rfl
end Rcanc

/-! #### the command lines -/

theorem hasCrLf_append (a b : Bytes) : hasCrLf (a ++ b) = (hasCrLf a || hasCrLf b) := by
  simp [hasCrLf, List.any_append]

theorem hasCrLf_false_iff (s : Bytes) : hasCrLf s = false ↔ CR ∉ s ∧ LF ∉ s := by
  induction s with
  | nil => simp [hasCrLf]
  | cons c t ih =>
    have : hasCrLf (c :: t) = ((c = CR || c = LF) || hasCrLf t) := by simp [hasCrLf]
    rw [this]
    simp only [Bool.or_eq_false_iff, ih, List.mem_cons, not_or, decide_eq_false_iff_not]
    constructor
    · rintro ⟨⟨h1, h2⟩, h3, h4⟩; exact ⟨⟨fun h => h1 h.symm, h3⟩, fun h => h2 h.symm, h4⟩
    · rintro ⟨⟨h1, h3⟩, h2, h4⟩; exact ⟨⟨fun h => h1 h.symm, fun h => h2 h.symm⟩, h3, h4⟩

theorem hasCrLf_toDec (n : Nat) : hasCrLf (toDec n) = false :=
  (hasCrLf_false_iff _).2 ⟨not_mem_toDec n (.inl (by decide)), not_mem_toDec n (.inl (by decide))⟩

theorem makeCommand_clean {verb : Bytes} {arg : Option Bytes} {c : Bytes} (hv : hasCrLf verb = false)
    (h : makeCommand verb arg = some c) : hasCrLf c = false := by
  cases arg with
  | none => simp [makeCommand] at h; subst h; exact hv
  | some a =>
    simp only [makeCommand] at h
    split at h
    · cases h
    · rename_i ha
      simp only [Option.some.injEq] at h
      subst h
      simp only [hasCrLf_append, hv, Bool.false_or]
      simp only [Bool.not_eq_true] at ha
      rw [ha]
      decide

theorem typeCommand_clean (t : TType) : hasCrLf (typeCommand t) = false := by cases t <;> decide

theorem addrText_cases (w : World) : addrText w = str "::1" ∨ addrText w = str "127.0.0.1" := by
  unfold addrText; split <;> simp

theorem fmtEprt_clean (fam : Family) (w : World) (port : Nat) : hasCrLf (fmtEprt fam (addrText w) port) = false := by
  unfold fmtEprt
  have h1 : hasCrLf (str "EPRT |") = false := by decide
  have h3 : hasCrLf [124] = false := by decide
  have h4 : hasCrLf (addrText w) = false := by rcases addrText_cases w with h | h <;> (rw [h]; decide)
  simp only [hasCrLf_append, hasCrLf_toDec, h1, h3, h4, Bool.or_false, Bool.false_or]
  cases fam <;> decide

theorem fmtPort_clean (fam : Family) (w : World) (port : Nat) (c : Bytes) (h : fmtPort fam (addrText w) port = some c) :
    hasCrLf c = false := by
  unfold fmtPort at h
  cases fam with
  | v6 => cases h
  | v4 =>
    simp only [Option.some.injEq] at h
    subst h
    have h1 : hasCrLf (str "PORT ") = false := by decide
    have h3 : hasCrLf [44] = false := by decide
    have h4 : hasCrLf ((addrText w).map (fun ch => if ch = 46 then 44 else ch)) = false := by
      rcases addrText_cases w with h | h <;> (rw [h]; decide)
    simp only [hasCrLf_append, hasCrLf_toDec, h1, h3, h4, Bool.or_false]

/-- `Q` accepts every one-line write -/
def CmdOk (Q : Bytes → Prop) : Prop := ∀ c, hasCrLf c = false → Q (c ++ CRLF)

/-- a verb is harmless: it is free of line breaks, or `Q` does not care -/
def VerbOk (Q : Bytes → Prop) (v : String) : Prop := (∀ b, Q b) ∨ hasCrLf (str v) = false

theorem mkCmd_P {Q : Bytes → Prop} {R : World → World → Prop} [IsPre R] (hQ : CmdOk Q) {v : String} (hv : VerbOk Q v)
    (a : Option Bytes) : KeepsP R (mkCmd v a) (fun c => Q (c ++ CRLF)) := by
  intro w
  unfold mkCmd
  cases hm : makeCommand (str v) a with
  | none => exact ⟨IsPre.refl w, fun a h => by cases h⟩
  | some c =>
    refine ⟨IsPre.refl w, fun c' h => ?_⟩
    simp only [pure_apply, Res.ok.injEq] at h
    subst h
    rcases hv with hv | hv
    · exact hv _
    · exact hQ _ (makeCommand_clean hv hm)

theorem typeCommand_Q {Q : Bytes → Prop} (hQ : CmdOk Q) (t : TType) : Q (typeCommand t ++ CRLF) := hQ _ (typeCommand_clean t)

theorem pure_bind_M {α β} (a : α) (f : α → M β) : (Pure.pure a >>= f) = f a := rfl

theorem throwE_bind_M {α β} (f : α → M β) : (throwE >>= f) = throwE := rfl

theorem mkCmd_keeps {R : World → World → Prop} [IsPre R] (v : String) (a : Option Bytes) : Keeps R (mkCmd v a) := by
  intro w
  unfold mkCmd
  cases makeCommand (str v) a <;> exact IsPre.refl w

theorem mkCmd_ok {v : String} {a : Option Bytes} {c : Bytes} {w w' : World} (h : mkCmd v a w = (.ok c, w')) :
    makeCommand (str v) a = some c ∧ w' = w := by
  unfold mkCmd at h
  cases hm : makeCommand (str v) a with
  | none => rw [hm] at h; simp [throwE] at h
  | some c' =>
    rw [hm] at h
    simp only [pure_apply, Prod.mk.injEq, Res.ok.injEq] at h
    exact ⟨by rw [h.1], h.2.symm⟩

/-! ### the successful paths of the control primitives -/

theorem ctlSend_ok {cmd : Bytes} {w w' : World} {u : Unit} (h : ctlSend cmd w = (.ok u, w')) :
    w'.trace = w.trace ++ w.observers.map (fun o => Ev.obsRequest o cmd) ++ [.ctlWrite (cmd ++ CRLF)] := by
  unfold ctlSend at h
  simp only [bind_ok, forObservers, getW_ok, modifyW_ok, emit] at h
  obtain ⟨_, w1, ⟨_, _, ⟨rfl, rfl⟩, rfl⟩, _, w2, ⟨rfl, rfl⟩, h⟩ := h
  split at h
  · simp [bind_ok, throwE_ok] at h
  · simp only [bind_ok, modifyW_ok] at h
    obtain ⟨_, _, rfl, rfl⟩ := h
    rfl

theorem parseStatus_lt {l : Bytes} {code : Nat} (h : Reader.parseStatus l = some code) : code < 1000 := by
  unfold Reader.parseStatus at h
  split at h
  · cases h
  · rename_i hl
    rw [parseU16_spec] at h
    split at h
    · rename_i hd
      simp only [Option.some.injEq] at h
      subst h
      obtain ⟨hd, _⟩ := hd
      have hall := isDigits_all hd
      match l, hl with
      | a :: b :: c :: t, _ =>
        simp only [List.take_succ_cons, List.take_zero, List.mem_cons, List.not_mem_nil, or_false] at hall
        have ha := hall a (.inl rfl)
        have hb := hall b (.inr (.inl rfl))
        have hc := hall c (.inr (.inr rfl))
        simp only [List.take_succ_cons, List.take_zero, decValue, List.foldl_cons, List.foldl_nil]
        omega
      | [], h | [_], h | [_, _], h => simp at h
    · cases h

theorem recvFin_code {c : Reader.Ctl} {code : Nat} {body} {code' : Nat} {text : Bytes}
    (h : (Reader.recvFin c code body).1 = .reply code' text) : code' = code := by
  obtain ⟨o, b, buf2, net2⟩ := body
  cases o <;> cases b <;> simp [Reader.recvFin] at h
  exact h.1.symm

theorem recvTail_code {c : Reader.Ctl} {l buf1 : Bytes} {net1} {code : Nat} {text : Bytes}
    (h : (Reader.recvTail c l buf1 net1).1 = .reply code text) : code < 1000 := by
  unfold Reader.recvTail at h
  split at h
  · cases h
  · rename_i code' hps
    rw [recvFin_code h]
    exact parseStatus_lt hps

theorem recvFirst_code {c : Reader.Ctl} {first} {code : Nat} {text : Bytes}
    (h : (Reader.recvFirst c first).1 = .reply code text) : code < 1000 := by
  obtain ⟨res, buf1, net1⟩ := first
  cases res <;> simp only [Reader.recvFirst] at h <;> first | exact recvTail_code h | cases h

theorem recv_code_lt {c : Reader.Ctl} {net : Reader.Net} {code : Nat} {text : Bytes}
    (h : (Reader.recv c net).1 = .reply code text) : code < 1000 := by
  rw [Reader.recv_eq] at h
  rcases hr : Reader.readLine c.buf net with ⟨res, buf0, net0⟩
  rw [hr] at h
  cases res <;> simp only at h <;> first | exact recvFirst_code h | cases h

theorem ctlClose_p0 : Keeps (Rg P0) ctlClose := by
  unfold ctlClose
  refine Keeps.bind (Rg.emit rfl) (fun _ => Keeps.bind (Rg.emit rfl) (fun _ => Rg.modifyW (fun _ => rfl) (fun _ => rfl)))

theorem ctlRecv_ok {w w' : World} {r : Reply} (h : ctlRecv w = (.ok r, w')) :
    ∃ evs, w'.trace = w.trace ++ [.ctlReadLine, .ctlReply r.code r.text] ++ evs ∧ (∀ e ∈ evs, isCtlEv e = false) ∧
      r.code < 1000 := by
  unfold ctlRecv at h
  simp only [bind_ok, getW_ok, modifyW_ok, emit] at h
  obtain ⟨_, w1, ⟨rfl, rfl⟩, _, _, rfl, h⟩ := h
  split at h
  · simp [throwE_ok] at h
  · rcases hr : Reader.recv { w1.ctl with closed := false } w1.net with ⟨rr, c', net'⟩
    have hlt := @recv_code_lt { w1.ctl with closed := false } w1.net
    rw [hr] at h hlt
    simp only [bind_ok, modifyW_ok] at h
    obtain ⟨_, _, rfl, h⟩ := h
    cases rr with
    | reply code text =>
      simp only [bind_ok, modifyW_ok] at h
      obtain ⟨_, _, rfl, h⟩ := h
      have k5 := fun w5 w6 (h5 : (forObservers fun o => Ev.obsReply o code text) w5 = (Res.ok (), w6)) =>
        (Rg.forObservers (P := P0) (f := fun o => Ev.obsReply o code text) (fun _ => rfl)).of_eq h5
      split at h
      · simp only [bind_ok, pure_ok] at h
        obtain ⟨_, w4, h4, _, w5, h5, rfl, rfl⟩ := h
        obtain ⟨_, e4, t4, p4⟩ := ctlClose_p0.of_eq h4
        obtain ⟨_, e5, t5, p5⟩ := k5 _ _ h5
        refine ⟨e4 ++ e5, ?_, ?_, hlt rfl⟩
        · rw [t5, t4]; simp
        · intro e he
          rcases List.mem_append.mp he with he | he
          · exact p4 e he
          · exact p5 e he
      · simp only [bind_ok, pure_ok] at h
        obtain ⟨_, w5, h5, rfl, rfl⟩ := h
        obtain ⟨_, e5, t5, p5⟩ := k5 _ _ h5
        exact ⟨e5, by rw [t5]; simp, p5, hlt rfl⟩
    | error => simp [throwE_ok] at h
    | fuel => simp [throwE_ok] at h

-- keep the unifier from unfolding the programs when a rule does not apply
attribute [local irreducible] throwE getW modifyW emit withScope forObservers ctlSend ctlClose ctlRecv recvInto mkCmd
  processCommand processCommandInto typeCommand simple processLogin login connect logout setTransferType rename
  disconnect newDescriptor closeD destroyConn dataDisconnect addrText dataConnect dataListen dataAccept processEpsv
  processPasv processActive createDataConnection poll sinkWrite sinkFlush streamWrite streamFlush recvLoop dataRecv
  srcRead dataWrite sendLoopBin sendLoopAscii dataSend processAbort finishTransfer download upload fileList

/-- closes the goals `Keeps R p` for the primitives -/
macro "keeps_prim" : tactic => `(tactic| first
  | exact Keeps.pure _
  | exact Keeps.throwE
  | exact Keeps.getW
  | exact Keeps.modifyW (fun _ => rfl)
  | exact Rg.modifyW (fun _ => rfl) (fun _ => rfl)
  | exact Rg.emit (by first | rfl | (intro b h; cases h))
  | exact Rg.forObservers (fun _ => by first | rfl | (intro b h; cases h))
  | exact Rcanc.emit _
  | exact Rcanc.forObservers _
  | assumption)

macro "keeps_step" : tactic => `(tactic| first
  | keeps_prim
  | rw [pure_bind_M]
  | rw [throwE_bind_M]
  | refine Keeps.bind ?_ (fun _ => ?_)
  | apply Keeps.ite
  | apply Keeps.withScope
  | dsimp only
  | split)

macro "keeps" : tactic => `(tactic| repeat keeps_step)

syntax "keeps_with" "[" term,* "]" : tactic
macro_rules
  | `(tactic| keeps_with [$ts,*]) => `(tactic| repeat (first $[| exact $ts]* | keeps_step))

section data
variable {R : World → World → Prop}

theorem closeD_rg (d : Nat) : Keeps (Rg P0) (closeD d) := by unfold closeD; keeps
theorem closeD_canc (d : Nat) : Keeps Rcanc (closeD d) := by unfold closeD; keeps

theorem destroyConn_rg : Keeps (Rg P0) destroyConn := by unfold destroyConn; keeps_with [closeD_rg _]
theorem destroyConn_canc : Keeps Rcanc destroyConn := by unfold destroyConn; keeps_with [closeD_canc _]
theorem dataDisconnect_rg (g : Bool) : Keeps (Rg P0) (dataDisconnect g) := by
  unfold dataDisconnect; keeps_with [closeD_rg _]
theorem dataDisconnect_canc (g : Bool) : Keeps Rcanc (dataDisconnect g) := by
  unfold dataDisconnect; keeps_with [closeD_canc _]
theorem newDescriptor_rg : Keeps (Rg P0) newDescriptor := by unfold newDescriptor; keeps
theorem dataConnect_rg (a : Bytes) (p : Nat) : Keeps (Rg P0) (dataConnect a p) := by
  unfold dataConnect; keeps_with [newDescriptor_rg, closeD_rg _]
theorem dataListen_rg : Keeps (Rg P0) dataListen := by unfold dataListen; keeps_with [newDescriptor_rg]
theorem dataAccept_rg : Keeps (Rg P0) dataAccept := by unfold dataAccept; keeps
theorem poll_rg : Keeps (Rg P0) poll := by unfold poll; keeps
theorem sinkWrite_rg (bs : Bytes) : Keeps (Rg P0) (sinkWrite bs) := by unfold sinkWrite; keeps
theorem sinkFlush_rg : Keeps (Rg P0) sinkFlush := by unfold sinkFlush; keeps
theorem streamWrite_rg (t : TType) (prev : Bool) (b : Bytes) : Keeps (Rg P0) (streamWrite t prev b) := by
  unfold streamWrite; keeps_with [sinkWrite_rg _]
theorem streamFlush_rg (t : TType) (prev : Bool) : Keeps (Rg P0) (streamFlush t prev) := by
  unfold streamFlush; keeps_with [sinkWrite_rg _, sinkFlush_rg]
theorem srcRead_rg (n : Nat) : Keeps (Rg P0) (srcRead n) := by unfold srcRead; keeps
theorem dataWrite_rg (d : Nat) (b : Bytes) : Keeps (Rg P0) (dataWrite d b) := by unfold dataWrite; keeps

theorem recvLoop_rg (cb : Bool) (t : TType) (d : Nat) :
    ∀ (fuel : Nat) (payload : Bytes) (prev : Bool), Keeps (Rg P0) (recvLoop cb t d fuel payload prev)
  | 0, _, _ => by unfold recvLoop; keeps
  | fuel + 1, payload, prev => by
    have ih := recvLoop_rg cb t d fuel
    have := streamWrite_rg
    have := poll_rg
    unfold recvLoop
    repeat (first | exact ih _ _ | exact streamWrite_rg _ _ _ | exact poll_rg | keeps_step)

theorem dataRecv_rg (cb : Bool) (t : TType) : Keeps (Rg P0) (dataRecv cb t) := by
  unfold dataRecv
  repeat (first | exact recvLoop_rg _ _ _ _ _ _ | exact streamFlush_rg _ _ | exact poll_rg | keeps_step)

theorem sendLoopBin_rg (cb : Bool) (d : Nat) : ∀ (fuel : Nat), Keeps (Rg P0) (sendLoopBin cb d fuel)
  | 0 => by unfold sendLoopBin; keeps
  | fuel + 1 => by
    have ih := sendLoopBin_rg cb d fuel
    unfold sendLoopBin
    repeat (first | exact ih | exact srcRead_rg _ | exact dataWrite_rg _ _ | exact poll_rg | keeps_step)

theorem sendLoopAscii_rg (cb : Bool) (d : Nat) :
    ∀ (fuel : Nat) (st : Ascii.IState), Keeps (Rg P0) (sendLoopAscii cb d fuel st)
  | 0, _ => by unfold sendLoopAscii; keeps
  | fuel + 1, st => by
    have ih := sendLoopAscii_rg cb d fuel
    unfold sendLoopAscii
    repeat (first | exact ih _ | exact dataWrite_rg _ _ | exact poll_rg | keeps_step)

theorem dataSend_rg (cb : Bool) (t : TType) : Keeps (Rg P0) (dataSend cb t) := by
  unfold dataSend
  repeat (first | exact sendLoopBin_rg _ _ _ | exact sendLoopAscii_rg _ _ _ _ | exact poll_rg | keeps_step)

end data

/-! ### control primitives and operations, on every path -/

/-- only the control writes are constrained -/
abbrev PW (Q : Bytes → Prop) : Ev → Prop := fun e => ∀ b, e = .ctlWrite b → Q b

theorem P0_PW (Q : Bytes → Prop) (e : Ev) (h : P0 e) : PW Q e := by
  intro b hb; subst hb; simp [P0, isCtlEv] at h

/-- the data-side programs under the relation of the control-side ones -/
theorem data_PW {Q : Bytes → Prop} {α} {m : M α} (h : Keeps (Rg P0) m) : Keeps (Rg (PW Q)) m :=
  Rg.mono h (P0_PW Q)

section ctl
variable {Q : Bytes → Prop}

theorem ctlSend_rg {cmd : Bytes} (h : Q (cmd ++ CRLF)) : Keeps (Rg (PW Q)) (ctlSend cmd) := by
  unfold ctlSend
  keeps_with [Rg.emit (fun b hb => by cases hb; exact h)]

theorem ctlSend_canc (cmd : Bytes) : Keeps Rcanc (ctlSend cmd) := by unfold ctlSend; keeps
theorem ctlClose_rg : Keeps (Rg (PW Q)) ctlClose := by unfold ctlClose; keeps
theorem ctlClose_canc : Keeps Rcanc ctlClose := by unfold ctlClose; keeps
theorem ctlRecv_rg : Keeps (Rg (PW Q)) ctlRecv := by unfold ctlRecv; keeps_with [ctlClose_rg]
theorem ctlRecv_canc : Keeps Rcanc ctlRecv := by unfold ctlRecv; keeps_with [ctlClose_canc]
theorem recvInto_rg (rs : Replies) : Keeps (Rg (PW Q)) (recvInto rs) := by unfold recvInto; keeps_with [ctlRecv_rg]
theorem recvInto_canc (rs : Replies) : Keeps Rcanc (recvInto rs) := by unfold recvInto; keeps_with [ctlRecv_canc]

theorem processCommand_rg {cmd : Bytes} (h : Q (cmd ++ CRLF)) : Keeps (Rg (PW Q)) (processCommand cmd) := by
  unfold processCommand; keeps_with [ctlSend_rg h, ctlRecv_rg]

theorem processCommandInto_rg {cmd : Bytes} (h : Q (cmd ++ CRLF)) (rs : Replies) :
    Keeps (Rg (PW Q)) (processCommandInto cmd rs) := by
  unfold processCommandInto; keeps_with [ctlSend_rg h, recvInto_rg _]

theorem processCommandInto_canc (cmd : Bytes) (rs : Replies) : Keeps Rcanc (processCommandInto cmd rs) := by
  unfold processCommandInto; keeps_with [ctlSend_canc _, recvInto_canc _]

macro "ckeeps_step" : tactic => `(tactic| first
  | exact ctlSend_rg (by assumption)
  | exact processCommandInto_rg (by assumption) _
  | exact processCommandInto_rg (typeCommand_Q (by assumption) _) _
  | exact processCommand_rg (by assumption)
  | exact processCommand_rg (typeCommand_Q (by assumption) _)
  | exact recvInto_rg _
  | exact ctlClose_rg
  | refine Keeps.bindP (mkCmd_P (by assumption) (by first | assumption | exact Or.inr (by decide)) _) (fun _ _ => ?_)
  | keeps_step)

syntax "ckeeps" "[" term,* "]" : tactic
macro_rules
  | `(tactic| ckeeps [$ts,*]) => `(tactic| repeat (first $[| exact $ts]* | ckeeps_step))

theorem simple_rg (hQ : CmdOk Q) {v : String} (hv : VerbOk Q v) (a : Option Bytes) :
    Keeps (Rg (PW Q)) (simple v a) := by
  unfold simple; ckeeps []

theorem processLogin_rg (hQ : CmdOk Q) (u p : Bytes) (rs : Replies) : Keeps (Rg (PW Q)) (processLogin u p rs) := by
  unfold processLogin; ckeeps []

theorem login_rg (hQ : CmdOk Q) (u p : Bytes) : Keeps (Rg (PW Q)) (login u p) := by
  unfold login; ckeeps [processLogin_rg hQ _ _ _]

theorem connect_rg (hQ : CmdOk Q) (h : Bytes) (p : Nat) (c : Option (Bytes × Bytes)) :
    Keeps (Rg (PW Q)) (connect h p c) := by
  unfold connect; ckeeps [processLogin_rg hQ _ _ _]

theorem logout_rg (hQ : CmdOk Q) : Keeps (Rg (PW Q)) logout := by
  unfold logout; exact simple_rg hQ (.inr (by decide)) _

theorem rename_rg (hQ : CmdOk Q) (a b : Bytes) : Keeps (Rg (PW Q)) (rename a b) := by
  unfold rename; ckeeps []

theorem disconnect_rg (hQ : CmdOk Q) (g : Bool) : Keeps (Rg (PW Q)) (disconnect g) := by
  unfold disconnect; ckeeps []

theorem processEpsv_rg (hQ : CmdOk Q) {cmd : Bytes} (hc : Q (cmd ++ CRLF)) (rs : Replies) :
    Keeps (Rg (PW Q)) (processEpsv cmd rs) := by
  unfold processEpsv; ckeeps [data_PW (dataConnect_rg _ _), data_PW (dataDisconnect_rg _)]

theorem processPasv_rg (hQ : CmdOk Q) {cmd : Bytes} (hc : Q (cmd ++ CRLF)) (rs : Replies) :
    Keeps (Rg (PW Q)) (processPasv cmd rs) := by
  unfold processPasv; ckeeps [data_PW (dataConnect_rg _ _), data_PW (dataDisconnect_rg _)]


theorem processActive_rg (hQ : CmdOk Q) (eprt : Bool) {cmd : Bytes} (hc : Q (cmd ++ CRLF)) (rs : Replies) :
    Keeps (Rg (PW Q)) (processActive eprt cmd rs) := by
  unfold processActive
  ckeeps [data_PW dataListen_rg, data_PW dataAccept_rg, processCommandInto_rg (hQ _ (fmtEprt_clean _ _ _)) _,
    processCommandInto_rg (hQ _ (fmtPort_clean _ _ _ _ (by assumption))) _]

theorem createDataConnection_rg (hQ : CmdOk Q) {cmd : Bytes} (hc : Q (cmd ++ CRLF)) (rs : Replies) :
    Keeps (Rg (PW Q)) (createDataConnection cmd rs) := by
  unfold createDataConnection
  ckeeps [processEpsv_rg hQ hc _, processPasv_rg hQ hc _, processActive_rg hQ _ hc _]

theorem processAbort_rg (hQ : CmdOk Q) (rs : Replies) : Keeps (Rg (PW Q)) (processAbort rs) := by
  unfold processAbort; ckeeps []

theorem processAbort_canc (rs : Replies) : Keeps Rcanc (processAbort rs) := by
  unfold processAbort
  keeps_with [mkCmd_keeps _ _, processCommandInto_canc _ _, recvInto_canc _]

theorem finishTransfer_rg (hQ : CmdOk Q) (cb : Bool) (rs : Replies) : Keeps (Rg (PW Q)) (finishTransfer cb rs) := by
  unfold finishTransfer
  ckeeps [processAbort_rg hQ _, data_PW (dataDisconnect_rg _), data_PW poll_rg]

theorem download_rg (hQ : CmdOk Q) (p : Bytes) (cb : Bool) : Keeps (Rg (PW Q)) (download p cb) := by
  unfold download
  ckeeps [createDataConnection_rg hQ (by assumption) _, finishTransfer_rg hQ _ _, data_PW (dataRecv_rg _ _),
    data_PW destroyConn_rg]

theorem upload_rg (hQ : CmdOk Q) {v : String} (hv : VerbOk Q v) (p : Bytes) (cb : Bool) :
    Keeps (Rg (PW Q)) (upload v p cb) := by
  unfold upload
  ckeeps [createDataConnection_rg hQ (by assumption) _, finishTransfer_rg hQ _ _, data_PW (dataSend_rg _ _),
    data_PW destroyConn_rg]

theorem fileList_rg (hQ : CmdOk Q) (p : Option Bytes) (n : Bool) : Keeps (Rg (PW Q)) (fileList p n) := by
  unfold fileList
  have hv : VerbOk Q (if n = true then "NLST" else "LIST") := by cases n <;> exact .inr (by decide)
  ckeeps [createDataConnection_rg hQ (by assumption) _, data_PW (dataDisconnect_rg _), data_PW (dataRecv_rg _ _),
    data_PW destroyConn_rg]

end ctl

/-! ### the framed view of the successful paths -/

theorem writes_append (a b : List Ev) : writes (a ++ b) = writes a ++ writes b := by
  simp [writes, List.filterMap_append]

theorem received_append (a b : List Ev) : received (a ++ b) = received a ++ received b := by
  simp [received, List.filterMap_append]

theorem silent_of_P0 {evs : List Ev} (h : ∀ e ∈ evs, P0 e) : writes evs = [] ∧ received evs = [] := by
  induction evs with
  | nil => exact ⟨rfl, rfl⟩
  | cons e t ih =>
    obtain ⟨i1, i2⟩ := ih (fun e he => h e (List.mem_cons_of_mem _ he))
    have he := h e (List.mem_cons_self ..)
    cases e <;> simp_all [writes, received, P0, isCtlEv]

/-- from `w` to `w'` the trace grew by events whose control writes are `ws` and whose framed replies are `rs` -/
def Ext (w w' : World) (ws : List Bytes) (rs : List Reply) : Prop :=
  ∃ evs, w'.trace = w.trace ++ evs ∧ writes evs = ws ∧ received evs = rs

theorem Ext.refl (w : World) : Ext w w [] [] := ⟨[], by simp, rfl, rfl⟩

theorem Ext.trans {a b c : World} {ws ws' : List Bytes} {rs rs' : List Reply} (h1 : Ext a b ws rs)
    (h2 : Ext b c ws' rs') : Ext a c (ws ++ ws') (rs ++ rs') := by
  obtain ⟨e1, t1, a1, b1⟩ := h1
  obtain ⟨e2, t2, a2, b2⟩ := h2
  exact ⟨e1 ++ e2, by rw [t2, t1, List.append_assoc], by rw [writes_append, a1, a2], by rw [received_append, b1, b2]⟩

theorem Ext.of_rg {w w' : World} (h : Rg P0 w w') : Ext w w' [] [] := by
  obtain ⟨_, evs, t, p⟩ := h
  exact ⟨evs, t, (silent_of_P0 p).1, (silent_of_P0 p).2⟩

theorem Ext.of_data {α} {m : M α} (k : Keeps (Rg P0) m) {w w' : World} {r : Res α} (h : m w = (r, w')) :
    Ext w w' [] [] := Ext.of_rg (k.of_eq h)

theorem Ext.added {α} {m : M α} {w : World} {ws : List Bytes} {rs : List Reply} (h : Ext w (after m w) ws rs) :
    writes (added m w) = ws ∧ received (added m w) = rs := by
  obtain ⟨evs, t, a, b⟩ := h
  unfold Session.added
  rw [t, List.drop_left]
  exact ⟨a, b⟩

theorem ctlSend_ext {cmd : Bytes} {w w' : World} {u : Unit} (h : ctlSend cmd w = (.ok u, w')) :
    Ext w w' [cmd ++ CRLF] [] := by
  refine ⟨_, by rw [ctlSend_ok h, List.append_assoc], ?_, ?_⟩
  · rw [writes_append]
    have : writes (w.observers.map (fun o => Ev.obsRequest o cmd)) = [] := by
      induction w.observers <;> simp_all [writes]
    rw [this]; rfl
  · rw [received_append]
    have : received (w.observers.map (fun o => Ev.obsRequest o cmd)) = [] := by
      induction w.observers <;> simp_all [received]
    rw [this]; rfl

theorem ctlRecv_ext {w w' : World} {r : Reply} (h : ctlRecv w = (.ok r, w')) : Ext w w' [] [r] ∧ r.code < 1000 := by
  obtain ⟨evs, t, p, hlt⟩ := ctlRecv_ok h
  refine ⟨⟨_, by rw [t, List.append_assoc], ?_, ?_⟩, hlt⟩
  · rw [writes_append, (silent_of_P0 p).1]; rfl
  · rw [received_append, (silent_of_P0 p).2]; rfl

theorem recvInto_ext {rs rs' : Replies} {w w' : World} {r : Reply} (h : recvInto rs w = (.ok (r, rs'), w')) :
    rs' = rs.append r ∧ Ext w w' [] [r] ∧ r.code < 1000 := by
  unfold recvInto at h
  simp only [bind_ok, pure_ok, Prod.mk.injEq] at h
  obtain ⟨r0, w1, h1, ⟨rfl, rfl⟩, rfl⟩ := h
  exact ⟨rfl, ctlRecv_ext h1⟩

theorem processCommand_ext {cmd : Bytes} {w w' : World} {r : Reply} (h : processCommand cmd w = (.ok r, w')) :
    Ext w w' [cmd ++ CRLF] [r] ∧ r.code < 1000 := by
  unfold processCommand at h
  simp only [bind_ok] at h
  obtain ⟨_, w1, h1, h2⟩ := h
  exact ⟨(ctlSend_ext h1).trans (ctlRecv_ext h2).1, (ctlRecv_ext h2).2⟩

theorem processCommandInto_ext {cmd : Bytes} {rs rs' : Replies} {w w' : World} {r : Reply}
    (h : processCommandInto cmd rs w = (.ok (r, rs'), w')) :
    rs' = rs.append r ∧ Ext w w' [cmd ++ CRLF] [r] ∧ r.code < 1000 := by
  unfold processCommandInto at h
  simp only [bind_ok] at h
  obtain ⟨_, w1, h1, h2⟩ := h
  obtain ⟨e, x, l⟩ := recvInto_ext h2
  exact ⟨e, (ctlSend_ext h1).trans x, l⟩

@[simp] theorem append_list (rs : Replies) (r : Reply) : (rs.append r).list = rs.list ++ [r] := by
  unfold Replies.append; split; rfl; split <;> rfl

@[simp] theorem lineOf_cmd (c : Bytes) : lineOf (c ++ CRLF) = c := by
  simp [lineOf, CRLF]

theorem neg_eq {r : Reply} (h : r.code < 1000) : r.isNegative = Spec.negative r.code := by
  have : r.code ≠ unspecified := by unfold unspecified; omega
  simp [Reply.isNegative, Spec.negative, this]

theorem makeCommand_line (v : String) (a : Option Bytes) (c : Bytes) (h : makeCommand (str v) a = some c) :
    c = Spec.line v a := by
  cases a with
  | none => simp [makeCommand] at h; simp [Spec.line, h]
  | some x =>
    simp only [makeCommand] at h
    split at h
    · cases h
    · simp only [Option.some.injEq] at h; simp [Spec.line, ← h]

theorem typeCommand_line (s : Spec.Settings) (t : TType) (hs : s.asciiType = (t == .ascii)) :
    typeCommand t = Spec.typeLine s := by
  unfold Spec.typeLine typeCommand
  cases t <;> simp_all

theorem loginTail_spec {rs2 rs' : Replies} {w0 w2 w' : World} {r r2 : Reply} (s : Spec.Settings)
    (hs : s.asciiType = (w0.ttype == .ascii)) (ht : w2.ttype = w0.ttype) (hl : r2.code < 1000)
    (h : (if r2.isNegative = true then pure (r2, rs2)
        else do
          let w ← getW
          processCommandInto (typeCommand w.ttype) rs2) w2 = (Res.ok (r, rs'), w')) :
    ∃ ws rl, Ext w2 w' ws rl ∧ rs'.list = rs2.list ++ rl ∧
      ws.map lineOf = (if Spec.negative r2.code then [] else [Spec.typeLine s]) := by
  rw [← neg_eq hl]
  split at h
  · rename_i hneg
    simp only [pure_ok, Prod.mk.injEq] at h
    obtain ⟨⟨rfl, rfl⟩, rfl⟩ := h
    exact ⟨[], [], Ext.refl _, by simp, by simp [hneg]⟩
  · rename_i hneg
    simp only [bind_ok, getW_ok] at h
    obtain ⟨_, _, ⟨e, e'⟩, h⟩ := h
    subst e'; subst e
    obtain ⟨e3, x3, l3⟩ := processCommandInto_ext h
    refine ⟨_, _, x3, by rw [e3]; simp, ?_⟩
    simp [hneg]
    exact typeCommand_line s _ (by rw [hs, ht])

theorem processLogin_spec {u p : Bytes} {rs rs' : Replies} {w w' : World} {r : Reply} (s : Spec.Settings)
    (hs : s.asciiType = (w.ttype == .ascii)) (h : processLogin u p rs w = (.ok (r, rs'), w')) :
    ∃ ws rl, Ext w w' ws rl ∧ rs'.list = rs.list ++ rl ∧ ws.map lineOf = Spec.loginLines s u p (rl.map (·.code)) := by
  unfold processLogin at h
  simp only [bind_ok] at h
  obtain ⟨cu, wa, hcu, cp, wb, hcp, ⟨r1, rs1⟩, w1, h1, h⟩ := h
  obtain ⟨mcu, e⟩ := mkCmd_ok hcu; subst e
  obtain ⟨mcp, e⟩ := mkCmd_ok hcp; subst e
  have ecu := makeCommand_line _ _ _ mcu
  have ecp := makeCommand_line _ _ _ mcp
  obtain ⟨e1, x1, l1⟩ := processCommandInto_ext h1
  have t1 := (processCommandInto_rg (Q := fun _ => True) trivial _).of_eq h1
  subst e1
  dsimp only at h
  split at h
  · rename_i h331
    simp only [bind_ok] at h
    obtain ⟨⟨r2, rs2⟩, w2, h2, h⟩ := h
    obtain ⟨e2, x2, l2⟩ := processCommandInto_ext h2
    have t2 := (processCommandInto_rg (Q := fun _ => True) trivial _).of_eq h2
    subst e2
    obtain ⟨ws, rl, x3, e3, hw⟩ := loginTail_spec s hs (t2.1.trans t1.1) l2 h
    refine ⟨_, _, (x1.trans x2).trans x3, by rw [e3]; simp, ?_⟩
    have : r1.code = 331 := by simpa using h331
    simp only [List.map_append, List.map_cons, List.map_nil, lineOf_cmd, hw, this, Spec.loginLines, if_true, ecu, ecp]
    simp
  · rename_i h331
    rw [pure_bind_M] at h
    dsimp only at h
    obtain ⟨ws, rl, x3, e3, hw⟩ := loginTail_spec s hs t1.1 l1 h
    refine ⟨_, _, x1.trans x3, by rw [e3]; simp, ?_⟩
    have : r1.code ≠ 331 := by simpa using h331
    simp only [List.map_append, List.map_cons, List.map_nil, lineOf_cmd, hw, Spec.loginLines, ecu, ecp,
      List.singleton_append, List.cons_append, List.nil_append]
    rw [if_neg this]
    split <;> simp

theorem bind_assoc_M {α β γ} (m : M α) (f : α → M β) (g : β → M γ) :
    (m >>= f) >>= g = m >>= fun a => f a >>= g := by
  funext w
  simp only [bind_apply]
  rcases m w with ⟨a | _, w1⟩ <;> rfl

instance : LawfulMonad M := LawfulMonad.mk' M
  (id_map := by
    intro α x
    funext w
    show (x >>= fun a => pure (id a)) w = x w
    rw [bind_apply]
    rcases x w with ⟨a | _, w1⟩ <;> rfl)
  (pure_bind := fun _ _ => rfl)
  (bind_assoc := bind_assoc_M)

/-- `connect` on a client that is still connected abandons the open connection first -/
def connectAbandon : M Unit := do
  let w0 ← getW
  if w0.connected then
    emit .ctlClose
    modifyW fun w => { w with connected := false }

/-- the world after abandoning a connection that is still open -/
def abandonW (w : World) : World :=
  if w.connected then { w with connected := false, trace := w.trace ++ [.ctlClose] } else w

theorem connectAbandon_run (w : World) : connectAbandon w = (.ok (), abandonW w) := by
  unfold connectAbandon abandonW
  cases hc : w.connected <;> simp [bind_apply, getW, hc, emit, modifyW, pure_apply]

/-- the TCP connect and the greeting -/
def connectGreet (host : Bytes) (port : Nat) : M (Reply × Replies) := do
  modifyW fun w =>
    let g : Group := match w.script with
      | g :: _ => g
      | [] => { raws := [] }
    { w with ctl := {}, connected := true, script := w.script.tail,
             net := { w.net with stream := g.raws.flatten } }
  emit (.ctlConnect host port)
  forObservers (fun o => .obsConnected o host port)
  let (r, rs) ← recvInto Replies.empty
  if r.code == 120 then recvInto rs else pure (r, rs)

/-- the part of `connect` up to the greeting -/
def connectCore (host : Bytes) (port : Nat) : M (Reply × Replies) := do
  connectAbandon
  connectGreet host port

/-- the part of `connect` after the greeting -/
def connectTail (cred : Option (Bytes × Bytes)) (x : Reply × Replies) : M Replies :=
  if x.1.isNegative then pure x.2
  else
    match cred with
    | some (u, p) => do let (_, rs) ← processLogin u p x.2; pure rs
    | none => pure x.2

def connectCheck (cred : Option (Bytes × Bytes)) : M Unit :=
  match cred with
  | some (u, p) => do let _ ← mkCmd "USER" (some u); let _ ← mkCmd "PASS" (some p); pure ()
  | none => pure ()

theorem connect_eq (h : Bytes) (p : Nat) (cred : Option (Bytes × Bytes)) :
    connect h p cred = (do connectCheck cred; let x ← connectCore h p; connectTail cred x) := by
  unfold connect connectCore connectGreet connectAbandon connectTail connectCheck
  rcases cred with _ | ⟨u, pw⟩
  · simp only [bind_assoc, pure_bind]
    congr 1; funext w0
    cases hc : w0.connected
    · simp only [Bool.false_eq_true, if_false, pure_bind]
      congr 1; funext _; congr 1; funext _; congr 1; funext _; congr 1; funext x
      split <;> simp
    · simp only [if_true, bind_assoc]
      congr 1; funext _; congr 1; funext _
      congr 1; funext _; congr 1; funext _; congr 1; funext _; congr 1; funext x
      split <;> simp
  · simp only [bind_assoc, pure_bind]
    congr 1; funext _; congr 1; funext _; congr 1; funext w0
    cases hc : w0.connected
    · simp only [Bool.false_eq_true, if_false, pure_bind]
      congr 1; funext _; congr 1; funext _; congr 1; funext _; congr 1; funext x
      split <;> simp
    · simp only [if_true, bind_assoc]
      congr 1; funext _; congr 1; funext _
      congr 1; funext _; congr 1; funext _; congr 1; funext _; congr 1; funext x
      split <;> simp


theorem getLast_append_reply (rs : Replies) (r : Reply) : (rs.append r).list.getLast? = some r := by
  simp

theorem ext_abandonW (w : World) : Ext w (abandonW w) [] [] := by
  unfold abandonW
  split
  · exact ⟨[.ctlClose], rfl, rfl, rfl⟩
  · exact Ext.refl w

theorem abandonW_ttype (w : World) : (abandonW w).ttype = w.ttype := by
  unfold abandonW; split <;> rfl

theorem connectGreet_spec {h : Bytes} {p : Nat} {w w' : World} {r : Reply} {rs : Replies}
    (hc : connectGreet h p w = (.ok (r, rs), w')) :
    Ext w w' [] rs.list ∧ rs.list.getLast? = some r ∧ r.code < 1000 ∧ w'.ttype = w.ttype ∧
      ((rs.list = [r] ∧ r.code ≠ 120) ∨ ∃ r0, rs.list = [r0, r] ∧ r0.code = 120) := by
  unfold connectGreet at hc
  simp only [bind_ok] at hc
  obtain ⟨_, w1, h1, _, w2, h2, _, w3, h3, ⟨r1, rs1⟩, w4, h4, hc⟩ := hc
  have k1 : Keeps (Rg P0) (modifyW fun w =>
    let g : Group := match w.script with
      | g :: _ => g
      | [] => { raws := [] }
    { w with ctl := {}, connected := true, script := w.script.tail,
             net := { w.net with stream := g.raws.flatten } }) := Rg.modifyW (fun _ => rfl) (fun _ => rfl)
  have x1 := Ext.of_data k1 h1
  have x2 := Ext.of_data (Rg.emit (P := P0) (e := .ctlConnect h p) rfl) h2
  have x3 := Ext.of_data (Rg.forObservers (P := P0) (f := fun o => .obsConnected o h p) (fun _ => rfl)) h3
  have t1 := (k1.of_eq h1).1
  have t2 := ((Rg.emit (P := P0) (e := .ctlConnect h p) rfl).of_eq h2).1
  have t3 := ((Rg.forObservers (P := P0) (f := fun o => .obsConnected o h p) (fun _ => rfl)).of_eq h3).1
  obtain ⟨e4, x4, l4⟩ := recvInto_ext h4
  have t4 := ((recvInto_rg (Q := fun _ => True) _).of_eq h4).1
  have x := ((x1.trans x2).trans x3).trans x4
  dsimp only at hc
  split at hc
  · rename_i h120
    obtain ⟨e5, x5, l5⟩ := recvInto_ext hc
    have t5 := ((recvInto_rg (Q := fun _ => True) _).of_eq hc).1
    subst e4 e5
    refine ⟨by simpa [Replies.empty] using x.trans x5, by simp, l5, by rw [t5, t4, t3, t2, t1], .inr ⟨r1, ?_, ?_⟩⟩
    · simp [Replies.empty]
    · simpa using h120
  · rename_i h120
    simp only [pure_ok, Prod.mk.injEq] at hc
    obtain ⟨⟨rfl, rfl⟩, rfl⟩ := hc
    subst e4
    refine ⟨by simpa [Replies.empty] using x, by simp, l4, by rw [t4, t3, t2, t1], .inl ⟨?_, ?_⟩⟩
    · simp [Replies.empty]
    · simpa using h120


theorem connectCore_spec {h : Bytes} {p : Nat} {w w' : World} {r : Reply} {rs : Replies}
    (hc : connectCore h p w = (.ok (r, rs), w')) :
    Ext w w' [] rs.list ∧ rs.list.getLast? = some r ∧ r.code < 1000 ∧ w'.ttype = w.ttype ∧
      ((rs.list = [r] ∧ r.code ≠ 120) ∨ ∃ r0, rs.list = [r0, r] ∧ r0.code = 120) := by
  unfold connectCore at hc
  rw [bind_apply, connectAbandon_run] at hc
  obtain ⟨x, a, b, t, d⟩ := connectGreet_spec hc
  exact ⟨by simpa using (ext_abandonW w).trans x, a, b, by rw [t, abandonW_ttype], d⟩

def connectRef (s : Spec.Settings) (cred : Option (Bytes × Bytes)) (g : Nat) (rest : List Nat) : List Bytes :=
  match cred with
  | some (u, p) => if Spec.negative g then [] else Spec.loginLines s u p rest
  | none => []

theorem expected_connect_1 (s : Spec.Settings) (cred : Option (Bytes × Bytes)) (g : Nat) (rest : List Nat)
    (act : Bytes) (hg : g ≠ 120) :
    Spec.expectedLines s (.connect cred) (g :: rest) act = connectRef s cred g rest := by
  unfold Spec.expectedLines connectRef
  rcases cred with _ | ⟨u, p⟩
  · simp only
    split
    · rename_i h1 h2; cases h2
    · rfl
  · simp only
    split
    · rename_i g' rest' u' p' heq hc
      simp only [Option.some.injEq, Prod.mk.injEq] at hc
      obtain ⟨rfl, rfl⟩ := hc
      split at heq
      · rename_i h; simp only [List.cons.injEq] at h; exact absurd h.1 hg
      · rename_i h; simp only [List.cons.injEq, Option.some.injEq, Prod.mk.injEq] at h heq
        obtain ⟨rfl, rfl⟩ := h
        obtain ⟨rfl, rfl⟩ := heq
        rfl
      · cases heq
    · rename_i hx
      exfalso
      split at hx
      · rename_i h; simp only [List.cons.injEq] at h; exact absurd h.1 hg
      · exact hx _ _ _ _ rfl rfl
      · rename_i h; cases h

theorem expected_connect_2 (s : Spec.Settings) (cred : Option (Bytes × Bytes)) (g : Nat) (rest : List Nat)
    (act : Bytes) :
    Spec.expectedLines s (.connect cred) (120 :: g :: rest) act = connectRef s cred g rest := by
  unfold Spec.expectedLines connectRef
  rcases cred with _ | ⟨u, p⟩
  · simp only
  · simp only

theorem connectCheck_ok {cred : Option (Bytes × Bytes)} {w w' : World} {u : Unit}
    (h : connectCheck cred w = (.ok u, w')) : w' = w := by
  unfold connectCheck at h
  rcases cred with _ | ⟨a, b⟩
  · simp only [pure_ok] at h; exact h.2.symm
  · simp only [bind_ok, pure_ok] at h
    obtain ⟨_, _, h1, _, _, h2, _, rfl⟩ := h
    rw [(mkCmd_ok h2).2, (mkCmd_ok h1).2]

theorem connect_spec {h : Bytes} {p : Nat} {cred : Option (Bytes × Bytes)} {w w' : World} {rs : Replies}
    (s : Spec.Settings) (hs : s.asciiType = (w.ttype == .ascii)) (act : Bytes)
    (hc : connect h p cred w = (.ok rs, w')) :
    ∃ ws, Ext w w' ws rs.list ∧
      ws.map lineOf = Spec.expectedLines s (.connect cred) (rs.list.map (·.code)) act := by
  rw [connect_eq] at hc
  simp only [bind_ok] at hc
  obtain ⟨_, w0, h0, ⟨r, rs1⟩, w1, h1, h2⟩ := hc
  have := connectCheck_ok h0; subst this
  obtain ⟨x1, _, l1, t1, hshape⟩ := connectCore_spec h1
  have key : ∃ ws rl, Ext w1 w' ws rl ∧ rs.list = rs1.list ++ rl ∧
      ws.map lineOf = connectRef s cred r.code (rl.map (·.code)) := by
    unfold connectTail at h2
    dsimp only at h2
    rw [neg_eq l1] at h2
    unfold connectRef
    split at h2
    · rename_i hneg
      simp only [pure_ok] at h2
      obtain ⟨rfl, rfl⟩ := h2
      refine ⟨[], [], Ext.refl _, by simp, ?_⟩
      rcases cred with _ | ⟨u, p⟩ <;> simp [hneg]
    · rename_i hneg
      rcases cred with _ | ⟨u, p⟩
      · simp only [pure_ok] at h2
        obtain ⟨rfl, rfl⟩ := h2
        exact ⟨[], [], Ext.refl _, by simp, by simp⟩
      · simp only [bind_ok, pure_ok] at h2
        obtain ⟨⟨r3, rs3⟩, w3, h3, rfl, rfl⟩ := h2
        obtain ⟨ws, rl, x3, e3, hw⟩ := processLogin_spec s (by rw [hs, t1]) h3
        exact ⟨ws, rl, x3, e3, by simp [hneg, hw]⟩
  obtain ⟨ws, rl, x2, e2, hw⟩ := key
  refine ⟨ws, by simpa [e2] using x1.trans x2, ?_⟩
  rw [e2, hw]
  rcases hshape with ⟨e, hne⟩ | ⟨r0, e, h120⟩
  · rw [e]
    simp only [List.map_append, List.map_cons, List.map_nil, List.singleton_append]
    rw [expected_connect_1 _ _ _ _ _ hne]
  · rw [e]
    simp only [List.map_append, List.map_cons, List.map_nil, List.cons_append, List.nil_append, h120]
    rw [expected_connect_2]

theorem simple_spec {v : String} {a : Option Bytes} {w w' : World} {r : Reply} (h : simple v a w = (.ok r, w')) :
    Ext w w' [Spec.line v a ++ CRLF] [r] := by
  unfold simple at h
  simp only [bind_ok] at h
  obtain ⟨c, w0, hc, h⟩ := h
  obtain ⟨mc, e⟩ := mkCmd_ok hc; subst e
  rw [← makeCommand_line _ _ _ mc]
  exact (processCommand_ext h).1

theorem login_spec {u p : Bytes} {w w' : World} {rs : Replies} (s : Spec.Settings)
    (hs : s.asciiType = (w.ttype == .ascii)) (h : login u p w = (.ok rs, w')) :
    ∃ ws, Ext w w' ws rs.list ∧ ws.map lineOf = Spec.loginLines s u p (rs.list.map (·.code)) := by
  unfold login at h
  simp only [bind_ok, pure_ok] at h
  obtain ⟨⟨r, rs1⟩, w1, h1, rfl, rfl⟩ := h
  obtain ⟨ws, rl, x, e, hw⟩ := processLogin_spec s hs h1
  simp only [Replies.empty, List.nil_append] at e
  exact ⟨ws, by rw [e]; exact x, by rw [e]; exact hw⟩

theorem setTransferType_spec {t : TType} {w w' : World} {r : Reply} (h : setTransferType t w = (.ok r, w')) :
    Ext w w' [typeCommand t ++ CRLF] [r] := by
  unfold setTransferType at h
  simp only [bind_ok] at h
  obtain ⟨r1, w1, h1, h⟩ := h
  split at h
  · simp only [bind_ok, modifyW_ok, pure_ok] at h
    obtain ⟨_, _, rfl, rfl, rfl⟩ := h
    obtain ⟨evs, t1, a1, b1⟩ := (processCommand_ext h1).1
    exact ⟨evs, t1, a1, b1⟩
  · simp only [pure_ok] at h
    obtain ⟨rfl, rfl⟩ := h
    exact (processCommand_ext h1).1

theorem rename_spec {a b : Bytes} {w w' : World} {rs : Replies} (s : Spec.Settings) (act : Bytes)
    (h : rename a b w = (.ok rs, w')) :
    ∃ ws, Ext w w' ws rs.list ∧ ws.map lineOf = Spec.expectedLines s (.rename a b) (rs.list.map (·.code)) act := by
  unfold rename at h
  simp only [bind_ok] at h
  obtain ⟨c1, wa, hc1, c2, wb, hc2, ⟨r1, rs1⟩, w1, h1, h⟩ := h
  obtain ⟨m1, e⟩ := mkCmd_ok hc1; subst e
  obtain ⟨m2, e⟩ := mkCmd_ok hc2; subst e
  have e1 := makeCommand_line _ _ _ m1
  have e2 := makeCommand_line _ _ _ m2
  obtain ⟨e, x1, l1⟩ := processCommandInto_ext h1
  subst e
  dsimp only at h
  split at h
  · rename_i h350
    have h350 : r1.code = 350 := by simpa using h350
    simp only [bind_ok, pure_ok] at h
    obtain ⟨⟨r2, rs2⟩, w2, h2, rfl, rfl⟩ := h
    obtain ⟨e, x2, l2⟩ := processCommandInto_ext h2
    subst e
    refine ⟨_, by simpa [Replies.empty] using x1.trans x2, ?_⟩
    simp [Spec.expectedLines, Replies.empty, h350, e1, e2]
  · rename_i h350
    have h350 : r1.code ≠ 350 := by simpa using h350
    simp only [pure_ok] at h
    obtain ⟨rfl, rfl⟩ := h
    refine ⟨_, by simpa [Replies.empty] using x1, ?_⟩
    simp [Spec.expectedLines, Replies.empty, h350, e1]

theorem closeIf_ok {α} {a o : α} {w0 w w' : World}
    (h : (if w0.connected = true then do ctlClose; pure a else pure a) w = (.ok o, w')) :
    o = a ∧ Ext w w' [] [] := by
  split at h
  · simp only [bind_ok, pure_ok] at h
    obtain ⟨_, w1, h1, rfl, rfl⟩ := h
    exact ⟨rfl, Ext.of_data ctlClose_p0 h1⟩
  · simp only [pure_ok] at h
    obtain ⟨rfl, rfl⟩ := h
    exact ⟨rfl, Ext.refl _⟩

theorem disconnect_spec {g : Bool} {w w' : World} {o : Option Reply} (h : disconnect g w = (.ok o, w')) :
    ∃ ws, Ext w w' ws (Out.opt o).replyList ∧ ws.map lineOf = if g then [str "QUIT"] else [] := by
  unfold disconnect at h
  cases g
  · simp only [Bool.false_eq_true, if_false, bind_ok, pure_ok, getW_ok] at h
    obtain ⟨_, _, ⟨rfl, rfl⟩, _, _, ⟨rfl, rfl⟩, h⟩ := h
    obtain ⟨rfl, x⟩ := closeIf_ok h
    exact ⟨[], x, rfl⟩
  · simp only [if_true, bind_ok, pure_ok, getW_ok] at h
    obtain ⟨_, w1, ⟨c, w0, hc, r, w2, h2, rfl, rfl⟩, _, _, ⟨rfl, rfl⟩, h⟩ := h
    obtain ⟨mc, e⟩ := mkCmd_ok hc; subst e
    have ec := makeCommand_line _ _ _ mc
    obtain ⟨rfl, x⟩ := closeIf_ok h
    refine ⟨_, by simpa [Out.replyList] using (processCommand_ext h2).1.trans x, ?_⟩
    simp [ec, Spec.line]

/-- what setting up the data connection sends and receives -/
def DCShape (setup cmd : Bytes) (ready : Bool) (ws : List Bytes) (rl : List Reply) : Prop :=
  (∃ r1, ready = false ∧ ws = [setup ++ CRLF] ∧ rl = [r1] ∧ Spec.negative r1.code = true) ∨
  (∃ r1 r2, ws = [setup ++ CRLF, cmd ++ CRLF] ∧ rl = [r1, r2] ∧ Spec.negative r1.code = false ∧
    Spec.negative r2.code = !ready)

theorem processEpsv_spec {cmd : Bytes} {rs rs' : Replies} {w w' : World} {ready : Bool}
    (h : processEpsv cmd rs w = (.ok (ready, rs'), w')) :
    ∃ ws rl, Ext w w' ws rl ∧ rs'.list = rs.list ++ rl ∧ DCShape (str "EPSV") cmd ready ws rl := by
  unfold processEpsv at h
  simp only [bind_ok] at h
  obtain ⟨c, w0, hc, ⟨r1, rs1⟩, w1, h1, h⟩ := h
  obtain ⟨mc, e⟩ := mkCmd_ok hc; subst e
  have ec : c = str "EPSV" := by rw [makeCommand_line _ _ _ mc]; rfl
  subst ec
  obtain ⟨e, x1, l1⟩ := processCommandInto_ext h1
  subst e
  dsimp only at h
  rw [neg_eq l1] at h
  split at h
  · rename_i hneg
    simp only [pure_ok, Prod.mk.injEq] at h
    obtain ⟨⟨rfl, rfl⟩, rfl⟩ := h
    exact ⟨_, _, x1, by simp, .inl ⟨r1, rfl, rfl, rfl, hneg⟩⟩
  · rename_i hneg
    rcases hp : parseEpsv r1.text with _ | port
    · simp [hp, throwE_ok] at h
    · simp only [hp, bind_ok, getW_ok] at h
      obtain ⟨_, _, ⟨rfl, rfl⟩, _, w2, h2, ⟨r3, rs3⟩, w3, h3, h⟩ := h
      have x2 := Ext.of_data (dataConnect_rg _ _) h2
      obtain ⟨e, x3, l3⟩ := processCommandInto_ext h3
      subst e
      dsimp only at h
      rw [neg_eq l3] at h
      split at h
      · rename_i hneg3
        simp only [bind_ok, pure_ok, Prod.mk.injEq] at h
        obtain ⟨_, w4, h4, ⟨rfl, rfl⟩, rfl⟩ := h
        have x4 := Ext.of_data (dataDisconnect_rg _) h4
        refine ⟨_, _, by simpa using ((x1.trans x2).trans x3).trans x4, by simp, .inr ⟨r1, r3, rfl, rfl, ?_, ?_⟩⟩
        · simpa using hneg
        · simpa using hneg3
      · rename_i hneg3
        simp only [pure_ok, Prod.mk.injEq] at h
        obtain ⟨⟨rfl, rfl⟩, rfl⟩ := h
        refine ⟨_, _, by simpa using (x1.trans x2).trans x3, by simp, .inr ⟨r1, r3, rfl, rfl, ?_, ?_⟩⟩
        · simpa using hneg
        · simpa using hneg3


theorem processPasv_spec {cmd : Bytes} {rs rs' : Replies} {w w' : World} {ready : Bool}
    (h : processPasv cmd rs w = (.ok (ready, rs'), w')) :
    ∃ ws rl, Ext w w' ws rl ∧ rs'.list = rs.list ++ rl ∧ DCShape (str "PASV") cmd ready ws rl := by
  unfold processPasv at h
  simp only [bind_ok] at h
  obtain ⟨c, w0, hc, ⟨r1, rs1⟩, w1, h1, h⟩ := h
  obtain ⟨mc, e⟩ := mkCmd_ok hc; subst e
  have ec : c = str "PASV" := by rw [makeCommand_line _ _ _ mc]; rfl
  subst ec
  obtain ⟨e, x1, l1⟩ := processCommandInto_ext h1
  subst e
  dsimp only at h
  rw [neg_eq l1] at h
  split at h
  · rename_i hneg
    simp only [pure_ok, Prod.mk.injEq] at h
    obtain ⟨⟨rfl, rfl⟩, rfl⟩ := h
    exact ⟨_, _, x1, by simp, .inl ⟨r1, rfl, rfl, rfl, hneg⟩⟩
  · rename_i hneg
    rcases hp : parsePasv r1.text with _ | ⟨ip, port⟩
    · simp [hp, throwE_ok] at h
    · simp only [hp, bind_ok] at h
      obtain ⟨_, w2, h2, ⟨r3, rs3⟩, w3, h3, h⟩ := h
      have x2 := Ext.of_data (dataConnect_rg _ _) h2
      obtain ⟨e, x3, l3⟩ := processCommandInto_ext h3
      subst e
      dsimp only at h
      rw [neg_eq l3] at h
      split at h
      · rename_i hneg3
        simp only [bind_ok, pure_ok, Prod.mk.injEq] at h
        obtain ⟨_, w4, h4, ⟨rfl, rfl⟩, rfl⟩ := h
        have x4 := Ext.of_data (dataDisconnect_rg _) h4
        refine ⟨_, _, by simpa using ((x1.trans x2).trans x3).trans x4, by simp, .inr ⟨r1, r3, rfl, rfl, ?_, ?_⟩⟩
        · simpa using hneg
        · simpa using hneg3
      · rename_i hneg3
        simp only [pure_ok, Prod.mk.injEq] at h
        obtain ⟨⟨rfl, rfl⟩, rfl⟩ := h
        refine ⟨_, _, by simpa using (x1.trans x2).trans x3, by simp, .inr ⟨r1, r3, rfl, rfl, ?_, ?_⟩⟩
        · simpa using hneg
        · simpa using hneg3

/-- the two commands of the active set-up, once the line has been built -/
theorem activeTail_spec {c cmd : Bytes} {rs rs' : Replies} {w w' : World} {ready : Bool}
    (h : (do
      let __x ← processCommandInto c rs
      match __x with
        | (r, rs) =>
          if r.isNegative = true then pure (false, rs)
          else do
            let __x ← processCommandInto cmd rs
            match __x with
              | (r, rs) =>
                if r.isNegative = true then pure (false, rs)
                else do
                  dataAccept
                  pure (true, rs)) w = (.ok (ready, rs'), w')) :
    ∃ ws rl, Ext w w' ws rl ∧ rs'.list = rs.list ++ rl ∧ DCShape c cmd ready ws rl := by
  simp only [bind_ok] at h
  obtain ⟨⟨r1, rs1⟩, w1, h1, h⟩ := h
  obtain ⟨e, x1, l1⟩ := processCommandInto_ext h1
  subst e
  dsimp only at h
  rw [neg_eq l1] at h
  split at h
  · rename_i hneg
    simp only [pure_ok, Prod.mk.injEq] at h
    obtain ⟨⟨rfl, rfl⟩, rfl⟩ := h
    exact ⟨_, _, x1, by simp, .inl ⟨r1, rfl, rfl, rfl, hneg⟩⟩
  · rename_i hneg
    simp only [bind_ok] at h
    obtain ⟨⟨r3, rs3⟩, w3, h3, h⟩ := h
    obtain ⟨e, x3, l3⟩ := processCommandInto_ext h3
    subst e
    dsimp only at h
    rw [neg_eq l3] at h
    split at h
    · rename_i hneg3
      simp only [pure_ok, Prod.mk.injEq] at h
      obtain ⟨⟨rfl, rfl⟩, rfl⟩ := h
      refine ⟨_, _, by simpa using x1.trans x3, by simp, .inr ⟨r1, r3, rfl, rfl, ?_, ?_⟩⟩
      · simpa using hneg
      · simpa using hneg3
    · rename_i hneg3
      simp only [bind_ok, pure_ok, Prod.mk.injEq] at h
      obtain ⟨_, w4, h4, ⟨rfl, rfl⟩, rfl⟩ := h
      have x4 := Ext.of_data dataAccept_rg h4
      refine ⟨_, _, by simpa using (x1.trans x3).trans x4, by simp, .inr ⟨r1, r3, rfl, rfl, ?_, ?_⟩⟩
      · simpa using hneg
      · simpa using hneg3

theorem processActive_spec {eprt : Bool} {cmd : Bytes} {rs rs' : Replies} {w w' : World} {ready : Bool}
    (h : processActive eprt cmd rs w = (.ok (ready, rs'), w')) :
    ∃ setup ws rl, Ext w w' ws rl ∧ rs'.list = rs.list ++ rl ∧ DCShape setup cmd ready ws rl := by
  unfold processActive at h
  simp only [bind_ok, getW_ok] at h
  obtain ⟨port, w1, h1, wa, wb, ⟨e, e'⟩, h⟩ := h
  subst e'; subst e
  have x1 := Ext.of_data dataListen_rg h1
  split at h
  · rw [pure_bind_M] at h
    obtain ⟨ws, rl, x, e, sh⟩ := activeTail_spec h
    exact ⟨_, ws, rl, by simpa using x1.trans x, e, sh⟩
  · rcases hp : fmtPort (if wa.v6 = true then Family.v6 else Family.v4) (addrText wa) port with _ | c
    · simp only [hp, throwE_bind_M, throwE_ok] at h
    · simp only [hp] at h
      rw [pure_bind_M] at h
      obtain ⟨ws, rl, x, e, sh⟩ := activeTail_spec h
      exact ⟨_, ws, rl, by simpa using x1.trans x, e, sh⟩

theorem createDataConnection_spec {cmd : Bytes} {rs rs' : Replies} {w w' : World} {ready : Bool}
    (h : createDataConnection cmd rs w = (.ok (ready, rs'), w')) :
    ∃ setup ws rl, Ext w w' ws rl ∧ rs'.list = rs.list ++ rl ∧ DCShape setup cmd ready ws rl ∧
      (w.mode = .passive → setup = if w.rfc then str "EPSV" else str "PASV") := by
  unfold createDataConnection at h
  simp only [bind_ok, getW_ok] at h
  obtain ⟨wa, wb, ⟨e, e'⟩, h⟩ := h
  subst e'; subst e
  rcases hm : wa.mode <;> rcases hr : wa.rfc <;> simp only [hm, hr] at h
  · obtain ⟨ws, rl, x, e, sh⟩ := processPasv_spec h
    exact ⟨_, ws, rl, x, e, sh, by simp⟩
  · obtain ⟨ws, rl, x, e, sh⟩ := processEpsv_spec h
    exact ⟨_, ws, rl, x, e, sh, by simp⟩
  · obtain ⟨setup, ws, rl, x, e, sh⟩ := processActive_spec h
    exact ⟨setup, ws, rl, x, e, sh, by simp⟩
  · obtain ⟨setup, ws, rl, x, e, sh⟩ := processActive_spec h
    exact ⟨setup, ws, rl, x, e, sh, by simp⟩


theorem processAbort_spec {rs rs' : Replies} {w w' : World} (h : processAbort rs w = (.ok rs', w')) :
    ∃ rl, Ext w w' [str "ABOR" ++ CRLF] rl ∧ rs'.list = rs.list ++ rl ∧ w'.cancelled = w.cancelled := by
  have hcanc : w'.cancelled = w.cancelled := (processAbort_canc rs).of_eq h
  unfold processAbort at h
  simp only [bind_ok] at h
  obtain ⟨c, w0, hc, ⟨r1, rs1⟩, w1, h1, h⟩ := h
  obtain ⟨mc, e⟩ := mkCmd_ok hc; subst e
  have ec : c = str "ABOR" := by rw [makeCommand_line _ _ _ mc]; rfl
  subst ec
  obtain ⟨e, x1, l1⟩ := processCommandInto_ext h1
  subst e
  dsimp only at h
  split at h
  · simp only [bind_ok, pure_ok] at h
    obtain ⟨⟨r2, rs2⟩, w2, h2, rfl, rfl⟩ := h
    obtain ⟨e, x2, l2⟩ := recvInto_ext h2
    subst e
    exact ⟨_, by simpa using x1.trans x2, by simp, hcanc⟩
  · simp only [pure_ok] at h
    obtain ⟨rfl, rfl⟩ := h
    exact ⟨_, x1, by simp, hcanc⟩

theorem poll_ok {w w' : World} {b : Bool} (h : poll w = (.ok b, w')) : w'.cancelled = b := by
  unfold poll at h
  simp only [bind_ok, getW_ok, modifyW_ok, pure_ok, emit] at h
  obtain ⟨wa, wb, ⟨e, e'⟩, _, _, rfl, _, _, rfl, rfl, rfl⟩ := h
  subst e'; subst e
  rfl

theorem finishTransfer_spec {cb : Bool} {rs rs' : Replies} {w w' : World}
    (h : finishTransfer cb rs w = (.ok rs', w')) :
    ∃ rl, Ext w w' (if cb && w'.cancelled then [str "ABOR" ++ CRLF] else []) rl ∧ rs'.list = rs.list ++ rl := by
  unfold finishTransfer at h
  have abortCase : ∀ w1, (do let rs ← processAbort rs; dataDisconnect false; pure rs) w1 = (.ok rs', w') →
      ∃ rl, Ext w1 w' [str "ABOR" ++ CRLF] rl ∧ rs'.list = rs.list ++ rl ∧ w'.cancelled = w1.cancelled := by
    intro w1 h
    simp only [bind_ok, pure_ok] at h
    obtain ⟨rs2, w2, h2, _, w3, h3, rfl, rfl⟩ := h
    obtain ⟨rl, x2, e2, c2⟩ := processAbort_spec h2
    have x3 := Ext.of_data (dataDisconnect_rg _) h3
    have c3 : w3.cancelled = w2.cancelled := (dataDisconnect_canc _).of_eq h3
    exact ⟨rl, by simpa using x2.trans x3, e2, c3.trans c2⟩
  have plainCase : ∀ w1, (do dataDisconnect true; let __x ← recvInto rs; pure __x.snd) w1 = (.ok rs', w') →
      ∃ rl, Ext w1 w' [] rl ∧ rs'.list = rs.list ++ rl ∧ w'.cancelled = w1.cancelled := by
    intro w1 h
    simp only [bind_ok, pure_ok] at h
    obtain ⟨_, w2, h2, ⟨r3, rs3⟩, w3, h3, rfl, rfl⟩ := h
    have x2 := Ext.of_data (dataDisconnect_rg _) h2
    have c2 : w2.cancelled = w1.cancelled := (dataDisconnect_canc _).of_eq h2
    obtain ⟨e, x3, l3⟩ := recvInto_ext h3
    have c3 : w3.cancelled = w2.cancelled := (recvInto_canc _).of_eq h3
    subst e
    exact ⟨_, by simpa using x2.trans x3, by simp, c3.trans c2⟩
  dsimp only at h
  cases cb
  · simp only [Bool.false_eq_true, if_false, pure_bind_M] at h
    obtain ⟨rl, x, e, _⟩ := plainCase _ h
    exact ⟨rl, by simpa using x, e⟩
  · simp only [if_true, bind_ok] at h
    obtain ⟨b, w1, h1, h⟩ := h
    have x1 := Ext.of_data poll_rg h1
    have hb := poll_ok h1
    cases b
    · simp only [Bool.false_eq_true, if_false] at h
      obtain ⟨rl, x, e, c⟩ := plainCase _ h
      refine ⟨rl, ?_, e⟩
      rw [c, hb]
      simpa using x1.trans x
    · simp only [if_true] at h
      obtain ⟨rl, x, e, c⟩ := abortCase _ h
      refine ⟨rl, ?_, e⟩
      rw [c, hb]
      simpa using x1.trans x


theorem transfer_ref (s : Spec.Settings) (verb : String) (arg : Option Bytes) (canc : Bool) (setup : Bytes)
    (ready : Bool) (ws1 ws2 : List Bytes) (rl1 rl2 : List Reply)
    (hsetup : s.passive = true → setup = if s.rfc2428 then str "EPSV" else str "PASV")
    (sh : DCShape setup (Spec.line verb arg) ready ws1 rl1)
    (h2 : ws2 = if ready && canc then [str "ABOR" ++ CRLF] else [])
    (h3 : ready = false → rl2 = []) :
    (ws1 ++ ws2).map lineOf =
      Spec.expectedLines s (.transfer verb arg canc) ((rl1 ++ rl2).map (·.code))
        (((ws1 ++ ws2).head?.map lineOf).getD []) := by
  have hset : (if s.passive = true then (if s.rfc2428 = true then str "EPSV" else str "PASV") else setup) = setup := by
    split
    · rename_i hp; exact (hsetup hp).symm
    · rfl
  rcases sh with ⟨r1, rfl, rfl, rfl, hn⟩ | ⟨r1, r2, rfl, rfl, hn1, hn2⟩
  · simp [h2, h3, Spec.expectedLines, hn, hset]
  · cases ready <;> cases canc <;> simp_all [Spec.expectedLines]

theorem withScope_ok {α} {body : M α} {cleanup : M Unit} {w w' : World} {a : α}
    (h : withScope body cleanup w = (.ok a, w')) : ∃ w1 u, body w = (.ok a, w1) ∧ cleanup w1 = (.ok u, w') := by
  unfold withScope at h
  rcases hb : body w with ⟨b | _, w1⟩
  · rw [hb] at h
    simp only at h
    rcases hc : cleanup w1 with ⟨u | _, w2⟩
    · rw [hc] at h
      simp only [Prod.mk.injEq, Res.ok.injEq] at h
      obtain ⟨rfl, rfl⟩ := h
      exact ⟨w1, u, rfl, hc⟩
    · rw [hc] at h; simp at h
  · rw [hb] at h; simp at h

theorem xfer_spec {verb : String} {arg : Option Bytes} {cb : Bool} {mv : TType → M Unit}
    (hk : ∀ t, Keeps (Rg P0) (mv t)) {w w' : World} {rs : Replies} (s : Spec.Settings)
    (hp : s.passive = (w.mode == .passive)) (hr : s.rfc2428 = w.rfc)
    (h : withScope (do
      let c ← mkCmd verb arg
      let (ready, rs) ← createDataConnection c Replies.empty
      if ready then
        let w ← getW
        mv w.ttype
        finishTransfer cb rs
      else pure rs) destroyConn w = (.ok rs, w')) :
    ∃ ws, Ext w w' ws rs.list ∧
      ws.map lineOf = Spec.expectedLines s (.transfer verb arg (cb && w'.cancelled)) (rs.list.map (·.code))
        ((ws.head?.map lineOf).getD []) := by
  obtain ⟨w4, _, h, hd⟩ := withScope_ok h
  have xd := Ext.of_data destroyConn_rg hd
  have cd : w'.cancelled = w4.cancelled := destroyConn_canc.of_eq hd
  simp only [bind_ok] at h
  obtain ⟨c, w0, hc, ⟨ready, rs1⟩, w1, h1, h⟩ := h
  obtain ⟨mc, e⟩ := mkCmd_ok hc; subst e
  have ec := makeCommand_line _ _ _ mc
  subst ec
  obtain ⟨setup, ws1, rl1, x1, e1, sh, hsetup⟩ := createDataConnection_spec h1
  simp only [Replies.empty, List.nil_append] at e1
  have hsetup' : s.passive = true → setup = if s.rfc2428 then str "EPSV" else str "PASV" := by
    intro h; rw [hr]; apply hsetup; rw [hp] at h; simpa using h
  dsimp only at h
  cases ready
  · simp only [Bool.false_eq_true, if_false, pure_ok] at h
    obtain ⟨rfl, rfl⟩ := h
    refine ⟨ws1, by simpa [e1] using x1.trans xd, ?_⟩
    have := transfer_ref s verb arg (cb && w'.cancelled) setup false ws1 [] rl1 [] hsetup' sh (by simp) (by simp)
    simpa [e1] using this
  · simp only [if_true, bind_ok, getW_ok] at h
    obtain ⟨wa, wb, ⟨e, e'⟩, _, w2, h2, h3⟩ := h
    subst e'; subst e
    have x2 := Ext.of_data (hk _) h2
    obtain ⟨rl2, x3, e3⟩ := finishTransfer_spec h3
    rw [← cd] at x3
    refine ⟨_, by simpa [e1, e3] using ((x1.trans x2).trans x3).trans xd, ?_⟩
    have := transfer_ref s verb arg (cb && w'.cancelled) setup true ws1
      (if (cb && w'.cancelled) = true then [str "ABOR" ++ CRLF] else []) rl1 rl2 hsetup' sh (by simp) (by simp)
    simpa [e1, e3] using this


theorem download_spec {path : Bytes} {cb : Bool} {w w' : World} {rs : Replies} (s : Spec.Settings)
    (hp : s.passive = (w.mode == .passive)) (hr : s.rfc2428 = w.rfc)
    (h : download path cb w = (.ok rs, w')) :
    ∃ ws, Ext w w' ws rs.list ∧
      ws.map lineOf = Spec.expectedLines s (.transfer "RETR" (some path) (cb && w'.cancelled))
        (rs.list.map (·.code)) ((ws.head?.map lineOf).getD []) := by
  unfold download at h
  exact xfer_spec (mv := fun t => dataRecv cb t) (fun t => dataRecv_rg cb t) s hp hr h

theorem upload_spec {verb : String} {path : Bytes} {cb : Bool} {w w' : World} {rs : Replies} (s : Spec.Settings)
    (hp : s.passive = (w.mode == .passive)) (hr : s.rfc2428 = w.rfc)
    (h : upload verb path cb w = (.ok rs, w')) :
    ∃ ws, Ext w w' ws rs.list ∧
      ws.map lineOf = Spec.expectedLines s (.transfer verb (some path) (cb && w'.cancelled))
        (rs.list.map (·.code)) ((ws.head?.map lineOf).getD []) := by
  unfold upload at h
  exact xfer_spec (mv := fun t => dataSend cb t) (fun t => dataSend_rg cb t) s hp hr h

theorem fileList_spec {path : Option Bytes} {names : Bool} {w w' : World} {rs : Replies} {text : Bytes}
    (s : Spec.Settings) (hp : s.passive = (w.mode == .passive)) (hr : s.rfc2428 = w.rfc)
    (h : fileList path names w = (.ok (rs, text), w')) :
    ∃ ws, Ext w w' ws rs.list ∧
      ws.map lineOf = Spec.expectedLines s (.transfer (if names then "NLST" else "LIST") path false)
        (rs.list.map (·.code)) ((ws.head?.map lineOf).getD []) := by
  unfold fileList at h
  obtain ⟨w4, _, h, hd⟩ := withScope_ok h
  have xd := Ext.of_data destroyConn_rg hd
  simp only [bind_ok] at h
  obtain ⟨c, w0, hc, ⟨ready, rs1⟩, w1, h1, h⟩ := h
  obtain ⟨mc, e⟩ := mkCmd_ok hc; subst e
  have ec := makeCommand_line _ _ _ mc
  subst ec
  obtain ⟨setup, ws1, rl1, x1, e1, sh, hsetup⟩ := createDataConnection_spec h1
  simp only [Replies.empty, List.nil_append] at e1
  have hsetup' : s.passive = true → setup = if s.rfc2428 then str "EPSV" else str "PASV" := by
    intro h; rw [hr]; apply hsetup; rw [hp] at h; simpa using h
  dsimp only at h
  cases ready
  · simp only [Bool.false_eq_true, if_false, pure_ok, Prod.mk.injEq] at h
    obtain ⟨⟨rfl, rfl⟩, rfl⟩ := h
    refine ⟨ws1, by simpa [e1] using x1.trans xd, ?_⟩
    have := transfer_ref s _ path false setup false ws1 [] rl1 [] hsetup' sh (by simp) (by simp)
    simpa [e1] using this
  · simp only [if_true, bind_ok, getW_ok, pure_ok, Prod.mk.injEq] at h
    obtain ⟨wa, wb, ⟨e, e'⟩, _, w2, h2, _, w3, h3, wc, wd, ⟨e2, e2'⟩, _, w5, h5, _, w6, h6, _, w7, h7,
      ⟨r8, rs8⟩, w8, h8, ⟨rfl, rfl⟩, rfl⟩ := h
    subst e'; subst e; subst e2'; subst e2
    have x2 : Ext wa w2 [] [] := by
      have := modifyW_ok.mp h2; subst this; exact ⟨[], by simp, rfl, rfl⟩
    have x3 := Ext.of_data (dataRecv_rg _ _) h3
    have x5 := Ext.of_data (Rg.emit (P := P0) rfl) h5
    have x6 := Ext.of_data (Rg.forObservers (P := P0) (fun _ => rfl)) h6
    have x7 := Ext.of_data (dataDisconnect_rg _) h7
    obtain ⟨e, x8, l8⟩ := recvInto_ext h8
    subst e
    refine ⟨_, by simpa [e1] using (((((((x1.trans x2).trans x3).trans x5).trans x6).trans x7).trans x8).trans xd), ?_⟩
    have := transfer_ref s _ path false setup true ws1 [] rl1 [r8] hsetup' sh (by simp) (by simp)
    simpa [e1] using this

/-! ### the API calls -/

/-- the trace is extended by events that satisfy `P` -/
def Rt (P : Ev → Prop) (w w' : World) : Prop := ∃ evs, w'.trace = w.trace ++ evs ∧ ∀ e ∈ evs, P e

instance (P : Ev → Prop) : IsPre (Rt P) where
  refl w := ⟨[], by simp, by simp⟩
  trans := by
    rintro a b c ⟨e1, t1, p1⟩ ⟨e2, t2, p2⟩
    refine ⟨e1 ++ e2, by rw [t2, t1, List.append_assoc], ?_⟩
    intro e he
    rcases List.mem_append.mp he with he | he
    · exact p1 e he
    · exact p2 e he

theorem Rt.modifyW {P : Ev → Prop} {f : World → World} (h : ∀ w, (f w).trace = w.trace) :
    Keeps (Rt P) (Client.modifyW f) :=
  fun w => ⟨[], by simp [Client.modifyW, h w], by simp⟩

theorem Rg.toRt {P : Ev → Prop} {α} {m : M α} (h : Keeps (Rg P) m) : Keeps (Rt P) m := fun w => (h w).2

/-- the user-supplied verbs of a call are harmless -/
def OpVerbOk (Q : Bytes → Prop) : Op → Prop
  | .simple v _ => VerbOk Q v
  | .upload v _ _ => VerbOk Q v
  | _ => True

theorem map_rg {R : World → World → Prop} [IsPre R] {α β} {m : M α} (f : α → β) (h : Keeps R m) :
    Keeps R (do let r ← m; pure (f r)) :=
  Keeps.bind h (fun _ => Keeps.pure _)

theorem run_rg {Q : Bytes → Prop} (hQ : CmdOk Q) (op : Op) (hv : OpVerbOk Q op) (hne : ∀ t, op ≠ .setType t) :
    Keeps (Rg (PW Q)) op.run := by
  cases op with
  | connect h p c => exact map_rg (R := Rg (PW Q)) _ (connect_rg hQ h p c)
  | login u p => exact map_rg (R := Rg (PW Q)) _ (login_rg hQ u p)
  | logout => exact map_rg (R := Rg (PW Q)) _ (logout_rg hQ)
  | simple v a => exact map_rg (R := Rg (PW Q)) _ (simple_rg hQ hv a)
  | setType t => exact absurd rfl (hne t)
  | rename a b => exact map_rg (R := Rg (PW Q)) _ (rename_rg hQ a b)
  | download p cb => exact map_rg (R := Rg (PW Q)) _ (download_rg hQ p cb)
  | upload v p cb => exact map_rg (R := Rg (PW Q)) _ (upload_rg hQ hv p cb)
  | list p n => exact map_rg (R := Rg (PW Q)) (fun r => Out.listing r.1 r.2) (fileList_rg hQ p n)
  | disconnect g => exact map_rg (R := Rg (PW Q)) _ (disconnect_rg hQ g)

theorem setTransferType_rt {Q : Bytes → Prop} (hQ : CmdOk Q) (t : TType) :
    Keeps (Rt (PW Q)) (setTransferType t) := by
  unfold setTransferType
  keeps_with [Rg.toRt (processCommand_rg (typeCommand_Q hQ t)), Rt.modifyW (fun _ => rfl)]

theorem run_rt {Q : Bytes → Prop} (hQ : CmdOk Q) (op : Op) (hv : OpVerbOk Q op) : Keeps (Rt (PW Q)) op.run := by
  by_cases h : ∃ t, op = .setType t
  · obtain ⟨t, rfl⟩ := h
    exact map_rg (R := Rt (PW Q)) _ (setTransferType_rt hQ t)
  · exact Rg.toRt (run_rg hQ op hv (fun t ht => h ⟨t, ht⟩))

theorem cmdOk_true : CmdOk (fun _ => True) := fun _ _ => trivial
theorem opVerbOk_true (op : Op) : OpVerbOk (fun _ => True) op := by
  cases op <;> first | exact .inl (fun _ => trivial) | trivial

/-- a write that is exactly one line -/
def OneLine (b : Bytes) : Prop := ∃ line, b = line ++ [CR, LF] ∧ hasCrLf line = false

theorem cmdOk_oneLine : CmdOk OneLine := fun c hc => ⟨c, rfl, hc⟩

theorem mem_writes {b : Bytes} {evs : List Ev} : b ∈ writes evs ↔ Ev.ctlWrite b ∈ evs := by
  unfold writes
  rw [List.mem_filterMap]
  constructor
  · rintro ⟨e, he, h⟩
    cases e <;> simp at h
    subst h; exact he
  · intro h; exact ⟨_, h, rfl⟩

theorem added_of_rt {α} {P : Ev → Prop} {m : M α} (h : Keeps (Rt P) m) (w : World) : ∀ e ∈ added m w, P e := by
  obtain ⟨evs, t, p⟩ := h w
  unfold Session.added Session.after
  rw [t, List.drop_left]
  exact p

/-- the world of a call that maps the result of a program -/
theorem map_apply {α β} (m : M α) (f : α → β) (w : World) :
    ((do let r ← m; pure (f r) : M β) w).2 = (m w).2 := by
  show ((m >>= fun r => pure (f r)) w).2 = _
  rw [bind_apply]
  rcases m w with ⟨a | _, w1⟩ <;> rfl

theorem setTransferType_tt (t : TType) (w : World) (h : (setTransferType t w).2.ttype ≠ w.ttype) :
    (setTransferType t w).2.ttype = t ∧
      ((received ((setTransferType t w).2.trace.drop w.trace.length)).getLast?.map Reply.isPositive) = some true := by
  have k := processCommand_rg (Q := fun _ => True) (cmd := typeCommand t) trivial
  rcases h1 : processCommand (typeCommand t) w with ⟨r | _, w1⟩
  · have ht := (k.of_eq h1).1
    obtain ⟨⟨evs, tr, _, hr⟩, _⟩ := processCommand_ext h1
    by_cases hp : r.isPositive = true
    · have e : setTransferType t w = (.ok r, { w1 with ttype := t }) := by
        unfold setTransferType
        simp only [bind_apply, h1, hp, if_true, modifyW_apply, pure_apply]
      rw [e]
      refine ⟨rfl, ?_⟩
      simp only [tr, List.drop_left, hr, List.getLast?_singleton, Option.map_some, hp]
    · have e : setTransferType t w = (.ok r, w1) := by
        unfold setTransferType
        simp only [bind_apply, h1, hp, Bool.false_eq_true, if_false, pure_apply]
      rw [e] at h
      exact absurd ht h
  · have ht := (k.of_eq h1).1
    have e : setTransferType t w = (.throw, w1) := by
      unfold setTransferType
      simp only [bind_apply, h1]
    rw [e] at h
    exact absurd ht h

/-! ### connecting with a user name -/

theorem world_bind_congr {α β γ} {m : M α} {f : α → M β} {g : α → M γ} (h : ∀ a w, (f a w).2 = (g a w).2)
    (w : World) : ((m >>= f) w).2 = ((m >>= g) w).2 := by
  simp only [bind_apply]
  rcases m w with ⟨a | _, w1⟩
  · exact h a w1
  · rfl

theorem world_bind_pure {α β} {m : M α} {f : α → M β} (h : ∀ a w, (f a w).2 = w) (w : World) :
    ((m >>= f) w).2 = (m w).2 := by
  simp only [bind_apply]
  rcases m w with ⟨a | _, w1⟩
  · exact h a w1
  · rfl

theorem processCommandInto_eq (cmd : Bytes) (rs : Replies) :
    processCommandInto cmd rs = processCommand cmd >>= fun r => pure (r, rs.append r) := by
  unfold processCommandInto processCommand recvInto
  rw [bind_assoc]

theorem processLogin_indep (u p : Bytes) (rs rs' : Replies) (w : World) :
    (processLogin u p rs w).2 = (processLogin u p rs' w).2 := by
  unfold processLogin
  simp only [processCommandInto_eq, bind_assoc, pure_bind]
  refine world_bind_congr (fun cu w => ?_) w
  refine world_bind_congr (fun cp w => ?_) w
  refine world_bind_congr (fun r w => ?_) w
  have tail : ∀ (r : Reply) (a b : Replies) (w : World),
      ((if r.isNegative = true then pure (r, a)
        else do
          let w ← getW
          let r ← processCommand (typeCommand w.ttype)
          pure (r, a.append r) : M (Reply × Replies)) w).2 =
      ((if r.isNegative = true then pure (r, b)
        else do
          let w ← getW
          let r ← processCommand (typeCommand w.ttype)
          pure (r, b.append r) : M (Reply × Replies)) w).2 := by
    intro r a b w
    split
    · rfl
    · refine world_bind_congr (fun _ w => ?_) w
      refine world_bind_congr (fun _ w => ?_) w
      rfl
  split
  · refine world_bind_congr (fun r2 w => ?_) w
    exact tail _ _ _ _
  · exact tail _ _ _ _


theorem mkCmd_succ (v : String) (a : Bytes) (w : World) (ha : hasCrLf a = false) :
    mkCmd v (some a) w = (.ok (str v ++ [SP] ++ a), w) := by
  unfold mkCmd makeCommand
  simp only [ha, Bool.false_eq_true, if_false]
  rfl

theorem login_world (u p : Bytes) (w : World) : (login u p w).2 = (processLogin u p Replies.empty w).2 := by
  unfold login
  exact world_bind_pure (fun _ _ => rfl) w

/-- the world after connecting with a user name, in terms of the plain connect -/
theorem connect_user_world {h : Bytes} {p : Nat} {u pw : Bytes} {w w1 : World} {rs : Replies}
    (hu : hasCrLf u = false) (hp : hasCrLf pw = false) (h1 : connect h p none w = (.ok rs, w1))
    (hpos : (rs.list.getLast?.map Reply.isNegative) = some false) :
    (connect h p (some (u, pw)) w).2 = (login u pw w1).2 := by
  rw [connect_eq] at h1
  simp only [bind_ok] at h1
  obtain ⟨_, w0, h0, ⟨r, rs1⟩, w2, hc, ht⟩ := h1
  have := connectCheck_ok h0; subst this
  obtain ⟨_, hlast, _, _, _⟩ := connectCore_spec hc
  have e : rs = rs1 ∧ w1 = w2 := by
    unfold connectTail at ht
    dsimp only at ht
    split at ht <;> (simp only [pure_ok] at ht; exact ⟨ht.1.symm, ht.2.symm⟩)
  obtain ⟨rfl, rfl⟩ := e
  have hneg : r.isNegative = false := by
    rw [hlast] at hpos
    simpa using hpos
  have hcheck : connectCheck (some (u, pw)) w0 = (.ok (), w0) := by
    unfold connectCheck
    simp only [bind_apply, mkCmd_succ _ _ _ hu, mkCmd_succ _ _ _ hp, pure_apply]
  rw [connect_eq, login_world, processLogin_indep u pw Replies.empty rs]
  simp only [bind_apply, hcheck, hc]
  unfold connectTail
  simp only [hneg, Bool.false_eq_true, if_false]
  exact world_bind_pure (fun _ _ => rfl) w1

theorem added_trans {α β} {m1 : M α} {m2 : M β} {mm : M α} {w w1 : World} {P : Ev → Prop}
    (e1 : (m1 w).2 = w1) (k1 : Rt P w w1) (k2 : Rt P w1 (m2 w1).2) (e : (mm w).2 = (m2 w1).2) :
    added mm w = added m1 w ++ added m2 w1 := by
  obtain ⟨y, ty, _⟩ := k1
  obtain ⟨x, tx, _⟩ := k2
  unfold Session.added Session.after
  rw [e, e1, tx, ty, List.append_assoc, List.drop_left, List.drop_left, ← List.append_assoc, List.drop_left]

/-! ### caller text (C09 at client level) -/

theorem ctlSend_connected (cmd : Bytes) (w : World) (hc : w.connected = true) : ∃ w2, ctlSend cmd w = (.ok (), w2) := by
  unfold ctlSend forObservers
  simp only [bind_apply, getW, modifyW_apply, emit, hc, Bool.not_true, Bool.false_eq_true, if_false]
  exact ⟨_, rfl⟩

theorem simple_first_write (v : String) (a : Bytes) (w : World) (ha : hasCrLf a = false) (hc : w.connected = true) :
    ∃ rest, writes ((simple v (some a) w).2.trace.drop w.trace.length) = (str v ++ [SP] ++ a ++ CRLF) :: rest := by
  obtain ⟨w2, h2⟩ := ctlSend_connected (str v ++ [SP] ++ a) w hc
  obtain ⟨e1, t1, a1, _⟩ := ctlSend_ext h2
  obtain ⟨_, e2, t2, _⟩ := (ctlRecv_rg (Q := fun _ => True)) w2
  have e : (simple v (some a) w).2 = (ctlRecv w2).2 := by
    unfold simple processCommand
    simp only [bind_apply, mkCmd_succ v a w ha, h2]
  rw [e, t2, t1, List.append_assoc, List.drop_left, writes_append, a1]
  exact ⟨_, rfl⟩

theorem mkCmd_fail (v : String) (a : Bytes) (w : World) (ha : hasCrLf a = true) :
    mkCmd v (some a) w = (.throw, w) := by
  unfold mkCmd makeCommand
  simp only [ha, if_true]
  exact throwE_apply w

theorem mkCmd_cases (v : String) (a : Option Bytes) (w : World) :
    mkCmd v a w = (.throw, w) ∨ ∃ c, mkCmd v a w = (.ok c, w) := by
  unfold mkCmd
  cases makeCommand (str v) a with
  | none => exact .inl (throwE_apply w)
  | some c => exact .inr ⟨c, rfl⟩

theorem one_mk_fail {α} (v : String) (a : Bytes) (f : Bytes → M α) (w : World) (h : hasCrLf a = true) :
    (mkCmd v (some a) >>= f) w = (.throw, w) := by
  rw [bind_apply, mkCmd_fail v a w h]

theorem two_mk_fail {α} (v1 v2 : String) (a b : Bytes) (f : Bytes → Bytes → M α) (w : World)
    (h : hasCrLf a = true ∨ hasCrLf b = true) :
    (mkCmd v1 (some a) >>= fun c1 => mkCmd v2 (some b) >>= fun c2 => f c1 c2) w = (.throw, w) := by
  rw [bind_apply]
  rcases mkCmd_cases v1 (some a) w with h1 | ⟨c, h1⟩
  · rw [h1]
  · rw [h1]
    simp only
    rcases h with h | h
    · rw [mkCmd_fail v1 a w h] at h1; cases h1
    · exact one_mk_fail v2 b _ w h

theorem destroyConn_none (w : World) (h : w.conn = none) : destroyConn w = (.ok (), w) := by
  unfold destroyConn
  simp only [bind_apply, getW, h]
  rfl

theorem withScope_fail {α} (body : M α) (w : World) (hb : body w = (.throw, w)) (h : w.conn = none) :
    withScope body destroyConn w = (.throw, w) := by
  unfold withScope
  rw [hb]
  simp only [destroyConn_none w h]

/-- the texts a caller passes to a call -/
def callTexts : Op → List Bytes
  | .connect _ _ (some (u, p)) => [u, p]
  | .login u p => [u, p]
  | .simple _ (some a) => [a]
  | .rename a b => [a, b]
  | .download p _ => [p]
  | .upload _ p _ => [p]
  | .list (some p) _ => [p]
  | _ => []

theorem run_rejects (op : Op) (w : World) (h : ∃ a ∈ callTexts op, hasCrLf a = true) (hconn : w.conn = none) :
    op.run w = (.throw, w) := by
  obtain ⟨a, ha, hbad⟩ := h
  have two : ∀ {x y : Bytes}, a ∈ [x, y] → hasCrLf x = true ∨ hasCrLf y = true := by
    intro x y hm
    simp only [List.mem_cons, List.not_mem_nil, or_false] at hm
    rcases hm with rfl | rfl
    · exact .inl hbad
    · exact .inr hbad
  have lift : ∀ {α} (m : M α) (f : α → Out), m w = (.throw, w) → (do let r ← m; pure (f r) : M Out) w = (.throw, w) := by
    intro α m f hm
    show (m >>= fun r => pure (f r)) w = _
    rw [bind_apply, hm]
  cases op with
  | connect hst p c =>
    rcases c with _ | ⟨u, pw⟩
    · simp [callTexts] at ha
    · refine lift _ _ ?_
      rw [connect_eq]
      have : connectCheck (some (u, pw)) w = (.throw, w) := by
        unfold connectCheck
        exact two_mk_fail "USER" "PASS" u pw (fun _ _ => pure ()) w (two ha)
      show (connectCheck (some (u, pw)) >>= fun _ => _) w = _
      rw [bind_apply, this]
  | login u p =>
    refine lift _ _ ?_
    unfold login
    rw [bind_apply]
    have : processLogin u p Replies.empty w = (.throw, w) := by
      unfold processLogin
      exact two_mk_fail "USER" "PASS" u p _ w (two ha)
    rw [this]
  | logout => simp [callTexts] at ha
  | simple v arg =>
    rcases arg with _ | x
    · simp [callTexts] at ha
    · simp only [callTexts, List.mem_cons, List.not_mem_nil, or_false] at ha
      subst ha
      refine lift _ _ ?_
      unfold simple
      exact one_mk_fail v a _ w hbad
  | setType t => simp [callTexts] at ha
  | rename x y =>
    refine lift _ _ ?_
    unfold rename
    exact two_mk_fail "RNFR" "RNTO" x y _ w (two ha)
  | download p cb =>
    simp only [callTexts, List.mem_cons, List.not_mem_nil, or_false] at ha
    subst ha
    refine lift _ _ ?_
    unfold download
    exact withScope_fail _ w (one_mk_fail _ a _ w hbad) hconn
  | upload v p cb =>
    simp only [callTexts, List.mem_cons, List.not_mem_nil, or_false] at ha
    subst ha
    refine lift _ _ ?_
    unfold upload
    exact withScope_fail _ w (one_mk_fail _ a _ w hbad) hconn
  | list p n =>
    rcases p with _ | x
    · simp [callTexts] at ha
    · simp only [callTexts, List.mem_cons, List.not_mem_nil, or_false] at ha
      subst ha
      refine lift (fileList (some a) n) (fun r => Out.listing r.1 r.2) ?_
      unfold fileList
      exact withScope_fail _ w (one_mk_fail _ a _ w hbad) hconn
  | disconnect g => simp [callTexts] at ha

end Ftp.Client.CtlL
