import Ftp.Spec.Session
import Ftp.Lemmas.ClientSession
import Ftp.Lemmas.ClientOps
/-
  helper lemmas for the operation-level version of C12 (`Ftp.Props.C12o`): forward run equations of a download whose
  callback reports cancellation at the poll after the j-th full block - set-up command, transfer command, j blocks,
  ABOR and its two replies, hard close, scope exit - in all four data-connection methods.
-/
set_option linter.unusedSectionVars false
set_option linter.unusedVariables false
set_option linter.unusedSimpArgs false

namespace Ftp.Client.CancelL
open Ftp Ftp.Client Ftp.Session Ftp.Props.C01 Ftp.Endpoint Ftp.Client.SessL Ftp.Client.CtlL Ftp.Client.OpsL

/-! ### frames -/

/-- the poll oracle and the sticky cancellation flag are untouched -/
def Rpc (w w' : World) : Prop := w'.polls = w.polls ∧ w'.cancelled = w.cancelled

instance : IsPre Rpc where
  refl w := ⟨rfl, rfl⟩
  trans := by
    rintro a b c ⟨a1, a2⟩ ⟨b1, b2⟩
    exact ⟨b1.trans a1, b2.trans a2⟩

namespace Rpc

theorem mod {f : World → World} (h : ∀ w, (f w).polls = w.polls ∧ (f w).cancelled = w.cancelled) :
    Keeps Rpc (Client.modifyW f) := fun w => h w

theorem emit (e : Ev) : Keeps Rpc (Client.emit e) := fun _ => ⟨rfl, rfl⟩

theorem obs (f : Nat → Ev) : Keeps Rpc (Client.forObservers f) := fun _ => ⟨rfl, rfl⟩

end Rpc

/-- callback invocations and graceful shutdowns of a data descriptor -/
def noisy : Ev → Bool
  | .cbPoll _ | .cbBegin | .cbNotify _ | .cbEnd | .dataShutdown _ => true
  | _ => false

abbrev Pq : Ev → Prop := fun e => noisy e = false

theorem pq_of_ctl (e : Ev) (h : isCtl e = true) : Pq e := by
  cases e <;> first | rfl | simp [isCtl] at h

section walk
attribute [local irreducible] throwE getW modifyW emit withScope forObservers ctlSend ctlClose ctlRecv recvInto mkCmd
  processCommand processCommandInto typeCommand simple processLogin login connect logout setTransferType rename
  disconnect newDescriptor closeD destroyConn dataDisconnect addrText dataConnect dataListen dataAccept processEpsv
  processPasv processActive createDataConnection poll sinkWrite sinkFlush streamWrite streamFlush recvLoop dataRecv
  srcRead dataWrite sendLoopBin sendLoopAscii dataSend processAbort finishTransfer download upload fileList

macro "pkeeps" "[" ts:term,* "]" : tactic =>
  `(tactic| keeps_with [Rpc.mod (fun _ => ⟨rfl, rfl⟩), Rpc.emit _, Rpc.obs _, mkCmd_keeps _ _, $ts,*])

theorem ctlSend_pc (cmd : Bytes) : Keeps Rpc (ctlSend cmd) := by unfold ctlSend; pkeeps []
theorem ctlClose_pc : Keeps Rpc ctlClose := by unfold ctlClose; pkeeps []
theorem ctlRecv_pc : Keeps Rpc ctlRecv := by unfold ctlRecv; pkeeps [ctlClose_pc]
theorem recvInto_pc (rs : Replies) : Keeps Rpc (recvInto rs) := by unfold recvInto; pkeeps [ctlRecv_pc]
theorem processCommandInto_pc (c : Bytes) (rs : Replies) : Keeps Rpc (processCommandInto c rs) := by
  unfold processCommandInto; pkeeps [ctlSend_pc _, recvInto_pc _]
theorem closeD_pc (d : Nat) : Keeps Rpc (closeD d) := by unfold closeD; pkeeps []
theorem dataDisconnect_pc (g : Bool) : Keeps Rpc (dataDisconnect g) := by
  unfold dataDisconnect; pkeeps [closeD_pc _]
theorem newDescriptor_pc : Keeps Rpc newDescriptor := by unfold newDescriptor; pkeeps []
theorem dataConnect_pc (a : Bytes) (p : Nat) : Keeps Rpc (dataConnect a p) := by
  unfold dataConnect; pkeeps [newDescriptor_pc, closeD_pc _]
theorem dataListen_pc : Keeps Rpc dataListen := by unfold dataListen; pkeeps [newDescriptor_pc]
theorem dataAccept_pc : Keeps Rpc dataAccept := by unfold dataAccept; pkeeps []
theorem processEpsv_pc (c : Bytes) (rs : Replies) : Keeps Rpc (processEpsv c rs) := by
  unfold processEpsv; pkeeps [processCommandInto_pc _ _, dataConnect_pc _ _, dataDisconnect_pc _]
theorem processPasv_pc (c : Bytes) (rs : Replies) : Keeps Rpc (processPasv c rs) := by
  unfold processPasv; pkeeps [processCommandInto_pc _ _, dataConnect_pc _ _, dataDisconnect_pc _]
theorem processActive_pc (e : Bool) (c : Bytes) (rs : Replies) : Keeps Rpc (processActive e c rs) := by
  unfold processActive; pkeeps [processCommandInto_pc _ _, dataListen_pc, dataAccept_pc]
theorem createDataConnection_pc (c : Bytes) (rs : Replies) : Keeps Rpc (createDataConnection c rs) := by
  unfold createDataConnection; pkeeps [processEpsv_pc _ _, processPasv_pc _ _, processActive_pc _ _ _]

theorem newDescriptor_pq : Keeps (Rg Pq) newDescriptor := by unfold newDescriptor; keeps
theorem closeD_pq (d : Nat) : Keeps (Rg Pq) (closeD d) := by unfold closeD; keeps
theorem dataConnect_pq (a : Bytes) (p : Nat) : Keeps (Rg Pq) (dataConnect a p) := by
  unfold dataConnect; keeps_with [newDescriptor_pq, closeD_pq _]
theorem dataListen_pq : Keeps (Rg Pq) dataListen := by unfold dataListen; keeps_with [newDescriptor_pq]
theorem dataAccept_pq : Keeps (Rg Pq) dataAccept := by unfold dataAccept; keeps

end walk

/-! ### a set-up that reports a ready data connection invokes no callback and shuts nothing down -/

theorem processEpsv_ready {cmd : Bytes} {rs rs' : Replies} {w w' : World}
    (h : processEpsv cmd rs w = (.ok (true, rs'), w')) : Rg Pq w w' := by
  unfold processEpsv at h
  simp only [bind_ok] at h
  obtain ⟨c, w0, hc, ⟨r1, rs1⟩, w1, h1, h⟩ := h
  have x0 : Rg Pq w w0 := (mkCmd_keeps _ _).of_eq hc
  have x1 : Rg Pq w0 w1 := (processCommandInto_p pq_of_ctl _ _).of_eq h1
  dsimp only at h
  split at h
  · simp only [pure_ok, Prod.mk.injEq] at h
    obtain ⟨⟨hh, _⟩, _⟩ := h
    cases hh
  · rcases hp : parseEpsv r1.text with _ | port
    · simp [hp, throwE_ok] at h
    · simp only [hp, bind_ok, getW_ok] at h
      obtain ⟨_, _, ⟨rfl, rfl⟩, _, w2, h2, ⟨r3, rs3⟩, w3, h3, h⟩ := h
      have x2 : Rg Pq _ w2 := (dataConnect_pq _ _).of_eq h2
      have x3 : Rg Pq w2 w3 := (processCommandInto_p pq_of_ctl _ _).of_eq h3
      dsimp only at h
      split at h
      · simp only [bind_ok, pure_ok, Prod.mk.injEq] at h
        obtain ⟨_, w4, h4, ⟨hh, _⟩, _⟩ := h
        cases hh
      · simp only [pure_ok, Prod.mk.injEq] at h
        obtain ⟨_, rfl⟩ := h
        exact IsPre.trans (IsPre.trans (IsPre.trans x0 x1) x2) x3

theorem processPasv_ready {cmd : Bytes} {rs rs' : Replies} {w w' : World}
    (h : processPasv cmd rs w = (.ok (true, rs'), w')) : Rg Pq w w' := by
  unfold processPasv at h
  simp only [bind_ok] at h
  obtain ⟨c, w0, hc, ⟨r1, rs1⟩, w1, h1, h⟩ := h
  have x0 : Rg Pq w w0 := (mkCmd_keeps _ _).of_eq hc
  have x1 : Rg Pq w0 w1 := (processCommandInto_p pq_of_ctl _ _).of_eq h1
  dsimp only at h
  split at h
  · simp only [pure_ok, Prod.mk.injEq] at h
    obtain ⟨⟨hh, _⟩, _⟩ := h
    cases hh
  · rcases hp : parsePasv r1.text with _ | ⟨ip, port⟩
    · simp [hp, throwE_ok] at h
    · simp only [hp, bind_ok] at h
      obtain ⟨_, w2, h2, ⟨r3, rs3⟩, w3, h3, h⟩ := h
      have x2 : Rg Pq _ w2 := (dataConnect_pq _ _).of_eq h2
      have x3 : Rg Pq w2 w3 := (processCommandInto_p pq_of_ctl _ _).of_eq h3
      dsimp only at h
      split at h
      · simp only [bind_ok, pure_ok, Prod.mk.injEq] at h
        obtain ⟨_, w4, h4, ⟨hh, _⟩, _⟩ := h
        cases hh
      · simp only [pure_ok, Prod.mk.injEq] at h
        obtain ⟨_, rfl⟩ := h
        exact IsPre.trans (IsPre.trans (IsPre.trans x0 x1) x2) x3

theorem activeTail_ready {c cmd : Bytes} {rs rs' : Replies} {w w' : World}
    (h : (do
      let __x ← processCommandInto c rs
      match __x with
        | (r, rs) =>
          if r.isNegative = true then pure (false, rs)
          else do
            let __x ← processCommandInto cmd rs
            match __x with
              | (r, rs) =>
                if r.isNegative = true then pure (false, rs)
                else do
                  dataAccept
                  pure (true, rs)) w = (.ok (true, rs'), w')) : Rg Pq w w' := by
  simp only [bind_ok] at h
  obtain ⟨⟨r1, rs1⟩, w1, h1, h⟩ := h
  have x1 : Rg Pq w w1 := (processCommandInto_p pq_of_ctl _ _).of_eq h1
  dsimp only at h
  split at h
  · simp only [pure_ok, Prod.mk.injEq] at h
    obtain ⟨⟨hh, _⟩, _⟩ := h
    cases hh
  · simp only [bind_ok] at h
    obtain ⟨⟨r3, rs3⟩, w3, h3, h⟩ := h
    have x3 : Rg Pq w1 w3 := (processCommandInto_p pq_of_ctl _ _).of_eq h3
    dsimp only at h
    split at h
    · simp only [pure_ok, Prod.mk.injEq] at h
      obtain ⟨⟨hh, _⟩, _⟩ := h
      cases hh
    · simp only [bind_ok, pure_ok, Prod.mk.injEq] at h
      obtain ⟨_, w4, h4, _, rfl⟩ := h
      have x4 : Rg Pq w3 w4 := dataAccept_pq.of_eq h4
      exact IsPre.trans (IsPre.trans x1 x3) x4

theorem processActive_ready {eprt : Bool} {cmd : Bytes} {rs rs' : Replies} {w w' : World}
    (h : processActive eprt cmd rs w = (.ok (true, rs'), w')) : Rg Pq w w' := by
  unfold processActive at h
  simp only [bind_ok, getW_ok] at h
  obtain ⟨port, w1, h1, wa, wb, ⟨e, e'⟩, h⟩ := h
  subst e'; subst e
  have x1 : Rg Pq w wa := dataListen_pq.of_eq h1
  split at h
  · rw [pure_bind_M] at h
    exact IsPre.trans x1 (activeTail_ready h)
  · rcases hp : fmtPort (if wa.v6 = true then Family.v6 else Family.v4) (addrText wa) port with _ | c
    · simp only [hp, throwE_bind_M, throwE_ok] at h
    · simp only [hp] at h
      rw [pure_bind_M] at h
      exact IsPre.trans x1 (activeTail_ready h)

theorem createDataConnection_ready {cmd : Bytes} {rs rs' : Replies} {w w' : World}
    (h : createDataConnection cmd rs w = (.ok (true, rs'), w')) : Rg Pq w w' := by
  unfold createDataConnection at h
  simp only [bind_ok, getW_ok] at h
  obtain ⟨wa, wb, ⟨e, e'⟩, h⟩ := h
  subst e'; subst e
  rcases hm : wa.mode <;> rcases hr : wa.rfc <;> simp only [hm, hr] at h
  · exact processPasv_ready h
  · exact processEpsv_ready h
  · exact processActive_ready h
  · exact processActive_ready h

/-! ### the transfer command is accepted; the transfer group of the script carries any number of further replies -/

theorem nextG_more_wf {m : WfReply} {q : List WfReply} {a : Option DataAct} {gs : List SGroup} (hm : m.wf)
    (hq : ∀ r ∈ q, r.wf) : ∀ r ∈ (nextG (⟨m :: q, a⟩ :: gs)).replies, r.wf := by
  intro r hr
  simp only [nextG, List.head?_cons, Option.getD_some, List.mem_cons] at hr
  rcases hr with rfl | hr
  · exact hm
  · exact hq r hr

theorem passiveRest_accepted' (cmd : Bytes) (rs : Replies) (w3 : World) (m : WfReply) (q : List WfReply)
    (act : Option DataAct) (gs : List SGroup) (hc : w3.connected = true) (hs : Sync w3 [])
    (hsc : w3.script = (⟨m :: q, act⟩ :: gs).map SGroup.enc) (hm : m.wf) (hq : ∀ r ∈ q, r.wf) (hacc : m.code < 400) :
    ∃ w5, passiveRest cmd rs w3 = (.ok (true, rs.append (replyOf m)), w5) ∧ w5.connected = true ∧ Sync w5 q ∧
      w5.script = gs.map SGroup.enc ∧ w5.conn = w3.conn ∧ w5.closeFails = w3.closeFails ∧
      (∀ a, act = some a → w5.act = some a) := by
  obtain ⟨c', net', h1, h2, h3, _⟩ := turn_run (x := m) (q' := q) cmd rs hc hs hsc (nextG_more_wf hm hq) rfl
  refine ⟨turnW cmd w3 m c' net', ?_, turnW_connected _ _ _ _ _ hc (by omega), h2, h3, rfl, rfl, ?_⟩
  · unfold passiveRest
    open DataL in msimp [DataL.bind_ok h1, neg_of_lt hm hacc]
  · intro a ha
    exact turnW_act _ _ _ _ _ _ _ a hsc ha

theorem activeRest_accepted' (cmd : Bytes) (rs : Replies) (w1 : World) (s m : WfReply) (q : List WfReply)
    (act : Option DataAct) (gs : List SGroup) (l : Nat) (hc : w1.connected = true) (hs : Sync w1 [s])
    (hacc : s.code < 400) (hsc : w1.script = (⟨m :: q, act⟩ :: gs).map SGroup.enc) (hm : m.wf) (hq : ∀ r ∈ q, r.wf)
    (hmain : m.code < 400) (hconn : w1.conn = some { sock := none, acc := some l }) :
    ∃ w2 d, activeRest cmd rs w1 = (.ok (true, (rs.append (replyOf s)).append (replyOf m)), w2) ∧
      w2.connected = true ∧ Sync w2 q ∧ w2.script = gs.map SGroup.enc ∧
      w2.conn = some { sock := some d, acc := some l } ∧ w2.closeFails = w1.closeFails ∧
      (∀ a, act = some a → w2.act = some a) := by
  obtain ⟨c', net', h1, h2⟩ := ctlRecv_sync hc hs
  have hwf := hs.2.2 s (List.mem_cons_self ..)
  have hc2 : (recvW w1 s.code s.text c' net').connected = true := by
    have : s.code ≠ 421 := by omega
    simp [recvW, this, hc]
  obtain ⟨c'', net'', g1, g2, g3, _⟩ := turn_run (x := m) (q' := q) cmd (rs.append (replyOf s)) hc2 h2
    (gs := ⟨m :: q, act⟩ :: gs) hsc (nextG_more_wf hm hq) rfl
  have hconn2 : (turnW cmd (recvW w1 s.code s.text c' net') m c'' net'').conn = some { sock := none, acc := some l } := hconn
  have hda := dataAccept_run _ _ l hconn2 rfl
  refine ⟨accW { sock := none, acc := some l } (turnW cmd (recvW w1 s.code s.text c' net') m c'' net''),
    (turnW cmd (recvW w1 s.code s.text c' net') m c'' net'').nextD, ?_, ?_, g2, g3, rfl, rfl, ?_⟩
  · unfold activeRest
    open DataL in msimp [DataL.bind_ok (recvInto_run rs h1), neg_of_lt hwf hacc, DataL.bind_ok g1, neg_of_lt hm hmain,
      DataL.bind_ok hda]
  · show (turnW cmd (recvW w1 s.code s.text c' net') m c'' net'').connected = true
    exact turnW_connected _ _ _ _ _ hc2 (by omega)
  · intro a ha
    exact turnW_act cmd (recvW w1 s.code s.text c' net') m c'' net'' _ _ a hsc ha

/-- `OpsL.cdc_accepted` for a transfer group `m :: q`: the replies `q` stay unread -/
theorem cdc_accepted' (cmd : Bytes) (rs : Replies) (w : World) (s m : WfReply) (q : List WfReply) (act : Option DataAct)
    (rest : List SGroup) (hstep : InStep w []) (hs : s.wf) (hm : m.wf) (hq : ∀ r ∈ q, r.wf) (hacc : s.code < 400)
    (hmain : m.code < 400)
    (hpass : w.mode = .passive → w.connectOks.head? = some true ∧
      (if w.rfc then (parseEpsv s.text).isSome else (parsePasv s.text).isSome))
    (hv6 : w.mode = .active → w.rfc = false → w.v6 = false)
    (hsc : w.script = (⟨[s], none⟩ :: ⟨m :: q, act⟩ :: rest).map SGroup.enc) :
    ∃ w1 d a, createDataConnection cmd rs w = (.ok (true, (rs.append (replyOf s)).append (replyOf m)), w1) ∧
      w1.connected = true ∧ Sync w1 q ∧ w1.script = rest.map SGroup.enc ∧
      w1.conn = some { sock := some d, acc := a } ∧ w1.closeFails = w.closeFails ∧
      (∀ x, act = some x → w1.act = some x) := by
  rw [createDataConnection_eq]
  rcases hmo : w.mode <;> rcases hr : w.rfc <;> simp only
  · obtain ⟨hok, hparse⟩ := hpass hmo
    simp only [hr, Bool.false_eq_true, if_false] at hparse
    obtain ⟨⟨ip, port⟩, hp⟩ := Option.isSome_iff_exists.mp hparse
    obtain ⟨w3, h1, hc3, hs3, hsc3, hconn3, hcf3⟩ := processPasv_accepted cmd rs w s none _ ip port
      hstep hs hacc hsc (by rw [hok]; rfl) hp
    obtain ⟨w5, g1, g2, g3, g4, g5, g6, g7⟩ := passiveRest_accepted' cmd _ w3 m q act rest hc3 hs3 hsc3 hm hq hmain
    exact ⟨w5, w.nextD, none, h1.trans g1, g2, g3, g4, g5.trans hconn3, g6.trans hcf3, g7⟩
  · obtain ⟨hok, hparse⟩ := hpass hmo
    simp only [hr, if_true] at hparse
    obtain ⟨port, hp⟩ := Option.isSome_iff_exists.mp hparse
    obtain ⟨w3, h1, hc3, hs3, hsc3, hconn3, hcf3⟩ := processEpsv_accepted cmd rs w s none _ port
      hstep hs hacc hsc (by rw [hok]; rfl) hp
    obtain ⟨w5, g1, g2, g3, g4, g5, g6, g7⟩ := passiveRest_accepted' cmd _ w3 m q act rest hc3 hs3 hsc3 hm hq hmain
    exact ⟨w5, w.nextD, none, h1.trans g1, g2, g3, g4, g5.trans hconn3, g6.trans hcf3, g7⟩
  · obtain ⟨w1, h1, hc1, hs1, hsc1, hconn1, hcf1⟩ := processActive_start' false cmd rs w s none _ hstep hs hsc
      (fun _ => hv6 hmo hr)
    obtain ⟨w2, d, g1, g2, g3, g4, g5, g6, g7⟩ := activeRest_accepted' cmd rs w1 s m q act rest w.nextD hc1 hs1 hacc hsc1
      hm hq hmain hconn1
    exact ⟨w2, d, some w.nextD, h1.trans g1, g2, g3, g4, g5, g6.trans hcf1, g7⟩
  · obtain ⟨w1, h1, hc1, hs1, hsc1, hconn1, hcf1⟩ := processActive_start' true cmd rs w s none _ hstep hs hsc
      (fun h => by cases h)
    obtain ⟨w2, d, g1, g2, g3, g4, g5, g6, g7⟩ := activeRest_accepted' cmd rs w1 s m q act rest w.nextD hc1 hs1 hacc hsc1
      hm hq hmain hconn1
    exact ⟨w2, d, some w.nextD, h1.trans g1, g2, g3, g4, g5, g6.trans hcf1, g7⟩

/-! ### the receive loop until the callback reports cancellation -/

/-- the world after `poll` -/
def pollW (w : World) : World :=
  { w with polls := w.polls.tail, cancelled := (w.cancelled || w.polls.head?.getD false),
           trace := w.trace ++ [.cbPoll (w.cancelled || w.polls.head?.getD false)] }

theorem poll_bind' {β : Type} (f : Bool → M β) (w : World) :
    (poll >>= f) w = f (w.cancelled || w.polls.head?.getD false) (pollW w) := rfl

/-- the world after one full block has been read, written to an audible sink, notified and polled -/
def stepW (d : Nat) (payload : Bytes) (w : World) : World :=
  { w with dataReads := w.dataReads.tail, sinkWrites := w.sinkWrites + 1, sink := w.sink ++ payload.take 8192,
           polls := w.polls.tail, cancelled := (w.cancelled || w.polls.head?.getD false),
           trace := w.trace ++ [.dataRead d 8192, .sinkWrite 8192, .cbNotify 8192,
             .cbPoll (w.cancelled || w.polls.head?.getD false)] }

theorem recvLoop_step (d k : Nat) (payload : Bytes) (prev : Bool) (w : World)
    (hhd : w.dataReads.head?.getD (some 0) = some 8192) (hlen : 8192 ≤ payload.length)
    (hsf : w.sinkFailAt = none) (hss : w.sinkSilent = false) :
    recvLoop true .binary d (k + 1) payload prev w =
      if (w.cancelled || w.polls.head?.getD false) = true then (.ok (false, false), stepW d payload w)
      else recvLoop true .binary d k (payload.drop 8192) false (stepW d payload w) := by
  have htk : (payload.take (min 8192 8192)).length = 8192 := by rw [List.length_take]; omega
  have hb : (payload.take (min 8192 8192)).isEmpty = false := by
    cases hp' : payload.take (min 8192 8192) with
    | nil => rw [hp'] at htk; simp at htk
    | cons => rfl
  have hne : ¬ (w.sinkFailAt = some w.sinkWrites) := by rw [hsf]; simp
  rw [DataL.recvLoop_block true .binary d k payload prev w 8192 hhd hb, DataL.bind_eq, DataL.streamWrite_run, if_neg hne]
  open DataL in msimp [DataL.bind_eq, DataL.poll_run]
  cases hc : (w.cancelled || w.polls.head?.getD false) <;>
    simp [stepW, DataL.conv, hss, Nat.min_eq_left hlen, hc]

/-- the events of one such block -/
def blockEvs (d : Nat) (b : Bool) : List Ev := [.dataRead d 8192, .sinkWrite 8192, .cbNotify 8192, .cbPoll b]

theorem recvLoop_cancel (d : Nat) : ∀ (i k : Nat) (payload : Bytes) (prev : Bool) (w : World)
    (more : List (Option Nat)) (mp : List Bool),
    w.dataReads = List.replicate (i + 1) (some 8192) ++ more →
    w.polls = List.replicate i false ++ true :: mp →
    w.cancelled = false → (i + 1) * 8192 ≤ payload.length → w.sinkFailAt = none → w.sinkSilent = false →
    ∃ w', recvLoop true .binary d (i + 1 + k) payload prev w = (.ok (false, false), w') ∧
      w'.trace = w.trace ++ ((List.replicate i (blockEvs d false)).flatten ++ blockEvs d true) ∧
      w'.sink = w.sink ++ payload.take ((i + 1) * 8192) ∧ w'.cancelled = true ∧ w'.sinkFailAt = none ∧
      w'.sinkSilent = false := by
  intro i
  induction i with
  | zero =>
    intro k payload prev w more mp hr hp hc hlen hsf hss
    have hhd : w.dataReads.head?.getD (some 0) = some 8192 := by rw [hr]; rfl
    have hpoll : (w.cancelled || w.polls.head?.getD false) = true := by rw [hc, hp]; rfl
    have hfuel : 0 + 1 + k = k + 1 := by omega
    rw [hfuel, recvLoop_step d k payload prev w hhd (by omega) hsf hss, if_pos hpoll]
    refine ⟨_, rfl, ?_, ?_, hpoll, hsf, hss⟩
    · simp [stepW, blockEvs, hpoll]
    · simp [stepW]
  | succ i ih =>
    intro k payload prev w more mp hr hp hc hlen hsf hss
    have hhd : w.dataReads.head?.getD (some 0) = some 8192 := by rw [hr]; rfl
    have hpoll : (w.cancelled || w.polls.head?.getD false) = false := by rw [hc, hp]; rfl
    have hfuel : i + 1 + 1 + k = (i + 1 + k) + 1 := by omega
    rw [hfuel, recvLoop_step d _ payload prev w hhd (by omega) hsf hss, if_neg (by rw [hpoll]; simp)]
    have e : (i + 1 + 1) * 8192 = (i + 1) * 8192 + 8192 := Nat.succ_mul (i + 1) 8192
    have hlen' : (i + 1) * 8192 ≤ (payload.drop 8192).length := by
      have hd : (payload.drop 8192).length = payload.length - 8192 := List.length_drop
      rw [e] at hlen
      clear e ih
      generalize (i + 1) * 8192 = x at hlen ⊢
      omega
    obtain ⟨w', h1, h2, h3, h4, h5, h6⟩ := ih k (payload.drop 8192) false (stepW d payload w) more mp
      (by show w.dataReads.tail = _; rw [hr]; rfl) (by show w.polls.tail = _; rw [hp]; rfl) hpoll
      hlen' hsf hss
    refine ⟨w', h1, ?_, ?_, h4, h5, h6⟩
    · rw [h2]
      simp [stepW, blockEvs, List.replicate_succ, hpoll]
    · rw [h3]
      rw [e, Nat.add_comm ((i + 1) * 8192) 8192, List.take_add]
      simp [stepW]

/-- the events of a binary download into an audible sink that is cancelled at the poll after the j-th full block -/
def cancelEvs (d j : Nat) : List Ev :=
  .cbPoll false :: .cbBegin :: ((List.replicate (j - 1) (blockEvs d false)).flatten ++ blockEvs d true) ++
    [.sinkFlush, .cbEnd]

theorem dataRecv_cb_run (w : World) (h : (w.cancelled || w.polls.head?.getD false) = false) :
    dataRecv true .binary w =
      (recvLoop true .binary (DataL.dOf w) (w.dataReads.length + 1) (DataL.payloadOf w) false >>= fun x =>
        if x.2 then ((throwE : M Unit) >>= fun _ => streamFlush .binary x.1 >>= fun _ => emit .cbEnd)
        else streamFlush .binary x.1 >>= fun _ => emit .cbEnd)
      { pollW w with trace := (pollW w).trace ++ [.cbBegin] } := by
  unfold dataRecv
  open DataL in msimp [poll_bind', h]
  rfl

theorem streamFlush_bin (p : Bool) (w : World) : streamFlush .binary p w =
    (.ok (), { w with sinkFlushes := w.sinkFlushes + 1,
                      trace := w.trace ++ (if w.sinkSilent then [] else [.sinkFlush]) }) := by
  unfold streamFlush
  open DataL in msimp [DataL.sinkFlush_run]

/-- `dataRecv` with a callback that reports cancellation at the poll after the j-th full block -/
theorem dataRecv_cancel (w : World) (payload : Bytes) (j : Nat) (more : List (Option Nat)) (mp : List Bool)
    (hj : 1 ≤ j) (hact : w.act = some (.send payload))
    (hreads : w.dataReads = List.replicate j (some 8192) ++ more)
    (hpolls : w.polls = List.replicate j false ++ true :: mp) (hnc : w.cancelled = false)
    (hlen : j * 8192 ≤ payload.length) (hsf : w.sinkFailAt = none) (hss : w.sinkSilent = false) :
    ∃ w2, dataRecv true .binary w = (.ok (), w2) ∧ w2.trace = w.trace ++ cancelEvs (DataL.dOf w) j ∧
      w2.sink = w.sink ++ payload.take (j * 8192) ∧ w2.cancelled = true := by
  obtain ⟨i, rfl⟩ : ∃ i, j = i + 1 := ⟨j - 1, by omega⟩
  have hpoll : (w.cancelled || w.polls.head?.getD false) = false := by rw [hnc, hpolls]; rfl
  have hpay : DataL.payloadOf w = payload := by simp [DataL.payloadOf, hact]
  have hfuel : w.dataReads.length + 1 = i + 1 + (more.length + 1) := by
    rw [hreads, List.length_append, List.length_replicate]; omega
  obtain ⟨w', h1, h2, h3, h4, h5, h6⟩ := recvLoop_cancel (DataL.dOf w) i (more.length + 1) payload false
    { pollW w with trace := (pollW w).trace ++ [.cbBegin] } more mp hreads
    (by show w.polls.tail = _; rw [hpolls]; rfl) hpoll hlen hsf hss
  rw [dataRecv_cb_run w hpoll, hpay, hfuel, DataL.bind_ok h1]
  open DataL in msimp [DataL.bind_ok (streamFlush_bin false w')]
  refine ⟨_, rfl, ?_, ?_, h4⟩
  · show w'.trace ++ (if w'.sinkSilent = true then [] else [Ev.sinkFlush]) ++ [Ev.cbEnd] = _
    rw [h6, h2]
    simp [pollW, hpoll, cancelEvs]
  · show w'.sink = _
    rw [h3]
    simp [pollW]

/-! ### the end of a cancelled transfer -/

/-- the world after a hard `dataDisconnect` of a connected socket (and of the acceptor of the active mode) -/
def closeW (d : Nat) (a : Option Nat) (w : World) : World :=
  { w with closeFails := (match a with | some _ => w.closeFails.tail.tail | none => w.closeFails.tail),
           conn := some { sock := none, acc := none },
           trace := w.trace ++ (.dataClose d :: a.toList.map Ev.dataClose) }

theorem dataDisconnect_hard_run (w : World) (d : Nat) (a : Option Nat)
    (hc : w.conn = some { sock := some d, acc := a }) (hcl : ∀ b ∈ w.closeFails, b = false) :
    dataDisconnect false w = (.ok (), closeW d a w) := by
  have h1 := DataL.head_getD_false _ hcl
  have h2 := DataL.head_getD_false w.closeFails.tail (fun b hb => hcl b (List.mem_of_mem_tail hb))
  unfold dataDisconnect
  open DataL in msimp [hc, DataL.closeD_bind]
  rcases a with _ | a <;> (open DataL in msimp [DataL.closeD_bind, h1, h2]) <;> simp [closeW]

/-- the world after the cancelled transfer has been aborted -/
def abortW (d : Nat) (a : Option Nat) (w2 : World) (a1 a2 : WfReply) (c' : Reader.Ctl) (net' : Reader.Net)
    (c'' : Reader.Ctl) (net'' : Reader.Net) : World :=
  closeW d a (recvW (turnW (str "ABOR") (pollW w2) a1 c' net') a2.code a2.text c'' net'')

/-- the end of a cancelled transfer against a server that answers ABOR with 426 and a second reply: ABOR is sent, both
    replies are read, the data connection is closed without a shutdown -/
theorem abort_run (rs : Replies) (w2 : World) (a1 a2 : WfReply) (rest : List SGroup) (d : Nat) (a : Option Nat)
    (hc : w2.connected = true) (hs : Sync w2 [])
    (hsc : w2.script = (⟨[a1, a2], none⟩ :: rest).map SGroup.enc) (ha1 : a1.wf) (ha2 : a2.wf) (h426 : a1.code = 426)
    (hconn : w2.conn = some { sock := some d, acc := a }) (hcl : ∀ b ∈ w2.closeFails, b = false)
    (hcan : w2.cancelled = true) :
    ∃ c' net' c'' net'', finishTransfer true rs w2 =
        (.ok ((rs.append (replyOf a1)).append (replyOf a2)), abortW d a w2 a1 a2 c' net' c'' net'') ∧
      Sync (abortW d a w2 a1 a2 c' net' c'' net'') [] := by
  have hpoll : (w2.cancelled || w2.polls.head?.getD false) = true := by simp [hcan]
  have hc' : (pollW w2).connected = true := hc
  have hs' : Sync (pollW w2) [] := hs
  have hsc' : (pollW w2).script = (⟨[a1, a2], none⟩ :: rest).map SGroup.enc := hsc
  obtain ⟨c', net', g1, g2, g3, _⟩ := turn_run (x := a1) (q' := [a2]) (str "ABOR") rs hc' hs' hsc'
    (nextG_two_wf ha1 ha2) rfl
  have hc3 : (turnW (str "ABOR") (pollW w2) a1 c' net').connected = true :=
    turnW_connected _ _ _ _ _ hc' (by omega)
  obtain ⟨c'', net'', k1, k2⟩ := ctlRecv_sync hc3 g2
  have hd := dataDisconnect_hard_run (recvW (turnW (str "ABOR") (pollW w2) a1 c' net') a2.code a2.text c'' net'') d a
    hconn hcl
  have h426' : ((replyOf a1).code == 426) = true := by simp [replyOf, h426]
  refine ⟨c', net', c'', net'', ?_, k2⟩
  unfold finishTransfer processAbort
  rw [DataL.mkCmd_abor]
  open DataL in msimp [poll_bind', hpoll, DataL.bind_ok g1, h426', DataL.bind_ok (recvInto_run _ k1), DataL.bind_ok hd]
  rfl

/-- the world after the cancelled download -/
def cancelledW (d : Nat) (a : Option Nat) (w2 : World) (a1 a2 : WfReply) (c' : Reader.Ctl) (net' : Reader.Net)
    (c'' : Reader.Ctl) (net'' : Reader.Net) : World :=
  { abortW d a w2 a1 a2 c' net' c'' net'' with conn := none }

/-- an accepted download that is cancelled, from the ready data connection to the scope exit -/
theorem download_cancel_run (path : Bytes) (w w1 w2 : World) (rs1 : Replies) (a1 a2 : WfReply) (rest : List SGroup)
    (d : Nat) (a : Option Nat) (hpath : hasCrLf path = false)
    (hcdc : createDataConnection (str "RETR" ++ [SP] ++ path) Replies.empty w = (.ok (true, rs1), w1))
    (hmv : dataRecv true w1.ttype w1 = (.ok (), w2))
    (hc : w2.connected = true) (hs : Sync w2 [])
    (hsc : w2.script = (⟨[a1, a2], none⟩ :: rest).map SGroup.enc) (ha1 : a1.wf) (ha2 : a2.wf) (h426 : a1.code = 426)
    (hconn : w2.conn = some { sock := some d, acc := a }) (hcl : ∀ b ∈ w2.closeFails, b = false)
    (hcan : w2.cancelled = true) :
    ∃ c' net' c'' net'', download path true w =
        (.ok ((rs1.append (replyOf a1)).append (replyOf a2)), cancelledW d a w2 a1 a2 c' net' c'' net'') ∧
      Sync (abortW d a w2 a1 a2 c' net' c'' net'') [] := by
  obtain ⟨c', net', c'', net'', h1, h2⟩ := abort_run rs1 w2 a1 a2 rest d a hc hs hsc ha1 ha2 h426 hconn hcl hcan
  refine ⟨c', net', c'', net'', ?_, h2⟩
  unfold download
  apply withScope_run
  · simp only [CtlL.bind_apply, CtlL.mkCmd_succ _ _ _ hpath]
    erw [hcdc]
    simp only [if_true]
    open DataL in msimp [DataL.bind_ok hmv]
    exact h1
  · rfl

/-! ### the events of a cancelled download -/

/-- callback invocations, graceful shutdowns and control writes -/
def loud : Ev → Bool
  | .cbPoll _ | .cbBegin | .cbNotify _ | .cbEnd | .dataShutdown _ | .ctlWrite _ => true
  | _ => false

theorem calm_list (l : List Ev) (h : ∀ e ∈ l, noisy e = false) :
    l.filter isCb = [] ∧ ∀ d, Ev.dataShutdown d ∉ l := by
  induction l with
  | nil => exact ⟨rfl, fun _ h => by cases h⟩
  | cons e l ih =>
    obtain ⟨i1, i2⟩ := ih (fun x hx => h x (List.mem_cons_of_mem _ hx))
    have he := h e (List.mem_cons_self ..)
    refine ⟨?_, ?_⟩
    · have : isCb e = false := by cases e <;> first | rfl | simp [noisy] at he
      rw [List.filter_cons, this]
      simpa using i1
    · intro d hd
      rcases List.mem_cons.mp hd with rfl | hd
      · simp [noisy] at he
      · exact i2 d hd

theorem still_list (l : List Ev) (h : ∀ e ∈ l, loud e = false) :
    l.filter isCb = [] ∧ writes l = [] ∧ ∀ d, Ev.dataShutdown d ∉ l := by
  have hn : ∀ e ∈ l, noisy e = false := by
    intro e he
    have := h e he
    cases e <;> first | rfl | simp [loud] at this
  refine ⟨(calm_list l hn).1, ?_, (calm_list l hn).2⟩
  apply DataL.writes_eq_nil
  intro e he b hb
  have := h e he
  subst hb
  simp [loud] at this

/-- the events of reading one reply -/
def replyEvs (obs : List Nat) (code : Nat) (text : Bytes) : List Ev :=
  [.ctlReadLine, .ctlReply code text] ++ (if code = 421 then [.ctlShutdown, .ctlClose] else []) ++
    obs.map (fun o => Ev.obsReply o code text)

theorem replyEvs_still (obs : List Nat) (code : Nat) (text : Bytes) : ∀ e ∈ replyEvs obs code text, loud e = false := by
  intro e he
  simp only [replyEvs, List.mem_append, List.mem_map, List.mem_cons, List.not_mem_nil, or_false] at he
  rcases he with ((rfl | rfl) | he) | ⟨o, _, rfl⟩ <;> try rfl
  split at he
  · simp only [List.mem_cons, List.not_mem_nil, or_false] at he
    rcases he with rfl | rfl <;> rfl
  · cases he

/-- what follows the ABOR line: its two replies and the hard close -/
def afterAbor (obs : List Nat) (d : Nat) (a : Option Nat) (a1 a2 : WfReply) : List Ev :=
  replyEvs obs a1.code a1.text ++ replyEvs obs a2.code a2.text ++ (.dataClose d :: a.toList.map Ev.dataClose)

theorem afterAbor_still (obs : List Nat) (d : Nat) (a : Option Nat) (a1 a2 : WfReply) :
    ∀ e ∈ afterAbor obs d a a1 a2, loud e = false := by
  intro e he
  simp only [afterAbor, List.mem_append, List.mem_cons, List.mem_map] at he
  rcases he with (he | he) | rfl | ⟨x, _, rfl⟩
  · exact replyEvs_still _ _ _ e he
  · exact replyEvs_still _ _ _ e he
  · rfl
  · rfl

/-- the events of the end of a cancelled transfer: the last poll, ABOR, its replies, the hard close -/
def abortEvs (obs : List Nat) (d : Nat) (a : Option Nat) (a1 a2 : WfReply) : List Ev :=
  (.cbPoll true :: obs.map (fun o => Ev.obsRequest o (str "ABOR"))) ++
    .ctlWrite (str "ABOR" ++ CRLF) :: afterAbor obs d a a1 a2

theorem cancelledW_trace (d : Nat) (a : Option Nat) (w2 : World) (a1 a2 : WfReply) (c' : Reader.Ctl) (net' : Reader.Net)
    (c'' : Reader.Ctl) (net'' : Reader.Net) (hcan : w2.cancelled = true) :
    (cancelledW d a w2 a1 a2 c' net' c'' net'').trace = w2.trace ++ abortEvs w2.observers d a a1 a2 := by
  simp [cancelledW, abortW, closeW, recvW, turnW, sendW, pollW, hcan, abortEvs, afterAbor, replyEvs]

theorem mem_flatten_replicate {α} {n : Nat} {L : List α} {e : α} (h : e ∈ (List.replicate n L).flatten) : e ∈ L := by
  obtain ⟨l, hl, he⟩ := List.mem_flatten.mp h
  rw [(List.mem_replicate.mp hl).2] at he
  exact he

theorem cancelEvs_quiet (d j : Nat) : writes (cancelEvs d j) = [] ∧ ∀ x, Ev.dataShutdown x ∉ cancelEvs d j := by
  have hall : ∀ e ∈ cancelEvs d j, (∀ b, e ≠ Ev.ctlWrite b) ∧ ∀ x, e ≠ Ev.dataShutdown x := by
    intro e he
    have hb : ∀ b, ∀ e ∈ blockEvs d b, (∀ b, e ≠ Ev.ctlWrite b) ∧ ∀ x, e ≠ Ev.dataShutdown x := by
      intro b e he
      simp only [blockEvs, List.mem_cons, List.not_mem_nil, or_false] at he
      rcases he with rfl | rfl | rfl | rfl <;> exact ⟨fun _ h => (by cases h), fun _ h => (by cases h)⟩
    simp only [cancelEvs, List.cons_append, List.mem_cons, List.mem_append, List.not_mem_nil, or_false] at he
    rcases he with rfl | rfl | (he | he) | rfl | rfl
    · exact ⟨fun _ h => (by cases h), fun _ h => (by cases h)⟩
    · exact ⟨fun _ h => (by cases h), fun _ h => (by cases h)⟩
    · exact hb _ e (mem_flatten_replicate he)
    · exact hb _ e he
    · exact ⟨fun _ h => (by cases h), fun _ h => (by cases h)⟩
    · exact ⟨fun _ h => (by cases h), fun _ h => (by cases h)⟩
  exact ⟨DataL.writes_eq_nil _ (fun e he => (hall e he).1), fun x hx => (hall _ hx).2 x rfl⟩

theorem filter_blocks (d i : Nat) : ((List.replicate i (blockEvs d false)).flatten).filter isCb =
    (List.replicate i [Ev.cbNotify 8192, Ev.cbPoll false]).flatten := by
  induction i with
  | zero => rfl
  | succ i ih =>
    rw [List.replicate_succ, List.flatten_cons, List.filter_append, ih, List.replicate_succ, List.flatten_cons]
    rfl

theorem cancelEvs_cb (d j : Nat) : (cancelEvs d j).filter isCb =
    Ev.cbPoll false :: Ev.cbBegin :: ((List.replicate (j - 1) [Ev.cbNotify 8192, Ev.cbPoll false]).flatten ++
      [Ev.cbNotify 8192, Ev.cbPoll true, Ev.cbEnd]) := by
  have h1 : (blockEvs d true).filter isCb = [Ev.cbNotify 8192, Ev.cbPoll true] := rfl
  have h2 : ([Ev.sinkFlush, Ev.cbEnd] : List Ev).filter isCb = [Ev.cbEnd] := rfl
  have h3 : ∀ l : List Ev, (Ev.cbPoll false :: Ev.cbBegin :: l).filter isCb =
      Ev.cbPoll false :: Ev.cbBegin :: l.filter isCb := fun _ => rfl
  rw [cancelEvs, List.cons_append, List.cons_append, h3, List.filter_append, List.filter_append, filter_blocks, h1, h2]
  simp

/-! ### the cancelled download, end to end -/

theorem abortEvs_props (obs : List Nat) (d : Nat) (a : Option Nat) (a1 a2 : WfReply) :
    (abortEvs obs d a a1 a2).filter isCb = [Ev.cbPoll true] ∧
    writes (abortEvs obs d a a1 a2) = [str "ABOR" ++ CRLF] ∧ ∀ x, Ev.dataShutdown x ∉ abortEvs obs d a a1 a2 := by
  have hreq : ∀ e ∈ obs.map (fun o => Ev.obsRequest o (str "ABOR")), loud e = false := by
    intro e he
    obtain ⟨o, _, rfl⟩ := List.mem_map.mp he
    rfl
  obtain ⟨r1, r2, r3⟩ := still_list _ hreq
  obtain ⟨s1, s2, s3⟩ := still_list _ (afterAbor_still obs d a a1 a2)
  refine ⟨?_, ?_, ?_⟩
  · rw [abortEvs, List.filter_append, List.filter_cons, List.filter_cons, r1, s1]
    rfl
  · rw [abortEvs, DataL.writes_append]
    have e1 : writes (Ev.cbPoll true :: obs.map (fun o => Ev.obsRequest o (str "ABOR"))) = [] := by
      rw [← List.singleton_append, DataL.writes_append, r2]; rfl
    have e2 : writes (Ev.ctlWrite (str "ABOR" ++ CRLF) :: afterAbor obs d a a1 a2) = [str "ABOR" ++ CRLF] := by
      rw [← List.singleton_append, DataL.writes_append, s2]; rfl
    rw [e1, e2]; rfl
  · intro x hx
    simp only [abortEvs, List.mem_append, List.mem_cons] at hx
    rcases hx with (hx | hx) | hx | hx
    · cases hx
    · exact r3 x hx
    · cases hx
    · exact s3 x hx

/-- `Ftp.Props.C12.cancelled_download_aborts` with the callback events spelled as `List.filter isCb` and the set-up
    condition unfolded -/
theorem cancelled_download_core (path : Bytes) (w : World) (s m a1 a2 : WfReply) (payload : Bytes) (j : Nat)
    (moreReads : List (Option Nat)) (morePolls : List Bool) (rest : List SGroup)
    (hstep : InStep w []) (hpath : hasCrLf path = false)
    (hs : s.wf) (hm : m.wf) (ha1 : a1.wf) (ha2 : a2.wf)
    (hacc : s.code < 400)
    (hpass : w.mode = .passive → w.connectOks.head? = some true ∧
      (if w.rfc then (parseEpsv s.text).isSome else (parsePasv s.text).isSome))
    (hv6 : w.mode = .active → w.rfc = false → w.v6 = false)
    (hmain : m.code < 400) (h426 : a1.code = 426)
    (hsc : w.script = (⟨[s], none⟩ :: ⟨[m], some (.send payload)⟩ :: ⟨[a1, a2], none⟩ :: rest).map SGroup.enc)
    (hclose : ∀ b ∈ w.closeFails, b = false)
    (hbin : w.ttype = .binary) (hj : 1 ≤ j) (hlen : j * 8192 ≤ payload.length)
    (hreads : w.dataReads = List.replicate j (some 8192) ++ moreReads)
    (hpolls : w.polls = List.replicate j false ++ true :: morePolls) (hnc : w.cancelled = false)
    (hsink : w.sinkFailAt = none) (hsil : w.sinkSilent = false) :
    ∃ rs, result (Op.download path true).run w = .ok (.replies rs) ∧
      rs.list = [replyOf s, replyOf m, replyOf a1, replyOf a2] ∧
      (after (Op.download path true).run w).sink = w.sink ++ payload.take (j * 8192) ∧
      (added (Op.download path true).run w).filter isCb =
        Ev.cbPoll false :: Ev.cbBegin :: ((List.replicate (j - 1) [Ev.cbNotify 8192, Ev.cbPoll false]).flatten ++
          [Ev.cbNotify 8192, Ev.cbPoll true, Ev.cbEnd, Ev.cbPoll true]) ∧
      (writes (added (Op.download path true).run w)).getLast? = some (str "ABOR\r\n") ∧
      (∀ d, Ev.dataShutdown d ∉ added (Op.download path true).run w) ∧
      (after (Op.download path true).run w).conn = none ∧
      (a2.code ≠ 421 → InStep (after (Op.download path true).run w) []) := by
  obtain ⟨w1, d, a, hcdc, hc1, hs1, hsc1, hconn1, hcf1, hact1⟩ :=
    cdc_accepted' (str "RETR" ++ [SP] ++ path) Replies.empty w s m [] (some (.send payload)) (⟨[a1, a2], none⟩ :: rest)
      hstep hs hm (fun _ h => by cases h) hacc hmain hpass hv6 hsc
  obtain ⟨u1, u2, u3, u4, u5, u6, u7, u8, u9, u10⟩ := (createDataConnection_usr _ _).of_eq hcdc
  obtain ⟨p1, p2⟩ := (createDataConnection_pc _ _).of_eq hcdc
  obtain ⟨_, l1, t1, q1⟩ := createDataConnection_ready hcdc
  have hbin1 : w1.ttype = .binary := u1.trans hbin
  obtain ⟨w2, hmv, t2, k2, hcan2⟩ := dataRecv_cancel w1 payload j moreReads morePolls hj (hact1 _ rfl)
    (u6.trans hreads) (p1.trans hpolls) (p2.trans hnc) hlen (u4.trans hsink) (u5.trans hsil)
  have hdat := (dataRecv_dat _ _).of_eq hmv
  have hcf := (dataRecv_cf _ _).of_eq hmv
  have hc2 : w2.connected = true := hdat.2.2.2.1.trans hc1
  have hs2 : Sync w2 [] := sync_of_dat hdat hs1
  have hsc2 : w2.script = (⟨[a1, a2], none⟩ :: rest).map SGroup.enc := hdat.2.2.1.trans hsc1
  obtain ⟨c', net', c'', net'', hrun, hsy⟩ := download_cancel_run path w w1 w2 _ a1 a2 rest d a hpath hcdc
    (by rw [hbin1]; exact hmv) hc2 hs2 hsc2 ha1 ha2 h426 (hcf.1.trans hconn1) (by rw [hcf.2, hcf1]; exact hclose) hcan2
  have hop : (Op.download path true).run w =
      (.ok (.replies ((((Replies.empty.append (replyOf s)).append (replyOf m)).append (replyOf a1)).append (replyOf a2))),
        cancelledW d a w2 a1 a2 c' net' c'' net'') := by
    simp only [Op.run]
    rw [DataL.bind_ok hrun]
    rfl
  have hadd : added (Op.download path true).run w =
      l1 ++ (cancelEvs (DataL.dOf w1) j ++ abortEvs w2.observers d a a1 a2) := by
    apply DataL.added_of_trace
    simp only [after, hop]
    rw [cancelledW_trace _ _ _ _ _ _ _ _ _ hcan2, t2, t1]
    simp only [List.append_assoc]
  obtain ⟨b1, b2⟩ := calm_list l1 q1
  obtain ⟨e1, e2⟩ := cancelEvs_quiet (DataL.dOf w1) j
  obtain ⟨f1, f2, f3⟩ := abortEvs_props w2.observers d a a1 a2
  refine ⟨(((Replies.empty.append (replyOf s)).append (replyOf m)).append (replyOf a1)).append (replyOf a2),
    by simp only [result, hop], ?_, ?_, ?_, ?_, ?_, ?_, ?_⟩
  · simp [DataL.append_list, Replies.empty]
  · simp only [after, hop]
    show w2.sink = _
    rw [k2, u2]
  · rw [hadd, List.filter_append, List.filter_append, b1, cancelEvs_cb, f1]
    simp
  · rw [hadd, DataL.writes_append, DataL.writes_append, e1, f2]
    simp only [List.nil_append]
    rw [List.getLast?_append]
    rfl
  · intro x hx
    rw [hadd] at hx
    rcases List.mem_append.mp hx with hx | hx
    · exact b2 x hx
    · rcases List.mem_append.mp hx with hx | hx
      · exact e2 x hx
      · exact f3 x hx
  · simp only [after, hop]
    rfl
  · intro h421
    simp only [after, hop]
    refine ⟨?_, hsy⟩
    have h1 : a1.code ≠ 421 := by omega
    simp [cancelledW, abortW, closeW, recvW, turnW, sendW, pollW, h421, h1, hc2]

end Ftp.Client.CancelL
