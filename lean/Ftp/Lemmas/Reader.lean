import Ftp.Spec.Reader
import Ftp.Lemmas.Utils
/-
  Helper lemmas about the control-channel reader model (`Ftp.Reader`) and the reference decoder
  (`Ftp.Spec`), used by the C01 theorems.
-/
namespace Ftp.Reader
open Ftp Ftp.Utils

theorem cr_ne_lf : CR ≠ LF := by decide

/-! ### list helpers -/

theorem take_len_succ (t : Bytes) (a : Nat) (r : Bytes) : (t ++ a :: r).take (t.length + 1) = t ++ [a] := by
  induction t with
  | nil => simp
  | cons c t ih => simpa using ih

theorem drop_len_succ (t : Bytes) (a : Nat) (r : Bytes) : (t ++ a :: r).drop (t.length + 1) = r := by
  induction t with
  | nil => simp
  | cons c t ih => simp

theorem take_len_succ2 (t : Bytes) (a b : Nat) (r : Bytes) :
    (t ++ a :: b :: r).take (t.length + 2) = t ++ [a, b] := by
  induction t with
  | nil => simp
  | cons c t ih => simpa using ih

theorem drop_len_succ2 (t : Bytes) (a b : Nat) (r : Bytes) : (t ++ a :: b :: r).drop (t.length + 2) = r := by
  induction t with
  | nil => simp
  | cons c t ih => simp

/-! ### `matchEol` -/

theorem matchEol_none (t : Bytes) (hc : CR ∉ t) (hl : LF ∉ t) : matchEol t = none := by
  induction t with
  | nil => rfl
  | cons c t ih =>
    simp only [List.mem_cons, not_or] at hc hl
    have h1 : c ≠ LF := fun h => hl.1 h.symm
    have h2 : c ≠ CR := fun h => hc.1 h.symm
    simp [matchEol, h1, h2, ih hc.2 hl.2]

theorem matchEol_lf (t r : Bytes) (hc : CR ∉ t) (hl : LF ∉ t) : matchEol (t ++ LF :: r) = some (t.length + 1) := by
  induction t with
  | nil => simp [matchEol]
  | cons c t ih =>
    simp only [List.mem_cons, not_or] at hc hl
    have h1 : c ≠ LF := fun h => hl.1 h.symm
    have h2 : c ≠ CR := fun h => hc.1 h.symm
    simp [matchEol, h1, h2, ih hc.2 hl.2]

theorem matchEol_crlf (t r : Bytes) (hc : CR ∉ t) (hl : LF ∉ t) :
    matchEol (t ++ CR :: LF :: r) = some (t.length + 2) := by
  induction t with
  | nil => simp [matchEol, cr_ne_lf]
  | cons c t ih =>
    simp only [List.mem_cons, not_or] at hc hl
    have h1 : c ≠ LF := fun h => hl.1 h.symm
    have h2 : c ≠ CR := fun h => hc.1 h.symm
    simp [matchEol, h1, h2, ih hc.2 hl.2]

theorem matchEol_cr_end (t : Bytes) (hc : CR ∉ t) (hl : LF ∉ t) : matchEol (t ++ [CR]) = some (t.length + 1) := by
  induction t with
  | nil => simp [matchEol, cr_ne_lf]
  | cons c t ih =>
    simp only [List.mem_cons, not_or] at hc hl
    have h1 : c ≠ LF := fun h => hl.1 h.symm
    have h2 : c ≠ CR := fun h => hc.1 h.symm
    simp [matchEol, h1, h2, ih hc.2 hl.2]

/-! ### `readLine` -/

/-- the outcome of reading one line `text ++ term` off the front of `buf ++ stream` -/
def LineOut (text term rest : Bytes) (net : Net) (res : LineR × Bytes × Net) : Prop :=
  res.2.1.length ≤ maxLine ∧ res.2.2.fin = net.fin ∧ res.2.2.sizes.length ≤ net.sizes.length ∧
  ((res.1 = .line (text ++ term) ∧ res.2.1 ++ res.2.2.stream = rest) ∨
   (term = [CR, LF] ∧ res.1 = .line (text ++ [CR]) ∧ res.2.1 ++ res.2.2.stream = LF :: rest))

theorem split_cases (buf stream text tr : Bytes) (hs : buf ++ stream = text ++ tr) :
    (∃ a, text = buf ++ a ∧ stream = a ++ tr) ∨ (∃ d c, buf = text ++ d :: c ∧ tr = d :: c ++ stream) := by
  rcases List.append_eq_append_iff.mp hs with ⟨a, h1, h2⟩ | ⟨c, h1, h2⟩
  · exact .inl ⟨a, h1, h2⟩
  · cases c with
    | nil => exact .inl ⟨[], by simpa using h1.symm, by simpa using h2.symm⟩
    | cons d c => exact .inr ⟨d, c, h1, h2⟩

theorem readLineF_deliver (f : Nat) (buf : Bytes) (net : Net) (hm : matchEol buf = none)
    (hlt : buf.length < maxLine) (hne : net.stream ≠ []) :
    ∃ got, 1 ≤ got ∧ got ≤ maxLine - buf.length ∧
      readLineF (f + 1) buf net =
        readLineF f (buf ++ net.stream.take got)
          { net with stream := net.stream.drop got, sizes := net.sizes.tail } := by
  obtain ⟨s0, st, hst⟩ := List.exists_cons_of_ne_nil hne
  have hlt' : ¬ buf.length ≥ maxLine := by omega
  refine ⟨min (match net.sizes with | [] => maxLine | k :: _ => if k = 0 then 1 else k) (maxLine - buf.length),
    ?_, Nat.min_le_right _ _, ?_⟩
  · have hw1 : 1 ≤ (match net.sizes with | [] => maxLine | k :: _ => if k = 0 then 1 else k) := by
      unfold maxLine
      split
      · omega
      · split <;> omega
    omega
  · rw [readLineF, hm]
    simp only [hlt', if_false]
    rw [hst]
    rfl

theorem readLineF_spec (f : Nat) (text term rest : Bytes) (hc : CR ∉ text) (hl : LF ∉ text)
    (hlen : text.length + 2 < maxLine) (hterm : term = [LF] ∨ term = [CR, LF])
    (buf : Bytes) (net : Net) (hb : buf.length ≤ maxLine)
    (hs : buf ++ net.stream = text ++ (term ++ rest)) (hf : net.stream.length + 1 ≤ f) :
    LineOut text term rest net (readLineF f buf net) := by
  induction f generalizing buf net with
  | zero => omega
  | succ f ih =>
    rcases split_cases _ _ _ _ hs with ⟨a, h1, h2⟩ | ⟨d, c, h1, h2⟩
    · -- the buffer holds only part of the text: another delivery is needed
      have hcb : CR ∉ buf := fun h => hc (by rw [h1]; exact List.mem_append_left _ h)
      have hlb : LF ∉ buf := fun h => hl (by rw [h1]; exact List.mem_append_left _ h)
      have hbl : buf.length ≤ text.length := by rw [h1]; simp
      have hne : net.stream ≠ [] := by
        rw [h2]; rcases hterm with h | h <;> simp [h]
      obtain ⟨got, hg1, hg2, heq⟩ := readLineF_deliver f buf net (matchEol_none buf hcb hlb) (by omega) hne
      rw [heq]
      have hsl : 0 < net.stream.length := List.length_pos_iff.mpr hne
      have := ih (buf ++ net.stream.take got)
        { net with stream := net.stream.drop got, sizes := net.sizes.tail }
        (by simp only [List.length_append, List.length_take]; omega)
        (by simp only [List.append_assoc, List.take_append_drop]; exact hs)
        (by simp only [List.length_drop]; omega)
      obtain ⟨r1, r2, r3, r4⟩ := this
      refine ⟨r1, r2, ?_, r4⟩
      simp only [List.length_tail] at r3
      omega
    · -- the buffer reaches into the terminator
      rcases hterm with ht | ht
      · subst ht
        simp only [List.cons_append, List.nil_append, List.cons.injEq] at h2
        obtain ⟨hd, hr⟩ := h2
        subst hd
        rw [readLineF, h1, matchEol_lf text c hc hl]
        simp only [take_len_succ, drop_len_succ]
        refine ⟨?_, rfl, Nat.le_refl _, .inl ⟨rfl, hr.symm⟩⟩
        rw [h1] at hb; simp only [List.length_append, List.length_cons] at hb; show c.length ≤ maxLine; omega
      · subst ht
        simp only [List.cons_append, List.nil_append, List.cons.injEq] at h2
        obtain ⟨hd, hr⟩ := h2
        subst hd
        cases c with
        | nil =>
          rw [readLineF, h1, matchEol_cr_end text hc hl]
          simp only [take_len_succ, drop_len_succ]
          refine ⟨by simp, rfl, Nat.le_refl _, .inr ⟨rfl, rfl, ?_⟩⟩
          simpa using hr.symm
        | cons e c =>
          simp only [List.cons_append, List.cons.injEq] at hr
          obtain ⟨he, hr⟩ := hr
          subst he
          rw [readLineF, h1, matchEol_crlf text c hc hl]
          simp only [take_len_succ2, drop_len_succ2]
          refine ⟨?_, rfl, Nat.le_refl _, .inl ⟨rfl, hr.symm⟩⟩
          rw [h1] at hb; simp only [List.length_append, List.length_cons] at hb; show c.length ≤ maxLine; omega

theorem readLine_spec (text term rest : Bytes) (hc : CR ∉ text) (hl : LF ∉ text)
    (hlen : text.length + 2 < maxLine) (hterm : term = [LF] ∨ term = [CR, LF])
    (buf : Bytes) (net : Net) (hb : buf.length ≤ maxLine)
    (hs : buf ++ net.stream = text ++ (term ++ rest)) :
    LineOut text term rest net (readLine buf net) :=
  readLineF_spec _ text term rest hc hl hlen hterm buf net hb hs (Nat.le_refl _)

/-! ### `parseStatus`, `isLastLine` -/

theorem parseStatus_append (t x : Bytes) (h : 3 ≤ t.length) : parseStatus (t ++ x) = parseStatus t := by
  unfold parseStatus
  have h1 : ¬ (t ++ x).length < 3 := by simp only [List.length_append]; omega
  have h2 : ¬ t.length < 3 := by omega
  simp only [h1, h2, if_false]
  rw [List.take_append_of_le_length h]

theorem getD_append_lt (t x : Bytes) (i d : Nat) (h : i < t.length) : (t ++ x).getD i d = t.getD i d := by
  simp [List.getD, List.getElem?_append_left h]

theorem parseStatus_digits (code : Nat) (h1 : 100 ≤ code) (h2 : code ≤ 599) (x : Bytes) :
    parseStatus ((48 + code / 100) :: (48 + code / 10 % 10) :: (48 + code % 10) :: x) = some code := by
  have : parseStatus ([48 + code / 100, 48 + code / 10 % 10, 48 + code % 10] ++ x) =
      parseStatus [48 + code / 100, 48 + code / 10 % 10, 48 + code % 10] := parseStatus_append _ _ (by simp)
  rw [show ((48 + code / 100) :: (48 + code / 10 % 10) :: (48 + code % 10) :: x) =
    [48 + code / 100, 48 + code / 10 % 10, 48 + code % 10] ++ x from rfl, this]
  unfold parseStatus
  simp only [List.length_cons, List.length_nil, Nat.lt_irrefl, if_false, List.take_succ_cons, List.take_zero]
  rw [parseU16_spec]
  have hd : isDigits [48 + code / 100, 48 + code / 10 % 10, 48 + code % 10] = true := by
    simp only [isDigits, isDigit, List.isEmpty_cons, Bool.not_false, List.all_cons, List.all_nil, Bool.and_true,
      Bool.true_and, Bool.and_eq_true, decide_eq_true_eq]
    unfold Byte
    omega
  have hv : decValue [48 + code / 100, 48 + code / 10 % 10, 48 + code % 10] = code := by
    simp only [decValue, List.foldl_cons, List.foldl_nil]
    omega
  rw [hv]
  simp only [hd, true_and]
  rw [if_pos (by omega)]

theorem isLastLine_append (t x : Bytes) (code : Nat) (h : 4 ≤ t.length) :
    isLastLine (t ++ x) code = isLastLine t code := by
  unfold isLastLine
  have h1 : ¬ (t ++ x).length < 4 := by simp only [List.length_append]; omega
  have h2 : ¬ t.length < 4 := by omega
  simp only [h1, h2, if_false]
  rw [getD_append_lt t x 3 0 (by omega), parseStatus_append t x (by omega)]

theorem isLastLine_of (t : Bytes) (code : Nat) (h4 : 4 ≤ t.length) (h3 : t.getD 3 0 = 32)
    (hps : parseStatus t = some code) : isLastLine t code = true := by
  unfold isLastLine
  have h : ¬ t.length < 4 := by omega
  simp only [h, if_false, h3, hps, bne_self_eq_false, Bool.false_eq_true, beq_self_eq_true]

theorem isLastLine_lf (code : Nat) : isLastLine [LF] code = false := by
  simp [isLastLine]

theorem isLastLine_cr (t y : Bytes) (code : Nat) (h : isLastLine (t ++ [CR]) code = true) :
    isLastLine (t ++ y) code = true := by
  by_cases h4 : 4 ≤ t.length
  · rw [isLastLine_append t _ code h4] at h ⊢; exact h
  · exfalso
    unfold isLastLine at h
    split at h
    · exact Bool.false_ne_true h
    · rename_i hlen
      simp only [List.length_append, List.length_cons, List.length_nil] at hlen
      have h3 : t.length = 3 := by omega
      have : (t ++ [CR]).getD 3 0 = 13 := by
        rw [List.getD_eq_getElem?_getD, List.getElem?_append_right (Nat.le_of_eq h3)]
        simp [h3, CR]
      rw [this] at h
      simp at h

/-! ### the multi-line loop -/

def OkText (t : Bytes) : Prop := CR ∉ t ∧ LF ∉ t ∧ t.length + 2 < maxLine
def OkTerm (term : Bytes) : Prop := term = [LF] ∨ term = [CR, LF]

/-- raw lines given as (content, terminator) -/
def encItems (items : List (Bytes × Bytes)) : Bytes := (items.map (fun p => p.1 ++ p.2)).flatten

theorem encItems_nil : encItems [] = [] := rfl
theorem encItems_cons (p : Bytes × Bytes) (ms : List (Bytes × Bytes)) :
    encItems (p :: ms) = p.1 ++ (p.2 ++ encItems ms) := by
  simp [encItems]

theorem okText_nil : OkText [] := by
  refine ⟨by simp, by simp, ?_⟩
  unfold maxLine; simp

def MultiOut (pre tl termL rest : Bytes) (net : Net) (res : Option Bytes × Bool × Bytes × Net) : Prop :=
  res.2.2.1.length ≤ maxLine ∧ res.2.2.2.fin = net.fin ∧ res.2.2.2.sizes.length ≤ net.sizes.length ∧
  res.2.1 = false ∧
  ((res.1 = some (pre ++ (tl ++ termL)) ∧ res.2.2.1 ++ res.2.2.2.stream = rest) ∨
   (termL = [CR, LF] ∧ res.1 = some (pre ++ (tl ++ [CR])) ∧ res.2.2.1 ++ res.2.2.2.stream = LF :: rest))

theorem multiF_spec (code : Nat) (tl termL rest : Bytes) (hokl : OkText tl) (htl : OkTerm termL)
    (h4 : 4 ≤ tl.length) (hlast : isLastLine tl code = true)
    (f : Nat) (items : List (Bytes × Bytes)) (acc buf : Bytes) (net : Net)
    (hitems : ∀ p ∈ items, OkText p.1 ∧ OkTerm p.2 ∧ isLastLine (p.1 ++ p.2) code = false)
    (hb : buf.length ≤ maxLine)
    (hs : buf ++ net.stream = encItems items ++ (tl ++ (termL ++ rest)))
    (hf : buf.length + net.stream.length + 1 ≤ f) :
    MultiOut (acc ++ encItems items) tl termL rest net (multiF f code acc buf net) := by
  induction f generalizing items acc buf net with
  | zero => omega
  | succ f ih =>
    cases items with
    | nil =>
      rw [encItems_nil, List.nil_append] at hs
      have hrl := readLine_spec tl termL rest hokl.1 hokl.2.1 hokl.2.2 htl buf net hb hs
      rcases hrd : readLine buf net with ⟨r, b', n'⟩
      rw [hrd] at hrl
      obtain ⟨r1, r2, r3, r4⟩ := hrl
      simp only at r1 r2 r3 r4
      rw [encItems_nil, List.append_nil]
      rcases r4 with ⟨hr, hrest⟩ | ⟨ht, hr, hrest⟩
      · subst hr
        have : isLastLine (tl ++ termL) code = true := by rw [isLastLine_append _ _ _ h4]; exact hlast
        simp only [multiF, hrd, this, if_true]
        exact ⟨r1, r2, r3, rfl, .inl ⟨rfl, hrest⟩⟩
      · subst hr
        have : isLastLine (tl ++ [CR]) code = true := by rw [isLastLine_append _ _ _ h4]; exact hlast
        simp only [multiF, hrd, this, if_true]
        exact ⟨r1, r2, r3, rfl, .inr ⟨ht, rfl, hrest⟩⟩
    | cons p ms =>
      obtain ⟨t, term⟩ := p
      have hp := hitems (t, term) (List.mem_cons_self ..)
      obtain ⟨hpt, hpterm, hpl⟩ := hp
      simp only at hpt hpterm hpl
      have hms : ∀ p ∈ ms, OkText p.1 ∧ OkTerm p.2 ∧ isLastLine (p.1 ++ p.2) code = false :=
        fun p hp => hitems p (List.mem_cons_of_mem _ hp)
      rw [encItems_cons] at hs
      simp only [List.append_assoc] at hs
      have hrl := readLine_spec t term _ hpt.1 hpt.2.1 hpt.2.2 hpterm buf net hb hs
      rcases hrd : readLine buf net with ⟨r, b', n'⟩
      rw [hrd] at hrl
      obtain ⟨r1, r2, r3, r4⟩ := hrl
      simp only at r1 r2 r3 r4
      have hlen := congrArg List.length hs
      rcases r4 with ⟨hr, hrest⟩ | ⟨ht, hr, hrest⟩
      · subst hr
        simp only [multiF, hrd, hpl, Bool.false_eq_true, if_false]
        have hlen2 := congrArg List.length hrest
        have hterm1 : 1 ≤ term.length := by rcases hpterm with h | h <;> simp [h]
        simp only [List.length_append] at hlen hlen2
        have := ih ms (acc ++ (t ++ term)) b' n' hms r1 hrest (by omega)
        obtain ⟨q1, q2, q3, q4, q5⟩ := this
        refine ⟨q1, q2.trans r2, Nat.le_trans q3 r3, q4, ?_⟩
        simpa only [encItems_cons, List.append_assoc] using q5
      · subst hr
        subst ht
        have hnl : isLastLine (t ++ [CR]) code = false := by
          cases h : isLastLine (t ++ [CR]) code with
          | false => rfl
          | true => rw [isLastLine_cr t [CR, LF] code h] at hpl; exact absurd hpl (by simp)
        simp only [multiF, hrd, hnl, Bool.false_eq_true, if_false]
        have hlen2 := congrArg List.length hrest
        simp only [List.length_append, List.length_cons, List.length_nil] at hlen hlen2
        have hms' : ∀ p ∈ (([], [LF]) : Bytes × Bytes) :: ms,
            OkText p.1 ∧ OkTerm p.2 ∧ isLastLine (p.1 ++ p.2) code = false := by
          intro p hp
          rcases List.mem_cons.mp hp with h | h
          · subst h; exact ⟨okText_nil, .inl rfl, isLastLine_lf code⟩
          · exact hms p h
        have := ih (([], [LF]) :: ms) (acc ++ (t ++ [CR])) b' n' hms' r1
          (by rw [hrest, encItems_cons]; simp) (by omega)
        obtain ⟨q1, q2, q3, q4, q5⟩ := this
        refine ⟨q1, q2.trans r2, Nat.le_trans q3 r3, q4, ?_⟩
        simpa only [encItems_cons, List.append_assoc, List.nil_append, List.cons_append] using q5

/-! ### `stripEol` -/

theorem stripEol_lf (s : Bytes) (h : s.getLast? ≠ some CR) : stripEol (s ++ [LF]) = s := by
  simp [stripEol, h]

theorem stripEol_crlf (s : Bytes) : stripEol (s ++ [CR, LF]) = s := by
  have : s ++ [CR, LF] = (s ++ [CR]) ++ [LF] := by simp
  rw [this]
  simp [stripEol]

theorem stripEol_cr (s : Bytes) : stripEol (s ++ [CR]) = s := by
  simp [stripEol, cr_ne_lf]

theorem getLast?_append_ne_cr (x t : Bytes) (hne : t ≠ []) (hc : CR ∉ t) : (x ++ t).getLast? ≠ some CR := by
  rw [List.getLast?_append]
  cases ht : t.getLast? with
  | none => exact absurd (List.getLast?_eq_none_iff.mp ht) hne
  | some a =>
    intro h
    have h : some a = some CR := h
    exact hc (List.mem_of_getLast? (ht.trans h))

/-! ### `recv` -/

/-- what `recv` does once the first line of the reply has been read -/
def recvAfter (c : Ctl) (l buf1 : Bytes) (net1 : Net) : RecvR × Ctl × Net :=
  match parseStatus l with
  | none => (.error, { c with buf := buf1, skipLf := false }, net1)
  | some code =>
    let body : Option Bytes × Bool × Bytes × Net :=
      if l.length > 3 && l.getD 3 0 == 45 then multiF (buf1.length + net1.stream.length + 1) code l buf1 net1
      else (some l, false, buf1, net1)
    match body with
    | (some status, false, buf2, net2) =>
      (.reply code (stripEol status),
       { buf := buf2, skipLf := status.getLast? = some CR, closed := c.closed || code == 421 }, net2)
    | (_, true, buf2, net2) => (.fuel, { c with buf := buf2, skipLf := false }, net2)
    | (none, false, buf2, net2) => (.error, { c with buf := buf2, skipLf := false }, net2)

theorem recv_noskip (c : Ctl) (net : Net) (l0 buf0 : Bytes) (net0 : Net)
    (h : readLine c.buf net = (.line l0, buf0, net0)) (hs : (c.skipLf && l0 == [LF]) = false) :
    recv c net = recvAfter c l0 buf0 net0 := by
  simp only [recv, h, hs, Bool.false_eq_true, if_false]
  rfl

theorem recv_skip (c : Ctl) (net : Net) (buf0 : Bytes) (net0 : Net) (l buf1 : Bytes) (net1 : Net)
    (h : readLine c.buf net = (.line [LF], buf0, net0)) (hs : c.skipLf = true)
    (h1 : readLine buf0 net0 = (.line l, buf1, net1)) :
    recv c net = recvAfter c l buf1 net1 := by
  simp only [recv, h, hs, Bool.true_and, beq_self_eq_true, if_true, h1]
  rfl

theorem ne_lf_of_prefix (text x : Bytes) (hne : text ≠ []) (hl : LF ∉ text) : (text ++ x == [LF]) = false := by
  cases text with
  | nil => exact absurd rfl hne
  | cons a t =>
    have : a ≠ LF := fun h => hl (by simp [h])
    simp [this]

/-- the first line of a reply is found, whether or not an orphan LF precedes it -/
theorem recv_first (c : Ctl) (net : Net) (text term rest : Bytes) (hok : OkText text) (hterm : OkTerm term)
    (hne : text ≠ []) (hb : c.buf.length ≤ maxLine)
    (hp : c.buf ++ net.stream = text ++ (term ++ rest) ∨
          (c.skipLf = true ∧ c.buf ++ net.stream = LF :: (text ++ (term ++ rest)))) :
    ∃ l buf1 net1, recv c net = recvAfter c l buf1 net1 ∧ LineOut text term rest net (.line l, buf1, net1) := by
  rcases hp with hs | ⟨hskip, hs⟩
  · have hrl := readLine_spec text term rest hok.1 hok.2.1 hok.2.2 hterm c.buf net hb hs
    rcases hrd : readLine c.buf net with ⟨r, b', n'⟩
    rw [hrd] at hrl
    have hrl' := hrl
    obtain ⟨r1, r2, r3, r4⟩ := hrl
    simp only at r1 r2 r3 r4
    rcases r4 with ⟨hr, hrest⟩ | ⟨ht, hr, hrest⟩
    · subst hr
      exact ⟨_, b', n', recv_noskip c net _ b' n' hrd (by rw [ne_lf_of_prefix text term hne hok.2.1]; simp), hrl'⟩
    · subst hr
      exact ⟨_, b', n', recv_noskip c net _ b' n' hrd (by rw [ne_lf_of_prefix text _ hne hok.2.1]; simp), hrl'⟩
  · have hrl := readLine_spec [] [LF] (text ++ (term ++ rest)) okText_nil.1 okText_nil.2.1 okText_nil.2.2
      (.inl rfl) c.buf net hb (by simpa using hs)
    rcases hrd : readLine c.buf net with ⟨r, b0, n0⟩
    rw [hrd] at hrl
    obtain ⟨r1, r2, r3, r4⟩ := hrl
    simp only at r1 r2 r3 r4
    rcases r4 with ⟨hr, hrest⟩ | ⟨ht, _, _⟩
    · subst hr
      have hrl2 := readLine_spec text term rest hok.1 hok.2.1 hok.2.2 hterm b0 n0 r1 hrest
      rcases hrd2 : readLine b0 n0 with ⟨r', b1, n1⟩
      rw [hrd2] at hrl2
      obtain ⟨q1, q2, q3, q4⟩ := hrl2
      simp only at q1 q2 q3 q4
      have hl : ∃ l, r' = .line l := by
        rcases q4 with ⟨h, _⟩ | ⟨_, h, _⟩ <;> exact ⟨_, h⟩
      obtain ⟨l, hl⟩ := hl
      subst hl
      refine ⟨l, b1, n1, recv_skip c net b0 n0 l b1 n1 hrd hskip hrd2, q1, q2.trans r2, Nat.le_trans q3 r3, q4⟩
    · exact absurd ht (by simp)

/-- the outcome of a receive step: the reply, and what is left -/
def RecvOut (code : Nat) (txt rest : Bytes) (net : Net) (res : RecvR × Ctl × Net) : Prop :=
  res.1 = .reply code txt ∧ res.2.1.buf.length ≤ maxLine ∧ res.2.2.fin = net.fin ∧
  res.2.2.sizes.length ≤ net.sizes.length ∧
  (res.2.1.buf ++ res.2.2.stream = rest ∨ (res.2.1.skipLf = true ∧ res.2.1.buf ++ res.2.2.stream = LF :: rest))

theorem recvAfter_single (c : Ctl) (code : Nat) (text term rest l buf1 : Bytes) (net net1 : Net)
    (hok : OkText text) (h4 : 4 ≤ text.length) (hcode : parseStatus text = some code)
    (h3 : text.getD 3 0 = 32) (hterm : OkTerm term)
    (hl : LineOut text term rest net (.line l, buf1, net1)) :
    RecvOut code text rest net (recvAfter c l buf1 net1) := by
  obtain ⟨r1, r2, r3, r4⟩ := hl
  simp only at r1 r2 r3 r4
  have hne : text ≠ [] := by intro h; rw [h] at h4; simp at h4
  have key : ∀ x : Bytes, l = text ++ x → recvAfter c l buf1 net1 =
      (.reply code (stripEol l), { buf := buf1, skipLf := l.getLast? = some CR, closed := c.closed || code == 421 },
        net1) := by
    intro x hx
    have hps : parseStatus l = some code := by rw [hx, parseStatus_append _ _ (by omega)]; exact hcode
    have hcond : (decide (l.length > 3) && l.getD 3 0 == 45) = false := by
      rw [hx, getD_append_lt _ _ _ _ (by omega), h3]; simp
    unfold recvAfter
    simp only [hps, hcond, Bool.false_eq_true, if_false]
  rcases r4 with ⟨hr, hrest⟩ | ⟨ht, hr, hrest⟩
  · have hl : l = text ++ term := by injection hr
    rw [key term hl]
    refine ⟨?_, r1, r2, r3, .inl hrest⟩
    show RecvR.reply code (stripEol l) = _
    rw [hl]
    rcases hterm with h | h
    · rw [h, stripEol_lf _ (by simpa using getLast?_append_ne_cr [] text hne hok.1)]
    · rw [h, stripEol_crlf]
  · have hl : l = text ++ [CR] := by injection hr
    rw [key _ hl]
    refine ⟨?_, r1, r2, r3, .inr ⟨?_, hrest⟩⟩
    · show RecvR.reply code (stripEol l) = _
      rw [hl, stripEol_cr]
    · show decide (l.getLast? = some CR) = true
      rw [hl]; simp

theorem recvAfter_multi_core (c : Ctl) (code : Nat) (l buf1 : Bytes) (net1 : Net) (pre tl termL rest : Bytes)
    (hps : parseStatus l = some code) (hcond : (decide (l.length > 3) && l.getD 3 0 == 45) = true)
    (hne : tl ≠ []) (hc : CR ∉ tl) (htl : OkTerm termL)
    (hm : MultiOut pre tl termL rest net1 (multiF (buf1.length + net1.stream.length + 1) code l buf1 net1)) :
    RecvOut code (pre ++ tl) rest net1 (recvAfter c l buf1 net1) := by
  rcases hmd : multiF (buf1.length + net1.stream.length + 1) code l buf1 net1 with ⟨o, fl, buf2, net2⟩
  rw [hmd] at hm
  obtain ⟨m1, m2, m3, m4, m5⟩ := hm
  simp only at m1 m2 m3 m4 m5
  subst m4
  have key : ∀ status, o = some status → recvAfter c l buf1 net1 =
      (.reply code (stripEol status),
        { buf := buf2, skipLf := status.getLast? = some CR, closed := c.closed || code == 421 }, net2) := by
    intro status ho
    subst ho
    unfold recvAfter
    simp only [hps, hcond, if_true, hmd]
  rcases m5 with ⟨ho, hrest⟩ | ⟨ht, ho, hrest⟩
  · rw [key _ ho]
    refine ⟨?_, m1, m2, m3, .inl hrest⟩
    show RecvR.reply code (stripEol _) = _
    rcases htl with h | h
    · rw [h, ← List.append_assoc, stripEol_lf _ (getLast?_append_ne_cr pre tl hne hc)]
    · rw [h, ← List.append_assoc, stripEol_crlf]
  · rw [key _ ho]
    refine ⟨?_, m1, m2, m3, .inr ⟨?_, hrest⟩⟩
    · show RecvR.reply code (stripEol _) = _
      rw [← List.append_assoc, stripEol_cr]
    · show decide (List.getLast? _ = some CR) = true
      rw [← List.append_assoc]; simp

theorem recvAfter_multi (c : Ctl) (code : Nat) (text0 term0 tl termL rest l buf1 : Bytes)
    (items : List (Bytes × Bytes)) (net net1 : Net)
    (h40 : 4 ≤ text0.length) (hcode : parseStatus text0 = some code) (h3 : text0.getD 3 0 = 45)
    (hitems : ∀ p ∈ items, OkText p.1 ∧ OkTerm p.2 ∧ isLastLine (p.1 ++ p.2) code = false)
    (hokl : OkText tl) (htl : OkTerm termL) (h4 : 4 ≤ tl.length) (hlast : isLastLine tl code = true)
    (hl : LineOut text0 term0 (encItems items ++ (tl ++ (termL ++ rest))) net (.line l, buf1, net1)) :
    RecvOut code (text0 ++ (term0 ++ (encItems items ++ tl))) rest net (recvAfter c l buf1 net1) := by
  obtain ⟨r1, r2, r3, r4⟩ := hl
  simp only at r1 r2 r3 r4
  have hne : tl ≠ [] := by intro h; rw [h] at h4; simp at h4
  have hpc : ∀ x : Bytes, l = text0 ++ x →
      parseStatus l = some code ∧ (decide (l.length > 3) && l.getD 3 0 == 45) = true := by
    intro x hx
    refine ⟨by rw [hx, parseStatus_append _ _ (by omega)]; exact hcode, ?_⟩
    rw [hx, getD_append_lt _ _ _ _ (by omega), h3]
    simp only [List.length_append, beq_self_eq_true, Bool.and_true, decide_eq_true_eq]
    omega
  rcases r4 with ⟨hr, hrest⟩ | ⟨ht, hr, hrest⟩
  · have hl : l = text0 ++ term0 := by injection hr
    obtain ⟨hps, hcond⟩ := hpc _ hl
    have hm := multiF_spec code tl termL rest hokl htl h4 hlast _ items l buf1 net1 hitems r1 hrest (Nat.le_refl _)
    have := recvAfter_multi_core c code l buf1 net1 _ tl termL rest hps hcond hne hokl.1 htl hm
    obtain ⟨q1, q2, q3, q4, q5⟩ := this
    refine ⟨?_, q2, q3.trans r2, Nat.le_trans q4 r3, q5⟩
    rw [q1, hl]; simp only [List.append_assoc]
  · have hl : l = text0 ++ [CR] := by injection hr
    obtain ⟨hps, hcond⟩ := hpc _ hl
    have hitems' : ∀ p ∈ (([], [LF]) : Bytes × Bytes) :: items,
        OkText p.1 ∧ OkTerm p.2 ∧ isLastLine (p.1 ++ p.2) code = false := by
      intro p hp
      rcases List.mem_cons.mp hp with h | h
      · subst h; exact ⟨okText_nil, .inl rfl, isLastLine_lf code⟩
      · exact hitems p h
    have hm := multiF_spec code tl termL rest hokl htl h4 hlast _ (([], [LF]) :: items) l buf1 net1 hitems' r1
      (by rw [hrest, encItems_cons]; simp) (Nat.le_refl _)
    have := recvAfter_multi_core c code l buf1 net1 _ tl termL rest hps hcond hne hokl.1 htl hm
    obtain ⟨q1, q2, q3, q4, q5⟩ := this
    refine ⟨?_, q2, q3.trans r2, Nat.le_trans q4 r3, q5⟩
    rw [q1, hl, ht, encItems_cons]; simp only [List.append_assoc, List.nil_append, List.cons_append]

end Ftp.Reader

/-! ### the reference decoder -/
namespace Ftp.Spec
open Ftp Ftp.Reader Ftp.Utils

theorem content_eq_stripEol (l : Bytes) : content l = stripEol l := rfl

theorem content_append_enc (x t term : Bytes) (hne : t ≠ []) (hc : CR ∉ t) (hterm : OkTerm term) :
    content (x ++ (t ++ term)) = x ++ t := by
  rw [content_eq_stripEol, ← List.append_assoc]
  rcases hterm with h | h
  · rw [h, stripEol_lf _ (getLast?_append_ne_cr x t hne hc)]
  · rw [h, stripEol_crlf]

theorem content_enc (t term : Bytes) (hc : CR ∉ t) (hterm : OkTerm term) : content (t ++ term) = t := by
  rw [content_eq_stripEol]
  rcases hterm with h | h
  · rw [h]
    apply stripEol_lf
    intro hl
    exact hc (List.mem_of_getLast? hl)
  · rw [h, stripEol_crlf]

theorem rawLines_text (t rest cur : Bytes) (hl : LF ∉ t) : rawLines (t ++ rest) cur = rawLines rest (cur ++ t) := by
  induction t generalizing cur with
  | nil => simp
  | cons a t ih =>
    simp only [List.mem_cons, not_or] at hl
    have ha : a ≠ LF := fun h => hl.1 h.symm
    rw [List.cons_append, rawLines]
    simp only [ha, if_false]
    rw [ih _ hl.2]
    simp

theorem rawLines_line (t term rest : Bytes) (hl : LF ∉ t) (hterm : OkTerm term) :
    rawLines (t ++ (term ++ rest)) [] = (rawLines rest []).map ((t ++ term) :: ·) := by
  rcases hterm with h | h
  · subst h
    rw [rawLines_text _ _ _ hl]
    simp only [List.nil_append, List.cons_append, rawLines, if_true]
    cases rawLines rest [] <;> rfl
  · subst h
    have hl' : LF ∉ t ++ [CR] := by
      simp only [List.mem_append, List.mem_singleton, not_or]
      exact ⟨hl, fun h => cr_ne_lf h.symm⟩
    have : t ++ ([CR, LF] ++ rest) = (t ++ [CR]) ++ (LF :: rest) := by simp
    rw [this, rawLines_text _ _ _ hl']
    simp only [List.nil_append, rawLines, if_true]
    cases rawLines rest [] <;> simp

theorem rawLines_enc (items : List (Bytes × Bytes)) (h : ∀ p ∈ items, LF ∉ p.1 ∧ OkTerm p.2) :
    rawLines (encItems items) [] = some (items.map (fun p => p.1 ++ p.2)) := by
  induction items with
  | nil => rfl
  | cons p ms ih =>
    have hp := h p (List.mem_cons_self ..)
    rw [encItems_cons, rawLines_line _ _ _ hp.1 hp.2, ih (fun q hq => h q (List.mem_cons_of_mem _ hq))]
    rfl

theorem linesOk_enc (items : List (Bytes × Bytes)) (h : ∀ p ∈ items, OkText p.1 ∧ OkTerm p.2) :
    linesOk (items.map (fun p => p.1 ++ p.2)) = true := by
  unfold linesOk
  rw [List.all_eq_true]
  intro l hl
  obtain ⟨p, hp, rfl⟩ := List.mem_map.mp hl
  obtain ⟨⟨hc, _, hlen⟩, hterm⟩ := h p hp
  rw [content_enc _ _ hc hterm]
  have h1 : p.1.contains CR = false := by
    rw [Bool.eq_false_iff]; intro hh; exact hc (List.contains_iff_mem.mp hh)
  have h2 : (p.1 ++ p.2).length ≤ 8191 := by
    unfold maxLine at hlen
    rcases hterm with h | h <;> simp only [h, List.length_append, List.length_cons, List.length_nil] <;> omega
  simp only [h1, Bool.not_false, Bool.true_and, decide_eq_true_eq]
  exact h2

theorem codeOf_digits (code : Nat) (h1 : 100 ≤ code) (h2 : code ≤ 599) (x : Bytes) :
    codeOf ((48 + code / 100) :: (48 + code / 10 % 10) :: (48 + code % 10) :: x) = some code := by
  unfold codeOf
  have hd : (isDigit (48 + code / 100) && isDigit (48 + code / 10 % 10) && isDigit (48 + code % 10)) = true := by
    simp only [isDigit, Bool.and_eq_true, decide_eq_true_eq]
    unfold Byte
    omega
  simp only [hd, if_true]
  congr 1
  omega

theorem closes_imp_isLastLine (code : Nat) (t term : Bytes) (hc : CR ∉ t) (hterm : OkTerm term)
    (h : closes code (t ++ term) = true) : isLastLine (t ++ term) code = true := by
  unfold closes at h
  rw [content_enc _ _ hc hterm] at h
  simp only [Bool.and_eq_true, decide_eq_true_eq] at h
  obtain ⟨⟨hcode, h3⟩, h4⟩ := h
  have h4' : 4 ≤ t.length := h4
  rw [isLastLine_append _ _ _ h4']
  apply isLastLine_of _ _ h4' h3
  match t, h4' with
  | a :: b :: c :: d :: t', _ =>
    simp only [List.cons_append, codeOf] at hcode
    split at hcode
    · rename_i hd
      simp only [Bool.and_eq_true] at hd
      obtain ⟨⟨ha, hb⟩, hc'⟩ := hd
      injection hcode with hcode
      unfold parseStatus
      simp only [List.length_cons, List.take_succ_cons, List.take_zero]
      rw [if_neg (by omega), parseU16_spec]
      have hdig : isDigits [a, b, c] = true := by simp [isDigits, ha, hb, hc']
      have hv : decValue [a, b, c] = code := by
        simp only [decValue, List.foldl_cons, List.foldl_nil]
        rw [← hcode]; omega
      simp only [isDigit, Bool.and_eq_true, decide_eq_true_eq] at ha hb hc'
      rw [hv, if_pos ⟨hdig, by rw [← hcode]; unfold Byte at *; omega⟩]
    · exact absurd hcode (by simp)

theorem closes_of (code : Nat) (t term : Bytes) (hc : CR ∉ t) (hterm : OkTerm term)
    (hcode : codeOf (t ++ term) = some code) (h3 : t.getD 3 0 = 32) (h4 : 4 ≤ t.length) :
    closes code (t ++ term) = true := by
  unfold closes
  rw [content_enc _ _ hc hterm, hcode, h3]
  simp only [decide_true, Bool.true_and, decide_eq_true_eq]
  exact h4

theorem takeReply_spec (code : Nat) (mids : List Bytes) (last : Bytes) (rest : List Bytes)
    (hm : ∀ m ∈ mids, closes code m = false) (hl : closes code last = true) :
    takeReply code (mids ++ last :: rest) = some (mids ++ [last], rest) := by
  induction mids with
  | nil => simp [takeReply, hl]
  | cons m ms ih =>
    have h1 := hm m (List.mem_cons_self ..)
    rw [List.cons_append, takeReply]
    simp only [h1, Bool.false_eq_true, if_false]
    rw [ih (fun q hq => hm q (List.mem_cons_of_mem _ hq))]
    rfl

theorem groupReplies_nil (f : Nat) : groupReplies f [] = some [] := by
  cases f <;> rfl

theorem groupReplies_single (f : Nat) (l : Bytes) (L : List Bytes) (code : Nat) (txt : Bytes)
    (res : List (Nat × Bytes)) (hcode : codeOf l = some code) (hcont : content l = txt)
    (h3 : txt.getD 3 0 = 32) (hrec : groupReplies f L = some res) :
    groupReplies (f + 1) (l :: L) = some ((code, txt) :: res) := by
  rw [groupReplies]
  simp only [hcode, hcont, h3, hrec]
  simp

theorem groupReplies_multi (f : Nat) (l : Bytes) (X body rest : List Bytes) (code : Nat)
    (res : List (Nat × Bytes)) (hcode : codeOf l = some code) (h3 : (content l).getD 3 0 = 45)
    (h4 : 4 ≤ (content l).length) (htake : takeReply code X = some (body, rest))
    (hrec : groupReplies f rest = some res) :
    groupReplies (f + 1) (l :: X) = some ((code, content (l ++ body.flatten)) :: res) := by
  rw [groupReplies]
  simp only [hcode, h3, htake, hrec]
  simp [h4]

end Ftp.Spec

