import Ftp.Spec.History
import Ftp.Lemmas.ClientTrace
/-
  Lemmas for the history-level theorems (C02h, C14h, C17h): how the trace and the descriptor counter evolve over one
  call and over a list of calls with fair environment steps in between.
-/
namespace Ftp.Session.Hist
open Ftp Ftp.Client Ftp.Session Ftp.Client.TraceL

theorem opened_append (a b : List Ev) : opened (a ++ b) = opened a ++ opened b := by
  simp [opened, List.filterMap_append]
theorem closed_append (a b : List Ev) : closed (a ++ b) = closed a ++ closed b := by
  simp [closed, List.filterMap_append]

/-! ### one call: the trace only grows, the descriptor counter only grows, and every descriptor opened is below the
    counter afterwards -/

/-- events that do not open a descriptor -/
def noOpen : Ev → Bool
  | .dataSocket _ | .dataAccept _ _ => false
  | _ => true

theorem opened_single_of_noOpen (e : Ev) (h : noOpen e = true) : opened [e] = [] := by
  cases e <;> simp_all [opened, noOpen]

theorem noOpen_of_not_isDesc (e : Ev) (h : isDesc e = false) : noOpen e = true := by
  cases e <;> simp_all [isDesc, noOpen]

theorem opened_map_of_noOpen (f : Nat → Ev) (h : ∀ o, noOpen (f o) = true) (l : List Nat) : opened (l.map f) = [] := by
  induction l with
  | nil => rfl
  | cons x xs ih =>
    rw [List.map_cons, ← List.singleton_append, opened_append, opened_single_of_noOpen _ (h x), ih]
    rfl

def Grow (w w' : World) : Prop :=
  ∃ δ, w'.trace = w.trace ++ δ ∧ w.nextD ≤ w'.nextD ∧ ∀ d ∈ opened δ, d < w'.nextD

theorem grow_refl (w : World) : Grow w w := ⟨[], by simp, Nat.le_refl _, by simp [opened]⟩

theorem grow_trans (a b c : World) (h1 : Grow a b) (h2 : Grow b c) : Grow a c := by
  obtain ⟨δ1, ht1, hn1, hd1⟩ := h1
  obtain ⟨δ2, ht2, hn2, hd2⟩ := h2
  refine ⟨δ1 ++ δ2, by rw [ht2, ht1, List.append_assoc], by omega, fun d hd => ?_⟩
  rw [opened_append, List.mem_append] at hd
  rcases hd with hd | hd
  · have := hd1 d hd; omega
  · exact hd2 d hd

theorem grow_quiet {w w' : World} (ε : List Ev) (ht : w'.trace = w.trace ++ ε) (hn : w'.nextD = w.nextD)
    (ho : opened ε = []) : Grow w w' :=
  ⟨ε, ht, by omega, by simp [ho]⟩

theorem keeps_gmod (w₀ : World) (f : World → World) (h : ∀ w, (f w).trace = w.trace ∧ (f w).nextD = w.nextD) :
    Keeps (Grow w₀) (modifyW f) :=
  keeps_of_rel grow_trans (fun w => grow_quiet [] (by simpa using (h w).1) (h w).2 rfl) w₀

theorem keeps_gemit (w₀ : World) (e : Ev) (h : noOpen e = true) : Keeps (Grow w₀) (emit e) :=
  keeps_of_rel grow_trans (fun _ => grow_quiet [e] rfl rfl (opened_single_of_noOpen e h)) w₀

theorem keeps_gobs (w₀ : World) (f : Nat → Ev) (h : ∀ o, noOpen (f o) = true) : Keeps (Grow w₀) (forObservers f) :=
  keeps_of_rel grow_trans (fun _ => grow_quiet _ rfl rfl (opened_map_of_noOpen f h _)) w₀

theorem grow_fine (w₀ : World) : Fine (Grow w₀) := by
  have hmod : ∀ f : World → World, (∀ w, FrameC w (f w)) → Keeps (Grow w₀) (modifyW f) := fun f hf =>
    keeps_gmod w₀ f fun w => ⟨(hf w).1, (hf w).2.2⟩
  have hemit : ∀ e, isDesc e = false → Keeps (Grow w₀) (emit e) := fun e he =>
    keeps_gemit w₀ e (noOpen_of_not_isDesc e he)
  have hobs : ∀ f : Nat → Ev, (∀ o, isDesc (f o) = false) → Keeps (Grow w₀) (forObservers f) := fun f hf =>
    keeps_gobs w₀ f fun o => noOpen_of_not_isDesc _ (hf o)
  exact {
    mod := fun f hf => hmod f fun w => ⟨(hf w).1, (hf w).2.2.2.1, (hf w).2.2.2.2⟩
    emit := hemit
    obs := hobs
    close := keeps_close_of hmod hemit
    drop := keeps_drop_of hmod hemit
    copen := keeps_copen_of hmod hemit hobs }

theorem keeps_gnewDescriptor (w₀ : World) : Keeps (Grow w₀) newDescriptor := by
  refine keeps_of_rel grow_trans (fun w => ?_) w₀
  simp only [newDescriptor, bind_apply, getW_apply, modifyW_apply, emit_apply, pure_apply]
  exact ⟨[.dataSocket w.nextD], rfl, Nat.le_succ _, by simp [opened]⟩

theorem keeps_gcloseD (w₀ : World) (d : Nat) : Keeps (Grow w₀) (closeD d) := by
  unfold closeD
  exact keeps_bind (keeps_gemit w₀ _ rfl) fun _ => keeps_bind keeps_getW fun _ =>
    keeps_bind (keeps_gmod w₀ _ fun _ => ⟨rfl, rfl⟩) fun _ => keeps_pure _

macro "gstep" : tactic => `(tactic| first
  | exact keeps_pure _ | exact keeps_throw | exact keeps_getW
  | exact keeps_gnewDescriptor _ | exact keeps_gcloseD _ _
  | (refine keeps_gmod _ _ ?_; intro _; exact ⟨rfl, rfl⟩)
  | (refine keeps_gemit _ _ ?_; rfl)
  | with_reducible apply keeps_bind
  | with_reducible apply keeps_ite
  | intro _
  | split)

theorem keeps_gdestroyConn (w₀ : World) : Keeps (Grow w₀) destroyConn := by
  unfold destroyConn; repeat' gstep

theorem keeps_gdataDisconnect (w₀ : World) (g : Bool) : Keeps (Grow w₀) (dataDisconnect g) := by
  unfold dataDisconnect; repeat' gstep

theorem keeps_gdataConnect (w₀ : World) (a : Bytes) (p : Nat) : Keeps (Grow w₀) (dataConnect a p) := by
  unfold dataConnect; repeat' gstep

theorem keeps_gdataListen (w₀ : World) : Keeps (Grow w₀) dataListen := by
  unfold dataListen; repeat' gstep

theorem keeps_gdataAccept (w₀ : World) : Keeps (Grow w₀) dataAccept := by
  refine keeps_of_rel grow_trans (fun w => ?_) w₀
  simp only [dataAccept, bind_apply, getW_apply]
  cases hc : w.conn with
  | none => exact grow_refl _
  | some c =>
    simp only []
    cases ha : c.acc with
    | none => exact grow_refl _
    | some a =>
      simp only [bind_apply, modifyW_apply, emit_apply]
      exact ⟨[.dataAccept a w.nextD], rfl, Nat.le_succ _, by simp [opened]⟩

theorem grow_atoms (w₀ : World) : AtomsB (Grow w₀) where
  toAtomsA := (grow_fine w₀).atomsA
  listing := (grow_fine w₀).listing
  ddisc := keeps_gdataDisconnect w₀
  dconn := keeps_gdataConnect w₀
  dlisten := keeps_gdataListen w₀
  daccept := keeps_gdataAccept w₀
  destroy := keeps_gdestroyConn w₀

theorem run_grow (op : Op) (w : World) : Grow w (after op.run w) :=
  keeps_rel (fun w₀ => keeps_run (grow_atoms w₀) op) grow_refl w

/-- a call only appends to the trace -/
theorem run_trace (op : Op) (w : World) : (after op.run w).trace = w.trace ++ added op.run w := by
  obtain ⟨δ, ht, _, _⟩ := run_grow op w
  rw [added_of_append _ _ δ ht]; exact ht

/-- every descriptor a call opens is below the descriptor counter after the call -/
theorem opened_lt (op : Op) (w : World) : ∀ d ∈ opened (added op.run w), d < (after op.run w).nextD := by
  obtain ⟨δ, ht, _, hd⟩ := run_grow op w
  rw [added_of_append _ _ δ ht]; exact hd

/-! ### histories -/

theorem call_trace (c : Call) (hf : c.fair) (w : World) :
    (c.after w).trace = w.trace ++ added c.op.run (c.before w) := by
  have h := run_trace c.op (c.env w)
  rw [(hf w).trace] at h
  exact h

theorem history_trace (h : List Call) (hfair : ∀ c ∈ h, c.fair) (w : World) :
    (runHistory h w).trace = w.trace ++ histAdded h w := by
  suffices ∃ δ, (runHistory h w).trace = w.trace ++ δ by
    obtain ⟨δ, hδ⟩ := this
    simp [histAdded, hδ]
  induction h generalizing w with
  | nil => exact ⟨[], by simp [runHistory]⟩
  | cons c rest ih =>
    obtain ⟨δ, hδ⟩ := ih (fun c' hc' => hfair c' (List.mem_cons_of_mem _ hc')) (c.after w)
    refine ⟨added c.op.run (c.before w) ++ δ, ?_⟩
    rw [runHistory, hδ, call_trace c (hfair c List.mem_cons_self), List.append_assoc]

theorem histAdded_nil (w : World) : histAdded [] w = [] := by simp [histAdded, runHistory]

theorem histAdded_cons (c : Call) (rest : List Call) (hfair : ∀ c' ∈ c :: rest, c'.fair) (w : World) :
    histAdded (c :: rest) w = added c.op.run (c.before w) ++ histAdded rest (c.after w) := by
  have h1 := history_trace rest (fun c' hc' => hfair c' (List.mem_cons_of_mem _ hc')) (c.after w)
  rw [call_trace c (hfair c List.mem_cons_self), List.append_assoc] at h1
  show (runHistory rest (c.after w)).trace.drop w.trace.length = _
  rw [h1, List.drop_left]

/-- the state in which any call of the history starts extends the trace of the initial state -/
theorem starts_trace (h : List Call) (hfair : ∀ c ∈ h, c.fair) (w : World) :
    ∀ w' ∈ starts h w, w'.trace = w.trace ++ w'.trace.drop w.trace.length := by
  suffices ∀ w' ∈ starts h w, ∃ δ, w'.trace = w.trace ++ δ by
    intro w' hw'
    obtain ⟨δ, hδ⟩ := this w' hw'
    simp [hδ]
  induction h generalizing w with
  | nil => intro w' hw'; cases hw'
  | cons c rest ih =>
    intro w' hw'
    rw [starts, List.mem_cons] at hw'
    rcases hw' with rfl | hw'
    · exact ⟨[], by simp [Call.before, (hfair c List.mem_cons_self w).trace]⟩
    · obtain ⟨δ, hδ⟩ := ih (fun c' hc' => hfair c' (List.mem_cons_of_mem _ hc')) (c.after w) w' hw'
      exact ⟨added c.op.run (c.before w) ++ δ, by
        rw [hδ, call_trace c (hfair c List.mem_cons_self), List.append_assoc]⟩

end Ftp.Session.Hist
