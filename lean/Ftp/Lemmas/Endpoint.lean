import Ftp.Spec.Pure
import Ftp.Lemmas.Utils
/- helper lemmas about the endpoint parsers / formatters (C06) -/
namespace Ftp
open Ftp.Utils Ftp.Endpoint

/-! ### splitFirst / splitLast / parenGroup -/

theorem splitFirst_sound {ch : Byte} {s pre post : Bytes} (h : splitFirst ch s = some (pre, post)) :
    s = pre ++ ch :: post ∧ ch ∉ pre := by
  induction s generalizing pre with
  | nil => simp [splitFirst] at h
  | cons c t ih =>
    simp only [splitFirst] at h
    by_cases hc : c = ch
    · simp only [hc, if_true, Option.some.injEq, Prod.mk.injEq] at h
      obtain ⟨rfl, rfl⟩ := h
      simp [hc]
    · simp only [hc, if_false] at h
      cases hs : splitFirst ch t with
      | none => simp [hs] at h
      | some pq =>
        obtain ⟨p', q'⟩ := pq
        simp only [hs, Option.some.injEq, Prod.mk.injEq] at h
        obtain ⟨rfl, rfl⟩ := h
        obtain ⟨h1, h2⟩ := ih hs
        refine ⟨by simp [← h1], ?_⟩
        simp only [List.mem_cons, not_or]
        exact ⟨fun e => hc e.symm, h2⟩

theorem splitFirst_complete {ch : Byte} {pre : Bytes} (post : Bytes) (h : ch ∉ pre) :
    splitFirst ch (pre ++ ch :: post) = some (pre, post) := by
  induction pre with
  | nil => simp [splitFirst]
  | cons c t ih =>
    simp only [List.mem_cons, not_or] at h
    have hc : ¬ c = ch := fun e => h.1 e.symm
    simp [splitFirst, hc, ih h.2]

theorem splitLast_none {ch : Byte} {s : Bytes} : splitLast ch s = none ↔ ch ∉ s := by
  induction s with
  | nil => simp [splitLast]
  | cons c t ih =>
    simp only [splitLast]
    cases hs : splitLast ch t with
    | some pq =>
      have : ch ∈ t := by
        apply Classical.byContradiction
        intro hn
        rw [ih.mpr hn] at hs
        cases hs
      simp [this]
    | none =>
      have hn : ch ∉ t := ih.mp hs
      by_cases hc : c = ch
      · simp [hc]
      · have : ¬ ch = c := fun e => hc e.symm
        simp [hc, hn, this]

theorem splitLast_sound {ch : Byte} {s pre post : Bytes} (h : splitLast ch s = some (pre, post)) :
    s = pre ++ ch :: post ∧ ch ∉ post := by
  induction s generalizing pre with
  | nil => simp [splitLast] at h
  | cons c t ih =>
    simp only [splitLast] at h
    cases hs : splitLast ch t with
    | some pq =>
      obtain ⟨p', q'⟩ := pq
      simp only [hs, Option.some.injEq, Prod.mk.injEq] at h
      obtain ⟨rfl, rfl⟩ := h
      obtain ⟨h1, h2⟩ := ih hs
      exact ⟨by simp [← h1], h2⟩
    | none =>
      simp only [hs] at h
      by_cases hc : c = ch
      · simp only [hc, if_true, Option.some.injEq, Prod.mk.injEq] at h
        obtain ⟨rfl, rfl⟩ := h
        exact ⟨by simp [hc], splitLast_none.mp hs⟩
      · simp [hc] at h

theorem splitLast_complete {ch : Byte} (pre : Bytes) {post : Bytes} (h : ch ∉ post) :
    splitLast ch (pre ++ ch :: post) = some (pre, post) := by
  induction pre with
  | nil => simp [splitLast, splitLast_none.mpr h]
  | cons c t ih => simp [splitLast, ih]

theorem parenGroup_sound {t pre inner post : Bytes} (h : parenGroup t = some (pre, inner, post)) :
    t = pre ++ 40 :: (inner ++ 41 :: post) ∧ 40 ∉ pre ∧ 41 ∉ post := by
  unfold parenGroup at h
  cases h1 : splitFirst 40 t with
  | none => simp [h1] at h
  | some pq =>
    obtain ⟨p, ao⟩ := pq
    simp only [h1] at h
    cases h2 : splitLast 41 ao with
    | none => simp [h2] at h
    | some iq =>
      obtain ⟨i, q⟩ := iq
      simp only [h2, Option.some.injEq, Prod.mk.injEq] at h
      obtain ⟨rfl, rfl, rfl⟩ := h
      obtain ⟨e1, n1⟩ := splitFirst_sound h1
      obtain ⟨e2, n2⟩ := splitLast_sound h2
      exact ⟨by rw [e1, e2], n1, n2⟩

theorem parenGroup_complete {pre post : Bytes} (inner : Bytes) (h1 : 40 ∉ pre) (h2 : 41 ∉ post) :
    parenGroup (pre ++ 40 :: (inner ++ 41 :: post)) = some (pre, inner, post) := by
  unfold parenGroup
  rw [splitFirst_complete _ h1]
  simp only
  rw [splitLast_complete _ h2]

/-! ### digit strings -/

theorem isDigit_iff (b : Nat) : isDigit b = true ↔ (48 ≤ b ∧ b ≤ 57) := by
  simp only [isDigit, Bool.and_eq_true, decide_eq_true_eq]

theorem isDigits_ne_nil {f : Bytes} (h : isDigits f = true) : f ≠ [] := by
  intro e; subst e; simp [isDigits] at h

theorem isDigits_all {f : Bytes} (h : isDigits f = true) : ∀ x ∈ f, 48 ≤ x ∧ x ≤ 57 := by
  intro x hx
  simp only [isDigits, Bool.and_eq_true, List.all_eq_true] at h
  exact (isDigit_iff x).mp (h.2 x hx)

theorem not_mem_of_isDigits {f : Bytes} (h : isDigits f = true) {ch : Nat} (hc : ch < 48 ∨ 57 < ch) :
    ch ∉ f := by
  intro hm
  have := isDigits_all h ch hm
  omega

theorem toDecF_spec (fuel n : Nat) (acc : Bytes) (h : n < fuel) :
    ∃ ds, toDecF fuel n acc = ds ++ acc ∧ ds ≠ [] ∧ ds.all isDigit = true ∧ ds.foldl decStep 0 = n := by
  induction fuel generalizing n acc with
  | zero => omega
  | succ fuel ih =>
    simp only [toDecF]
    by_cases h10 : n < 10
    · refine ⟨[48 + n], by simp [h10], by simp, ?_, ?_⟩
      · simp only [List.all_cons, List.all_nil, Bool.and_true, isDigit_iff]; omega
      · simp only [List.foldl_cons, List.foldl_nil, decStep]; omega
    · simp only [h10, if_false]
      obtain ⟨ds, e, _, hall, hv⟩ := ih (n / 10) ((48 + n % 10) :: acc) (by omega)
      refine ⟨ds ++ [48 + n % 10], by simp [e], by simp, ?_, ?_⟩
      · simp only [List.all_append, hall, List.all_cons, List.all_nil, Bool.and_true, Bool.true_and,
          isDigit_iff]; omega
      · simp only [List.foldl_append, hv, List.foldl_cons, List.foldl_nil, decStep]; omega

theorem toDec_spec (n : Nat) : isDigits (toDec n) = true ∧ decValue (toDec n) = n := by
  obtain ⟨ds, e, hne, hall, hv⟩ := toDecF_spec (n + 1) n [] (by omega)
  simp only [List.append_nil] at e
  unfold toDec
  rw [e]
  refine ⟨?_, by rw [decValue_eq_foldl]; exact hv⟩
  cases ds with
  | nil => exact absurd rfl hne
  | cons c t => simpa [isDigits] using hall

theorem toDec_isDigits (n : Nat) : isDigits (toDec n) = true := (toDec_spec n).1
theorem toDec_decValue (n : Nat) : decValue (toDec n) = n := (toDec_spec n).2

theorem not_mem_toDec (n : Nat) {ch : Nat} (hc : ch < 48 ∨ 57 < ch) : ch ∉ toDec n :=
  not_mem_of_isDigits (toDec_isDigits n) hc

/-! ### splitGo / splitString -/

def joinWith (del : Byte) : List Bytes → Bytes
  | [] => []
  | [p] => p
  | p :: q :: ps => p ++ del :: joinWith del (q :: ps)

theorem splitGo_length_le (del : Byte) (s cur : Bytes) :
    (splitGo del s cur).length ≤ s.count del + 1 := by
  induction s generalizing cur with
  | nil => simp [splitGo]
  | cons ch rest ih =>
    simp only [splitGo]
    by_cases hc : ch = del
    · subst hc
      have := ih []
      simp only [if_true, List.length_cons, List.count_cons_self]
      omega
    · simp only [hc, if_false]
      by_cases hr : rest.isEmpty = true
      · simp [hr]
      · simp only [hr]
        have := ih (cur ++ [ch])
        have hc' : ¬ (ch == del) = true := by simpa using hc
        simp only [List.count_cons, hc', if_false, Bool.false_eq_true]
        omega

theorem splitGo_join (del : Byte) (s cur : Bytes)
    (h : (splitGo del s cur).length = s.count del + 1) :
    joinWith del (splitGo del s cur) = cur ++ s := by
  induction s generalizing cur with
  | nil => simp [splitGo] at h
  | cons ch rest ih =>
    simp only [splitGo] at h ⊢
    by_cases hc : ch = del
    · subst hc
      simp only [if_true, List.length_cons, List.count_cons_self] at h ⊢
      have hl : (splitGo ch rest []).length = rest.count ch + 1 := by omega
      have := ih [] hl
      cases hs : splitGo ch rest [] with
      | nil => simp [hs] at hl
      | cons q qs =>
        rw [hs] at this
        simp only [joinWith, this, List.nil_append]
    · simp only [hc, if_false] at h ⊢
      by_cases hr : rest.isEmpty = true
      · have : rest = [] := by simpa using hr
        subst this
        simp [joinWith]
      · simp only [hr, if_false, Bool.false_eq_true] at h ⊢
        have hc' : ¬ (ch == del) = true := by simpa using hc
        simp only [List.count_cons, hc', if_false, Bool.false_eq_true, Nat.add_zero] at h
        rw [ih (cur ++ [ch]) h]
        simp

theorem splitGo_piece (del : Byte) (p rest cur : Bytes) (hp : del ∉ p) :
    splitGo del (p ++ del :: rest) cur = (cur ++ p) :: splitGo del rest [] := by
  induction p generalizing cur with
  | nil => simp [splitGo]
  | cons x xs ih =>
    simp only [List.mem_cons, not_or] at hp
    have hx : ¬ x = del := fun e => hp.1 e.symm
    simp [splitGo, hx, ih _ hp.2]

theorem splitGo_last (del : Byte) (p cur : Bytes) (hp : del ∉ p) (hne : p ≠ []) :
    splitGo del p cur = [cur ++ p] := by
  induction p generalizing cur with
  | nil => exact absurd rfl hne
  | cons x xs ih =>
    simp only [List.mem_cons, not_or] at hp
    have hx : ¬ x = del := fun e => hp.1 e.symm
    simp only [splitGo, hx, if_false]
    by_cases hr : xs = []
    · subst hr; simp
    · have : ¬ xs.isEmpty = true := by simpa using hr
      simp [this, ih _ hp.2 hr]

/-! ### Spec.splitComma / Spec.splitBar -/

theorem splitComma_piece (p rest cur : Bytes) (hp : 44 ∉ p) :
    Spec.splitComma (p ++ 44 :: rest) cur = (cur ++ p) :: Spec.splitComma rest [] := by
  induction p generalizing cur with
  | nil => simp [Spec.splitComma]
  | cons x xs ih =>
    simp only [List.mem_cons, not_or] at hp
    have hx : ¬ x = 44 := fun e => hp.1 e.symm
    simp [Spec.splitComma, hx, ih _ hp.2]

theorem splitComma_last (p cur : Bytes) (hp : 44 ∉ p) :
    Spec.splitComma p cur = [cur ++ p] := by
  induction p generalizing cur with
  | nil => simp [Spec.splitComma]
  | cons x xs ih =>
    simp only [List.mem_cons, not_or] at hp
    have hx : ¬ x = 44 := fun e => hp.1 e.symm
    simp [Spec.splitComma, hx, ih _ hp.2]

theorem splitBar_piece (p rest cur : Bytes) (hp : 124 ∉ p) :
    Spec.splitBar (p ++ 124 :: rest) cur = (cur ++ p) :: Spec.splitBar rest [] := by
  induction p generalizing cur with
  | nil => simp [Spec.splitBar]
  | cons x xs ih =>
    simp only [List.mem_cons, not_or] at hp
    have hx : ¬ x = 124 := fun e => hp.1 e.symm
    simp [Spec.splitBar, hx, ih _ hp.2]

theorem splitBar_last (p cur : Bytes) (hp : 124 ∉ p) :
    Spec.splitBar p cur = [cur ++ p] := by
  induction p generalizing cur with
  | nil => simp [Spec.splitBar]
  | cons x xs ih =>
    simp only [List.mem_cons, not_or] at hp
    have hx : ¬ x = 124 := fun e => hp.1 e.symm
    simp [Spec.splitBar, hx, ih _ hp.2]

theorem octet_of_digits {f : Bytes} (h : isDigits f = true) (hv : decValue f ≤ 255) :
    Spec.octet? f = some (decValue f) := by
  simp [Spec.octet?, h, hv]

theorem octet_toDec (n : Nat) (h : n < 256) : Spec.octet? (toDec n) = some n := by
  have := octet_of_digits (toDec_isDigits n) (by rw [toDec_decValue]; omega)
  rwa [toDec_decValue] at this

/-! ### misc helpers for C06 -/

theorem parseU8_some {s : Bytes} {v : Nat} (h : parseU8 s = some v) :
    isDigits s = true ∧ decValue s ≤ 255 ∧ decValue s = v := by
  rw [parseU8_spec] at h
  split at h
  · rename_i hc
    simp only [Option.some.injEq] at h
    exact ⟨hc.1, hc.2, h⟩
  · cases h

theorem parseU8_digits {s : Bytes} (h : isDigits s = true) (hv : decValue s ≤ 255) :
    parseU8 s = some (decValue s) := by
  rw [parseU8_spec]; simp [h, hv]

theorem str_PORT : str "PORT " = [80, 79, 82, 84, 32] := by decide
theorem str_EPRT : str "EPRT " = [69, 80, 82, 84, 32] := by decide
theorem str_EPRTbar : str "EPRT |" = [69, 80, 82, 84, 32, 124] := by decide

theorem map_dot_toDec (n : Nat) :
    (toDec n).map (fun ch => if ch = 46 then 44 else ch) = toDec n := by
  have h : ∀ x ∈ toDec n, (fun ch => if ch = 46 then 44 else ch) x = id x := by
    intro x hx
    have := isDigits_all (toDec_isDigits n) x hx
    have : ¬ x = 46 := by omega
    simp [this]
  rw [List.map_congr_left h, List.map_id]

end Ftp
