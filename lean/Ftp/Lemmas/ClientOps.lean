import Ftp.Spec.Session
import Ftp.Lemmas.ClientSession
/-
  helper lemmas for the operation-level versions of C03 / C04 (`Ftp.Props.C03o`, `Ftp.Props.C04o`): forward run
  equations of an *accepted* transfer - set-up command, transfer command, data movement, completion reply, scope exit -
  in all four data-connection methods.
-/
set_option linter.unusedSectionVars false
set_option linter.unusedVariables false
set_option linter.unusedSimpArgs false

namespace Ftp.Client.OpsL
open Ftp Ftp.Client Ftp.Session Ftp.Props.C01 Ftp.Endpoint Ftp.Client.SessL Ftp.Client.CtlL

/-! ### frames -/

/-- the user objects of the operation, the transfer type and the oracles of the data channel are untouched -/
def Rusr (w w' : World) : Prop :=
  w'.ttype = w.ttype ∧ w'.sink = w.sink ∧ w'.sinkFlushes = w.sinkFlushes ∧ w'.sinkFailAt = w.sinkFailAt ∧
  w'.sinkSilent = w.sinkSilent ∧ w'.dataReads = w.dataReads ∧ w'.blockOks = w.blockOks ∧ w'.src = w.src ∧
  w'.srcFailAt = w.srcFailAt ∧ w'.peerGot = w.peerGot

instance : IsPre Rusr where
  refl w := ⟨rfl, rfl, rfl, rfl, rfl, rfl, rfl, rfl, rfl, rfl⟩
  trans := by
    rintro a b c ⟨a1, a2, a3, a4, a5, a6, a7, a8, a9, a10⟩ ⟨b1, b2, b3, b4, b5, b6, b7, b8, b9, b10⟩
    exact ⟨b1.trans a1, b2.trans a2, b3.trans a3, b4.trans a4, b5.trans a5, b6.trans a6, b7.trans a7, b8.trans a8,
      b9.trans a9, b10.trans a10⟩

namespace Rusr

theorem mod {f : World → World}
    (h : ∀ w, (f w).ttype = w.ttype ∧ (f w).sink = w.sink ∧ (f w).sinkFlushes = w.sinkFlushes ∧
      (f w).sinkFailAt = w.sinkFailAt ∧ (f w).sinkSilent = w.sinkSilent ∧ (f w).dataReads = w.dataReads ∧
      (f w).blockOks = w.blockOks ∧ (f w).src = w.src ∧ (f w).srcFailAt = w.srcFailAt ∧ (f w).peerGot = w.peerGot) :
    Keeps Rusr (Client.modifyW f) := fun w => h w

theorem emit (e : Ev) : Keeps Rusr (Client.emit e) := fun _ => ⟨rfl, rfl, rfl, rfl, rfl, rfl, rfl, rfl, rfl, rfl⟩

theorem obs (f : Nat → Ev) : Keeps Rusr (Client.forObservers f) :=
  fun _ => ⟨rfl, rfl, rfl, rfl, rfl, rfl, rfl, rfl, rfl, rfl⟩

end Rusr

/-- the data-connection object and the close oracle are untouched -/
def Rcf (w w' : World) : Prop := w'.conn = w.conn ∧ w'.closeFails = w.closeFails

instance : IsPre Rcf where
  refl w := ⟨rfl, rfl⟩
  trans := by
    rintro a b c ⟨a1, a2⟩ ⟨b1, b2⟩
    exact ⟨b1.trans a1, b2.trans a2⟩

namespace Rcf

theorem mod {f : World → World} (h : ∀ w, (f w).conn = w.conn ∧ (f w).closeFails = w.closeFails) :
    Keeps Rcf (Client.modifyW f) := fun w => h w

theorem emit (e : Ev) : Keeps Rcf (Client.emit e) := fun _ => ⟨rfl, rfl⟩

end Rcf

section walk
attribute [local irreducible] throwE getW modifyW emit withScope forObservers ctlSend ctlClose ctlRecv recvInto mkCmd
  processCommand processCommandInto typeCommand simple processLogin login connect logout setTransferType rename
  disconnect newDescriptor closeD destroyConn dataDisconnect addrText dataConnect dataListen dataAccept processEpsv
  processPasv processActive createDataConnection poll sinkWrite sinkFlush streamWrite streamFlush recvLoop dataRecv
  srcRead dataWrite sendLoopBin sendLoopAscii dataSend processAbort finishTransfer download upload fileList

macro "ukeeps" "[" ts:term,* "]" : tactic =>
  `(tactic| keeps_with [Rusr.mod (fun _ => ⟨rfl, rfl, rfl, rfl, rfl, rfl, rfl, rfl, rfl, rfl⟩), Rusr.emit _, Rusr.obs _,
    mkCmd_keeps _ _, $ts,*])

theorem ctlSend_usr (cmd : Bytes) : Keeps Rusr (ctlSend cmd) := by unfold ctlSend; ukeeps []
theorem ctlClose_usr : Keeps Rusr ctlClose := by unfold ctlClose; ukeeps []
theorem ctlRecv_usr : Keeps Rusr ctlRecv := by unfold ctlRecv; ukeeps [ctlClose_usr]
theorem recvInto_usr (rs : Replies) : Keeps Rusr (recvInto rs) := by unfold recvInto; ukeeps [ctlRecv_usr]
theorem processCommandInto_usr (c : Bytes) (rs : Replies) : Keeps Rusr (processCommandInto c rs) := by
  unfold processCommandInto; ukeeps [ctlSend_usr _, recvInto_usr _]
theorem closeD_usr (d : Nat) : Keeps Rusr (closeD d) := by unfold closeD; ukeeps []
theorem dataDisconnect_usr (g : Bool) : Keeps Rusr (dataDisconnect g) := by
  unfold dataDisconnect; ukeeps [closeD_usr _]
theorem newDescriptor_usr : Keeps Rusr newDescriptor := by unfold newDescriptor; ukeeps []
theorem dataConnect_usr (a : Bytes) (p : Nat) : Keeps Rusr (dataConnect a p) := by
  unfold dataConnect; ukeeps [newDescriptor_usr, closeD_usr _]
theorem dataListen_usr : Keeps Rusr dataListen := by unfold dataListen; ukeeps [newDescriptor_usr]
theorem dataAccept_usr : Keeps Rusr dataAccept := by unfold dataAccept; ukeeps []
theorem processEpsv_usr (c : Bytes) (rs : Replies) : Keeps Rusr (processEpsv c rs) := by
  unfold processEpsv; ukeeps [processCommandInto_usr _ _, dataConnect_usr _ _, dataDisconnect_usr _]
theorem processPasv_usr (c : Bytes) (rs : Replies) : Keeps Rusr (processPasv c rs) := by
  unfold processPasv; ukeeps [processCommandInto_usr _ _, dataConnect_usr _ _, dataDisconnect_usr _]
theorem processActive_usr (e : Bool) (c : Bytes) (rs : Replies) : Keeps Rusr (processActive e c rs) := by
  unfold processActive; ukeeps [processCommandInto_usr _ _, dataListen_usr, dataAccept_usr]
theorem createDataConnection_usr (c : Bytes) (rs : Replies) : Keeps Rusr (createDataConnection c rs) := by
  unfold createDataConnection; ukeeps [processEpsv_usr _ _, processPasv_usr _ _, processActive_usr _ _ _]

macro "fkeeps" "[" ts:term,* "]" : tactic =>
  `(tactic| keeps_with [Rcf.mod (fun _ => ⟨rfl, rfl⟩), Rcf.emit _, $ts,*])

theorem poll_cf : Keeps Rcf poll := by unfold poll; fkeeps []
theorem sinkWrite_cf (bs : Bytes) : Keeps Rcf (sinkWrite bs) := by unfold sinkWrite; fkeeps []
theorem sinkFlush_cf : Keeps Rcf sinkFlush := by unfold sinkFlush; fkeeps []
theorem streamWrite_cf (t : TType) (prev : Bool) (b : Bytes) : Keeps Rcf (streamWrite t prev b) := by
  unfold streamWrite; fkeeps [sinkWrite_cf _]
theorem streamFlush_cf (t : TType) (prev : Bool) : Keeps Rcf (streamFlush t prev) := by
  unfold streamFlush; fkeeps [sinkWrite_cf _, sinkFlush_cf]
theorem srcRead_cf (n : Nat) : Keeps Rcf (srcRead n) := by unfold srcRead; fkeeps []
theorem dataWrite_cf (d : Nat) (b : Bytes) : Keeps Rcf (dataWrite d b) := by unfold dataWrite; fkeeps []

theorem recvLoop_cf (cb : Bool) (t : TType) (d : Nat) :
    ∀ (fuel : Nat) (payload : Bytes) (prev : Bool), Keeps Rcf (recvLoop cb t d fuel payload prev)
  | 0, _, _ => by unfold recvLoop; fkeeps []
  | fuel + 1, payload, prev => by
    have ih := recvLoop_cf cb t d fuel
    unfold recvLoop
    fkeeps [ih _ _, streamWrite_cf _ _ _, poll_cf]

theorem dataRecv_cf (cb : Bool) (t : TType) : Keeps Rcf (dataRecv cb t) := by
  unfold dataRecv
  fkeeps [recvLoop_cf _ _ _ _ _ _, streamFlush_cf _ _, poll_cf]

theorem sendLoopBin_cf (cb : Bool) (d : Nat) : ∀ (fuel : Nat), Keeps Rcf (sendLoopBin cb d fuel)
  | 0 => by unfold sendLoopBin; fkeeps []
  | fuel + 1 => by
    have ih := sendLoopBin_cf cb d fuel
    unfold sendLoopBin
    fkeeps [ih, srcRead_cf _, dataWrite_cf _ _, poll_cf]

theorem sendLoopAscii_cf (cb : Bool) (d : Nat) :
    ∀ (fuel : Nat) (st : Ascii.IState), Keeps Rcf (sendLoopAscii cb d fuel st)
  | 0, _ => by unfold sendLoopAscii; fkeeps []
  | fuel + 1, st => by
    have ih := sendLoopAscii_cf cb d fuel
    unfold sendLoopAscii
    fkeeps [ih _, dataWrite_cf _ _, poll_cf]

theorem dataSend_cf (cb : Bool) (t : TType) : Keeps Rcf (dataSend cb t) := by
  unfold dataSend
  fkeeps [sendLoopBin_cf _ _ _, sendLoopAscii_cf _ _ _ _, poll_cf]

end walk

/-! ### the transfer command is accepted -/

theorem nextG_two_wf {m c : WfReply} {a : Option DataAct} {gs : List SGroup} (hm : m.wf) (hc : c.wf) :
    ∀ r ∈ (nextG (⟨[m, c], a⟩ :: gs)).replies, r.wf := by
  intro r hr
  simp only [nextG, List.head?_cons, Option.getD_some, List.mem_cons, List.not_mem_nil, or_false] at hr
  rcases hr with rfl | rfl <;> assumption

theorem turnW_act (cmd : Bytes) (w : World) (x : WfReply) (c' : Reader.Ctl) (net' : Reader.Net) (g : SGroup)
    (gs : List SGroup) (a : DataAct) (hsc : w.script = (g :: gs).map SGroup.enc) (ha : g.act = some a) :
    (turnW cmd w x c' net').act = some a := by
  simp [turnW, recvW, sendW, hsc, headG, SGroup.enc, ha]

/-- the transfer command is accepted after a passive set-up: the preliminary reply is read, the completion reply stays
    unread -/
theorem passiveRest_accepted (cmd : Bytes) (rs : Replies) (w3 : World) (m c : WfReply) (act : Option DataAct)
    (gs : List SGroup) (hc : w3.connected = true) (hs : Sync w3 [])
    (hsc : w3.script = (⟨[m, c], act⟩ :: gs).map SGroup.enc) (hm : m.wf) (hcw : c.wf) (hacc : m.code < 400) :
    ∃ w5, passiveRest cmd rs w3 = (.ok (true, rs.append (replyOf m)), w5) ∧ w5.connected = true ∧ Sync w5 [c] ∧
      w5.script = gs.map SGroup.enc ∧ w5.conn = w3.conn ∧ w5.closeFails = w3.closeFails ∧
      (∀ a, act = some a → w5.act = some a) := by
  obtain ⟨c', net', h1, h2, h3, _⟩ := turn_run (x := m) (q' := [c]) cmd rs hc hs hsc (nextG_two_wf hm hcw) rfl
  refine ⟨turnW cmd w3 m c' net', ?_, turnW_connected _ _ _ _ _ hc (by omega), h2, h3, rfl, rfl, ?_⟩
  · unfold passiveRest
    open DataL in msimp [DataL.bind_ok h1, neg_of_lt hm hacc]
  · intro a ha
    exact turnW_act _ _ _ _ _ _ _ a hsc ha

/-- the world after `dataAccept` -/
def accW (c : DataConn) (w : World) : World :=
  { w with nextD := w.nextD + 1, conn := some { c with sock := some w.nextD },
           trace := w.trace ++ [.dataAccept (c.acc.getD 0) w.nextD] }

theorem dataAccept_run (w : World) (c : DataConn) (a : Nat) (hconn : w.conn = some c) (hacc : c.acc = some a) :
    dataAccept w = (.ok (), accW c w) := by
  unfold dataAccept
  open DataL in msimp [hconn, hacc]
  simp [accW, hacc]

/-- the start of the active set-up, with the listening descriptor -/
theorem processActive_start' (eprt : Bool) (cmd : Bytes) (rs : Replies) (w : World) (s : WfReply) (a : Option DataAct)
    (rest : List SGroup) (hstep : InStep w []) (hs : s.wf) (hsc : w.script = (⟨[s], a⟩ :: rest).map SGroup.enc)
    (hv6 : eprt = false → w.v6 = false) :
    ∃ w1, processActive eprt cmd rs w = activeRest cmd rs w1 ∧ w1.connected = true ∧ Sync w1 [s] ∧
      w1.script = rest.map SGroup.enc ∧ w1.conn = some { sock := none, acc := some w.nextD } ∧
      w1.closeFails = w.closeFails := by
  obtain ⟨hconn, hsync⟩ := hstep
  obtain ⟨c, hl⟩ := activeLine_some eprt w hv6
  have hsl : Sync (listenW w) [] := hsync
  obtain ⟨h1, h2⟩ := sync_sendW' (cmd := c) (w := listenW w) (gs := ⟨[s], a⟩ :: rest) hsl hsc (nextG_cons_wf hs)
  exact ⟨sendW c (listenW w), processActive_run eprt cmd rs w c hconn hl, hconn, h1, h2, rfl, rfl⟩

/-- both commands of the active set-up are accepted: the peer's connection is accepted -/
theorem activeRest_accepted (cmd : Bytes) (rs : Replies) (w1 : World) (s m c : WfReply) (act : Option DataAct)
    (gs : List SGroup) (l : Nat) (hc : w1.connected = true) (hs : Sync w1 [s]) (hacc : s.code < 400)
    (hsc : w1.script = (⟨[m, c], act⟩ :: gs).map SGroup.enc) (hm : m.wf) (hcw : c.wf) (hmain : m.code < 400)
    (hconn : w1.conn = some { sock := none, acc := some l }) :
    ∃ w2 d, activeRest cmd rs w1 = (.ok (true, (rs.append (replyOf s)).append (replyOf m)), w2) ∧
      w2.connected = true ∧ Sync w2 [c] ∧ w2.script = gs.map SGroup.enc ∧
      w2.conn = some { sock := some d, acc := some l } ∧ w2.closeFails = w1.closeFails ∧
      (∀ a, act = some a → w2.act = some a) := by
  obtain ⟨c', net', h1, h2⟩ := ctlRecv_sync hc hs
  have hwf := hs.2.2 s (List.mem_cons_self ..)
  have hc2 : (recvW w1 s.code s.text c' net').connected = true := by
    have : s.code ≠ 421 := by omega
    simp [recvW, this, hc]
  obtain ⟨c'', net'', g1, g2, g3, _⟩ := turn_run (x := m) (q' := [c]) cmd (rs.append (replyOf s)) hc2 h2
    (gs := ⟨[m, c], act⟩ :: gs) hsc (nextG_two_wf hm hcw) rfl
  have hconn2 : (turnW cmd (recvW w1 s.code s.text c' net') m c'' net'').conn = some { sock := none, acc := some l } := hconn
  have hda := dataAccept_run _ _ l hconn2 rfl
  refine ⟨accW { sock := none, acc := some l } (turnW cmd (recvW w1 s.code s.text c' net') m c'' net''),
    (turnW cmd (recvW w1 s.code s.text c' net') m c'' net'').nextD, ?_, ?_, g2, g3, rfl, rfl, ?_⟩
  · unfold activeRest
    open DataL in msimp [DataL.bind_ok (recvInto_run rs h1), neg_of_lt hwf hacc, DataL.bind_ok g1, neg_of_lt hm hmain,
      DataL.bind_ok hda]
  · show (turnW cmd (recvW w1 s.code s.text c' net') m c'' net'').connected = true
    exact turnW_connected _ _ _ _ _ hc2 (by omega)
  · intro a ha
    exact turnW_act cmd (recvW w1 s.code s.text c' net') m c'' net'' _ _ a hsc ha

/-- the set-up of the data connection when both the set-up command and the transfer command are accepted, in all four
    methods: a connected data socket is ready, the completion reply is still unread -/
theorem cdc_accepted (cmd : Bytes) (rs : Replies) (w : World) (s m c : WfReply) (act : Option DataAct)
    (rest : List SGroup) (hstep : InStep w []) (hs : s.wf) (hm : m.wf) (hcw : c.wf) (hacc : s.code < 400)
    (hmain : m.code < 400)
    (hpass : w.mode = .passive → w.connectOks.head? = some true ∧
      (if w.rfc then (parseEpsv s.text).isSome else (parsePasv s.text).isSome))
    (hv6 : w.mode = .active → w.rfc = false → w.v6 = false)
    (hsc : w.script = (⟨[s], none⟩ :: ⟨[m, c], act⟩ :: rest).map SGroup.enc) :
    ∃ w1 d a, createDataConnection cmd rs w = (.ok (true, (rs.append (replyOf s)).append (replyOf m)), w1) ∧
      w1.connected = true ∧ Sync w1 [c] ∧ w1.script = rest.map SGroup.enc ∧
      w1.conn = some { sock := some d, acc := a } ∧ w1.closeFails = w.closeFails ∧
      (∀ x, act = some x → w1.act = some x) := by
  rw [createDataConnection_eq]
  rcases hmo : w.mode <;> rcases hr : w.rfc <;> simp only
  · obtain ⟨hok, hparse⟩ := hpass hmo
    simp only [hr, Bool.false_eq_true, if_false] at hparse
    obtain ⟨⟨ip, port⟩, hp⟩ := Option.isSome_iff_exists.mp hparse
    obtain ⟨w3, h1, hc3, hs3, hsc3, hconn3, hcf3⟩ := processPasv_accepted cmd rs w s none _ ip port
      hstep hs hacc hsc (by rw [hok]; rfl) hp
    obtain ⟨w5, g1, g2, g3, g4, g5, g6, g7⟩ := passiveRest_accepted cmd _ w3 m c act rest hc3 hs3 hsc3 hm hcw hmain
    exact ⟨w5, w.nextD, none, h1.trans g1, g2, g3, g4, g5.trans hconn3, g6.trans hcf3, g7⟩
  · obtain ⟨hok, hparse⟩ := hpass hmo
    simp only [hr, if_true] at hparse
    obtain ⟨port, hp⟩ := Option.isSome_iff_exists.mp hparse
    obtain ⟨w3, h1, hc3, hs3, hsc3, hconn3, hcf3⟩ := processEpsv_accepted cmd rs w s none _ port
      hstep hs hacc hsc (by rw [hok]; rfl) hp
    obtain ⟨w5, g1, g2, g3, g4, g5, g6, g7⟩ := passiveRest_accepted cmd _ w3 m c act rest hc3 hs3 hsc3 hm hcw hmain
    exact ⟨w5, w.nextD, none, h1.trans g1, g2, g3, g4, g5.trans hconn3, g6.trans hcf3, g7⟩
  · obtain ⟨w1, h1, hc1, hs1, hsc1, hconn1, hcf1⟩ := processActive_start' false cmd rs w s none _ hstep hs hsc
      (fun _ => hv6 hmo hr)
    obtain ⟨w2, d, g1, g2, g3, g4, g5, g6, g7⟩ := activeRest_accepted cmd rs w1 s m c act rest w.nextD hc1 hs1 hacc hsc1
      hm hcw hmain hconn1
    exact ⟨w2, d, some w.nextD, h1.trans g1, g2, g3, g4, g5, g6.trans hcf1, g7⟩
  · obtain ⟨w1, h1, hc1, hs1, hsc1, hconn1, hcf1⟩ := processActive_start' true cmd rs w s none _ hstep hs hsc
      (fun h => by cases h)
    obtain ⟨w2, d, g1, g2, g3, g4, g5, g6, g7⟩ := activeRest_accepted cmd rs w1 s m c act rest w.nextD hc1 hs1 hacc hsc1
      hm hcw hmain hconn1
    exact ⟨w2, d, some w.nextD, h1.trans g1, g2, g3, g4, g5, g6.trans hcf1, g7⟩

/-! ### the end of an accepted transfer -/

/-- the world after a graceful `dataDisconnect` of a connected socket (and of the acceptor of the active mode) -/
def discW (d : Nat) (a : Option Nat) (w : World) : World :=
  { w with closeFails := (match a with | some _ => w.closeFails.tail.tail | none => w.closeFails.tail),
           conn := some { sock := none, acc := none },
           trace := w.trace ++ ([.dataShutdown d, .dataClose d] ++ a.toList.map Ev.dataClose) }

theorem dataDisconnect_run (w : World) (d : Nat) (a : Option Nat) (hc : w.conn = some { sock := some d, acc := a })
    (hcl : ∀ b ∈ w.closeFails, b = false) : dataDisconnect true w = (.ok (), discW d a w) := by
  have h1 := DataL.head_getD_false _ hcl
  have h2 := DataL.head_getD_false w.closeFails.tail (fun b hb => hcl b (List.mem_of_mem_tail hb))
  unfold dataDisconnect
  open DataL in msimp [hc, DataL.closeD_bind]
  rcases a with _ | a <;> (open DataL in msimp [DataL.closeD_bind, h1, h2]) <;> simp [discW]

/-- the end of an uncancelled transfer: the data connection is shut down and closed, then the completion reply read -/
theorem finish_run (rs : Replies) (w2 : World) (c : WfReply) (d : Nat) (a : Option Nat) (hc : w2.connected = true)
    (hs : Sync w2 [c]) (hconn : w2.conn = some { sock := some d, acc := a }) (hcl : ∀ b ∈ w2.closeFails, b = false) :
    ∃ c' net', finishTransfer false rs w2 = (.ok (rs.append (replyOf c)), recvW (discW d a w2) c.code c.text c' net') ∧
      Sync (recvW (discW d a w2) c.code c.text c' net') [] := by
  have hd := dataDisconnect_run w2 d a hconn hcl
  have hs' : Sync (discW d a w2) [c] := hs
  have hc' : (discW d a w2).connected = true := hc
  obtain ⟨c', net', h1, h2⟩ := ctlRecv_sync hc' hs'
  refine ⟨c', net', ?_, h2⟩
  unfold finishTransfer
  open DataL in msimp [DataL.bind_ok hd, DataL.bind_ok (recvInto_run rs h1)]

theorem destroyConn_run (w : World) (h : w.conn = some { sock := none, acc := none }) :
    destroyConn w = (.ok (), { w with conn := none }) := by
  unfold destroyConn
  open DataL in msimp [h]

theorem withScope_run {α} (body : M α) (w w1 : World) (a : α) (h : body w = (.ok a, w1))
    (hconn : w1.conn = some { sock := none, acc := none }) :
    withScope body destroyConn w = (.ok a, { w1 with conn := none }) := by
  unfold withScope
  rw [h]
  simp only
  rw [destroyConn_run w1 hconn]

theorem run_of_result {α} (m : M α) (w : World) (a : α) (h : result m w = .ok a) : m w = (.ok a, after m w) := by
  unfold result at h
  unfold after
  rw [← h]

/-- the world after an accepted, uncancelled transfer -/
def doneW (d : Nat) (a : Option Nat) (w2 : World) (c : WfReply) (c' : Reader.Ctl) (net' : Reader.Net) : World :=
  { recvW (discW d a w2) c.code c.text c' net' with conn := none }

theorem doneW_trace (d : Nat) (a : Option Nat) (w2 : World) (c : WfReply) (c' : Reader.Ctl) (net' : Reader.Net) :
    (doneW d a w2 c c' net').trace = w2.trace ++ (Ev.dataShutdown d :: Ev.dataClose d :: (a.toList.map Ev.dataClose ++
      ([.ctlReadLine, .ctlReply c.code c.text] ++ (if c.code = 421 then [.ctlShutdown, .ctlClose] else []) ++
        w2.observers.map (fun o => Ev.obsReply o c.code c.text)))) := by
  simp [doneW, recvW, discW]

theorem doneW_inStep (d : Nat) (a : Option Nat) (w2 : World) (c : WfReply) (c' : Reader.Ctl) (net' : Reader.Net)
    (hc : w2.connected = true) (hs : Sync (recvW (discW d a w2) c.code c.text c' net') []) (h421 : c.code ≠ 421) :
    InStep (doneW d a w2 c c' net') [] := by
  refine ⟨?_, hs⟩
  simp [doneW, recvW, discW, h421, hc]

/-- an accepted download / upload, from the ready data connection to the scope exit -/
theorem xfer_run (verb : String) (path : Bytes) (mv : TType → M Unit) (w w1 w2 : World) (rs1 : Replies) (c : WfReply)
    (d : Nat) (a : Option Nat) (hpath : hasCrLf path = false)
    (hcdc : createDataConnection (str verb ++ [SP] ++ path) Replies.empty w = (.ok (true, rs1), w1))
    (hmv : mv w1.ttype w1 = (.ok (), w2))
    (hc : w2.connected = true) (hs : Sync w2 [c]) (hconn : w2.conn = some { sock := some d, acc := a })
    (hcl : ∀ b ∈ w2.closeFails, b = false) :
    ∃ c' net', withScope (do
        let c ← mkCmd verb (some path)
        let (ready, rs) ← createDataConnection c Replies.empty
        if ready then
          let w ← getW
          mv w.ttype
          finishTransfer false rs
        else pure rs) destroyConn w = (.ok (rs1.append (replyOf c)), doneW d a w2 c c' net') ∧
      Sync (recvW (discW d a w2) c.code c.text c' net') [] := by
  obtain ⟨c', net', h1, h2⟩ := finish_run rs1 w2 c d a hc hs hconn hcl
  refine ⟨c', net', ?_, h2⟩
  apply withScope_run
  · simp only [CtlL.bind_apply, CtlL.mkCmd_succ _ _ _ hpath]
    erw [hcdc]
    simp only [if_true]
    open DataL in msimp [DataL.bind_ok hmv]
    exact h1
  · rfl

/-- an undisturbed receive with the session's transfer type -/
theorem dataRecv_sink (w : World) (payload : Bytes) (reads : List Nat) (more : List (Option Nat))
    (hb : ∀ n ∈ reads, 0 < n ∧ n ≤ 8192) (hsum : reads.sum = payload.length)
    (hact : w.act = some (.send payload)) (hreads : w.dataReads = reads.map some ++ some 0 :: more)
    (hsink : w.sinkFailAt = none) :
    ∃ w2, dataRecv false w.ttype w = (.ok (), w2) ∧ w2.sinkFlushes = w.sinkFlushes + 1 ∧
      w2.sink = w.sink ++ (match w.ttype with | .binary => payload | .ascii => Spec.dlSpec payload) ∧
      Rdat w w2 ∧ Rcf w w2 := by
  obtain ⟨h1, h2, _, h4, _, h6⟩ := DataL.dataRecv_delivers w.ttype w payload reads more hb hsum hact hreads hsink
  have hrun := run_of_result _ _ _ h1
  refine ⟨_, hrun, h2, ?_, (dataRecv_dat _ _).of_eq hrun, (dataRecv_cf _ _).of_eq hrun⟩
  cases ht : w.ttype
  · have := h4 ht
    rw [ht] at this
    exact this
  · have := h6 ht
    rw [ht] at this
    exact this

/-- an undisturbed send with the session's transfer type -/
theorem dataSend_peer (w : World) (hok : ∀ b ∈ w.blockOks, b = true) (hsrc : w.srcFailAt = none) :
    ∃ w2, dataSend false w.ttype w = (.ok (), w2) ∧
      w2.peerGot = w.peerGot ++ (match w.ttype with | .binary => w.src.data | .ascii => Spec.ulSpec w.src.data) ∧
      Rdat w w2 ∧ Rcf w w2 := by
  cases ht : w.ttype
  · obtain ⟨h1, h2, _⟩ := DataL.dataSend_binary_exact w hok hsrc
    have hrun := run_of_result _ _ _ h1
    exact ⟨_, hrun, h2, (dataSend_dat _ _).of_eq hrun, (dataSend_cf _ _).of_eq hrun⟩
  · obtain ⟨h1, h2⟩ := DataL.dataSend_ascii_exact w hok hsrc
    have hrun := run_of_result _ _ _ h1
    exact ⟨_, hrun, h2, (dataSend_dat _ _).of_eq hrun, (dataSend_cf _ _).of_eq hrun⟩

/-- the world after the text of a listing has been announced -/
def lsW (w : World) : World :=
  { w with trace := w.trace ++ [.listing w.sink] ++ w.observers.map (fun o => Ev.obsFileList o w.sink) }

/-- an accepted listing, from the ready data connection to the scope exit -/
theorem list_run (path : Option Bytes) (names : Bool) (cmd : Bytes) (w w1 w2 : World) (rs1 : Replies) (c : WfReply)
    (d : Nat) (a : Option Nat)
    (hmk : mkCmd (if names then "NLST" else "LIST") path w = (.ok cmd, w))
    (hcdc : createDataConnection cmd Replies.empty w = (.ok (true, rs1), w1))
    (hmv : dataRecv false w1.ttype { w1 with sinkSilent := true, sink := [], sinkFailAt := none } = (.ok (), w2))
    (hc : w2.connected = true) (hs : Sync w2 [c]) (hconn : w2.conn = some { sock := some d, acc := a })
    (hcl : ∀ b ∈ w2.closeFails, b = false) :
    ∃ c' net', fileList path names w = (.ok (rs1.append (replyOf c), w2.sink), doneW d a (lsW w2) c c' net') ∧
      Sync (recvW (discW d a (lsW w2)) c.code c.text c' net') [] := by
  have hd := dataDisconnect_run (lsW w2) d a hconn hcl
  have hs' : Sync (discW d a (lsW w2)) [c] := hs
  have hc' : (discW d a (lsW w2)).connected = true := hc
  obtain ⟨c', net', h1, h2⟩ := ctlRecv_sync hc' hs'
  refine ⟨c', net', ?_, h2⟩
  unfold fileList
  apply withScope_run
  · simp only [CtlL.bind_apply, hmk]
    erw [hcdc]
    simp only [if_true]
    open DataL in msimp [DataL.bind_ok hmv]
    erw [DataL.bind_ok hd]
    rw [DataL.bind_ok (recvInto_run rs1 h1)]
    rfl
  · rfl

end Ftp.Client.OpsL
