import Ftp.Model.Utils
/- helper lemmas about decimal parsing and formatting -/
namespace Ftp
open Ftp.Utils

def decStep (n d : Nat) : Nat := 10 * n + (d - 48)

theorem decValue_eq_foldl (ds : Bytes) : decValue ds = ds.foldl decStep 0 := rfl

theorem foldl_decStep_ge (s : Bytes) (a : Nat) : a ≤ s.foldl decStep a := by
  induction s generalizing a with
  | nil => simp
  | cons c t ih =>
    simp only [List.foldl_cons]
    have := ih (decStep a c)
    unfold decStep at this ⊢
    omega

theorem parseU64Loop_spec (s : Bytes) (v : Nat) (hv : v ≤ u64max) :
    parseU64Loop s v =
      if s.all isDigit = true ∧ s.foldl decStep v ≤ u64max then some (s.foldl decStep v) else none := by
  induction s generalizing v with
  | nil => simp [parseU64Loop, hv]
  | cons ch rest ih =>
    simp only [parseU64Loop, List.all_cons, List.foldl_cons]
    by_cases hd : isDigit ch = true
    · have h48 : 48 ≤ ch ∧ ch ≤ 57 := by simpa [isDigit] using hd
      have hnd : (ch < 48 || ch > 57) = false := by
        simp only [Bool.or_eq_false_iff, decide_eq_false_iff_not]; omega
      simp only [hnd, Bool.false_eq_true, if_false, hd, Bool.true_and]
      have hge := foldl_decStep_ge rest (decStep v ch)
      by_cases h1 : v > u64max / 10
      · simp only [h1, if_true]
        have : ¬ (List.foldl decStep (decStep v ch) rest ≤ u64max) := by
          unfold decStep u64max at *; omega
        simp [this]
      · simp only [h1, if_false]
        by_cases h2 : v * 10 > u64max - (ch - 48)
        · simp only [h2, if_true]
          have : ¬ (List.foldl decStep (decStep v ch) rest ≤ u64max) := by
            unfold decStep u64max at *; omega
          simp [this]
        · simp only [h2, if_false]
          have hv' : v * 10 + (ch - 48) ≤ u64max := by unfold u64max at *; omega
          rw [ih _ hv']
          have : v * 10 + (ch - 48) = decStep v ch := by unfold decStep; omega
          rw [this]
    · have hnd : (ch < 48 || ch > 57) = true := by
        have hd' : ¬ (48 ≤ ch ∧ ch ≤ 57) := by simpa [isDigit] using hd
        simp only [Bool.or_eq_true, decide_eq_true_eq]; omega
      simp [hnd, hd]

theorem parseU64_spec (s : Bytes) :
    parseU64 s = if isDigits s = true ∧ decValue s ≤ u64max then some (decValue s) else none := by
  unfold parseU64 isDigits
  cases s with
  | nil => simp
  | cons c t =>
    simp only [List.isEmpty_cons, Bool.false_eq_true, if_false, Bool.not_false, Bool.true_and]
    rw [parseU64Loop_spec _ _ (by unfold u64max; omega)]
    rfl

theorem parseBounded_spec (max : Nat) (hm : max ≤ u64max) (s : Bytes) :
    parseBounded max s = if isDigits s = true ∧ decValue s ≤ max then some (decValue s) else none := by
  unfold parseBounded
  rw [parseU64_spec]
  by_cases h : isDigits s = true
  · by_cases h2 : decValue s ≤ max
    · have : decValue s ≤ u64max := by omega
      simp [h, h2, this]
    · by_cases h3 : decValue s ≤ u64max
      · simp [h, h2, h3]
      · simp [h, h2, h3]
  · simp [h]

theorem parseU8_spec (s : Bytes) :
    parseU8 s = if isDigits s = true ∧ decValue s ≤ 255 then some (decValue s) else none :=
  parseBounded_spec 255 (by unfold u64max; omega) s

theorem parseU16_spec (s : Bytes) :
    parseU16 s = if isDigits s = true ∧ decValue s ≤ 65535 then some (decValue s) else none :=
  parseBounded_spec 65535 (by unfold u64max; omega) s

theorem parseU32_spec (s : Bytes) :
    parseU32 s = if isDigits s = true ∧ decValue s ≤ 4294967295 then some (decValue s) else none :=
  parseBounded_spec 4294967295 (by unfold u64max; omega) s

end Ftp
