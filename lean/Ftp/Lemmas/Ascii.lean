import Ftp.Spec.Pure
/- helper lemmas for C05: the ASCII converters agree with the reference substitutions -/
namespace Ftp.Ascii
open Ftp

theorem CR_ne_LF : CR ≠ LF := by decide
theorem LF_ne_CR : LF ≠ CR := by decide

/-! ### reference functions -/

theorem ulGo_length_le (b : Bool) (l : Bytes) : (Spec.ulGo b l).length ≤ 2 * l.length := by
  induction l generalizing b with
  | nil => simp [Spec.ulGo]
  | cons c t ih =>
    have h1 := ih true
    have h2 := ih false
    simp only [Spec.ulGo]
    split
    · simp only [List.length_cons]; omega
    · split
      · split
        · simp only [List.length_cons]; omega
        · simp only [List.length_cons]; omega
      · simp only [List.length_cons]; omega

theorem ulGo_true_eq_false (t : Bytes) (h : t.head? ≠ some LF) : Spec.ulGo true t = Spec.ulGo false t := by
  cases t with
  | nil => rfl
  | cons c t =>
    have hc : c ≠ LF := by simpa using h
    simp only [Spec.ulGo]
    split
    · rfl
    · simp

theorem dlSpec_cons_ne (c : Byte) (x : Bytes) (h : c ≠ CR) : Spec.dlSpec (c :: x) = c :: Spec.dlSpec x := by
  cases x with
  | nil => simp [Spec.dlSpec]
  | cons d t => simp [Spec.dlSpec, h]

theorem dlSpec_cr_lf (x : Bytes) : Spec.dlSpec (CR :: LF :: x) = LF :: Spec.dlSpec x := by
  simp [Spec.dlSpec]

theorem dlSpec_cr_ne (d : Byte) (x : Bytes) (h : d ≠ LF) :
    Spec.dlSpec (CR :: d :: x) = CR :: Spec.dlSpec (d :: x) := by
  simp [Spec.dlSpec, h]

theorem roundtrip_aux (s : Bytes) (h : CR ∉ s) : Spec.dlSpec (Spec.ulGo false s) = s := by
  induction s with
  | nil => simp [Spec.ulGo, Spec.dlSpec]
  | cons c t ih =>
    have hc : c ≠ CR := by
      intro e; apply h; simp [e]
    have ht : CR ∉ t := by
      intro e; apply h; simp [e]
    simp only [Spec.ulGo, hc, if_false]
    split
    · next hlf =>
      subst hlf
      simp only [Bool.false_eq_true, if_false]
      rw [dlSpec_cr_lf, ih ht]
    · rw [dlSpec_cons_ne _ _ hc, ih ht]

/-! ### download -/

/-- what is still owed to the sink: the pending CR followed by the rest of the input, converted -/
def dlRest (prev : Bool) (s : Bytes) : Bytes := Spec.dlSpec ((if prev then [CR] else []) ++ s)

theorem writeGo_spec (chunk : Bytes) : ∀ (prev : Bool) (out rest : Bytes),
    (writeGo chunk prev out).1 ++ dlRest (writeGo chunk prev out).2 rest
      = out ++ dlRest prev (chunk ++ rest) := by
  induction chunk with
  | nil => intro prev out rest; simp [writeGo]
  | cons ch t ih =>
    intro prev out rest
    simp only [writeGo]
    split
    · next hcr =>
      subst hcr
      split
      · next hp =>
        subst hp
        rw [ih]
        simp only [dlRest, if_true, List.cons_append, List.nil_append, List.append_assoc]
        rw [dlSpec_cr_ne _ _ CR_ne_LF]
      · next hp =>
        have hp' : prev = false := by simpa using hp
        subst hp'
        rw [ih]
        simp [dlRest]
    · next hcr =>
      split
      · next hlf =>
        subst hlf
        rw [ih]
        cases prev
        · simp [dlRest, dlSpec_cons_ne _ _ LF_ne_CR]
        · simp [dlRest, dlSpec_cr_lf]
      · next hlf =>
        rw [ih]
        cases prev
        · simp [dlRest, dlSpec_cons_ne _ _ hcr]
        · simp [dlRest, dlSpec_cr_ne _ _ hlf, dlSpec_cons_ne _ _ hcr]

theorem download_spec (chunks : List Bytes) : ∀ (prev : Bool) (acc : Bytes),
    download chunks prev acc = acc ++ dlRest prev chunks.flatten := by
  induction chunks with
  | nil =>
    intro prev acc
    cases prev <;> simp [download, flush, dlRest, Spec.dlSpec]
  | cons c cs ih =>
    intro prev acc
    simp only [download, write, List.flatten_cons]
    rw [ih, List.append_assoc, writeGo_spec]
    simp

/-! ### upload -/

def lfIf (b : Bool) : Bytes := if b then [LF] else []

@[simp] theorem lfIf_false : lfIf false = [] := rfl
@[simp] theorem lfIf_true : lfIf true = [LF] := rfl

/-- the invariant of the inner loop -/
structure InnerPost (size : Nat) (internal out : Bytes) (skip : Bool) (tail : Bytes)
    (r : Bytes × Bytes × Bool × Bool) : Prop where
  eq : r.2.1 ++ lfIf r.2.2.2 ++ Spec.ulGo r.2.2.1 (r.1 ++ tail) = out ++ Spec.ulGo skip (internal ++ tail)
  le : r.2.1.length ≤ size
  done : r.1 = [] ∨ size ≤ r.2.1.length
  need : r.2.2.2 = true → size ≤ r.2.1.length
  dec : r.1.length ≤ internal.length - 1

theorem InnerPost.step {size : Nat} {ch : Byte} {t out : Bytes} {skip : Bool} {tail out1 : Bytes} {skip1 : Bool}
    {r : Bytes × Bytes × Bool × Bool}
    (hstep : out ++ Spec.ulGo skip (ch :: t ++ tail) = out1 ++ Spec.ulGo skip1 (t ++ tail))
    (h : InnerPost size t out1 skip1 tail r) : InnerPost size (ch :: t) out skip tail r where
  eq := by rw [h.eq]; exact hstep.symm
  le := h.le
  done := h.done
  need := h.need
  dec := by have := h.dec; simp only [List.length_cons]; omega

theorem InnerPost.stop {size : Nat} {ch : Byte} {t out : Bytes} {skip : Bool} {tail out1 : Bytes} {skip1 need1 : Bool}
    (hstep : out ++ Spec.ulGo skip (ch :: t ++ tail) = out1 ++ lfIf need1 ++ Spec.ulGo skip1 (t ++ tail))
    (hle : out1.length ≤ size) (hge : size ≤ out1.length) :
    InnerPost size (ch :: t) out skip tail (t, out1, skip1, need1) where
  eq := hstep.symm
  le := hle
  done := Or.inr hge
  need := fun _ => hge
  dec := by simp

theorem inner_spec (size : Nat) (internal : Bytes) : ∀ (out : Bytes) (skip : Bool) (tail : Bytes),
    out.length < size → InnerPost size internal out skip tail (inner size internal out skip false) := by
  induction internal with
  | nil =>
    intro out skip tail hlt
    constructor <;> simp [inner] <;> omega
  | cons ch t ih =>
    intro out skip tail hlt
    rw [inner]
    by_cases hcr : ch = CR
    · subst hcr
      by_cases hfull : out.length + 1 ≥ size
      · simp only [hfull, if_true, List.length_append, List.length_cons, List.length_nil]
        apply InnerPost.stop
        · simp [Spec.ulGo]
        · simp; omega
        · simp; omega
      · simp only [hfull, if_true, if_false, List.length_append, List.length_cons, List.length_nil]
        split
        · apply InnerPost.stop
          · simp [Spec.ulGo]
          · simp; omega
          · simp; omega
        · apply InnerPost.step _ (ih _ _ _ _)
          · simp [Spec.ulGo]
          · simp; omega
    · by_cases hlf : ch = LF
      · subst hlf
        cases skip
        · by_cases hfull : out.length + 1 ≥ size
          · simp only [hcr, hfull, if_true, if_false, Bool.not_false, List.length_append, List.length_cons,
              List.length_nil]
            apply InnerPost.stop
            · simp [Spec.ulGo, hcr]
            · simp; omega
            · simp; omega
          · simp only [hcr, hfull, if_true, if_false, Bool.not_false, List.length_append, List.length_cons,
              List.length_nil]
            split
            · apply InnerPost.stop
              · simp [Spec.ulGo, hcr]
              · simp; omega
              · simp; omega
            · apply InnerPost.step _ (ih _ _ _ _)
              · simp [Spec.ulGo, hcr]
              · simp; omega
        · have hnf : ¬ (out.length ≥ size) := by omega
          simp only [hcr, hnf, if_true, if_false, Bool.not_true, Bool.false_eq_true]
          apply InnerPost.step _ (ih _ _ _ hlt)
          simp [Spec.ulGo, hcr]
      · simp only [hcr, hlf, if_false, List.length_append, List.length_cons, List.length_nil]
        split
        · apply InnerPost.stop
          · simp [Spec.ulGo, hcr, hlf]
          · simp; omega
          · simp; omega
        · apply InnerPost.step _ (ih _ _ _ _)
          · simp [Spec.ulGo, hcr, hlf]
          · simp; omega

theorem Src.read_spec (s : Src) (n : Nat) (hn : 1 ≤ n) :
    (s.read n).1 ++ (s.read n).2.data = s.data ∧ ((s.read n).1 = [] → s.data = []) := by
  simp only [Src.read, List.take_append_drop, true_and]
  intro h
  rw [List.take_eq_nil_iff] at h
  rcases h with h | h
  · exfalso
    split at h
    · omega
    · split at h <;> omega
  · exact h

theorem outer_succ (size fuel : Nat) (st : IState) (src : Src) (out : Bytes) :
    outer size (fuel + 1) st src out =
      if out.length ≥ size then (st, src, out)
      else if st.internal.isEmpty then
        if (src.read st.bufSize).1.isEmpty then ({ st with internal := [] }, (src.read st.bufSize).2, out)
        else
          let r := inner size (src.read st.bufSize).1 out st.skipLf st.needLf
          outer size fuel { st with internal := r.1, skipLf := r.2.2.1, needLf := r.2.2.2 }
            (src.read st.bufSize).2 r.2.1
      else
        let r := inner size st.internal out st.skipLf st.needLf
        outer size fuel { st with internal := r.1, skipLf := r.2.2.1, needLf := r.2.2.2 } src r.2.1 := by
  rw [outer]
  by_cases h1 : out.length ≥ size
  · simp only [h1, if_true]
  · by_cases h2 : st.internal.isEmpty = true
    · simp only [h1, h2, if_true, if_false]
    · simp [h1, h2]

/-- what the converter still owes: the pending LF followed by the conversion of the unread input -/
def remain (st : IState) (src : Src) : Bytes :=
  lfIf st.needLf ++ Spec.ulGo st.skipLf (st.internal ++ src.data)

structure OuterPost (size : Nat) (st : IState) (src : Src) (out : Bytes) (r : IState × Src × Bytes) : Prop where
  eq : r.2.2 ++ remain r.1 r.2.1 = out ++ remain st src
  le : r.2.2.length ≤ size
  done : size ≤ r.2.2.length ∨ remain r.1 r.2.1 = []
  buf : r.1.bufSize = st.bufSize

theorem outer_spec (size : Nat) : ∀ (fuel : Nat) (st : IState) (src : Src) (out : Bytes),
    1 ≤ st.bufSize → out.length ≤ size → (st.needLf = true → size ≤ out.length) →
    st.internal.length + src.data.length + 1 ≤ fuel →
    OuterPost size st src out (outer size fuel st src out) := by
  intro fuel
  induction fuel with
  | zero => intro st src out _ _ _ h; omega
  | succ fuel ih =>
    intro st src out hb hle hneed hfuel
    rw [outer_succ]
    by_cases h1 : out.length ≥ size
    · simp only [h1, if_true]
      exact ⟨rfl, hle, Or.inl h1, rfl⟩
    · have hlt : out.length < size := by omega
      obtain ⟨need, skip, internal, bufSize⟩ := st
      have hnf : need = false := by
        cases need
        · rfl
        · exact absurd (hneed rfl) h1
      subst hnf
      simp only at hb hfuel
      simp only [h1, if_false]
      cases internal with
      | nil =>
        simp only [List.isEmpty_nil, if_true]
        obtain ⟨hrd1, hrd2⟩ := Src.read_spec src bufSize hb
        generalize src.read bufSize = rd at hrd1 hrd2 ⊢
        obtain ⟨got, src'⟩ := rd
        simp only at hrd1 hrd2 ⊢
        cases got with
        | nil =>
          have hd := hrd2 rfl
          simp only [List.nil_append] at hrd1
          simp only [List.isEmpty_nil, if_true]
          constructor
          · simp [remain, hrd1, hd]
          · exact hle
          · right; simp [remain, hrd1, hd, Spec.ulGo]
          · rfl
        | cons g gs =>
          simp only [List.isEmpty_cons, Bool.false_eq_true, if_false]
          have hi := inner_spec size (g :: gs) out skip src'.data hlt
          generalize inner size (g :: gs) out skip false = r at hi ⊢
          obtain ⟨rest, out', skip', need'⟩ := r
          have hlen : (g :: gs).length + src'.data.length = src.data.length := by
            rw [← hrd1, List.length_append]
          have hdec := hi.dec
          simp only [List.length_cons] at hlen hdec
          have hr := ih ⟨need', skip', rest, bufSize⟩ src' out' hb hi.le hi.need (by
            simp only [List.length_nil] at hfuel
            simp only; omega)
          constructor
          · rw [hr.eq]
            have := hi.eq
            simp only [remain, lfIf_false, List.nil_append] at this ⊢
            rw [← List.append_assoc, this, hrd1]
          · exact hr.le
          · exact hr.done
          · exact hr.buf
      | cons i is =>
        simp only [List.isEmpty_cons, Bool.false_eq_true, if_false]
        have hi := inner_spec size (i :: is) out skip src.data hlt
        generalize inner size (i :: is) out skip false = r at hi ⊢
        obtain ⟨rest, out', skip', need'⟩ := r
        have hdec := hi.dec
        simp only [List.length_cons] at hdec hfuel
        have hr := ih ⟨need', skip', rest, bufSize⟩ src out' hb hi.le hi.need (by
          simp only; omega)
        constructor
        · rw [hr.eq]
          have := hi.eq
          simp only [remain, lfIf_false, List.nil_append] at this ⊢
          rw [← List.append_assoc, this]
        · exact hr.le
        · exact hr.done
        · exact hr.buf

theorem read_spec (st : IState) (src : Src) (size : Nat) (hs : 1 ≤ size) (hb : 1 ≤ st.bufSize) :
    (read st src size).1 ++ remain (read st src size).2.1 (read st src size).2.2 = remain st src ∧
    ((read st src size).1 = [] → remain st src = []) ∧
    (read st src size).2.1.bufSize = st.bufSize := by
  have hs' : 0 < size := hs
  obtain ⟨need, skip, internal, bufSize⟩ := st
  cases need with
  | false =>
    have hr := outer_spec size (internal.length + src.data.length + 1) ⟨false, skip, internal, bufSize⟩ src []
      hb (by simp) (by simp) (by simp)
    simp only [read, Bool.and_false, Bool.false_eq_true, if_false]
    generalize outer size _ _ src [] = r at hr ⊢
    obtain ⟨st', src', out⟩ := r
    have heq := hr.eq
    have hdone := hr.done
    simp only [List.nil_append] at heq hdone ⊢
    refine ⟨heq, ?_, hr.buf⟩
    intro ho
    subst ho
    rcases hdone with h | h
    · simp at h; omega
    · rw [← heq, h]; rfl
  | true =>
    have hr := outer_spec size (internal.length + src.data.length + 1) ⟨false, skip, internal, bufSize⟩ src [LF]
      hb (by simpa using hs) (by simp) (by simp)
    simp only [read, hs', decide_true, Bool.and_true, if_true]
    generalize outer size _ _ src [LF] = r at hr ⊢
    obtain ⟨st', src', out⟩ := r
    have heq := hr.eq
    have hdone := hr.done
    simp only at heq hdone ⊢
    refine ⟨?_, ?_, hr.buf⟩
    · rw [heq]; simp [remain]
    · intro ho
      subst ho
      rcases hdone with h | h
      · simp at h; omega
      · rw [h] at heq; simp at heq

def nextSize (sizes : List Nat) : Nat :=
  match sizes with
  | [] => 8192
  | k :: _ => if k = 0 then 1 else k

theorem nextSize_pos (sizes : List Nat) : 1 ≤ nextSize sizes := by
  unfold nextSize
  split
  · omega
  · split <;> omega

theorem drain_succ (fuel : Nat) (st : IState) (src : Src) (sizes : List Nat) (acc : Bytes) :
    drain (fuel + 1) st src sizes acc =
      if (read st src (nextSize sizes)).1.isEmpty then (acc, true)
      else drain fuel (read st src (nextSize sizes)).2.1 (read st src (nextSize sizes)).2.2 sizes.tail
        (acc ++ (read st src (nextSize sizes)).1) := by
  cases sizes <;> rfl

theorem drain_spec : ∀ (fuel : Nat) (st : IState) (src : Src) (sizes : List Nat) (acc : Bytes),
    1 ≤ st.bufSize → (remain st src).length + 1 ≤ fuel →
    drain fuel st src sizes acc = (acc ++ remain st src, true) := by
  intro fuel
  induction fuel with
  | zero => intro st src sizes acc _ h; omega
  | succ fuel ih =>
    intro st src sizes acc hb hfuel
    rw [drain_succ]
    have hsz := nextSize_pos sizes
    generalize nextSize sizes = size at hsz ⊢
    obtain ⟨h1, h2, h3⟩ := read_spec st src size hsz hb
    generalize read st src size = r at h1 h2 h3 ⊢
    obtain ⟨out, st', src'⟩ := r
    simp only at h1 h2 h3 ⊢
    cases out with
    | nil =>
      simp [h2 rfl]
    | cons o os =>
      simp only [List.isEmpty_cons, Bool.false_eq_true, if_false]
      rw [ih st' src' sizes.tail (acc ++ o :: os) (by omega) (by
        rw [← h1] at hfuel
        simp only [List.length_append, List.length_cons] at hfuel
        omega)]
      rw [← h1, List.append_assoc]

theorem upload_spec (bufSize : Nat) (hb : 1 ≤ bufSize) (data : Bytes) (sched sizes : List Nat) :
    upload bufSize data sched sizes = (Spec.ulGo false data, true) := by
  unfold upload
  rw [drain_spec _ _ _ _ _ hb]
  · simp [remain, IState.init]
  · have := ulGo_length_le false data
    simp [remain, IState.init]
    omega

end Ftp.Ascii
