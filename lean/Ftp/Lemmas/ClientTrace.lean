import Ftp.Spec.Session
/-
  Shared infrastructure for the client-level trace properties (C14, C17): an invariant logic for the programs of
  `Ftp.Client.M`, its closure rules, and one generic walk over every operation of `Ftp.Session.Op`, parametrised by
  what the invariant needs from the atomic steps.
-/
namespace Ftp.Client.TraceL
open Ftp Ftp.Client Ftp.Session

/-! ### the monad, pointwise -/

@[simp] theorem bind_apply {α β} (m : M α) (f : α → M β) (w : World) :
    (m >>= f) w = match m w with
      | (.ok a, w') => f a w'
      | (.throw, w') => (.throw, w') := rfl
@[simp] theorem pure_apply {α} (a : α) (w : World) : (pure a : M α) w = (.ok a, w) := rfl
@[simp] theorem throwE_apply {α} (w : World) : (throwE : M α) w = (.throw, w) := rfl
@[simp] theorem getW_apply (w : World) : getW w = (.ok w, w) := rfl
@[simp] theorem modifyW_apply (f : World → World) (w : World) : modifyW f w = (.ok (), f w) := rfl
@[simp] theorem emit_apply (e : Ev) (w : World) : emit e w = (.ok (), { w with trace := w.trace ++ [e] }) := rfl
@[simp] theorem forObservers_apply (f : Nat → Ev) (w : World) :
    forObservers f w = (.ok (), { w with trace := w.trace ++ w.observers.map f }) := rfl

@[simp] theorem ite_apply_M {α} (c : Prop) [Decidable c] (a b : M α) (w : World) :
    (if c then a else b) w = if c then a w else b w := by split <;> rfl

theorem bindM_assoc {α β γ} (m : M α) (f : α → M β) (g : β → M γ) :
    (m >>= f) >>= g = m >>= fun a => f a >>= g := by
  funext w
  simp only [bind_apply]
  rcases m w with ⟨r, w'⟩
  cases r <;> rfl

/-! ### lists -/

@[simp] theorem filter_fun_true {α} (l : List α) : l.filter (fun _ => true) = l := by
  induction l <;> simp_all
@[simp] theorem filter_fun_false {α} (l : List α) : l.filter (fun _ => false) = [] := by
  induction l <;> simp_all

/-! ### invariants -/

/-- the program keeps the invariant, whether it returns or throws -/
structure Keeps {α} (I : World → Prop) (m : M α) : Prop where
  h : ∀ w, I w → I (m w).2

section rules
variable {I : World → Prop} {α β : Type}

theorem keeps_pure (a : α) : Keeps I (pure a : M α) := ⟨fun _ h => h⟩
theorem keeps_throw : Keeps I (throwE : M α) := ⟨fun _ h => h⟩
theorem keeps_getW : Keeps I getW := ⟨fun _ h => h⟩

theorem keeps_bind {m : M α} {f : α → M β} (hm : Keeps I m) (hf : ∀ a, Keeps I (f a)) : Keeps I (m >>= f) := by
  refine ⟨fun w hw => ?_⟩
  have h1 := hm.h w hw
  simp only [bind_apply]
  rcases hmw : m w with ⟨r, w'⟩
  rw [hmw] at h1
  cases r with
  | ok a => exact (hf a).h w' h1
  | throw => exact h1

theorem keeps_withScope {body : M α} {cleanup : M Unit} (hb : Keeps I body) (hc : Keeps I cleanup) :
    Keeps I (withScope body cleanup) := by
  refine ⟨fun w hw => ?_⟩
  have h1 := hb.h w hw
  unfold withScope
  rcases hmw : body w with ⟨r, w'⟩
  rw [hmw] at h1
  have h2 := hc.h w' h1
  cases r with
  | ok a =>
    simp only
    rcases hcw : cleanup w' with ⟨r2, w''⟩
    rw [hcw] at h2
    cases r2 <;> exact h2
  | throw => exact h2

theorem keeps_ite {c : Prop} [Decidable c] {a b : M α} (ha : Keeps I a) (hb : Keeps I b) :
    Keeps I (if c then a else b) := by
  split <;> assumption

theorem keeps_modify {f : World → World} (h : ∀ w, I w → I (f w)) : Keeps I (modifyW f) := ⟨h⟩
theorem keeps_emit {e : Ev} (h : ∀ w, I w → I { w with trace := w.trace ++ [e] }) : Keeps I (emit e) := ⟨h⟩
theorem keeps_forObservers {f : Nat → Ev} (h : ∀ w, I w → I { w with trace := w.trace ++ w.observers.map f }) :
    Keeps I (forObservers f) := ⟨h⟩

/-- an invariant `R w₀` for a reflexive relation is what a call needs to establish `R w (after m w)` -/
theorem keeps_rel {R : World → World → Prop} {m : M α} (hk : ∀ w₀, Keeps (R w₀) m) (refl : ∀ w, R w w) (w : World) :
    R w (after m w) := (hk w).h w (refl w)

/-- conversely, a step relation that composes gives the invariant -/
theorem keeps_of_rel {R : World → World → Prop} {m : M α} (trans : ∀ a b c, R a b → R b c → R a c)
    (h : ∀ w, R w (m w).2) (w₀ : World) : Keeps (R w₀) m := ⟨fun w hw => trans _ _ _ hw (h w)⟩

end rules

/-! ### pre- and postconditions -/

def post {α} (Q : α → World → Prop) (E : World → Prop) : Res α × World → Prop
  | (.ok a, w) => Q a w
  | (.throw, w) => E w

@[simp] theorem post_ok {α} (Q : α → World → Prop) (E : World → Prop) (a : α) (w : World) : post Q E (.ok a, w) = Q a w := rfl
@[simp] theorem post_throw {α} (Q : α → World → Prop) (E : World → Prop) (w : World) :
    post Q E ((.throw : Res α), w) = E w := rfl

/-- from `P`, the program returns in `Q` or throws in `E` -/
structure Hoare {α} (P : World → Prop) (m : M α) (Q : α → World → Prop) (E : World → Prop) : Prop where
  h : ∀ w, P w → post Q E (m w)

section hoare
variable {P : World → Prop} {E : World → Prop} {α β : Type}

theorem hoare_pure {Q : α → World → Prop} (a : α) (h : ∀ w, P w → Q a w) : Hoare P (pure a : M α) Q E := ⟨h⟩
theorem hoare_throw {Q : α → World → Prop} (h : ∀ w, P w → E w) : Hoare P (throwE : M α) Q E := ⟨h⟩

theorem hoare_bind {m : M α} {f : α → M β} {Q : α → World → Prop} {Q' : β → World → Prop}
    (hm : Hoare P m Q E) (hf : ∀ a, Hoare (Q a) (f a) Q' E) : Hoare P (m >>= f) Q' E := by
  refine ⟨fun w hw => ?_⟩
  have h1 := hm.h w hw
  simp only [bind_apply]
  rcases hmw : m w with ⟨r, w'⟩
  rw [hmw] at h1
  cases r with
  | ok a => exact (hf a).h w' h1
  | throw => exact h1

theorem hoare_getW {Q : World → World → Prop} (h : ∀ w, P w → Q w w) : Hoare P getW Q E := ⟨h⟩

/-- `getW` followed by a continuation: the continuation may assume it was handed a world satisfying `P` -/
theorem hoare_getW_bind {f : World → M β} {Q' : β → World → Prop}
    (hf : ∀ w₁, P w₁ → Hoare (fun w => w = w₁) (f w₁) Q' E) : Hoare P (getW >>= f) Q' E :=
  ⟨fun w hw => (hf w hw).h w rfl⟩

theorem hoare_conseq {m : M α} {P' : World → Prop} {Q Q' : α → World → Prop} {E' : World → Prop}
    (hm : Hoare P' m Q' E') (hp : ∀ w, P w → P' w) (hq : ∀ a w, Q' a w → Q a w) (he : ∀ w, E' w → E w) :
    Hoare P m Q E := by
  refine ⟨fun w hw => ?_⟩
  have h1 := hm.h w (hp w hw)
  rcases hmw : m w with ⟨r, w'⟩
  rw [hmw] at h1
  cases r with
  | ok a => exact hq a w' h1
  | throw => exact he w' h1

theorem hoare_of_keeps {I : World → Prop} {m : M α} (hk : Keeps I m) : Hoare I m (fun _ => I) I := by
  refine ⟨fun w hw => ?_⟩
  have h1 := hk.h w hw
  rcases hmw : m w with ⟨r, w'⟩
  rw [hmw] at h1
  cases r <;> exact h1

theorem hoare_keeps {I : World → Prop} {m : M α} (hk : Keeps I m) (he : ∀ w, I w → E w) :
    Hoare I m (fun _ => I) E :=
  hoare_conseq (hoare_of_keeps hk) (fun _ h => h) (fun _ _ h => h) he

theorem hoare_ite {c : Prop} [Decidable c] {a b : M α} {Q : α → World → Prop}
    (ha : c → Hoare P a Q E) (hb : ¬c → Hoare P b Q E) : Hoare P (if c then a else b) Q E := by
  split
  · exact ha ‹_›
  · exact hb ‹_›

theorem hoare_withScope {body : M α} {cleanup : M Unit} {Q : α → World → Prop} {Q' : α → World → Prop}
    {E' : World → Prop}
    (hb : Hoare P body Q E') (hc : ∀ a, Hoare (Q a) cleanup (fun _ => Q' a) E) (he : Hoare E' cleanup (fun _ => E) E) :
    Hoare P (withScope body cleanup) Q' E := by
  refine ⟨fun w hw => ?_⟩
  have h1 := hb.h w hw
  unfold withScope
  rcases hmw : body w with ⟨r, w'⟩
  rw [hmw] at h1
  cases r with
  | ok a =>
    have h2 := (hc a).h w' h1
    simp only
    rcases hcw : cleanup w' with ⟨r2, w''⟩
    rw [hcw] at h2
    cases r2 <;> exact h2
  | throw =>
    have h2 := he.h w' h1
    simp only
    rcases hcw : cleanup w' with ⟨r2, w''⟩
    rw [hcw] at h2
    cases r2 <;> exact h2

end hoare

/-! ### the generic walk over the operations -/

/-- a state change that is invisible to every property treated here -/
def Frame (w w' : World) : Prop :=
  w'.trace = w.trace ∧ w'.observers = w.observers ∧ w'.connected = w.connected ∧ w'.conn = w.conn ∧ w'.nextD = w.nextD

/-- a state change of the data-connection bookkeeping only -/
def FrameD (w w' : World) : Prop :=
  w'.trace = w.trace ∧ w'.observers = w.observers ∧ w'.connected = w.connected

theorem frameD_of_frame {w w' : World} (h : Frame w w') : FrameD w w' := ⟨h.1, h.2.1, h.2.2.1⟩

/-- the events a program added, once its trace is known to extend the old one -/
theorem added_of_append {α} (m : M α) (w : World) (δ : List Ev) (h : (after m w).trace = w.trace ++ δ) :
    added m w = δ := by
  simp [added, h]

def isDesc : Ev → Bool
  | .dataSocket _ | .dataAccept _ _ | .dataClose _ => true
  | _ => false

/-- events that are neither transcript nor observer events -/
def plain (e : Ev) : Bool := !(isTranscript e || isObs e)

/-- plain events that do not open or close a data descriptor either -/
def quiet (e : Ev) : Bool := plain e && !isDesc e

/-- the first steps of `client::connect`: the TCP connect and its announcement -/
def connectOpen (host : Bytes) (port : Nat) : M Unit := do
  modifyW fun w =>
    let g : Group := match w.script with
      | g :: _ => g
      | [] => { raws := [] }
    { w with ctl := {}, connected := true, script := w.script.tail,
             net := { w.net with stream := g.raws.flatten } }
  emit (.ctlConnect host port)
  forObservers (fun o => .obsConnected o host port)

/-- `client::connect` on a client that is still connected: the open control connection is closed first -/
def connectDrop : M Unit := do
  emit .ctlClose
  modifyW fun w => { w with connected := false }

/-- the completed listing and its announcement -/
def listingNotify (t : Bytes) : M Unit := do
  emit (.listing t)
  forObservers (fun o => .obsFileList o t)

/-- `client::recv` after a reply has been framed -/
def recvTail (code : Nat) (text : Bytes) : M Reply := do
  emit (.ctlReply code text)
  if code == 421 then ctlClose
  forObservers (fun o => .obsReply o code text)
  pure ⟨code, text⟩

/-- `client::send` once the observers have been told -/
def sendTail (cmd : Bytes) : M Unit := do
  let w ← getW
  if !w.connected then
    emit (.ctlWriteFail (cmd ++ CRLF))
    throwE
  else
    emit (.ctlWrite (cmd ++ CRLF))
    modifyW fun w =>
      let g : Group := match w.script with
        | g :: _ => g
        | [] => { raws := [str "500 script exhausted\r\n"] }
      { w with script := w.script.tail, net := { w.net with stream := w.net.stream ++ g.raws.flatten },
               act := match g.act with | some a => some a | none => w.act }

theorem ctlSend_eq (cmd : Bytes) : ctlSend cmd = forObservers (fun o => .obsRequest o cmd) >>= fun _ => sendTail cmd := rfl

theorem keeps_ctlRecv {I : World → Prop} (hemit : Keeps I (emit .ctlReadLine))
    (hmod : ∀ f : World → World, (∀ w, Frame w (f w)) → Keeps I (modifyW f))
    (htail : ∀ c t, Keeps I (recvTail c t)) : Keeps I ctlRecv := by
  unfold ctlRecv
  refine keeps_bind keeps_getW fun w => keeps_bind hemit fun _ => keeps_ite keeps_throw ?_
  split
  refine keeps_bind (hmod _ fun _ => ⟨rfl, rfl, rfl, rfl, rfl⟩) fun _ => ?_
  split
  · exact htail _ _
  · exact keeps_throw

/-- what an invariant must tolerate for the operations that do not touch the data-connection object -/
structure AtomsA (I : World → Prop) : Prop where
  mod : ∀ f : World → World, (∀ w, Frame w (f w)) → Keeps I (modifyW f)
  emit : ∀ e, quiet e = true → Keeps I (emit e)
  send : ∀ c, Keeps I (ctlSend c)
  recv : Keeps I ctlRecv
  close : Keeps I ctlClose
  drop : Keeps I connectDrop
  copen : ∀ h p, Keeps I (connectOpen h p)

/-- ... for what follows the set-up of the data connection in a transfer -/
structure AtomsT (I : World → Prop) : Prop extends AtomsA I where
  listing : ∀ t, Keeps I (listingNotify t)
  ddisc : ∀ g, Keeps I (dataDisconnect g)

/-- ... and for all operations -/
structure AtomsB (I : World → Prop) : Prop extends AtomsT I where
  dconn : ∀ a p, Keeps I (dataConnect a p)
  dlisten : Keeps I dataListen
  daccept : Keeps I dataAccept
  destroy : Keeps I destroyConn

/-- invariants that tolerate every single step of the data-connection primitives -/
structure AtomsD (I : World → Prop) : Prop extends AtomsA I where
  modD : ∀ f : World → World, (∀ w, FrameD w (f w)) → Keeps I (modifyW f)
  emitD : ∀ e, plain e = true → Keeps I (Client.emit e)
  listing : ∀ t, Keeps I (listingNotify t)


/-! ### invariants that tolerate the single steps of the control channel -/

/-- a state change invisible to the descriptor bookkeeping -/
def FrameC (w w' : World) : Prop := w'.trace = w.trace ∧ w'.conn = w.conn ∧ w'.nextD = w.nextD

structure Fine (I : World → Prop) : Prop where
  mod : ∀ f : World → World, (∀ w, Frame w (f w)) → Keeps I (modifyW f)
  emit : ∀ e, isDesc e = false → Keeps I (emit e)
  obs : ∀ f : Nat → Ev, (∀ o, isDesc (f o) = false) → Keeps I (forObservers f)
  close : Keeps I ctlClose
  drop : Keeps I connectDrop
  copen : ∀ h p, Keeps I (connectOpen h p)

section fine
variable {I : World → Prop}

theorem Fine.send (F : Fine I) (c : Bytes) : Keeps I (ctlSend c) := by
  rw [ctlSend_eq]
  refine keeps_bind (F.obs _ fun _ => rfl) fun _ => ?_
  unfold sendTail
  exact keeps_bind keeps_getW fun w => keeps_ite (keeps_bind (F.emit _ rfl) fun _ => keeps_throw)
    (keeps_bind (F.emit _ rfl) fun _ => F.mod _ fun _ => ⟨rfl, rfl, rfl, rfl, rfl⟩)

theorem Fine.recvTail (F : Fine I) (c : Nat) (t : Bytes) : Keeps I (recvTail c t) := by
  unfold TraceL.recvTail
  refine keeps_bind (F.emit _ rfl) fun _ => ?_
  have hj : Keeps I (forObservers (fun o => Ev.obsReply o c t) >>= fun _ => (pure ⟨c, t⟩ : M Reply)) :=
    keeps_bind (F.obs _ fun _ => rfl) fun _ => keeps_pure _
  split
  · exact keeps_bind F.close fun _ => hj
  · exact hj

theorem Fine.listing (F : Fine I) (t : Bytes) : Keeps I (listingNotify t) := by
  unfold listingNotify
  exact keeps_bind (F.emit _ rfl) fun _ => F.obs _ fun _ => rfl

theorem Fine.atomsA (F : Fine I) : AtomsA I where
  mod := F.mod
  emit e h := F.emit e (by simp only [quiet, Bool.and_eq_true, Bool.not_eq_true'] at h; exact h.2)
  send := F.send
  recv := keeps_ctlRecv (F.emit _ rfl) F.mod F.recvTail
  close := F.close
  drop := F.drop
  copen := F.copen

theorem Fine.of_iff {J : World → Prop} (F : Fine I) (h : ∀ w, I w ↔ J w) : Fine J := by
  have hk : ∀ {α} {m : M α}, Keeps I m → Keeps J m := fun hm => ⟨fun w hw => (h _).mp (hm.h w ((h w).mpr hw))⟩
  exact ⟨fun f hf => hk (F.mod f hf), fun e he => hk (F.emit e he), fun f hf => hk (F.obs f hf), hk F.close, hk F.drop,
    fun a p => hk (F.copen a p)⟩

theorem keeps_close_of (hmod : ∀ f : World → World, (∀ w, FrameC w (f w)) → Keeps I (modifyW f))
    (hemit : ∀ e, isDesc e = false → Keeps I (emit e)) : Keeps I ctlClose := by
  unfold ctlClose
  exact keeps_bind (hemit _ rfl) fun _ => keeps_bind (hemit _ rfl) fun _ => hmod _ fun _ => ⟨rfl, rfl, rfl⟩

theorem keeps_drop_of (hmod : ∀ f : World → World, (∀ w, FrameC w (f w)) → Keeps I (modifyW f))
    (hemit : ∀ e, isDesc e = false → Keeps I (emit e)) : Keeps I connectDrop := by
  unfold connectDrop
  exact keeps_bind (hemit _ rfl) fun _ => hmod _ fun _ => ⟨rfl, rfl, rfl⟩

theorem keeps_copen_of (hmod : ∀ f : World → World, (∀ w, FrameC w (f w)) → Keeps I (modifyW f))
    (hemit : ∀ e, isDesc e = false → Keeps I (emit e))
    (hobs : ∀ f : Nat → Ev, (∀ o, isDesc (f o) = false) → Keeps I (forObservers f)) (h : Bytes) (p : Nat) :
    Keeps I (connectOpen h p) := by
  unfold connectOpen
  exact keeps_bind (hmod _ fun _ => ⟨rfl, rfl, rfl⟩) fun _ => keeps_bind (hemit _ rfl) fun _ => hobs _ fun _ => rfl

end fine

/-- extensible: lemmas about already treated programs -/
syntax "keeps_lemma" : tactic
macro_rules | `(tactic| keeps_lemma) => `(tactic| fail "no lemma")

macro "keeps_step" : tactic => `(tactic| first
  | exact keeps_pure _ | exact keeps_throw | exact keeps_getW
  | assumption
  | (with_reducible apply AtomsA.send; assumption) | (with_reducible apply AtomsA.recv; assumption)
  | (with_reducible apply AtomsA.close; assumption) | (with_reducible apply AtomsA.copen; assumption)
  | ((with_reducible refine AtomsA.emit ‹_› _ ?_); rfl)
  | ((with_reducible refine AtomsA.mod ‹_› _ ?_); intro _; unfold Frame; exact ⟨rfl, rfl, rfl, rfl, rfl⟩)
  | keeps_lemma
  | with_reducible apply keeps_bind
  | with_reducible apply keeps_withScope
  | with_reducible apply keeps_ite
  | intro _
  | split)

macro "keeps_walk" : tactic => `(tactic| repeat' keeps_step)

section walkA
set_option linter.unusedVariables false
variable {I : World → Prop}

theorem keeps_recvInto (A : AtomsA I) (rs : Replies) : Keeps I (recvInto rs) := by
  unfold recvInto; keeps_walk
macro_rules | `(tactic| keeps_lemma) => `(tactic| (with_reducible apply keeps_recvInto; assumption))

theorem keeps_mkCmd (A : AtomsA I) (v : String) (a : Option Bytes) : Keeps I (mkCmd v a) := by
  unfold mkCmd; keeps_walk
macro_rules | `(tactic| keeps_lemma) => `(tactic| (with_reducible apply keeps_mkCmd; assumption))

theorem keeps_processCommand (A : AtomsA I) (c : Bytes) : Keeps I (processCommand c) := by
  unfold processCommand; keeps_walk
macro_rules | `(tactic| keeps_lemma) => `(tactic| (with_reducible apply keeps_processCommand; assumption))

theorem keeps_processCommandInto (A : AtomsA I) (c : Bytes) (rs : Replies) : Keeps I (processCommandInto c rs) := by
  unfold processCommandInto; keeps_walk
macro_rules | `(tactic| keeps_lemma) => `(tactic| (with_reducible apply keeps_processCommandInto; assumption))

theorem keeps_simple (A : AtomsA I) (v : String) (a : Option Bytes) : Keeps I (simple v a) := by
  unfold simple; keeps_walk
macro_rules | `(tactic| keeps_lemma) => `(tactic| (with_reducible apply keeps_simple; assumption))

theorem keeps_processLogin (A : AtomsA I) (u p : Bytes) (rs : Replies) : Keeps I (processLogin u p rs) := by
  unfold processLogin; keeps_walk
macro_rules | `(tactic| keeps_lemma) => `(tactic| (with_reducible apply keeps_processLogin; assumption))

theorem keeps_login (A : AtomsA I) (u p : Bytes) : Keeps I (login u p) := by
  unfold login; keeps_walk
macro_rules | `(tactic| keeps_lemma) => `(tactic| (with_reducible apply keeps_login; assumption))

theorem keeps_logout (A : AtomsA I)  : Keeps I (logout) := by
  unfold logout; keeps_walk
macro_rules | `(tactic| keeps_lemma) => `(tactic| (with_reducible apply keeps_logout; assumption))

theorem keeps_setTransferType (A : AtomsA I) (t : TType) : Keeps I (setTransferType t) := by
  unfold setTransferType; keeps_walk
macro_rules | `(tactic| keeps_lemma) => `(tactic| (with_reducible apply keeps_setTransferType; assumption))

theorem keeps_rename (A : AtomsA I) (a b : Bytes) : Keeps I (rename a b) := by
  unfold rename; keeps_walk
macro_rules | `(tactic| keeps_lemma) => `(tactic| (with_reducible apply keeps_rename; assumption))

theorem keeps_disconnect (A : AtomsA I) (g : Bool) : Keeps I (disconnect g) := by
  unfold disconnect; keeps_walk
macro_rules | `(tactic| keeps_lemma) => `(tactic| (with_reducible apply keeps_disconnect; assumption))

theorem keeps_poll (A : AtomsA I)  : Keeps I (poll) := by
  unfold poll; keeps_walk
macro_rules | `(tactic| keeps_lemma) => `(tactic| (with_reducible apply keeps_poll; assumption))

theorem keeps_sinkWrite (A : AtomsA I) (bs : Bytes) : Keeps I (sinkWrite bs) := by
  unfold sinkWrite; keeps_walk
macro_rules | `(tactic| keeps_lemma) => `(tactic| (with_reducible apply keeps_sinkWrite; assumption))

theorem keeps_sinkFlush (A : AtomsA I)  : Keeps I (sinkFlush) := by
  unfold sinkFlush; keeps_walk
macro_rules | `(tactic| keeps_lemma) => `(tactic| (with_reducible apply keeps_sinkFlush; assumption))

theorem keeps_streamWrite (A : AtomsA I) (t : TType) (prev : Bool) (b : Bytes) : Keeps I (streamWrite t prev b) := by
  unfold streamWrite; keeps_walk
macro_rules | `(tactic| keeps_lemma) => `(tactic| (with_reducible apply keeps_streamWrite; assumption))

theorem keeps_streamFlush (A : AtomsA I) (t : TType) (prev : Bool) : Keeps I (streamFlush t prev) := by
  unfold streamFlush; keeps_walk
macro_rules | `(tactic| keeps_lemma) => `(tactic| (with_reducible apply keeps_streamFlush; assumption))

theorem keeps_recvLoop (A : AtomsA I) (cb : Bool) (t : TType) (d fuel : Nat) (payload : Bytes) (prev : Bool) : Keeps I (recvLoop cb t d fuel payload prev) := by
  induction fuel generalizing payload prev with
  | zero => unfold recvLoop; keeps_walk
  | succ n ih => unfold recvLoop; keeps_walk <;> apply ih
macro_rules | `(tactic| keeps_lemma) => `(tactic| (with_reducible apply keeps_recvLoop; assumption))

theorem keeps_dataRecv (A : AtomsA I) (cb : Bool) (t : TType) : Keeps I (dataRecv cb t) := by
  unfold dataRecv; keeps_walk
macro_rules | `(tactic| keeps_lemma) => `(tactic| (with_reducible apply keeps_dataRecv; assumption))

theorem keeps_srcRead (A : AtomsA I) (n : Nat) : Keeps I (srcRead n) := by
  unfold srcRead; keeps_walk
macro_rules | `(tactic| keeps_lemma) => `(tactic| (with_reducible apply keeps_srcRead; assumption))

theorem keeps_dataWrite (A : AtomsA I) (d : Nat) (b : Bytes) : Keeps I (dataWrite d b) := by
  unfold dataWrite; keeps_walk
macro_rules | `(tactic| keeps_lemma) => `(tactic| (with_reducible apply keeps_dataWrite; assumption))

theorem keeps_sendLoopBin (A : AtomsA I) (cb : Bool) (d fuel : Nat) : Keeps I (sendLoopBin cb d fuel) := by
  induction fuel with
  | zero => unfold sendLoopBin; keeps_walk
  | succ n ih => unfold sendLoopBin; keeps_walk <;> apply ih
macro_rules | `(tactic| keeps_lemma) => `(tactic| (with_reducible apply keeps_sendLoopBin; assumption))

theorem keeps_sendLoopAscii (A : AtomsA I) (cb : Bool) (d fuel : Nat) (st : Ascii.IState) : Keeps I (sendLoopAscii cb d fuel st) := by
  induction fuel generalizing st with
  | zero => unfold sendLoopAscii; keeps_walk
  | succ n ih => unfold sendLoopAscii; keeps_walk <;> apply ih
macro_rules | `(tactic| keeps_lemma) => `(tactic| (with_reducible apply keeps_sendLoopAscii; assumption))

theorem keeps_dataSend (A : AtomsA I) (cb : Bool) (t : TType) : Keeps I (dataSend cb t) := by
  unfold dataSend; keeps_walk
macro_rules | `(tactic| keeps_lemma) => `(tactic| (with_reducible apply keeps_dataSend; assumption))

theorem keeps_processAbort (A : AtomsA I) (rs : Replies) : Keeps I (processAbort rs) := by
  unfold processAbort; keeps_walk
macro_rules | `(tactic| keeps_lemma) => `(tactic| (with_reducible apply keeps_processAbort; assumption))

theorem keeps_connectOpen_bind {β} (A : AtomsA I) (h : Bytes) (p : Nat) (k : Unit → M β) (hk : ∀ u, Keeps I (k u)) :
    Keeps I (modifyW (fun w =>
        let g : Group := match w.script with
          | g :: _ => g
          | [] => { raws := [] }
        { w with ctl := {}, connected := true, script := w.script.tail,
                 net := { w.net with stream := g.raws.flatten } }) >>= fun _ =>
      emit (.ctlConnect h p) >>= fun _ => forObservers (fun o => .obsConnected o h p) >>= k) := by
  have := keeps_bind (A.copen h p) hk
  unfold connectOpen at this
  simpa only [bindM_assoc] using this
macro_rules | `(tactic| keeps_lemma) => `(tactic| refine keeps_connectOpen_bind ‹_› _ _ _ ?_)

theorem keeps_connectDrop_bind {β} (A : AtomsA I) (k : Unit → M β) (hk : ∀ u, Keeps I (k u)) :
    Keeps I (emit .ctlClose >>= fun _ => modifyW (fun w => { w with connected := false }) >>= k) := by
  have := keeps_bind A.drop hk
  unfold connectDrop at this
  simpa only [bindM_assoc] using this
macro_rules | `(tactic| keeps_lemma) => `(tactic| refine keeps_connectDrop_bind ‹_› _ ?_)

theorem keeps_connect (A : AtomsA I) (h : Bytes) (p : Nat) (cred : Option (Bytes × Bytes)) : Keeps I (connect h p cred) := by
  unfold connect; keeps_walk
macro_rules | `(tactic| keeps_lemma) => `(tactic| (with_reducible apply keeps_connect; assumption))

end walkA

section walkB
set_option linter.unusedVariables false
variable {I : World → Prop}

/-! the data-connection primitives, for invariants that tolerate each of their steps -/

macro_rules | `(tactic| keeps_lemma) => `(tactic| ((with_reducible refine AtomsD.emitD ‹_› _ ?_); rfl))
macro_rules | `(tactic| keeps_lemma) => `(tactic| ((with_reducible refine AtomsD.modD ‹_› _ ?_); intro _; unfold FrameD; exact ⟨rfl, rfl, rfl⟩))

theorem keeps_newDescriptor (D : AtomsD I)  : Keeps I (newDescriptor) := by
  have A := D.toAtomsA
  unfold newDescriptor; keeps_walk
macro_rules | `(tactic| keeps_lemma) => `(tactic| (with_reducible apply keeps_newDescriptor; assumption))

theorem keeps_closeD (D : AtomsD I) (d : Nat) : Keeps I (closeD d) := by
  have A := D.toAtomsA
  unfold closeD; keeps_walk
macro_rules | `(tactic| keeps_lemma) => `(tactic| (with_reducible apply keeps_closeD; assumption))

theorem keeps_destroyConn (D : AtomsD I)  : Keeps I (destroyConn) := by
  have A := D.toAtomsA
  unfold destroyConn; keeps_walk
macro_rules | `(tactic| keeps_lemma) => `(tactic| (with_reducible apply keeps_destroyConn; assumption))

theorem keeps_dataDisconnect (D : AtomsD I) (g : Bool) : Keeps I (dataDisconnect g) := by
  have A := D.toAtomsA
  unfold dataDisconnect; keeps_walk
macro_rules | `(tactic| keeps_lemma) => `(tactic| (with_reducible apply keeps_dataDisconnect; assumption))

theorem keeps_dataConnect (D : AtomsD I) (a : Bytes) (p : Nat) : Keeps I (dataConnect a p) := by
  have A := D.toAtomsA
  unfold dataConnect; keeps_walk
macro_rules | `(tactic| keeps_lemma) => `(tactic| (with_reducible apply keeps_dataConnect; assumption))

theorem keeps_dataListen (D : AtomsD I)  : Keeps I (dataListen) := by
  have A := D.toAtomsA
  unfold dataListen; keeps_walk
macro_rules | `(tactic| keeps_lemma) => `(tactic| (with_reducible apply keeps_dataListen; assumption))

theorem keeps_dataAccept (D : AtomsD I)  : Keeps I (dataAccept) := by
  have A := D.toAtomsA
  unfold dataAccept; keeps_walk
macro_rules | `(tactic| keeps_lemma) => `(tactic| (with_reducible apply keeps_dataAccept; assumption))

theorem AtomsD.atomsB (D : AtomsD I) : AtomsB I where
  toAtomsA := D.toAtomsA
  listing := D.listing
  ddisc := keeps_dataDisconnect D
  dconn := keeps_dataConnect D
  dlisten := keeps_dataListen D
  daccept := keeps_dataAccept D
  destroy := keeps_destroyConn D

/-! the transfers -/

macro_rules | `(tactic| keeps_lemma) => `(tactic| (with_reducible apply AtomsT.ddisc; assumption))
macro_rules | `(tactic| keeps_lemma) => `(tactic| (with_reducible apply AtomsB.dconn; assumption))
macro_rules | `(tactic| keeps_lemma) => `(tactic| (with_reducible apply AtomsB.dlisten; assumption))
macro_rules | `(tactic| keeps_lemma) => `(tactic| (with_reducible apply AtomsB.daccept; assumption))
macro_rules | `(tactic| keeps_lemma) => `(tactic| (with_reducible apply AtomsB.destroy; assumption))

theorem keeps_listingNotify_bind {β} (T : AtomsT I) (t : Bytes) (k : Unit → M β) (hk : ∀ u, Keeps I (k u)) :
    Keeps I (emit (.listing t) >>= fun _ => forObservers (fun o => .obsFileList o t) >>= k) := by
  have := keeps_bind (T.listing t) hk
  unfold listingNotify at this
  simpa only [bindM_assoc] using this
macro_rules | `(tactic| keeps_lemma) => `(tactic| with_reducible refine keeps_listingNotify_bind ‹_› _ _ ?_)

theorem keeps_finishTransfer (T : AtomsT I) (cb : Bool) (rs : Replies) : Keeps I (finishTransfer cb rs) := by
  have A := T.toAtomsA
  unfold finishTransfer; keeps_walk
macro_rules | `(tactic| keeps_lemma) => `(tactic| (with_reducible apply keeps_finishTransfer; assumption))

theorem keeps_processEpsv (B : AtomsB I) (c : Bytes) (rs : Replies) : Keeps I (processEpsv c rs) := by
  have T := B.toAtomsT
  have A := T.toAtomsA
  unfold processEpsv; keeps_walk
macro_rules | `(tactic| keeps_lemma) => `(tactic| (with_reducible apply keeps_processEpsv; assumption))

theorem keeps_processPasv (B : AtomsB I) (c : Bytes) (rs : Replies) : Keeps I (processPasv c rs) := by
  have T := B.toAtomsT
  have A := T.toAtomsA
  unfold processPasv; keeps_walk
macro_rules | `(tactic| keeps_lemma) => `(tactic| (with_reducible apply keeps_processPasv; assumption))

theorem keeps_processActive (B : AtomsB I) (e : Bool) (c : Bytes) (rs : Replies) : Keeps I (processActive e c rs) := by
  have T := B.toAtomsT
  have A := T.toAtomsA
  unfold processActive; keeps_walk
macro_rules | `(tactic| keeps_lemma) => `(tactic| (with_reducible apply keeps_processActive; assumption))

theorem keeps_createDataConnection (B : AtomsB I) (c : Bytes) (rs : Replies) : Keeps I (createDataConnection c rs) := by
  have T := B.toAtomsT
  have A := T.toAtomsA
  unfold createDataConnection; keeps_walk
macro_rules | `(tactic| keeps_lemma) => `(tactic| (with_reducible apply keeps_createDataConnection; assumption))

theorem keeps_download (B : AtomsB I) (p : Bytes) (cb : Bool) : Keeps I (download p cb) := by
  have T := B.toAtomsT
  have A := T.toAtomsA
  unfold download; keeps_walk
macro_rules | `(tactic| keeps_lemma) => `(tactic| (with_reducible apply keeps_download; assumption))

theorem keeps_upload (B : AtomsB I) (v : String) (p : Bytes) (cb : Bool) : Keeps I (upload v p cb) := by
  have T := B.toAtomsT
  have A := T.toAtomsA
  unfold upload; keeps_walk
macro_rules | `(tactic| keeps_lemma) => `(tactic| (with_reducible apply keeps_upload; assumption))

theorem keeps_fileList (B : AtomsB I) (p : Option Bytes) (n : Bool) : Keeps I (fileList p n) := by
  have T := B.toAtomsT
  have A := T.toAtomsA
  unfold fileList; keeps_walk
macro_rules | `(tactic| keeps_lemma) => `(tactic| (with_reducible apply keeps_fileList; assumption))

/-- every API call keeps an invariant that tolerates the atomic steps -/
theorem keeps_run (B : AtomsB I) (op : Op) : Keeps I op.run := by
  have T := B.toAtomsT
  have A := T.toAtomsA
  cases op <;> simp only [Op.run] <;> keeps_walk

end walkB

end Ftp.Client.TraceL
