import Ftp.Lemmas.ClientTlsXfer
import Ftp.Lemmas.ClientOps
/-
  Forward run equations of an *accepted* download of the TLS layer (`Ftp.ClientTls.downloadT`), used by C03t: on a
  session whose control channel is protected and whose peer answers the close-notify, every lifted step behaves as
  its plain run, so that the run equations of `Ftp.Client.OpsL` / `Ftp.Client.SessL` can be replayed step by step,
  interleaved with the two TLS-only steps (data handshake, close-notify on the data connection).
-/
set_option linter.unusedVariables false
set_option linter.unusedSimpArgs false

namespace Ftp.ClientTls.D
open Ftp Ftp.Client Ftp.ClientTls Ftp.Endpoint Ftp.Session Ftp.Props.C01
open Ftp.Client.SessL Ftp.Client.OpsL

/-! ### lifted programs on a healthy protected session -/

/-- the control channel is protected and the peer answers the close-notify: `lift` neither stops at a command write
    nor turns a 421 into a throw -/
def Good (w : WorldT) : Prop := w.ctlTls = true ∧ w.peerAnswersCloseNotify = true

/-- the plain world a lifted program starts in -/
def pl (w : WorldT) : World := { w.base with trace := [] }

/-- the TLS-level world after a lifted program whose plain run ended in `b` -/
def recW (w : WorldT) (b : World) : WorldT :=
  { w with base := { b with trace := w.base.trace }, trace := w.trace ++ b.trace.map (EvT.ev w.ctlTls) }

theorem lift_run {α} {m : M α} {w : WorldT} (hg : Good w) {r : Res α} {b : World} (h : m (pl w) = (r, b)) :
    lift m w = (r, recW w b) := by
  rw [L.lift_eq_of_not_broken m w (Or.inl hg.1)]
  have hc : ∀ b', L.closeF w b' = false := by
    intro b'
    unfold L.closeF
    rw [hg.2]
    simp
  unfold pl at h
  simp only [hc, h, Bool.false_eq_true, if_false]
  rfl

theorem good_recW {w : WorldT} (hg : Good w) (b : World) : Good (recW w b) := hg

/-! ### the monad of the TLS layer, pointwise -/

theorem bindT_ok {α β} {m : MT α} {f : α → MT β} {w w' : WorldT} {a : α} (h : m w = (.ok a, w')) :
    (m >>= f) w = f a w' := by rw [L.bindT_eq, h]

theorem pureT_run {α} (a : α) (w : WorldT) : (pure a : MT α) w = (.ok a, w) := rfl
theorem getT_bind {β} (f : WorldT → MT β) (w : WorldT) : (getT >>= f) w = f w w := rfl
theorem modifyT_bind {β} (g : WorldT → WorldT) (f : Unit → MT β) (w : WorldT) : (modifyT g >>= f) w = f () (g w) := rfl
theorem emitT_bind {β} (e : EvT) (f : Unit → MT β) (w : WorldT) :
    (emitT e >>= f) w = f () { w with trace := w.trace ++ [e] } := rfl
theorem emitT_run (e : EvT) (w : WorldT) : emitT e w = (.ok (), { w with trace := w.trace ++ [e] }) := rfl
theorem modifyT_run (g : WorldT → WorldT) (w : WorldT) : modifyT g w = (.ok (), g w) := rfl
theorem getT_run (w : WorldT) : getT w = (.ok w, w) := rfl
theorem throwT_run {α} (w : WorldT) : (throwT : MT α) w = (.throw, w) := rfl
theorem iteT_run {α} (c : Prop) [Decidable c] (a b : MT α) (w : WorldT) :
    (if c then a else b) w = if c then a w else b w := by split <;> rfl

/-- symbolic execution of the primitives of `MT` -/
syntax "tsimp" ("[" Lean.Parser.Tactic.simpLemma,* "]")? : tactic
macro_rules
  | `(tactic| tsimp) => `(tactic| simp only [L.bindT_eq, getT_run, modifyT_run, emitT_run, pureT_run, throwT_run,
      iteT_run, Bool.false_eq_true, if_false, if_true])
  | `(tactic| tsimp [$ts,*]) => `(tactic| simp only [L.bindT_eq, getT_run, modifyT_run, emitT_run, pureT_run,
      throwT_run, iteT_run, Bool.false_eq_true, if_false, if_true, $ts,*])

/-! ### the steps -/

/-- the world after a successful data handshake -/
def hsW (w : WorldT) : WorldT :=
  { w with hsOks := w.hsOks.tail, dataTls := true,
           trace := w.trace ++ [EvT.dataTlsHandshake (match w.base.conn with | some c => c.sock.getD 0 | none => 0)
             w.resume true] }

theorem dataHandshake_run (w : WorldT) (hctx : w.tlsCtx = true) (hhs : w.hsOks.head? = some true) :
    dataHandshake w = (.ok (), hsW w) := by
  unfold dataHandshake nextHandshake
  tsimp [hctx, hhs, Option.getD_some, Bool.not_true]
  simp only [hsW, hctx]
  rfl

/-- one command / reply turn through the TLS layer -/
theorem pciT_turn {w : WorldT} {q : List WfReply} {gs : List SGroup} (c : Bytes) (rs : Replies) (hg : Good w)
    (hc : w.base.connected = true) (hs : Sync w.base q) (hsc : w.base.script = gs.map SGroup.enc)
    (hwf : ∀ r ∈ (nextG gs).replies, r.wf) {x : WfReply} {q' : List WfReply} (hq : q ++ (nextG gs).replies = x :: q') :
    ∃ c' net', processCommandIntoT c rs w =
        (.ok (replyOf x, rs.append (replyOf x)), recW w (turnW c (pl w) x c' net')) ∧
      Sync (turnW c (pl w) x c' net') q' ∧ (turnW c (pl w) x c' net').script = gs.tail.map SGroup.enc ∧ x.wf := by
  obtain ⟨c', net', h1, h2, h3, h4⟩ := turn_run (w := pl w) c rs hc hs hsc hwf hq
  exact ⟨c', net', lift_run hg h1, h2, h3, h4⟩

/-! ### frames

  The worlds after the steps are kept abstract (existentially quantified, with the facts the next steps need): the
  explicit terms nest structure updates, and comparing projections of nested updates is expensive. -/

/-- the TLS side of a world in which the set-up can run: protected control channel, a context, the next handshake
    succeeds -/
structure TOk (w : WorldT) : Prop where
  good : Good w
  ctx : w.tlsCtx = true
  hs : w.hsOks.head? = some true

theorem TOk.recW {w : WorldT} (h : TOk w) (b : World) : TOk (recW w b) := ⟨h.good, h.ctx, h.hs⟩

/-- what one command / reply turn leaves alone -/
structure FrameC (b b' : World) : Prop where
  conn : b'.conn = b.conn
  cf : b'.closeFails = b.closeFails
  oks : b'.connectOks = b.connectOks
  usr : Rusr b b'

/-- what a step on the `data_connection` object leaves alone -/
structure FrameD (b b' : World) : Prop where
  connected : b'.connected = b.connected
  sync : ∀ q, Sync b q → Sync b' q
  script : b'.script = b.script
  cf : b'.closeFails = b.closeFails
  act : b'.act = b.act
  v6 : b'.v6 = b.v6
  usr : Rusr b b'

theorem rusr_rfl (b : World) : Rusr b b := ⟨rfl, rfl, rfl, rfl, rfl, rfl, rfl, rfl, rfl, rfl⟩

/-! ### the steps, with abstract worlds -/

theorem pciT_step {w : WorldT} {q : List WfReply} {g : SGroup} {gs : List SGroup} (c : Bytes) (rs : Replies)
    (tok : TOk w) (hc : w.base.connected = true) (hs : Sync w.base q)
    (hsc : w.base.script = (g :: gs).map SGroup.enc) (hwf : ∀ r ∈ g.replies, r.wf) {x : WfReply}
    {q' : List WfReply} (hq : q ++ g.replies = x :: q') (h421 : x.code ≠ 421) :
    ∃ w', processCommandIntoT c rs w = (.ok (replyOf x, rs.append (replyOf x)), w') ∧ TOk w' ∧
      w'.dataTls = w.dataTls ∧ w'.base.connected = true ∧ Sync w'.base q' ∧ w'.base.script = gs.map SGroup.enc ∧
      x.wf ∧ FrameC w.base w'.base ∧ (∀ a, g.act = some a → w'.base.act = some a) := by
  obtain ⟨c', net', h1, h2, h3, h4⟩ := pciT_turn (gs := g :: gs) c rs tok.good hc hs hsc hwf hq
  refine ⟨_, h1, tok.recW _, rfl, turnW_connected c (pl w) x c' net' hc h421, h2, h3, h4,
    ⟨rfl, rfl, rfl, ⟨rfl, rfl, rfl, rfl, rfl, rfl, rfl, rfl, rfl, rfl⟩⟩,
    fun a ha => turnW_act c (pl w) x c' net' g gs a hsc ha⟩

theorem dataConnectT_step (addr : Bytes) (port : Nat) (w : WorldT) (tok : TOk w)
    (hok : w.base.connectOks.head?.getD false = true) :
    ∃ w' d, lift (dataConnect addr port) w = (.ok (), w') ∧ TOk w' ∧ w'.dataTls = w.dataTls ∧
      w'.base.conn = some { sock := some d, acc := none } ∧ FrameD w.base w'.base :=
  ⟨_, w.base.nextD, lift_run tok.good (dataConnect_ok addr port (pl w) hok), tok.recW _, rfl, rfl,
    ⟨rfl, fun _ h => h, rfl, rfl, rfl, rfl, ⟨rfl, rfl, rfl, rfl, rfl, rfl, rfl, rfl, rfl, rfl⟩⟩⟩

theorem dataListenT_step (w : WorldT) (tok : TOk w) :
    ∃ w' l, lift dataListen w = (.ok (w.base.listenPorts.head?.getD 0), w') ∧ TOk w' ∧ w'.dataTls = w.dataTls ∧
      w'.base.conn = some { sock := none, acc := some l } ∧ FrameD w.base w'.base :=
  ⟨_, w.base.nextD, lift_run tok.good (dataListen_run (pl w)), tok.recW _, rfl, rfl,
    ⟨rfl, fun _ h => h, rfl, rfl, rfl, rfl, ⟨rfl, rfl, rfl, rfl, rfl, rfl, rfl, rfl, rfl, rfl⟩⟩⟩

theorem dataAcceptT_step (w : WorldT) (tok : TOk w) (l : Nat)
    (hconn : w.base.conn = some { sock := none, acc := some l }) :
    ∃ w' d, lift dataAccept w = (.ok (), w') ∧ TOk w' ∧ w'.dataTls = w.dataTls ∧
      w'.base.conn = some { sock := some d, acc := some l } ∧ FrameD w.base w'.base :=
  ⟨_, w.base.nextD, lift_run tok.good (dataAccept_run (pl w) _ l hconn rfl), tok.recW _, rfl, rfl,
    ⟨rfl, fun _ h => h, rfl, rfl, rfl, rfl, ⟨rfl, rfl, rfl, rfl, rfl, rfl, rfl, rfl, rfl, rfl⟩⟩⟩

theorem dataHandshake_step (w : WorldT) (tok : TOk w) :
    ∃ w', dataHandshake w = (.ok (), w') ∧ Good w' ∧ w'.dataTls = true ∧ w'.base = w.base :=
  ⟨_, dataHandshake_run w tok.ctx tok.hs, tok.good, rfl, rfl⟩

/-! ### the transfer command is accepted: a protected, open data socket is ready -/

/-- what the set-up of the data connection leaves when both commands are accepted and the handshake succeeds -/
structure Ready (b : World) (w1 : WorldT) (c : WfReply) (d : Nat) (a : Option Nat) (act : Option DataAct) : Prop where
  good : Good w1
  dtls : w1.dataTls = true
  conn : w1.base.connected = true
  sync : Sync w1.base [c]
  dconn : w1.base.conn = some { sock := some d, acc := a }
  cf : w1.base.closeFails = b.closeFails
  act : ∀ x, act = some x → w1.base.act = some x
  usr : Rusr b w1.base

/-- what follows the connect in the passive set-up of the TLS layer -/
def passiveRestT (cmd : Bytes) (rs : Replies) : MT (Bool × Replies) := do
  let (r, rs) ← processCommandIntoT cmd rs
  if r.isNegative then
    lift (dataDisconnect true)
    pure (false, rs)
  else
    dataHandshake
    pure (true, rs)

theorem passiveRestT_accepted (cmd : Bytes) (rs : Replies) (w3 : WorldT) (m c : WfReply) (act : Option DataAct)
    (gs : List SGroup) (d : Nat) (tok : TOk w3) (hc : w3.base.connected = true) (hs : Sync w3.base [])
    (hsc : w3.base.script = (⟨[m, c], act⟩ :: gs).map SGroup.enc) (hm : m.wf) (hcw : c.wf) (hacc : m.code < 400)
    (hconn : w3.base.conn = some { sock := some d, acc := none }) :
    ∃ w5, passiveRestT cmd rs w3 = (.ok (true, rs.append (replyOf m)), w5) ∧ Ready w3.base w5 c d none act := by
  obtain ⟨w4, h1, tok4, _, hc4, hs4, _, _, fr, hact⟩ :=
    pciT_step (g := ⟨[m, c], act⟩) (x := m) (q' := [c]) cmd rs tok hc hs hsc
      (by intro r hr; simp only [List.mem_cons, List.not_mem_nil, or_false] at hr; rcases hr with rfl | rfl <;> assumption)
      rfl (by omega)
  obtain ⟨w5, h2, hg5, hd5, hb5⟩ := dataHandshake_step w4 tok4
  refine ⟨w5, ?_, hg5, hd5, hb5 ▸ hc4, hb5 ▸ hs4, by rw [hb5, fr.conn, hconn], by rw [hb5, fr.cf], ?_, hb5 ▸ fr.usr⟩
  · unfold passiveRestT
    refine (bindT_ok h1).trans ?_
    dsimp only
    simp only [neg_of_lt hm hacc, Bool.false_eq_true, if_false]
    exact (bindT_ok h2).trans rfl
  · intro a ha
    rw [hb5]
    exact hact a ha

theorem processEpsvT_accepted (cmd : Bytes) (rs : Replies) (w : WorldT) (s m c : WfReply) (act : Option DataAct)
    (rest : List SGroup) (port : Nat) (tok : TOk w)
    (hstep : InStep w.base []) (hs : s.wf) (hm : m.wf) (hcw : c.wf) (hacc : s.code < 400) (hmain : m.code < 400)
    (hsc : w.base.script = (⟨[s], none⟩ :: ⟨[m, c], act⟩ :: rest).map SGroup.enc)
    (hok : w.base.connectOks.head?.getD false = true) (hport : parseEpsv s.text = some port) :
    ∃ w5 d, processEpsvT cmd rs w = (.ok (true, (rs.append (replyOf s)).append (replyOf m)), w5) ∧
      Ready w.base w5 c d none act := by
  obtain ⟨hconn, hsync⟩ := hstep
  obtain ⟨w1, h1, tok1, _, hc1, hs1, hsc1, _, fr1, _⟩ :=
    pciT_step (g := ⟨[s], none⟩) (x := s) (q' := []) (str "EPSV") rs tok hconn hsync hsc
      (by intro r hr; rw [List.mem_singleton.1 hr]; exact hs) rfl (by omega)
  obtain ⟨w2, d, h2, tok2, _, hconn2, fr2⟩ := dataConnectT_step (addrText w1.base) port w1 tok1 (by rw [fr1.oks]; exact hok)
  obtain ⟨w5, h3, rd⟩ := passiveRestT_accepted cmd (rs.append (replyOf s)) w2 m c act rest d tok2
    (fr2.connected.trans hc1) (fr2.sync _ hs1) (fr2.script.trans hsc1) hm hcw hmain hconn2
  refine ⟨w5, d, ?_, rd.good, rd.dtls, rd.conn, rd.sync, rd.dconn, ?_, rd.act, ?_⟩
  · unfold processEpsvT
    refine (bindT_ok h1).trans ?_
    dsimp only
    have hp : parseEpsv (replyOf s).text = some port := hport
    simp only [neg_of_lt hs hacc, Bool.false_eq_true, if_false, hp]
    refine (getT_bind _ _).trans ?_
    refine (bindT_ok h2).trans ?_
    exact h3
  · rw [rd.cf, fr2.cf, fr1.cf]
  · exact CtlL.IsPre.trans fr1.usr (CtlL.IsPre.trans fr2.usr rd.usr)

theorem processPasvT_accepted (cmd : Bytes) (rs : Replies) (w : WorldT) (s m c : WfReply) (act : Option DataAct)
    (rest : List SGroup) (ip : Bytes) (port : Nat) (tok : TOk w)
    (hstep : InStep w.base []) (hs : s.wf) (hm : m.wf) (hcw : c.wf) (hacc : s.code < 400) (hmain : m.code < 400)
    (hsc : w.base.script = (⟨[s], none⟩ :: ⟨[m, c], act⟩ :: rest).map SGroup.enc)
    (hok : w.base.connectOks.head?.getD false = true) (hport : parsePasv s.text = some (ip, port)) :
    ∃ w5 d, processPasvT cmd rs w = (.ok (true, (rs.append (replyOf s)).append (replyOf m)), w5) ∧
      Ready w.base w5 c d none act := by
  obtain ⟨hconn, hsync⟩ := hstep
  obtain ⟨w1, h1, tok1, _, hc1, hs1, hsc1, _, fr1, _⟩ :=
    pciT_step (g := ⟨[s], none⟩) (x := s) (q' := []) (str "PASV") rs tok hconn hsync hsc
      (by intro r hr; rw [List.mem_singleton.1 hr]; exact hs) rfl (by omega)
  obtain ⟨w2, d, h2, tok2, _, hconn2, fr2⟩ := dataConnectT_step ip port w1 tok1 (by rw [fr1.oks]; exact hok)
  obtain ⟨w5, h3, rd⟩ := passiveRestT_accepted cmd (rs.append (replyOf s)) w2 m c act rest d tok2
    (fr2.connected.trans hc1) (fr2.sync _ hs1) (fr2.script.trans hsc1) hm hcw hmain hconn2
  refine ⟨w5, d, ?_, rd.good, rd.dtls, rd.conn, rd.sync, rd.dconn, ?_, rd.act, ?_⟩
  · unfold processPasvT
    refine (bindT_ok h1).trans ?_
    dsimp only
    have hp : parsePasv (replyOf s).text = some (ip, port) := hport
    simp only [neg_of_lt hs hacc, Bool.false_eq_true, if_false, hp]
    refine (bindT_ok h2).trans ?_
    exact h3
  · rw [rd.cf, fr2.cf, fr1.cf]
  · exact CtlL.IsPre.trans fr1.usr (CtlL.IsPre.trans fr2.usr rd.usr)

/-- what follows the choice of the advertisement line in the active set-up of the TLS layer -/
def activeRestT (line cmd : Bytes) (rs : Replies) : MT (Bool × Replies) := do
  let (r, rs) ← processCommandIntoT line rs
  if r.isNegative then pure (false, rs)
  else
    let (r, rs) ← processCommandIntoT cmd rs
    if r.isNegative then pure (false, rs)
    else
      lift dataAccept
      dataHandshake
      pure (true, rs)

theorem activeRestT_accepted (line cmd : Bytes) (rs : Replies) (w1 : WorldT) (s m c : WfReply)
    (act : Option DataAct) (rest : List SGroup) (l : Nat) (tok : TOk w1)
    (hconn : w1.base.connected = true) (hsync : Sync w1.base [])
    (hs : s.wf) (hm : m.wf) (hcw : c.wf) (hacc : s.code < 400) (hmain : m.code < 400)
    (hsc : w1.base.script = (⟨[s], none⟩ :: ⟨[m, c], act⟩ :: rest).map SGroup.enc)
    (hdc : w1.base.conn = some { sock := none, acc := some l }) :
    ∃ w5 d, activeRestT line cmd rs w1 = (.ok (true, (rs.append (replyOf s)).append (replyOf m)), w5) ∧
      Ready w1.base w5 c d (some l) act := by
  obtain ⟨w2, h1, tok2, _, hc2, hs2, hsc2, _, fr2, _⟩ :=
    pciT_step (g := ⟨[s], none⟩) (x := s) (q' := []) line rs tok hconn hsync hsc
      (by intro r hr; rw [List.mem_singleton.1 hr]; exact hs) rfl (by omega)
  obtain ⟨w3, h2, tok3, _, hc3, hs3, _, _, fr3, hact⟩ :=
    pciT_step (g := ⟨[m, c], act⟩) (x := m) (q' := [c]) cmd (rs.append (replyOf s)) tok2 hc2 hs2 hsc2
      (by intro r hr; simp only [List.mem_cons, List.not_mem_nil, or_false] at hr; rcases hr with rfl | rfl <;> assumption)
      rfl (by omega)
  obtain ⟨w4, d, h3, tok4, _, hconn4, fr4⟩ := dataAcceptT_step w3 tok3 l (by rw [fr3.conn, fr2.conn, hdc])
  obtain ⟨w5, h4, hg5, hd5, hb5⟩ := dataHandshake_step w4 tok4
  refine ⟨w5, d, ?_, hg5, hd5, ?_, ?_, ?_, ?_, ?_, ?_⟩
  · unfold activeRestT
    refine (bindT_ok h1).trans ?_
    dsimp only
    simp only [neg_of_lt hs hacc, Bool.false_eq_true, if_false]
    refine (bindT_ok h2).trans ?_
    dsimp only
    simp only [neg_of_lt hm hmain, Bool.false_eq_true, if_false]
    refine (bindT_ok h3).trans ?_
    exact (bindT_ok h4).trans rfl
  · rw [hb5, fr4.connected]; exact hc3
  · rw [hb5]; exact fr4.sync _ hs3
  · rw [hb5]; exact hconn4
  · rw [hb5, fr4.cf, fr3.cf, fr2.cf]
  · intro a ha
    rw [hb5, fr4.act]
    exact hact a ha
  · rw [hb5]
    exact CtlL.IsPre.trans fr2.usr (CtlL.IsPre.trans fr3.usr fr4.usr)

theorem processActiveT_accepted (eprt : Bool) (cmd : Bytes) (rs : Replies) (w : WorldT) (s m c : WfReply)
    (act : Option DataAct) (rest : List SGroup) (tok : TOk w)
    (hstep : InStep w.base []) (hs : s.wf) (hm : m.wf) (hcw : c.wf) (hacc : s.code < 400) (hmain : m.code < 400)
    (hsc : w.base.script = (⟨[s], none⟩ :: ⟨[m, c], act⟩ :: rest).map SGroup.enc)
    (hv6 : eprt = false → w.base.v6 = false) :
    ∃ w5 d l, processActiveT eprt cmd rs w = (.ok (true, (rs.append (replyOf s)).append (replyOf m)), w5) ∧
      Ready w.base w5 c d (some l) act := by
  obtain ⟨hconn, hsync⟩ := hstep
  obtain ⟨w1, l, h0, tok1, _, hdc1, fr1⟩ := dataListenT_step w tok
  have key : ∀ line, ∃ w5 d, activeRestT line cmd rs w1 =
      (.ok (true, (rs.append (replyOf s)).append (replyOf m)), w5) ∧ Ready w.base w5 c d (some l) act := by
    intro line
    obtain ⟨w5, d, h1, rd⟩ := activeRestT_accepted line cmd rs w1 s m c act rest l tok1 (fr1.connected.trans hconn)
      (fr1.sync _ hsync) hs hm hcw hacc hmain (fr1.script.trans hsc) hdc1
    exact ⟨w5, d, h1, rd.good, rd.dtls, rd.conn, rd.sync, rd.dconn, by rw [rd.cf, fr1.cf], rd.act,
      CtlL.IsPre.trans fr1.usr rd.usr⟩
  cases eprt with
  | true =>
    obtain ⟨w5, d, h1, rd⟩ := key (fmtEprt (if w1.base.v6 = true then Family.v6 else Family.v4) (addrText w1.base)
      (w.base.listenPorts.head?.getD 0))
    refine ⟨w5, d, l, ?_, rd⟩
    unfold processActiveT
    refine (bindT_ok h0).trans ?_
    refine (getT_bind _ _).trans ?_
    exact h1
  | false =>
    obtain ⟨c0, hc0⟩ := activeLine_some false { w1.base with listenPorts := w.base.listenPorts }
      (fun _ => fr1.v6.trans (hv6 rfl))
    have hc' : fmtPort (if w1.base.v6 = true then Family.v6 else Family.v4) (addrText w1.base)
        (w.base.listenPorts.head?.getD 0) = some c0 := hc0
    obtain ⟨w5, d, h1, rd⟩ := key c0
    refine ⟨w5, d, l, ?_, rd⟩
    unfold processActiveT
    refine (bindT_ok h0).trans ?_
    refine (getT_bind _ _).trans ?_
    simp only [Bool.false_eq_true, if_false, hc']
    exact h1

/-- the set-up of the data connection of the TLS layer when both the set-up command and the transfer command are
    accepted and the data handshake succeeds, in all four methods -/
theorem cdcT_accepted (cmd : Bytes) (rs : Replies) (w : WorldT) (s m c : WfReply) (act : Option DataAct)
    (rest : List SGroup) (tok : TOk w) (hstep : InStep w.base []) (hs : s.wf) (hm : m.wf) (hcw : c.wf)
    (hacc : s.code < 400) (hmain : m.code < 400)
    (hpass : w.base.mode = .passive → w.base.connectOks.head? = some true ∧
      (if w.base.rfc then (parseEpsv s.text).isSome else (parsePasv s.text).isSome))
    (hv6 : w.base.mode = .active → w.base.rfc = false → w.base.v6 = false)
    (hsc : w.base.script = (⟨[s], none⟩ :: ⟨[m, c], act⟩ :: rest).map SGroup.enc) :
    ∃ w1 d a, createDataConnectionT cmd rs w = (.ok (true, (rs.append (replyOf s)).append (replyOf m)), w1) ∧
      Ready w.base w1 c d a act := by
  have tok0 : TOk { w with dataTls := false } := ⟨tok.good, tok.ctx, tok.hs⟩
  have hrun : createDataConnectionT cmd rs w = (match w.base.mode, w.base.rfc with
      | .passive, true => processEpsvT cmd rs
      | .passive, false => processPasvT cmd rs
      | .active, true => processActiveT true cmd rs
      | .active, false => processActiveT false cmd rs) { w with dataTls := false } := rfl
  rw [hrun]
  rcases hmo : w.base.mode <;> rcases hr : w.base.rfc <;> simp only
  · obtain ⟨hok, hparse⟩ := hpass hmo
    simp only [hr, Bool.false_eq_true, if_false] at hparse
    obtain ⟨⟨ip, port⟩, hp⟩ := Option.isSome_iff_exists.mp hparse
    obtain ⟨w5, d, h1, rd⟩ := processPasvT_accepted cmd rs { w with dataTls := false } s m c act rest ip port tok0
      hstep hs hm hcw hacc hmain hsc (by show w.base.connectOks.head?.getD false = true; rw [hok]; rfl) hp
    exact ⟨w5, d, none, h1, rd⟩
  · obtain ⟨hok, hparse⟩ := hpass hmo
    simp only [hr, if_true] at hparse
    obtain ⟨port, hp⟩ := Option.isSome_iff_exists.mp hparse
    obtain ⟨w5, d, h1, rd⟩ := processEpsvT_accepted cmd rs { w with dataTls := false } s m c act rest port tok0
      hstep hs hm hcw hacc hmain hsc (by show w.base.connectOks.head?.getD false = true; rw [hok]; rfl) hp
    exact ⟨w5, d, none, h1, rd⟩
  · obtain ⟨w5, d, l, h1, rd⟩ := processActiveT_accepted false cmd rs { w with dataTls := false } s m c act rest tok0
      hstep hs hm hcw hacc hmain hsc (fun _ => hv6 hmo hr)
    exact ⟨w5, d, some l, h1, rd⟩
  · obtain ⟨w5, d, l, h1, rd⟩ := processActiveT_accepted true cmd rs { w with dataTls := false } s m c act rest tok0
      hstep hs hm hcw hacc hmain hsc (fun h => by cases h)
    exact ⟨w5, d, some l, h1, rd⟩

/-- ... and what it appended: events without payload, then the successful handshake -/
theorem cdcT_trace (cmd : Bytes) (rs rs' : Replies) (w w1 : WorldT) (hctx : w.tlsCtx = true)
    (h : createDataConnectionT cmd rs w = (.ok (true, rs'), w1)) :
    ∃ P d o, w1.trace = w.trace ++ (P ++ [EvT.dataTlsHandshake d o true]) ∧ L.NoPay P := by
  obtain ⟨evs, ht, _, hp, hcase⟩ := L.createDataConnectionT_ok cmd rs w
  rw [h] at ht hcase
  rcases hcase with ⟨_, hne⟩ | ⟨P, d, o, ok, rfl, _, _, hok⟩
  · exact absurd rfl (hne hctx rs')
  · cases ok with
    | true => exact ⟨P, d, o, ht, (L.noPay_append.1 hp).1⟩
    | false => cases hok rfl

/-! ### the end of an accepted transfer -/

theorem liftDisc_step (w : WorldT) (hg : Good w) (d : Nat) (a : Option Nat)
    (hconn : w.base.conn = some { sock := some d, acc := a }) (hcl : ∀ b ∈ w.base.closeFails, b = false) :
    ∃ w', lift (dataDisconnect true) w = (.ok (), w') ∧ Good w' ∧ w'.base.connected = w.base.connected ∧
      (∀ q, Sync w.base q → Sync w'.base q) ∧ w'.base.conn = some { sock := none, acc := none } ∧
      Rusr w.base w'.base ∧ ∃ evs, w'.trace = w.trace ++ evs :=
  ⟨_, lift_run hg (dataDisconnect_run (pl w) d a hconn hcl), hg, rfl, fun _ h => h, rfl,
    ⟨rfl, rfl, rfl, rfl, rfl, rfl, rfl, rfl, rfl, rfl⟩, _, rfl⟩

theorem dataDisconnectT_step (w : WorldT) (hg : Good w) (hdt : w.dataTls = true) (d : Nat) (a : Option Nat)
    (hconn : w.base.conn = some { sock := some d, acc := a }) (hcl : ∀ b ∈ w.base.closeFails, b = false) :
    ∃ w', dataDisconnectT true w = (.ok (), w') ∧ Good w' ∧ w'.base.connected = w.base.connected ∧
      (∀ q, Sync w.base q → Sync w'.base q) ∧ w'.base.conn = some { sock := none, acc := none } ∧
      Rusr w.base w'.base ∧ ∃ evs, w'.trace = w.trace ++ evs := by
  obtain ⟨w', h1, g1, g2, g3, g4, g5, evs, g6⟩ :=
    liftDisc_step { w with trace := w.trace ++ [EvT.dataTlsShutdown d] } hg d a hconn hcl
  refine ⟨w', ?_, g1, g2, g3, g4, g5, [EvT.dataTlsShutdown d] ++ evs, by rw [g6, List.append_assoc]⟩
  unfold dataDisconnectT
  refine (getT_bind _ _).trans ?_
  simp only [hdt, if_true, hconn]
  refine (bindT_ok (emitT_run _ _)).trans ?_
  exact h1

theorem recvT_step (rs : Replies) (w : WorldT) (hg : Good w) (x : WfReply) (q : List WfReply)
    (hc : w.base.connected = true) (hs : Sync w.base (x :: q)) :
    ∃ w', lift (recvInto rs) w = (.ok (replyOf x, rs.append (replyOf x)), w') ∧ Good w' ∧
      w'.base.conn = w.base.conn ∧ Rusr w.base w'.base ∧ ∃ evs, w'.trace = w.trace ++ evs := by
  obtain ⟨c', net', h1, _⟩ := ctlRecv_sync (w := pl w) hc hs
  exact ⟨_, lift_run hg (recvInto_run rs h1), hg, rfl, ⟨rfl, rfl, rfl, rfl, rfl, rfl, rfl, rfl, rfl, rfl⟩, _, rfl⟩

theorem finishTransferT_step (rs : Replies) (w : WorldT) (c : WfReply) (hg : Good w) (hdt : w.dataTls = true)
    (d : Nat) (a : Option Nat) (hc : w.base.connected = true) (hs : Sync w.base [c])
    (hconn : w.base.conn = some { sock := some d, acc := a }) (hcl : ∀ b ∈ w.base.closeFails, b = false) :
    ∃ w', finishTransferT rs w = (.ok (rs.append (replyOf c)), w') ∧ Good w' ∧
      w'.base.conn = some { sock := none, acc := none } ∧ Rusr w.base w'.base ∧
      ∃ evs, w'.trace = w.trace ++ evs := by
  obtain ⟨w1, h1, g1, g2, g3, g4, g5, e1, g6⟩ := dataDisconnectT_step w hg hdt d a hconn hcl
  obtain ⟨w2, h2, k1, k2, k3, e2, k4⟩ := recvT_step rs w1 g1 c [] (g2.trans hc) (g3 _ hs)
  refine ⟨w2, ?_, k1, k2.trans g4, CtlL.IsPre.trans g5 k3, e1 ++ e2, by rw [k4, g6, List.append_assoc]⟩
  unfold finishTransferT
  refine (bindT_ok h1).trans ?_
  refine (bindT_ok h2).trans ?_
  rfl

theorem cleanupT_step (w : WorldT) (hg : Good w) (hconn : w.base.conn = some { sock := none, acc := none }) :
    ∃ w', cleanupT w = (.ok (), w') ∧ w'.base.conn = none ∧ Rusr w.base w'.base ∧
      ∃ evs, w'.trace = w.trace ++ evs := by
  have h1 := lift_run hg (destroyConn_run (pl w) hconn)
  refine ⟨{ recW w { pl w with conn := none } with dataTls := false }, ?_, ?_, ?_, ?_⟩
  · unfold cleanupT
    refine (bindT_ok h1).trans ?_
    rfl
  · rfl
  · exact ⟨rfl, rfl, rfl, rfl, rfl, rfl, rfl, rfl, rfl, rfl⟩
  · exact ⟨_, rfl⟩

theorem scopedT_ok {α} {body : MT α} {cleanup : MT Unit} {w w1 w2 : WorldT} {a : α} {u : Unit}
    (h1 : body w = (.ok a, w1)) (h2 : cleanup w1 = (.ok u, w2)) : scopedT body cleanup w = (.ok a, w2) := by
  unfold scopedT
  rw [h1]
  simp only
  rw [h2]

theorem liftMkCmd_succ (v : String) (a : Bytes) (w : WorldT) (ha : hasCrLf a = false) :
    lift (mkCmd v (some a)) w = (.ok (str v ++ [SP] ++ a), w) := by
  rw [L.lift_mkCmd]
  unfold makeCommand
  simp only [ha, Bool.false_eq_true, if_false]

/-- an undisturbed receive through the TLS layer -/
theorem dataRecvT_step (w : WorldT) (hg : Good w) (payload : Bytes) (reads : List Nat) (more : List (Option Nat))
    (hb : ∀ n ∈ reads, 0 < n ∧ n ≤ 8192) (hsum : reads.sum = payload.length)
    (hact : w.base.act = some (.send payload)) (hreads : w.base.dataReads = reads.map some ++ some 0 :: more)
    (hsink : w.base.sinkFailAt = none) :
    ∃ w', lift (dataRecv false w.base.ttype) w = (.ok (), w') ∧ Good w' ∧ w'.dataTls = w.dataTls ∧
      w'.base.sinkFlushes = w.base.sinkFlushes + 1 ∧
      w'.base.sink = w.base.sink ++ (match w.base.ttype with | .binary => payload | .ascii => Spec.dlSpec payload) ∧
      w'.base.connected = w.base.connected ∧ (∀ q, Sync w.base q → Sync w'.base q) ∧
      w'.base.conn = w.base.conn ∧ w'.base.closeFails = w.base.closeFails ∧ ∃ evs, w'.trace = w.trace ++ evs := by
  obtain ⟨b2, hmv, f1, f2, hdat, hcf⟩ := dataRecv_sink (pl w) payload reads more hb hsum hact hreads hsink
  exact ⟨_, lift_run hg hmv, hg, rfl, f1, f2, hdat.2.2.2.1, fun q hq => (sync_of_dat (w := pl w) (w' := b2) hdat hq : Sync b2 q), hcf.1, hcf.2, _, rfl⟩

/-- an accepted download through the TLS layer, from the call to the scope exit -/
theorem downloadT_run (path : Bytes) (w : WorldT) (s m c : WfReply) (payload : Bytes) (reads : List Nat)
    (more : List (Option Nat)) (rest : List SGroup) (tok : TOk w)
    (hstep : InStep w.base []) (hpath : hasCrLf path = false)
    (hs : s.wf) (hm : m.wf) (hc : c.wf) (hacc : s.code < 400) (hmain : m.code < 400)
    (hpass : w.base.mode = .passive → w.base.connectOks.head? = some true ∧
      (if w.base.rfc then (parseEpsv s.text).isSome else (parsePasv s.text).isSome))
    (hv6 : w.base.mode = .active → w.base.rfc = false → w.base.v6 = false)
    (hsc : w.base.script = (⟨[s], none⟩ :: ⟨[m, c], some (.send payload)⟩ :: rest).map SGroup.enc)
    (hclose : ∀ b ∈ w.base.closeFails, b = false)
    (hb : ∀ n ∈ reads, 0 < n ∧ n ≤ 8192) (hsum : reads.sum = payload.length)
    (hreads : w.base.dataReads = reads.map some ++ some 0 :: more)
    (hsink : w.base.sinkFailAt = none) :
    ∃ w' P d o Q, downloadT path w =
        (.ok (((Replies.empty.append (replyOf s)).append (replyOf m)).append (replyOf c)), w') ∧
      w'.base.sink = w.base.sink ++ (match w.base.ttype with | .binary => payload | .ascii => Spec.dlSpec payload) ∧
      w'.base.sinkFlushes = w.base.sinkFlushes + 1 ∧ w'.base.conn = none ∧
      w'.trace = w.trace ++ (P ++ EvT.dataTlsHandshake d o true :: Q) ∧ L.NoPay P := by
  have h0 := liftMkCmd_succ "RETR" path w hpath
  obtain ⟨w1, d, a, h1, rd⟩ := cdcT_accepted (str "RETR" ++ [SP] ++ path) Replies.empty w s m c (some (.send payload))
    rest tok hstep hs hm hc hacc hmain hpass hv6 hsc
  obtain ⟨P, d', o, ht1, hP⟩ := cdcT_trace _ _ _ w w1 tok.ctx h1
  obtain ⟨u1, u2, u3, u4, u5, u6, u7, u8, u9, u10⟩ := rd.usr
  obtain ⟨w2, h2, g2, dt2, f1, f2, c2, s2, dc2, cf2, e2, ht2⟩ := dataRecvT_step w1 rd.good payload reads more hb hsum
    (rd.act _ rfl) (u6.trans hreads) (u4.trans hsink)
  obtain ⟨w3, h3, g3, dc3, usr3, e3, ht3⟩ := finishTransferT_step ((Replies.empty.append (replyOf s)).append (replyOf m))
    w2 c g2 (dt2.trans rd.dtls) d a (c2.trans rd.conn) (s2 _ rd.sync) (dc2.trans rd.dconn)
    (by rw [cf2, rd.cf]; exact hclose)
  obtain ⟨w4, h4, dc4, usr4, e4, ht4⟩ := cleanupT_step w3 g3 dc3
  refine ⟨w4, P, d', o, e2 ++ (e3 ++ e4), ?_, ?_, ?_, dc4, ?_, hP⟩
  · unfold downloadT
    refine scopedT_ok ?_ h4
    refine (bindT_ok h0).trans ?_
    refine (bindT_ok h1).trans ?_
    dsimp only
    simp only [if_true]
    refine (getT_bind _ _).trans ?_
    refine (bindT_ok h2).trans ?_
    exact h3
  · rw [usr4.2.1, usr3.2.1, f2, u2, u1]
  · rw [usr4.2.2.1, usr3.2.2.1, f1, u3]
  · rw [ht4, ht3, ht2, ht1]
    simp only [List.append_assoc, List.cons_append, List.nil_append]

end Ftp.ClientTls.D
